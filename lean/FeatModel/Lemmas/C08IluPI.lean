import FeatModel.Lemmas.C08IluPIFactor
import FeatModel.Lemmas.C08IluPIEq
/-! C08 (partial-inverse port): the executed merge-pointer `factorizeNumeric` over a `Ring` with a PARTIAL inverse
`1 / ·` (the algebra of the block ILU `ILUCoreBlocked`: `bs × bs` blocks, `1 / x` = `Tiny::set_inverse`, meaningful only
for invertible blocks) reproduces the copied matrix on the symbolic pattern, with the multiplications in the order of the
model: `L_ij ← L_ij * D_jj⁻¹` (inverse pivot from the RIGHT), `w_ik -= L_ij * U_jk`, `D_ii ← 1 / D_ii`.  No field or
division-ring law is assumed: only `hlaw` (a computed inverse that is itself inverted correctly was a correct inverse)
and the checkable pivot hypothesis `hpiv` (every stored inverted pivot is inverted by `1 / ·`). -/
open Finset
namespace FeatModel.Solver.PI
open FeatModel.LA FeatModel.Solver

variable {α : Type} [Ring α] [Div α]

/-- `factorize_numeric_il_du` as executed (merge pointers), over a ring with partial inverse: with `f` the result on the
    input data `d0`, `D = 1 / f.dataD` (the stored pivots are inverted) and stored pivots that `1 / ·` inverts,
    `((I+L)(D+U))_{ic} = (d0)_{ic}` on the pattern, the products being `L_ik * U_kc` and `L_ic * D_c`. -/
theorem ilu_factor_pi (s : IluSym) (hs : s.wf = true) (hso : s.sorted = true) (d0 : IluNum α)
    (hl : d0.dataL.size = s.ciL.size) (hu : d0.dataU.size = s.ciU.size) (hdd : d0.dataD.size = s.n)
    (hlaw : ∀ x : α, ((1 / x) * (1 / (1 / x)) = 1 ∧ (1 / (1 / x)) * (1 / x) = 1) →
      (x * (1 / x) = 1 ∧ (1 / x) * x = 1))
    (hpiv : ∀ i, i < s.n → let v := (factorizeNumeric s d0).dataD.getD i 0; v * (1 / v) = 1 ∧ (1 / v) * v = 1)
    (i c : Nat) (hi : i < s.n) (hc : c < s.n) (hp : s.inPattern i c) :
    ∑ k ∈ range (min i c), (s.matL (factorizeNumeric s d0)).entry i k * (s.matU (factorizeNumeric s d0)).entry k c
      + (if c < i then (s.matL (factorizeNumeric s d0)).entry i c * (1 / (factorizeNumeric s d0).dataD.getD c 0)
         else if c = i then 1 / (factorizeNumeric s d0).dataD.getD i 0
         else (s.matU (factorizeNumeric s d0)).entry i c)
      = s.dense d0 i c := by
  have he := factorizeNumeric_eq_S_pi s hs hso d0 ⟨hl, hu, hdd⟩
  rw [he] at hpiv ⊢
  exact factorizeNumericS_spec_pi s hs hso d0 hl hu hdd hlaw hpiv i c hi hc hp

/-- the law `hlaw` holds in every division ring (so `ilu_factor_pi` contains the division-ring theorem
    `NC.ilu_factor_nc`): if `1 / x` has an inverse, then `x ≠ 0` -/
theorem invLaw_divisionRing {K : Type} [DivisionRing K] : InvLaw K := by
  intro x h
  have hx : x ≠ 0 := by
    intro h0
    rw [h0, div_zero, zero_mul] at h
    exact zero_ne_one h.1
  exact ⟨mul_one_div_cancel hx, one_div_mul_cancel hx⟩

/-- the division-ring case as an instance of `ilu_factor_pi`: non-zero stored pivots suffice -/
theorem ilu_factor_pi_divisionRing {K : Type} [DivisionRing K] (s : IluSym) (hs : s.wf = true) (hso : s.sorted = true)
    (d0 : IluNum K) (hl : d0.dataL.size = s.ciL.size) (hu : d0.dataU.size = s.ciU.size) (hdd : d0.dataD.size = s.n)
    (hpiv : ∀ i, i < s.n → (factorizeNumeric s d0).dataD.getD i 0 ≠ 0)
    (i c : Nat) (hi : i < s.n) (hc : c < s.n) (hp : s.inPattern i c) :
    ∑ k ∈ range (min i c), (s.matL (factorizeNumeric s d0)).entry i k * (s.matU (factorizeNumeric s d0)).entry k c
      + (if c < i then (s.matL (factorizeNumeric s d0)).entry i c * (1 / (factorizeNumeric s d0).dataD.getD c 0)
         else if c = i then 1 / (factorizeNumeric s d0).dataD.getD i 0
         else (s.matU (factorizeNumeric s d0)).entry i c)
      = s.dense d0 i c :=
  ilu_factor_pi s hs hso d0 hl hu hdd invLaw_divisionRing
    (fun j hj => ⟨mul_one_div_cancel (hpiv j hj), one_div_mul_cancel (hpiv j hj)⟩) i c hi hc hp

end FeatModel.Solver.PI
