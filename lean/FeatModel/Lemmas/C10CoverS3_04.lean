import FeatModel.Model.RefineCover
/-! C10 local refinement lemma, tetrahedron, pairwise covering family, configurations 28..34 (kernel evaluation). -/
namespace FeatModel.Refine
set_option maxRecDepth 100000

theorem cover_tetra_04 : ∀ j < 7, (refine (cell3c .simplex (j + 28))).consistent = true := by decide +kernel

end FeatModel.Refine
