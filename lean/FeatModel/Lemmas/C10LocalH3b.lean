import FeatModel.Model.RefineSpec
/-! C10 local refinement lemma, hexahedron, covering family part b (see `cell3`): kernel evaluation of the
generated tables. -/
namespace FeatModel.Refine
set_option maxRecDepth 100000

theorem local_hexa_b : ∀ j < 4, (refine (cell3 .hypercube (j + 4))).consistent = true := by decide +kernel

theorem local_hexa_input_b : ∀ j < 4, (cell3 .hypercube (j + 4)).consistent = true := by decide +kernel

end FeatModel.Refine
