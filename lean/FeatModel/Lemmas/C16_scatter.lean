import FeatModel.Model.Assembly
import Mathlib.Tactic.Ring
import Mathlib.Algebra.BigOperators.Group.List.Basic
/-!
Helper lemmas for C16, part 1: the CSR scatter loop.
`_col_ptr` scratch array, data updates, dense meaning (`Pattern.apply`) of the result.
-/
namespace C16L
open FeatModel.Asm FeatModel.Adj

/-! ### the column-pointer loop -/

def foldCp (col : Nat → Nat) (l : List Nat) (cp : Array (Option Nat)) : Array (Option Nat) :=
  l.foldl (fun cp k => cp.setIfInBounds (col k) (some k)) cp

theorem buildColPtr_eq (p : Pattern) (ix : Nat) (cp : Array (Option Nat)) :
    buildColPtr p ix cp = foldCp p.col (p.seg ix) cp := rfl

theorem foldCp_size (col : Nat → Nat) (l : List Nat) (cp : Array (Option Nat)) :
    (foldCp col l cp).size = cp.size := by
  induction l generalizing cp with
  | nil => rfl
  | cons k t ih => simp only [foldCp, List.foldl_cons] at ih ⊢; rw [ih]; simp

theorem foldCp_untouched (col : Nat → Nat) (l : List Nat) (cp : Array (Option Nat)) (c : Nat)
    (h : ∀ k ∈ l, col k ≠ c) : (foldCp col l cp).getD c none = cp.getD c none := by
  induction l generalizing cp with
  | nil => rfl
  | cons k t ih =>
    simp only [foldCp, List.foldl_cons] at ih ⊢
    rw [ih _ (fun k' hk' => h k' (List.mem_cons_of_mem _ hk'))]
    have hk : col k ≠ c := h k (List.mem_cons_self ..)
    simp only [Array.getD_eq_getD_getElem?, Array.getElem?_setIfInBounds, if_neg hk]

theorem foldCp_hit (col : Nat → Nat) (l : List Nat) (cp : Array (Option Nat)) (c : Nat) (hc : c < cp.size)
    (h : ∃ k ∈ l, col k = c) : ∃ k ∈ l, col k = c ∧ (foldCp col l cp).getD c none = some k := by
  induction l generalizing cp with
  | nil => obtain ⟨k, hk, _⟩ := h; cases hk
  | cons k t ih =>
    by_cases ht : ∃ k' ∈ t, col k' = c
    · obtain ⟨k', hk', hcol, hget⟩ := ih (cp.setIfInBounds (col k) (some k)) (by simpa using hc) ht
      exact ⟨k', List.mem_cons_of_mem _ hk', hcol, by simpa [foldCp] using hget⟩
    · have hkc : col k = c := by
        obtain ⟨k', hk', hcol⟩ := h
        rcases List.mem_cons.mp hk' with rfl | hk'
        · exact hcol
        · exact absurd ⟨k', hk', hcol⟩ ht
      refine ⟨k, List.mem_cons_self .., hkc, ?_⟩
      have hun := foldCp_untouched col t (cp.setIfInBounds (col k) (some k)) c
        (fun k' hk' hcol => ht ⟨k', hk', hcol⟩)
      simp only [foldCp, List.foldl_cons] at hun ⊢
      rw [hun]
      simp only [Array.getD_eq_getD_getElem?, Array.getElem?_setIfInBounds, hkc, if_pos hc, if_true, Option.getD_some]

/-! ### one data update and the dense meaning -/

variable {α : Type} [CommRing α]

theorem getD_modify_self (d : Array α) (k : Nat) (δ : α) (hk : k < d.size) :
    (d.modify k (· + δ)).getD k 0 = d.getD k 0 + δ := by
  simp only [Array.getD_eq_getD_getElem?, Array.getElem?_modify, if_true]
  rw [Array.getElem?_eq_getElem hk]; simp

theorem getD_modify_ne (d : Array α) (k j : Nat) (δ : α) (hkj : k ≠ j) :
    (d.modify k (· + δ)).getD j 0 = d.getD j 0 := by
  simp only [Array.getD_eq_getD_getElem?, Array.getElem?_modify, if_neg hkj]

theorem sum_modify (d : Array α) (k0 : Nat) (δ : α) (w : Nat → α) (l : List Nat) (hl : l.Nodup)
    (hk : k0 < d.size) :
    (l.map fun k => (d.modify k0 (· + δ)).getD k 0 * w k).sum =
      (l.map fun k => d.getD k 0 * w k).sum + (if k0 ∈ l then δ * w k0 else 0) := by
  induction l with
  | nil => simp
  | cons a t ih =>
    have hnd := List.nodup_cons.mp hl
    simp only [List.map_cons, List.sum_cons]
    rw [ih hnd.2]
    by_cases ha : k0 = a
    · subst ha
      rw [getD_modify_self d k0 δ hk]
      simp only [List.mem_cons, true_or, if_true, if_neg hnd.1]
      ring
    · rw [getD_modify_ne d k0 a δ ha]
      have : (k0 ∈ a :: t) = (k0 ∈ t) := by simp [ha]
      simp only [this]
      ring

/-- generic dense meaning: `(A x)_r = Σ_{k ∈ seg r} a_k x_{col k}` (CSR: `Pattern.apply`, banded: `bandedApply`) -/
def applyG (seg : Nat → List Nat) (col : Nat → Nat) (d : Array α) (x : Nat → α) (r : Nat) : α :=
  ((seg r).map fun k => d.getD k 0 * x (col k)).sum

/-- the positions of a row are distinct, rows are disjoint, everything lies inside the data array -/
structure SegOKG (seg : Nat → List Nat) (n : Nat) : Prop where
  nodup : ∀ r, (seg r).Nodup
  disj : ∀ r r' k, k ∈ seg r → k ∈ seg r' → r = r'
  bound : ∀ r k, k ∈ seg r → k < n

/-- effect of one update `data[k] += δ` with `k` in row `ix` on the dense meaning -/
theorem applyG_modify (seg : Nat → List Nat) (col : Nat → Nat) (d : Array α) (ix k : Nat) (δ : α) (hk : k ∈ seg ix)
    (hok : SegOKG seg d.size) (x : Nat → α) (r : Nat) :
    applyG seg col (d.modify k (· + δ)) x r = applyG seg col d x r + (if r = ix then δ * x (col k) else 0) := by
  unfold applyG
  rw [sum_modify d k δ (fun k => x (col k)) (seg r) (hok.nodup r) (hok.bound ix k hk)]
  by_cases hr : r = ix
  · subst hr; simp [hk]
  · have : k ∉ seg r := fun h => hr (hok.disj r ix k h hk)
    simp [this, hr]

/-! ### inner loop -/

theorem scatterColsG_spec (seg : Nat → List Nat) (col : Nat → Nat) (cp : Array (Option Nat)) (alpha : α) (f : Nat → α)
    (ix : Nat) (cols : List (Nat × Nat)) (d : Array α) (hok : SegOKG seg d.size)
    (hcp : ∀ jx j, (jx, j) ∈ cols → ∃ k ∈ seg ix, col k = jx ∧ cp.getD jx none = some k) :
    ∃ d', scatterCols cp alpha f cols d = some d' ∧ d'.size = d.size ∧
      ∀ (x : Nat → α) (r : Nat), applyG seg col d' x r = applyG seg col d x r +
        (if r = ix then alpha * (cols.map fun (jx, j) => f j * x jx).sum else 0) := by
  induction cols generalizing d with
  | nil => exact ⟨d, rfl, rfl, fun x r => by simp⟩
  | cons c t ih =>
    obtain ⟨jx, j⟩ := c
    obtain ⟨k, hk, hcol, hget⟩ := hcp jx j (List.mem_cons_self ..)
    have hsz : (d.modify k (· + alpha * f j)).size = d.size := Array.size_modify
    obtain ⟨d', hd', hsize, hsem⟩ := ih (d.modify k (· + alpha * f j)) (by rw [hsz]; exact hok)
      (fun jx' j' h => hcp jx' j' (List.mem_cons_of_mem _ h))
    refine ⟨d', ?_, by rw [hsize, hsz], fun x r => ?_⟩
    · simp only [scatterCols, hget]; exact hd'
    · rw [hsem x r, applyG_modify seg col d ix k (alpha * f j) hk hok x r, hcol]
      by_cases hr : r = ix
      · simp only [hr, if_true, List.map_cons, List.sum_cons]; ring
      · simp [hr]

/-! ### outer loop -/

/-- the contribution of a list of local rows/columns: `Σ_(ix,i) [ix = r] Σ_(jx,j) loc i j * x jx` -/
def contribL (loc : Nat → Nat → α) (rows cols : List (Nat × Nat)) (x : Nat → α) (r : Nat) : α :=
  (rows.map fun (ix, i) => if ix = r then (cols.map fun (jx, j) => loc i j * x jx).sum else 0).sum

theorem scatterRowsG_spec (seg : Nat → List Nat) (col : Nat → Nat)
    (build : Nat → Array (Option Nat) → Array (Option Nat)) (alpha : α) (loc : Nat → Nat → α)
    (cols rows : List (Nat × Nat)) (st : ScatterSt α) (hok : SegOKG seg st.data.size)
    (hbuild : ∀ ix i, (ix, i) ∈ rows → ∀ cp, build ix cp = foldCp col (seg ix) cp)
    (hcols : ∀ jx j, (jx, j) ∈ cols → jx < st.colPtr.size)
    (hcov : ∀ ix i, (ix, i) ∈ rows → ∀ jx j, (jx, j) ∈ cols → ∃ k ∈ seg ix, col k = jx) :
    ∃ st', scatterRowsG build alpha loc cols rows st = some st' ∧ st'.data.size = st.data.size ∧
      st'.colPtr.size = st.colPtr.size ∧
      ∀ (x : Nat → α) (r : Nat), applyG seg col st'.data x r = applyG seg col st.data x r + alpha * contribL loc rows cols x r := by
  induction rows generalizing st with
  | nil => exact ⟨st, rfl, rfl, rfl, fun x r => by simp [contribL]⟩
  | cons c t ih =>
    obtain ⟨ix, i⟩ := c
    have hb := hbuild ix i (List.mem_cons_self ..) st.colPtr
    have hcpsz : (build ix st.colPtr).size = st.colPtr.size := by
      rw [hb]; exact foldCp_size ..
    have hcp : ∀ jx j, (jx, j) ∈ cols → ∃ k ∈ seg ix, col k = jx ∧
        (build ix st.colPtr).getD jx none = some k := by
      intro jx j hj
      rw [hb]
      exact foldCp_hit col (seg ix) st.colPtr jx (hcols jx j hj) (hcov ix i (List.mem_cons_self ..) jx j hj)
    obtain ⟨d', hd', hsize, hsem⟩ := scatterColsG_spec seg col (build ix st.colPtr) alpha (loc i) ix cols st.data hok hcp
    obtain ⟨st', hst', hs1, hs2, hsem'⟩ := ih ⟨build ix st.colPtr, d'⟩ (by simpa [hsize] using hok)
      (fun ix' i' h => hbuild ix' i' (List.mem_cons_of_mem _ h))
      (fun jx j hj => by simpa [hcpsz] using hcols jx j hj)
      (fun ix' i' h => hcov ix' i' (List.mem_cons_of_mem _ h))
    refine ⟨st', ?_, by simpa [hsize] using hs1, by simpa [hcpsz] using hs2, fun x r => ?_⟩
    · simp only [scatterRowsG, hd']; exact hst'
    · rw [hsem' x r]
      simp only [hsem x r, contribL, List.map_cons, List.sum_cons]
      by_cases hr : r = ix
      · simp only [hr, if_true]; ring
      · have hr' : ix ≠ r := fun h => hr h.symm
        simp only [hr, hr', if_false]; ring

/-! ### the CSR instance -/

/-- segments of different rows are disjoint and lie inside the data array -/
def SegOK (p : Pattern) (n : Nat) : Prop :=
  (∀ r r' k, k ∈ p.seg r → k ∈ p.seg r' → r = r') ∧ (∀ r k, k ∈ p.seg r → k < n)

theorem seg_nodup (p : Pattern) (r : Nat) : (p.seg r).Nodup := List.nodup_range' 1

theorem SegOK.toG {p : Pattern} {n : Nat} (h : SegOK p n) : SegOKG p.seg n :=
  ⟨seg_nodup p, h.1, h.2⟩

theorem apply_eq_applyG (p : Pattern) (d : Array α) (x : Nat → α) (r : Nat) :
    p.apply d x r = applyG p.seg p.col d x r := rfl

theorem scatterRows_spec (p : Pattern) (alpha : α) (loc : Nat → Nat → α) (cols rows : List (Nat × Nat))
    (st : ScatterSt α) (hok : SegOK p st.data.size)
    (hcols : ∀ jx j, (jx, j) ∈ cols → jx < st.colPtr.size)
    (hcov : ∀ ix i, (ix, i) ∈ rows → ∀ jx j, (jx, j) ∈ cols → ∃ k ∈ p.seg ix, p.col k = jx) :
    ∃ st', scatterRows p alpha loc cols rows st = some st' ∧ st'.data.size = st.data.size ∧
      st'.colPtr.size = st.colPtr.size ∧
      ∀ (x : Nat → α) (r : Nat), p.apply st'.data x r = p.apply st.data x r + alpha * contribL loc rows cols x r :=
  scatterRowsG_spec p.seg p.col (buildColPtr p) alpha loc cols rows st hok.toG
    (fun ix _ _ cp => buildColPtr_eq p ix cp) hcols hcov

end C16L
