import FeatModel.Lemmas.C14Refine1D
import FeatModel.Lemmas.C14TensorQ
/-! # C14: refinement keeps EVERY degree on squares and cubes (no degree bound): the expansion of the pulled-back
    monomial factorises over the coordinates (the child maps are diagonal), which reduces the subdivision identity to
    the one-dimensional one -/
namespace FeatModel.Cub

theorem applyQ_eq_fullQ (F : List Nat → Rat) : ∀ (p : IPoly), applyQ F p = fullQ (fun g => F g.tail) p
  | [] => rfl
  | t :: p => by simp only [applyQ, fullQ, applyQ_eq_fullQ F p]

theorem mem_pmul {p q : IPoly} {u : Int × List Nat} (h : u ∈ pmul p q) :
    ∃ s ∈ p, ∃ t ∈ q, u.2 = gadd s.2 t.2 := by
  unfold pmul at h
  obtain ⟨s, hs, hu⟩ := List.mem_flatMap.1 h
  obtain ⟨t, ht, rfl⟩ := List.mem_map.1 hu
  exact ⟨s, hs, t, ht, rfl⟩

theorem fullQ_map_pair (ψ : List Nat → Rat) (s : Int × List Nat) (c : Rat) (ψb : List Nat → Rat) : ∀ (q : IPoly),
    (∀ t ∈ q, ψ (gadd s.2 t.2) = c * ψb t.2) →
    fullQ ψ (q.map fun t => (s.1 * t.1, gadd s.2 t.2)) = (s.1 : Rat) * c * fullQ ψb q
  | [], _ => by simp [fullQ]
  | t :: q, h => by
    simp only [List.map_cons, fullQ, h t List.mem_cons_self,
      fullQ_map_pair ψ s c ψb q (fun r hr => h r (List.mem_cons_of_mem _ hr))]
    push_cast; ring

/-- bilinearity: if the functional of a product monomial splits into a factor of each side, the value on the
    product polynomial is the product of the values -/
theorem fullQ_pmul (ψ ψa ψb : List Nat → Rat) (q : IPoly) : ∀ (p : IPoly),
    (∀ s ∈ p, ∀ t ∈ q, ψ (gadd s.2 t.2) = ψa s.2 * ψb t.2) → fullQ ψ (pmul p q) = fullQ ψa p * fullQ ψb q
  | [], _ => by simp [pmul, fullQ]
  | s :: p, h => by
    have ih := fullQ_pmul ψ ψa ψb q p (fun r hr => h r (List.mem_cons_of_mem _ hr))
    unfold pmul at ih ⊢
    simp only [List.flatMap_cons, fullQ_append, fullQ, ih,
      fullQ_map_pair ψ s (ψa s.2) ψb q (fun t ht => h s List.mem_cons_self t ht)]
    ring

/-! ## expansions of `(σ·h + x_j)^k`: the row `σ :: (0,..,0,1,0,..,0)` -/

theorem mem_expandPow_zeros : ∀ (b r : Nat) (u : Int × List Nat), u ∈ expandPow (List.replicate b 0) r →
    r = 0 ∧ u.2 = List.replicate b 0
  | 0, r, u, h => by
    simp only [List.replicate] at h
    unfold expandPow at h
    split at h
    · rename_i h0
      simp only [List.mem_singleton] at h; subst h; exact ⟨h0, rfl⟩
    · simp at h
  | b + 1, r, u, h => by
    simp only [List.replicate] at h
    unfold expandPow at h
    rw [if_pos rfl] at h
    obtain ⟨v, hv, rfl⟩ := List.mem_map.1 h
    have := mem_expandPow_zeros b r v hv
    exact ⟨this.1, by simp [List.replicate, this.2]⟩

theorem mem_expandPow_unit : ∀ (a b m : Nat) (u : Int × List Nat),
    u ∈ expandPow (List.replicate a 0 ++ 1 :: List.replicate b 0) m →
    u.2 = List.replicate a 0 ++ m :: List.replicate b 0
  | 0, b, m, u, h => by
    simp only [List.replicate, List.nil_append] at h ⊢
    unfold expandPow at h
    rw [if_neg (by decide)] at h
    obtain ⟨i, hi, hu⟩ := List.mem_flatMap.1 h
    obtain ⟨v, hv, rfl⟩ := List.mem_map.1 hu
    have := mem_expandPow_zeros b (m - i) v hv
    have him : i < m + 1 := List.mem_range.1 hi
    have : i = m := by omega
    subst this
    simp [(mem_expandPow_zeros b _ v hv).2]
  | a + 1, b, m, u, h => by
    simp only [List.replicate, List.cons_append] at h ⊢
    unfold expandPow at h
    rw [if_pos rfl] at h
    obtain ⟨v, hv, rfl⟩ := List.mem_map.1 h
    simp [mem_expandPow_unit a b m v hv]

theorem mem_expandPow_row (σ : Int) (pat : List Int) (k : Nat) (u : Int × List Nat)
    (h : u ∈ expandPow (σ :: pat) k) : ∃ i, i ≤ k ∧ ∃ v ∈ expandPow pat (k - i), u.2 = i :: v.2 := by
  unfold expandPow at h
  split at h
  · obtain ⟨v, hv, rfl⟩ := List.mem_map.1 h
    exact ⟨0, Nat.zero_le _, v, by simpa using hv, rfl⟩
  · obtain ⟨i, hi, hu⟩ := List.mem_flatMap.1 h
    obtain ⟨v, hv, rfl⟩ := List.mem_map.1 hu
    exact ⟨i, by have := List.mem_range.1 hi; omega, v, hv, rfl⟩

theorem fullQ_expandPow_zeros (φ : List Nat → Rat) : ∀ (b r : Nat),
    fullQ φ (expandPow (List.replicate b 0) r) = if r = 0 then φ (List.replicate b 0) else 0
  | 0, r => by
    simp only [List.replicate]
    unfold expandPow
    split <;> simp [fullQ]
  | b + 1, r => by
    simp only [List.replicate]
    unfold expandPow
    rw [if_pos rfl, fullQ_map_cons, fullQ_expandPow_zeros (fun g => φ (0 :: g)) b r]
    split <;> simp

theorem fullQ_expandPow_unit (φ : List Nat → Rat) : ∀ (a b m : Nat),
    fullQ φ (expandPow (List.replicate a 0 ++ 1 :: List.replicate b 0) m) =
      φ (List.replicate a 0 ++ m :: List.replicate b 0)
  | 0, b, m => by
    simp only [List.replicate, List.nil_append]
    unfold expandPow
    rw [if_neg (by decide), fullQ_flatMap]
    have hg : ∀ j, fullQ φ ((expandPow (List.replicate b 0) (m - j)).map fun t =>
        ((binom m j : Int) * ipow 1 j * t.1, j :: t.2)) =
        if m - j = 0 then (binom m j : Rat) * φ (j :: List.replicate b 0) else 0 := by
      intro j
      rw [fullQ_map_cons, fullQ_expandPow_zeros]
      split <;> simp [ipow_eq]
    simp only [hg]
    rw [sum_range_last _ m (fun j hj => by rw [if_neg (by omega)])]
    simp [binom_eq (le_refl m)]
  | a + 1, b, m => by
    simp only [List.replicate, List.cons_append]
    unfold expandPow
    rw [if_pos rfl, fullQ_map_cons, fullQ_expandPow_unit (fun g => φ (0 :: g)) a b m]
    simp

/-- value of a functional on the expansion of `(σ h + x_j)^k`, `σ ≠ 0` -/
theorem fullQ_expandPow_row (φ : List Nat → Rat) (σ : Int) (hσ : σ ≠ 0) (a b k : Nat) :
    fullQ φ (expandPow (σ :: (List.replicate a 0 ++ 1 :: List.replicate b 0)) k) =
      ((List.range (k + 1)).map fun i => (k.choose i : Rat) * (σ : Rat) ^ i *
        φ (i :: (List.replicate a 0 ++ (k - i) :: List.replicate b 0))).sum := by
  unfold expandPow
  rw [if_neg hσ, fullQ_flatMap]
  congr 1
  apply List.map_congr_left
  intro i hi
  have hik : i ≤ k := by have := List.mem_range.1 hi; omega
  rw [fullQ_map_cons, fullQ_expandPow_unit, binom_eq hik, ipow_eq]
  push_cast; ring

/-- `A(σ,k) = Σ_i C(k,i) σ^i ∫_{-1}^{1} x^(k-i)`: the integral of `(σ + x)^k` -/
def Aint (σ : Rat) (k : Nat) : Rat :=
  ((List.range (k + 1)).map fun i => (k.choose i : Rat) * σ ^ i * refIntQ false [k - i]).sum

theorem Aint_pm (k : Nat) : Aint 1 k + Aint (-1) k = refIntQ false [k] * (2 : Rat) ^ (k + 1) := by
  unfold Aint
  rw [sum_choose_refIntQ_h1 k 1, sum_choose_refIntQ_h1 k (-1), refIntQ_h1]
  have hk : ((k + 1 : Nat) : Rat) ≠ 0 := by positivity
  have hm : (-1 + -1 : Rat) ^ (k + 1) = (-1) ^ (k + 1) * 2 ^ (k + 1) := by
    rw [show (-1 + -1 : Rat) = -1 * 2 by norm_num, mul_pow]
  have hz : (-1 + 1 : Rat) ^ (k + 1) = 0 := by simp
  have hz' : (1 + -1 : Rat) ^ (k + 1) = 0 := by simp
  have h2' : (1 + 1 : Rat) ^ (k + 1) = 2 ^ (k + 1) := by norm_num
  rw [hm, hz, hz', h2']
  field_simp
  ring

/-! ## squares -/

def cubeRows2 (s1 s2 : Int) : List (List Int) := [[s1, 1, 0], [s2, 0, 1]]

theorem mem_P21 {σ : Int} {k : Nat} {u : Int × List Nat} (h : u ∈ expandPow [σ, 1, 0] k) :
    ∃ i m, i + m = k ∧ u.2 = [i, m, 0] := by
  obtain ⟨i, hik, v, hv, hu⟩ := mem_expandPow_row σ [1, 0] k u h
  have := mem_expandPow_unit 0 1 (k - i) v hv
  exact ⟨i, k - i, by omega, by rw [hu, this]; rfl⟩

theorem mem_P22 {σ : Int} {k : Nat} {u : Int × List Nat} (h : u ∈ expandPow [σ, 0, 1] k) :
    ∃ i m, i + m = k ∧ u.2 = [i, 0, m] := by
  obtain ⟨i, hik, v, hv, hu⟩ := mem_expandPow_row σ [0, 1] k u h
  have := mem_expandPow_unit 1 0 (k - i) v hv
  exact ⟨i, k - i, by omega, by rw [hu, this]; rfl⟩

theorem refIntQ_pair (m m' : Nat) : refIntQ false [m, m'] = refIntQ false [m] * refIntQ false [m'] := by
  rw [refIntQ_cube [m, m']]; simp [qprod]

theorem applyQ_square (s1 s2 : Int) (h1 : s1 ≠ 0) (h2 : s2 ≠ 0) (k1 k2 : Nat) :
    applyQ (refIntQ false) (expandAll (cubeRows2 s1 s2) [k1, k2]) = Aint s1 k1 * Aint s2 k2 := by
  simp only [cubeRows2, expandAll]
  rw [pmul_one, applyQ_eq_fullQ,
    fullQ_pmul _ (fun g => refIntQ false [g.getD 1 0]) (fun g => refIntQ false [g.getD 2 0])]
  · have e1 := fullQ_expandPow_row (fun g => refIntQ false [g.getD 1 0]) s1 h1 0 1 k1
    have e2 := fullQ_expandPow_row (fun g => refIntQ false [g.getD 2 0]) s2 h2 1 0 k2
    simp only [List.replicate, List.nil_append, List.cons_append] at e1 e2
    rw [e1, e2]
    simp [Aint]
  · intro s hs t ht
    obtain ⟨i, m, _, hs2⟩ := mem_P21 hs
    obtain ⟨i', m', _, ht2⟩ := mem_P22 ht
    simp only [hs2, ht2, gadd, List.tail_cons, List.getD_cons_succ, List.getD_cons_zero, Nat.add_zero, Nat.zero_add]
    exact refIntQ_pair m m'

theorem shape_square (s1 s2 : Int) (k1 k2 : Nat) :
    TermsShape 2 (esum [k1, k2]) (expandAll (cubeRows2 s1 s2) [k1, k2]) := by
  intro u hu
  simp only [cubeRows2, expandAll] at hu
  rw [pmul_one] at hu
  obtain ⟨s, hs, t, ht, hu2⟩ := mem_pmul hu
  obtain ⟨i, m, h1, hs2⟩ := mem_P21 hs
  obtain ⟨i', m', h2, ht2⟩ := mem_P22 ht
  refine ⟨i + i', [m, m'], ?_, rfl, ?_⟩
  · rw [hu2, hs2, ht2]; simp [gadd]
  · simp [esum]; omega

theorem subdiv_h2 (k1 k2 : Nat) : mapsQ (refIntQ false) Gen.refMapsH2.maps [k1, k2] =
    refIntQ false [k1, k2] * (2 : Rat) ^ (Gen.refMapsH2.ce + Gen.refMapsH2.ae * esum [k1, k2]) := by
  have hrows : Gen.refMapsH2.maps.map RefMap.rows =
      [cubeRows2 (-1) (-1), cubeRows2 1 (-1), cubeRows2 (-1) 1, cubeRows2 1 1] := by decide
  simp only [mapsQ, Gen.refMapsH2, List.map_cons, List.map_nil, List.sum_cons, List.sum_nil] at hrows ⊢
  simp only [List.cons.injEq, and_true] at hrows
  obtain ⟨r1, r2, r3, r4⟩ := hrows
  rw [r1, r2, r3, r4, applyQ_square _ _ (by decide) (by decide), applyQ_square _ _ (by decide) (by decide),
    applyQ_square _ _ (by decide) (by decide), applyQ_square _ _ (by decide) (by decide)]
  have a1 := Aint_pm k1
  have a2 := Aint_pm k2
  simp only [Int.cast_neg, Int.cast_one, one_mul, add_zero, esum]
  rw [refIntQ_pair]
  have : (2 : Rat) ^ (2 + (k1 + k2)) = (2 : Rat) ^ (k1 + 1) * (2 : Rat) ^ (k2 + 1) := by
    rw [← pow_add]; congr 1; ring
  rw [this]
  have h : (Aint 1 k1 + Aint (-1) k1) * (Aint 1 k2 + Aint (-1) k2) =
      (refIntQ false [k1] * 2 ^ (k1 + 1)) * (refIntQ false [k2] * 2 ^ (k2 + 1)) := by rw [a1, a2]
  linear_combination h

theorem shape_2d_h2 (k1 k2 : Nat) :
    ∀ m ∈ Gen.refMapsH2.maps, TermsShape 2 (esum [k1, k2]) (expandAll m.rows [k1, k2]) := by
  have hrows : Gen.refMapsH2.maps.map RefMap.rows =
      [cubeRows2 (-1) (-1), cubeRows2 1 (-1), cubeRows2 (-1) 1, cubeRows2 1 1] := by decide
  intro m hm
  have : m.rows ∈ Gen.refMapsH2.maps.map RefMap.rows := List.mem_map_of_mem hm
  rw [hrows] at this
  simp only [List.mem_cons, List.not_mem_nil, or_false] at this
  rcases this with h | h | h | h <;> rw [h] <;> exact shape_square _ _ k1 k2

/-- exactness (tolerance 0) up to ANY degree survives any number of refinements on the square -/
theorem refine_exact_h2 (t : DyTable) (ht : t.wf 2 = true) (d : Nat)
    (H : ∀ e : List Nat, e.length = 2 → esum e ≤ d → t.momentQ e = refIntQ false e) :
    ∀ (r : Nat) (e : List Nat), e.length = 2 → esum e ≤ d →
      (t.refine Gen.refMapsH2 r).momentQ e = refIntQ false e
  | 0, e, hl, hs => H e hl hs
  | r + 1, e, hl, hs => by
    have hrm : Gen.refMapsH2.wf 2 = true := by decide
    match e, hl with
    | [k1, k2], _ =>
      exact refine1_exact_core false 2 Gen.refMapsH2 [k1, k2] (t.refine Gen.refMapsH2 r)
        (wf_refine' t _ 2 ht hrm r) hrm (shape_2d_h2 k1 k2) (subdiv_h2 k1 k2)
        (fun f hfl hfs => refine_exact_h2 t ht d H r f hfl (le_trans hfs hs))

/-! ## cubes -/

def cubeRows3 (s1 s2 s3 : Int) : List (List Int) := [[s1, 1, 0, 0], [s2, 0, 1, 0], [s3, 0, 0, 1]]

theorem mem_P31 {σ : Int} {k : Nat} {u : Int × List Nat} (h : u ∈ expandPow [σ, 1, 0, 0] k) :
    ∃ i m, i + m = k ∧ u.2 = [i, m, 0, 0] := by
  obtain ⟨i, hik, v, hv, hu⟩ := mem_expandPow_row σ [1, 0, 0] k u h
  have := mem_expandPow_unit 0 2 (k - i) v hv
  exact ⟨i, k - i, by omega, by rw [hu, this]; rfl⟩

theorem mem_P32 {σ : Int} {k : Nat} {u : Int × List Nat} (h : u ∈ expandPow [σ, 0, 1, 0] k) :
    ∃ i m, i + m = k ∧ u.2 = [i, 0, m, 0] := by
  obtain ⟨i, hik, v, hv, hu⟩ := mem_expandPow_row σ [0, 1, 0] k u h
  have := mem_expandPow_unit 1 1 (k - i) v hv
  exact ⟨i, k - i, by omega, by rw [hu, this]; rfl⟩

theorem mem_P33 {σ : Int} {k : Nat} {u : Int × List Nat} (h : u ∈ expandPow [σ, 0, 0, 1] k) :
    ∃ i m, i + m = k ∧ u.2 = [i, 0, 0, m] := by
  obtain ⟨i, hik, v, hv, hu⟩ := mem_expandPow_row σ [0, 0, 1] k u h
  have := mem_expandPow_unit 2 0 (k - i) v hv
  exact ⟨i, k - i, by omega, by rw [hu, this]; rfl⟩

theorem refIntQ_triple (m m' m'' : Nat) :
    refIntQ false [m, m', m''] = refIntQ false [m] * (refIntQ false [m'] * refIntQ false [m'']) := by
  rw [refIntQ_cube [m, m', m'']]; simp [qprod]

theorem applyQ_cube (s1 s2 s3 : Int) (h1 : s1 ≠ 0) (h2 : s2 ≠ 0) (h3 : s3 ≠ 0) (k1 k2 k3 : Nat) :
    applyQ (refIntQ false) (expandAll (cubeRows3 s1 s2 s3) [k1, k2, k3]) = Aint s1 k1 * (Aint s2 k2 * Aint s3 k3) := by
  simp only [cubeRows3, expandAll]
  rw [pmul_one, applyQ_eq_fullQ,
    fullQ_pmul _ (fun g => refIntQ false [g.getD 1 0])
      (fun g => refIntQ false [g.getD 2 0] * refIntQ false [g.getD 3 0]),
    fullQ_pmul _ (fun g => refIntQ false [g.getD 2 0]) (fun g => refIntQ false [g.getD 3 0])]
  · have e1 := fullQ_expandPow_row (fun g => refIntQ false [g.getD 1 0]) s1 h1 0 2 k1
    have e2 := fullQ_expandPow_row (fun g => refIntQ false [g.getD 2 0]) s2 h2 1 1 k2
    have e3 := fullQ_expandPow_row (fun g => refIntQ false [g.getD 3 0]) s3 h3 2 0 k3
    simp only [List.replicate, List.nil_append, List.cons_append] at e1 e2 e3
    rw [e1, e2, e3]
    simp [Aint]
  · intro s hs t ht
    obtain ⟨i', m', _, hs2⟩ := mem_P32 hs
    obtain ⟨i'', m'', _, ht2⟩ := mem_P33 ht
    simp only [hs2, ht2, gadd, List.getD_cons_succ, List.getD_cons_zero, Nat.add_zero, Nat.zero_add]
  · intro s hs t ht
    obtain ⟨i, m, _, hs2⟩ := mem_P31 hs
    obtain ⟨p, hp, q, hq, ht2⟩ := mem_pmul ht
    obtain ⟨i', m', _, hp2⟩ := mem_P32 hp
    obtain ⟨i'', m'', _, hq2⟩ := mem_P33 hq
    simp only [hs2, ht2, hp2, hq2, gadd, List.tail_cons, List.getD_cons_succ, List.getD_cons_zero, Nat.add_zero,
      Nat.zero_add]
    exact refIntQ_triple m m' m''

theorem shape_cube (s1 s2 s3 : Int) (k1 k2 k3 : Nat) :
    TermsShape 3 (esum [k1, k2, k3]) (expandAll (cubeRows3 s1 s2 s3) [k1, k2, k3]) := by
  intro u hu
  simp only [cubeRows3, expandAll] at hu
  rw [pmul_one] at hu
  obtain ⟨s, hs, t, ht, hu2⟩ := mem_pmul hu
  obtain ⟨i, m, h1, hs2⟩ := mem_P31 hs
  obtain ⟨p, hp, q, hq, ht2⟩ := mem_pmul ht
  obtain ⟨i', m', h2, hp2⟩ := mem_P32 hp
  obtain ⟨i'', m'', h3, hq2⟩ := mem_P33 hq
  refine ⟨i + (i' + i''), [m, m', m''], ?_, rfl, ?_⟩
  · rw [hu2, hs2, ht2, hp2, hq2]; simp [gadd]
  · simp [esum]; omega

theorem subdiv_h3 (k1 k2 k3 : Nat) : mapsQ (refIntQ false) Gen.refMapsH3.maps [k1, k2, k3] =
    refIntQ false [k1, k2, k3] * (2 : Rat) ^ (Gen.refMapsH3.ce + Gen.refMapsH3.ae * esum [k1, k2, k3]) := by
  have hrows : Gen.refMapsH3.maps.map RefMap.rows =
      [cubeRows3 (-1) (-1) (-1), cubeRows3 1 (-1) (-1), cubeRows3 (-1) 1 (-1), cubeRows3 1 1 (-1),
       cubeRows3 (-1) (-1) 1, cubeRows3 1 (-1) 1, cubeRows3 (-1) 1 1, cubeRows3 1 1 1] := by decide
  simp only [mapsQ, Gen.refMapsH3, List.map_cons, List.map_nil, List.sum_cons, List.sum_nil] at hrows ⊢
  simp only [List.cons.injEq, and_true] at hrows
  obtain ⟨r1, r2, r3, r4, r5, r6, r7, r8⟩ := hrows
  have nz1 : (1 : Int) ≠ 0 := by decide
  have nzm : (-1 : Int) ≠ 0 := by decide
  rw [r1, r2, r3, r4, r5, r6, r7, r8, applyQ_cube _ _ _ nzm nzm nzm, applyQ_cube _ _ _ nz1 nzm nzm,
    applyQ_cube _ _ _ nzm nz1 nzm, applyQ_cube _ _ _ nz1 nz1 nzm, applyQ_cube _ _ _ nzm nzm nz1,
    applyQ_cube _ _ _ nz1 nzm nz1, applyQ_cube _ _ _ nzm nz1 nz1, applyQ_cube _ _ _ nz1 nz1 nz1]
  have a1 := Aint_pm k1
  have a2 := Aint_pm k2
  have a3 := Aint_pm k3
  simp only [Int.cast_neg, Int.cast_one, one_mul, add_zero, esum]
  rw [refIntQ_triple]
  have : (2 : Rat) ^ (3 + (k1 + (k2 + k3))) = (2 : Rat) ^ (k1 + 1) * ((2 : Rat) ^ (k2 + 1) * (2 : Rat) ^ (k3 + 1)) := by
    rw [← pow_add, ← pow_add]; congr 1; ring
  rw [this]
  have h : (Aint 1 k1 + Aint (-1) k1) * ((Aint 1 k2 + Aint (-1) k2) * (Aint 1 k3 + Aint (-1) k3)) =
      (refIntQ false [k1] * 2 ^ (k1 + 1)) * ((refIntQ false [k2] * 2 ^ (k2 + 1)) * (refIntQ false [k3] * 2 ^ (k3 + 1))) := by
    rw [a1, a2, a3]
  linear_combination h

theorem shape_3d_h3 (k1 k2 k3 : Nat) :
    ∀ m ∈ Gen.refMapsH3.maps, TermsShape 3 (esum [k1, k2, k3]) (expandAll m.rows [k1, k2, k3]) := by
  have hrows : Gen.refMapsH3.maps.map RefMap.rows =
      [cubeRows3 (-1) (-1) (-1), cubeRows3 1 (-1) (-1), cubeRows3 (-1) 1 (-1), cubeRows3 1 1 (-1),
       cubeRows3 (-1) (-1) 1, cubeRows3 1 (-1) 1, cubeRows3 (-1) 1 1, cubeRows3 1 1 1] := by decide
  intro m hm
  have : m.rows ∈ Gen.refMapsH3.maps.map RefMap.rows := List.mem_map_of_mem hm
  rw [hrows] at this
  simp only [List.mem_cons, List.not_mem_nil, or_false] at this
  rcases this with h | h | h | h | h | h | h | h <;> rw [h] <;> exact shape_cube _ _ _ k1 k2 k3

/-- exactness (tolerance 0) up to ANY degree survives any number of refinements on the cube -/
theorem refine_exact_h3 (t : DyTable) (ht : t.wf 3 = true) (d : Nat)
    (H : ∀ e : List Nat, e.length = 3 → esum e ≤ d → t.momentQ e = refIntQ false e) :
    ∀ (r : Nat) (e : List Nat), e.length = 3 → esum e ≤ d →
      (t.refine Gen.refMapsH3 r).momentQ e = refIntQ false e
  | 0, e, hl, hs => H e hl hs
  | r + 1, e, hl, hs => by
    have hrm : Gen.refMapsH3.wf 3 = true := by decide
    match e, hl with
    | [k1, k2, k3], _ =>
      exact refine1_exact_core false 3 Gen.refMapsH3 [k1, k2, k3] (t.refine Gen.refMapsH3 r)
        (wf_refine' t _ 3 ht hrm r) hrm (shape_3d_h3 k1 k2 k3) (subdiv_h3 k1 k2 k3)
        (fun f hfl hfs => refine_exact_h3 t ht d H r f hfl (le_trans hfs hs))

end FeatModel.Cub
