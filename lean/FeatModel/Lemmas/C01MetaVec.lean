import FeatModel.Lemmas.C01Meta
import FeatModel.Lemmas.C01Sizes
/-!
The `apply` members with Tuple/PowerVector operands (`goS`, navigation by `first()`/`rest()`) agree with the members with
flat `DenseVector` operands (`go`, explicit offsets) through `flatten`, for every nesting.
-/
namespace FeatModel.LA

namespace MetaVec
/-- same tree, same leaf sizes -/
def sameShape : MetaVec Rat → MetaVec Rat → Bool
  | leaf a, leaf b => a.size == b.size
  | node a b, node c d => sameShape a c && sameShape b d
  | _, _ => false

theorem sameShape_refl : ∀ v : MetaVec Rat, sameShape v v = true
  | leaf a => by simp [sameShape]
  | node a b => by simp [sameShape, sameShape_refl a, sameShape_refl b]

theorem sameShape_trans : ∀ a b c : MetaVec Rat, sameShape a b = true → sameShape b c = true → sameShape a c = true
  | leaf a, leaf b, leaf c, h1, h2 => by simp [sameShape] at *; omega
  | node a1 a2, node b1 b2, node c1 c2, h1, h2 => by
    simp only [sameShape, Bool.and_eq_true] at *
    exact ⟨sameShape_trans a1 b1 c1 h1.1 h2.1, sameShape_trans a2 b2 c2 h1.2 h2.2⟩
  | leaf _, leaf _, node _ _, _, h2 => by simp [sameShape] at h2
  | leaf _, node _ _, _, h1, _ => by simp [sameShape] at h1
  | node _ _, leaf _, _, h1, _ => by simp [sameShape] at h1
  | node _ _, node _ _, leaf _, _, h2 => by simp [sameShape] at h2

theorem flatten_size_of_sameShape : ∀ a b : MetaVec Rat, sameShape a b = true → b.flatten.size = a.flatten.size
  | leaf a, leaf b, h => by simp [sameShape] at h; simp [flatten, h]
  | node a1 a2, node b1 b2, h => by
    simp only [sameShape, Bool.and_eq_true] at h
    simp [flatten, flatten_size_of_sameShape a1 b1 h.1, flatten_size_of_sameShape a2 b2 h.2]
  | leaf _, node _ _, h => by simp [sameShape] at h
  | node _ _, leaf _, h => by simp [sameShape] at h
end MetaVec

open MetaVec

theorem slice_append_left (a b : Array Rat) : slice (a ++ b) 0 a.size = a := by
  unfold slice
  simp

theorem slice_append_right (a b : Array Rat) : slice (a ++ b) a.size b.size = b := by
  unfold slice
  simp

/-- the structured member `fS` and the flat member `f` agree through `flatten` on vectors of the right shapes, and `fS`
    preserves the shape of `r` -/
def Equiv (fS : MetaOpS Rat) (f : MetaOp Rat) (fitsOut fitsIn : MetaVec Rat → Bool) : Prop :=
  ∀ ax x y r ali, fitsIn x = true → fitsOut y = true → fitsOut r = true →
    (fS ax x y r ali).map flatten = f ax x.flatten y.flatten r.flatten ali ∧
    ∀ r', fS ax x y r ali = some r' → sameShape r r' = true

theorem chain_equiv {FS RS : MetaOpS Rat} {F R : MetaOp Rat} {out in1 in2 : MetaVec Rat → Bool} {n1 n2 : Nat}
    (hF : Equiv FS F out in1) (hR : Equiv RS R out in2)
    (hout : ∀ a b, out a = true → sameShape a b = true → out b = true)
    (h1 : ∀ v, in1 v = true → v.flatten.size = n1) (h2 : ∀ v, in2 v = true → v.flatten.size = n2) :
    Equiv (chainS FS RS) (chain n1 n2 F R)
      out (fun x => match x with | .node a b => in1 a && in2 b | .leaf _ => false) := by
  intro ax x y r ali hx hy hr
  cases x with
  | leaf _ => simp at hx
  | node x1 x2 =>
    simp only [Bool.and_eq_true] at hx
    obtain ⟨e1, s1⟩ := hF ax x1 y r ali hx.1 hy hr
    have hs1 : slice (x1.flatten ++ x2.flatten) 0 n1 = x1.flatten := by
      rw [← h1 x1 hx.1]; exact slice_append_left _ _
    have hs2 : slice (x1.flatten ++ x2.flatten) n1 n2 = x2.flatten := by
      rw [← h1 x1 hx.1, ← h2 x2 hx.2]; exact slice_append_right _ _
    simp only [chainS, chain, MetaVec.flatten, hs1, hs2]
    cases hFS : FS ax x1 y r ali with
    | none =>
      rw [hFS] at e1
      simp only [Option.map_none] at e1
      rw [← e1]
      exact ⟨rfl, fun r' h => by simp at h⟩
    | some r1 =>
      rw [hFS] at e1
      simp only [Option.map_some] at e1
      rw [← e1]
      have hr1 := s1 r1 hFS
      have ho1 := hout r r1 hr hr1
      obtain ⟨e2, s2⟩ := hR (some (ax.getD 1)) x2 r1 r1 true hx.2 ho1 ho1
      refine ⟨e2, fun r' h => sameShape_trans r r1 r' hr1 (s2 r' h)⟩

theorem split_equiv {FS RS : MetaOpS Rat} {F R : MetaOp Rat} {out1 out2 inn : MetaVec Rat → Bool} {n1 n2 : Nat}
    (hF : Equiv FS F out1 inn) (hR : Equiv RS R out2 inn)
    (h1 : ∀ v, out1 v = true → v.flatten.size = n1) (h2 : ∀ v, out2 v = true → v.flatten.size = n2) :
    Equiv (splitS FS RS) (split n1 n2 F R)
      (fun v => match v with | .node a b => out1 a && out2 b | .leaf _ => false) inn := by
  intro ax x y r ali hx hy hr
  cases r with
  | leaf _ => simp at hr
  | node r1 r2 =>
    cases y with
    | leaf _ => simp at hy
    | node y1 y2 =>
      simp only [Bool.and_eq_true] at hy hr
      obtain ⟨e1, s1⟩ := hF ax x y1 r1 ali hx hy.1 hr.1
      obtain ⟨e2, s2⟩ := hR ax x y2 r2 ali hx hy.2 hr.2
      have a1 : slice (r1.flatten ++ r2.flatten) 0 n1 = r1.flatten := by
        rw [← h1 r1 hr.1]; exact slice_append_left _ _
      have a2 : slice (r1.flatten ++ r2.flatten) n1 n2 = r2.flatten := by
        rw [← h1 r1 hr.1, ← h2 r2 hr.2]; exact slice_append_right _ _
      have b1 : slice (y1.flatten ++ y2.flatten) 0 n1 = y1.flatten := by
        rw [← h1 y1 hy.1]; exact slice_append_left _ _
      have b2 : slice (y1.flatten ++ y2.flatten) n1 n2 = y2.flatten := by
        rw [← h1 y1 hy.1, ← h2 y2 hy.2]; exact slice_append_right _ _
      simp only [splitS, split, MetaVec.flatten, a1, a2, b1, b2]
      rw [← e1, ← e2]
      cases hFS : FS ax x y1 r1 ali with
      | none => exact ⟨rfl, fun r' h => by simp at h⟩
      | some r1' =>
        cases hRS : RS ax x y2 r2 ali with
        | none => exact ⟨rfl, fun r' h => by simp at h⟩
        | some r2' =>
          refine ⟨rfl, ?_⟩
          intro r' h
          simp only [Option.some.injEq] at h
          rw [← h]
          simp [sameShape, s1 r1' hFS, s2 r2' hRS]

theorem onFirst_equiv {FS : MetaOpS Rat} {F : MetaOp Rat} {out in1 in2 : MetaVec Rat → Bool} {n1 : Nat}
    (hF : Equiv FS F out in1) (h1 : ∀ v, in1 v = true → v.flatten.size = n1) :
    Equiv (onFirstS FS) (onFirst n1 F) out (fun x => match x with | .node a b => in1 a && in2 b | .leaf _ => false) := by
  intro ax x y r ali hx hy hr
  cases x with
  | leaf _ => simp at hx
  | node x1 x2 =>
    simp only [Bool.and_eq_true] at hx
    have hs1 : slice (x1.flatten ++ x2.flatten) 0 n1 = x1.flatten := by
      rw [← h1 x1 hx.1]; exact slice_append_left _ _
    simp only [onFirstS, onFirst, MetaVec.flatten, hs1]
    exact hF ax x1 y r ali hx.1 hy hr

theorem onRest_equiv {RS : MetaOpS Rat} {R : MetaOp Rat} {out in1 in2 : MetaVec Rat → Bool} {n1 n2 : Nat}
    (hR : Equiv RS R out in2) (h1 : ∀ v, in1 v = true → v.flatten.size = n1)
    (h2 : ∀ v, in2 v = true → v.flatten.size = n2) :
    Equiv (onRestS RS) (onRest n1 n2 R) out (fun x => match x with | .node a b => in1 a && in2 b | .leaf _ => false) := by
  intro ax x y r ali hx hy hr
  cases x with
  | leaf _ => simp at hx
  | node x1 x2 =>
    simp only [Bool.and_eq_true] at hx
    have hs2 : slice (x1.flatten ++ x2.flatten) n1 n2 = x2.flatten := by
      rw [← h1 x1 hx.1, ← h2 x2 hx.2]; exact slice_append_right _ _
    simp only [onRestS, onRest, MetaVec.flatten, hs2]
    exact hR ax x2 y r ali hx.2 hy hr

theorem Equiv.mono {fS : MetaOpS Rat} {f : MetaOp Rat} {out inn out' inn' : MetaVec Rat → Bool}
    (h : Equiv fS f out inn) (ho : ∀ v, out' v = true → out v = true) (hi : ∀ v, inn' v = true → inn v = true) :
    Equiv fS f out' inn' :=
  fun ax x y r ali hx hy hr => h ax x y r ali (hi x hx) (ho y hy) (ho r hr)

namespace MetaMat

theorem fits_size : ∀ (M : MetaMat Rat) (s : Bool) (v : MetaVec Rat), M.fits s v = true →
    v.flatten.size = if s then M.rows else M.cols
  | csr A, s, .leaf v, h => by simpa [fits, MetaVec.flatten, rows, cols] using h
  | bcsr A, s, .leaf v, h => by simpa [fits, MetaVec.flatten, rows, cols] using h
  | dense A, s, .leaf v, h => by simpa [fits, MetaVec.flatten, rows, cols] using h
  | cscr A, s, .leaf v, h => by simpa [fits, MetaVec.flatten, rows, cols] using h
  | banded A, s, .leaf v, h => by simpa [fits, MetaVec.flatten, rows, cols] using h
  | csr _, _, .node _ _, h => by simp [fits] at h
  | bcsr _, _, .node _ _, h => by simp [fits] at h
  | dense _, _, .node _ _, h => by simp [fits] at h
  | cscr _, _, .node _ _, h => by simp [fits] at h
  | banded _, _, .node _ _, h => by simp [fits] at h
  | row f r, true, v, h => by
    simp only [fits, Bool.and_eq_true] at h
    simpa [rows] using fits_size f true v h.1
  | row f r, false, .node a b, h => by
    simp only [fits, Bool.and_eq_true] at h
    have h1 := fits_size f false a h.1
    have h2 := fits_size r false b h.2
    simp only [Bool.false_eq_true, if_false] at h1 h2 ⊢
    simp [MetaVec.flatten, cols, h1, h2]
  | row _ _, false, .leaf _, h => by simp [fits] at h
  | col f r, false, v, h => by
    simp only [fits, Bool.and_eq_true] at h
    simpa [cols] using fits_size f false v h.1
  | col f r, true, .node a b, h => by
    simp only [fits, Bool.and_eq_true] at h
    have h1 := fits_size f true a h.1
    have h2 := fits_size r true b h.2
    simp only [if_true] at h1 h2 ⊢
    simp [MetaVec.flatten, rows, h1, h2]
  | col _ _, true, .leaf _, h => by simp [fits] at h
  | diag f r, s, .node a b, h => by
    simp only [fits, Bool.and_eq_true] at h
    have h1 := fits_size f s a h.1
    have h2 := fits_size r s b h.2
    cases s <;> simp_all [MetaVec.flatten, rows, cols]
  | diag _ _, _, .leaf _, h => by simp [fits] at h
  | saddle a b d, true, .node v w, h => by
    simp only [fits, Bool.and_eq_true] at h
    have h1 := fits_size a true v h.1.1
    have h2 := fits_size d true w h.1.2
    simp_all [MetaVec.flatten, rows]
  | saddle a b d, false, .node v w, h => by
    simp only [fits, Bool.and_eq_true] at h
    have h1 := fits_size a false v h.1.1
    have h2 := fits_size b false w h.1.2
    simp_all [MetaVec.flatten, cols]
  | saddle _ _ _, _, .leaf _, h => by cases ‹Bool› <;> simp [fits] at h

theorem fits_sameShape : ∀ (M : MetaMat Rat) (s : Bool) (a b : MetaVec Rat), M.fits s a = true →
    sameShape a b = true → M.fits s b = true
  | csr A, s, .leaf v, .leaf w, h, hs => by simp [fits, sameShape] at *; omega
  | bcsr A, s, .leaf v, .leaf w, h, hs => by simp [fits, sameShape] at *; omega
  | dense A, s, .leaf v, .leaf w, h, hs => by simp [fits, sameShape] at *; omega
  | cscr A, s, .leaf v, .leaf w, h, hs => by simp [fits, sameShape] at *; omega
  | banded A, s, .leaf v, .leaf w, h, hs => by simp [fits, sameShape] at *; omega
  | csr _, _, .node _ _, _, h, _ => by simp [fits] at h
  | bcsr _, _, .node _ _, _, h, _ => by simp [fits] at h
  | dense _, _, .node _ _, _, h, _ => by simp [fits] at h
  | cscr _, _, .node _ _, _, h, _ => by simp [fits] at h
  | banded _, _, .node _ _, _, h, _ => by simp [fits] at h
  | csr _, _, .leaf _, .node _ _, _, hs => by simp [sameShape] at hs
  | bcsr _, _, .leaf _, .node _ _, _, hs => by simp [sameShape] at hs
  | dense _, _, .leaf _, .node _ _, _, hs => by simp [sameShape] at hs
  | cscr _, _, .leaf _, .node _ _, _, hs => by simp [sameShape] at hs
  | banded _, _, .leaf _, .node _ _, _, hs => by simp [sameShape] at hs
  | row f r, true, a, b, h, hs => by
    simp only [fits, Bool.and_eq_true] at h ⊢
    exact ⟨fits_sameShape f true a b h.1 hs, fits_sameShape r true a b h.2 hs⟩
  | row f r, false, .node a1 a2, .node b1 b2, h, hs => by
    simp only [fits, sameShape, Bool.and_eq_true] at h hs ⊢
    exact ⟨fits_sameShape f false a1 b1 h.1 hs.1, fits_sameShape r false a2 b2 h.2 hs.2⟩
  | row _ _, false, .leaf _, _, h, _ => by simp [fits] at h
  | row _ _, false, .node _ _, .leaf _, _, hs => by simp [sameShape] at hs
  | col f r, false, a, b, h, hs => by
    simp only [fits, Bool.and_eq_true] at h ⊢
    exact ⟨fits_sameShape f false a b h.1 hs, fits_sameShape r false a b h.2 hs⟩
  | col f r, true, .node a1 a2, .node b1 b2, h, hs => by
    simp only [fits, sameShape, Bool.and_eq_true] at h hs ⊢
    exact ⟨fits_sameShape f true a1 b1 h.1 hs.1, fits_sameShape r true a2 b2 h.2 hs.2⟩
  | col _ _, true, .leaf _, _, h, _ => by simp [fits] at h
  | col _ _, true, .node _ _, .leaf _, _, hs => by simp [sameShape] at hs
  | diag f r, s, .node a1 a2, .node b1 b2, h, hs => by
    simp only [fits, sameShape, Bool.and_eq_true] at h hs ⊢
    exact ⟨fits_sameShape f s a1 b1 h.1 hs.1, fits_sameShape r s a2 b2 h.2 hs.2⟩
  | diag _ _, _, .leaf _, _, h, _ => by simp [fits] at h
  | diag _ _, _, .node _ _, .leaf _, _, hs => by simp [sameShape] at hs
  | saddle a b d, true, .node a1 a2, .node b1 b2, h, hs => by
    simp only [fits, sameShape, Bool.and_eq_true] at h hs ⊢
    exact ⟨⟨fits_sameShape a true a1 b1 h.1.1 hs.1, fits_sameShape d true a2 b2 h.1.2 hs.2⟩,
      fits_sameShape b true a1 b1 h.2 hs.1⟩
  | saddle a b d, false, .node a1 a2, .node b1 b2, h, hs => by
    simp only [fits, sameShape, Bool.and_eq_true] at h hs ⊢
    exact ⟨⟨fits_sameShape a false a1 b1 h.1.1 hs.1, fits_sameShape b false a2 b2 h.1.2 hs.2⟩,
      fits_sameShape d false a1 b1 h.2 hs.1⟩
  | saddle _ _ _, s, .leaf _, _, h, _ => by cases s <;> simp [fits] at h
  | saddle _ _ _, _, .node _ _, .leaf _, _, hs => by simp [sameShape] at hs

end MetaMat

theorem leafS_equiv (f : MetaOp Rat) (nOut : Nat) (out inn : MetaVec Rat → Bool)
    (hout : ∀ v, out v = true → ∃ a, v = .leaf a ∧ a.size = nOut) (hin : ∀ v, inn v = true → ∃ a, v = .leaf a)
    (hsz : ∀ ax x y r ali r', f ax x y r ali = some r' → r'.size = nOut) : Equiv (leafS f) f out inn := by
  intro ax x y r ali hx hy hr
  obtain ⟨x', rfl⟩ := hin x hx
  obtain ⟨y', rfl, _⟩ := hout y hy
  obtain ⟨r0, rfl, hr0⟩ := hout r hr
  simp only [leafS, MetaVec.flatten]
  refine ⟨by cases f ax x' y' r0 ali <;> rfl, ?_⟩
  intro r' h
  cases hf : f ax x' y' r0 ali with
  | none => rw [hf] at h; simp at h
  | some r1 =>
    rw [hf] at h
    simp only [Option.map_some, Option.some.injEq] at h
    rw [← h]
    simp [sameShape, hr0, hsz ax x' y' r0 ali r1 hf]

namespace MetaMat

theorem fits_leaf_out (M : MetaMat Rat) (s : Bool) (n : Nat)
    (h : ∀ v, M.fits s (.leaf v) = (v.size == n)) (hn : ∀ a b, M.fits s (.node a b) = false) :
    ∀ v, M.fits s v = true → ∃ a, v = .leaf a ∧ a.size = n := by
  intro v hv
  cases v with
  | leaf a => exact ⟨a, rfl, by simpa [h a] using hv⟩
  | node a b => rw [hn] at hv; simp at hv

/-- **flat = structured**: for every nesting, the members with Tuple/PowerVector operands and the members with flat
    DenseVector operands (offsets `first().rows()` …) compute the same pod array, and the structured members keep the
    shape of the result vector -/
theorem goS_equiv : ∀ (M : MetaMat Rat) (tr : Bool), Equiv (M.goSQ tr) (M.goQ tr) (M.fits (!tr)) (M.fits tr)
  | csr A, tr => by
    refine leafS_equiv _ (if tr then A.cols else A.rows) _ _
      (fits_leaf_out _ _ _ (fun v => by cases tr <;> simp [fits]) (fun a b => by simp [fits]))
      (fun v hv => by cases v with
        | leaf a => exact ⟨a, rfl⟩
        | node a b => simp [fits] at hv) ?_
    intro ax x y r ali r' h
    cases ax with
    | none => exact Csr.apply_size _ A x r r' tr h
    | some al => exact Csr.applyAxpy_size _ A x y r r' al ali tr h
  | bcsr A, tr => by
    refine leafS_equiv _ (if tr then A.cols * A.bw else A.rows * A.bh) _ _
      (fits_leaf_out _ _ _ (fun v => by cases tr <;> simp [fits]) (fun a b => by simp [fits]))
      (fun v hv => by cases v with
        | leaf a => exact ⟨a, rfl⟩
        | node a b => simp [fits] at hv) ?_
    intro ax x y r ali r' h
    cases ax with
    | none => exact Bcsr.apply_size _ A x r r' tr h
    | some al => exact Bcsr.applyAxpy_size _ A x y r r' al ali tr h
  | dense A, tr => by
    refine leafS_equiv _ (if tr then A.cols else A.rows) _ _
      (fits_leaf_out _ _ _ (fun v => by cases tr <;> simp [fits]) (fun a b => by simp [fits]))
      (fun v hv => by cases v with
        | leaf a => exact ⟨a, rfl⟩
        | node a b => simp [fits] at hv) ?_
    intro ax x y r ali r' h
    cases ax with
    | none => exact Dense.apply_size _ A x r r' tr h
    | some al => exact Dense.applyAxpy_size _ A x y r r' al ali tr h
  | cscr A, tr => by
    refine leafS_equiv _ (if tr then A.cols else A.rows) _ _
      (fits_leaf_out _ _ _ (fun v => by cases tr <;> simp [fits]) (fun a b => by simp [fits]))
      (fun v hv => by cases v with
        | leaf a => exact ⟨a, rfl⟩
        | node a b => simp [fits] at hv) ?_
    intro ax x y r ali r' h
    cases ax with
    | none => exact Cscr.apply_size _ A x r r' tr h
    | some al => exact Cscr.applyAxpy_size _ A x y r r' al ali tr h
  | banded A, tr => by
    refine leafS_equiv _ (if tr then A.cols else A.rows) _ _
      (fits_leaf_out _ _ _ (fun v => by cases tr <;> simp [fits]) (fun a b => by simp [fits]))
      (fun v hv => by cases v with
        | leaf a => exact ⟨a, rfl⟩
        | node a b => simp [fits] at hv) ?_
    intro ax x y r ali r' h
    cases tr with
    | false =>
      cases ax with
      | none => exact Banded.apply_size _ A x r r' h
      | some al => exact Banded.applyAxpy_size _ A x y r r' al ali h
    | true =>
      cases ax with
      | none =>
        -- apply_transposed(r, x): only the empty-result early return comes back (then r' = r)
        simp only [goQ, go, Banded.apply, if_true] at h
        by_cases hc : (r.size != A.cols || x.size != A.rows) = true
        · simp [hc] at h
        · have hc' := hc
          simp only [Bool.or_eq_true, bne_iff_ne, ne_eq, not_or, Decidable.not_not] at hc'
          simp only [hc, Bool.false_eq_true, if_false] at h
          split at h
          · simp only [Option.some.injEq] at h
            rw [← h]; simpa using hc'.1
          · simp at h
      | some al =>
        -- only the early-out returns: r' is r or y, whose sizes were checked
        simp only [goQ, go, Banded.applyAxpy, if_true] at h
        by_cases hc : (r.size != A.cols || x.size != A.rows || y.size != A.cols) = true
        · simp [hc] at h
        · have hc' := hc
          simp only [Bool.or_eq_true, bne_iff_ne, ne_eq, not_or, Decidable.not_not] at hc'
          simp only [hc, Bool.false_eq_true, if_false] at h
          split at h
          · simp only [Option.some.injEq] at h
            rw [← h]; simpa using hc'.1.1
          · split at h
            · simp only [Option.some.injEq] at h
              rw [← h]; cases ali <;> simp [hc'.1.1, hc'.2]
            · simp at h
  | row f r, false => by
    have hf := goS_equiv f false
    have hr := goS_equiv r false
    have h := chain_equiv (out := fun v => f.fits true v && r.fits true v)
      (hF := hf.mono (fun v hv => by simp only [Bool.and_eq_true] at hv; simpa using hv.1) (fun v hv => hv))
      (hR := hr.mono (fun v hv => by simp only [Bool.and_eq_true] at hv; simpa using hv.2) (fun v hv => hv))
      (fun a b ha hs => by
        simp only [Bool.and_eq_true] at ha ⊢
        exact ⟨fits_sameShape f true a b ha.1 hs, fits_sameShape r true a b ha.2 hs⟩)
      (fun v hv => by simpa using fits_size f false v hv) (fun v hv => by simpa using fits_size r false v hv)
    exact h.mono (fun v hv => by simpa [fits] using hv) (fun v hv => by
      cases v with
      | leaf a => simp [fits] at hv
      | node a b => simpa [fits] using hv)
  | row f r, true => by
    have hf := goS_equiv f true
    have hr := goS_equiv r true
    have h := split_equiv (inn := fun v => f.fits true v && r.fits true v)
      (hF := hf.mono (fun v hv => hv) (fun v hv => by simp only [Bool.and_eq_true] at hv; exact hv.1))
      (hR := hr.mono (fun v hv => hv) (fun v hv => by simp only [Bool.and_eq_true] at hv; exact hv.2))
      (fun v hv => by simpa using fits_size f false v (by simpa using hv))
      (fun v hv => by simpa using fits_size r false v (by simpa using hv))
    exact h.mono (fun v hv => by
      cases v with
      | leaf a => simp [fits] at hv
      | node a b => simpa [fits] using hv) (fun v hv => by simpa [fits] using hv)
  | col f r, false => by
    have hf := goS_equiv f false
    have hr := goS_equiv r false
    have h := split_equiv (inn := fun v => f.fits false v && r.fits false v)
      (hF := hf.mono (fun v hv => hv) (fun v hv => by simp only [Bool.and_eq_true] at hv; exact hv.1))
      (hR := hr.mono (fun v hv => hv) (fun v hv => by simp only [Bool.and_eq_true] at hv; exact hv.2))
      (fun v hv => by simpa using fits_size f true v (by simpa using hv))
      (fun v hv => by simpa using fits_size r true v (by simpa using hv))
    exact h.mono (fun v hv => by
      cases v with
      | leaf a => simp [fits] at hv
      | node a b => simpa [fits] using hv) (fun v hv => by simpa [fits] using hv)
  | col f r, true => by
    have hf := goS_equiv f true
    have hr := goS_equiv r true
    have h := chain_equiv (out := fun v => f.fits false v && r.fits false v)
      (hF := hf.mono (fun v hv => by simp only [Bool.and_eq_true] at hv; simpa using hv.1) (fun v hv => hv))
      (hR := hr.mono (fun v hv => by simp only [Bool.and_eq_true] at hv; simpa using hv.2) (fun v hv => hv))
      (fun a b ha hs => by
        simp only [Bool.and_eq_true] at ha ⊢
        exact ⟨fits_sameShape f false a b ha.1 hs, fits_sameShape r false a b ha.2 hs⟩)
      (fun v hv => by simpa using fits_size f true v hv) (fun v hv => by simpa using fits_size r true v hv)
    exact h.mono (fun v hv => by simpa [fits] using hv) (fun v hv => by
      cases v with
      | leaf a => simp [fits] at hv
      | node a b => simpa [fits] using hv)

  | diag f r, false => by
    have hf := goS_equiv f false
    have hr := goS_equiv r false
    have h := split_equiv
      (hF := onFirst_equiv (in2 := r.fits false) hf (fun v hv => by simpa using fits_size f false v hv))
      (hR := onRest_equiv (in1 := f.fits false) hr (fun v hv => by simpa using fits_size f false v hv)
        (fun v hv => by simpa using fits_size r false v hv))
      (fun v hv => by simpa using fits_size f true v (by simpa using hv))
      (fun v hv => by simpa using fits_size r true v (by simpa using hv))
    exact h.mono (fun v hv => by
      cases v with
      | leaf a => simp [fits] at hv
      | node a b => simpa [fits] using hv) (fun v hv => by
      cases v with
      | leaf a => simp [fits] at hv
      | node a b => simpa [fits] using hv)
  | diag f r, true => by
    have hf := goS_equiv f true
    have hr := goS_equiv r true
    have h := split_equiv
      (hF := onFirst_equiv (in2 := r.fits true) hf (fun v hv => by simpa using fits_size f true v hv))
      (hR := onRest_equiv (in1 := f.fits true) hr (fun v hv => by simpa using fits_size f true v hv)
        (fun v hv => by simpa using fits_size r true v hv))
      (fun v hv => by simpa using fits_size f false v (by simpa using hv))
      (fun v hv => by simpa using fits_size r false v (by simpa using hv))
    exact h.mono (fun v hv => by
      cases v with
      | leaf a => simp [fits] at hv
      | node a b => simpa [fits] using hv) (fun v hv => by
      cases v with
      | leaf a => simp [fits] at hv
      | node a b => simpa [fits] using hv)
  | saddle a b d, false => by
    have ha := goS_equiv a false
    have hb := goS_equiv b false
    have hd := goS_equiv d false
    have hc := chain_equiv (out := fun v => a.fits true v && b.fits true v)
      (hF := ha.mono (fun v hv => by simp only [Bool.and_eq_true] at hv; simpa using hv.1) (fun v hv => hv))
      (hR := hb.mono (fun v hv => by simp only [Bool.and_eq_true] at hv; simpa using hv.2) (fun v hv => hv))
      (fun v w hv hs => by
        simp only [Bool.and_eq_true] at hv ⊢
        exact ⟨fits_sameShape a true v w hv.1 hs, fits_sameShape b true v w hv.2 hs⟩)
      (fun v hv => by simpa using fits_size a false v hv) (fun v hv => by simpa using fits_size b false v hv)
    have hdd := onFirst_equiv (in1 := fun v => a.fits false v && d.fits false v) (in2 := b.fits false) (n1 := a.cols)
      (hd.mono (fun v hv => hv) (fun v hv => by simp only [Bool.and_eq_true] at hv; exact hv.2))
      (fun v hv => by simp only [Bool.and_eq_true] at hv; simpa using fits_size a false v hv.1)
    have hin : ∀ v, (saddle a b d).fits false v = true →
        ((match v with | .node x y => a.fits false x && b.fits false y | .leaf _ => false) = true) ∧
        ((match v with | .node x y => (a.fits false x && d.fits false x) && b.fits false y | .leaf _ => false) = true) := by
      intro v hv
      cases v with
      | leaf _ => simp [fits] at hv
      | node x y =>
        simp only [fits, Bool.and_eq_true] at hv
        simp [hv.1.1, hv.1.2, hv.2]
    have h := split_equiv (inn := (saddle a b d).fits false)
      (hF := hc.mono (fun v hv => hv) (fun v hv => (hin v hv).1))
      (hR := hdd.mono (fun v hv => hv) (fun v hv => (hin v hv).2))
      (fun v hv => by simp only [Bool.and_eq_true] at hv; simpa using fits_size a true v hv.1)
      (fun v hv => by simpa using fits_size d true v (by simpa using hv))
    exact h.mono (fun v hv => by
      cases v with
      | leaf _ => simp [fits] at hv
      | node x y =>
        simp only [Bool.not_false, fits, Bool.and_eq_true] at hv
        simp [hv.1.1, hv.1.2, hv.2]) (fun v hv => hv)
  | saddle a b d, true => by
    have ha := goS_equiv a true
    have hb := goS_equiv b true
    have hd := goS_equiv d true
    have hc := chain_equiv (out := fun v => a.fits false v && d.fits false v)
      (hF := ha.mono (fun v hv => by simp only [Bool.and_eq_true] at hv; simpa using hv.1) (fun v hv => hv))
      (hR := hd.mono (fun v hv => by simp only [Bool.and_eq_true] at hv; simpa using hv.2) (fun v hv => hv))
      (fun v w hv hs => by
        simp only [Bool.and_eq_true] at hv ⊢
        exact ⟨fits_sameShape a false v w hv.1 hs, fits_sameShape d false v w hv.2 hs⟩)
      (fun v hv => by simpa using fits_size a true v hv) (fun v hv => by simpa using fits_size d true v hv)
    have hbb := onFirst_equiv (in1 := fun v => a.fits true v && b.fits true v) (in2 := d.fits true) (n1 := a.rows)
      (hb.mono (fun v hv => hv) (fun v hv => by simp only [Bool.and_eq_true] at hv; exact hv.2))
      (fun v hv => by simp only [Bool.and_eq_true] at hv; simpa using fits_size a true v hv.1)
    have hin : ∀ v, (saddle a b d).fits true v = true →
        ((match v with | .node x y => a.fits true x && d.fits true y | .leaf _ => false) = true) ∧
        ((match v with | .node x y => (a.fits true x && b.fits true x) && d.fits true y | .leaf _ => false) = true) := by
      intro v hv
      cases v with
      | leaf _ => simp [fits] at hv
      | node x y =>
        simp only [fits, Bool.and_eq_true] at hv
        simp [hv.1.1, hv.1.2, hv.2]
    have h := split_equiv (inn := (saddle a b d).fits true)
      (hF := hc.mono (fun v hv => hv) (fun v hv => (hin v hv).1))
      (hR := hbb.mono (fun v hv => hv) (fun v hv => (hin v hv).2))
      (fun v hv => by simp only [Bool.and_eq_true] at hv; simpa using fits_size a false v hv.1)
      (fun v hv => by simpa using fits_size b false v (by simpa using hv))
    exact h.mono (fun v hv => by
      cases v with
      | leaf _ => simp [fits] at hv
      | node x y =>
        simp only [Bool.not_true, fits, Bool.and_eq_true] at hv
        simp [hv.1.1, hv.1.2, hv.2]) (fun v hv => hv)


/-- `flatten ∘ unflatten = id`: filling the compatible Tuple/PowerVector from a flat array and reading it back -/
theorem flatten_unflatten : ∀ (M : MetaMat Rat) (s : Bool) (v : Array Rat),
    v.size = (if s then M.rows else M.cols) → (M.unflatten s v).flatten = v
  | csr _, _, _, _ => by simp [unflatten, MetaVec.flatten]
  | bcsr _, _, _, _ => by simp [unflatten, MetaVec.flatten]
  | dense _, _, _, _ => by simp [unflatten, MetaVec.flatten]
  | cscr _, _, _, _ => by simp [unflatten, MetaVec.flatten]
  | banded _, _, _, _ => by simp [unflatten, MetaVec.flatten]
  | row f r, true, v, h => by
    simp only [unflatten]
    exact flatten_unflatten f true v (by simpa [rows] using h)
  | row f r, false, v, h => by
    simp only [Bool.false_eq_true, if_false, cols] at h
    simp only [unflatten, MetaVec.flatten]
    rw [flatten_unflatten f false _ (by simpa using slice_size v 0 f.cols (by omega)),
      flatten_unflatten r false _ (by simpa using slice_size v f.cols r.cols (by omega))]
    exact slice_append_slice v f.cols r.cols h
  | col f r, false, v, h => by
    simp only [unflatten]
    exact flatten_unflatten f false v (by simpa [cols] using h)
  | col f r, true, v, h => by
    simp only [if_true, rows] at h
    simp only [unflatten, MetaVec.flatten]
    rw [flatten_unflatten f true _ (by simpa using slice_size v 0 f.rows (by omega)),
      flatten_unflatten r true _ (by simpa using slice_size v f.rows r.rows (by omega))]
    exact slice_append_slice v f.rows r.rows h
  | diag f r, true, v, h => by
    simp only [if_true, rows] at h
    simp only [unflatten, MetaVec.flatten]
    rw [flatten_unflatten f true _ (by simpa using slice_size v 0 f.rows (by omega)),
      flatten_unflatten r true _ (by simpa using slice_size v f.rows r.rows (by omega))]
    exact slice_append_slice v f.rows r.rows h
  | diag f r, false, v, h => by
    simp only [Bool.false_eq_true, if_false, cols] at h
    simp only [unflatten, MetaVec.flatten]
    rw [flatten_unflatten f false _ (by simpa using slice_size v 0 f.cols (by omega)),
      flatten_unflatten r false _ (by simpa using slice_size v f.cols r.cols (by omega))]
    exact slice_append_slice v f.cols r.cols h
  | saddle a b d, true, v, h => by
    simp only [if_true, rows] at h
    simp only [unflatten, MetaVec.flatten]
    rw [flatten_unflatten a true _ (by simpa using slice_size v 0 a.rows (by omega)),
      flatten_unflatten d true _ (by simpa using slice_size v a.rows d.rows (by omega))]
    exact slice_append_slice v a.rows d.rows h
  | saddle a b d, false, v, h => by
    simp only [Bool.false_eq_true, if_false, cols] at h
    simp only [unflatten, MetaVec.flatten]
    rw [flatten_unflatten a false _ (by simpa using slice_size v 0 a.cols (by omega)),
      flatten_unflatten b false _ (by simpa using slice_size v a.cols b.cols (by omega))]
    exact slice_append_slice v a.cols b.cols h

end MetaMat
end FeatModel.LA
