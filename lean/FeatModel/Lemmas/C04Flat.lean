import FeatModel.Lemmas.C04
/-! flat ↔ composed copies (`set_vec` / `set_vec_inv` with scalar offsets): flatten / unflatten are inverse -/
namespace FeatModel.Vec
namespace MVec
variable {α : Type}

theorem podSize_eq (v : MVec α) : podSize v = v.flatten.length := by
  induction v with
  | dense d => rfl
  | blocked b d => rfl
  | tupleOne f ih => simpa [podSize, flatten] using ih
  | tupleCons f r ihf ihr => simp [podSize, flatten, ihf, ihr]
  | powerOne f ih => simpa [podSize, flatten] using ih
  | powerCons f r ihf ihr => simp [podSize, flatten, ihf, ihr]

theorem writeAt_mid (pre mid post d : List α) (off : Nat) (hp : pre.length = off) (hm : mid.length = d.length) :
    writeAt (pre ++ mid ++ post) off d = pre ++ d ++ post := by
  unfold writeAt
  subst hp
  have h1 : (pre ++ mid ++ post).take pre.length = pre := by simp [List.append_assoc]
  have h2 : (pre ++ mid ++ post).drop (pre.length + d.length) = post := by
    rw [List.append_assoc, List.drop_append]
    simp [← hm]
  rw [h1, h2]

theorem readAt_mid (pre mid post : List α) (off : Nat) (hp : pre.length = off) :
    readAt (pre ++ mid ++ post) off mid.length = mid := by
  unfold readAt
  subst hp
  simp [List.append_assoc]

/-- splitting the middle part of a buffer at a given length -/
theorem split_mid (mid : List α) (a b : Nat) (h : mid.length = a + b) :
    ∃ m1 m2, mid = m1 ++ m2 ∧ m1.length = a ∧ m2.length = b :=
  ⟨mid.take a, mid.drop a, (List.take_append_drop a mid).symm, by simp; omega, by simp; omega⟩

/-- `set_vec` writes the scalars of `v` (in flattening order) at scalar offset `off` and nothing else -/
theorem setVec_mid (v : MVec α) (pre mid post : List α) (off : Nat) (hp : pre.length = off)
    (hm : mid.length = podSize v) : setVec v off (pre ++ mid ++ post) = pre ++ v.flatten ++ post := by
  induction v generalizing pre mid post off with
  | dense d => exact writeAt_mid pre mid post d off hp hm
  | blocked b d => exact writeAt_mid pre mid post d off hp hm
  | tupleOne f ih => exact ih pre mid post off hp hm
  | tupleCons f r ihf ihr =>
    obtain ⟨m1, m2, rfl, h1, h2⟩ := split_mid mid (podSize f) (podSize r) hm
    simp only [setVec, flatten]
    have e1 : pre ++ (m1 ++ m2) ++ post = pre ++ m1 ++ (m2 ++ post) := by simp [List.append_assoc]
    rw [e1, ihf pre m1 (m2 ++ post) off hp h1]
    have e2 : pre ++ f.flatten ++ (m2 ++ post) = (pre ++ f.flatten) ++ m2 ++ post := by simp [List.append_assoc]
    rw [e2, ihr (pre ++ f.flatten) m2 post (off + podSize f) (by simp [hp, podSize_eq]) h2]
    simp [List.append_assoc]
  | powerOne f ih => exact ih pre mid post off hp hm
  | powerCons f r ihf ihr =>
    obtain ⟨m1, m2, rfl, h1, h2⟩ := split_mid mid (podSize f) (podSize r) hm
    simp only [setVec, flatten]
    have e1 : pre ++ (m1 ++ m2) ++ post = pre ++ m1 ++ (m2 ++ post) := by simp [List.append_assoc]
    rw [e1, ihf pre m1 (m2 ++ post) off hp h1]
    have e2 : pre ++ f.flatten ++ (m2 ++ post) = (pre ++ f.flatten) ++ m2 ++ post := by simp [List.append_assoc]
    rw [e2, ihr (pre ++ f.flatten) m2 post (off + podSize f) (by simp [hp, podSize_eq]) h2]
    simp [List.append_assoc]

/-- `set_vec_inv` reads exactly the `size<pod>()` scalars at scalar offset `off`, keeps the shape -/
theorem setVecInv_mid (v : MVec α) (pre mid post : List α) (off : Nat) (hp : pre.length = off)
    (hm : mid.length = podSize v) :
    (setVecInv v off (pre ++ mid ++ post)).flatten = mid ∧ sameShape (setVecInv v off (pre ++ mid ++ post)) v = true := by
  induction v generalizing pre mid post off with
  | dense d =>
    simp only [setVecInv, flatten, sameShape, podSize] at hm ⊢
    rw [← hm, readAt_mid pre mid post off hp]; simp
  | blocked b d =>
    simp only [setVecInv, flatten, sameShape, podSize] at hm ⊢
    rw [← hm, readAt_mid pre mid post off hp]; simp
  | tupleOne f ih => simpa [setVecInv, flatten, sameShape] using ih pre mid post off hp hm
  | tupleCons f r ihf ihr =>
    obtain ⟨m1, m2, rfl, h1, h2⟩ := split_mid mid (podSize f) (podSize r) hm
    simp only [setVecInv, flatten, sameShape, Bool.and_eq_true]
    have e1 : pre ++ (m1 ++ m2) ++ post = pre ++ m1 ++ (m2 ++ post) := by simp [List.append_assoc]
    have e2 : pre ++ (m1 ++ m2) ++ post = (pre ++ m1) ++ m2 ++ post := by simp [List.append_assoc]
    have a := ihf pre m1 (m2 ++ post) off hp h1
    have b := ihr (pre ++ m1) m2 post (off + podSize f) (by simp [hp, h1]) h2
    rw [← e1] at a; rw [← e2] at b
    exact ⟨by rw [a.1, b.1], a.2, b.2⟩
  | powerOne f ih => simpa [setVecInv, flatten, sameShape] using ih pre mid post off hp hm
  | powerCons f r ihf ihr =>
    obtain ⟨m1, m2, rfl, h1, h2⟩ := split_mid mid (podSize f) (podSize r) hm
    simp only [setVecInv, flatten, sameShape, Bool.and_eq_true]
    have e1 : pre ++ (m1 ++ m2) ++ post = pre ++ m1 ++ (m2 ++ post) := by simp [List.append_assoc]
    have e2 : pre ++ (m1 ++ m2) ++ post = (pre ++ m1) ++ m2 ++ post := by simp [List.append_assoc]
    have a := ihf pre m1 (m2 ++ post) off hp h1
    have b := ihr (pre ++ m1) m2 post (off + podSize f) (by simp [hp, h1]) h2
    rw [← e1] at a; rw [← e2] at b
    exact ⟨by rw [a.1, b.1], a.2, b.2⟩

/-- unflatten ∘ flatten = id (at any offset inside a larger array) -/
theorem setVecInv_flatten (v : MVec α) (pre post : List α) (off : Nat) (hp : pre.length = off) :
    setVecInv v off (pre ++ v.flatten ++ post) = v := by
  induction v generalizing pre post off with
  | dense d => simp only [setVecInv, flatten]; rw [readAt_mid pre d post off hp]
  | blocked b d => simp only [setVecInv, flatten]; rw [readAt_mid pre d post off hp]
  | tupleOne f ih => simp only [setVecInv, flatten]; rw [ih pre post off hp]
  | tupleCons f r ihf ihr =>
    simp only [setVecInv, flatten]
    have e1 : pre ++ (f.flatten ++ r.flatten) ++ post = pre ++ f.flatten ++ (r.flatten ++ post) := by
      simp [List.append_assoc]
    have e2 : pre ++ (f.flatten ++ r.flatten) ++ post = (pre ++ f.flatten) ++ r.flatten ++ post := by
      simp [List.append_assoc]
    have a := ihf pre (r.flatten ++ post) off hp
    have b := ihr (pre ++ f.flatten) post (off + podSize f) (by simp [hp, podSize_eq])
    rw [← e1] at a; rw [← e2] at b
    rw [a, b]
  | powerOne f ih => simp only [setVecInv, flatten]; rw [ih pre post off hp]
  | powerCons f r ihf ihr =>
    simp only [setVecInv, flatten]
    have e1 : pre ++ (f.flatten ++ r.flatten) ++ post = pre ++ f.flatten ++ (r.flatten ++ post) := by
      simp [List.append_assoc]
    have e2 : pre ++ (f.flatten ++ r.flatten) ++ post = (pre ++ f.flatten) ++ r.flatten ++ post := by
      simp [List.append_assoc]
    have a := ihf pre (r.flatten ++ post) off hp
    have b := ihr (pre ++ f.flatten) post (off + podSize f) (by simp [hp, podSize_eq])
    rw [← e1] at a; rw [← e2] at b
    rw [a, b]

/-! ### the offsets are the prefix sums of the leaf pod sizes -/

theorem prefixOffsets_append (off : Nat) (a b : List Nat) :
    prefixOffsets off (a ++ b) = prefixOffsets off a ++ prefixOffsets (off + a.sum) b := by
  induction a generalizing off with
  | nil => simp [prefixOffsets]
  | cons n t ih => simp [prefixOffsets, ih, Nat.add_assoc]

theorem leafSizes_sum (v : MVec α) : (leafSizes v).sum = podSize v := by
  induction v with
  | dense d => simp [leafSizes, podSize]
  | blocked b d => simp [leafSizes, podSize]
  | tupleOne f ih => simpa [leafSizes, podSize] using ih
  | tupleCons f r ihf ihr => simp [leafSizes, podSize, ihf, ihr]
  | powerOne f ih => simpa [leafSizes, podSize] using ih
  | powerCons f r ihf ihr => simp [leafSizes, podSize, ihf, ihr]

theorem leafOffsets_eq (v : MVec α) (off : Nat) : leafOffsets v off = prefixOffsets off (leafSizes v) := by
  induction v generalizing off with
  | dense d => simp [leafOffsets, leafSizes, prefixOffsets]
  | blocked b d => simp [leafOffsets, leafSizes, prefixOffsets]
  | tupleOne f ih => simpa [leafOffsets, leafSizes] using ih off
  | tupleCons f r ihf ihr => simp [leafOffsets, leafSizes, prefixOffsets_append, ihf, ihr, leafSizes_sum]
  | powerOne f ih => simpa [leafOffsets, leafSizes] using ih off
  | powerCons f r ihf ihr => simp [leafOffsets, leafSizes, prefixOffsets_append, ihf, ihr, leafSizes_sum]

end MVec
end FeatModel.Vec
