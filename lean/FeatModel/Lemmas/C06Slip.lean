import FeatModel.Lemmas.C06Unit
import FeatModel.Lemmas.C06Mean
/-! helper lemmas for the C06 slip-filter theorems: block reads / writes on the pod array and one kernel step -/
namespace FeatModel.LA.Filter

section Blocks
variable {α : Type}

/-- `blockEntries` as a recursion with a running position -/
def entsFrom : Nat → List α → List (Nat × α)
  | _, [] => []
  | o, x :: t => (o, x) :: entsFrom (o + 1) t

theorem zipWith_range_eq (f : Nat → α → Nat × α) : ∀ (blk : List α),
    (List.range blk.length).zipWith f blk = (List.range' 0 blk.length).zipWith f blk := by
  intro blk; rw [List.range_eq_range']

theorem zipWith_range'_entsFrom (o : Nat) : ∀ (s : Nat) (blk : List α),
    (List.range' s blk.length).zipWith (fun j x => (o + j, x)) blk = entsFrom (o + s) blk
  | _, [] => by simp [entsFrom]
  | s, x :: t => by
    simp only [List.length_cons, List.range'_succ, List.zipWith_cons_cons, entsFrom]
    rw [zipWith_range'_entsFrom o (s + 1) t]
    rfl

theorem blockEntries_eq (bs i : Nat) (blk : List α) : blockEntries bs i blk = entsFrom (bs * i) blk := by
  unfold blockEntries
  rw [zipWith_range_eq, zipWith_range'_entsFrom (bs * i) 0 blk]
  rfl

theorem getElem?_scatter_entsFrom (blk : List α) : ∀ (o : Nat) (v : List α) (p : Nat),
    (scatter (entsFrom o blk) v)[p]? =
      if o ≤ p ∧ p < o + blk.length ∧ p < v.length then blk[p - o]? else v[p]? := by
  induction blk with
  | nil => intro o v p; simp [entsFrom, scatter_nil]; omega
  | cons x t ih =>
    intro o v p
    simp only [entsFrom, scatter_cons]
    rw [ih (o + 1) (v.set o x) p, List.length_set, List.getElem?_set]
    by_cases hpo : o = p
    · subst hpo
      have h1 : ¬ (o + 1 ≤ o ∧ o < o + 1 + t.length ∧ o < v.length) := by omega
      simp only [h1, if_false, if_true]
      by_cases hl : o < v.length
      · simp [hl]
      · have : v[o]? = none := by simp; omega
        simp [hl, this]
    · simp only [hpo, if_false]
      by_cases h2 : o + 1 ≤ p ∧ p < o + 1 + t.length ∧ p < v.length
      · have h3 : o ≤ p ∧ p < o + (t.length + 1) ∧ p < v.length := by omega
        simp only [h2, h3, List.length_cons, and_self, if_true]
        have : p - o = (p - (o + 1)) + 1 := by omega
        rw [this, List.getElem?_cons_succ]
      · have h3 : ¬ (o ≤ p ∧ p < o + (t.length + 1) ∧ p < v.length) := by omega
        simp only [h2, h3, List.length_cons, if_false]

theorem getElem?_writeBlock (bs i : Nat) (blk v : List α) (p : Nat) :
    (writeBlock bs i blk v)[p]? =
      if bs * i ≤ p ∧ p < bs * i + blk.length ∧ p < v.length then blk[p - bs * i]? else v[p]? := by
  unfold writeBlock
  rw [blockEntries_eq, getElem?_scatter_entsFrom]

theorem length_writeBlock (bs i : Nat) (blk v : List α) : (writeBlock bs i blk v).length = v.length := by
  unfold writeBlock; exact length_scatter _ _

variable [Zero α]

theorem length_readBlock (bs i : Nat) (v : List α) : (readBlock bs i v).length = bs := by
  simp [readBlock]

theorem getElem?_readBlock (bs i : Nat) (v : List α) (j : Nat) (hj : j < bs) :
    (readBlock bs i v)[j]? = some (v[bs * i + j]?.getD 0) := by
  simp [readBlock, hj, List.getD_eq_getElem?_getD]

/-- two vectors that agree on the positions of block `i` have the same block `i` -/
theorem readBlock_congr (bs i : Nat) (v w : List α) (h : ∀ j, j < bs → w[bs * i + j]? = v[bs * i + j]?) :
    readBlock bs i w = readBlock bs i v := by
  apply List.ext_getElem?
  intro j
  by_cases hj : j < bs
  · rw [getElem?_readBlock bs i w j hj, getElem?_readBlock bs i v j hj, h j hj]
  · have h1 : (readBlock bs i w)[j]? = none := by simp [length_readBlock]; omega
    have h2 : (readBlock bs i v)[j]? = none := by simp [length_readBlock]; omega
    rw [h1, h2]

theorem readBlock_writeBlock (bs i : Nat) (blk v : List α) (hl : blk.length = bs) (hfit : bs * i + bs ≤ v.length) :
    readBlock bs i (writeBlock bs i blk v) = blk := by
  apply List.ext_getElem?
  intro j
  by_cases hj : j < bs
  · rw [getElem?_readBlock bs i _ j hj, getElem?_writeBlock]
    have h1 : bs * i ≤ bs * i + j ∧ bs * i + j < bs * i + blk.length ∧ bs * i + j < v.length := by omega
    simp only [h1, and_self, if_true, Nat.add_sub_cancel_left]
    have : j < blk.length := by omega
    simp [List.getElem?_eq_getElem this]
  · have h1 : (readBlock bs i (writeBlock bs i blk v))[j]? = none := by simp [length_readBlock]; omega
    have h2 : blk[j]? = none := by simp; omega
    rw [h1, h2]

/-- writing back the block that is already there changes nothing -/
theorem writeBlock_readBlock (bs i : Nat) (v : List α) (hfit : bs * i + bs ≤ v.length) :
    writeBlock bs i (readBlock bs i v) v = v := by
  apply List.ext_getElem?
  intro p
  rw [getElem?_writeBlock, length_readBlock]
  by_cases h : bs * i ≤ p ∧ p < bs * i + bs ∧ p < v.length
  · simp only [h, and_self, if_true]
    rw [getElem?_readBlock bs i v (p - bs * i) (by omega)]
    have : bs * i + (p - bs * i) = p := by omega
    rw [this]
    have hp : p < v.length := h.2.2
    simp [List.getElem?_eq_getElem hp]
  · simp only [h, if_false]

/-- the pod positions of different blocks are different -/
theorem block_disjoint (bs i i' j : Nat) (hne : i' ≠ i) (hj : j < bs) :
    ¬ (bs * i ≤ bs * i' + j ∧ bs * i' + j < bs * i + bs) := by
  rcases Nat.lt_or_gt_of_ne hne with h | h
  · have := Nat.mul_le_mul_left bs (Nat.succ_le_of_lt h)
    rw [Nat.mul_succ] at this
    omega
  · have := Nat.mul_le_mul_left bs (Nat.succ_le_of_lt h)
    rw [Nat.mul_succ] at this
    omega

end Blocks

section Step
variable {α : Type} [Field α]

theorem length_normal (bs : Nat) (e : Nat × List α) : (SlipF.normal bs e).length = bs := by
  simp [SlipF.normal]

theorem zipWith_sub_eq_axpyL (blk nu : List α) (sp : α) :
    List.zipWith (fun b n => b - sp * n) blk nu = axpyL blk nu (-sp) := by
  unfold axpyL
  congr 1
  funext b n
  ring

variable [DecidableEq α]

/-- what one kernel step does -/
theorem step_spec (bs : Nat) (v w : List α) (e : Nat × List α) (h : SlipF.step bs v e = some w) :
    dotL (SlipF.normal bs e) (SlipF.normal bs e) ≠ 0 ∧
    w = writeBlock bs e.1 (axpyL (readBlock bs e.1 v) (SlipF.normal bs e)
          (-(dotL (readBlock bs e.1 v) (SlipF.normal bs e) / dotL (SlipF.normal bs e) (SlipF.normal bs e)))) v := by
  unfold SlipF.step at h
  simp only at h
  split at h
  · simp at h
  · rename_i hne
    simp only [Option.some.injEq] at h
    refine ⟨hne, ?_⟩
    rw [← h, zipWith_sub_eq_axpyL]

theorem step_length (bs : Nat) (v w : List α) (e : Nat × List α) (h : SlipF.step bs v e = some w) :
    w.length = v.length := by
  rw [(step_spec bs v w e h).2, length_writeBlock]

/-- positions outside the block of the entry are not touched -/
theorem step_untouched (bs : Nat) (v w : List α) (e : Nat × List α) (h : SlipF.step bs v e = some w) (p : Nat)
    (hp : ¬ (bs * e.1 ≤ p ∧ p < bs * e.1 + bs)) : w[p]? = v[p]? := by
  rw [(step_spec bs v w e h).2, getElem?_writeBlock, length_axpyL _ _ _ (by rw [length_readBlock, length_normal]),
    length_readBlock]
  have : ¬ (bs * e.1 ≤ p ∧ p < bs * e.1 + bs ∧ p < v.length) := by omega
  simp only [this, if_false]

/-- after the step the block has no normal component -/
theorem step_normal_zero (bs : Nat) (v w : List α) (e : Nat × List α) (h : SlipF.step bs v e = some w)
    (hfit : bs * e.1 + bs ≤ v.length) : dotL (readBlock bs e.1 w) (SlipF.normal bs e) = 0 := by
  obtain ⟨hne, hw⟩ := step_spec bs v w e h
  have hl : (readBlock bs e.1 v).length = (SlipF.normal bs e).length := by rw [length_readBlock, length_normal]
  rw [hw, readBlock_writeBlock bs e.1 _ v (by rw [length_axpyL _ _ _ hl, length_readBlock]) hfit,
    dotL_axpyL _ _ _ _ hl]
  field_simp
  ring

/-- a block without normal component is a fixed point of the step -/
theorem step_fixed (bs : Nat) (w : List α) (e : Nat × List α)
    (hne : dotL (SlipF.normal bs e) (SlipF.normal bs e) ≠ 0)
    (hz : dotL (readBlock bs e.1 w) (SlipF.normal bs e) = 0) (hfit : bs * e.1 + bs ≤ w.length) :
    SlipF.step bs w e = some w := by
  unfold SlipF.step
  simp only [hne, if_false, hz, zero_div, Option.some.injEq]
  have hl : (readBlock bs e.1 w).length = (SlipF.normal bs e).length := by rw [length_readBlock, length_normal]
  rw [zipWith_sub_eq_axpyL, neg_zero, axpyL_zero _ _ hl, writeBlock_readBlock bs e.1 w hfit]

/-! ### the loop over all entries -/

theorem run_length (bs : Nat) (es : List (Nat × List α)) (v w : List α) (h : SlipF.run bs es v = some w) :
    w.length = v.length := by
  induction es generalizing v with
  | nil => simp [SlipF.run] at h; rw [h]
  | cons e t ih =>
    simp only [SlipF.run] at h
    cases hs : SlipF.step bs v e with
    | none => simp [hs] at h
    | some v' =>
      simp only [hs] at h
      rw [ih v' h, step_length bs v v' e hs]

theorem run_normals_ne (bs : Nat) (es : List (Nat × List α)) (v w : List α) (h : SlipF.run bs es v = some w) :
    ∀ e ∈ es, dotL (SlipF.normal bs e) (SlipF.normal bs e) ≠ 0 := by
  induction es generalizing v with
  | nil => simp
  | cons e t ih =>
    simp only [SlipF.run] at h
    cases hs : SlipF.step bs v e with
    | none => simp [hs] at h
    | some v' =>
      simp only [hs] at h
      intro e' he'
      rcases List.mem_cons.mp he' with hh | hh
      · subst hh; exact (step_spec bs v v' e' hs).1
      · exact ih v' h e' hh

/-- pod positions outside every constrained block are unchanged -/
theorem run_untouched (bs : Nat) (es : List (Nat × List α)) (v w : List α) (h : SlipF.run bs es v = some w) (p : Nat)
    (hp : ∀ e ∈ es, ¬ (bs * e.1 ≤ p ∧ p < bs * e.1 + bs)) : w[p]? = v[p]? := by
  induction es generalizing v with
  | nil => simp [SlipF.run] at h; rw [h]
  | cons e t ih =>
    simp only [SlipF.run] at h
    cases hs : SlipF.step bs v e with
    | none => simp [hs] at h
    | some v' =>
      simp only [hs] at h
      rw [ih v' h (fun e' he' => hp e' (List.mem_cons_of_mem _ he')),
        step_untouched bs v v' e hs p (hp e List.mem_cons_self)]

/-- a block whose index is not constrained is unchanged -/
theorem run_block_untouched (bs : Nat) (es : List (Nat × List α)) (v w : List α) (h : SlipF.run bs es v = some w)
    (i : Nat) (hi : ∀ e ∈ es, e.1 ≠ i) : readBlock bs i w = readBlock bs i v := by
  apply readBlock_congr
  intro j hj
  apply run_untouched bs es v w h
  intro e he
  exact block_disjoint bs e.1 i j (fun hh => hi e he hh.symm) hj

/-- every constrained block (pairwise different block indices, all inside the vector) has no normal component
    after the loop -/
theorem run_normal_zero (bs : Nat) (es : List (Nat × List α)) (v w : List α) (h : SlipF.run bs es v = some w)
    (hn : (es.map Prod.fst).Nodup) (hfit : ∀ e ∈ es, bs * e.1 + bs ≤ v.length) :
    ∀ e ∈ es, dotL (readBlock bs e.1 w) (SlipF.normal bs e) = 0 := by
  induction es generalizing v with
  | nil => simp
  | cons e t ih =>
    simp only [SlipF.run] at h
    simp only [List.map_cons, List.nodup_cons] at hn
    cases hs : SlipF.step bs v e with
    | none => simp [hs] at h
    | some v' =>
      simp only [hs] at h
      have hlen := step_length bs v v' e hs
      intro e' he'
      rcases List.mem_cons.mp he' with hh | hh
      · subst hh
        rw [run_block_untouched bs t v' w h e'.1
          (fun g hg heq => hn.1 (List.mem_map.mpr ⟨g, hg, heq⟩))]
        exact step_normal_zero bs v v' e' hs (hfit e' List.mem_cons_self)
      · exact ih v' h hn.2 (fun g hg => by rw [hlen]; exact hfit g (List.mem_cons_of_mem _ hg)) e' hh

/-- a vector whose constrained blocks have no normal component is a fixed point of the loop -/
theorem run_fixed (bs : Nat) (es : List (Nat × List α)) (w : List α)
    (h : ∀ e ∈ es, dotL (SlipF.normal bs e) (SlipF.normal bs e) ≠ 0 ∧
      dotL (readBlock bs e.1 w) (SlipF.normal bs e) = 0 ∧ bs * e.1 + bs ≤ w.length) :
    SlipF.run bs es w = some w := by
  induction es with
  | nil => rfl
  | cons e t ih =>
    obtain ⟨h1, h2, h3⟩ := h e List.mem_cons_self
    simp only [SlipF.run, step_fixed bs w e h1 h2 h3]
    exact ih (fun g hg => h g (List.mem_cons_of_mem _ hg))

end Step

end FeatModel.LA.Filter
