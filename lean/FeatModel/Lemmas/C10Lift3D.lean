import FeatModel.Lemmas.C10Lift2Dg
import FeatModel.Lemmas.C10Facets3D
/-! C10 — 3-D global lift, part 1: the 3-D analogue of `sim_child`.  A vertex term in the context of a FACE `Q` of a
cell (a vertex of `Q`, the midpoint of an edge of `Q`, the centre of `Q`) is translated into a vertex term in the
context of the CELL, for every orientation code `o` the face can have relative to the cell; the translation is sound
whenever `o` is the code the refiner computes (`faceCode`).  Each term of the generated 3-D tables refers to exactly
one sub-entity, so only that sub-entity's code enters: this is the per-face / per-edge independence, proved from the
generated terms. -/
namespace FeatModel.Refine
open FeatModel.Gen.Refine

/-- hypotheses of the 3-D lift about the coarse mesh (all follow from `Mesh.consistent` incl. `orientOk`) -/
structure Conf3 (M : Mesh) : Prop where
  dim : M.dim = 3
  shape : M.shapeOk = true
  faces : ∀ c f, 1 ≤ f → f < c → c ≤ 3 → ∀ e < M.num c, ∀ k < faceCount M.kind c f,
    sameSet (M.tuple f 0 (M.entry c f e k)) (M.localFace c f e k) = true
  nodup : M.nodupOk
  edgeId : ∀ E < M.num 1, ∀ E' < M.num 1, sameSet (M.tuple 1 0 E) (M.tuple 1 0 E') = true → E = E'
  orient : ∀ i < M.num 3, ∀ k < faceCount M.kind 3 2, faceCode M i k ∈ goodCodes M.kind ∧
    ∀ j < faceCount M.kind 2 0,
      M.entry 2 0 (M.entry 3 2 i k) (congLookup M.kind 2 0 (faceCode M i k) j)
        = M.entry 3 0 i (((faceIndexMap M.kind 3 2 0).getD k []).getD j 0)

/-- position `j` of the cell's view of the face that the code `o` maps to face-local vertex `p` -/
def invLookup (kind : Kind) (o : Int) (p : Nat) : Nat :=
  ((List.range (faceCount kind 2 0)).find? fun j => congLookup kind 2 0 o j == p).getD 0

/-- the cell-local edge with the (cell-local) end points `a`, `b` -/
def cellEdgeOf (kind : Kind) (a b : Nat) : Nat :=
  ((faceIndexMap kind 3 1 0).findIdx? fun pr => sameSet pr [a, b]).getD 0

/-- cell-local vertex that is the face-local vertex `p` of the cell's `k`-th face under code `o` -/
def cellVertOf (kind : Kind) (k : Nat) (o : Int) (p : Nat) : Nat :=
  ((faceIndexMap kind 3 2 0).getD k []).getD (invLookup kind o p) 0

/-- translate a vertex term of the face context `(2, Q)` into the cell context `(3, i)`, `Q` = the cell's `k`-th face -/
def transl (kind : Kind) (k : Nat) (o : Int) (t : Term) : Term :=
  match t.src with
  | none => ⟨2, 1, some (3, 2, k), .const 0⟩
  | some (_, 0, p) => ⟨0, 1, some (3, 0, cellVertOf kind k o p), .const 0⟩
  | some (_, _, e') =>
    let pe := (faceIndexMap kind 2 1 0).getD e' []
    ⟨1, 1, some (3, 1, cellEdgeOf kind (cellVertOf kind k o (pe.getD 0 0)) (cellVertOf kind k o (pe.getD 1 0))), .const 0⟩

/-- admissible vertex terms in the context of a 2-dimensional entity (rows of the tables `(2,f,0)`) -/
def fvtermOk (kind : Kind) (t : Term) : Bool :=
  t.mult == 1 && t.add == .const 0 &&
  (match t.src with
   | none => t.off == 2
   | some (a, b, j) => a == 2 && ((b == 0 && t.off == 0 && j < faceCount kind 2 0) ||
                                   (b == 1 && t.off == 1 && j < faceCount kind 2 1)))

theorem transl_facts (kind : Kind) : ∀ k < faceCount kind 3 2, ∀ o ∈ goodCodes kind,
    (∀ p < faceCount kind 2 0, invLookup kind o p < faceCount kind 2 0 ∧
        congLookup kind 2 0 o (invLookup kind o p) = p ∧ cellVertOf kind k o p < faceCount kind 3 0) ∧
    (∀ e' < faceCount kind 2 1,
        cellEdgeOf kind (cellVertOf kind k o (((faceIndexMap kind 2 1 0).getD e' []).getD 0 0))
            (cellVertOf kind k o (((faceIndexMap kind 2 1 0).getD e' []).getD 1 0)) < faceCount kind 3 1 ∧
        sameSet ((faceIndexMap kind 3 1 0).getD
            (cellEdgeOf kind (cellVertOf kind k o (((faceIndexMap kind 2 1 0).getD e' []).getD 0 0))
              (cellVertOf kind k o (((faceIndexMap kind 2 1 0).getD e' []).getD 1 0))) [])
          [cellVertOf kind k o (((faceIndexMap kind 2 1 0).getD e' []).getD 0 0),
           cellVertOf kind k o (((faceIndexMap kind 2 1 0).getD e' []).getD 1 0)] = true) := by
  cases kind <;> decide

theorem shape_facts_g (M : Mesh) (hs : M.shapeOk = true) (c f : Nat) (hc1 : 1 ≤ c) (hc : c ≤ M.dim) (hfc : f < c)
    (i : Nat) (hi : i < M.num c) :
    (M.tuple c f i).length = faceCount M.kind c f ∧ ∀ j < faceCount M.kind c f, M.entry c f i j < M.num f := by
  obtain ⟨hlen, hrows⟩ := (shapeOk_iff M).1 hs c hc1 hc f hfc
  have hi' : i < (M.idx c f).length := by omega
  refine ⟨(hrows _ (tuple_mem_idx M c f i hi')).1, fun j hj => ?_⟩
  exact entry_lt M hs c f i j hc1 hc hfc hi hj

theorem localFace_map (M : Mesh) (c f e k : Nat) (hf : f ≠ 0) :
    M.localFace c f e k = ((faceIndexMap M.kind c f 0).getD k []).map fun j => M.entry c 0 e j := by
  unfold Mesh.localFace
  rw [if_neg hf]

theorem off0 (kind : Kind) (nums : List Nat) :
    offset kind nums 0 0 = 0 ∧ offset kind nums 0 1 = nums.getD 0 0 ∧
    offset kind nums 0 2 = nums.getD 0 0 + nums.getD 1 0 := by
  cases kind <;> simp [offset, refCount, List.range'_succ]

theorem fim_len2 (kind : Kind) :
    (∀ e < faceCount kind 2 1, ((faceIndexMap kind 2 1 0).getD e []).length = 2) ∧
    (∀ g < faceCount kind 3 1, ((faceIndexMap kind 3 1 0).getD g []).length = 2) := by
  cases kind <;> decide

/-- **soundness of the translation** (3-D analogue of `sim_child`): a vertex term evaluated in the context of the
    cell's `k`-th face `Q` has the same value as its translation evaluated in the context of the cell, when the
    translation uses the orientation code of that face and of no other sub-entity -/
theorem transl_sound (M : Mesh) (h : Conf3 M) (i k : Nat) (hi : i < M.num 3) (hk : k < faceCount M.kind 3 2)
    (t : Term) (ht : fvtermOk M.kind t = true) :
    evalTerm M 2 0 (M.entry 3 2 i k) t = evalTerm M 3 0 i (transl M.kind k (faceCode M i k) t) := by
  obtain ⟨o00, o01, o02⟩ := off0 M.kind M.nums
  obtain ⟨hgood, hor⟩ := h.orient i hi k hk
  obtain ⟨F1, F2⟩ := transl_facts M.kind k hk _ hgood
  have hQ : M.entry 3 2 i k < M.num 2 :=
    (shape_facts_g M h.shape 3 2 (by omega) (by rw [h.dim]; omega) (by omega) i hi).2 k hk
  -- a face vertex seen from the cell
  have hvert : ∀ p, p < faceCount M.kind 2 0 →
      M.entry 2 0 (M.entry 3 2 i k) p = M.entry 3 0 i (cellVertOf M.kind k (faceCode M i k) p) := by
    intro p hp
    obtain ⟨g1, g2, _⟩ := F1 p hp
    have := hor (invLookup M.kind (faceCode M i k) p) g1
    rw [g2] at this
    exact this
  obtain ⟨off, mult, src, add⟩ := t
  simp only [fvtermOk, Bool.and_eq_true, beq_iff_eq] at ht
  obtain ⟨⟨rfl, rfl⟩, hs⟩ := ht
  cases src with
  | none =>
    simp only [beq_iff_eq] at hs; subst hs
    simp [transl, evalTerm, evalSrc, evalAdd, o02]
  | some p =>
    obtain ⟨a, b, j⟩ := p
    simp only [Bool.and_eq_true, Bool.or_eq_true, beq_iff_eq, decide_eq_true_eq] at hs
    obtain ⟨rfl, hs⟩ := hs
    rcases hs with ⟨⟨rfl, rfl⟩, hj⟩ | ⟨⟨rfl, rfl⟩, hj⟩
    · simp only [transl, evalTerm, evalSrc, evalAdd, o00]
      rw [hvert j hj]
    · -- an edge of the face is an edge of the cell
      obtain ⟨g1, g2⟩ := F2 j hj
      obtain ⟨l1, l2⟩ := fim_len2 M.kind
      simp only [transl, evalTerm, evalSrc, evalAdd, o01]
      suffices hkey : M.entry 2 1 (M.entry 3 2 i k) j = M.entry 3 1 i
          (cellEdgeOf M.kind (cellVertOf M.kind k (faceCode M i k) (((faceIndexMap M.kind 2 1 0).getD j []).getD 0 0))
            (cellVertOf M.kind k (faceCode M i k) (((faceIndexMap M.kind 2 1 0).getD j []).getD 1 0))) by
        rw [hkey]
      have hE1 : M.entry 2 1 (M.entry 3 2 i k) j < M.num 1 :=
        (shape_facts_g M h.shape 2 1 (by omega) (by rw [h.dim]; omega) (by omega) _ hQ).2 j hj
      have hE2 := (shape_facts_g M h.shape 3 1 (by omega) (by rw [h.dim]; omega) (by omega) i hi).2 _ g1
      apply h.edgeId _ hE1 _ hE2
      have f1 := h.faces 2 1 (by omega) (by omega) (by omega) _ hQ j hj
      have f2 := h.faces 3 1 (by omega) (by omega) (by omega) i hi _ g1
      rw [localFace_map M 2 1 _ j (by omega), list_len2 (l1 j hj)] at f1
      rw [localFace_map M 3 1 i _ (by omega)] at f2
      refine sameSet_trans f1 (sameSet_symm (sameSet_trans f2 ?_))
      -- the two descriptions of the edge's end points agree as sets
      rw [sameSet_iff] at g2 ⊢
      simp only [List.map_cons, List.map_nil, List.mem_cons, List.not_mem_nil, or_false, List.mem_map,
        forall_exists_index, and_imp, forall_eq_or_imp, forall_eq]
      have p0 := fim2_lt M.kind j hj 0 (by omega)
      have p1 := fim2_lt M.kind j hj 1 (by omega)
      constructor
      · intro x y hy hx
        subst hx
        have := g2.1 y hy
        simp only [List.mem_cons, List.not_mem_nil, or_false] at this
        rcases this with rfl | rfl
        · left; exact (hvert _ p0).symm
        · right; exact (hvert _ p1).symm
      · constructor
        · exact ⟨cellVertOf M.kind k (faceCode M i k) (((faceIndexMap M.kind 2 1 0).getD j []).getD 0 0),
            g2.2 _ (by simp), (hvert _ p0).symm⟩
        · exact ⟨cellVertOf M.kind k (faceCode M i k) (((faceIndexMap M.kind 2 1 0).getD j []).getD 1 0),
            g2.2 _ (by simp), (hvert _ p1).symm⟩


end FeatModel.Refine
