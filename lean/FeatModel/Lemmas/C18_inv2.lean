/-
C18 helper lemmas, part 3: a left inverse of a square matrix is a right inverse (via Mathlib's `Matrix`),
so `invert_matrix` also satisfies `A * A⁻¹ = 1`.
-/
import FeatModel.Lemmas.C18_inv
import Mathlib.LinearAlgebra.Matrix.NonsingularInverse
open FeatModel.GT Finset

namespace C18L

theorem invert_right_inverse {n stride : Nat} {a : Mat} {det : Rat} {b : Mat} {p : List Nat}
    (h : invertMatrix n stride a = some (det, b, p)) (hn : 0 < n) (hs : n ≤ stride) :
    ∀ i c, i < n → c < n →
      sumTo n (fun j => FeatModel.GT.get a i j * FeatModel.GT.get b j c) = if i = c then 1 else 0 := by
  let MA : Matrix (Fin n) (Fin n) ℚ := fun i j => FeatModel.GT.get a i.1 j.1
  let MB : Matrix (Fin n) (Fin n) ℚ := fun i j => FeatModel.GT.get b i.1 j.1
  have hl : MB * MA = 1 := by
    ext i c
    rw [Matrix.mul_apply, Matrix.one_apply]
    have := invert_left_inverse h hn hs i.1 c.1 i.2 c.2
    rw [sumTo_eq] at this
    rw [Fin.sum_univ_eq_sum_range (fun j => FeatModel.GT.get b i.1 j * FeatModel.GT.get a j c.1) n, this]
    simp [Fin.ext_iff]
  have hr : MA * MB = 1 := mul_eq_one_comm.mp hl
  intro i c hi hc
  have := congrFun (congrFun hr ⟨i, hi⟩) ⟨c, hc⟩
  rw [Matrix.mul_apply, Matrix.one_apply] at this
  rw [sumTo_eq, ← Fin.sum_univ_eq_sum_range (fun j => FeatModel.GT.get a i j * FeatModel.GT.get b j c) n]
  rw [this]
  simp [Fin.ext_iff]

end C18L
