import FeatModel.Model.Adjacency
/-!
Lemmas and final proofs for the render-kernel group of C19
(`injectify`, `transpose`, `injectifyTranspose`, `compose`, `sortIndices`, CSR array faithfulness).
Core Lean only.
-/
open FeatModel.Adj

namespace C19L.renders

/-! ### generic: row of a mapped adjacency -/

theorem getD_map_nil {f : List Nat → List Nat} (hf : f [] = []) (adj : List (List Nat)) (i : Nat) :
    (adj.map f).getD i [] = f (adj.getD i []) := by
  simp only [List.getD_eq_getElem?_getD, List.getElem?_map]
  cases adj[i]? <;> simp [hf]

/-! ### dedup / injectify -/

theorem mem_dedup (l : List Nat) (k : Nat) : k ∈ Graph.dedup l ↔ k ∈ l := by
  induction l with
  | nil => simp [Graph.dedup]
  | cons x xs ih =>
    simp only [Graph.dedup, List.mem_cons, List.mem_filter, ih, bne_iff_ne, ne_eq]
    by_cases h : k = x <;> simp [h]

theorem nodup_dedup (l : List Nat) : (Graph.dedup l).Nodup := by
  induction l with
  | nil => simp [Graph.dedup]
  | cons x xs ih =>
    simp only [Graph.dedup, List.nodup_cons, List.mem_filter, bne_self_eq_false, and_false,
      not_false_eq_true, true_and, Bool.false_eq_true]
    exact ih.sublist List.filter_sublist

theorem dedup_sublist (l : List Nat) : (Graph.dedup l).Sublist l := by
  induction l with
  | nil => simp [Graph.dedup]
  | cons x xs ih =>
    simp only [Graph.dedup]
    exact (List.filter_sublist.trans ih).cons_cons x

theorem injectify_row (g : Graph) (i : Nat) : g.injectify.row i = Graph.dedup (g.row i) := by
  simp only [Graph.row, Graph.injectify]
  exact getD_map_nil (by simp [Graph.dedup]) _ _

theorem injectify_spec (g : Graph) (i : Nat) :
    (g.injectify.row i).Nodup ∧ (∀ k, k ∈ g.injectify.row i ↔ k ∈ g.row i) ∧
    (g.injectify.row i).Sublist (g.row i) ∧ g.injectify.nImg = g.nImg ∧ g.injectify.nDom = g.nDom := by
  rw [injectify_row]
  refine ⟨nodup_dedup _, mem_dedup _, dedup_sublist _, rfl, ?_⟩
  simp [Graph.injectify, Graph.nDom]

/-! ### transpose -/

theorem range_map_getD {f : Nat → List Nat} (n i : Nat) (hi : i < n) :
    ((List.range n).map f).getD i [] = f i := by
  simp [List.getD_eq_getElem?_getD, List.getElem?_map, List.getElem?_range hi]

theorem filter_map_const (l : List Nat) (i j : Nat) :
    ((l.filter (· == i)).map fun _ => j) = List.replicate (l.count i) j := by
  rw [List.map_const', List.count_eq_countP, List.countP_eq_length_filter]

/-- the per-row function of `transposeRow` (definitionally the lambda used in the model) -/
def tF (i : Nat) : List Nat × Nat → List Nat := fun (l, j) => (l.filter (· == i)).map fun _ => j

theorem tF_apply (i : Nat) (l : List Nat) (j : Nat) : tF i (l, j) = List.replicate (l.count i) j :=
  filter_map_const l i j

theorem transposeRow_eq (adj : List (List Nat)) (i : Nat) :
    Graph.transposeRow adj i = (adj.zipIdx 0).flatMap (tF i) := rfl

theorem transposeRow_aux_count (adj : List (List Nat)) (i j k : Nat) :
    ((adj.zipIdx k).flatMap (tF i)).count j
      = if k ≤ j then (adj.getD (j - k) []).count i else 0 := by
  induction adj generalizing k with
  | nil => simp
  | cons x xs ih =>
    simp only [List.zipIdx_cons, List.flatMap_cons, List.count_append, ih, tF_apply,
      List.count_replicate]
    by_cases h1 : k = j
    · subst h1
      have h2 : ¬ (k + 1 ≤ k) := by omega
      simp [h2]
    · by_cases h2 : k + 1 ≤ j
      · have : j - k = (j - (k+1)) + 1 := by omega
        have h3 : k ≤ j := by omega
        have h4 : (k == j) = false := by simp [h1]
        simp [h2, h3, h4, this]
      · have h3 : ¬ k ≤ j := by omega
        have h4 : (k == j) = false := by simp [h1]
        simp [h2, h3, h4]

theorem transposeRow_aux_ge (adj : List (List Nat)) (i k : Nat) :
    ∀ m ∈ ((adj.zipIdx k).flatMap (tF i)), k ≤ m := by
  induction adj generalizing k with
  | nil => simp
  | cons x xs ih =>
    intro m hm
    simp only [List.zipIdx_cons, List.flatMap_cons, List.mem_append, tF_apply,
      List.mem_replicate] at hm
    rcases hm with h | h
    · omega
    · have := ih (k+1) m (h); omega

theorem transposeRow_aux_sorted (adj : List (List Nat)) (i k : Nat) :
    ((adj.zipIdx k).flatMap (tF i)).Pairwise (· ≤ ·) := by
  induction adj generalizing k with
  | nil => simp
  | cons x xs ih =>
    simp only [List.zipIdx_cons, List.flatMap_cons, tF_apply]
    rw [List.pairwise_append]
    refine ⟨?_, ih (k+1), ?_⟩
    · simp [List.pairwise_replicate]
    · intro a ha b hb
      have := transposeRow_aux_ge xs i (k+1) b hb
      simp only [List.mem_replicate] at ha
      omega

theorem transpose_row (g : Graph) (i : Nat) (hi : i < g.nImg) :
    g.transpose.row i = Graph.transposeRow g.adj i := by
  simp only [Graph.row, Graph.transpose]
  exact range_map_getD _ _ hi

theorem transpose_spec (g : Graph) (i j : Nat) (hi : i < g.nImg) :
    (g.transpose.row i).count j = (g.row j).count i ∧ (g.transpose.row i).Pairwise (· ≤ ·) ∧
    g.transpose.nDom = g.nImg ∧ g.transpose.nImg = g.nDom := by
  rw [transpose_row g i hi]
  refine ⟨?_, ?_, ?_, rfl⟩
  · have := transposeRow_aux_count g.adj i j 0
    simpa [transposeRow_eq, Graph.row] using this
  · rw [transposeRow_eq]; exact transposeRow_aux_sorted g.adj i 0
  · simp [Graph.transpose, Graph.nDom]

/-! ### injectifyTranspose -/

/-- the per-row function of `injTransposeRow` (definitionally the lambda used in the model) -/
def iF (i : Nat) : List Nat × Nat → Option Nat := fun (l, j) => if l.contains i then some j else none

theorem iF_apply (i : Nat) (l : List Nat) (j : Nat) :
    iF i (l, j) = if l.contains i then some j else none := rfl

theorem injTransposeRow_eq (adj : List (List Nat)) (i : Nat) :
    Graph.injTransposeRow adj i = (adj.zipIdx 0).filterMap (iF i) := rfl

theorem injT_aux_mem (adj : List (List Nat)) (i j k : Nat) :
    j ∈ ((adj.zipIdx k).filterMap (iF i))
      ↔ k ≤ j ∧ i ∈ adj.getD (j - k) [] := by
  induction adj generalizing k with
  | nil => simp
  | cons x xs ih =>
    rw [List.zipIdx_cons]
    by_cases hx : x.contains i = true
    · have e : iF i (x, k) = some k := by rw [iF_apply, if_pos hx]
      rw [List.filterMap_cons_some e, List.mem_cons, ih]
      by_cases h1 : j = k
      · subst h1; simpa using hx
      · constructor
        · rintro (h | ⟨h, h'⟩)
          · exact absurd h h1
          · refine ⟨by omega, ?_⟩
            have : j - k = (j - (k+1)) + 1 := by omega
            rw [this]; simpa using h'
        · rintro ⟨h, h'⟩
          right
          refine ⟨by omega, ?_⟩
          have : j - k = (j - (k+1)) + 1 := by omega
          rw [this] at h'; simpa using h'
    · have e : iF i (x, k) = none := by rw [iF_apply, if_neg hx]
      rw [List.filterMap_cons_none e, ih]
      have hx' : i ∉ x := by simpa using hx
      by_cases h1 : j = k
      · subst h1
        have h2 : ¬ (j + 1 ≤ j) := by omega
        simp [hx', h2]
      · constructor
        · rintro ⟨h, h'⟩
          refine ⟨by omega, ?_⟩
          have : j - k = (j - (k+1)) + 1 := by omega
          rw [this]; simpa using h'
        · rintro ⟨h, h'⟩
          refine ⟨by omega, ?_⟩
          have : j - k = (j - (k+1)) + 1 := by omega
          rw [this] at h'; simpa using h'

theorem injT_aux_sorted (adj : List (List Nat)) (i k : Nat) :
    ((adj.zipIdx k).filterMap (iF i)).Pairwise (· < ·) := by
  induction adj generalizing k with
  | nil => simp
  | cons x xs ih =>
    rw [List.zipIdx_cons]
    by_cases hx : x.contains i = true
    · have e : iF i (x, k) = some k := by rw [iF_apply, if_pos hx]
      rw [List.filterMap_cons_some e, List.pairwise_cons]
      refine ⟨?_, ih (k+1)⟩
      intro a ha
      have := (injT_aux_mem xs i a (k+1)).1 ha
      omega
    · have e : iF i (x, k) = none := by rw [iF_apply, if_neg hx]
      rw [List.filterMap_cons_none e]
      exact ih (k+1)

theorem injectifyTranspose_row (g : Graph) (i : Nat) (hi : i < g.nImg) :
    g.injectifyTranspose.row i = Graph.injTransposeRow g.adj i := by
  simp only [Graph.row, Graph.injectifyTranspose]
  exact range_map_getD _ _ hi

theorem injectifyTranspose_spec (g : Graph) (i j : Nat) (hi : i < g.nImg) :
    (j ∈ g.injectifyTranspose.row i ↔ i ∈ g.row j) ∧ (g.injectifyTranspose.row i).Pairwise (· < ·) ∧
    g.injectifyTranspose.nDom = g.nImg ∧ g.injectifyTranspose.nImg = g.nDom := by
  rw [injectifyTranspose_row g i hi]
  refine ⟨?_, ?_, ?_, rfl⟩
  · have := injT_aux_mem g.adj i j 0
    simpa [injTransposeRow_eq, Graph.row] using this
  · rw [injTransposeRow_eq]; exact injT_aux_sorted g.adj i 0
  · simp [Graph.injectifyTranspose, Graph.nDom]

/-! ### compose -/

theorem compose_spec (a b : Graph) (i : Nat) :
    (Graph.compose a b).row i = (a.row i).flatMap b.row ∧
    (∀ k, k ∈ (Graph.compose a b).row i ↔ ∃ j, j ∈ a.row i ∧ k ∈ b.row j) := by
  have h : (Graph.compose a b).row i = (a.row i).flatMap b.row := by
    simp only [Graph.row, Graph.compose]
    exact getD_map_nil (f := fun l => l.flatMap fun i => b.adj.getD i []) (by simp) _ _
  refine ⟨h, ?_⟩
  intro k
  rw [h]
  simp [List.mem_flatMap]

/-! ### sortIndices -/

theorem insertSorted_perm (x : Nat) (l : List Nat) : (Graph.insertSorted x l).Perm (x :: l) := by
  induction l with
  | nil => simp [Graph.insertSorted]
  | cons y ys ih =>
    simp only [Graph.insertSorted]
    split
    · exact List.Perm.refl _
    · exact (ih.cons y).trans (List.Perm.swap x y ys)

theorem insertSorted_sorted (x : Nat) (l : List Nat) (h : l.Pairwise (· ≤ ·)) :
    (Graph.insertSorted x l).Pairwise (· ≤ ·) := by
  induction l with
  | nil => simp [Graph.insertSorted]
  | cons y ys ih =>
    simp only [Graph.insertSorted]
    rw [List.pairwise_cons] at h
    split
    · rename_i hxy
      rw [List.pairwise_cons]
      refine ⟨?_, List.pairwise_cons.2 h⟩
      intro a ha
      rcases List.mem_cons.1 ha with rfl | ha
      · exact hxy
      · exact Nat.le_trans hxy (h.1 a ha)
    · rename_i hxy
      rw [List.pairwise_cons]
      refine ⟨?_, ih h.2⟩
      intro a ha
      have := (insertSorted_perm x ys).mem_iff.1 ha
      rcases List.mem_cons.1 this with rfl | ha
      · omega
      · exact h.1 a ha

theorem sortList_perm (l : List Nat) : (Graph.sortList l).Perm l := by
  induction l with
  | nil => simp [Graph.sortList]
  | cons x xs ih =>
    simp only [Graph.sortList]
    exact (insertSorted_perm x _).trans (ih.cons x)

theorem sortList_sorted (l : List Nat) : (Graph.sortList l).Pairwise (· ≤ ·) := by
  induction l with
  | nil => simp [Graph.sortList]
  | cons x xs ih =>
    simp only [Graph.sortList]
    exact insertSorted_sorted x _ ih

theorem sortIndices_row (g : Graph) (i : Nat) : g.sortIndices.row i = Graph.sortList (g.row i) := by
  simp only [Graph.row, Graph.sortIndices]
  exact getD_map_nil (by simp [Graph.sortList]) _ _

theorem sortIndices_spec (g : Graph) (i : Nat) :
    (g.sortIndices.row i).Perm (g.row i) ∧ (g.sortIndices.row i).Pairwise (· ≤ ·) := by
  rw [sortIndices_row]
  exact ⟨sortList_perm _, sortList_sorted _⟩

/-! ### CSR arrays -/

theorem prefixSums_length (acc : Nat) (l : List Nat) : (Graph.prefixSums acc l).length = l.length + 1 := by
  induction l generalizing acc with
  | nil => simp [Graph.prefixSums]
  | cons x xs ih => simp [Graph.prefixSums, ih]

theorem prefixSums_getD_zero (acc : Nat) (l : List Nat) : (Graph.prefixSums acc l).getD 0 0 = acc := by
  cases l <;> simp [Graph.prefixSums]

theorem arrays_aux (adj : List (List Nat)) (acc i : Nat) (hi : i < adj.length) :
    acc ≤ (Graph.prefixSums acc (adj.map List.length)).getD i 0 ∧
    adj.getD i [] =
      (adj.flatten.drop ((Graph.prefixSums acc (adj.map List.length)).getD i 0 - acc)).take
        ((Graph.prefixSums acc (adj.map List.length)).getD (i+1) 0
          - (Graph.prefixSums acc (adj.map List.length)).getD i 0) := by
  induction adj generalizing acc i with
  | nil => simp at hi
  | cons x xs ih =>
    cases i with
    | zero =>
      simp only [List.map_cons, Graph.prefixSums, List.getD_cons_zero, List.getD_cons_succ,
        prefixSums_getD_zero, Nat.le_refl, Nat.sub_self, List.drop_zero, List.flatten_cons, true_and]
      simp
    | succ i =>
      have hi' : i < xs.length := by simpa using hi
      obtain ⟨h1, h2⟩ := ih (acc + x.length) i hi'
      simp only [List.map_cons, Graph.prefixSums, List.getD_cons_succ, List.flatten_cons]
      refine ⟨by omega, ?_⟩
      rw [h2, List.drop_append]
      have e1 : (Graph.prefixSums (acc + x.length) (xs.map List.length)).getD i 0 - acc - x.length
          = (Graph.prefixSums (acc + x.length) (xs.map List.length)).getD i 0 - (acc + x.length) := by
        omega
      have e2 : x.drop ((Graph.prefixSums (acc + x.length) (xs.map List.length)).getD i 0 - acc) = [] := by
        apply List.drop_eq_nil_of_le; omega
      rw [e1, e2, List.nil_append, ← h2]

theorem arrays_faithful (g : Graph) (i : Nat) (hi : i < g.nDom) :
    g.domainPtr.length = g.nDom + 1 ∧
    g.row i = (g.imageIdx.drop (g.domainPtr.getD i 0)).take (g.domainPtr.getD (i+1) 0 - g.domainPtr.getD i 0) := by
  refine ⟨by simp [Graph.domainPtr, Graph.nDom, prefixSums_length], ?_⟩
  have := (arrays_aux g.adj 0 i hi).2
  simpa [Graph.row, Graph.imageIdx, Graph.domainPtr] using this

end C19L.renders
