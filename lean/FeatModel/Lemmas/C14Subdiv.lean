import FeatModel.Lemmas.C14Tables
import FeatModel.Lemmas.C14Rat
import FeatModel.Lemmas.C14SubdivS1
import FeatModel.Lemmas.C14SubdivS2
import FeatModel.Lemmas.C14SubdivS3a
import FeatModel.Lemmas.C14SubdivS3b
import FeatModel.Lemmas.C14SubdivS3c
import FeatModel.Lemmas.C14SubdivS3d
import FeatModel.Lemmas.C14SubdivH1
import FeatModel.Lemmas.C14SubdivH2
import FeatModel.Lemmas.C14SubdivH3
/-! C14: the subdivision identities of all six refineries, recombined; the k-fold refinement theorem -/
namespace FeatModel.Cub

/-- degree up to which the subdivision identity of the shape's refinery is kernel-checked -/
def refineDegreeBound : Shape → Nat
  | .s1 => 39 | .s2 => 20 | .s3 => 8 | .h1 => 39 | .h2 => 16 | .h3 => 8

/-- bound on the amplification of moment errors by one refinement (coefficient-wise): 1 except for tetrahedra -/
def refineGrowth : Shape → Nat
  | .s3 => 39 | _ => 1

theorem subdivS3 : subdivAll true 3 Gen.refMapsS3 39 8 = true := by
  unfold subdivAll
  rw [Bool.and_eq_true]
  refine ⟨by decide +kernel, ?_⟩
  apply all_of_take_drop _ _ 60 subdivS3a
  apply all_of_take_drop _ _ 40 subdivS3b
  apply all_of_take_drop _ _ 35 subdivS3c
  have h := subdivS3d
  simpa [List.drop_drop] using h

theorem subdiv_all (s : Shape) :
    subdivAll s.simplex s.dim (Gen.refMapsOf s) (refineGrowth s) (refineDegreeBound s) = true := by
  cases s
  · exact subdivS1
  · exact subdivS2
  · exact subdivS3
  · exact subdivH1
  · exact subdivH2
  · exact subdivH3

theorem wf_refine (t : DyTable) (rm : RefMaps) (dim : Nat) (ht : t.wf dim = true) (hrm : rm.wf dim = true) :
    ∀ k, (t.refine rm k).wf dim = true
  | 0 => ht
  | k + 1 => wf_refine1 _ rm dim (wf_refine t rm dim ht hrm k) hrm

/-- k refinements: moment errors up to degree d are amplified by at most `growth^k` -/
theorem refine_error (s : Shape) (t : DyTable) (d : Nat) (ε : Rat) (hd : d ≤ refineDegreeBound s)
    (ht : t.wf s.dim = true) (hε : 0 ≤ ε) (H : t.ExactQ s.simplex s.dim d ε) :
    ∀ k, (t.refine (Gen.refMapsOf s) k).ExactQ s.simplex s.dim d ((refineGrowth s : Rat) ^ k * ε)
  | 0 => by simpa [DyTable.refine] using H
  | k + 1 => by
    have hall := subdiv_all s
    unfold subdivAll at hall
    rw [Bool.and_eq_true] at hall
    have ih := refine_error s t d ε hd ht hε H k
    intro e hl hs
    have hok := List.all_eq_true.1 hall.2 e (mem_monos s.dim _ e hl (le_trans hs hd))
    have hg : (0 : Rat) ≤ (refineGrowth s : Rat) ^ k * ε := mul_nonneg (by positivity) hε
    have := refine1_error s.simplex s.dim (Gen.refMapsOf s) (refineGrowth s) e (t.refine (Gen.refMapsOf s) k)
      ((refineGrowth s : Rat) ^ k * ε) hg (wf_refine t _ s.dim ht hall.1 k) hall.1 hok
      (fun f hfl hfs => ih f hfl (le_trans hfs hs))
    simp only [DyTable.refine]
    rw [pow_succ]
    calc _ ≤ _ := this
      _ = _ := by ring

end FeatModel.Cub
