import FeatModel.Model.PolySubst
import FeatModel.Lemmas.C15Poly
/-! `eval` is multiplicative and commutes with substitution — for all polynomials and all points. -/
namespace FeatModel.Poly

theorem monoEval_monoMul (x : Nat → Rat) (k : Nat) (a b : Mono) :
    monoEval x k (monoMul a b) = monoEval x k a * monoEval x k b := by
  induction a generalizing b k with
  | nil => simp [monoMul, monoEval]
  | cons e es ih =>
    cases b with
    | nil => simp [monoMul, monoEval]
    | cons f fs =>
      have hp : ∀ (q : Rat) (m n : Nat), rpow q (m + n) = rpow q m * rpow q n := by
        intro q m n
        induction m with
        | zero => simp [rpow]
        | succ m ihm => rw [Nat.succ_add]; simp only [rpow, ihm]; ring
      simp only [monoMul, monoEval, ih, hp]; ring

theorem eval_mul_term (x : Nat → Rat) (s : Rat × Mono) (q : Poly) :
    eval x (q.map fun t => (s.1 * t.1, monoMul s.2 t.2)) = s.1 * monoEval x 0 s.2 * eval x q := by
  induction q with
  | nil => simp [eval]
  | cons t q ih => simp only [List.map_cons, eval_cons, ih, monoEval_monoMul]; ring

theorem eval_mul (x : Nat → Rat) (p q : Poly) : eval x (mul p q) = eval x p * eval x q := by
  induction p with
  | nil => simp [mul, eval]
  | cons s p ih =>
    have : mul (s :: p) q = (q.map fun t => (s.1 * t.1, monoMul s.2 t.2)) ++ mul p q := by
      simp [mul, List.flatMap_cons]
    rw [this, eval_append, eval_mul_term, ih, eval_cons]; ring

theorem eval_const (x : Nat → Rat) (c : Rat) : eval x (const c) = c := by
  simp [const, eval, monoEval]

theorem eval_ppow (x : Nat → Rat) (p : Poly) (n : Nat) : eval x (ppow p n) = rpow (eval x p) n := by
  induction n with
  | zero => simp [ppow, rpow, eval_const]
  | succ n ih => simp [ppow, rpow, eval_normalize, eval_mul, ih]

theorem eval_monoSubst (x : Nat → Rat) (σ : Nat → Poly) (k : Nat) (m : Mono) :
    eval x (monoSubst σ k m) = monoEval (fun i => eval x (σ i)) k m := by
  induction m generalizing k with
  | nil => simp [monoSubst, monoEval, eval_const]
  | cons e es ih => simp [monoSubst, monoEval, eval_normalize, eval_mul, eval_ppow, ih]

/-- `(p ∘ σ)(x) = p(σ(x))` -/
theorem eval_subst (x : Nat → Rat) (σ : Nat → Poly) (p : Poly) :
    eval x (subst σ p) = eval (fun i => eval x (σ i)) p := by
  induction p with
  | nil => simp [subst, eval]
  | cons t p ih => simp only [subst, eval_normalize, eval_add, eval_smul, eval_monoSubst, ih, eval_cons]

theorem monoEval_trimZeros (x : Nat → Rat) (k : Nat) (m : Mono) :
    monoEval x k (trimZeros m) = monoEval x k m := by
  induction m generalizing k with
  | nil => rfl
  | cons e es ih =>
    have h := ih (k + 1)
    unfold trimZeros
    cases hh : trimZeros es with
    | nil =>
      rw [hh] at h
      by_cases he : e = 0
      · subst he; simp [monoEval, rpow, ← h]
      · simp [he, monoEval, ← h]
    | cons f fs =>
      rw [hh] at h
      simp only [monoEval] at h ⊢
      rw [h]

theorem eval_trim (x : Nat → Rat) (p : Poly) : eval x (trim p) = eval x p := by
  induction p with
  | nil => rfl
  | cons t p ih =>
    have : trim (t :: p) = (t.1, trimZeros t.2) :: trim p := rfl
    rw [this, eval_cons, eval_cons, ih, monoEval_trimZeros]

theorem equivT_sound {p q : Poly} (h : equivT p q = true) (x : Nat → Rat) : eval x p = eval x q := by
  have := equiv_sound (p := trim p) (q := trim q) h x
  rwa [eval_trim, eval_trim] at this

theorem eval_sum (x : Nat → Rat) (l : List Poly) : eval x (sum l) = (l.map (eval x)).sum := by
  induction l with
  | nil => simp [sum, eval]
  | cons p l ih =>
    have : sum (p :: l) = add p (sum l) := rfl
    rw [this, eval_add, ih]; simp

end FeatModel.Poly
