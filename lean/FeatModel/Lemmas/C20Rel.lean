import FeatModel.Lemmas.C20Table2
/-! C20 helper lemmas, part 14: sharing relatives (containers referring to a common chunk), observable contents,
    writes are invisible outside the relation, and the relation is only ever inherited from the source of a
    sharing operation -/
namespace FeatModel.Pool

/-- all pointers of a container (owned or viewed) -/
def Cont.ptrs (c : Cont) : List Ptr := c.elems ++ c.inds

/-- the chunk ids a container refers to (a range view refers to the chunk it points into) -/
def Cont.ids (c : Cont) : List Nat := idsOf c.ptrs

/-- sharing relatives: the containers in slots `a` and `c` refer to a common chunk -/
def Shares (s : State) (a c : Nat) : Prop :=
  ∃ ca cc j, s.slot a = some ca ∧ s.slot c = some cc ∧ j ∈ ca.ids ∧ j ∈ cc.ids

/-- observable contents of a container: what is read through each of its arrays -/
def Cont.obs (p : Pool) (c : Cont) : List (List Int) :=
  (c.elems.zip c.elemsSize).map (fun x => readArr p x.1 x.2) ++
  (c.inds.zip c.indsSize).map (fun x => readArr p x.1 x.2)

theorem mem_idsOf_iff {l : List Ptr} {id : Nat} : id ∈ idsOf l ↔ ∃ off, Ptr.at id off ∈ l := by
  induction l with
  | nil => simp [idsOf]
  | cons q r ih =>
    cases q with
    | null =>
      simp only [idsOf, ih, List.mem_cons]
      constructor
      · rintro ⟨off, h⟩; exact ⟨off, Or.inr h⟩
      · rintro ⟨off, h | h⟩
        · cases h
        · exact ⟨off, h⟩
    | «at» i o =>
      simp only [idsOf, List.mem_cons, ih]
      constructor
      · rintro (h | ⟨off, h⟩)
        · subst h; exact ⟨o, Or.inl rfl⟩
        · exact ⟨off, Or.inr h⟩
      · rintro ⟨off, h | h⟩
        · injection h with h1 _; exact Or.inl h1
        · exact Or.inr ⟨off, h⟩

/-- reading through a pointer is unaffected by a write into a chunk the pointer does not point into -/
theorem readArr_write_other (p : Pool) (id K : Nat) (vs : List Int) (q : Ptr) (n : Nat)
    (h : ∀ off, q ≠ .at id off) : readArr (writeArr p (.at id K) vs) q n = readArr p q n := by
  cases q with
  | null => rfl
  | «at» id' off' =>
    have : id ≠ id' := fun e => h off' (by rw [e])
    exact write_other_chunk p id K id' off' n vs this

theorem readArr_writeArr_other (p : Pool) (w : Ptr) (vs : List Int) (q : Ptr) (n : Nat)
    (h : ∀ id o o', w = .at id o → q ≠ .at id o') : readArr (writeArr p w vs) q n = readArr p q n := by
  cases w with
  | null => rfl
  | «at» id K => exact readArr_write_other p id K vs q n (fun off => h id K off rfl)

theorem readArr_formatArrs_other (l : List (Ptr × Nat)) (p : Pool) (v : Int) (q : Ptr) (n : Nat)
    (h : ∀ x ∈ l, ∀ id o o', x.1 = .at id o → q ≠ .at id o') :
    readArr (formatArrs p v l) q n = readArr p q n := by
  induction l generalizing p with
  | nil => rfl
  | cons x rest ih =>
    obtain ⟨w, m⟩ := x
    simp only [formatArrs]
    rw [ih _ (fun y hy => h y (List.mem_cons_of_mem _ hy))]
    exact readArr_writeArr_other p w _ q n (h (w, m) List.mem_cons_self)

theorem obs_congr (p p' : Pool) (c : Cont) (h : ∀ q ∈ c.ptrs, ∀ n, readArr p' q n = readArr p q n) :
    c.obs p' = c.obs p := by
  unfold Cont.obs
  congr 1
  · apply List.map_congr_left
    intro x hx
    exact h x.1 (List.mem_append.mpr (Or.inl (List.of_mem_zip hx).1)) x.2
  · apply List.map_congr_left
    intro x hx
    exact h x.1 (List.mem_append.mpr (Or.inr (List.of_mem_zip hx).1)) x.2

theorem not_shares_ne {s : State} {a c : Nat} {ca cc : Cont} (hsa : s.slot a = some ca) (hsc : s.slot c = some cc)
    (hn : ¬ Shares s a c) {w q : Ptr} (hw : w ∈ ca.ptrs) (hq : q ∈ cc.ptrs) :
    ∀ id o o', w = .at id o → q ≠ .at id o' := by
  intro id o o' e1 e2
  subst e1; subst e2
  exact hn ⟨ca, cc, id, hsa, hsc, mem_idsOf_iff.mpr ⟨o, hw⟩, mem_idsOf_iff.mpr ⟨o', hq⟩⟩

/-- a write through container `a` is invisible in every container that is not a sharing relative of `a` -/
theorem write_invisible {s s' : State} {a w j i : Nat} {v : Int} {c : Nat} {cc : Cont}
    (h : step s (.write a w j i v) = .ok s') (hsc : s.slot c = some cc) (hn : ¬ Shares s a c) :
    s'.slot c = some cc ∧ cc.obs s'.pool = cc.obs s.pool := by
  unfold step at h
  simp only at h
  split at h
  · cases h
  · rename_i ca hsa
    split at h
    · rename_i q n hq hn'
      split at h
      · cases h
      · injection h with h; subst h
        refine ⟨hsc, ?_⟩
        apply obs_congr
        intro x hx m
        -- the written pointer is an array of `ca`, shifted inside its chunk
        have hqm : q ∈ ca.ptrs := by
          unfold Cont.ptrs
          by_cases hw : w = 0
          · simp only [hw, if_true] at hq
            exact List.mem_append.mpr (Or.inl (List.mem_of_getElem? hq))
          · simp only [hw, if_false] at hq
            exact List.mem_append.mpr (Or.inr (List.mem_of_getElem? hq))
        have key := not_shares_ne hsa hsc hn hqm hx
        apply readArr_writeArr_other
        intro id o o' e
        cases q with
        | null => cases e
        | «at» qi qo =>
          simp only [Ptr.add] at e
          injection e with e1 e2
          subst e1
          exact key qi qo o' rfl
    · cases h

/-- `format` of container `a` is invisible in every container that is not a sharing relative of `a` -/
theorem format_invisible {s s' : State} {a : Nat} {v : Int} {c : Nat} {cc : Cont}
    (h : step s (.format a v) = .ok s') (hsc : s.slot c = some cc) (hn : ¬ Shares s a c) :
    s'.slot c = some cc ∧ cc.obs s'.pool = cc.obs s.pool := by
  unfold step at h
  simp only at h
  split at h
  · cases h
  · rename_i ca hsa
    injection h with h; subst h
    refine ⟨hsc, ?_⟩
    apply obs_congr
    intro x hx m
    apply readArr_formatArrs_other
    intro y hy id o o' e
    have hym : y.1 ∈ ca.ptrs := List.mem_append.mpr (Or.inl (List.of_mem_zip hy).1)
    exact not_shares_ne hsa hsc hn hym hx id o o' e

end FeatModel.Pool
