import Mathlib.Tactic.Ring
import Mathlib.Tactic.Linarith
import Mathlib.Algebra.Order.Group.Abs
import Mathlib.Algebra.Order.Ring.Abs
import Mathlib.Algebra.Order.Field.Basic
/-! rounding lemmas for the axpy alias branch (tier B): standard model of floating-point arithmetic,
every operation returns the exact result times `(1 + δ)` with `|δ| ≤ u` -/
namespace FeatModel.Vec

variable {α : Type} [Field α] [LinearOrder α] [IsStrictOrderedRing α]

theorem abs_two_roundings (d1 d2 u : α) (h1 : |d1| ≤ u) (h2 : |d2| ≤ u) :
    |d1 + d2 + d1 * d2| ≤ 2 * u + u ^ 2 := by
  have hu : 0 ≤ u := le_trans (abs_nonneg d1) h1
  calc |d1 + d2 + d1 * d2| ≤ |d1 + d2| + |d1 * d2| := abs_add_le _ _
    _ ≤ (|d1| + |d2|) + |d1| * |d2| := by
        rw [abs_mul]; exact add_le_add (abs_add_le _ _) (le_refl _)
    _ ≤ (u + u) + u * u := by
        exact add_le_add (add_le_add h1 h2) (mul_le_mul h1 h2 (abs_nonneg _) hu)
    _ = 2 * u + u ^ 2 := by ring

/-- alias branch `r[i] *= DT_(1) + a`: two roundings -/
theorem axpy_alias_branch_error (r a d1 d2 u : α) (h1 : |d1| ≤ u) (h2 : |d2| ≤ u) :
    |r * ((1 + a) * (1 + d1)) * (1 + d2) - (r + a * r)| ≤ (2 * u + u ^ 2) * (|r| + |a| * |r|) := by
  have hu : 0 ≤ u := le_trans (abs_nonneg d1) h1
  have he : r * ((1 + a) * (1 + d1)) * (1 + d2) - (r + a * r) = (r * (1 + a)) * (d1 + d2 + d1 * d2) := by ring
  rw [he, abs_mul, abs_mul]
  have hb := abs_two_roundings d1 d2 u h1 h2
  have ha : |1 + a| ≤ 1 + |a| := by
    calc |1 + a| ≤ |(1 : α)| + |a| := abs_add_le _ _
      _ = 1 + |a| := by rw [abs_one]
  have hra : |r| * |1 + a| ≤ |r| + |a| * |r| := by
    calc |r| * |1 + a| ≤ |r| * (1 + |a|) := mul_le_mul_of_nonneg_left ha (abs_nonneg _)
      _ = |r| + |a| * |r| := by ring
  calc |r| * |1 + a| * |d1 + d2 + d1 * d2| ≤ (|r| + |a| * |r|) * (2 * u + u ^ 2) :=
        mul_le_mul hra hb (abs_nonneg _) (by positivity)
    _ = (2 * u + u ^ 2) * (|r| + |a| * |r|) := by ring

/-- generic branch `r[i] += a * x[i]` with `x == r`: two roundings -/
theorem axpy_generic_branch_error (r a d3 d4 u : α) (h3 : |d3| ≤ u) (h4 : |d4| ≤ u) :
    |(r + a * r * (1 + d3)) * (1 + d4) - (r + a * r)| ≤ (2 * u + u ^ 2) * (|r| + |a| * |r|) := by
  have hu : 0 ≤ u := le_trans (abs_nonneg d3) h3
  have he : (r + a * r * (1 + d3)) * (1 + d4) - (r + a * r) = r * d4 + (a * r) * (d3 + d4 + d3 * d4) := by ring
  rw [he]
  have hb := abs_two_roundings d3 d4 u h3 h4
  have h5 : |r * d4| ≤ |r| * u := by rw [abs_mul]; exact mul_le_mul_of_nonneg_left h4 (abs_nonneg _)
  have h6 : |a * r * (d3 + d4 + d3 * d4)| ≤ (|a| * |r|) * (2 * u + u ^ 2) := by
    rw [abs_mul, abs_mul]; exact mul_le_mul_of_nonneg_left hb (by positivity)
  have hu2 : 0 ≤ u ^ 2 := by positivity
  have hr : 0 ≤ |r| := abs_nonneg _
  calc |r * d4 + a * r * (d3 + d4 + d3 * d4)| ≤ |r * d4| + |a * r * (d3 + d4 + d3 * d4)| := abs_add_le _ _
    _ ≤ |r| * u + (|a| * |r|) * (2 * u + u ^ 2) := add_le_add h5 h6
    _ ≤ (2 * u + u ^ 2) * (|r| + |a| * |r|) := by
        have : |r| * u ≤ |r| * (2 * u + u ^ 2) := mul_le_mul_of_nonneg_left (by linarith) hr
        calc |r| * u + (|a| * |r|) * (2 * u + u ^ 2) ≤ |r| * (2 * u + u ^ 2) + (|a| * |r|) * (2 * u + u ^ 2) :=
              add_le_add this (le_refl _)
          _ = (2 * u + u ^ 2) * (|r| + |a| * |r|) := by ring

end FeatModel.Vec
