import FeatModel.Model.TraceOrient
import FeatModel.Lemmas.C15Subst
/-!
Helper lemmas for C16, part 9: equality of the normalised point-map polynomials means equality of the mapped points.
-/
namespace C16L
open FeatModel.Poly FeatModel.TraceOrient

theorem polysEq_sound : ∀ (a b : List Poly), polysEq a b = true → ∀ s : List Rat, a.map (evalAt s) = b.map (evalAt s)
  | [], [], _, _ => rfl
  | [], _ :: _, h, _ => by simp [polysEq] at h
  | _ :: _, [], h, _ => by simp [polysEq] at h
  | p :: a, q :: b, h, s => by
    simp only [polysEq, List.length_cons, List.zip_cons_cons, List.all_cons, Bool.and_eq_true, beq_iff_eq] at h
    have hpq : evalAt s p = evalAt s q := equivT_sound h.2.1 (pt s)
    have ht : polysEq a b = true := by
      simp only [polysEq, Bool.and_eq_true, beq_iff_eq]
      exact ⟨by omega, h.2.2⟩
    simp only [List.map_cons, hpq, polysEq_sound a b ht s]

end C16L
