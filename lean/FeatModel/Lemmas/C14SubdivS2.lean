import FeatModel.Lemmas.C14Refine
import FeatModel.Gen.CubatureMeta
/-! C14: the subdivision identity of the refinery child maps, monomial by monomial (kernel evaluation) -/
namespace FeatModel.Cub

set_option maxRecDepth 100000 in
theorem subdivS2 : subdivAll true 2 Gen.refMapsS2 1 20 = true := by decide +kernel

end FeatModel.Cub
