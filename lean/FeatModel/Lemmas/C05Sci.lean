import FeatModel.Lemmas.C05Text
/-! helper lemmas for C05, text modes, part D: the decimal strings of `%.6e` denote exactly the 7-digit decimal
number, contain no blank and no `#` -/
namespace FeatModel.TextIO

theorem isDigit_digitChar (d : Nat) (h : d < 10) : (Nat.digitChar d).isDigit = true := by
  apply Nat.isDigit_of_mem_toDigits (b := 10) (n := d) (by decide) (by decide)
  rw [Nat.toDigits_of_lt_base h]
  simp

theorem isDigit_digitsN (n : Nat) : ∀ k, ∀ c ∈ digitsN n k, c.isDigit = true
  | 0, _, h => by simp [digitsN] at h
  | k + 1, c, h => by
    rcases List.mem_cons.mp h with h | h
    · rw [h]
      exact isDigit_digitChar _ (Nat.mod_lt _ (by decide))
    · exact isDigit_digitsN n k c h

theorem length_digitsN (n : Nat) : ∀ k, (digitsN n k).length = k
  | 0 => rfl
  | k + 1 => by simp [digitsN, length_digitsN n k]

/-- the digits denote `n mod 10^k` -/
theorem ofDigitChars_digitsN (n : Nat) : ∀ (k init : Nat),
    Nat.ofDigitChars 10 (digitsN n k) init = 10 ^ k * init + n % 10 ^ k
  | 0, init => by simp [digitsN, Nat.mod_one]
  | k + 1, init => by
    rw [digitsN, Nat.ofDigitChars_cons_digitChar_of_lt_ten (Nat.mod_lt _ (by decide)),
      ofDigitChars_digitsN n k, Nat.mod_pow_succ, Nat.mul_add, Nat.pow_succ, Nat.mul_assoc]
    omega

theorem isDigit_expChars (e : Nat) : ∀ c ∈ expChars e, c.isDigit = true := by
  intro c hc
  unfold expChars at hc
  split at hc
  · rcases List.mem_cons.mp hc with h | h
    · rw [h]; decide
    · have : c = Nat.digitChar e := by simpa using h
      rw [this]
      exact isDigit_digitChar e (by omega)
  · exact isDigit_natChars e c hc

theorem atolC_expChars (e : Nat) : atolC (expChars e) = e := by
  have t := takeWhile_all Char.isDigit (expChars e) [] (isDigit_expChars e)
  simp only [List.append_nil, List.takeWhile_nil] at t
  rw [atolC, t]
  unfold expChars
  split
  · have h0 : ('0' : Char) = Nat.digitChar 0 := rfl
    rw [h0, Nat.ofDigitChars_cons_digitChar_of_lt_ten (by decide),
      Nat.ofDigitChars_cons_digitChar_of_lt_ten (by omega)]
    simp
  · rw [natChars_eq]
    exact Nat.ofDigitChars_ten_toDigits

/-- what `atof` makes of the characters after the sign -/
theorem parse_body (d : Nat × Bool × Nat) (hm : d.1 < 10 ^ 7) (cs : List Char)
    (hcs : cs = Nat.digitChar (d.1 / 10 ^ 6 % 10) :: '.' ::
      (digitsN d.1 6 ++ 'e' :: (if d.2.1 then '-' else '+') :: expChars d.2.2)) :
    parseBody cs = sciValue d := by
  unfold parseBody
  have hd0 : (Nat.digitChar (d.1 / 10 ^ 6 % 10)).isDigit = true := isDigit_digitChar _ (Nat.mod_lt _ (by decide))
  have hdot : ('.' : Char).isDigit = false := by decide
  have he : ('e' : Char).isDigit = false := by decide
  have htw : cs.takeWhile Char.isDigit = [Nat.digitChar (d.1 / 10 ^ 6 % 10)] := by
    rw [hcs]; simp [List.takeWhile_cons, hd0, hdot]
  have hdw : cs.dropWhile Char.isDigit
      = '.' :: (digitsN d.1 6 ++ 'e' :: (if d.2.1 then '-' else '+') :: expChars d.2.2) := by
    rw [hcs]; simp [List.dropWhile_cons, hd0, hdot]
  have hfp : (digitsN d.1 6 ++ 'e' :: (if d.2.1 then '-' else '+') :: expChars d.2.2).takeWhile Char.isDigit
      = digitsN d.1 6 := by
    rw [takeWhile_all Char.isDigit _ _ (isDigit_digitsN d.1 6)]
    simp [List.takeWhile_cons, he]
  have hr2 : (digitsN d.1 6 ++ 'e' :: (if d.2.1 then '-' else '+') :: expChars d.2.2).dropWhile Char.isDigit
      = 'e' :: (if d.2.1 then '-' else '+') :: expChars d.2.2 := by
    rw [dropWhile_all Char.isDigit _ _ (isDigit_digitsN d.1 6)]
    simp [List.dropWhile_cons, he]
  have hmant : Nat.ofDigitChars 10 ([Nat.digitChar (d.1 / 10 ^ 6 % 10)] ++ digitsN d.1 6) 0 = d.1 := by
    have := ofDigitChars_digitsN d.1 7 0
    rw [digitsN] at this
    simp only [List.singleton_append]
    rw [this, Nat.mul_zero, Nat.zero_add, Nat.mod_eq_of_lt hm]
  simp only [htw, hdw, hfp, hr2, hmant, length_digitsN]
  cases hneg : d.2.1 <;> simp [sciValue, hneg, atolC_expChars]

theorem parseSciC_fmtSci (neg : Bool) (d : Nat × Bool × Nat) (hm : d.1 < 10 ^ 7) :
    parseSciC (fmtSci neg d) = (if neg then -1 else 1) * sciValue d := by
  have hd0 : Nat.digitChar (d.1 / 10 ^ 6 % 10) ≠ '-' := by
    intro h
    have := isDigit_digitChar (d.1 / 10 ^ 6 % 10) (Nat.mod_lt _ (by decide))
    rw [h] at this
    exact absurd this (by decide)
  cases neg with
  | true =>
    simp only [fmtSci, if_true, List.singleton_append, parseSciC]
    rw [parse_body d hm _ rfl]
  | false =>
    simp only [fmtSci, Bool.false_eq_true, if_false, List.nil_append]
    unfold parseSciC
    split
    · rename_i heq
      exact absurd (List.cons.inj heq).1 hd0
    · rw [parse_body d hm _ rfl]

/-- reading a printed number gives exactly its rounding to 7 significant decimal digits (half to even) -/
theorem parseSci_sci6 (x : Rat) (h : sciOK x = true) : parseSci (sci6 x) = round7 x := by
  unfold sciOK at h
  unfold parseSci sci6 round7
  by_cases h0 : x = 0
  · simp only [h0, if_true, String.toList_ofList]
    have := parseSciC_fmtSci false (0, false, 0) (by decide)
    simpa using this
  · by_cases hneg : x < 0
    · simp only [h0, hneg, if_true, if_false, String.toList_ofList] at h ⊢
      have := parseSciC_fmtSci true (sciDecomp (-x)) (of_decide_eq_true h)
      simpa using this
    · simp only [h0, hneg, if_false, String.toList_ofList] at h ⊢
      have := parseSciC_fmtSci false (sciDecomp x) (of_decide_eq_true h)
      simpa using this

/-- a value with at most 7 significant decimal digits survives print + parse exactly -/
theorem parseSci_sci6_exact (x : Rat) (h : Exact7 x = true) : parseSci (sci6 x) = x := by
  unfold Exact7 at h
  have h' := Bool.and_eq_true_iff.mp h
  rw [parseSci_sci6 x h'.1]
  exact of_decide_eq_true h'.2

/-! no blank, no `#` in a printed number -/

theorem fmtSci_chars (neg : Bool) (d : Nat × Bool × Nat) :
    ∀ c ∈ fmtSci neg d, c.isDigit = true ∨ c = '-' ∨ c = '.' ∨ c = 'e' ∨ c = '+' := by
  intro c hc
  unfold fmtSci at hc
  rcases List.mem_append.mp hc with h | h
  · split at h
    · simp at h; exact Or.inr (Or.inl h)
    · simp at h
  · rcases List.mem_cons.mp h with h | h
    · exact Or.inl (h ▸ isDigit_digitChar _ (Nat.mod_lt _ (by decide)))
    · rcases List.mem_cons.mp h with h | h
      · exact Or.inr (Or.inr (Or.inl h))
      · rcases List.mem_append.mp h with h | h
        · exact Or.inl (isDigit_digitsN _ _ c h)
        · rcases List.mem_cons.mp h with h | h
          · exact Or.inr (Or.inr (Or.inr (Or.inl h)))
          · rcases List.mem_cons.mp h with h | h
            · split at h
              · exact Or.inr (Or.inl h)
              · exact Or.inr (Or.inr (Or.inr (Or.inr h)))
            · exact Or.inl (isDigit_expChars _ c h)

theorem sci6_chars (x : Rat) : ∀ c ∈ (sci6 x).toList, c.isDigit = true ∨ c = '-' ∨ c = '.' ∨ c = 'e' ∨ c = '+' := by
  unfold sci6
  split
  · rw [String.toList_ofList]; exact fmtSci_chars _ _
  · split
    · rw [String.toList_ofList]; exact fmtSci_chars _ _
    · rw [String.toList_ofList]; exact fmtSci_chars _ _

theorem noBlank_sci6 (x : Rat) : NoBlank (sci6 x).toList := by
  intro c hc
  rcases sci6_chars x c hc with h | h | h | h | h
  · exact not_blank_of_isDigit c h
  all_goals (subst h; decide)

theorem noHash_sci6 (x : Rat) : (sci6 x).toList.contains '#' = false := by
  cases hc : (sci6 x).toList.contains '#' with
  | false => rfl
  | true =>
    have hm : '#' ∈ (sci6 x).toList := List.contains_iff_mem.mp hc
    rcases sci6_chars x '#' hm with h | h | h | h | h <;> exact absurd h (by decide)

end FeatModel.TextIO
