import FeatModel.Lemmas.C20Share
import FeatModel.Lemmas.C20Main
/-! C20 helper lemmas, part 11: (I2 with addresses) every pointer a container or layout OWNS is null or the base
    address of a chunk — preserved by every operation; consequence: releases by owners never abort -/
namespace FeatModel.Pool

def optAligned : Option Cont → Prop
  | none => True
  | some c => AlignedL c.owned

def layAligned : Option Layout → Prop
  | none => True
  | some L => AlignedL L.inds

/-- every owner pointer of the state is null or a base address -/
def Aligned (s : State) : Prop := (∀ x ∈ s.slots, optAligned x) ∧ (∀ x ∈ s.lays, layAligned x)

theorem aligned_setSlot {s : State} {p' : Pool} {a : Nat} {x : Option Cont} (h : Aligned s) (hx : optAligned x) :
    Aligned ({ s with pool := p' }.setSlot a x) := by
  refine ⟨?_, h.2⟩
  intro y hy
  unfold State.setSlot at hy
  simp only at hy
  rcases List.mem_or_eq_of_mem_set hy with hy | hy
  · exact h.1 y hy
  · subst hy; exact hx

theorem aligned_setSlot' {s : State} {a : Nat} {x : Option Cont} (h : Aligned s) (hx : optAligned x) :
    Aligned (s.setSlot a x) := aligned_setSlot (p' := s.pool) h hx

theorem aligned_setLay {s : State} {p' : Pool} {a : Nat} {x : Option Layout} (h : Aligned s) (hx : layAligned x) :
    Aligned ({ s with pool := p' }.setLay a x) := by
  refine ⟨h.1, ?_⟩
  intro y hy
  unfold State.setLay at hy
  simp only at hy
  rcases List.mem_or_eq_of_mem_set hy with hy | hy
  · exact h.2 y hy
  · subst hy; exact hx

theorem aligned_pool {s : State} {p' : Pool} (h : Aligned s) : Aligned { s with pool := p' } := h

theorem slot_mem {s : State} {a : Nat} {c : Cont} (h : s.slot a = some c) : some c ∈ s.slots := by
  unfold State.slot at h
  cases hg : s.slots[a]? with
  | none => rw [hg] at h; cases h
  | some x =>
    rw [hg] at h; simp only [Option.join] at h; subst h
    exact List.mem_of_getElem? hg

theorem lay_mem {s : State} {a : Nat} {c : Layout} (h : s.lay a = some c) : some c ∈ s.lays := by
  unfold State.lay at h
  cases hg : s.lays[a]? with
  | none => rw [hg] at h; cases h
  | some x =>
    rw [hg] at h; simp only [Option.join] at h; subst h
    exact List.mem_of_getElem? hg

theorem slot_aligned {s : State} {a : Nat} {c : Cont} (h : Aligned s) (hs : s.slot a = some c) : AlignedL c.owned :=
  h.1 (some c) (slot_mem hs)

theorem lay_aligned {s : State} {a : Nat} {c : Layout} (h : Aligned s) (hs : s.lay a = some c) : AlignedL c.inds :=
  h.2 (some c) (lay_mem hs)

theorem aligned_init : Aligned State.init := by
  constructor
  · intro x hx; simp [State.init] at hx; subst hx; trivial
  · intro x hx; simp [State.init] at hx; subst hx; trivial

theorem alloc_alignedL (p : Pool) (n esz : Nat) (vals : List Int) : AlignedL [(alloc p n esz vals).2] := by
  intro q hq
  simp only [List.mem_singleton] at hq; subst hq
  rcases alloc_fresh p n esz vals with h | ⟨id, h, _⟩
  · exact Or.inl h
  · exact Or.inr ⟨id, h⟩

theorem AlignedL.cons {q : Ptr} {l : List Ptr} (h1 : AlignedL [q]) (h2 : AlignedL l) : AlignedL (q :: l) :=
  h1.append h2

theorem getD_aligned {s : State} {a : Nat} (h : Aligned s) (k d i : Nat) (sx : List Nat) :
    AlignedL ((s.slot a).getD (Cont.empty k d i sx)).owned := by
  cases hs : s.slot a with
  | none => exact aligned_empty k d i sx
  | some c => exact slot_aligned h hs

theorem aligned_step {s s' : State} {op : Op} (hal : Aligned s) (h : step s op = .ok s') : Aligned s' := by
  cases op with
  | new a kind dt it n v =>
    unfold step at h; simp only at h
    split at h
    · cases h
    · split at h
      · injection h with h; subst h; exact aligned_setSlot' hal (aligned_empty _ _ _ _)
      · injection h with h; subst h
        refine aligned_setSlot hal ?_
        exact owned_aligned_of (alloc_alignedL _ _ _ _) AlignedL.nil
  | mat a kind dt it r c k v variant =>
    unfold step at h; simp only at h
    split at h
    · cases h
    · split at h
      · injection h with h; subst h; exact aligned_setSlot' hal (aligned_empty _ _ _ _)
      · injection h with h; subst h
        refine aligned_setSlot hal ?_
        exact owned_aligned_of (alloc_alignedL _ _ _ _)
          ((alloc_alignedL _ _ _ _).cons (alloc_alignedL _ _ _ _))
  | band a dt it r noff v =>
    unfold step at h; simp only at h
    split at h
    · cases h
    · split at h
      · injection h with h; subst h; exact aligned_setSlot' hal (aligned_empty _ _ _ _)
      · injection h with h; subst h
        refine aligned_setSlot hal ?_
        exact owned_aligned_of (alloc_alignedL _ _ _ _) (alloc_alignedL _ _ _ _)
  | adopt a b =>
    unfold step at h; simp only at h
    split at h
    · cases h
    · split at h
      · cases h
      · split at h
        · injection h with h; subst h; exact aligned_setSlot' hal (aligned_empty _ _ _ _)
        · split at h
          · cases h
          · rename_i p1 hinc
            injection h with h; subst h
            refine aligned_setSlot hal ?_
            refine owned_aligned_of ?_ AlignedL.nil
            intro q hq
            simp only [Cont.empty, List.mem_singleton] at hq; subst hq
            exact incr_aligned hinc
  | range a b n off =>
    unfold step at h; simp only at h
    split at h
    · cases h
    · split at h
      · cases h
      · split at h
        · split at h
          · cases h
          · injection h with h; subst h
            refine aligned_setSlot' hal ?_
            show AlignedL (Cont.owned _); unfold Cont.owned; exact AlignedL.nil
        · split at h
          · cases h
          · injection h with h; subst h
            refine aligned_setSlot' hal ?_
            show AlignedL (Cont.owned _); unfold Cont.owned; exact AlignedL.nil
  | clone a b mode fill =>
    unfold step at h; simp only at h
    split at h
    · cases h
    · split at h
      · cases h
      · split at h
        · cases h
        · rename_i p1 c1 hr
          injection h with h; subst h
          refine aligned_setSlot hal ?_
          split at hr
          · exact aligned_cloneFrom hr
          · split at hr
            · cases hr
            · split at hr
              · exact aligned_cloneFrom hr
              · exact aligned_cloneCross hr
  | conv a b dt it =>
    unfold step at h; simp only at h
    split at h
    · cases h
    · split at h
      · cases h
      · split at h
        · cases h
        · split at h
          · cases h
          · rename_i p1 c1 hr
            injection h with h; subst h
            exact aligned_setSlot hal (aligned_convertFrom hr (getD_aligned hal _ _ _ _))
  | xconv a b =>
    unfold step at h; simp only at h
    split at h
    · cases h
    · split at h
      · cases h
      · split at h
        · cases h
        · split at h
          · cases h
          · rename_i p1 c1 hr
            injection h with h; subst h
            exact aligned_setSlot hal (aligned_xconvFrom hr)
  | move a b =>
    unfold step at h; simp only at h
    split at h
    · cases h
    · rename_i cb hb
      have hcb := slot_aligned hal hb
      split at h
      · cases h
      · split at h
        · injection h with h; subst h
          refine aligned_setSlot' (aligned_setSlot' hal hcb) ?_
          show AlignedL (Cont.owned _); unfold Cont.owned Cont.movedFrom; split <;> exact AlignedL.nil
        · split at h
          · cases h
          · split at h
            · injection h with h; subst h; exact hal
            · split at h
              · cases h
              · rename_i p1 c1 c2 hm
                injection h with h; subst h
                obtain ⟨h1, h2⟩ := aligned_moveAssign hm hcb
                exact aligned_setSlot' (aligned_setSlot hal h1) h2
  | clear a =>
    unfold step at h; simp only at h
    split at h
    · cases h
    · split at h
      · cases h
      · rename_i p1 c1 hcl
        injection h with h; subst h
        refine aligned_setSlot hal ?_
        unfold Cont.clear at hcl
        split at hcl
        · cases hcl
        · injection hcl with hcl; injection hcl with e1 e2; subst e2
          exact aligned_empty _ _ _ _
  | destroy a =>
    unfold step at h; simp only at h
    split at h
    · cases h
    · split at h
      · cases h
      · injection h with h; subst h; exact aligned_setSlot hal trivial
  | format a v =>
    unfold step at h; simp only at h
    split at h
    · cases h
    · injection h with h; subst h; exact hal
  | write a w j i v =>
    unfold step at h; simp only at h
    split at h
    · cases h
    · split at h
      · split at h
        · cases h
        · injection h with h; subst h; exact hal
      · cases h
  | lay l a =>
    unfold step at h; simp only at h
    split at h
    · cases h
    · split at h
      · cases h
      · split at h
        · cases h
        · split at h
          · cases h
          · rename_i p1 hinc
            split at h
            · cases h
            · injection h with h; subst h
              exact aligned_setLay hal (incrAll_aligned hinc)
  | mlay a l kind dt fill =>
    unfold step at h; simp only at h
    split at h
    · cases h
    · split at h
      · cases h
      · split at h
        · cases h
        · split at h
          · cases h
          · split at h
            · cases h
            · rename_i p1 c1 hr
              injection h with h; subst h
              refine aligned_setSlot hal ?_
              unfold Cont.fromLayout at hr
              split at hr
              · cases hr
              · split at hr
                · cases hr
                · rename_i p2 hinc
                  split at hr
                  · cases hr
                  · injection hr with hr; injection hr with e1 e2; subst e2
                    exact owned_aligned_of (alloc_alignedL _ _ _ _) (incrAll_aligned hinc)
  | mk a kind dt it n v =>
    unfold step at h; simp only at h
    split at h
    · cases h
    · split at h
      · injection h with h; subst h
        exact aligned_setSlot hal (owned_aligned_of (alloc_alignedL _ _ _ _) AlignedL.nil)
      · split at h
        · injection h with h; subst h
          exact aligned_setSlot hal (owned_aligned_of (alloc_alignedL _ _ _ _)
            ((alloc_alignedL _ _ _ _).cons ((alloc_alignedL _ _ _ _).cons (alloc_alignedL _ _ _ _))))
        · injection h with h; subst h
          exact aligned_setSlot hal (owned_aligned_of (alloc_alignedL _ _ _ _) (alloc_alignedL _ _ _ _))
  | copy a b full =>
    unfold step at h; simp only at h
    split at h
    · rename_i ca cb hsa hsb
      have hca := slot_aligned hal hsa
      split at h
      · cases h
      · split at h
        · injection h with h; subst h; exact hal
        · split at h
          · cases h
          · split at h
            · cases h
            · injection h with h; subst h
              refine aligned_setSlot hal ?_
              split <;> exact hca
    · cases h
  | lmove d src =>
    unfold step at h; simp only at h
    split at h
    · cases h
    · rename_i Ls hLs
      have hL := lay_aligned hal hLs
      split at h
      · cases h
      · split at h
        · injection h with h; subst h; exact hal
        · split at h
          · cases h
          · split at h
            · cases h
            · rename_i p1 hr
              injection h with h; subst h
              have h1 := aligned_setLay (s := s) (p' := p1) (a := d) (x := some Ls) hal hL
              refine ⟨h1.1, ?_⟩
              intro y hy
              unfold State.setLay at hy
              simp only at hy
              rcases List.mem_or_eq_of_mem_set hy with hy | hy
              · exact h1.2 y hy
              · subst hy; exact AlignedL.nil
  | lvec k =>
    unfold step at h
    injection h with h; subst h; exact hal
  | ldrop l =>
    unfold step at h; simp only at h
    split at h
    · cases h
    · split at h
      · cases h
      · injection h with h; subst h; exact aligned_setLay hal trivial

end FeatModel.Pool
