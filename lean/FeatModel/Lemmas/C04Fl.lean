import FeatModel.Lemmas.C01Round
import FeatModel.Model.VecOps
/-! the generic dot loop of `Arch::DotProduct::value_generic` in an abstract floating-point arithmetic
(re-uses the standard-model fold bound `fl_foldRange_error` of C01) -/
namespace FeatModel.Vec
open FeatModel.LA

variable {α : Type} [Add α] [Mul α]

/-- the accumulation loop over the element-wise products is the index loop `for k: sum += a_k * b_k` -/
theorem foldl_zipWith_range (x y : List α) (hl : x.length = y.length) (acc d : α) (o : Nat) (a b : Nat → α)
    (ha : ∀ i, i < x.length → a (o + i) = x.getD i d) (hb : ∀ i, i < y.length → b (o + i) = y.getD i d) :
    (List.zipWith (fun xi yi => xi * yi) x y).foldl (· + ·) acc
      = (List.range' o x.length).foldl (fun sum k => sum + a k * b k) acc := by
  induction x generalizing y acc o with
  | nil => simp
  | cons x0 xs ih =>
    cases y with
    | nil => simp at hl
    | cons y0 ys =>
      simp only [List.zipWith_cons_cons, List.foldl_cons, List.length_cons, List.range'_succ]
      have h0 : a o = x0 := by simpa using ha 0 (by simp)
      have h1 : b o = y0 := by simpa using hb 0 (by simp)
      rw [h0, h1]
      apply ih ys (by simpa using hl)
      · intro i hi
        have := ha (i + 1) (by simp; omega)
        simp only [List.getD_cons_succ] at this
        rw [← this]; congr 1; omega
      · intro i hi
        have := hb (i + 1) (by simp; omega)
        simp only [List.getD_cons_succ] at this
        rw [← this]; congr 1; omega

theorem map_sq_eq_zipWith (x : List α) : (x.map fun xi => xi * xi) = List.zipWith (fun xi yi => xi * yi) x x := by
  induction x with
  | nil => rfl
  | cons a t ih => simp only [List.map_cons, List.zipWith_cons_cons, ih]

/-- `dotK` (either branch; the aliased one with `y = x`) as the index loop over `[0, n)` -/
theorem dotK_eq_foldRange [Zero α] (al : Bool) (x y : List α) (hl : x.length = y.length) (hal : al = true → y = x) :
    dotK al x y = foldRange 0 x.length (fun sum k => sum + x.getD k 0 * y.getD k 0) 0 := by
  have hgen : sumL (List.zipWith (fun xi yi => xi * yi) x y)
      = foldRange 0 x.length (fun sum k => sum + x.getD k 0 * y.getD k 0) 0 := by
    unfold sumL foldRange
    simp only [Nat.sub_zero]
    exact foldl_zipWith_range x y hl 0 0 0 (fun k => x.getD k 0) (fun k => y.getD k 0)
      (fun i _ => by simp) (fun i _ => by simp)
  unfold dotK
  cases al with
  | true =>
    have := hal rfl; subst this
    simp only [if_true]
    rw [map_sq_eq_zipWith]; exact hgen
  | false => simpa using hgen

end FeatModel.Vec
