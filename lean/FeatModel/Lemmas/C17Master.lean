import FeatModel.Model.DA.Fence
/-
C17: master-only jobs (`assemble_master` / `_work_single`, `MCfg`) with the error path: deadlock-freedom,
termination, and "every element is scattered exactly once, in order" (a failing run has scattered a prefix).
-/
namespace FeatModel.DA

/-! ## the transition relation in explicit form -/

inductive MaStep (c : MCfg) (s : MSt) : EEv → MSt → Prop
  | enter : s.failing = false → s.ph = .idle → c.ns = true →
      MaStep c s (.ok (.enter 0 (c.cell s.pos))) { s with ph := .insc }
  | leaveS : s.failing = false → s.ph = .insc → c.ns = true →
      MaStep c s (.ok (.leave 0 (c.cell s.pos))) { s with pos := s.pos + 1, ph := c.after (s.pos + 1) }
  | leaveN : s.failing = false → s.ph = .idle → c.ns = false →
      MaStep c s (.ok (.leave 0 (c.cell s.pos))) { s with pos := s.pos + 1, ph := c.after (s.pos + 1) }
  | center : s.failing = false → s.ph = .preComb → MaStep c s (.ok (.center 0)) { s with ph := .inComb }
  | cleave : s.failing = false → s.ph = .inComb → MaStep c s (.ok (.cleave 0)) { s with ph := .done }
  | fail : s.failing = false → s.failed = false → (canFailPh s.ph = true ∨ (s.ph = .done ∧ c.comb = false)) →
      MaStep c s (.fail 0) { s with failing := true }
  | fopenF : s.failing = true →
      MaStep c s (.fopenF 0 0) { s with failing := false, failed := true, ph := .done }

theorem ma_estep_MaStep {c : MCfg} {s s' : MSt} {e : EEv} (h : c.estep s e = some s') : MaStep c s e s' := by
  unfold MCfg.estep at h
  split at h
  · split at h
    · next hc =>
      obtain ⟨h1, h2, h3, rfl⟩ := hc
      injection h with h; subst h
      exact .enter h1 h2 h3
    · cases h
  · split at h
    · next hc =>
      obtain ⟨h1, rfl, h3⟩ := hc
      injection h with h; subst h
      rcases h3 with ⟨h3, h4⟩ | ⟨h3, h4⟩
      · exact .leaveS h1 h3 h4
      · exact .leaveN h1 h3 h4
    · cases h
  · split at h
    · next hc => injection h with h; subst h; exact .center hc.1 hc.2
    · cases h
  · split at h
    · next hc => injection h with h; subst h; exact .cleave hc.1 hc.2
    · cases h
  · split at h
    · next hc => injection h with h; subst h; exact .fail hc.1 hc.2.1 hc.2.2
    · cases h
  · split at h
    · next hc => injection h with h; subst h; exact .fopenF hc
    · cases h
  · cases h

theorem ma_after_cases (c : MCfg) (p : Nat) :
    (c.after p = .idle ∧ p < c.cnt) ∨ (c.after p = .preComb ∧ c.cnt ≤ p) ∨ (c.after p = .done ∧ c.cnt ≤ p) := by
  unfold MCfg.after
  by_cases h1 : p < c.cnt
  · simp [h1]
  · by_cases h2 : c.comb = true
    · simp [h1, h2]; omega
    · simp [h1, h2]; omega

/-! ## the invariant -/

structure MaInv (c : MCfg) (s : MSt) : Prop where
  phs : s.ph = .idle ∨ s.ph = .insc ∨ s.ph = .preComb ∨ s.ph = .inComb ∨ s.ph = .done
  act : (s.ph = .idle ∨ s.ph = .insc) → s.pos < c.cnt
  ple : s.pos ≤ c.cnt
  fin : s.failed = false → (s.ph = .preComb ∨ s.ph = .inComb ∨ s.ph = .done) → s.pos = c.cnt
  sns : s.ph = .insc → c.ns = true
  ff : s.failing = true → s.failed = false
  fd : s.failed = true → s.ph = .done

theorem MaInv_init (c : MCfg) : MaInv c c.init := by
  have := ma_after_cases c 0
  constructor <;> simp only [MCfg.init] <;> grind

theorem MaInv_step {c : MCfg} {s s' : MSt} {e : EEv} (hi : MaInv c s) (hst : MaStep c s e s') : MaInv c s' := by
  obtain ⟨phs, act, ple, fin, sns, ff, fd⟩ := hi
  have := ma_after_cases c (s.pos + 1)
  cases hst
  all_goals
    constructor <;> grind

theorem ma_reach_induct {c : MCfg} {P : MSt → Prop} (h0 : P c.init)
    (hstep : ∀ s s' e, P s → MaStep c s e s' → P s') : ∀ s, c.EReach s → P s := by
  intro s hs
  induction hs with
  | init => exact h0
  | step e _ h ih => exact hstep _ _ _ ih (ma_estep_MaStep h)

theorem MaInv_reach {c : MCfg} {s : MSt} (hs : c.EReach s) : MaInv c s :=
  ma_reach_induct (MaInv_init c) (fun _ _ _ hi hst => MaInv_step hi hst) s hs

/-! ## deadlock-freedom -/

theorem ma_ex {c : MCfg} {s : MSt} (e : EEv) (hne : e ≠ .fail 0) (h : (c.estep s e).isSome = true) :
    ∃ e s', c.estep s e = some s' ∧ e ≠ .fail 0 :=
  ⟨e, (c.estep s e).get h, by simp, hne⟩

/-- no deadlock, strong form: the enabled transition is not a `fail` -/
theorem master_no_deadlock_nofail (c : MCfg) (s : MSt) (hs : c.EReach s) (hf : MCfg.efinal s = false) :
    ∃ e s', c.estep s e = some s' ∧ e ≠ .fail 0 := by
  have inv := MaInv_reach hs
  cases hfl : s.failing
  · have hnd : s.ph ≠ .done := by
      intro h; simp [MCfg.efinal, h, hfl] at hf
    rcases inv.phs with h | h | h | h | h
    · cases hns : c.ns
      · exact ma_ex (.ok (.leave 0 (c.cell s.pos))) (fun h => by cases h) (by simp [MCfg.estep, hfl, h, hns])
      · exact ma_ex (.ok (.enter 0 (c.cell s.pos))) (fun h => by cases h) (by simp [MCfg.estep, hfl, h, hns])
    · have hns := inv.sns h
      exact ma_ex (.ok (.leave 0 (c.cell s.pos))) (fun h => by cases h) (by simp [MCfg.estep, hfl, h, hns])
    · exact ma_ex (.ok (.center 0)) (fun h => by cases h) (by simp [MCfg.estep, hfl, h])
    · exact ma_ex (.ok (.cleave 0)) (fun h => by cases h) (by simp [MCfg.estep, hfl, h])
    · exact absurd h hnd
  · exact ma_ex (.fopenF 0 0) (fun h => by cases h) (by simp [MCfg.estep, hfl])

/-- no deadlock, with and without a throwing task -/
theorem master_no_deadlock (c : MCfg) (s : MSt) (hs : c.EReach s) (hf : MCfg.efinal s = false) :
    ∃ e s', c.estep s e = some s' := by
  obtain ⟨e, s', h, _⟩ := master_no_deadlock_nofail c s hs hf
  exact ⟨e, s', h⟩

/-! ## termination -/

def ma_rank : Ph → Nat
  | .idle => 2 | .insc => 1 | .preComb => 2 | .inComb => 1 | _ => 0

/-- the variant: at most `3 cnt + 6` -/
def MCfg.emeasure (c : MCfg) (s : MSt) : Nat :=
  3 * (c.cnt - s.pos) + ma_rank s.ph + (if s.failed = true then 0 else 3) + (if s.failing = true then 0 else 1)

theorem ma_rank_le (p : Ph) : ma_rank p ≤ 2 := by cases p <;> simp [ma_rank]

theorem ma_step_dec {c : MCfg} {s s' : MSt} {e : EEv} (inv : MaInv c s) (hst : MaStep c s e s') :
    c.emeasure s' < c.emeasure s := by
  cases hst with
  | enter h1 h2 h3 => simp [MCfg.emeasure, ma_rank, h2]
  | leaveS h1 h2 h3 =>
    have hp := inv.act (Or.inr h2)
    have := ma_rank_le (c.after (s.pos + 1))
    have e1 : ma_rank Ph.insc = 1 := rfl
    simp only [MCfg.emeasure, h2, e1]
    omega
  | leaveN h1 h2 h3 =>
    have hp := inv.act (Or.inl h2)
    have := ma_rank_le (c.after (s.pos + 1))
    have e2 : ma_rank Ph.idle = 2 := rfl
    simp only [MCfg.emeasure, h2, e2]
    omega
  | center h1 h2 => simp [MCfg.emeasure, ma_rank, h2]
  | cleave h1 h2 => simp [MCfg.emeasure, ma_rank, h2]
  | fail h1 h2 h3 => simp [MCfg.emeasure, h1]
  | fopenF h1 =>
    have h2 := inv.ff h1
    have := ma_rank_le s.ph
    simp only [MCfg.emeasure, ma_rank, h1, h2]
    simp
    omega

theorem ma_terminates (c : MCfg) : ∀ (m : Nat) (s : MSt), c.EReach s → c.emeasure s ≤ m →
    ∃ es s', c.erun s es = some s' ∧ MCfg.efinal s' = true := by
  intro m
  induction m with
  | zero =>
    intro s hs hm
    cases hf : MCfg.efinal s
    · obtain ⟨e, s1, h1⟩ := master_no_deadlock c s hs hf
      have := ma_step_dec (MaInv_reach hs) (ma_estep_MaStep h1)
      omega
    · exact ⟨[], s, rfl, hf⟩
  | succ m ih =>
    intro s hs hm
    cases hf : MCfg.efinal s
    · obtain ⟨e, s1, h1⟩ := master_no_deadlock c s hs hf
      have hd := ma_step_dec (MaInv_reach hs) (ma_estep_MaStep h1)
      obtain ⟨es, s2, hr, hfin⟩ := ih s1 (.step e hs h1) (by omega)
      exact ⟨e :: es, s2, by simp [MCfg.erun, h1, hr], hfin⟩
    · exact ⟨[], s, rfl, hf⟩

/-- termination: the variant decreases with every step; a final state is reachable -/
theorem master_terminates (c : MCfg) (s : MSt) (hs : c.EReach s) :
    (∀ e s', c.estep s e = some s' → c.emeasure s' < c.emeasure s) ∧
    (∃ es s', c.erun s es = some s' ∧ MCfg.efinal s' = true) :=
  ⟨fun _ _ h => ma_step_dec (MaInv_reach hs) (ma_estep_MaStep h),
   ma_terminates c (c.emeasure s) s hs (Nat.le_refl _)⟩

/-! ## every element is scattered exactly once, in order -/

/-- the cells scattered by a run -/
def enterCellsE (es : List EEv) : List Nat :=
  es.filterMap fun e => match e with | .ok (.enter _ x) => some x | _ => none

theorem ma_cells_cons (e : EEv) (es : List EEv) : enterCellsE (e :: es) = enterCellsE [e] ++ enterCellsE es := by
  show List.filterMap _ ([e] ++ es) = _
  rw [List.filterMap_append]
  rfl

/-- number of scatters begun in state `s` (while no task has thrown) -/
def ma_scat (s : MSt) : Nat := s.pos + (if s.ph = .insc then 1 else 0)

/-- `k` scatters have been begun -/
structure MaRel (c : MCfg) (k : Nat) (s : MSt) : Prop where
  inv : MaInv c s
  kle : k ≤ c.cnt
  kok : s.failing = false → s.failed = false → k = ma_scat s

theorem ma_rel_step {c : MCfg} (hns : c.ns = true) {k : Nat} {s s' : MSt} {e : EEv} (hr : MaRel c k s)
    (hst : MaStep c s e s') :
    ∃ k', MaRel c k' s' ∧ (List.range k).map c.cell ++ enterCellsE [e] = (List.range k').map c.cell := by
  have inv' := MaInv_step hr.inv hst
  obtain ⟨inv, kle, kok⟩ := hr
  cases hst with
  | enter h1 h2 h3 =>
    have hfd : s.failed = false := by
      cases hx : s.failed
      · rfl
      · have := inv.fd hx; rw [h2] at this; cases this
    have hk : k = s.pos := by simpa [ma_scat, h2] using kok h1 hfd
    have hp := inv.act (Or.inl h2)
    refine ⟨k + 1, ⟨inv', by omega, fun _ _ => by simp [ma_scat, hk]⟩, ?_⟩
    rw [List.range_succ, List.map_append, hk]
    rfl
  | leaveS h1 h2 h3 =>
    have hfd : s.failed = false := by
      cases hx : s.failed
      · rfl
      · have := inv.fd hx; rw [h2] at this; cases this
    have hk : k = s.pos + 1 := by simpa [ma_scat, h2] using kok h1 hfd
    refine ⟨k, ⟨inv', kle, fun _ _ => ?_⟩, by simp [enterCellsE]⟩
    have hne : c.after (s.pos + 1) ≠ .insc := by
      rcases ma_after_cases c (s.pos + 1) with h | h | h <;> rw [h.1] <;> simp
    simp [ma_scat, hne, hk]
  | leaveN h1 h2 h3 => rw [hns] at h3; cases h3
  | center h1 h2 =>
    refine ⟨k, ⟨inv', kle, fun hf1 hf2 => ?_⟩, by simp [enterCellsE]⟩
    have := kok hf1 hf2
    simpa [ma_scat, h2] using this
  | cleave h1 h2 =>
    refine ⟨k, ⟨inv', kle, fun hf1 hf2 => ?_⟩, by simp [enterCellsE]⟩
    have := kok hf1 hf2
    simpa [ma_scat, h2] using this
  | fail h1 h2 h3 =>
    exact ⟨k, ⟨inv', kle, fun hf1 _ => by simp at hf1⟩, by simp [enterCellsE]⟩
  | fopenF h1 =>
    exact ⟨k, ⟨inv', kle, fun _ hf2 => by simp at hf2⟩, by simp [enterCellsE]⟩

theorem ma_rel_run {c : MCfg} (hns : c.ns = true) : ∀ (es : List EEv) (k : Nat) (s s' : MSt), MaRel c k s →
    c.erun s es = some s' →
    ∃ k', MaRel c k' s' ∧ (List.range k).map c.cell ++ enterCellsE es = (List.range k').map c.cell := by
  intro es
  induction es with
  | nil =>
    intro k s s' hr h
    simp only [MCfg.erun, Option.some.injEq] at h
    subst h
    exact ⟨k, hr, by simp [enterCellsE]⟩
  | cons e es ih =>
    intro k s s' hr h
    simp only [MCfg.erun] at h
    split at h
    · next s1 h1 =>
      obtain ⟨k1, hr1, he1⟩ := ma_rel_step hns hr (ma_estep_MaStep h1)
      obtain ⟨k2, hr2, he2⟩ := ih k1 s1 s' hr1 h
      refine ⟨k2, hr2, ?_⟩
      rw [ma_cells_cons, ← List.append_assoc, he1, he2]
    · cases h

theorem ma_rel_init (c : MCfg) : MaRel c 0 c.init := by
  refine ⟨MaInv_init c, Nat.zero_le _, fun _ _ => ?_⟩
  have hne : c.after 0 ≠ .insc := by
    rcases ma_after_cases c 0 with h | h | h <;> rw [h.1] <;> simp
  simp [ma_scat, MCfg.init, hne]

/-- a run that fails has scattered a prefix, nothing twice -/
theorem master_cells_prefix (c : MCfg) (hns : c.ns = true) (es : List EEv) (s : MSt)
    (h : c.erun c.init es = some s) :
    ∃ k, k ≤ c.cnt ∧ enterCellsE es = (List.range k).map c.cell := by
  obtain ⟨k, hr, he⟩ := ma_rel_run hns es 0 c.init s (ma_rel_init c) h
  exact ⟨k, hr.kle, by simpa using he⟩

/-- a complete run without failure scatters every element exactly once, in order (jobs with scatter) -/
theorem master_cells_once (c : MCfg) (hns : c.ns = true) (es : List EEv) (s : MSt)
    (h : c.erun c.init es = some s) (hf : MCfg.efinal s = true) (hok : s.failed = false) :
    enterCellsE es = (List.range c.cnt).map c.cell := by
  obtain ⟨k, hr, he⟩ := ma_rel_run hns es 0 c.init s (ma_rel_init c) h
  have hfin : s.ph = .done ∧ s.failing = false := by simpa [MCfg.efinal] using hf
  have hk : k = s.pos := by simpa [ma_scat, hfin.1] using hr.kok hfin.2 hok
  have hp := hr.inv.fin hok (Or.inr (Or.inr hfin.1))
  rw [hk, hp] at he
  simpa using he

end FeatModel.DA
