/-
C13, discretise-and-solve: the distributed Richardson / Jacobi-Richardson / CG iterations on well-formed
decompositions compute, in exact arithmetic, the one-process iterations on global functions.
-/
import FeatModel.Lemmas.C13ExtSync
open FeatModel.Dist

set_option linter.unusedSectionVars false

namespace FeatModel.C13L

variable {α : Type} [Field α]

/-! ### the serial reference (global functions `Nat → α` on the global DOF numbers) -/

/-- the assembled operator: local products of the restrictions of `X`, summed over the sharing patches -/
def globalApply (d : Decomp) (mats : List (List (List (Nat × α)))) (X : Nat → α) : Nat → α := fun g =>
  ((List.range d.np).map fun s => (d.sharedVals
    ((List.range d.np).map fun t => matVec (mats.getD t []) ((d.lmap t).map X)) s g).sum).sum

/-- the assembled diagonal -/
def globalDiag (d : Decomp) (mats : List (List (List (Nat × α)))) : Nat → α := fun g =>
  ((List.range d.np).map fun s => (d.sharedVals
    ((List.range d.np).map fun t => matDiag (mats.getD t [])) s g).sum).sum

/-- the global dot product, every global DOF once -/
def globalDot (d : Decomp) (X Y : Nat → α) : α := ((d.maps.flatten.dedup).map fun g => X g * Y g).sum

def richSerialStep (jac : Bool) (omega : α) (d : Decomp) (mats : List (List (List (Nat × α)))) (B X : Nat → α) :
    Nat → α := fun g =>
  X g + omega * (if jac then (B g - globalApply d mats X g) * (1 / globalDiag d mats g)
                 else B g - globalApply d mats X g)

def richSerialIter (jac : Bool) (omega : α) (d : Decomp) (mats : List (List (List (Nat × α)))) (B : Nat → α) :
    Nat → (Nat → α) → Nat → α
  | 0, X => X
  | k + 1, X => richSerialIter jac omega d mats B k (richSerialStep jac omega d mats B X)

/-! ### distributed vectors given by global functions -/

/-- `xs` is the consistent (type-1) distributed vector of the global function `X` -/
structure Rep (d : Decomp) (xs : List (List α)) (X : Nat → α) : Prop where
  len : xs.length = d.np
  lens : ∀ r, r < d.np → (xs.getD r []).length = (d.patch r).n
  vals : ∀ r, r < d.np → ∀ i, i < (d.patch r).n → val (xs.getD r []) i = X (d.gdof r i)

theorem getD_zipWith {β γ δ : Type} (f : β → γ → δ) (a : List β) (b : List γ) (da : β) (db : γ) (dd : δ) (r : Nat)
    (ha : r < a.length) (hb : r < b.length) : (List.zipWith f a b).getD r dd = f (a.getD r da) (b.getD r db) := by
  simp [List.getD_eq_getElem?_getD, ha, hb]

theorem getD_map_nil {β γ : Type} (f : List β → List γ) (hf : f [] = []) (l : List (List β)) (r : Nat) :
    (l.map f).getD r [] = f (l.getD r []) := by
  by_cases h : r < l.length
  · simp [List.getD_eq_getElem?_getD, h]
  · simp [List.getD_eq_getElem?_getD, Nat.not_lt.1 h, hf]

/-- a consistent local vector is the restriction of its global function -/
theorem Rep.local_eq {d : Decomp} (h : d.WF) {xs : List (List α)} {X : Nat → α} (hx : Rep d xs X) (t : Nat)
    (ht : t < d.np) : xs.getD t [] = (d.lmap t).map X := by
  apply List.ext_getElem
  · rw [hx.lens t ht, List.length_map, h.size t ht]
  · intro i h1 h2
    have hi : i < (d.patch t).n := by rw [← hx.lens t ht]; exact h1
    have hi' : i < (d.lmap t).length := by rw [← h.size t ht]; exact hi
    rw [← val_eq_getElem _ _ h1, hx.vals t ht i hi, List.getElem_map]
    simp [Decomp.gdof, List.getD_eq_getElem?_getD, hi']

theorem sync0_length (ps : List Patch) (ords : List (List Nat)) (vs : List (List α)) :
    (sync0 ps ords vs).length = ps.length := by simp [sync0]

theorem sum_sharedVals_congr (d : Decomp) (F G : Nat → List α) (hFG : ∀ t, t < d.np → F t = G t) (g : Nat) :
    ((List.range d.np).map fun s => (d.sharedVals ((List.range d.np).map F) s g).sum).sum
      = ((List.range d.np).map fun s => (d.sharedVals ((List.range d.np).map G) s g).sum).sum := by
  have : (List.range d.np).map F = (List.range d.np).map G :=
    List.map_congr_left (fun t ht => hFG t (List.mem_range.1 ht))
  rw [this]

/-! ### the building blocks keep the representation -/

theorem gapply2_length (d : Decomp) (mats : List (List (List (Nat × α)))) (xs ys : List (List α)) (alpha : α)
    (ords : List (List Nat))
    (hm : ∀ r, r < d.np → (mats.getD r []).length = (d.patch r).n)
    (hyl : ∀ r, r < d.np → (ys.getD r []).length = (d.patch r).n) (r : Nat) (hr : r < d.np) :
    ((gapply2 d.patches ords mats xs ys alpha).getD r []).length = (d.patch r).n := by
  rw [gapply2_def, sync0_getD_length _ _ _ _ hr]
  have : (apply2Local d.patches mats xs ys alpha).getD r []
      = matVecAxpy (mats.getD r []) (xs.getD r []) (from1to0 (d.patch r) (ys.getD r [])) alpha :=
    getD_range_map _ _ _ r hr
  rw [this]
  unfold matVecAxpy
  rw [List.length_zipWith, from1to0_length _ _ (hyl r hr), matVec_length, hm r hr, Nat.min_self]

/-- the defect `b - A x` of consistent `b`, `x` is the consistent vector of `B - globalApply X` -/
theorem gdefect_rep [CharZero α] (d : Decomp) (h : d.WF) (mats : List (List (List (Nat × α))))
    (hm : ∀ r, r < d.np → (mats.getD r []).length = (d.patch r).n)
    (ords : List (List Nat)) (hord : ∀ r, r < d.np → (ords.getD r []).Perm (List.range (d.patch r).nbrs.length))
    (bs xs : List (List α)) (B X : Nat → α) (hb : Rep d bs B) (hx : Rep d xs X) :
    Rep d (gdefect d.patches ords mats bs xs) (fun g => B g - globalApply d mats X g) := by
  refine ⟨?_, ?_, ?_⟩
  · unfold gdefect; rw [gapply2_def, sync0_length]; rfl
  · intro r hr
    exact gapply2_length d mats xs bs (-1) ords hm hb.lens r hr
  · intro r hr i hi
    unfold gdefect
    rw [gapply2_eq d h mats xs bs (-1) B hm hb.lens hb.vals ords hord r hr i hi,
      sum_sharedVals_congr d _ (fun t => matVec (mats.getD t []) ((d.lmap t).map X))
        (fun t ht => by rw [hx.local_eq h t ht])]
    unfold globalApply
    ring

theorem gdiag_length (d : Decomp) (mats : List (List (List (Nat × α)))) (ords : List (List Nat))
    (hm : ∀ r, r < d.np → (mats.getD r []).length = (d.patch r).n) (r : Nat) (hr : r < d.np) :
    ((gdiag d.patches ords mats).getD r []).length = (d.patch r).n := by
  unfold gdiag
  have hr' : r < d.patches.length := hr
  rw [sync0_getD_length _ _ _ _ hr, getD_range_map _ _ _ r hr', matDiag_length, hm r hr]

theorem gdiag_val (d : Decomp) (h : d.WF) (mats : List (List (List (Nat × α))))
    (hm : ∀ r, r < d.np → (mats.getD r []).length = (d.patch r).n)
    (ords : List (List Nat)) (hord : ∀ r, r < d.np → (ords.getD r []).Perm (List.range (d.patch r).nbrs.length))
    (r : Nat) (hr : r < d.np) (i : Nat) (hi : i < (d.patch r).n) :
    val ((gdiag d.patches ords mats).getD r []) i = globalDiag d mats (d.gdof r i) := by
  unfold gdiag
  refine sync0_sum d h _ ?_ ords hord r hr i hi
  intro s hs
  have hs' : s < d.patches.length := hs
  rw [getD_range_map _ _ _ s hs', matDiag_length, hm s hs]

/-- the synchronised inverse diagonal is the consistent vector of `1 / globalDiag` -/
theorem ginvDiag_rep (d : Decomp) (h : d.WF) (mats : List (List (List (Nat × α))))
    (hm : ∀ r, r < d.np → (mats.getD r []).length = (d.patch r).n)
    (ords : List (List Nat)) (hord : ∀ r, r < d.np → (ords.getD r []).Perm (List.range (d.patch r).nbrs.length)) :
    Rep d (ginvDiag d.patches ords mats) (fun g => 1 / globalDiag d mats g) := by
  have hg : ∀ r, (ginvDiag d.patches ords mats).getD r []
      = ((gdiag d.patches ords mats).getD r []).map fun a => 1 / a :=
    fun r => getD_map_nil (fun dg => dg.map fun a => 1 / a) rfl _ r
  refine ⟨?_, ?_, ?_⟩
  · unfold ginvDiag gdiag; rw [List.length_map, sync0_length]; rfl
  · intro r hr; rw [hg r, List.length_map, gdiag_length d mats ords hm r hr]
  · intro r hr i hi
    rw [hg r, val_map _ _ _ (by rw [gdiag_length d mats ords hm r hr]; exact hi), gdiag_val d h mats hm ords hord r hr i hi]

/-- pointwise combination of two consistent vectors by `zipWith (zipWith f)` -/
theorem zipWith2_rep (d : Decomp) (f : α → α → α) (F : List α → List α → List α)
    (hF : ∀ x y, F x y = List.zipWith f x y)
    (xs ys : List (List α)) (X Y : Nat → α) (hx : Rep d xs X) (hy : Rep d ys Y) :
    Rep d (List.zipWith F xs ys) (fun g => f (X g) (Y g)) := by
  have hg : ∀ r, r < d.np → (List.zipWith F xs ys).getD r [] = List.zipWith f (xs.getD r []) (ys.getD r []) := by
    intro r hr
    rw [getD_zipWith F xs ys [] [] [] r (by rw [hx.len]; exact hr) (by rw [hy.len]; exact hr), hF]
  refine ⟨?_, ?_, ?_⟩
  · rw [List.length_zipWith, hx.len, hy.len, Nat.min_self]
  · intro r hr; rw [hg r hr, List.length_zipWith, hx.lens r hr, hy.lens r hr, Nat.min_self]
  · intro r hr i hi
    rw [hg r hr, zipWith_val _ _ _ _ (by rw [hx.lens r hr]; exact hi) (by rw [hy.lens r hr]; exact hi),
      hx.vals r hr i hi, hy.vals r hr i hi]

theorem vAxpy_rep (d : Decomp) (a : α) (xs cs : List (List α)) (X C : Nat → α) (hx : Rep d xs X) (hc : Rep d cs C) :
    Rep d (List.zipWith (fun x c => vAxpy x c a) xs cs) (fun g => X g + a * C g) :=
  zipWith2_rep d (fun x c => x + a * c) _ (fun _ _ => rfl) xs cs X C hx hc

theorem compMul_rep (d : Decomp) (xs ys : List (List α)) (X Y : Nat → α) (hx : Rep d xs X) (hy : Rep d ys Y) :
    Rep d (List.zipWith compMul xs ys) (fun g => X g * Y g) :=
  zipWith2_rep d (fun a b => a * b) _ (fun _ _ => rfl) xs ys X Y hx hy

/-! ### Richardson / Jacobi-Richardson -/

theorem richStep_rep [CharZero α] (jac : Bool) (omega : α) (d : Decomp) (h : d.WF)
    (mats : List (List (List (Nat × α))))
    (hm : ∀ r, r < d.np → (mats.getD r []).length = (d.patch r).n)
    (ords : List (List Nat)) (hord : ∀ r, r < d.np → (ords.getD r []).Perm (List.range (d.patch r).nbrs.length))
    (bs xs : List (List α)) (B X : Nat → α) (hb : Rep d bs B) (hx : Rep d xs X) :
    Rep d (richStep jac omega d.patches ords mats bs xs) (richSerialStep jac omega d mats B X) := by
  have hd := gdefect_rep d h mats hm ords hord bs xs B X hb hx
  unfold richStep richSerialStep
  cases jac
  · simpa using vAxpy_rep d omega xs _ X _ hx hd
  · have hc := compMul_rep d _ _ _ _ hd (ginvDiag_rep d h mats hm ords hord)
    simpa using vAxpy_rep d omega xs _ X _ hx hc

theorem richIter_rep [CharZero α] (jac : Bool) (omega : α) (d : Decomp) (h : d.WF)
    (mats : List (List (List (Nat × α))))
    (hm : ∀ r, r < d.np → (mats.getD r []).length = (d.patch r).n)
    (ords : List (List Nat)) (hord : ∀ r, r < d.np → (ords.getD r []).Perm (List.range (d.patch r).nbrs.length))
    (bs : List (List α)) (B : Nat → α) (hb : Rep d bs B) (k : Nat) (xs : List (List α)) (X : Nat → α)
    (hx : Rep d xs X) :
    Rep d (richIter jac omega d.patches ords mats bs k xs) (richSerialIter jac omega d mats B k X) := by
  induction k generalizing xs X with
  | zero => exact hx
  | succ k ih => exact ih _ _ (richStep_rep jac omega d h mats hm ords hord bs xs B X hb hx)

/-! ### conjugate gradients -/

/-- serial CG state on global functions -/
structure CGSerial (α : Type) where
  x : Nat → α
  r : Nat → α
  p : Nat → α
  rr : α

def cgSerialInit (d : Decomp) (mats : List (List (List (Nat × α)))) (B X : Nat → α) : CGSerial α :=
  let R := fun g => B g - globalApply d mats X g
  { x := X, r := R, p := R, rr := globalDot d R R }

def cgSerialStep (d : Decomp) (mats : List (List (List (Nat × α)))) (st : CGSerial α) : CGSerial α :=
  let Q := globalApply d mats st.p
  let a := st.rr / globalDot d st.p Q
  let X := fun g => st.x g + a * st.p g
  let R := fun g => st.r g + (-a) * Q g
  let rr := globalDot d R R
  let P := fun g => R g + (rr / st.rr) * st.p g
  { x := X, r := R, p := P, rr := rr }

def cgSerialIter (d : Decomp) (mats : List (List (List (Nat × α)))) : Nat → CGSerial α → CGSerial α
  | 0, st => st
  | k + 1, st => cgSerialIter d mats k (cgSerialStep d mats st)

/-- the distributed CG state represents the serial one -/
structure CGRep (d : Decomp) (st : CGState α) (S : CGSerial α) : Prop where
  x : Rep d st.x S.x
  r : Rep d st.r S.r
  p : Rep d st.p S.p
  rr : st.rr = S.rr

theorem gapply_rep (d : Decomp) (h : d.WF) (mats : List (List (List (Nat × α))))
    (hm : ∀ r, r < d.np → (mats.getD r []).length = (d.patch r).n)
    (ords : List (List Nat)) (hord : ∀ r, r < d.np → (ords.getD r []).Perm (List.range (d.patch r).nbrs.length))
    (xs : List (List α)) (X : Nat → α) (hx : Rep d xs X) :
    Rep d (gapply d.patches ords mats xs) (globalApply d mats X) := by
  have hl : ∀ s, s < d.np →
      (((List.range d.patches.length).map fun r => matVec (mats.getD r []) (xs.getD r [])).getD s []).length
        = (d.patch s).n := by
    intro s hs
    have hs' : s < d.patches.length := hs
    rw [getD_range_map _ _ _ s hs', matVec_length, hm s hs]
  refine ⟨?_, ?_, ?_⟩
  · unfold gapply; rw [sync0_length]; rfl
  · intro r hr
    unfold gapply
    rw [sync0_getD_length _ _ _ _ hr, hl r hr]
  · intro r hr i hi
    unfold gapply
    rw [sync0_sum d h _ hl ords hord r hr i hi]
    exact sum_sharedVals_congr d _ (fun t => matVec (mats.getD t []) ((d.lmap t).map X))
      (fun t ht => by rw [hx.local_eq h t ht]) _

theorem gdot_rep [CharZero α] (d : Decomp) (h : d.WF) (xs ys : List (List α)) (X Y : Nat → α)
    (hx : Rep d xs X) (hy : Rep d ys Y) : gdot d.patches xs ys = globalDot d X Y :=
  gdot_eq d h xs ys X Y hx.lens hy.lens hx.vals hy.vals _ (List.nodup_dedup _) (mem_flatten_dedup d h)

theorem cgInit_rep [CharZero α] (d : Decomp) (h : d.WF) (mats : List (List (List (Nat × α))))
    (hm : ∀ r, r < d.np → (mats.getD r []).length = (d.patch r).n)
    (ords : List (List Nat)) (hord : ∀ r, r < d.np → (ords.getD r []).Perm (List.range (d.patch r).nbrs.length))
    (bs xs : List (List α)) (B X : Nat → α) (hb : Rep d bs B) (hx : Rep d xs X) :
    CGRep d (cgInit d.patches ords mats bs xs) (cgSerialInit d mats B X) := by
  have hd := gdefect_rep d h mats hm ords hord bs xs B X hb hx
  exact ⟨hx, hd, hd, gdot_rep d h _ _ _ _ hd hd⟩

theorem cgStep_rep [CharZero α] (d : Decomp) (h : d.WF) (mats : List (List (List (Nat × α))))
    (hm : ∀ r, r < d.np → (mats.getD r []).length = (d.patch r).n)
    (ords : List (List Nat)) (hord : ∀ r, r < d.np → (ords.getD r []).Perm (List.range (d.patch r).nbrs.length))
    (st : CGState α) (S : CGSerial α) (hs : CGRep d st S) :
    CGRep d (cgStep d.patches ords mats st) (cgSerialStep d mats S) := by
  have hq := gapply_rep d h mats hm ords hord st.p S.p hs.p
  have ha : st.rr / gdot d.patches st.p (gapply d.patches ords mats st.p)
      = S.rr / globalDot d S.p (globalApply d mats S.p) := by
    rw [hs.rr, gdot_rep d h _ _ _ _ hs.p hq]
  have hx' := vAxpy_rep d (st.rr / gdot d.patches st.p (gapply d.patches ords mats st.p)) st.x st.p S.x S.p hs.x hs.p
  have hr' := vAxpy_rep d (-(st.rr / gdot d.patches st.p (gapply d.patches ords mats st.p))) st.r _ S.r _ hs.r hq
  rw [ha] at hx' hr'
  have hrr := gdot_rep d h _ _ _ _ hr' hr'
  have hp' := vAxpy_rep d (gdot d.patches
      (List.zipWith (fun r q => vAxpy r q (-(S.rr / globalDot d S.p (globalApply d mats S.p)))) st.r
        (gapply d.patches ords mats st.p))
      (List.zipWith (fun r q => vAxpy r q (-(S.rr / globalDot d S.p (globalApply d mats S.p)))) st.r
        (gapply d.patches ords mats st.p)) / st.rr) _ st.p _ S.p hr' hs.p
  rw [hrr, hs.rr] at hp'
  unfold cgStep cgSerialStep
  simp only []
  rw [ha, hrr, hs.rr]
  exact ⟨hx', hr', hp', rfl⟩

theorem cgIter_rep [CharZero α] (d : Decomp) (h : d.WF) (mats : List (List (List (Nat × α))))
    (hm : ∀ r, r < d.np → (mats.getD r []).length = (d.patch r).n)
    (ords : List (List Nat)) (hord : ∀ r, r < d.np → (ords.getD r []).Perm (List.range (d.patch r).nbrs.length))
    (k : Nat) (st : CGState α) (S : CGSerial α) (hs : CGRep d st S) :
    CGRep d (cgIter d.patches ords mats k st) (cgSerialIter d mats k S) := by
  induction k generalizing st S with
  | zero => exact hs
  | succ k ih => exact ih _ _ (cgStep_rep d h mats hm ords hord st S hs)

end FeatModel.C13L
