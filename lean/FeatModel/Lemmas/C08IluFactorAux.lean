import FeatModel.Lemmas.C08IluApply
import FeatModel.Lemmas.C08Sweeps
import FeatModel.Model.Solver.IluSpec
/-! C08: auxiliary lemmas for the numeric ILU factorisation `factorizeNumericS`: Prop-level shape facts, `findPos`,
the effect of `elimEntry` / `elimL` on the stored data, the row invariant. -/
open Finset
namespace FeatModel.Solver
open FeatModel.LA

variable {α : Type}

/-- induction principle for the `foldRange` loops -/
theorem foldRange_induct {β : Type} (P : Nat → β → Prop) (f : β → Nat → β) (b e : Nat) (x : β) (hbe : b ≤ e)
    (h0 : P b x) (hstep : ∀ m y, b ≤ m → m < e → P m y → P (m + 1) (f y m)) : P e (foldRange b e f x) := by
  have key : ∀ k, b + k ≤ e → P (b + k) ((List.range' b k).foldl f x) := by
    intro k
    induction k with
    | zero => intro _; simpa using h0
    | succ k ih =>
      intro hk
      rw [List.range'_concat, List.foldl_append]
      simp only [List.foldl_cons, List.foldl_nil, Nat.one_mul]
      exact hstep (b + k) _ (by omega) (by omega) (ih (by omega))
  have := key (e - b) (by omega)
  unfold foldRange
  rwa [show b + (e - b) = e by omega] at this

theorem rp_mono (rp : Array Nat) (n : Nat) (h : ∀ i, i < n → rp.getD i 0 ≤ rp.getD (i + 1) 0) :
    ∀ j i, i ≤ j → j ≤ n → rp.getD i 0 ≤ rp.getD j 0
  | 0, i, hij, _ => by
    have : i = 0 := by omega
    subst this; exact Nat.le_refl _
  | j + 1, i, hij, hj => by
    rcases Nat.lt_or_ge i (j + 1) with hlt | hge
    · exact Nat.le_trans (rp_mono rp n h j i (by omega) (by omega)) (h j (by omega))
    · have : i = j + 1 := by omega
      subst this; exact Nat.le_refl _

/-- strictly increasing neighbours inside `[b, e)` give strict monotonicity on `[b, e)` -/
theorem idx_strictMono (idx : Array Nat) (b e : Nat)
    (h : ∀ k, b ≤ k → k + 1 < e → idx.getD k 0 < idx.getD (k + 1) 0) :
    ∀ k' k, b ≤ k → k < k' → k' < e → idx.getD k 0 < idx.getD k' 0
  | 0, k, _, hk, _ => by omega
  | k' + 1, k, hb, hk, he => by
    rcases Nat.lt_or_ge k k' with hlt | hge
    · exact Nat.lt_trans (idx_strictMono idx b e h k' k hb hlt (by omega)) (h k' (by omega) he)
    · have : k = k' := by omega
      subst this
      exact h k hb he

theorem idx_inj (idx : Array Nat) (b e : Nat)
    (h : ∀ k, b ≤ k → k + 1 < e → idx.getD k 0 < idx.getD (k + 1) 0) {k k' : Nat}
    (hk : b ≤ k) (hke : k < e) (hk' : b ≤ k') (hke' : k' < e) (heq : idx.getD k 0 = idx.getD k' 0) : k = k' := by
  rcases Nat.lt_trichotomy k k' with hlt | heq' | hgt
  · have := idx_strictMono idx b e h k' k hk hlt hke'; omega
  · exact heq'
  · have := idx_strictMono idx b e h k k' hk' hgt hke; omega

/-! ### `findPos` -/

theorem findPos_some (idx : Array Nat) (b e c p : Nat) (h : findPos idx b e c = some p) :
    b ≤ p ∧ p < e ∧ idx.getD p 0 = c := by
  unfold findPos at h
  have h1 := List.mem_of_find?_eq_some h
  have h2 := List.find?_some h
  rw [List.mem_range'_1] at h1
  exact ⟨h1.1, by omega, by simpa using h2⟩

theorem findPos_none (idx : Array Nat) (b e c : Nat) (h : findPos idx b e c = none) :
    ∀ k, b ≤ k → k < e → idx.getD k 0 ≠ c := by
  unfold findPos at h
  rw [List.find?_eq_none] at h
  intro k hk1 hk2
  have := h k (List.mem_range'_1.mpr ⟨hk1, by omega⟩)
  simpa using this

/-! ### Prop-level shape facts -/

/-- `IluSym.wf` and `IluSym.sorted` spelled out -/
structure IluSym.WFP (s : IluSym) : Prop where
  szL : s.rpL.size = s.n + 1
  szU : s.rpU.size = s.n + 1
  firstL : s.rpL.getD 0 0 = 0
  firstU : s.rpU.getD 0 0 = 0
  lastL : s.rpL.getD s.n 0 = s.ciL.size
  lastU : s.rpU.getD s.n 0 = s.ciU.size
  colL : ∀ k, k < s.ciL.size → s.ciL.getD k 0 < s.n
  colU : ∀ k, k < s.ciU.size → s.ciU.getD k 0 < s.n
  monoL : ∀ i, i < s.n → s.rpL.getD i 0 ≤ s.rpL.getD (i + 1) 0
  monoU : ∀ i, i < s.n → s.rpU.getD i 0 ≤ s.rpU.getD (i + 1) 0
  lowL : ∀ i, i < s.n → ∀ k, s.rpL.getD i 0 ≤ k → k < s.rpL.getD (i + 1) 0 → s.ciL.getD k 0 < i
  uppU : ∀ i, i < s.n → ∀ k, s.rpU.getD i 0 ≤ k → k < s.rpU.getD (i + 1) 0 → i < s.ciU.getD k 0
  sortL : ∀ i, i < s.n → ∀ k, s.rpL.getD i 0 ≤ k → k + 1 < s.rpL.getD (i + 1) 0 →
    s.ciL.getD k 0 < s.ciL.getD (k + 1) 0
  sortU : ∀ i, i < s.n → ∀ k, s.rpU.getD i 0 ≤ k → k + 1 < s.rpU.getD (i + 1) 0 →
    s.ciU.getD k 0 < s.ciU.getD (k + 1) 0

theorem IluSym.WFP.of_bool (s : IluSym) (hs : s.wf = true) (hso : s.sorted = true) : s.WFP := by
  simp only [IluSym.wf, Bool.and_eq_true, beq_iff_eq, List.all_eq_true, List.mem_range, List.mem_range'_1,
    decide_eq_true_eq, Array.all_eq_true] at hs
  obtain ⟨⟨⟨⟨⟨⟨⟨⟨h1, h2⟩, h3⟩, h4⟩, h5⟩, h6⟩, h7⟩, h8⟩, h9⟩ := hs
  simp only [IluSym.sorted, Bool.and_eq_true, List.all_eq_true, List.mem_range, List.mem_range'_1,
    decide_eq_true_eq] at hso
  have hcL : ∀ k, k < s.ciL.size → s.ciL.getD k 0 < s.n := by
    intro k hk
    have := h7 k hk
    simpa [Array.getD, hk] using this
  have hcU : ∀ k, k < s.ciU.size → s.ciU.getD k 0 < s.n := by
    intro k hk
    have := h8 k hk
    simpa [Array.getD, hk] using this
  have hmL : ∀ i, i < s.n → s.rpL.getD i 0 ≤ s.rpL.getD (i + 1) 0 := fun i hi => (h9 i hi).1.1.1
  have hmU : ∀ i, i < s.n → s.rpU.getD i 0 ≤ s.rpU.getD (i + 1) 0 := fun i hi => (h9 i hi).1.1.2
  refine ⟨h1, h2, h3, h4, h5, h6, hcL, hcU, hmL, hmU, ?_, ?_, ?_, ?_⟩
  · intro i hi k hk1 hk2
    have hle := rp_mono s.rpL s.n hmL s.n (i + 1) (by omega) (Nat.le_refl _)
    have hks : k < s.ciL.size := by omega
    rw [Csr.getD_eq_of_lt _ hks 0 s.n]
    exact (h9 i hi).1.2 k ⟨hk1, by omega⟩
  · intro i hi k hk1 hk2
    exact ((h9 i hi).2 k ⟨hk1, by omega⟩).1
  · intro i hi k hk1 hk2
    exact (hso i hi).1 k ⟨hk1, by omega⟩ hk2
  · intro i hi k hk1 hk2
    exact (hso i hi).2 k ⟨hk1, by omega⟩ hk2

namespace IluSym.WFP
variable {s : IluSym} (w : s.WFP)
include w

theorem rpL_le {i j : Nat} (hij : i ≤ j) (hj : j ≤ s.n) : s.rpL.getD i 0 ≤ s.rpL.getD j 0 :=
  rp_mono s.rpL s.n w.monoL j i hij hj

theorem rpU_le {i j : Nat} (hij : i ≤ j) (hj : j ≤ s.n) : s.rpU.getD i 0 ≤ s.rpU.getD j 0 :=
  rp_mono s.rpU s.n w.monoU j i hij hj

theorem endL_le {i : Nat} (hi : i < s.n) : s.rpL.getD (i + 1) 0 ≤ s.ciL.size := by
  have := w.rpL_le (i := i + 1) (j := s.n) (by omega) (Nat.le_refl _)
  rw [w.lastL] at this
  exact this

theorem endU_le {i : Nat} (hi : i < s.n) : s.rpU.getD (i + 1) 0 ≤ s.ciU.size := by
  have := w.rpU_le (i := i + 1) (j := s.n) (by omega) (Nat.le_refl _)
  rw [w.lastU] at this
  exact this

theorem injL {i : Nat} (hi : i < s.n) {k k' : Nat} (hk : s.rpL.getD i 0 ≤ k) (hke : k < s.rpL.getD (i + 1) 0)
    (hk' : s.rpL.getD i 0 ≤ k') (hke' : k' < s.rpL.getD (i + 1) 0) (heq : s.ciL.getD k 0 = s.ciL.getD k' 0) :
    k = k' :=
  idx_inj s.ciL _ _ (w.sortL i hi) hk hke hk' hke' heq

theorem injU {i : Nat} (hi : i < s.n) {k k' : Nat} (hk : s.rpU.getD i 0 ≤ k) (hke : k < s.rpU.getD (i + 1) 0)
    (hk' : s.rpU.getD i 0 ≤ k') (hke' : k' < s.rpU.getD (i + 1) 0) (heq : s.ciU.getD k 0 = s.ciU.getD k' 0) :
    k = k' :=
  idx_inj s.ciU _ _ (w.sortU i hi) hk hke hk' hke' heq

theorem monoInL {i : Nat} (hi : i < s.n) {k k' : Nat} (hk : s.rpL.getD i 0 ≤ k) (hkk : k < k')
    (hke' : k' < s.rpL.getD (i + 1) 0) : s.ciL.getD k 0 < s.ciL.getD k' 0 :=
  idx_strictMono s.ciL _ _ (w.sortL i hi) k' k hk hkk hke'

theorem matL_wf (d : IluNum α) (hl : d.dataL.size = s.ciL.size) : (s.matL d).WF :=
  ⟨w.szL, w.firstL, by show s.rpL.getD s.n 0 = d.dataL.size; rw [w.lastL, hl],
    by show s.ciL.size = d.dataL.size; rw [hl], w.monoL, w.colL⟩

theorem matU_wf (d : IluNum α) (hu : d.dataU.size = s.ciU.size) : (s.matU d).WF :=
  ⟨w.szU, w.firstU, by show s.rpU.getD s.n 0 = d.dataU.size; rw [w.lastU, hu],
    by show s.ciU.size = d.dataU.size; rw [hu], w.monoU, w.colU⟩

end IluSym.WFP

/-! ### dense entries of sorted rows -/
section entry
variable [CommSemiring α]

theorem entry_eq_zero_of_forall (A : Csr α) (i c : Nat)
    (h : ∀ k, A.rowBegin i ≤ k → k < A.rowEnd i → A.colInd.getD k A.cols ≠ c) : A.entry i c = 0 := by
  rw [Csr.entry_eq_sum_Ico]
  apply Finset.sum_eq_zero
  intro k hk
  rw [Finset.mem_Ico] at hk
  exact if_neg (h k hk.1 hk.2)

theorem entry_eq_val (A : Csr α) (i p : Nat) (hp1 : A.rowBegin i ≤ p) (hp2 : p < A.rowEnd i)
    (h : ∀ k, A.rowBegin i ≤ k → k < A.rowEnd i → k ≠ p → A.colInd.getD k A.cols ≠ A.colInd.getD p A.cols) :
    A.entry i (A.colInd.getD p A.cols) = A.val.getD p 0 := by
  rw [Csr.entry_eq_sum_Ico, Finset.sum_eq_single p]
  · rw [if_pos rfl]
  · intro k hk hkp
    rw [Finset.mem_Ico] at hk
    exact if_neg (h k hk.1 hk.2 hkp)
  · intro hn
    exact absurd (Finset.mem_Ico.mpr ⟨hp1, hp2⟩) hn

namespace IluSym.WFP
variable {s : IluSym} (w : s.WFP)
include w

theorem ciL_getD {i : Nat} (hi : i < s.n) {k : Nat} (hk : k < s.rpL.getD (i + 1) 0) :
    s.ciL.getD k s.n = s.ciL.getD k 0 :=
  Csr.getD_eq_of_lt _ (Nat.lt_of_lt_of_le hk (w.endL_le hi)) _ _

theorem ciU_getD {i : Nat} (hi : i < s.n) {k : Nat} (hk : k < s.rpU.getD (i + 1) 0) :
    s.ciU.getD k s.n = s.ciU.getD k 0 :=
  Csr.getD_eq_of_lt _ (Nat.lt_of_lt_of_le hk (w.endU_le hi)) _ _

theorem matL_entry_at (d : IluNum α) {i : Nat} (hi : i < s.n) {p : Nat} (hp1 : s.rpL.getD i 0 ≤ p)
    (hp2 : p < s.rpL.getD (i + 1) 0) : (s.matL d).entry i (s.ciL.getD p 0) = d.dataL.getD p 0 := by
  have := entry_eq_val (s.matL d) i p hp1 hp2 (by
    intro k hk1 hk2 hkp
    show s.ciL.getD k s.n ≠ s.ciL.getD p s.n
    rw [w.ciL_getD hi hk2, w.ciL_getD hi hp2]
    exact fun h => hkp (w.injL hi hk1 hk2 hp1 hp2 h))
  rw [show (s.matL d).colInd.getD p (s.matL d).cols = s.ciL.getD p 0 from w.ciL_getD hi hp2] at this
  exact this

theorem matU_entry_at (d : IluNum α) {i : Nat} (hi : i < s.n) {p : Nat} (hp1 : s.rpU.getD i 0 ≤ p)
    (hp2 : p < s.rpU.getD (i + 1) 0) : (s.matU d).entry i (s.ciU.getD p 0) = d.dataU.getD p 0 := by
  have := entry_eq_val (s.matU d) i p hp1 hp2 (by
    intro k hk1 hk2 hkp
    show s.ciU.getD k s.n ≠ s.ciU.getD p s.n
    rw [w.ciU_getD hi hk2, w.ciU_getD hi hp2]
    exact fun h => hkp (w.injU hi hk1 hk2 hp1 hp2 h))
  rw [show (s.matU d).colInd.getD p (s.matU d).cols = s.ciU.getD p 0 from w.ciU_getD hi hp2] at this
  exact this

/-- `L` is strictly lower triangular -/
theorem matL_entry_zero (d : IluNum α) {i : Nat} (hi : i < s.n) {c : Nat} (hc : i ≤ c) :
    (s.matL d).entry i c = 0 := by
  apply entry_eq_zero_of_forall
  intro k hk1 hk2
  show s.ciL.getD k s.n ≠ c
  rw [w.ciL_getD hi hk2]
  have := w.lowL i hi k hk1 hk2
  omega

/-- `U` is strictly upper triangular -/
theorem matU_entry_zero (d : IluNum α) {i : Nat} (hi : i < s.n) {c : Nat} (hc : c ≤ i) :
    (s.matU d).entry i c = 0 := by
  apply entry_eq_zero_of_forall
  intro k hk1 hk2
  show s.ciU.getD k s.n ≠ c
  rw [w.ciU_getD hi hk2]
  have := w.uppU i hi k hk1 hk2
  omega

omit w in
theorem matL_entry_congr (d d' : IluNum α) (i c : Nat)
    (h : ∀ p, s.rpL.getD i 0 ≤ p → p < s.rpL.getD (i + 1) 0 → d'.dataL.getD p 0 = d.dataL.getD p 0) :
    (s.matL d').entry i c = (s.matL d).entry i c := by
  rw [Csr.entry_eq_sum_Ico, Csr.entry_eq_sum_Ico]
  apply Finset.sum_congr rfl
  intro k hk
  rw [Finset.mem_Ico] at hk
  show (if s.ciL.getD k s.n = c then d'.dataL.getD k 0 else 0) = (if s.ciL.getD k s.n = c then d.dataL.getD k 0 else 0)
  rw [h k hk.1 hk.2]

omit w in
theorem matU_entry_congr (d d' : IluNum α) (i c : Nat)
    (h : ∀ p, s.rpU.getD i 0 ≤ p → p < s.rpU.getD (i + 1) 0 → d'.dataU.getD p 0 = d.dataU.getD p 0) :
    (s.matU d').entry i c = (s.matU d).entry i c := by
  rw [Csr.entry_eq_sum_Ico, Csr.entry_eq_sum_Ico]
  apply Finset.sum_congr rfl
  intro k hk
  rw [Finset.mem_Ico] at hk
  show (if s.ciU.getD k s.n = c then d'.dataU.getD k 0 else 0) = (if s.ciU.getD k s.n = c then d.dataU.getD k 0 else 0)
  rw [h k hk.1 hk.2]

/-- `l * U_{r,c}` as a sum over the storage positions of row `r` -/
theorem mul_matU_entry (d : IluNum α) {r : Nat} (hr : r < s.n) (l : α) (c : Nat) :
    ∑ k ∈ Ico (s.rpU.getD r 0) (s.rpU.getD (r + 1) 0), (if s.ciU.getD k 0 = c then l * d.dataU.getD k 0 else 0)
      = l * (s.matU d).entry r c := by
  rw [Csr.entry_eq_sum_Ico, Finset.mul_sum]
  apply Finset.sum_congr rfl
  intro k hk
  rw [Finset.mem_Ico] at hk
  show _ = l * (if s.ciU.getD k s.n = c then d.dataU.getD k 0 else 0)
  rw [w.ciU_getD hr hk.2, mul_ite, mul_zero]

end IluSym.WFP
end entry

/-! ### effect of `elimEntry` / `elimL` on the stored data -/

/-- the data arrays fit the symbolic structure -/
def IluNum.Sz (d : IluNum α) (s : IluSym) : Prop :=
  d.dataL.size = s.ciL.size ∧ d.dataU.size = s.ciU.size ∧ d.dataD.size = s.n

/-- `p` is a storage position of row `i` of `L` / of `U` -/
abbrev IluSym.inL (s : IluSym) (i p : Nat) : Prop := s.rpL.getD i 0 ≤ p ∧ p < s.rpL.getD (i + 1) 0
abbrev IluSym.inU (s : IluSym) (i p : Nat) : Prop := s.rpU.getD i 0 ≤ p ∧ p < s.rpU.getD (i + 1) 0

variable [Field α]

theorem elimEntry_spec {s : IluSym} (w : s.WFP) {i : Nat} (hi : i < s.n) (l : α) (d : IluNum α) (hd : d.Sz s)
    (k : Nat) :
    (elimEntry s i l d k).Sz s ∧
    (∀ p, (elimEntry s i l d k).dataL.getD p 0 = d.dataL.getD p 0 -
        (if s.inL i p ∧ s.ciU.getD k 0 = s.ciL.getD p 0 then l * d.dataU.getD k 0 else 0)) ∧
    (∀ p, (elimEntry s i l d k).dataU.getD p 0 = d.dataU.getD p 0 -
        (if s.inU i p ∧ s.ciU.getD k 0 = s.ciU.getD p 0 then l * d.dataU.getD k 0 else 0)) ∧
    (∀ r, (elimEntry s i l d k).dataD.getD r 0 = d.dataD.getD r 0 -
        (if r = i ∧ s.ciU.getD k 0 = i then l * d.dataU.getD k 0 else 0)) := by
  unfold elimEntry
  simp only []
  generalize s.ciU.getD k 0 = ck
  generalize l * d.dataU.getD k 0 = t
  obtain ⟨hsl, hsu, hsd⟩ := hd
  by_cases h1 : ck < i
  · rw [if_pos h1]
    have hU : ∀ p, d.dataU.getD p 0 = d.dataU.getD p 0 -
        (if s.inU i p ∧ ck = s.ciU.getD p 0 then t else 0) := by
      intro p
      rw [if_neg, sub_zero]
      rintro ⟨⟨hq1, hq2⟩, hq3⟩
      have := w.uppU i hi p hq1 hq2; omega
    have hD : ∀ r, d.dataD.getD r 0 = d.dataD.getD r 0 - (if r = i ∧ ck = i then t else 0) := by
      intro r
      rw [if_neg, sub_zero]
      omega
    split
    · rename_i pl hf
      obtain ⟨hp1, hp2, hp3⟩ := findPos_some _ _ _ _ _ hf
      refine ⟨⟨by simpa using hsl, hsu, hsd⟩, ?_, hU, hD⟩
      intro p
      show (d.dataL.setIfInBounds pl _).getD p 0 = _
      rw [getD_setIfInBounds]
      by_cases hpp : pl = p
      · subst hpp
        have : pl < d.dataL.size := by have := w.endL_le hi; omega
        rw [if_pos ⟨rfl, this⟩, if_pos ⟨⟨hp1, hp2⟩, hp3.symm⟩]
      · rw [if_neg (fun h => hpp h.1), if_neg, sub_zero]
        rintro ⟨⟨hq1, hq2⟩, hq3⟩
        exact hpp (w.injL hi hp1 hp2 hq1 hq2 (hp3.trans hq3))
    · rename_i hf
      refine ⟨⟨hsl, hsu, hsd⟩, ?_, hU, hD⟩
      intro p
      rw [if_neg, sub_zero]
      rintro ⟨⟨hq1, hq2⟩, hq3⟩
      exact findPos_none _ _ _ _ hf p hq1 hq2 hq3.symm
  · rw [if_neg h1]
    have hL : ∀ p, d.dataL.getD p 0 = d.dataL.getD p 0 -
        (if s.inL i p ∧ ck = s.ciL.getD p 0 then t else 0) := by
      intro p
      rw [if_neg, sub_zero]
      rintro ⟨⟨hq1, hq2⟩, hq3⟩
      have := w.lowL i hi p hq1 hq2; omega
    by_cases h2 : ck = i
    · rw [if_pos h2]
      refine ⟨⟨hsl, hsu, by simpa using hsd⟩, hL, ?_, ?_⟩
      · intro p
        rw [if_neg, sub_zero]
        rintro ⟨⟨hq1, hq2⟩, hq3⟩
        have := w.uppU i hi p hq1 hq2; omega
      · intro r
        show (d.dataD.setIfInBounds i _).getD r 0 = _
        rw [getD_setIfInBounds]
        by_cases hr : i = r
        · subst hr
          rw [if_pos ⟨rfl, by omega⟩, if_pos ⟨rfl, h2⟩]
        · rw [if_neg (fun h => hr h.1), if_neg (fun h => hr h.1.symm), sub_zero]
    · rw [if_neg h2]
      have hD : ∀ r, d.dataD.getD r 0 = d.dataD.getD r 0 - (if r = i ∧ ck = i then t else 0) := by
        intro r
        rw [if_neg (fun h => h2 h.2), sub_zero]
      split
      · rename_i pu hf
        obtain ⟨hp1, hp2, hp3⟩ := findPos_some _ _ _ _ _ hf
        refine ⟨⟨hsl, by simpa using hsu, hsd⟩, hL, ?_, hD⟩
        intro p
        show (d.dataU.setIfInBounds pu _).getD p 0 = _
        rw [getD_setIfInBounds]
        by_cases hpp : pu = p
        · subst hpp
          have : pu < d.dataU.size := by have := w.endU_le hi; omega
          rw [if_pos ⟨rfl, this⟩, if_pos ⟨⟨hp1, hp2⟩, hp3.symm⟩]
        · rw [if_neg (fun h => hpp h.1), if_neg, sub_zero]
          rintro ⟨⟨hq1, hq2⟩, hq3⟩
          exact hpp (w.injU hi hp1 hp2 hq1 hq2 (hp3.trans hq3))
      · rename_i hf
        refine ⟨⟨hsl, hsu, hsd⟩, hL, ?_, hD⟩
        intro p
        rw [if_neg, sub_zero]
        rintro ⟨⟨hq1, hq2⟩, hq3⟩
        exact findPos_none _ _ _ _ hf p hq1 hq2 hq3.symm

theorem sum_ite_and (A : Prop) [Decidable A] (f : Nat → Prop) [DecidablePred f] (x : Nat → α) (S : Finset Nat) :
    ∑ k ∈ S, (if A ∧ f k then x k else 0) = if A then ∑ k ∈ S, (if f k then x k else 0) else 0 := by
  by_cases h : A <;> simp [h]

/-- the loop over the stored entries `k ∈ [b, e)` of a row of `U` other than row `i` -/
theorem elimEntry_fold {s : IluSym} (w : s.WFP) {i : Nat} (hi : i < s.n) (l : α) (d : IluNum α) (hd : d.Sz s)
    (b e : Nat) (hbe : b ≤ e) (hdis : ∀ k, b ≤ k → k < e → ¬ s.inU i k) :
    (foldRange b e (elimEntry s i l) d).Sz s ∧
    (∀ p, (foldRange b e (elimEntry s i l) d).dataL.getD p 0 = d.dataL.getD p 0 -
        ∑ k ∈ Ico b e, (if s.inL i p ∧ s.ciU.getD k 0 = s.ciL.getD p 0 then l * d.dataU.getD k 0 else 0)) ∧
    (∀ p, (foldRange b e (elimEntry s i l) d).dataU.getD p 0 = d.dataU.getD p 0 -
        ∑ k ∈ Ico b e, (if s.inU i p ∧ s.ciU.getD k 0 = s.ciU.getD p 0 then l * d.dataU.getD k 0 else 0)) ∧
    (∀ r, (foldRange b e (elimEntry s i l) d).dataD.getD r 0 = d.dataD.getD r 0 -
        ∑ k ∈ Ico b e, (if r = i ∧ s.ciU.getD k 0 = i then l * d.dataU.getD k 0 else 0)) := by
  apply foldRange_induct (fun m (y : IluNum α) => y.Sz s ∧
    (∀ p, y.dataL.getD p 0 = d.dataL.getD p 0 -
        ∑ k ∈ Ico b m, (if s.inL i p ∧ s.ciU.getD k 0 = s.ciL.getD p 0 then l * d.dataU.getD k 0 else 0)) ∧
    (∀ p, y.dataU.getD p 0 = d.dataU.getD p 0 -
        ∑ k ∈ Ico b m, (if s.inU i p ∧ s.ciU.getD k 0 = s.ciU.getD p 0 then l * d.dataU.getD k 0 else 0)) ∧
    (∀ r, y.dataD.getD r 0 = d.dataD.getD r 0 -
        ∑ k ∈ Ico b m, (if r = i ∧ s.ciU.getD k 0 = i then l * d.dataU.getD k 0 else 0))) _ b e d hbe
  · refine ⟨hd, ?_, ?_, ?_⟩ <;> intro p <;> simp
  · intro m y hbm hme ⟨hy, hyL, hyU, hyD⟩
    obtain ⟨hs, hsL, hsU, hsD⟩ := elimEntry_spec w hi l y hy m
    have hUm : y.dataU.getD m 0 = d.dataU.getD m 0 := by
      rw [hyU m, Finset.sum_eq_zero, sub_zero]
      intro k _
      exact if_neg (fun h => hdis m hbm hme h.1)
    refine ⟨hs, ?_, ?_, ?_⟩
    · intro p
      rw [hsL p, hyL p, Finset.sum_Ico_succ_top hbm, hUm, sub_sub]
    · intro p
      rw [hsU p, hyU p, Finset.sum_Ico_succ_top hbm, hUm, sub_sub]
    · intro r
      rw [hsD r, hyD r, Finset.sum_Ico_succ_top hbm, hUm, sub_sub]

/-- one `L` entry of row `i` (storage position `j`, column `cj`): scaled by the inverted pivot `dataD[cj]`, then
    `l` times row `cj` of `U` is subtracted from row `i` on the pattern; expressed with the dense meaning of `U` -/
theorem elimL_spec {s : IluSym} (w : s.WFP) {i : Nat} (hi : i < s.n) (d : IluNum α) (hd : d.Sz s) {j : Nat}
    (hj1 : s.rpL.getD i 0 ≤ j) (hj2 : j < s.rpL.getD (i + 1) 0) (cj : Nat) (hcj : cj = s.ciL.getD j 0)
    (l : α) (hl : l = d.dataL.getD j 0 * d.dataD.getD cj 0) :
    (elimL s i d j).Sz s ∧
    (∀ p, (elimL s i d j).dataL.getD p 0 = if p = j then l else
        d.dataL.getD p 0 - (if s.inL i p then l * (s.matU d).entry cj (s.ciL.getD p 0) else 0)) ∧
    (∀ p, (elimL s i d j).dataU.getD p 0 =
        d.dataU.getD p 0 - (if s.inU i p then l * (s.matU d).entry cj (s.ciU.getD p 0) else 0)) ∧
    (∀ r, (elimL s i d j).dataD.getD r 0 =
        d.dataD.getD r 0 - (if r = i then l * (s.matU d).entry cj i else 0)) := by
  have hcji : cj < i := by rw [hcj]; exact w.lowL i hi j hj1 hj2
  have hcjn : cj < s.n := by omega
  have hjs : j < d.dataL.size := by have := w.endL_le hi; have := hd.1; omega
  have hd1 : ({ d with dataL := d.dataL.setIfInBounds j l } : IluNum α).Sz s :=
    ⟨by show (d.dataL.setIfInBounds j l).size = _; rw [Array.size_setIfInBounds]; exact hd.1, hd.2.1, hd.2.2⟩
  have hdis : ∀ k, s.rpU.getD cj 0 ≤ k → k < s.rpU.getD (cj + 1) 0 → ¬ s.inU i k := by
    intro k _ hk2 h
    have := w.rpU_le (i := cj + 1) (j := i) (by omega) (by omega)
    have := h.1
    omega
  obtain ⟨h1, h2, h3, h4⟩ := elimEntry_fold w hi l _ hd1 (s.rpU.getD cj 0) (s.rpU.getD (cj + 1) 0)
    (w.monoU cj hcjn) hdis
  have he : elimL s i d j = foldRange (s.rpU.getD cj 0) (s.rpU.getD (cj + 1) 0) (elimEntry s i l)
      { d with dataL := d.dataL.setIfInBounds j l } := by
    unfold elimL
    simp only []
    rw [← hcj, ← hl]
  rw [he]
  refine ⟨h1, ?_, ?_, ?_⟩
  · intro p
    rw [h2 p, sum_ite_and, w.mul_matU_entry _ hcjn]
    show (d.dataL.setIfInBounds j l).getD p 0 - (if s.inL i p then l * (s.matU d).entry cj (s.ciL.getD p 0) else 0) = _
    rw [getD_setIfInBounds]
    by_cases hpj : p = j
    · subst hpj
      rw [if_pos ⟨rfl, hjs⟩, if_pos rfl, ← hcj, w.matU_entry_zero d hcjn (Nat.le_refl _)]
      simp
    · rw [if_neg (fun h => hpj h.1.symm), if_neg hpj]
  · intro p
    rw [h3 p, sum_ite_and, w.mul_matU_entry _ hcjn]
    rfl
  · intro r
    rw [h4 r, sum_ite_and, w.mul_matU_entry _ hcjn]
    rfl

/-! ### the row invariant -/

/-- `∑_q l_{i,c_q} u_{c_q,c}` over the `L` positions `q ∈ [rpL i, m)` of row `i` (values from `y`, rows of `U` from `d`) -/
def rowS (s : IluSym) (i : Nat) (d y : IluNum α) (m c : Nat) : α :=
  ∑ q ∈ Ico (s.rpL.getD i 0) m, y.dataL.getD q 0 * (s.matU d).entry (s.ciL.getD q 0) c

/-- state `y` of row `i` after its `L` positions `< m` have been processed, `d` = state before row `i` -/
structure RowInv (s : IluSym) (i : Nat) (d : IluNum α) (m : Nat) (y : IluNum α) : Prop where
  sz : y.Sz s
  frL : ∀ p, ¬ s.inL i p → y.dataL.getD p 0 = d.dataL.getD p 0
  frU : ∀ p, ¬ s.inU i p → y.dataU.getD p 0 = d.dataU.getD p 0
  frD : ∀ r, r ≠ i → y.dataD.getD r 0 = d.dataD.getD r 0
  valL : ∀ p, s.inL i p → y.dataL.getD p 0 =
    if p < m then (d.dataL.getD p 0 - rowS s i d y m (s.ciL.getD p 0)) * d.dataD.getD (s.ciL.getD p 0) 0
    else d.dataL.getD p 0 - rowS s i d y m (s.ciL.getD p 0)
  valD : y.dataD.getD i 0 = d.dataD.getD i 0 - rowS s i d y m i
  valU : ∀ p, s.inU i p → y.dataU.getD p 0 = d.dataU.getD p 0 - rowS s i d y m (s.ciU.getD p 0)

theorem RowInv.base {s : IluSym} (i : Nat) (d : IluNum α) (hd : d.Sz s) : RowInv s i d (s.rpL.getD i 0) d := by
  have hS : ∀ c, rowS s i d d (s.rpL.getD i 0) c = 0 := fun c => by simp [rowS]
  refine ⟨hd, fun _ _ => rfl, fun _ _ => rfl, fun _ _ => rfl, ?_, ?_, ?_⟩
  · intro p hp
    rw [if_neg (by have := hp.1; omega), hS, sub_zero]
  · rw [hS, sub_zero]
  · intro p _
    rw [hS, sub_zero]

theorem RowInv.step {s : IluSym} (w : s.WFP) {i : Nat} (hi : i < s.n) {d y : IluNum α} {m : Nat}
    (h : RowInv s i d m y) (hm1 : s.rpL.getD i 0 ≤ m) (hm2 : m < s.rpL.getD (i + 1) 0) :
    RowInv s i d (m + 1) (elimL s i y m) := by
  obtain ⟨cj, hcj⟩ : ∃ cj, cj = s.ciL.getD m 0 := ⟨_, rfl⟩
  obtain ⟨l, hl⟩ : ∃ l, l = y.dataL.getD m 0 * y.dataD.getD cj 0 := ⟨_, rfl⟩
  obtain ⟨hs, hL, hU, hD⟩ := elimL_spec w hi y h.sz hm1 hm2 cj hcj l hl
  have hcji : cj < i := by rw [hcj]; exact w.lowL i hi m hm1 hm2
  have hcjn : cj < s.n := by omega
  have hue : ∀ c, (s.matU y).entry cj c = (s.matU d).entry cj c := by
    intro c
    apply IluSym.WFP.matU_entry_congr
    intro p _ hp2
    apply h.frU
    intro hin
    have := w.rpU_le (i := cj + 1) (j := i) (by omega) (by omega)
    have := hin.1
    omega
  have hDcj : y.dataD.getD cj 0 = d.dataD.getD cj 0 := h.frD cj (by omega)
  have hu0 : ∀ c, c ≤ cj → (s.matU d).entry cj c = 0 := fun c hc => w.matU_entry_zero d hcjn hc
  -- the finished positions stay
  have hLlt : ∀ q, s.rpL.getD i 0 ≤ q → q < m → (elimL s i y m).dataL.getD q 0 = y.dataL.getD q 0 := by
    intro q hq1 hq2
    have hlt := w.monoInL hi hq1 hq2 hm2
    rw [hL q, if_neg (by omega), hue, hu0 _ (by omega), mul_zero, ite_self, sub_zero]
  have hLm : (elimL s i y m).dataL.getD m 0 = l := by rw [hL m, if_pos rfl]
  have hS : ∀ c, rowS s i d (elimL s i y m) (m + 1) c = rowS s i d y m c + l * (s.matU d).entry cj c := by
    intro c
    unfold rowS
    rw [Finset.sum_Ico_succ_top hm1, hLm, ← hcj]
    congr 1
    apply Finset.sum_congr rfl
    intro q hq
    rw [Finset.mem_Ico] at hq
    rw [hLlt q hq.1 hq.2]
  refine ⟨hs, ?_, ?_, ?_, ?_, ?_, ?_⟩
  · intro p hp
    have hpm : p ≠ m := fun e => hp (e ▸ ⟨hm1, hm2⟩)
    rw [hL p, if_neg hpm, if_neg hp, sub_zero]
    exact h.frL p hp
  · intro p hp
    rw [hU p, if_neg hp, sub_zero]
    exact h.frU p hp
  · intro r hr
    rw [hD r, if_neg hr, sub_zero]
    exact h.frD r hr
  · intro p hp
    rw [hS]
    rcases Nat.lt_trichotomy p m with hlt | heq | hgt
    · have hc := w.monoInL hi hp.1 hlt hm2
      rw [hLlt p hp.1 hlt, h.valL p hp, if_pos hlt, if_pos (by omega), hu0 _ (by omega), mul_zero, add_zero]
    · subst heq
      have hv := h.valL p hp
      rw [if_neg (Nat.lt_irrefl _)] at hv
      rw [hLm, if_pos (by omega), ← hcj, hu0 _ (Nat.le_refl _), mul_zero, add_zero, hl, hv, hDcj, ← hcj]
    · have hv := h.valL p hp
      rw [if_neg (by omega)] at hv
      rw [hL p, if_neg (by omega), if_pos hp, if_neg (by omega), hue, hv, sub_sub]
  · rw [hD i, if_pos rfl, hue, h.valD, hS, sub_sub]
  · intro p hp
    rw [hU p, if_pos hp, hue, h.valU p hp, hS, sub_sub]

/-- all `L` positions of row `i` processed -/
theorem RowInv.fold {s : IluSym} (w : s.WFP) {i : Nat} (hi : i < s.n) (d : IluNum α) (hd : d.Sz s) :
    RowInv s i d (s.rpL.getD (i + 1) 0) (foldRange (s.rpL.getD i 0) (s.rpL.getD (i + 1) 0) (elimL s i) d) := by
  apply foldRange_induct (fun m y => RowInv s i d m y) _ _ _ d (w.monoL i hi) (RowInv.base i d hd)
  intro m y hm1 hm2 h
  exact h.step w hi hm1 hm2

end FeatModel.Solver
