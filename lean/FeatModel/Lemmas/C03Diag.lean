import FeatModel.Lemmas.C03Bridge
import FeatModel.Lemmas.C03Ops
import FeatModel.Lemmas.C01Bcsr
import FeatModel.Lemmas.C02Transpose
/-! extract_diag at full strength, and the link from the decidable layout validity of C02 (`Csr.sortedRows`) to `SortedCols`. -/
open Finset
namespace FeatModel.LA.MatAlg
open FeatModel.LA

section Sorted
variable {α : Type}

/-- a generic row view `p ↦ (c p, v p)` over storage positions with strictly increasing `c` is `SortedCols` -/
theorem sortedCols_range' {β : Type} (c : Nat → Nat) (v : Nat → β) (s n : Nat)
    (h : ∀ p q, s ≤ p → p < q → q < s + n → c p < c q) :
    SortedCols ((List.range' s n).map fun p => (c p, v p)) := by
  unfold SortedCols rowCols
  rw [List.map_map, List.pairwise_map]
  have hp : (List.range' s n).Pairwise (· < ·) := List.pairwise_lt_range'
  refine List.Pairwise.imp_of_mem ?_ hp
  intro p q hp hq hpq
  rw [List.mem_range'_1] at hp hq
  exact h p q hp.1 hpq hq.2

/-- the decidable layout validity of C02 (`wf && sortedRows`, established by every constructor / conversion path that
    C02 proves valid) gives the `SortedCols` hypothesis of the C03 theorems for every row -/
theorem sortedCols_of_sortedRows [Zero α] (A : Csr α) (h1 : A.wf = true) (h2 : A.sortedRows = true) (i : Nat) :
    SortedCols (csrRow A i) := by
  have hv := C02L.V_of h1 h2
  unfold csrRow
  by_cases hi : i < A.rows
  · apply sortedCols_range'
    intro p q hp hpq hq
    have hm := hv.mono i hi
    exact C02L.sorted_lt hv hi hp q hpq (by unfold Csr.rowBegin Csr.rowEnd at hq; unfold Csr.rowBegin at hp; omega)
  · -- rows past the end are empty: rowEnd - rowBegin = 0
    have : A.rowEnd i - A.rowBegin i = 0 := by
      unfold Csr.rowEnd Csr.rowBegin
      have hsz := hv.size
      have h0 : A.rowPtr.getD (i + 1) 0 = 0 := by simp [Array.getD]; omega
      omega
    rw [this]
    simp [SortedCols, rowCols]

end Sorted

section Diag
variable {α : Type} [CommRing α]

/-- in a sorted row a stored pair determines the dense value of its column -/
theorem rowVal_of_mem_sorted (r : Row α) (hs : SortedCols r) (j : Nat) (v : α) (hm : (j, v) ∈ r) : rowVal r j = v := by
  induction r with
  | nil => simp at hm
  | cons p t ih =>
    obtain ⟨c, w⟩ := p
    rcases List.mem_cons.mp hm with e | e
    · have e1 : j = c := (Prod.mk.inj e).1
      have e2 : v = w := (Prod.mk.inj e).2
      subst e1; subst e2
      have hn : j ∉ rowCols t := fun e => by have := sorted_head_lt hs e; omega
      rw [rowVal_cons, if_pos rfl, rowVal_of_not_mem t j hn, add_zero]
    · have hj : j ∈ rowCols t := List.mem_map_of_mem (f := Prod.fst) e
      have : c < j := sorted_head_lt hs hj
      rw [rowVal_cons, if_neg (by omega)]
      exact ih (sorted_tail hs) e

/-- **one row of `extract_diag` / `extract_diag_indices` (CSR)**: the index is `used_elements()` exactly when `(i,i)` is
    not in the pattern; otherwise it is the storage position of `(i,i)`; the value is `⟦A⟧_ii` in both cases -/
theorem csr_diag_row {A : Csr α} (h : A.WF) (hs : SortedCols (csrRow A i)) (hi : i < A.rows) :
    let k := diagIndexRow (A.rowBegin i) (A.rowPtr.getD A.rows 0) i (rowCols (csrRow A i)) 0
    (i ∉ rowCols (csrRow A i) ∧ k = A.usedElements ∧ A.entry i i = 0) ∨
    (i ∈ rowCols (csrRow A i) ∧ A.rowBegin i ≤ k ∧ k < A.rowEnd i ∧ k ≠ A.usedElements ∧ A.colInd.getD k 0 = i ∧
      A.val.getD k 0 = A.entry i i) := by
  intro k
  have hle := Csr.rowEnd_le h hi
  have hmono : A.rowBegin i ≤ A.rowEnd i := h.mono i hi
  rcases diagIndexRow_spec (A.rowBegin i) (A.rowPtr.getD A.rows 0) i (rowCols (csrRow A i)) 0 with
    ⟨hn, he⟩ | ⟨t, ht, hg, _, he⟩
  · left
    refine ⟨hn, ?_, ?_⟩
    · show diagIndexRow _ _ _ _ _ = _
      rw [he, h.last]; rfl
    · rw [← rowVal_csrRow_eq_entry h hi i, rowVal_of_not_mem _ i hn]
  · right
    have hlen : (rowCols (csrRow A i)).length = A.rowEnd i - A.rowBegin i := by simp [rowCols, csrRow]
    have htl : t < A.rowEnd i - A.rowBegin i := hlen ▸ ht
    have hk : k = A.rowBegin i + t := by show diagIndexRow _ _ _ _ _ = _; rw [he]; omega
    have hmem : i ∈ rowCols (csrRow A i) := List.mem_of_getElem? hg
    have hcol : A.colInd.getD (A.rowBegin i + t) 0 = i := by
      have := hg
      simp only [rowCols, csrRow, List.map_map, List.getElem?_map, List.getElem?_range' , htl] at this
      simpa using this
    have hpair : (i, A.val.getD (A.rowBegin i + t) 0) ∈ csrRow A i := by
      unfold csrRow
      refine List.mem_map.mpr ⟨A.rowBegin i + t, ?_, by rw [hcol]⟩
      rw [List.mem_range'_1]; omega
    refine ⟨hmem, by omega, by omega, ?_, by rw [hk]; exact hcol, ?_⟩
    · have : A.usedElements = A.colInd.size := by unfold Csr.usedElements; exact h.colSize.symm
      omega
    · rw [hk, ← rowVal_csrRow_eq_entry h hi i]
      exact (rowVal_of_mem_sorted _ hs i _ hpair).symm

end Diag
end FeatModel.LA.MatAlg

namespace FeatModel.LA.MatAlg
open FeatModel.LA

theorem flatMap_congr_mem {ι κ : Type} (l : List ι) (f g : ι → List κ) (h : ∀ x ∈ l, f x = g x) :
    l.flatMap f = l.flatMap g := by
  induction l with
  | nil => rfl
  | cons x t ih =>
    rw [List.flatMap_cons, List.flatMap_cons, h x List.mem_cons_self, ih (fun y hy => h y (List.mem_cons_of_mem _ hy))]

section BcsrDiag
variable {α : Type} [CommRing α]

/-- the scalar view "element (i, i) of every block of block row `row`" -/
def diagView (A : Bcsr α) (row i : Nat) : Row α :=
  (List.range' (A.rowPtr.getD row 0) (A.rowPtr.getD (row + 1) 0 - A.rowPtr.getD row 0)).map fun k =>
    (A.colInd.getD k 0, A.val.getD (k * A.bh * A.bw + i * A.bw + i) 0)

theorem diagView_cols (A : Bcsr α) (row i : Nat) : rowCols (diagView A row i) = rowCols (bcsrRow A row) := by
  simp [rowCols, diagView, bcsrRow, List.map_map, Function.comp_def]

/-- the dense (scalar) diagonal entry of a BCSR matrix with square blocks is the dense meaning of the view -/
theorem rowVal_diagView_eq_entry {A : Bcsr α} (h : A.WF) (hb : A.bh = A.bw) (hpos : 0 < A.bh) {row i : Nat}
    (hr : row < A.rows) (hi : i < A.bh) :
    rowVal (diagView A row i) row = A.entry (row * A.bh + i) (row * A.bh + i) := by
  have hdiv : (row * A.bh + i) / A.bh = row := by
    rw [Nat.mul_comm, Nat.mul_add_div hpos, Nat.div_eq_of_lt hi, Nat.add_zero]
  have hmod : (row * A.bh + i) % A.bh = i := by
    rw [Nat.mul_comm, Nat.mul_add_mod, Nat.mod_eq_of_lt hi]
  rw [Bcsr.entry_eq_sum A hpos (hb ▸ hpos), ← hb, hdiv, hmod, Finset.sum_Ico_eq_sum_range]
  unfold diagView
  rw [rowVal_map_range']
  apply Finset.sum_congr rfl
  intro k hk
  have hle := Bcsr.rowEnd_le h hr
  have hks : A.rowPtr.getD row 0 + k < A.colInd.size := by
    rw [Finset.mem_range] at hk; omega
  rw [Csr.getD_eq_of_lt _ hks 0 A.cols, ← hb]

/-- **one scalar row of `extract_diag` (BCSR, square blocks)** = the dense diagonal entry, 0 when the diagonal block is
    not stored -/
theorem bcsr_diag_row {A : Bcsr α} (h : A.WF) (hb : A.bh = A.bw) (hpos : 0 < A.bh) {row i : Nat}
    (hs : SortedCols (bcsrRow A row)) (hr : row < A.rows) (hi : i < A.bh) (k : Nat)
    (hkd : k = diagIndexRow (A.rowPtr.getD row 0) (A.rowPtr.getD A.rows 0) row (rowCols (bcsrRow A row)) 0) :
    (if k != A.usedElements then A.val.getD (k * A.bh * A.bw + i * A.bw + i) 0 else 0)
      = A.entry (row * A.bh + i) (row * A.bh + i) := by
  have hle := Bcsr.rowEnd_le h hr
  have hmono := h.mono row hr
  have hsv : SortedCols (diagView A row i) := by unfold SortedCols; rw [diagView_cols]; exact hs
  rw [← rowVal_diagView_eq_entry h hb hpos hr hi]
  rcases diagIndexRow_spec (A.rowPtr.getD row 0) (A.rowPtr.getD A.rows 0) row (rowCols (bcsrRow A row)) 0 with
    ⟨hn, he⟩ | ⟨t, ht, hg, _, he⟩
  · have hk : k = A.usedElements := by
      rw [hkd, he, h.last]; rfl
    rw [rowVal_of_not_mem _ row (by rw [diagView_cols]; exact hn)]
    simp [hk]
  · have hlen : (rowCols (bcsrRow A row)).length = A.rowPtr.getD (row + 1) 0 - A.rowPtr.getD row 0 := by
      simp [rowCols, bcsrRow]
    have htl : t < A.rowPtr.getD (row + 1) 0 - A.rowPtr.getD row 0 := hlen ▸ ht
    have hk : k = A.rowPtr.getD row 0 + t := by rw [hkd, he]; omega
    have hcol : A.colInd.getD (A.rowPtr.getD row 0 + t) 0 = row := by
      have := hg
      simp only [rowCols, bcsrRow, List.map_map, List.getElem?_map, List.getElem?_range', htl] at this
      simpa using this
    have hpair : (row, A.val.getD ((A.rowPtr.getD row 0 + t) * A.bh * A.bw + i * A.bw + i) 0) ∈ diagView A row i := by
      unfold diagView
      refine List.mem_map.mpr ⟨A.rowPtr.getD row 0 + t, ?_, by rw [hcol]⟩
      rw [List.mem_range'_1]; omega
    have hne : k ≠ A.usedElements := by unfold Bcsr.usedElements; omega
    rw [rowVal_of_mem_sorted _ hsv row _ hpair, if_pos (by simpa using hne), hk]

end BcsrDiag
end FeatModel.LA.MatAlg

namespace FeatModel.LA.MatAlg
open FeatModel.LA Finset

/-- adjacent-increasing on `[s, s+n)` is strictly monotone there -/
theorem strictMono_of_adjacent (c : Nat → Nat) (s n : Nat) (h : ∀ k, s ≤ k → k + 1 < s + n → c k < c (k + 1)) :
    ∀ p q, s ≤ p → p < q → q < s + n → c p < c q := by
  intro p q hp hpq hq
  induction q with
  | zero => omega
  | succ q ih =>
    rcases Nat.lt_or_ge p q with h1 | h1
    · exact Nat.lt_trans (ih h1 (by omega)) (h q (by omega) hq)
    · have : p = q := by omega
      subst this; exact h p hp hq

/-- BCSR: the decidable layout validity of C02 (`Bcsr.sortedRows`) gives `SortedCols` for every block row -/
theorem sortedCols_of_sortedRows_bcsr {α : Type} [Zero α] (A : Bcsr α) (h1 : A.wf = true) (h2 : A.sortedRows = true) (i : Nat) :
    SortedCols (bcsrRow A i) := by
  have hw := (Bcsr.wf_iff A).mp h1
  unfold bcsrRow
  by_cases hi : i < A.rows
  · apply sortedCols_range'
    apply strictMono_of_adjacent
    intro k hk1 hk2
    simp only [Bcsr.sortedRows, List.all_eq_true, List.mem_range, List.mem_range'_1, decide_eq_true_eq] at h2
    have hm := hw.mono i hi
    exact h2 i hi k ⟨hk1, by omega⟩
  · have : A.rowPtr.getD (i + 1) 0 - A.rowPtr.getD i 0 = 0 := by
      have hsz := hw.size
      have h0 : A.rowPtr.getD (i + 1) 0 = 0 := by simp [Array.getD]; omega
      omega
    rw [this]
    simp [SortedCols, rowCols]

section AxpyDense
variable {α : Type} [CommRing α]

/-- the matrix `T` with a new value array -/
def withVal (T : Csr α) (l : List α) : Csr α := { T with val := l.toArray }

/-- the dense meaning is linear in the value array: if the new values are `t_p + a·x_p` at every storage position and
    `X` shares the layout of `T`, then `⟦T'⟧ = ⟦T⟧ + a·⟦X⟧` entry by entry -/
theorem entry_withVal_axpy {T X : Csr α} (h : T.WF) (hp : X.rowPtr = T.rowPtr) (hc : X.colInd = T.colInd) (hcols : X.cols = T.cols)
    (l : List α) (b a : α)
    (hl : ∀ p, p < T.val.size → l.getD p 0 = b * T.val.getD p 0 + a * X.val.getD p 0) {i : Nat} (hi : i < T.rows) (j : Nat) :
    (withVal T l).entry i j = b * T.entry i j + a * X.entry i j := by
  have hb : X.rowBegin i = T.rowBegin i := by unfold Csr.rowBegin; rw [hp]
  have he : X.rowEnd i = T.rowEnd i := by unfold Csr.rowEnd; rw [hp]
  have e1 : (withVal T l).rowBegin i = T.rowBegin i := rfl
  have e2 : (withVal T l).rowEnd i = T.rowEnd i := rfl
  rw [Csr.entry_eq_sum_Ico, Csr.entry_eq_sum_Ico, Csr.entry_eq_sum_Ico, e1, e2, hb, he, Finset.mul_sum,
    Finset.mul_sum, ← Finset.sum_add_distrib]
  apply Finset.sum_congr rfl
  intro k hk
  rw [Finset.mem_Ico] at hk
  have hle := Csr.rowEnd_le h hi
  have hk2 : k < T.val.size := by rw [← h.colSize]; omega
  show (if (withVal T l).colInd.getD k (withVal T l).cols = j then (withVal T l).val.getD k 0 else 0) = _
  have hv : (withVal T l).val.getD k 0 = l.getD k 0 := by
    by_cases hkl : k < l.length
    · simp [withVal, Array.getD, List.getD, hkl]
    · simp [withVal, Array.getD, List.getD, hkl]
  have hci : (withVal T l).colInd = T.colInd := rfl
  have hco : (withVal T l).cols = T.cols := rfl
  rw [hv, hci, hco, hc, hcols, hl k hk2]
  split <;> ring

end AxpyDense
end FeatModel.LA.MatAlg
