import FeatModel.Model.Adjacency
/-!
Lemmas and final proof for the Cuthill–McKee group of C19 (`C19.cm_bijection`).

History: against the first model (`minDeg` root search `degree j < min` with `min = nDom + 1` and no
"nothing found yet" escape) the statement was false on multigraphs (`{nImg := 1, adj := [[0,0]]}`,
`minDeg` aborted with "No root node found!"); the same defect was in the C++ and has been fixed there
and in the model (`|| acc.1.isNone`, mirroring `maxDeg`). The statement is now proved as written.
-/
open FeatModel.Adj

namespace C19L.cm

/-! ### pigeonhole facts on lists of naturals -/

theorem nodup_subset_length_le : ∀ (l l' : List Nat), l.Nodup → (∀ x, x ∈ l → x ∈ l') →
    l.length ≤ l'.length := by
  intro l
  induction l with
  | nil => intros; simp
  | cons a t ih =>
    intro l' hnd hsub
    have ha : a ∈ l' := hsub a (by simp)
    have hnd' := List.nodup_cons.mp hnd
    have h1 : t.length ≤ (l'.erase a).length := by
      apply ih _ hnd'.2
      intro x hx
      have hxa : x ≠ a := fun h => hnd'.1 (h ▸ hx)
      exact (List.mem_erase_of_ne hxa).mpr (hsub x (by simp [hx]))
    have h2 := List.length_erase_of_mem ha
    have h3 : 0 < l'.length := List.length_pos_of_mem ha
    simp only [List.length_cons]
    omega

theorem nodup_lt_length_le {n : Nat} {l : List Nat} (hnd : l.Nodup) (hlt : ∀ x, x ∈ l → x < n) :
    l.length ≤ n := by
  have := nodup_subset_length_le l (List.range n) hnd (fun x hx => List.mem_range.mpr (hlt x hx))
  simpa using this

theorem exists_not_mem_of_length_lt {n : Nat} {l : List Nat} (h : l.length < n) :
    ∃ j, j < n ∧ j ∉ l := by
  apply Classical.byContradiction
  intro hne
  have hsub : ∀ x, x ∈ List.range n → x ∈ l := by
    intro x hx
    apply Classical.byContradiction
    intro hxl
    exact hne ⟨x, List.mem_range.mp hx, hxl⟩
  have := nodup_subset_length_le (List.range n) l List.nodup_range hsub
  simp at this
  omega

theorem mem_of_nodup_full {n : Nat} {l : List Nat} (hnd : l.Nodup) (hlt : ∀ x, x ∈ l → x < n)
    (hlen : l.length = n) (k : Nat) (hk : k < n) : k ∈ l := by
  apply Classical.byContradiction
  intro hkl
  have hnd' : (k :: l).Nodup := List.nodup_cons.mpr ⟨hkl, hnd⟩
  have := nodup_lt_length_le (n := n) hnd' (by
    intro x hx
    rcases List.mem_cons.mp hx with h | h
    · exact h ▸ hk
    · exact hlt x h)
  simp at this
  omega

theorem isBijection_of_nodup {l : List Nat} (hnd : l.Nodup) (hlt : ∀ x, x ∈ l → x < l.length) :
    Perm.isBijection l = true := by
  unfold Perm.isBijection
  simp only [Bool.and_eq_true, List.all_eq_true, decide_eq_true_eq, List.mem_range,
    List.contains_iff_mem]
  exact ⟨hlt, fun k hk => mem_of_nodup_full hnd hlt rfl k hk⟩

/-! ### the loop invariant -/

structure Inv (n : Nat) (perm : List Nat) (mask : Array Bool) : Prop where
  nodup : perm.Nodup
  lt : ∀ x, x ∈ perm → x < n
  size : mask.size = n
  mask_iff : ∀ j, CM.isMasked mask j = true ↔ j ∈ perm

theorem isMasked_set (mask : Array Bool) (k j : Nat) (hk : k < mask.size) :
    CM.isMasked (mask.setIfInBounds k true) j = (if j = k then true else CM.isMasked mask j) := by
  unfold CM.isMasked
  simp only [Array.getD_eq_getD_getElem?, Array.getElem?_setIfInBounds]
  by_cases h : j = k
  · subst h; simp [hk]
  · have h' : ¬ k = j := fun e => h e.symm
    simp [h, h']

theorem Inv.push {n : Nat} {perm : List Nat} {mask : Array Bool} (h : Inv n perm mask) {k : Nat}
    (hk : k < n) (hm : CM.isMasked mask k = false) :
    Inv n (perm ++ [k]) (mask.setIfInBounds k true) := by
  have hkp : k ∉ perm := fun hin => by
    have := (h.mask_iff k).mpr hin
    rw [hm] at this; exact Bool.noConfusion this
  refine ⟨?_, ?_, ?_, ?_⟩
  · rw [List.nodup_append]
    refine ⟨h.nodup, by simp, ?_⟩
    intro a ha b hb
    simp only [List.mem_singleton] at hb
    subst hb
    intro e; exact hkp (e ▸ ha)
  · intro x hx
    rcases List.mem_append.mp hx with hx | hx
    · exact h.lt x hx
    · simp only [List.mem_singleton] at hx; exact hx ▸ hk
  · simp [h.size]
  · intro j
    rw [isMasked_set mask k j (by rw [h.size]; exact hk)]
    by_cases hj : j = k
    · simp [hj]
    · simp [hj, h.mask_iff j]

theorem Inv.of_perm {n : Nat} {perm perm' : List Nat} {mask : Array Bool} (h : Inv n perm mask)
    (hp : perm.Perm perm') : Inv n perm' mask :=
  ⟨hp.nodup h.nodup, fun x hx => h.lt x (hp.mem_iff.mpr hx), h.size,
    fun j => (h.mask_iff j).trans hp.mem_iff⟩

theorem Inv.length_le {n : Nat} {perm : List Nat} {mask : Array Bool} (h : Inv n perm mask) :
    perm.length ≤ n := nodup_lt_length_le h.nodup h.lt

theorem Inv.exists_unmasked {n : Nat} {perm : List Nat} {mask : Array Bool} (h : Inv n perm mask)
    (hl : perm.length < n) : ∃ j, j < n ∧ CM.isMasked mask j = false := by
  obtain ⟨j, hj, hjp⟩ := exists_not_mem_of_length_lt hl
  refine ⟨j, hj, ?_⟩
  cases hm : CM.isMasked mask j with
  | false => rfl
  | true => exact absurd ((h.mask_iff j).mp hm) hjp

/-! ### well-formedness gives in-range rows -/

theorem row_lt (g : Graph) (hsq : g.nImg = g.nDom) (hwf : g.wf = true) (i k : Nat)
    (hk : k ∈ g.row i) : k < g.nDom := by
  unfold Graph.wf at hwf
  simp only [List.all_eq_true, decide_eq_true_eq] at hwf
  unfold Graph.row at hk
  rw [List.getD_eq_getElem?_getD] at hk
  cases hrow : g.adj[i]? with
  | none => simp [hrow] at hk
  | some l =>
    simp only [hrow, Option.getD_some] at hk
    have hl : l ∈ g.adj := List.mem_of_getElem? hrow
    rw [← hsq]
    exact hwf l hl k hk

/-! ### expandLevel -/

def expStep (acc : List Nat × Array Bool) (k : Nat) : List Nat × Array Bool :=
  if CM.isMasked acc.2 k then acc else (acc.1 ++ [k], acc.2.setIfInBounds k true)

theorem expRow_inv {n : Nat} (perm : List Nat) : ∀ (row : List Nat), (∀ k, k ∈ row → k < n) →
    ∀ (acc : List Nat × Array Bool), Inv n (perm ++ acc.1) acc.2 →
      Inv n (perm ++ (row.foldl expStep acc).1) (row.foldl expStep acc).2 := by
  intro row
  induction row with
  | nil => intro _ acc h; exact h
  | cons k t ih =>
    intro hrow acc h
    simp only [List.foldl_cons]
    apply ih (fun x hx => hrow x (by simp [hx]))
    unfold expStep
    cases hm : CM.isMasked acc.2 k with
    | true => simpa using h
    | false =>
      simp only [Bool.false_eq_true, if_false]
      rw [← List.append_assoc]
      exact h.push (hrow k (by simp)) hm

theorem expandLevel_eq (g : Graph) (level : List Nat) (mask : Array Bool) :
    CM.expandLevel g level mask =
      level.foldl (fun acc nd => (g.row nd).foldl expStep acc) ([], mask) := rfl

theorem expandLevel_inv (g : Graph) (hsq : g.nImg = g.nDom) (hwf : g.wf = true)
    (perm level : List Nat) (mask : Array Bool) (h : Inv g.nDom perm mask) :
    Inv g.nDom (perm ++ (CM.expandLevel g level mask).1) (CM.expandLevel g level mask).2 := by
  rw [expandLevel_eq]
  have key : ∀ (level : List Nat) (acc : List Nat × Array Bool), Inv g.nDom (perm ++ acc.1) acc.2 →
      Inv g.nDom (perm ++ (level.foldl (fun acc nd => (g.row nd).foldl expStep acc) acc).1)
        (level.foldl (fun acc nd => (g.row nd).foldl expStep acc) acc).2 := by
    intro level
    induction level with
    | nil => intro acc h; exact h
    | cons nd t ih =>
      intro acc h
      simp only [List.foldl_cons]
      exact ih _ (expRow_inv perm (g.row nd) (fun k hk => row_lt g hsq hwf nd k hk) acc h)
  exact key level ([], mask) (by simpa using h)

/-! ### sortLevel is a permutation -/

theorem insertLevel_perm (better : Nat → Nat → Bool) (deg : Nat → Nat) (sorted : List Nat) (y : Nat) :
    (CM.insertLevel better deg sorted y).Perm (sorted ++ [y]) := by
  unfold CM.insertLevel
  simp only
  have h1 : (sorted.reverse.takeWhile fun z => better (deg y) (deg z)) ++
      (sorted.reverse.dropWhile fun z => better (deg y) (deg z)) = sorted.reverse :=
    List.takeWhile_append_dropWhile
  generalize (sorted.reverse.takeWhile fun z => better (deg y) (deg z)) = tk at h1 ⊢
  generalize (sorted.reverse.dropWhile fun z => better (deg y) (deg z)) = dr at h1 ⊢
  have h2 : sorted.Perm (tk ++ dr) := by rw [h1]; exact (List.reverse_perm sorted).symm
  have h3 : (dr.reverse ++ [y] ++ tk.reverse).Perm (dr ++ [y] ++ tk) :=
    List.Perm.append (List.Perm.append (List.reverse_perm dr) (List.Perm.refl _)) (List.reverse_perm tk)
  refine h3.trans ?_
  have h4 : (dr ++ [y] ++ tk).Perm (tk ++ dr ++ [y]) := by
    rw [List.append_assoc tk dr [y]]
    exact List.perm_append_comm
  exact h4.trans (List.Perm.append_right [y] h2.symm)

theorem foldl_insertLevel_perm (better : Nat → Nat → Bool) (deg : Nat → Nat) :
    ∀ (lvl acc : List Nat), (lvl.foldl (CM.insertLevel better deg) acc).Perm (acc ++ lvl) := by
  intro lvl
  induction lvl with
  | nil => intro acc; simp
  | cons y t ih =>
    intro acc
    simp only [List.foldl_cons]
    refine (ih _).trans ?_
    have := List.Perm.append_right t (insertLevel_perm better deg acc y)
    simpa using this

theorem sortLevel_perm (g : Graph) (st : CM.SortType) (lvl : List Nat) :
    (CM.sortLevel g st lvl).Perm lvl := by
  cases st with
  | standard => exact List.Perm.refl _
  | asc => simpa [CM.sortLevel] using foldl_insertLevel_perm (fun x d => x < d) g.degree lvl []
  | desc => simpa [CM.sortLevel] using foldl_insertLevel_perm (fun x d => x > d) g.degree lvl []

/-! ### component -/

theorem component_inv (g : Graph) (hsq : g.nImg = g.nDom) (hwf : g.wf = true) (st : CM.SortType) :
    ∀ (fuel : Nat) (perm level : List Nat) (mask : Array Bool) (layers : List Nat),
      Inv g.nDom perm mask →
      Inv g.nDom (CM.component g st fuel perm level mask layers).1
        (CM.component g st fuel perm level mask layers).2.1 ∧
      ∃ ext, (CM.component g st fuel perm level mask layers).1 = perm ++ ext := by
  intro fuel
  induction fuel with
  | zero =>
    intro perm level mask layers h
    exact ⟨h, [], by simp [CM.component]⟩
  | succ fuel ih =>
    intro perm level mask layers h
    unfold CM.component
    by_cases hlt : perm.length < g.nDom
    · simp only [hlt, if_true]
      have hexp := expandLevel_inv g hsq hwf perm level mask h
      generalize CM.expandLevel g level mask = r at hexp
      obtain ⟨fresh, mask'⟩ := r
      simp only at hexp ⊢
      by_cases hempty : fresh.isEmpty = true
      · simp only [hempty, if_true]
        have : fresh = [] := List.isEmpty_iff.mp hempty
        subst this
        exact ⟨by simpa using hexp, [], by simp⟩
      · simp only [hempty, Bool.false_eq_true, if_false]
        have hinv' : Inv g.nDom (perm ++ CM.sortLevel g st fresh) mask' :=
          hexp.of_perm (List.Perm.append_left perm (sortLevel_perm g st fresh).symm)
        obtain ⟨h1, ext, h2⟩ := ih (perm ++ CM.sortLevel g st fresh) (CM.sortLevel g st fresh) mask'
          (layers ++ [(perm ++ CM.sortLevel g st fresh).length]) hinv'
        refine ⟨h1, CM.sortLevel g st fresh ++ ext, ?_⟩
        rw [h2, List.append_assoc]
    · simp only [hlt, if_false]
      exact ⟨h, [], by simp⟩

/-! ### findRoot -/

def rootStep (g : Graph) (mask : Array Bool) (c : Option Nat × Nat → Nat → Bool)
    (acc : Option Nat × Nat) (j : Nat) : Option Nat × Nat :=
  if c acc j && !CM.isMasked mask j then (some j, g.degree j) else acc

theorem rootFold_sound (g : Graph) (mask : Array Bool) (c : Option Nat × Nat → Nat → Bool) :
    ∀ (l : List Nat) (acc : Option Nat × Nat) (r : Nat),
      (l.foldl (rootStep g mask c) acc).1 = some r →
      acc.1 = some r ∨ (r ∈ l ∧ CM.isMasked mask r = false) := by
  intro l
  induction l with
  | nil => intro acc r h; exact Or.inl h
  | cons a t ih =>
    intro acc r h
    simp only [List.foldl_cons] at h
    rcases ih _ r h with h1 | h1
    · unfold rootStep at h1
      by_cases hc : (c acc a && !CM.isMasked mask a) = true
      · simp only [hc, if_true, Option.some.injEq] at h1
        simp only [Bool.and_eq_true, Bool.not_eq_true'] at hc
        exact Or.inr ⟨by simp [h1], h1 ▸ hc.2⟩
      · simp only [hc] at h1
        exact Or.inl h1
    · exact Or.inr ⟨by simp [h1.1], h1.2⟩

theorem orNoneFold_complete (g : Graph) (mask : Array Bool) (d : Option Nat × Nat → Nat → Bool) :
    ∀ (l : List Nat) (acc : Option Nat × Nat),
      (acc.1.isSome = true ∨ ∃ j, j ∈ l ∧ CM.isMasked mask j = false) →
      (l.foldl (rootStep g mask (fun acc j => d acc j || acc.1.isNone)) acc).1.isSome = true := by
  intro l
  induction l with
  | nil =>
    intro acc h
    rcases h with h | ⟨j, hj, _⟩
    · exact h
    · simp at hj
  | cons a t ih =>
    intro acc h
    simp only [List.foldl_cons]
    apply ih
    unfold rootStep
    by_cases hc : ((d acc a || acc.1.isNone) && !CM.isMasked mask a) = true
    · simp [hc]
    · simp only [hc]
      cases hs : acc.1.isSome with
      | true => exact Or.inl hs
      | false =>
        rcases h with h | ⟨j, hj, hm⟩
        · rw [hs] at h; exact Bool.noConfusion h
        · rcases List.mem_cons.mp hj with e | hjt
          · subst e
            exfalso; apply hc
            have : acc.1.isNone = true := by
              cases h1 : acc.1 with
              | none => rfl
              | some v => simp [h1] at hs
            simp [hm, this]
          · exact Or.inr ⟨j, hjt, hm⟩

theorem findRoot_some (g : Graph) (rt : CM.RootType) (mask : Array Bool)
    (hex : ∃ j, j < g.nDom ∧ CM.isMasked mask j = false) :
    ∃ root, CM.findRoot g rt mask = some root ∧ root < g.nDom ∧ CM.isMasked mask root = false := by
  obtain ⟨j, hj, hm⟩ := hex
  cases rt with
  | standard =>
    simp only [CM.findRoot]
    cases hf : (List.range g.nDom).find? (fun j => !CM.isMasked mask j) with
    | none =>
      rw [List.find?_eq_none] at hf
      have := hf j (List.mem_range.mpr hj)
      simp [hm] at this
    | some r =>
      have h1 := List.find?_some hf
      have h2 := List.mem_of_find?_eq_some hf
      exact ⟨r, rfl, List.mem_range.mp h2, by simpa using h1⟩
  | minDeg =>
    have hfold : CM.findRoot g .minDeg mask =
        ((List.range g.nDom).foldl
          (rootStep g mask (fun acc j => decide (g.degree j < acc.2) || acc.1.isNone))
          (none, g.nDom + 1)).1 := rfl
    rw [hfold]
    have hc := orNoneFold_complete g mask (fun acc j => decide (g.degree j < acc.2))
      (List.range g.nDom) (none, g.nDom + 1) (Or.inr ⟨j, List.mem_range.mpr hj, hm⟩)
    cases hr : ((List.range g.nDom).foldl
          (rootStep g mask (fun acc j => decide (g.degree j < acc.2) || acc.1.isNone))
          (none, g.nDom + 1)).1 with
    | none => rw [hr] at hc; exact Bool.noConfusion hc
    | some r =>
      rcases rootFold_sound g mask _ _ _ r hr with h | h
      · exact absurd h (by simp)
      · exact ⟨r, rfl, List.mem_range.mp h.1, h.2⟩
  | maxDeg =>
    have hfold : CM.findRoot g .maxDeg mask =
        ((List.range g.nDom).foldl
          (rootStep g mask (fun acc j => decide (g.degree j > acc.2) || acc.1.isNone)) (none, 0)).1 := rfl
    rw [hfold]
    have hc := orNoneFold_complete g mask (fun acc j => decide (g.degree j > acc.2))
      (List.range g.nDom) (none, 0) (Or.inr ⟨j, List.mem_range.mpr hj, hm⟩)
    cases hr : ((List.range g.nDom).foldl
          (rootStep g mask (fun acc j => decide (g.degree j > acc.2) || acc.1.isNone)) (none, 0)).1 with
    | none => rw [hr] at hc; exact Bool.noConfusion hc
    | some r =>
      rcases rootFold_sound g mask _ _ _ r hr with h | h
      · exact absurd h (by simp)
      · exact ⟨r, rfl, List.mem_range.mp h.1, h.2⟩

/-! ### outer loop -/

theorem outer_spec (g : Graph) (hsq : g.nImg = g.nDom) (hwf : g.wf = true)
    (rev : Bool) (rt : CM.RootType) (st : CM.SortType) :
    ∀ (fuel : Nat) (perm : List Nat) (mask : Array Bool) (layers : List Nat),
      Inv g.nDom perm mask → g.nDom - perm.length ≤ fuel →
      ∃ p l, CM.outer g rev rt st fuel perm mask layers = some (p, l) ∧ p.length = g.nDom ∧
        p.Nodup ∧ ∀ x, x ∈ p → x < g.nDom := by
  intro fuel
  induction fuel with
  | zero =>
    intro perm mask layers h hf
    have hle := h.length_le
    have hnlt : ¬ perm.length < g.nDom := by omega
    exact ⟨perm, layers, by simp [CM.outer, hnlt], by omega, h.nodup, h.lt⟩
  | succ fuel ih =>
    intro perm mask layers h hf
    have hle := h.length_le
    unfold CM.outer
    by_cases hlt : perm.length < g.nDom
    · simp only [hlt, if_true]
      obtain ⟨root, hroot, hrn, hrm⟩ := findRoot_some g rt mask (h.exists_unmasked hlt)
      simp only [hroot]
      have hpush := h.push hrn hrm
      obtain ⟨hc1, ext, hc2⟩ := component_inv g hsq hwf st (g.nDom + 1) (perm ++ [root]) [root]
        (mask.setIfInBounds root true) [perm.length + 1] hpush
      generalize CM.component g st (g.nDom + 1) (perm ++ [root]) [root]
        (mask.setIfInBounds root true) [perm.length + 1] = r at hc1 hc2
      obtain ⟨perm', mask', lay⟩ := r
      simp only at hc1 hc2 ⊢
      subst hc2
      have htake : (perm ++ [root] ++ ext).take perm.length = perm := by
        rw [List.append_assoc]; simp
      have hdrop : (perm ++ [root] ++ ext).drop perm.length = [root] ++ ext := by
        rw [List.append_assoc]; simp
      have hperm : (perm ++ [root] ++ ext).Perm
          (if rev = true then (perm ++ [root] ++ ext).take perm.length ++
            ((perm ++ [root] ++ ext).drop perm.length).reverse else perm ++ [root] ++ ext) := by
        cases rev with
        | false => simp
        | true =>
          simp only [if_true, htake, hdrop]
          rw [List.append_assoc]
          exact List.Perm.append_left perm (List.reverse_perm _).symm
      have hinv'' := hc1.of_perm hperm
      have hlen : g.nDom - (if rev = true then (perm ++ [root] ++ ext).take perm.length ++
            ((perm ++ [root] ++ ext).drop perm.length).reverse else perm ++ [root] ++ ext).length
            ≤ fuel := by
        rw [← hperm.length_eq]
        simp only [List.length_append, List.length_cons, List.length_nil]
        omega
      exact ih _ mask' _ hinv'' hlen
    · simp only [hlt, if_false]
      exact ⟨perm, layers, rfl, by omega, h.nodup, h.lt⟩

theorem inv_init (n : Nat) : Inv n [] (Array.replicate n false) := by
  refine ⟨List.nodup_nil, by simp, by simp, ?_⟩
  intro j
  unfold CM.isMasked
  simp only [Array.getD_eq_getD_getElem?, Array.getElem?_replicate]
  by_cases hj : j < n <;> simp [hj]

/-! ### final theorems -/

/-- `C19.cm_bijection`, exactly as stated in `C19_statements.lean`. -/
theorem cm_bijection (g : Graph) (hsq : g.nImg = g.nDom) (hwf : g.wf = true) (hn : 0 < g.nDom)
    (rev : Bool) (rt : CM.RootType) (st : CM.SortType) :
    ∃ perm layers, CM.compute g rev rt st = some (perm, layers) ∧ perm.length = g.nDom ∧
      Perm.isBijection perm = true := by
  obtain ⟨p, l, ho, hlen, hnd, hlt⟩ := outer_spec g hsq hwf rev rt st (g.nDom + 1) []
    (Array.replicate g.nDom false) [0] (inv_init g.nDom) (by simp)
  refine ⟨p, l ++ [g.nDom], ?_, hlen, ?_⟩
  · unfold CM.compute
    have : ¬ g.nDom = 0 := by omega
    simp only [this, if_false, ho]
  · exact isBijection_of_nodup hnd (by rw [hlen]; exact hlt)

/-- the former counterexample (multigraph, `minDeg`; aborted before the `findRoot` fix) now succeeds -/
example : CM.compute { nImg := 1, adj := [[0, 0]] } false .minDeg .standard = some ([0], [0, 1, 1]) := by
  decide

end C19L.cm
