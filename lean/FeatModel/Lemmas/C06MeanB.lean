import FeatModel.Lemmas.C06Mean
/-! helper lemmas for the C06 theorems about `MeanFilterBlocked`: `axpy_blocked` / `dot_blocked` seen per block
component (`col bs j` = the scalar vector of component `j`) -/
namespace FeatModel.LA.Filter

section
variable {α : Type} [CommSemiring α]

theorem length_axpyBlocked (bs : Nat) (v x a : List α) (hl : v.length = x.length) :
    (axpyBlocked bs v x a).length = v.length := by
  simp [axpyBlocked, hl]

theorem getD_axpyBlocked (bs : Nat) (v x a : List α) (p : Nat) (hp : p < v.length) (hl : v.length = x.length) :
    (axpyBlocked bs v x a).getD p 0 = v.getD p 0 + a.getD (p % bs) 0 * x.getD p 0 := by
  have hx : p < x.length := by omega
  simp only [List.getD_eq_getElem?_getD, axpyBlocked, List.getElem?_map, List.getElem?_zipIdx, List.getElem?_zipWith,
    List.getElem?_eq_getElem hp, List.getElem?_eq_getElem hx, Option.map_some, Option.getD_some, Nat.zero_add]

theorem pos_lt_of_col (bs j i len : Nat) (hj : j < bs) (hi : i < len / bs) : i * bs + j < len := by
  have h1 := Nat.mul_le_mul_right bs (Nat.succ_le_of_lt hi)
  rw [Nat.succ_mul] at h1
  have h2 := Nat.div_mul_le_self len bs
  omega

theorem length_col (bs j : Nat) (x : List α) : (col bs j x).length = x.length / bs := by
  simp [col]

/-- component `j` of `v + a ⊙ x` (blocked axpy) is the scalar axpy of the components with factor `a_j` -/
theorem col_axpyBlocked (bs j : Nat) (hj : j < bs) (v x a : List α) (hl : v.length = x.length) :
    col bs j (axpyBlocked bs v x a) = axpyL (col bs j v) (col bs j x) (a.getD j 0) := by
  unfold col axpyL
  rw [length_axpyBlocked bs v x a hl, ← hl, List.zipWith_map, List.zipWith_self]
  apply List.map_congr_left
  intro i hi
  rw [List.mem_range] at hi
  rw [getD_axpyBlocked bs v x a _ (pos_lt_of_col bs j i v.length hj hi) hl]
  have : (i * bs + j) % bs = j := by
    rw [Nat.mul_comm, Nat.mul_add_mod, Nat.mod_eq_of_lt hj]
  rw [this]

/-- component `j` of the factor vector built from `dot_blocked` -/
theorem getD_tmp (bs j : Nat) (hj : j < bs) (v w : List α) (a : Nat → α → α) :
    ((dotBlocked bs v w).zipIdx.map fun p => a p.2 p.1).getD j 0 = a j (dotL (col bs j v) (col bs j w)) := by
  simp [List.getD_eq_getElem?_getD, dotBlocked, List.getElem?_zipIdx, hj]

end

section
variable {α : Type} [Field α] [DecidableEq α]

/-- what a successful `dot_blocked` + scaling + `axpy_blocked` call computes, per component -/
theorem dotAxpyB_spec (f : MeanBF α) (v w x res : List α) (a : Nat → α → α) (h : f.dotAxpy v w x a = some res)
    (j : Nat) (hj : j < f.bs) :
    v.length = x.length ∧
    col f.bs j res = axpyL (col f.bs j v) (col f.bs j x) (a j (dotL (col f.bs j v) (col f.bs j w))) := by
  unfold MeanBF.dotAxpy at h
  split at h
  · simp at h
  · split at h
    · simp at h
    · split at h
      · simp at h
      · rename_i h1 h2 h3
        have hl : v.length = x.length := by simpa using h3
        simp only [Option.some.injEq] at h
        rw [← h, col_axpyBlocked f.bs j hj v x _ hl, getD_tmp f.bs j hj]
        exact ⟨hl, rfl⟩

end

end FeatModel.LA.Filter
