import FeatModel.Lemmas.C06Mean
/-! helper lemmas for the C06 theorems about `MeanFilterBlocked`: `axpy_blocked` / `dot_blocked` seen per block
component (`col bs j` = the scalar vector of component `j`) -/
namespace FeatModel.LA.Filter

section
variable {α : Type} [CommSemiring α]

theorem length_axpyBlocked (bs : Nat) (v x a : List α) (hl : v.length = x.length) :
    (axpyBlocked bs v x a).length = v.length := by
  simp [axpyBlocked, hl]

theorem getD_axpyBlocked (bs : Nat) (v x a : List α) (p : Nat) (hp : p < v.length) (hl : v.length = x.length) :
    (axpyBlocked bs v x a).getD p 0 = v.getD p 0 + a.getD (p % bs) 0 * x.getD p 0 := by
  have hx : p < x.length := by omega
  simp only [List.getD_eq_getElem?_getD, axpyBlocked, List.getElem?_map, List.getElem?_zipIdx, List.getElem?_zipWith,
    List.getElem?_eq_getElem hp, List.getElem?_eq_getElem hx, Option.map_some, Option.getD_some, Nat.zero_add]

theorem pos_lt_of_col (bs j i len : Nat) (hj : j < bs) (hi : i < len / bs) : i * bs + j < len := by
  have h1 := Nat.mul_le_mul_right bs (Nat.succ_le_of_lt hi)
  rw [Nat.succ_mul] at h1
  have h2 := Nat.div_mul_le_self len bs
  omega

theorem length_col (bs j : Nat) (x : List α) : (col bs j x).length = x.length / bs := by
  simp [col]

/-- component `j` of `v + a ⊙ x` (blocked axpy) is the scalar axpy of the components with factor `a_j` -/
theorem col_axpyBlocked (bs j : Nat) (hj : j < bs) (v x a : List α) (hl : v.length = x.length) :
    col bs j (axpyBlocked bs v x a) = axpyL (col bs j v) (col bs j x) (a.getD j 0) := by
  unfold col axpyL
  rw [length_axpyBlocked bs v x a hl, ← hl, List.zipWith_map, List.zipWith_self]
  apply List.map_congr_left
  intro i hi
  rw [List.mem_range] at hi
  rw [getD_axpyBlocked bs v x a _ (pos_lt_of_col bs j i v.length hj hi) hl]
  have : (i * bs + j) % bs = j := by
    rw [Nat.mul_comm, Nat.mul_add_mod, Nat.mod_eq_of_lt hj]
  rw [this]

/-- component `j` of the factor vector built from `dot_blocked` -/
theorem getD_tmp (bs j : Nat) (hj : j < bs) (v w : List α) (a : Nat → α → α) :
    ((dotBlocked bs v w).zipIdx.map fun p => a p.2 p.1).getD j 0 = a j (dotL (col bs j v) (col bs j w)) := by
  simp [List.getD_eq_getElem?_getD, dotBlocked, List.getElem?_zipIdx, hj]

end

section
variable {α : Type} [Field α] [DecidableEq α]

/-- what a successful `dot_blocked` + scaling + `axpy_blocked` call computes, per component -/
theorem dotAxpyB_spec (f : MeanBF α) (v w x res : List α) (a : Nat → α → α) (h : f.dotAxpy v w x a = some res)
    (j : Nat) (hj : j < f.bs) :
    v.length = x.length ∧
    col f.bs j res = axpyL (col f.bs j v) (col f.bs j x) (a j (dotL (col f.bs j v) (col f.bs j w))) := by
  unfold MeanBF.dotAxpy at h
  split at h
  · simp at h
  · split at h
    · simp at h
    · split at h
      · simp at h
      · rename_i h1 h2 h3
        have hl : v.length = x.length := by simpa using h3
        simp only [Option.some.injEq] at h
        rw [← h, col_axpyBlocked f.bs j hj v x _ hl, getD_tmp f.bs j hj]
        exact ⟨hl, rfl⟩

/-- everything a successful call tells -/
theorem dotAxpyB_some (f : MeanBF α) (v w x res : List α) (a : Nat → α → α) (h : f.dotAxpy v w x a = some res) :
    v.length = w.length ∧ v.length = x.length ∧ f.vol.any (fun c => c = 0) = false ∧
    res = axpyBlocked f.bs v x ((dotBlocked f.bs v w).zipIdx.map fun p => a p.2 p.1) := by
  unfold MeanBF.dotAxpy at h
  split at h
  · simp at h
  · split at h
    · simp at h
    · split at h
      · simp at h
      · rename_i h1 h2 h3
        simp only [Option.some.injEq] at h
        exact ⟨by simpa using h1, by simpa using h3, Bool.eq_false_iff.mpr h2, h.symm⟩

/-- if every component's factor vanishes the call returns its argument unchanged -/
theorem dotAxpyB_fixed (f : MeanBF α) (v w x : List α) (a : Nat → α → α) (h1 : v.length = w.length)
    (h2 : f.vol.any (fun c => c = 0) = false) (h3 : v.length = x.length)
    (hz : ∀ j, j < f.bs → a j (dotL (col f.bs j v) (col f.bs j w)) = 0) :
    f.dotAxpy v w x a = some v := by
  unfold MeanBF.dotAxpy
  have e1 : (v.length != w.length) = false := by simp [h1]
  have e3 : (v.length != x.length) = false := by simp [h3]
  simp only [e1, h2, e3, Bool.false_eq_true, if_false, Option.some.injEq]
  apply List.ext_getElem (length_axpyBlocked f.bs v x _ h3)
  intro p hp1 hp2
  have hg : ∀ (l : List α) (h : p < l.length), l[p] = l.getD p 0 := by
    intro l h; simp [List.getD_eq_getElem?_getD, h]
  rw [hg _ hp1, hg _ hp2, getD_axpyBlocked f.bs v x _ p hp2 h3]
  have : ((dotBlocked f.bs v w).zipIdx.map fun q => a q.2 q.1).getD (p % f.bs) 0 = 0 := by
    by_cases hb : f.bs = 0
    · simp [hb, dotBlocked]
    · have hlt : p % f.bs < f.bs := Nat.mod_lt _ (Nat.pos_of_ne_zero hb)
      rw [getD_tmp f.bs _ hlt, hz _ hlt]
  rw [this]
  ring

/-- the scalar mean filter of block component `j` -/
def MeanBF.component (f : MeanBF α) (j : Nat) : MeanF α :=
  { prim := col f.bs j f.prim, dual := col f.bs j f.dual, vol := f.vol.getD j 0, sol := f.sol.getD j 0 }

theorem col_nil (bs j : Nat) : col bs j ([] : List α) = [] := by simp [col]

/-- the scalar `dot` + `axpy` on one component, from the facts of the blocked call -/
theorem scalar_dotAxpy_of (cv cw cx : List α) (a : α → α) (h1 : cv.length = cw.length) (h2 : cv.length = cx.length) :
    MeanF.dotAxpy cv cw cx a = some (axpyL cv cx (a (dotL cv cw))) := by
  unfold MeanF.dotAxpy
  have e1 : (cv.length != cw.length) = false := by simp [h1]
  have e2 : (cv.length != cx.length) = false := by simp [h2]
  simp only [e1, e2, Bool.false_eq_true, if_false]

theorem scalar_dotAxpy_some (cv cw cx r : List α) (a : α → α) (h : MeanF.dotAxpy cv cw cx a = some r) :
    cv.length = cw.length ∧ cv.length = cx.length ∧ r = axpyL cv cx (a (dotL cv cw)) := by
  unfold MeanF.dotAxpy at h
  split at h
  · simp at h
  · split at h
    · simp at h
    · rename_i h1 h2
      simp only [Option.some.injEq] at h
      exact ⟨by simpa using h1, by simpa using h2, h.symm⟩

theorem scalar_dotAxpy_fixed (cv cw cx : List α) (a : α → α) (h1 : cv.length = cw.length) (h2 : cv.length = cx.length)
    (hz : a (dotL cv cw) = 0) : MeanF.dotAxpy cv cw cx a = some cv := by
  rw [scalar_dotAxpy_of cv cw cx a h1 h2, hz, axpyL_zero cv cx h2]

end

end FeatModel.LA.Filter
