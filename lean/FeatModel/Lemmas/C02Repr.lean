import Mathlib.Algebra.Order.Field.Rat
import Mathlib.Data.Rat.Lemmas
import Mathlib.Tactic.Linarith
import Mathlib.Tactic.Ring
import Mathlib.Tactic.FieldSimp
import Mathlib.Tactic.Positivity
import Mathlib.Tactic.NormNum
import Mathlib.Data.Nat.Prime.Basic
import FeatModel.Model.LA.Rebuild
import FeatModel.Lemmas.C02Round
/-!
C02: representability (`reprBits p`, decidable) characterises exactly the fixed points of the narrowing conversions
`truncBits p` / `rneBits p`, the results of the conversions always are representable, and widening followed by
narrowing is the identity (`float -> double -> float`, `u32 -> u64 -> u32`).
-/
open FeatModel FeatModel.LA
namespace C02L
namespace ReprAux

/-! ### `oddPart` -/

theorem oddPart_zero : oddPart 0 = 0 := by rw [oddPart]; simp

theorem oddPart_even (n : Nat) (hn : n ≠ 0) (h : n % 2 = 0) : oddPart n = oddPart (n / 2) := by
  rw [oddPart]; simp [hn, h]

theorem oddPart_odd (n : Nat) (h : n % 2 = 1) : oddPart n = n := by
  have hn : n ≠ 0 := by omega
  rw [oddPart]; simp [hn, h]

theorem oddPart_one : oddPart 1 = 1 := oddPart_odd 1 rfl

theorem oddPart_mul_two (m : Nat) : oddPart (m * 2) = oddPart m := by
  by_cases hm : m = 0
  · subst hm; rfl
  · rw [oddPart_even (m * 2) (by omega) (by omega)]
    congr 1; omega

theorem oddPart_mul_pow (m t : Nat) : oddPart (m * 2 ^ t) = oddPart m := by
  induction t with
  | zero => simp
  | succ t ih => rw [Nat.pow_succ, ← Nat.mul_assoc, oddPart_mul_two, ih]

theorem oddPart_pow (t : Nat) : oddPart (2 ^ t) = 1 := by
  have := oddPart_mul_pow 1 t
  rw [Nat.one_mul] at this
  rw [this, oddPart_one]

end ReprAux
open ReprAux

theorem oddPart_spec (n : Nat) (hn : n ≠ 0) : ∃ t, n = oddPart n * 2 ^ t ∧ oddPart n % 2 = 1 := by
  induction n using Nat.strong_induction_on with
  | _ n ih =>
    by_cases h : n % 2 = 0
    · have h2 : n / 2 ≠ 0 := by omega
      obtain ⟨t, ht, ho⟩ := ih (n / 2) (by omega) h2
      refine ⟨t + 1, ?_, ?_⟩
      · rw [oddPart_even n hn h, Nat.pow_succ, ← Nat.mul_assoc, ← ht]; omega
      · rw [oddPart_even n hn h]; exact ho
    · have h1 : n % 2 = 1 := by omega
      exact ⟨0, by rw [oddPart_odd n h1]; simp, by rw [oddPart_odd n h1]; exact h1⟩

namespace ReprAux

theorem oddPart_le (n : Nat) : oddPart n ≤ n := by
  by_cases hn : n = 0
  · subst hn; rw [oddPart_zero]
  · obtain ⟨t, ht, -⟩ := oddPart_spec n hn
    calc oddPart n = oddPart n * 1 := (Nat.mul_one _).symm
      _ ≤ oddPart n * 2 ^ t := Nat.mul_le_mul_left _ (Nat.pow_pos (by decide))
      _ = n := ht.symm

/-- the odd part is the least `m` with `n = m * 2^t` -/
theorem oddPart_le_of_eq (n m t : Nat) (h : n = m * 2 ^ t) : oddPart n ≤ m := by
  rw [h, oddPart_mul_pow]; exact oddPart_le m

/-- `oddPart n < 2^p` in existential form -/
theorem oddPart_lt_iff (p n : Nat) : oddPart n < 2 ^ p ↔ ∃ m t, n = m * 2 ^ t ∧ m < 2 ^ p := by
  constructor
  · intro h
    by_cases hn : n = 0
    · exact ⟨0, 0, by simp [hn], Nat.pow_pos (by decide)⟩
    · obtain ⟨t, ht, -⟩ := oddPart_spec n hn
      exact ⟨oddPart n, t, ht, h⟩
  · rintro ⟨m, t, hmt, hm⟩
    exact Nat.lt_of_le_of_lt (oddPart_le_of_eq n m t hmt) hm

end ReprAux

theorem isPow2_iff (d : Nat) : isPow2 d = true ↔ ∃ j, d = 2 ^ j := by
  unfold isPow2
  rw [beq_iff_eq]
  constructor
  · intro h
    have hd : d ≠ 0 := by
      intro h0; rw [h0, oddPart_zero] at h; exact absurd h (by decide)
    obtain ⟨t, ht, -⟩ := oddPart_spec d hd
    rw [h, Nat.one_mul] at ht
    exact ⟨t, ht⟩
  · rintro ⟨j, rfl⟩
    exact oddPart_pow j

theorem reprBits_iff (p : Nat) (x : Rat) :
    reprBits p x = true ↔ (∃ j, x.den = 2 ^ j) ∧ ∃ m t, x.num.natAbs = m * 2 ^ t ∧ m < 2 ^ p := by
  unfold reprBits
  rw [Bool.and_eq_true, isPow2_iff, decide_eq_true_iff, oddPart_lt_iff]

namespace ReprAux

/-! ### correctness of `floorLog2` (upper bound): `n / d < 2^(e+1)` for arbitrary `n, d > 0` -/

theorem floorLog2_ub (n d : Nat) (hd : d ≠ 0) :
    (n : ℚ) < (d : ℚ) * (2 : ℚ) ^ (floorLog2 n d + 1) := by
  have h2 : (2 : ℚ) ≠ 0 := by norm_num
  have hn1 : (n : ℚ) < 2 ^ (Nat.log2 n + 1) := by exact_mod_cast (Nat.lt_log2_self (n := n))
  have hd1 : (2 : ℚ) ^ Nat.log2 d ≤ (d : ℚ) := by exact_mod_cast (Nat.log2_self_le hd)
  have hgen : (n : ℚ) < (d : ℚ) * (2 : ℚ) ^ (((Nat.log2 n : Int) - (Nat.log2 d : Int)) + 1) := by
    have e1 : (2 : ℚ) ^ (Nat.log2 n + 1) =
        (2 : ℚ) ^ Nat.log2 d * (2 : ℚ) ^ (((Nat.log2 n : Int) - (Nat.log2 d : Int)) + 1) := by
      rw [← zpow_natCast, ← zpow_natCast, ← zpow_add₀ h2]
      congr 1; push_cast; ring
    rw [e1] at hn1
    have hpos : (0 : ℚ) < (2 : ℚ) ^ (((Nat.log2 n : Int) - (Nat.log2 d : Int)) + 1) :=
      zpow_pos (by norm_num) _
    exact lt_of_lt_of_le hn1 (mul_le_mul_of_nonneg_right hd1 hpos.le)
  unfold floorLog2
  simp only
  generalize ((Nat.log2 n : Int) - (Nat.log2 d : Int)) = l at hgen
  by_cases hl : l ≥ 0
  · obtain ⟨k, hk⟩ : ∃ k : Nat, l.toNat = k := ⟨_, rfl⟩
    have hlk : l = (k : Int) := by omega
    simp only [hl, if_true, hk]
    by_cases hok : d * 2 ^ k ≤ n
    · simp only [hok, decide_true, if_true]; exact hgen
    · simp only [hok, decide_false, Bool.false_eq_true, if_false]
      have : n < d * 2 ^ k := Nat.lt_of_not_le hok
      have hq : (n : ℚ) < (d : ℚ) * 2 ^ k := by exact_mod_cast this
      rw [hlk, sub_add_cancel, zpow_natCast]; exact hq
  · obtain ⟨k, hk⟩ : ∃ k : Nat, (-l).toNat = k := ⟨_, rfl⟩
    have hlk : l = -(k : Int) := by omega
    simp only [hl, if_false, hk]
    by_cases hok : d ≤ n * 2 ^ k
    · simp only [hok, decide_true, if_true]; exact hgen
    · simp only [hok, decide_false, Bool.false_eq_true, if_false]
      have : n * 2 ^ k < d := Nat.lt_of_not_le hok
      have hq : (n : ℚ) * 2 ^ k < (d : ℚ) := by exact_mod_cast this
      rw [hlk, sub_add_cancel, zpow_neg, zpow_natCast]
      have hpos : (0 : ℚ) < 2 ^ k := by positivity
      rw [← div_eq_mul_inv, lt_div_iff₀ hpos]; exact hq

/-- lower bound: `2^e ≤ n / d` (together with `floorLog2_ub`: `e = ⌊log₂ (n/d)⌋` for arbitrary `n, d > 0`) -/
theorem floorLog2_lb (n d : Nat) (hn : n ≠ 0) :
    (d : ℚ) * (2 : ℚ) ^ (floorLog2 n d) ≤ (n : ℚ) := by
  have h2 : (2 : ℚ) ≠ 0 := by norm_num
  have hn1 : (2 : ℚ) ^ Nat.log2 n ≤ (n : ℚ) := by exact_mod_cast (Nat.log2_self_le hn)
  have hd1 : (d : ℚ) < 2 ^ (Nat.log2 d + 1) := by exact_mod_cast (Nat.lt_log2_self (n := d))
  have hgen : (d : ℚ) * (2 : ℚ) ^ (((Nat.log2 n : Int) - (Nat.log2 d : Int)) - 1) ≤ (n : ℚ) := by
    have e1 : (2 : ℚ) ^ Nat.log2 n =
        (2 : ℚ) ^ (Nat.log2 d + 1) * (2 : ℚ) ^ (((Nat.log2 n : Int) - (Nat.log2 d : Int)) - 1) := by
      rw [← zpow_natCast, ← zpow_natCast, ← zpow_add₀ h2]
      congr 1; push_cast; ring
    rw [e1] at hn1
    have hpos : (0 : ℚ) < (2 : ℚ) ^ (((Nat.log2 n : Int) - (Nat.log2 d : Int)) - 1) :=
      zpow_pos (by norm_num) _
    exact le_trans (mul_le_mul_of_nonneg_right hd1.le hpos.le) hn1
  unfold floorLog2
  simp only
  generalize ((Nat.log2 n : Int) - (Nat.log2 d : Int)) = l at hgen
  by_cases hl : l ≥ 0
  · obtain ⟨k, hk⟩ : ∃ k : Nat, l.toNat = k := ⟨_, rfl⟩
    have hlk : l = (k : Int) := by omega
    simp only [hl, if_true, hk]
    by_cases hok : d * 2 ^ k ≤ n
    · simp only [hok, decide_true, if_true]
      have hq : (d : ℚ) * 2 ^ k ≤ (n : ℚ) := by exact_mod_cast hok
      rw [hlk, zpow_natCast]; exact hq
    · simp only [hok, decide_false, Bool.false_eq_true, if_false]; exact hgen
  · obtain ⟨k, hk⟩ : ∃ k : Nat, (-l).toNat = k := ⟨_, rfl⟩
    have hlk : l = -(k : Int) := by omega
    simp only [hl, if_false, hk]
    by_cases hok : d ≤ n * 2 ^ k
    · simp only [hok, decide_true, if_true]
      have hq : (d : ℚ) ≤ (n : ℚ) * 2 ^ k := by exact_mod_cast hok
      rw [hlk, zpow_neg, zpow_natCast]
      have hpos : (0 : ℚ) < 2 ^ k := by positivity
      rw [← div_eq_mul_inv, div_le_iff₀ hpos]; exact hq
    · simp only [hok, decide_false, Bool.false_eq_true, if_false]; exact hgen

/-- the truncated significand has at most `p` bits -/
theorem sigParts_lt (p n d : Nat) (hd : d ≠ 0) : (sigParts p n d).1 < 2 ^ p := by
  have h2 : (2 : ℚ) ≠ 0 := by norm_num
  have hub := floorLog2_ub n d hd
  have hdq : (0 : ℚ) < (d : ℚ) := by exact_mod_cast Nat.pos_of_ne_zero hd
  unfold sigParts
  simp only
  generalize floorLog2 n d = e at hub
  by_cases hs : (p : Int) - 1 - e ≥ 0
  · obtain ⟨k, hk⟩ : ∃ k : Nat, ((p : Int) - 1 - e).toNat = k := ⟨_, rfl⟩
    have hek : e + 1 = (p : Int) - (k : Int) := by omega
    simp only [hs, if_true, hk]
    rw [Nat.div_lt_iff_lt_mul (Nat.pos_of_ne_zero hd)]
    have hpos : (0 : ℚ) < 2 ^ k := by positivity
    have : (n : ℚ) * 2 ^ k < 2 ^ p * (d : ℚ) := by
      have h1 := mul_lt_mul_of_pos_right hub hpos
      have e1 : (d : ℚ) * (2 : ℚ) ^ (e + 1) * 2 ^ k = 2 ^ p * (d : ℚ) := by
        rw [hek, mul_assoc, ← zpow_natCast (2 : ℚ) k, ← zpow_add₀ h2, sub_add_cancel, zpow_natCast, mul_comm]
      rw [e1] at h1; exact h1
    exact_mod_cast this
  · obtain ⟨k, hk⟩ : ∃ k : Nat, (-((p : Int) - 1 - e)).toNat = k := ⟨_, rfl⟩
    have hek : e + 1 = (p : Int) + (k : Int) := by omega
    simp only [hs, if_false, hk]
    rw [Nat.div_lt_iff_lt_mul (Nat.mul_pos (Nat.pos_of_ne_zero hd) (Nat.pow_pos (by decide)))]
    have : (n : ℚ) < 2 ^ p * ((d : ℚ) * 2 ^ k) := by
      have e1 : (d : ℚ) * (2 : ℚ) ^ (e + 1) = 2 ^ p * ((d : ℚ) * 2 ^ k) := by
        rw [hek, zpow_add₀ h2, zpow_natCast, zpow_natCast]; ring
      rw [e1] at hub; exact hub
    exact_mod_cast this

/-! ### `scaleRat m s` is representable as soon as the odd part of `m` fits -/

theorem reprBits_zero (p : Nat) : reprBits p 0 = true := by
  rw [reprBits_iff]
  exact ⟨⟨0, rfl⟩, 0, 0, by simp, Nat.pow_pos (by decide)⟩

theorem reprBits_neg (p : Nat) (x : Rat) : reprBits p (-x) = reprBits p x := by
  unfold reprBits
  rw [Rat.den_neg_eq_den, Rat.num_neg_eq_neg_num, Int.natAbs_neg]

theorem scaleRat_repr (p m : Nat) (s : Int) (hm : oddPart m < 2 ^ p) : reprBits p (scaleRat m s) = true := by
  unfold scaleRat
  by_cases hs : s ≥ 0
  · obtain ⟨k, hk⟩ : ∃ k : Nat, s.toNat = k := ⟨_, rfl⟩
    simp only [hs, if_true, hk]
    have hne : (2 : Nat) ^ k ≠ 0 := Nat.ne_of_gt (Nat.pow_pos (by decide))
    unfold reprBits
    rw [Rat.den_mkRat, Rat.num_mkRat, if_neg hne, if_neg hne]
    obtain ⟨i, hi, hg⟩ := (Nat.dvd_prime_pow Nat.prime_two).1 (Nat.gcd_dvd_left (2 ^ k) (m : Int).natAbs)
    have hdvd : 2 ^ i ∣ m := by
      have := Nat.gcd_dvd_right (2 ^ k) (m : Int).natAbs
      rw [hg, Int.natAbs_natCast] at this; exact this
    rw [hg, Nat.pow_div hi (by decide), ← Int.natCast_ediv, Int.natAbs_natCast]
    have hm' : oddPart (m / 2 ^ i) = oddPart m := by
      conv_rhs => rw [← Nat.div_mul_cancel hdvd]
      rw [oddPart_mul_pow]
    rw [hm']
    simp [isPow2, oddPart_pow, hm]
  · obtain ⟨k, hk⟩ : ∃ k : Nat, (-s).toNat = k := ⟨_, rfl⟩
    simp only [hs, if_false, hk]
    unfold reprBits
    rw [Rat.den_natCast, Rat.num_natCast, Int.natAbs_natCast, oddPart_mul_pow]
    simp [isPow2, oddPart_one, hm]

/-- `m ≤ 2^p` (and `p > 0`) suffices: `2^p = 1 · 2^p` -/
theorem oddPart_lt_of_le (p m : Nat) (hp : 0 < p) (h : m ≤ 2 ^ p) : oddPart m < 2 ^ p := by
  rcases Nat.lt_or_eq_of_le h with h | h
  · exact Nat.lt_of_le_of_lt (oddPart_le m) h
  · rw [h, oddPart_pow]; exact Nat.one_lt_two_pow (by omega)

end ReprAux

/-! ### 1. the result of a narrowing conversion is representable; fixed points = representable values -/

theorem truncBits_repr (p : Nat) (hp : 0 < p) (x : Rat) : reprBits p (truncBits p x) = true := by
  unfold truncBits
  by_cases hx : x = 0
  · rw [if_pos hx]; exact reprBits_zero p
  · rw [if_neg hx]
    have hv : reprBits p (scaleRat (sigParts p x.num.natAbs x.den).1 (sigParts p x.num.natAbs x.den).2.1) = true :=
      scaleRat_repr p _ _ (oddPart_lt_of_le p _ hp (Nat.le_of_lt (sigParts_lt p _ _ x.den_nz)))
    simp only
    split
    · rw [reprBits_neg]; exact hv
    · exact hv

theorem rneBits_repr (p : Nat) (hp : 0 < p) (x : Rat) : reprBits p (rneBits p x) = true := by
  unfold rneBits
  by_cases hx : x = 0
  · rw [if_pos hx]; exact reprBits_zero p
  · rw [if_neg hx]
    have hlt := sigParts_lt p x.num.natAbs x.den x.den_nz
    have hv : ∀ b : Bool, reprBits p (scaleRat (if b = true then (sigParts p x.num.natAbs x.den).1 + 1
        else (sigParts p x.num.natAbs x.den).1) (sigParts p x.num.natAbs x.den).2.1) = true := by
      intro b
      apply scaleRat_repr
      apply oddPart_lt_of_le p _ hp
      split <;> omega
    simp only
    split
    · rw [reprBits_neg]; exact hv _
    · exact hv _

theorem rneBits_eq_iff (p : Nat) (hp : 0 < p) (x : Rat) : rneBits p x = x ↔ reprBits p x = true := by
  constructor
  · intro h; rw [← h]; exact rneBits_repr p hp x
  · intro h; rw [reprBits_iff] at h; exact rneBits_fix' p x h.1 h.2

theorem truncBits_eq_iff (p : Nat) (hp : 0 < p) (x : Rat) : truncBits p x = x ↔ reprBits p x = true := by
  constructor
  · intro h; rw [← h]; exact truncBits_repr p hp x
  · intro h; rw [reprBits_iff] at h; exact truncBits_fix' p x h.1 h.2

/-! ### 2. widening and back -/

theorem reprBits_mono (p q : Nat) (hpq : p ≤ q) (x : Rat) (h : reprBits p x = true) : reprBits q x = true := by
  rw [reprBits_iff] at h ⊢
  obtain ⟨hd, m, t, hmt, hm⟩ := h
  exact ⟨hd, m, t, hmt, Nat.lt_of_lt_of_le hm (Nat.pow_le_pow_right (by decide) hpq)⟩

/-- float -> double -> float -/
theorem widen_back_id (x : Rat) (h : reprBits 24 x = true) : rneBits 24 (truncBits 53 x) = x := by
  rw [(truncBits_eq_iff 53 (by decide) x).2 (reprBits_mono 24 53 (by decide) x h)]
  exact (rneBits_eq_iff 24 (by decide) x).2 h

theorem roundDt_repr (x : Rat) : reprBits 24 (roundDt x) = true := rneBits_repr 24 (by decide) _

/-- Q -> float -> double -> float -/
theorem roundDt_idem (x : Rat) : roundDt (roundDt x) = roundDt x :=
  widen_back_id (roundDt x) (roundDt_repr x)

theorem roundDt_eq_iff (x : Rat) : roundDt x = x ↔ reprBits 24 x = true := by
  constructor
  · intro h; rw [← h]; exact roundDt_repr x
  · exact widen_back_id x

/-! ### 3. index types -/

theorem narrow32_eq_iff (a : Array Nat) : narrow32 a = a ↔ fits32 a = true := by
  unfold narrow32 fits32
  rw [Array.all_eq_true]
  constructor
  · intro h i hi
    have := congrArg (fun b => b[i]?) h
    simp only [Array.getElem?_map, Array.getElem?_eq_getElem hi, Option.map_some, Option.some.injEq] at this
    rw [decide_eq_true_iff]
    exact this ▸ Nat.mod_lt _ (by decide)
  · intro h
    apply Array.ext (by simp)
    intro i h1 h2
    have := h i h2
    rw [decide_eq_true_iff] at this
    simp [Nat.mod_eq_of_lt this]

/-- u64 -> u32 always lands in range -/
theorem narrow32_fits (a : Array Nat) : fits32 (narrow32 a) = true := by
  unfold narrow32 fits32
  rw [Array.all_eq_true]
  intro i hi
  rw [decide_eq_true_iff, Array.getElem_map]
  exact Nat.mod_lt _ (by decide)

/-- u32 -> u64 -> u32 -/
theorem widen_back_id32 (a : Array Nat) (h : fits32 a = true) : narrow32 a = a := (narrow32_eq_iff a).2 h

theorem narrow32_idem (a : Array Nat) : narrow32 (narrow32 a) = narrow32 a :=
  widen_back_id32 _ (narrow32_fits a)

/-! ### sanity (kernel evaluation of the decidable predicate): the hypotheses are not vacuous -/
theorem reprBits_probe_third : reprBits 24 (1 / 3) = false := by decide +kernel
theorem reprBits_probe_2p24p1 : reprBits 24 16777217 = false ∧ reprBits 53 16777217 = true := by decide +kernel
theorem reprBits_probe_dyadic : reprBits 24 (-16777215 / 1024) = true ∧ reprBits 24 (3 * 2 ^ 100) = true := by
  decide +kernel

end C02L
