/-
C18 helper lemmas, part 13: `T · P = 1` at matrix level from decidable certificates (`consB`, `intB`, `mapsB`), the
certificates `nestedB`/`mapsB` discharge the hypotheses of `prolongation_exact`, and the identities survive a
conjugation by dof permutations.
-/
import FeatModel.Lemmas.C18_trunc
import FeatModel.Lemmas.C18_permT
import Mathlib.Data.Finset.Card
open FeatModel.GT Finset

namespace C18L

theorem mapsB_spec {d : Dump} (h : mapsB d = true) :
    (∀ cell ∈ d.cells, ∀ j, j < cell.cmap.length → cell.cmap.getD j 0 < d.nc) ∧
    (∀ cell ∈ d.cells, ∀ ch ∈ cell.children, ∀ k, k < ch.fmap.length → ch.fmap.getD k 0 < d.nf) := by
  unfold mapsB at h
  simp only [List.all_eq_true, Bool.and_eq_true, decide_eq_true_eq] at h
  constructor
  · intro cell hc j hj
    have := (h cell hc).1 (cell.cmap.getD j 0)
      (by rw [List.getD_eq_getElem?_getD, List.getElem?_eq_getElem hj]; simp)
    exact this
  · intro cell hc ch hch k hk
    have := (h cell hc).2 ch hch (ch.fmap.getD k 0)
      (by rw [List.getD_eq_getElem?_getD, List.getElem?_eq_getElem hk]; simp)
    exact this

/-- **T · P = 1 (matrix level)**: the mass-weighted truncation is a left inverse of every matrix `pd` whose rows are
the local embedding rows (`consB`), provided the refined rule integrates the coarse mass matrix like the unrefined
one (`intB`) — for arbitrary (non-congruent) cells, dof-mappings and element families -/
theorem trunc_prol_identity (d : Dump) (tl : List (List Nat × List (List Nat × Mat))) (td pd : Mat)
    (htl : localTruncs d = .ok tl)
    (htd : scaleRows d.nf (truncRaw d tl) (truncWeights d tl) = some td)
    (hcons : consB d pd = true) (hint : intB d = true) (hmaps : mapsB d = true) :
    ∀ r s, r < d.nc → s < d.nc →
      sumTo d.nf (fun k => FeatModel.GT.get td r k * FeatModel.GT.get pd k s) = if r = s then 1 else 0 := by
  intro r s hr hs
  obtain ⟨_, hfmap⟩ := mapsB_spec hmaps
  have key := truncation_exact d tl td (vtab d.nf fun k => FeatModel.GT.get pd k s) (fun j => if j = s then 1 else 0)
    (fun cell ch => FeatModel.GT.get (Eof cell ch)) htl htd hfmap ?_ ?_ r hr
  · unfold matVec at key
    rw [getD_vtab _ hr] at key
    rw [← key, sumTo_eq, sumTo_eq]
    apply Finset.sum_congr rfl
    intro k hk
    rw [getD_vtab _ (Finset.mem_range.1 hk)]
  · intro cell hcell ch hch k hk
    unfold consB at hcons
    simp only [List.all_eq_true, List.mem_range, beq_iff_eq] at hcons
    rw [getD_vtab _ (hfmap cell hcell ch hch k hk), hcons cell hcell ch hch k hk s hs, sumTo_eq]
  · intro cell hcell l j hl hj
    unfold intB at hint
    simp only [List.all_eq_true, List.mem_range, beq_iff_eq] at hint
    have := hint cell hcell l hl j hj
    rw [lsum_eq, List.map_map] at this
    rw [← this]
    congr 1
    apply List.map_congr_left
    intro ch _
    simp only [Function.comp]
    unfold matMul
    rw [get_tab _ hl hj, sumTo_eq]

/-- the decidable certificates discharge the hypotheses of `prolongation_exact` with `E := Eof` -/
theorem prolongation_exact_cert (d : Dump) (locs : List (List Nat × List Nat × Mat)) (pd : Mat) (xc : List Rat)
    (vf : Nat → Rat) (hlocs : localProls d = .ok locs) (hpd : prolDirect d locs = some pd)
    (hnest : nestedB d = true) (hmaps : mapsB d = true)
    (hsame : ∀ cell ∈ d.cells, ∀ ch ∈ cell.children, ∀ i, i < ch.fmap.length →
      vf (ch.fmap.getD i 0)
        = ∑ j ∈ range cell.cmap.length, FeatModel.GT.get (Eof cell ch) i j * xc.getD (cell.cmap.getD j 0) 0) :
    ∀ r, r < d.nf → (matVec d.nf d.nc pd xc).getD r 0 = vf r := by
  apply prolongation_exact d locs pd xc vf (fun cell ch => FeatModel.GT.get (Eof cell ch)) hlocs hpd
    (mapsB_spec hmaps).1 ?_ hsame
  intro cell hcell ch hch p hp j hj
  unfold nestedB at hnest
  simp only [List.all_eq_true, List.mem_range, beq_iff_eq] at hnest
  rw [hnest cell hcell ch hch p hp j hj, sumTo_eq]

/-! ### conjugation by dof permutations -/

theorem sum_range_perm {n : Nat} {σ : Nat → Nat} (hinj : Function.Injective σ) (hlt : ∀ k, k < n → σ k < n)
    (f : Nat → Rat) : ∑ k ∈ range n, f (σ k) = ∑ k ∈ range n, f k := by
  have himg : (range n).image σ = range n := by
    apply Finset.eq_of_subset_of_card_le
    · intro x hx
      obtain ⟨k, hk, rfl⟩ := Finset.mem_image.1 hx
      exact Finset.mem_range.2 (hlt k (Finset.mem_range.1 hk))
    · rw [Finset.card_image_of_injective _ hinj]
  rw [← Finset.sum_image (s := range n) (g := σ) (f := f) (fun a _ b _ h => hinj h), himg]

/-- if `P' = Π_f P Π_cᵀ` and `T' = Π_c T Π_fᵀ` (entrywise, `σf` a permutation of the fine dofs) then `T · P = 1`
carries over to `T' · P' = 1` -/
theorem left_inverse_conj {nf nc : Nat} {σc σf : Nat → Nat} (hf : Function.Injective σf)
    (hflt : ∀ k, k < nf → σf k < nf) (T P T' P' : Nat → Nat → Rat)
    (hP : ∀ k s, k < nf → s < nc → P' (σf k) (σc s) = P k s)
    (hT : ∀ r k, r < nc → k < nf → T' (σc r) (σf k) = T r k)
    (hid : ∀ r s, r < nc → s < nc → ∑ k ∈ range nf, T r k * P k s = if r = s then 1 else 0) :
    ∀ r s, r < nc → s < nc → ∑ k ∈ range nf, T' (σc r) k * P' k (σc s) = if r = s then 1 else 0 := by
  intro r s hr hs
  rw [← sum_range_perm hf hflt (fun k => T' (σc r) k * P' k (σc s)), ← hid r s hr hs]
  apply Finset.sum_congr rfl
  intro k hk
  have hk' := Finset.mem_range.1 hk
  rw [hT r k hr hk', hP k s hk' hs]

/-- restriction between permuted meshes: `R' = Π_c R Π_fᵀ` (dense transposes of the assembled prolongations) -/
theorem perm_invariance_rest (m0 : TwoLevel) (pc pf pfinv : List Nat) {σc σf : Nat → Nat}
    (hc : Function.Injective σc) (hf : Function.Injective σf) (hok : PermOK m0 pc pf pfinv)
    {locs0 locsP : List (List Nat × List Nat × Mat)} {pd0 pdP : Mat}
    (h0 : localProls m0.toDump = .ok locs0)
    (hP : localProls (permutedPair m0 pc pf pfinv σc σf).toDump = .ok locsP)
    (hd0 : prolDirect m0.toDump locs0 = some pd0)
    (hdP : prolDirect (permutedPair m0 pc pf pfinv σc σf).toDump locsP = some pdP)
    {r s : Nat} (hr : r < m0.nf) (hs : s < m0.nc) (hr' : σf r < m0.nf) (hs' : σc s < m0.nc) :
    FeatModel.GT.get (transposeDense m0.nf m0.nc pdP) (σc s) (σf r)
      = FeatModel.GT.get (transposeDense m0.nf m0.nc pd0) s r := by
  rw [get_transposeDense pdP hs' hr', get_transposeDense pd0 hs hr]
  exact perm_invariance_matrix m0 pc pf pfinv hc hf hok h0 hP hd0 hdP hr hs hr' hs'

/-- `T · P = 1` survives arbitrary, independent permutations of the coarse and the fine mesh -/
theorem perm_TP_identity (m0 : TwoLevel) (pc pf pfinv : List Nat) {σc σf : Nat → Nat}
    (hc : Function.Injective σc) (hf : Function.Injective σf) (hok : PermOK m0 pc pf pfinv)
    (hflt : ∀ k, k < m0.nf → σf k < m0.nf) (hclt : ∀ s, s < m0.nc → σc s < m0.nc)
    {locs0 locsP : List (List Nat × List Nat × Mat)} {pd0 pdP : Mat}
    {tl0 tlP : List (List Nat × List (List Nat × Mat))} {td0 tdP : Mat}
    (h0 : localProls m0.toDump = .ok locs0)
    (hP : localProls (permutedPair m0 pc pf pfinv σc σf).toDump = .ok locsP)
    (hd0 : prolDirect m0.toDump locs0 = some pd0)
    (hdP : prolDirect (permutedPair m0 pc pf pfinv σc σf).toDump locsP = some pdP)
    (ht0 : localTruncs m0.toDump = .ok tl0)
    (htP : localTruncs (permutedPair m0 pc pf pfinv σc σf).toDump = .ok tlP)
    (htd0 : scaleRows m0.nf (truncRaw m0.toDump tl0) (truncWeights m0.toDump tl0) = some td0)
    (htdP : scaleRows m0.nf (truncRaw (permutedPair m0 pc pf pfinv σc σf).toDump tlP)
      (truncWeights (permutedPair m0 pc pf pfinv σc σf).toDump tlP) = some tdP)
    (hid : ∀ r s, r < m0.nc → s < m0.nc →
      sumTo m0.nf (fun k => FeatModel.GT.get td0 r k * FeatModel.GT.get pd0 k s) = if r = s then 1 else 0) :
    ∀ r s, r < m0.nc → s < m0.nc →
      sumTo m0.nf (fun k => FeatModel.GT.get tdP (σc r) k * FeatModel.GT.get pdP k (σc s)) = if r = s then 1 else 0 := by
  intro r s hr hs
  rw [sumTo_eq]
  refine left_inverse_conj hf hflt (FeatModel.GT.get td0) (FeatModel.GT.get pd0) (FeatModel.GT.get tdP)
    (FeatModel.GT.get pdP) ?_ ?_ ?_ r s hr hs
  · intro k s' hk hs'
    exact perm_invariance_matrix m0 pc pf pfinv hc hf hok h0 hP hd0 hdP hk hs' (hflt k hk) (hclt s' hs')
  · intro r' k hr' hk
    exact perm_invariance_trunc m0 pc pf pfinv hc hf hok ht0 htP htd0 htdP hr' hk (hclt r' hr') (hflt k hk)
  · intro r' s' hr' hs'
    rw [← sumTo_eq]
    exact hid r' s' hr' hs'

end C18L
