import FeatModel.Model.FEDual
/-! kernel-checked duality on the reference triangle, all 8 edge orientations -/
namespace FeatModel.FE
set_option maxRecDepth 100000 in
theorem dualS2 : dualKeysS2.all (fun key => dualAll key.1 key.2.1 key.2.2) = true := by decide +kernel
end FeatModel.FE
