/-
C13, composite vectors: folds of composite scatters seen on the flattened vector, and the Muxer
(`muxJoin` / `muxSplit`): blocks of `B` entries per child, padding never read.
-/
import FeatModel.Lemmas.C13Comp
import FeatModel.Lemmas.C13Freqs
open FeatModel.Dist

set_option linter.unusedSectionVars false

namespace FeatModel.C13L

variable {α : Type} [Field α]

/-! ### folds of shape-preserving steps -/

theorem foldl_flat {ι : Type} (cs : List ι) (step : ι → CVec α → CVec α) (fstep : ι → List α → List α)
    (t0 : CVec α)
    (h : ∀ c ∈ cs, ∀ t : CVec α, t.sameShape t0 → (step c t).sameShape t0 ∧ (step c t).flat = fstep c t.flat)
    (t : CVec α) (ht : t.sameShape t0) :
    (cs.foldl (fun t c => step c t) t).sameShape t0
      ∧ (cs.foldl (fun t c => step c t) t).flat = cs.foldl (fun l c => fstep c l) t.flat := by
  induction cs generalizing t with
  | nil => exact ⟨ht, rfl⟩
  | cons c cs ih =>
    obtain ⟨h1, h2⟩ := h c (by simp) t ht
    have := ih (fun c' hc' => h c' (by simp [hc'])) (step c t) h1
    rw [List.foldl_cons, List.foldl_cons, ← h2]
    exact this

/-! ### blocks of `B` entries -/

/-- a child buffer: the gathered segment padded with zeros to `B` entries -/
def block (B : Nat) (seg : List α) : List α := seg ++ List.replicate (B - seg.length) 0

theorem block_length (B : Nat) (seg : List α) (h : seg.length ≤ B) : (block B seg).length = B := by
  simp [block]; omega

theorem writeAt_replicate_zero (B : Nat) (seg : List α) : writeAt (List.replicate B 0) 0 seg = block B seg := by
  simp [writeAt, block]

theorem flatten_drop_blocks {β : Type} (B : Nat) (l : List (List β)) (hl : ∀ b ∈ l, b.length = B) (c : Nat)
    (hc : c < l.length) : l.flatten.drop (c * B) = l[c] ++ (l.drop (c + 1)).flatten := by
  induction l generalizing c with
  | nil => simp at hc
  | cons b l ih =>
    cases c with
    | zero => simp
    | succ c =>
      have hb : b.length = B := hl b (by simp)
      have : (c + 1) * B = b.length + c * B := by rw [hb, Nat.succ_mul]; omega
      rw [List.flatten_cons, this, List.drop_length_add_append,
        ih (fun b' hb' => hl b' (by simp [hb'])) c (by simpa using hc)]
      simp

theorem flatten_blocks_length {β : Type} (B : Nat) (l : List (List β)) (hl : ∀ b ∈ l, b.length = B) :
    l.flatten.length = l.length * B := by
  induction l with
  | nil => simp
  | cons b l ih =>
    rw [List.flatten_cons, List.length_append, hl b (by simp), ih (fun b' hb' => hl b' (by simp [hb'])),
      List.length_cons, Nat.succ_mul]; omega

/-- the part of the concatenated child buffers seen from offset `c * B` starts with child `c`'s block -/
theorem blocks_drop (B n : Nat) (blk : Nat → List α) (hb : ∀ c < n, (blk c).length = B) (c : Nat) (hc : c < n) :
    ∃ rest, ((List.range n).flatMap blk).drop (c * B) = blk c ++ rest := by
  refine ⟨(((List.range n).map blk).drop (c + 1)).flatten, ?_⟩
  rw [List.flatMap_def, flatten_drop_blocks B _ ?_ c (by simpa using hc)]
  · simp
  · intro b hb'
    obtain ⟨c', hc', rfl⟩ := List.mem_map.1 hb'
    exact hb c' (List.mem_range.1 hc')

/-- writing segment `c` at offset `c * B` for `c = 0, …, k-1` into a zero buffer gives `k` padded blocks -/
theorem foldl_write_blocks (B n : Nat) (seg : Nat → List α) (hs : ∀ c < n, (seg c).length ≤ B)
    (g : Nat → List α → List α)
    (hg : ∀ c < n, ∀ buf : List α, buf.length = B * n → g c buf = writeAt buf (c * B) (seg c))
    (k : Nat) (hk : k ≤ n) :
    (List.range k).foldl (fun buf c => g c buf) (List.replicate (B * n) 0)
      = (List.range k).flatMap (fun c => block B (seg c)) ++ List.replicate (B * (n - k)) 0 := by
  induction k with
  | zero => simp
  | succ k ih =>
    have hkn : k < n := hk
    have hP : ((List.range k).flatMap (fun c => block B (seg c))).length = k * B := by
      rw [List.flatMap_def, flatten_blocks_length B]
      · simp
      · intro b hb
        obtain ⟨c, hc, rfl⟩ := List.mem_map.1 hb
        exact block_length B _ (hs c (by have := List.mem_range.1 hc; omega))
    have hmul : B * (n - k) = B + B * (n - (k + 1)) := by
      have : n - k = (n - (k + 1)) + 1 := by omega
      rw [this, Nat.mul_succ]; omega
    rw [List.range_succ, List.foldl_append, ih (by omega), List.foldl_cons, List.foldl_nil,
      hg k hkn _ (by rw [List.length_append, hP, List.length_replicate, hmul,
        show n = (n - (k + 1)) + k + 1 by omega]; simp [Nat.mul_add, Nat.mul_comm]; omega)]
    have hsk := hs k hkn
    unfold writeAt
    rw [← hP, List.take_left, List.drop_length_add_append, List.drop_replicate,
      List.flatMap_append]
    simp only [List.flatMap_cons, List.flatMap_nil, List.append_nil, block, List.append_assoc]
    congr 2
    rw [List.replicate_append_replicate]
    congr 1
    rw [hmul]; omega

/-- slice `c` of `B` entries of the `n` concatenated blocks is block `c` -/
theorem blocks_slice (B n : Nat) (blk : Nat → List α) (hb : ∀ c < n, (blk c).length = B) (c : Nat) (hc : c < n) :
    (((List.range n).flatMap blk).drop (c * B)).take B = blk c := by
  obtain ⟨rest, hr⟩ := blocks_drop B n blk hb c hc
  rw [hr, List.take_left' (hb c hc)]

/-! ### contributions of a gathered buffer -/

theorem contrib_gather (m₁ m₂ : List Nat) (s : List α) (i : Nat) :
    contrib m₁ (gather m₂ s) 1 i
      = (((m₁.zip m₂).filter (fun p => p.1 = i)).map fun p => val s p.2).sum := by
  unfold contrib gather
  rw [List.zip_map_right, List.filter_map, List.map_map]
  congr 1
  apply List.map_congr_left
  intro p _
  simp

theorem getD_map_range {β : Type} (n : Nat) (F : Nat → β) (d : β) (c : Nat) (hc : c < n) :
    ((List.range n).map F).getD c d = F c := by
  simp [List.getD_eq_getElem?_getD, hc]

/-! ### (D) Muxer -/

/-- `join` on the flattened parent vector: one flat scatter per child of the child's gathered segment -/
theorem muxJoin_flat (B : Nat) (pm cm : List CMir) (srcs : List (CVec α)) (trg : CVec α)
    (hpm : ∀ c < cm.length, (pm.getD c default).wf (srcs.getD c default) = true)
    (hcm : ∀ c < cm.length, (cm.getD c default).wf trg = true)
    (hsz : ∀ c < cm.length, (pm.getD c default).bufSize (srcs.getD c default) = (cm.getD c default).bufSize trg
      ∧ (cm.getD c default).bufSize trg ≤ B) :
    (muxJoin B pm cm srcs trg).sameShape trg ∧
    (muxJoin B pm cm srcs trg).flat
      = (List.range cm.length).foldl (fun t c => scatterAxpy t ((cm.getD c default).flatIdx trg 0)
          (gather ((pm.getD c default).flatIdx (srcs.getD c default) 0) (srcs.getD c default).flat) 1)
        (List.replicate trg.podSize 0) := by
  have hblk : ∀ c < cm.length, cgather (pm.getD c default) (srcs.getD c default) (List.replicate B 0) 0
      = block B (gather ((pm.getD c default).flatIdx (srcs.getD c default) 0) (srcs.getD c default).flat) := by
    intro c hc
    rw [cgather_flat _ _ (hpm c hc) _ _ (by rw [List.length_replicate, Nat.zero_add, (hsz c hc).1]; exact (hsz c hc).2), writeAt_replicate_zero]
  have hseg : ∀ c < cm.length,
      (gather ((pm.getD c default).flatIdx (srcs.getD c default) 0) (srcs.getD c default).flat).length
        = (cm.getD c default).bufSize trg := by
    intro c hc
    rw [gather_length, flatIdx_length _ _ (hpm c hc), (hsz c hc).1]
  have key := foldl_flat (List.range cm.length)
    (fun c t => cscatter (cm.getD c default) t ((List.range cm.length).flatMap fun c =>
      cgather (pm.getD c default) (srcs.getD c default) (List.replicate B 0) 0) 1 (c * B))
    (fun c t => scatterAxpy t ((cm.getD c default).flatIdx trg 0)
      (gather ((pm.getD c default).flatIdx (srcs.getD c default) 0) (srcs.getD c default).flat) 1)
    trg ?_ trg.zero (zero_sameShape trg)
  · rw [zero_flat] at key
    exact key
  · intro c hc t ht
    have hc' := List.mem_range.1 hc
    refine ⟨sameShape_trans (cscatter_sameShape _ _ _ _ _) ht, ?_⟩
    obtain ⟨rest, hr⟩ := blocks_drop B cm.length
      (fun c => cgather (pm.getD c default) (srcs.getD c default) (List.replicate B 0) 0)
      (fun c' hc' => by rw [hblk c' hc']; exact block_length B _ (by rw [hseg c' hc']; exact (hsz c' hc').2)) c hc'
    show (cscatter _ _ _ _ _).flat = _
    rw [cscatter_flat _ _ (by rw [sameShape_wf _ ht]; exact hcm c hc'), hr, hblk c hc', sameShape_flatIdx _ ht,
      block, List.append_assoc, scatterAxpy_append_buf]
    rw [hseg c hc', flatIdx_length _ _ (hcm c hc')]

theorem muxJoin_val (B : Nat) (pm cm : List CMir) (srcs : List (CVec α)) (trg : CVec α)
    (hpm : ∀ c < cm.length, (pm.getD c default).wf (srcs.getD c default) = true)
    (hcm : ∀ c < cm.length, (cm.getD c default).wf trg = true)
    (hsz : ∀ c < cm.length, (pm.getD c default).bufSize (srcs.getD c default) = (cm.getD c default).bufSize trg
      ∧ (cm.getD c default).bufSize trg ≤ B)
    (i : Nat) (hi : i < trg.podSize) :
    val (muxJoin B pm cm srcs trg).flat i
      = ((List.range cm.length).map fun c =>
          ((((cm.getD c default).flatIdx trg 0).zip ((pm.getD c default).flatIdx (srcs.getD c default) 0)).filter
              (fun p => p.1 = i) |>.map fun p => val (srcs.getD c default).flat p.2).sum).sum := by
  rw [(muxJoin_flat B pm cm srcs trg hpm hcm hsz).2, foldl_scatter_val _ _ _ _ _ _ (by simpa using hi),
    val_replicate _ _ _ hi, zero_add]
  congr 1
  apply List.map_congr_left
  intro c _
  exact contrib_gather _ _ _ _

/-- `split`: the concatenated parent buffer consists of the padded per-child segments -/
theorem muxSplit_bufs (B : Nat) (cm : List CMir) (src : CVec α)
    (hcm : ∀ c < cm.length, (cm.getD c default).wf src = true)
    (hsz : ∀ c < cm.length, (cm.getD c default).bufSize src ≤ B) :
    (List.range cm.length).foldl (fun buf c => cgather (cm.getD c default) src buf (c * B))
        (List.replicate (B * cm.length) 0)
      = (List.range cm.length).flatMap fun c => block B (gather ((cm.getD c default).flatIdx src 0) src.flat) := by
  have := foldl_write_blocks B cm.length (fun c => gather ((cm.getD c default).flatIdx src 0) src.flat)
    (fun c hc => by rw [gather_length, flatIdx_length _ _ (hcm c hc)]; exact hsz c hc)
    (fun c buf => cgather (cm.getD c default) src buf (c * B))
    (fun c hc buf hbuf => by
      apply cgather_flat _ _ (hcm c hc)
      rw [hbuf]
      have h1 := hsz c hc
      have h2 : (c + 1) * B ≤ cm.length * B := Nat.mul_le_mul_right B hc
      rw [Nat.succ_mul] at h2
      rw [Nat.mul_comm B]; omega)
    cm.length (Nat.le_refl _)
  simpa using this

theorem muxSplit_flat (B : Nat) (pm cm : List CMir) (src : CVec α) (trgs : List (CVec α))
    (hpm : ∀ c < cm.length, (pm.getD c default).wf (trgs.getD c default) = true)
    (hcm : ∀ c < cm.length, (cm.getD c default).wf src = true)
    (hsz : ∀ c < cm.length, (pm.getD c default).bufSize (trgs.getD c default) = (cm.getD c default).bufSize src
      ∧ (cm.getD c default).bufSize src ≤ B)
    (c : Nat) (hc : c < cm.length) :
    ((muxSplit B pm cm src trgs).getD c default).sameShape (trgs.getD c default) ∧
    ((muxSplit B pm cm src trgs).getD c default).flat
      = scatterAxpy ((trgs.getD c default).zero).flat ((pm.getD c default).flatIdx (trgs.getD c default) 0)
          (gather ((cm.getD c default).flatIdx src 0) src.flat) 1 := by
  unfold muxSplit
  simp only []
  rw [getD_map_range _ _ _ _ hc]
  refine ⟨sameShape_trans (cscatter_sameShape _ _ _ _ _) (zero_sameShape _), ?_⟩
  have hz := zero_sameShape (trgs.getD c default)
  have hseg : ∀ c < cm.length, (gather ((cm.getD c default).flatIdx src 0) src.flat).length
      = (cm.getD c default).bufSize src := by
    intro c hc; rw [gather_length, flatIdx_length _ _ (hcm c hc)]
  rw [muxSplit_bufs B cm src hcm (fun c hc => (hsz c hc).2),
    blocks_slice B cm.length _ (fun c' hc' => block_length B _ (by rw [hseg c' hc']; exact (hsz c' hc').2)) c hc,
    cscatter_flat _ _ (by rw [sameShape_wf _ hz]; exact hpm c hc), sameShape_flatIdx _ hz, List.drop_zero, block,
    scatterAxpy_append_buf]
  rw [hseg c hc, flatIdx_length _ _ (hpm c hc), (hsz c hc).1]

end FeatModel.C13L
