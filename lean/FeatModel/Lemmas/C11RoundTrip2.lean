import FeatModel.Model.MeshFile
import FeatModel.Lemmas.C11Num
import FeatModel.Lemmas.C11Xml
import FeatModel.Lemmas.C11Mesh
import FeatModel.Lemmas.C11RoundTrip
/-!
C11 — the round trip `parseMeshFile ∘ printMeshFile = id` extended from a root mesh
(`C11RoundTrip.lean`) to

* stage A: mesh parts with target mappings (`parse_print_parts`),
* stage B: partitions with patches (`parse_print_node`),
* stage C1: mesh parts with an own (full) topology and attribute sets (`parse_print_node_full`),
* stage C2: files without a root mesh, for the second-generation parse (`reparse_print_nomesh`),

and the byte-for-byte corollaries `print_parse_print_node`, `print_reparse_print_nomesh`.
Not covered: charts / `topology="parent"` mesh parts (tier B of the model: `Outcome.unmodelled`).

Auxiliary lemmas live in `FeatModel.C11.RT2`; the side conditions (`NameOk`, `PartOk`, `AttrSetOk`, `PartOkFull`,
`PartitionOk`) and the main theorems are in `FeatModel.C11`.  Core Lean only.
-/
namespace FeatModel.C11

/-- an admissible attribute value for a name: survives `trim`, contains no quote, bracket or line break.
    It may be empty and may contain blanks, `=` or `/` inside. -/
def NameOk (s : Str) : Prop :=
  trim s = s ∧ ∀ c ∈ s, c ≠ '"' ∧ c ≠ '<' ∧ c ≠ '>' ∧ c ≠ '\n'

/-- stage A mesh parts: mappings only (no chart, no own topology, no attributes) -/
def PartOk (dim : Nat) (name : Str) (p : Part) : Prop :=
  p.chart = [] ∧ p.hasTopo = false ∧ p.attrs = [] ∧
  p.sizes.length = dim + 1 ∧ p.maps.length = dim + 1 ∧
  (∀ d, d ≤ dim → (p.maps.getD d []).length = p.sizes.getD d 0) ∧
  p.topo = List.replicate dim [] ∧
  (∀ s ∈ p.sizes, s < 2 ^ 64) ∧
  (∀ idx ∈ p.maps, ∀ i ∈ idx, i < 2 ^ 64) ∧
  NameOk name

/-- an attribute set of a mesh part with `nv` vertices -/
def AttrSetOk (nv : Nat) (an : Str) (a : Attr) : Prop :=
  NameOk an ∧ 0 < a.dim ∧ a.dim ≤ 2 ^ 31 - 1 ∧ a.vals.length = nv ∧ ∀ v ∈ a.vals, v.length = a.dim

/-- stage C mesh parts: mappings, optionally an own (full) topology, attribute sets; no chart -/
def PartOkFull (sh : Shape) (dim : Nat) (name : Str) (p : Part) : Prop :=
  p.chart = [] ∧
  p.sizes.length = dim + 1 ∧ p.maps.length = dim + 1 ∧
  (∀ d, d ≤ dim → (p.maps.getD d []).length = p.sizes.getD d 0) ∧
  p.topo.length = dim ∧
  (p.hasTopo = true → ∀ i, i < dim →
    (p.topo.getD i []).length = p.sizes.getD (i + 1) 0 ∧
    ∀ tup ∈ p.topo.getD i [], tup.length = nverts sh (i + 1) ∧ ∀ x ∈ tup, x < p.sizes.getD 0 0) ∧
  (p.hasTopo = false → p.topo = List.replicate dim []) ∧
  (∀ s ∈ p.sizes, s < 2 ^ 64) ∧
  (∀ idx ∈ p.maps, ∀ i ∈ idx, i < 2 ^ 64) ∧
  NameOk name ∧
  (∀ na ∈ p.attrs, AttrSetOk (p.sizes.getD 0 0) na.1 na.2) ∧
  p.attrs.Pairwise (fun a b => strLt a.1 b.1 = true) ∧
  (p.hasTopo = true → zeroBelow p.sizes = false)

/-- stage B partitions -/
def PartitionOk (p : Partition) : Prop :=
  NameOk p.name ∧
  (-(2 ^ 31 : Int) ≤ p.prio ∧ p.prio < 2 ^ 31) ∧
  (0 ≤ p.level ∧ p.level < 2 ^ 31) ∧
  p.nr < 2 ^ 31 ∧ p.ne < 2 ^ 31 ∧
  p.patches.length = p.nr ∧
  (∀ el ∈ p.patches, el.Pairwise (· < ·) ∧ ∀ e ∈ el, e < p.ne) ∧
  (p.patches.map List.length).sum = p.ne

end FeatModel.C11

namespace FeatModel.C11.RT2
open FeatModel.C11.RT

set_option linter.unusedSimpArgs false

/-! ## Part 1: `strLt`, `mapInsert`, `mapFind` -/

theorem strLt_asymm : ∀ (a b : Str), strLt a b = true → strLt b a = false
  | [], [], h => by simp [strLt] at h
  | [], _ :: _, _ => by simp [strLt]
  | _ :: _, [], h => by simp [strLt] at h
  | a :: as, b :: bs, h => by
    simp only [strLt] at h ⊢
    by_cases h1 : a.toNat < b.toNat
    · have h2 : ¬ b.toNat < a.toNat := by omega
      have h3 : b.toNat > a.toNat := h1
      simp [h2, h3]
    · by_cases h2 : a.toNat > b.toNat
      · simp [h1, h2] at h
      · simp only [h1, h2, if_false] at h
        have h3 : ¬ b.toNat < a.toNat := h2
        have h4 : ¬ b.toNat > a.toNat := h1
        simp only [h3, h4, if_false]
        exact strLt_asymm as bs h

theorem mapInsert_append {α : Type} (k : Str) (v : α) (l : List (Str × α))
    (h : ∀ kv ∈ l, strLt kv.1 k = true) : mapInsert strLt k v l = l ++ [(k, v)] := by
  induction l with
  | nil => rfl
  | cons kv l ih =>
    obtain ⟨k', v'⟩ := kv
    have h1 : strLt k' k = true := h (k', v') (by simp)
    have h2 : strLt k k' = false := strLt_asymm _ _ h1
    simp only [mapInsert, h1, h2, Bool.false_eq_true, if_false, if_true, List.cons_append]
    rw [ih (fun kv hkv => h kv (by simp [hkv]))]

theorem mapFind_none {α : Type} (k : Str) (l : List (Str × α))
    (h : ∀ kv ∈ l, strLt kv.1 k = true) : mapFind strLt k l = none := by
  induction l with
  | nil => rfl
  | cons kv l ih =>
    obtain ⟨k', v'⟩ := kv
    have h1 : strLt k' k = true := h (k', v') (by simp)
    simp only [mapFind, h1, Bool.not_true, Bool.and_false, Bool.false_eq_true, if_false]
    exact ih (fun kv hkv => h kv (by simp [hkv]))

/-! ## Part 2: `scan_markup` on a markup with an arbitrary attribute list -/

/-- the attribute text ` k1="v1" k2="v2" …` without the leading blank -/
def attrText : List (Str × Str) → Str
  | [] => []
  | [(k, v)] => k ++ '=' :: '"' :: (v ++ ['"'])
  | (k, v) :: kv2 :: rest => k ++ '=' :: '"' :: (v ++ '"' :: ' ' :: attrText (kv2 :: rest))

def insAttr (acc : List (Str × Str)) (kv : Str × Str) : List (Str × Str) := mapInsert strLt kv.1 kv.2 acc

/-- what the scanner needs from one attribute -/
def AttrOk (kv : Str × Str) : Prop :=
  validName kv.1 = true ∧ (∀ c ∈ kv.2, c ≠ '"' ∧ c ≠ '<' ∧ c ≠ '>') ∧ trim kv.2 = kv.2

theorem attrOk_mk {k v : Str} (hk : validName k = true)
    (hv : (∀ c ∈ v, c ≠ '"' ∧ c ≠ '<' ∧ c ≠ '>') ∧ trim v = v) : AttrOk (k, v) :=
  ⟨hk, hv.1, hv.2⟩

theorem attrText_cons (k v : Str) (kvs : List (Str × Str)) :
    ∃ r2, attrText ((k, v) :: kvs) = k ++ '=' :: '"' :: (v ++ '"' :: r2) ∧
      (kvs = [] → r2 = []) ∧ (kvs ≠ [] → r2 = ' ' :: attrText kvs) := by
  cases kvs with
  | nil => exact ⟨[], by simp [attrText], by simp, by simp⟩
  | cons kv2 rest => exact ⟨' ' :: attrText (kv2 :: rest), by simp [attrText], by simp, by simp⟩

theorem attrText_last (kvs : List (Str × Str)) (hne : kvs ≠ []) : (attrText kvs).getLast? = some '"' := by
  induction kvs with
  | nil => exact absurd rfl hne
  | cons kv kvs ih =>
    obtain ⟨k, v⟩ := kv
    obtain ⟨r2, he, h0, h1⟩ := attrText_cons k v kvs
    by_cases hk : kvs = []
    · rw [he, h0 hk]; simp [List.getLast?_eq_head?_reverse]
    · have := ih hk
      rw [he, h1 hk]
      rw [List.getLast?_append, List.getLast?_cons_cons, List.getLast?_cons, List.getLast?_append,
        List.getLast?_cons_cons, List.getLast?_cons, this]
      rfl

theorem attrText_head (kvs : List (Str × Str)) (hne : kvs ≠ []) (hk : ∀ kv ∈ kvs, AttrOk kv) :
    ∃ b u, attrText kvs = b :: u ∧ isWs b = false := by
  cases kvs with
  | nil => exact absurd rfl hne
  | cons kv kvs =>
    obtain ⟨k, v⟩ := kv
    obtain ⟨r2, he, -, -⟩ := attrText_cons k v kvs
    have hv : validName k = true := (hk (k, v) (by simp)).1
    cases k with
    | nil => simp [validName] at hv
    | cons b u => exact ⟨b, _, by rw [he]; rfl, validName_not_ws hv b (by simp)⟩

theorem trim_sp_attrText (kvs : List (Str × Str)) (hne : kvs ≠ []) (hk : ∀ kv ∈ kvs, AttrOk kv) :
    trim (' ' :: attrText kvs) = attrText kvs := by
  have h1 : trim (' ' :: attrText kvs) = trim (attrText kvs) := by
    simp [trim, trimFront, List.dropWhile, isWs]
  obtain ⟨b, u, he, hb⟩ := attrText_head kvs hne hk
  have hl := attrText_last kvs hne
  rw [h1]
  rw [he] at hl ⊢
  exact xml_trim_eq_self hb hl (by decide)

theorem attrText_length (kvs : List (Str × Str)) : kvs.length ≤ (attrText kvs).length := by
  induction kvs with
  | nil => simp
  | cons kv kvs ih =>
    obtain ⟨k, v⟩ := kv
    obtain ⟨r2, he, h0, h1⟩ := attrText_cons k v kvs
    by_cases hk : kvs = []
    · subst hk; rw [he]; simp only [List.length_append, List.length_cons, List.length_nil]; omega
    · rw [he, h1 hk]; simp only [List.length_append, List.length_cons]; omega

theorem attrText_notMem (d : Char) (kvs : List (Str × Str)) (h1 : d ≠ '=') (h2 : d ≠ '"') (h3 : d ≠ ' ')
    (hk : ∀ kv ∈ kvs, d ∉ kv.1 ∧ d ∉ kv.2) : d ∉ attrText kvs := by
  induction kvs with
  | nil => simp [attrText]
  | cons kv kvs ih =>
    obtain ⟨k, v⟩ := kv
    obtain ⟨r2, he, h0, h1'⟩ := attrText_cons k v kvs
    have hkv := hk (k, v) (by simp)
    have ih := ih (fun kv hkv => hk kv (by simp [hkv]))
    by_cases hkn : kvs = []
    · rw [he, h0 hkn]; simp [hkv.1, hkv.2, h1, h2]
    · rw [he, h1' hkn]; simp [hkv.1, hkv.2, h1, h2, h3, ih]

theorem scanAttrs_list (kvs : List (Str × Str)) :
    ∀ (f : Nat) (acc : List (Str × Str)), kvs.length ≤ f → (∀ kv ∈ kvs, AttrOk kv) →
      scanAttrs (f + 1) (attrText kvs) acc = some (kvs.foldl insAttr acc) := by
  induction kvs with
  | nil => intro f acc _ _; exact scanAttrs_nil f acc
  | cons kv kvs ih =>
    intro f acc hf hk
    obtain ⟨k, v⟩ := kv
    obtain ⟨r2, he, h0, h1⟩ := attrText_cons k v kvs
    have hkv := hk (k, v) (by simp)
    have hk' : ∀ kv ∈ kvs, AttrOk kv := fun kv hkv => hk kv (by simp [hkv])
    obtain ⟨g, rfl⟩ : ∃ g, f = g + 1 := ⟨f - 1, by simp at hf; omega⟩
    have hg : kvs.length ≤ g := by simp at hf; omega
    rw [he]
    by_cases hkn : kvs = []
    · rw [h0 hkn, scanAttrs_step (g + 1) k v [] acc hkv.1 (fun hm => (hkv.2.1 _ hm).1 rfl) hkv.2.2 (by simp)]
      subst hkn
      rw [trim_nil, scanAttrs_nil]
      rfl
    · rw [h1 hkn, scanAttrs_step (g + 1) k v (' ' :: attrText kvs) acc hkv.1 (fun hm => (hkv.2.1 _ hm).1 rfl)
        hkv.2.2 (by
          intro c hc
          have hl := attrText_last kvs hkn
          cases hat : attrText kvs with
          | nil => rw [hat] at hl; simp at hl
          | cons x xs =>
            rw [hat] at hl hc
            rw [List.getLast?_cons_cons, hl] at hc
            simp at hc; subst hc; decide)]
      rw [trim_sp_attrText kvs hkn hk', ih g _ hg hk']
      rfl

/-- `scan_markup` on `<nm k1="v1" … kn="vn">` -/
theorem scanMarkup_attr_list {nm : Str} (kvs : List (Str × Str)) (hne : kvs ≠ []) (hnm : validName nm = true)
    (hk : ∀ kv ∈ kvs, AttrOk kv) :
    scanMarkup ('<' :: ((nm ++ ' ' :: attrText kvs) ++ ['>'])) =
      .ok (some { name := nm, attrs := kvs.foldl insAttr [], closed := false, termin := false }) := by
  obtain ⟨b, u, he, hb⟩ := attrText_head kvs hne hk
  have hnot : ∀ d : Char, d ≠ '=' → d ≠ '"' → d ≠ ' ' →
      (d.toNat < 48 ∨ (57 < d.toNat ∧ d.toNat < 65) ∨ (90 < d.toNat ∧ d.toNat < 97) ∨ 122 < d.toNat) →
      (∀ kv ∈ kvs, d ∉ kv.2) → d ∉ attrText kvs := by
    intro d h1 h2 h3 h4 h5
    exact attrText_notMem d kvs h1 h2 h3 (fun kv hkv => ⟨validName_not_mem (hk kv hkv).1 h4, h5 kv hkv⟩)
  have hlt : '<' ∉ attrText kvs :=
    hnot _ (by decide) (by decide) (by decide) (by decide) (fun kv hkv hm => ((hk kv hkv).2.1 _ hm).2.1 rfl)
  have hgt : '>' ∉ attrText kvs :=
    hnot _ (by decide) (by decide) (by decide) (by decide) (fun kv hkv hm => ((hk kv hkv).2.1 _ hm).2.2 rfl)
  rw [scanMarkup_with_attrs hnm he hb (attrText_last kvs hne) hlt hgt]
  simp only [markupTail, Bool.false_eq_true, if_false]
  rw [scanAttrs_list kvs _ [] (attrText_length kvs) hk]

/-! ## Part 3: the `<MeshPart>` markup -/

theorem fold_part_attrs (a b c d : Str) :
    [("name".toList, a), ("parent".toList, b), ("topology".toList, c), ("size".toList, d)].foldl insAttr [] =
      [("name".toList, a), ("parent".toList, b), ("size".toList, d), ("topology".toList, c)] := by
  have h1 : strLt "parent".toList "name".toList = false := by decide
  have h2 : strLt "name".toList "parent".toList = true := by decide
  have h3 : strLt "topology".toList "name".toList = false := by decide
  have h4 : strLt "name".toList "topology".toList = true := by decide
  have h5 : strLt "topology".toList "parent".toList = false := by decide
  have h6 : strLt "parent".toList "topology".toList = true := by decide
  have h7 : strLt "size".toList "name".toList = false := by decide
  have h8 : strLt "name".toList "size".toList = true := by decide
  have h9 : strLt "size".toList "parent".toList = false := by decide
  have h10 : strLt "parent".toList "size".toList = true := by decide
  have h11 : strLt "size".toList "topology".toList = true := by decide
  simp only [List.foldl, insAttr, mapInsert, h1, h2, h3, h4, h5, h6, h7, h8, h9, h10, h11,
    Bool.false_eq_true, if_false, if_true]

def topoStr (hasTopo : Bool) : Str := if hasTopo then "full".toList else "none".toList
def topoTy (hasTopo : Bool) : TopoType := if hasTopo then .full else .none

def partMarkup (name : Str) (hasTopo : Bool) (sizes : List Nat) : Markup :=
  ⟨"MeshPart".toList, [("name".toList, name), ("parent".toList, "root".toList),
    ("size".toList, joinSp (sizes.map showNat)), ("topology".toList, topoStr hasTopo)], false, false⟩

theorem nameOk_attr {name : Str} (h : NameOk name) :
    (∀ c ∈ name, c ≠ '"' ∧ c ≠ '<' ∧ c ≠ '>') ∧ trim name = name :=
  ⟨fun c hc => ⟨(h.2 c hc).1, (h.2 c hc).2.1, (h.2 c hc).2.2.1⟩, h.1⟩

theorem topoStr_attr (hasTopo : Bool) :
    (∀ c ∈ topoStr hasTopo, c ≠ '"' ∧ c ≠ '<' ∧ c ≠ '>') ∧ trim (topoStr hasTopo) = topoStr hasTopo := by
  cases hasTopo <;> decide

/-- the `<MeshPart …>` line -/
theorem scan_part_line (name : Str) (hasTopo : Bool) (sizes : List Nat) (hn : NameOk name) :
    scanMarkup ('<' :: (('M' :: ("eshPart name=".toList ++ q name ++ " parent=\"root\"".toList ++
        " topology=".toList ++ q (topoStr hasTopo) ++ " size=".toList ++ q (joinSp (sizes.map showNat)))) ++ ['>'])) =
      .ok (some (partMarkup name hasTopo sizes)) := by
  have e : '<' :: (('M' :: ("eshPart name=".toList ++ q name ++ " parent=\"root\"".toList ++
        " topology=".toList ++ q (topoStr hasTopo) ++ " size=".toList ++ q (joinSp (sizes.map showNat)))) ++ ['>']) =
      '<' :: (("MeshPart".toList ++ ' ' :: attrText [("name".toList, name), ("parent".toList, "root".toList),
        ("topology".toList, topoStr hasTopo), ("size".toList, joinSp (sizes.map showNat))]) ++ ['>']) := by
    simp [q, attrText]
  rw [e, scanMarkup_attr_list _ (by simp) (by decide), fold_part_attrs]
  · rfl
  · intro kv hkv
    simp only [List.mem_cons, List.not_mem_nil, or_false] at hkv
    rcases hkv with rfl | rfl | rfl | rfl
    · exact attrOk_mk (by decide) (nameOk_attr hn)
    · exact attrOk_mk (by decide) (by decide)
    · exact attrOk_mk (by decide) (topoStr_attr hasTopo)
    · exact attrOk_mk (by decide) (joinSp_showNat_attr sizes)

theorem partCreate_printed (sh : Shape) (dim : Nat) (stack : List Frame) (mesh : Option Mesh) {chs : List (Str × Chart)} {wdim : Nat}
    (parts : List (Str × Part)) (pts : List Partition) (line : Nat) (name : Str) (hasTopo : Bool)
    (sizes : List Nat) (hlen : sizes.length = dim + 1) (h64 : ∀ s ∈ sizes, s < 2 ^ 64)
    (hzb : hasTopo = true → zeroBelow sizes = false)
    (hfresh : mapFind strLt name parts = none) :
    partCreate (mkSt sh dim stack ⟨mesh, parts, pts, chs, wdim⟩) line (partMarkup name hasTopo sizes) =
      .ok (⟨name, [], topoTy hasTopo, sizes, List.replicate (dim + 1) none, List.replicate dim none, []⟩, [], []) := by
  have s1 : strLt "name".toList "name".toList = false := by decide
  have s2 : strLt "parent".toList "name".toList = false := by decide
  have s3 : strLt "name".toList "parent".toList = true := by decide
  have s4 : strLt "parent".toList "parent".toList = false := by decide
  have s5 : strLt "size".toList "name".toList = false := by decide
  have s6 : strLt "name".toList "size".toList = true := by decide
  have s7 : strLt "size".toList "parent".toList = false := by decide
  have s8 : strLt "parent".toList "size".toList = true := by decide
  have s9 : strLt "size".toList "size".toList = false := by decide
  have t1 : strLt "topology".toList "name".toList = false := by decide
  have t2 : strLt "name".toList "topology".toList = true := by decide
  have t3 : strLt "topology".toList "parent".toList = false := by decide
  have t4 : strLt "parent".toList "topology".toList = true := by decide
  have t5 : strLt "topology".toList "size".toList = false := by decide
  have t6 : strLt "size".toList "topology".toList = true := by decide
  have t7 : strLt "topology".toList "topology".toList = false := by decide
  have c1 : strLt "chart".toList "name".toList = true := by decide
  have c2 : strLt "chart".toList "parent".toList = true := by decide
  have c3 : strLt "chart".toList "size".toList = true := by decide
  have c4 : strLt "chart".toList "topology".toList = true := by decide
  have a1 : attrOf (partMarkup name hasTopo sizes) "name" = some name := by
    unfold partMarkup; simp only [attrOf, mapFind, s1]; rfl
  have a2 : attrOf (partMarkup name hasTopo sizes) "parent" = some "root".toList := by
    unfold partMarkup; simp only [attrOf, mapFind, s2, s3, s4]; rfl
  have a3 : attrOf (partMarkup name hasTopo sizes) "size" = some (joinSp (sizes.map showNat)) := by
    unfold partMarkup; simp only [attrOf, mapFind, s5, s6, s7, s8, s9]; rfl
  have a4 : attrOf (partMarkup name hasTopo sizes) "topology" = some (topoStr hasTopo) := by
    unfold partMarkup; simp only [attrOf, mapFind, t1, t2, t3, t4, t5, t6, t7]; rfl
  have a5 : attrOf (partMarkup name hasTopo sizes) "chart" = none := by
    unfold partMarkup; simp only [attrOf, mapFind, c1, c2, c3, c4]; rfl
  have hcl : (partMarkup name hasTopo sizes).closed = false := rfl
  have hroot : ("root".toList != "root".toList) = false := by decide
  have htt : (if (topoStr hasTopo == "none".toList) = true then some TopoType.none
      else if (topoStr hasTopo == "full".toList) = true then some TopoType.full
      else if (topoStr hasTopo == "parent".toList) = true then some TopoType.parent else none) =
      some (topoTy hasTopo) := by
    cases hasTopo <;> decide
  have hded : (topoTy hasTopo == TopoType.parent) = false := by cases hasTopo <;> decide
  unfold partCreate
  rw [a1, a2, a3, a4, a5]
  simp only [hcl, mkSt, hfresh, hroot, htt, hded, splitWs_joinSp_showNat, List.length_map, hlen,
    readIndex_sizes h64]
  cases hasTopo with
  | false => simp [topoTy]
  | true => simp [topoTy, hzb rfl]

theorem openM_part (sh : Shape) (dim : Nat) (mesh : Option Mesh) {chs : List (Str × Chart)} {wdim : Nat}
    (parts : List (Str × Part)) (pts : List Partition) (line : Nat) (name : Str) (hasTopo : Bool)
    (sizes : List Nat) (hlen : sizes.length = dim + 1) (h64 : ∀ s ∈ sizes, s < 2 ^ 64)
    (hzb : hasTopo = true → zeroBelow sizes = false)
    (hfresh : mapFind strLt name parts = none) :
    openM (mkSt sh dim [Frame.root] ⟨mesh, parts, pts, chs, wdim⟩) line (partMarkup name hasTopo sizes) =
      .ok (mkSt sh dim [Frame.part ⟨name, [], topoTy hasTopo, sizes, List.replicate (dim + 1) none,
        List.replicate dim none, []⟩, Frame.root] ⟨mesh, parts, pts, chs, wdim⟩) := by
  have hc : checkAttribs line (specOf "MeshPart") (partMarkup name hasTopo sizes).attrs = .ok () := by
    unfold partMarkup
    simp [checkAttribs, specOf]
  have hm := partCreate_printed (chs := chs) (wdim := wdim) sh dim [Frame.root] mesh parts pts line name hasTopo sizes hlen h64 hzb hfresh
  have hn : String.ofList (partMarkup name hasTopo sizes).name = "MeshPart" := String_ofList_toList _
  have hcl : (partMarkup name hasTopo sizes).closed = false := rfl
  generalize hst : mkSt sh dim [Frame.root] ⟨mesh, parts, pts, chs, wdim⟩ = st at hm ⊢
  generalize partMarkup name hasTopo sizes = m at hm hc hn hcl ⊢
  have hstack : st.stack = [Frame.root] := by rw [← hst]; rfl
  unfold openM
  rw [hstack]
  simp only [hn, hc, hcl, hm]
  simp [← hst, mkSt]

/-! ## Part 4: the `<Mapping>` blocks -/

theorem joinSp_single (t : Str) : joinSp [t] = t := by
  unfold joinSp; simp

theorem contentM_map_row (sh : Shape) (dim d count line : Nat) (acc : List Nat) (rs : List Frame)
    (node : Node) (i : Nat) (hi : i < 2 ^ 64) (hc : acc.length < count) :
    contentM (mkSt sh dim (Frame.mapping d count acc :: rs) node) line (showNat i) =
      .ok (mkSt sh dim (Frame.mapping d count (i :: acc) :: rs) node) := by
  have h1 : ¬ acc.length ≥ count := by omega
  simp [contentM, mkSt, h1, readIndex_showNat i hi]

/-- a line holding a single index -/
theorem index_line (k i : Nat) :
    trim (sp k ++ showNat i) = showNat i ∧ showNat i ≠ [] ∧ (showNat i).head? ≠ some '<' ∧
      (showNat i).getLast? ≠ some '>' := by
  have e : showNat i = joinSp ([i].map showNat) := by simp [joinSp_single]
  refine ⟨?_, showNat_ne_nil i, ?_, ?_⟩
  · conv => lhs; rw [e]
    rw [trim_sp_joinSp_showNat, ← e]
  · rw [e]; exact tokLine_head (joinSp_showNat_chars [i])
  · rw [e]; exact tokLine_last (joinSp_showNat_chars [i])

theorem Run_map_rows (sh : Shape) (dim d count : Nat) (rs : List Frame) (node : Node)
    (names : List Str) (rows : List Nat) :
    ∀ (acc : List Nat), (∀ i ∈ rows, i < 2 ^ 64) → acc.length + rows.length ≤ count →
    Run (rows.map (fun i => sp 6 ++ showNat i)) names
      (mkSt sh dim (Frame.mapping d count acc :: rs) node) names
      (mkSt sh dim (Frame.mapping d count (rows.reverse ++ acc) :: rs) node) := by
  induction rows with
  | nil => intro acc _ _; exact Run.nil _ _
  | cons v rows ih =>
    intro acc hrows hcount
    simp only [List.length_cons] at hcount
    rw [List.map_cons, List.reverse_cons, List.append_assoc, List.singleton_append]
    refine Run.cons (Run.single ?_) (ih (v :: acc) (fun w hw => hrows w (by simp [hw])) (by simp; omega))
    intro tail i
    obtain ⟨h1, h2, h3, h4⟩ := index_line 6 v
    exact step_content h1 h2 h3 h4
      (contentM_map_row sh dim d count (i + 1) acc rs node v (hrows v (by simp)) (by omega))

theorem openM_mapping (sh : Shape) (dim : Nat) (p : PartSt) (rs : List Frame) (node : Node) (line d : Nat)
    (hd64 : d < 2 ^ 64) (hdl : d < p.maps.length) (hnone : p.maps.getD d none = none) :
    openM (mkSt sh dim (Frame.part p :: rs) node) line
      (⟨"Mapping".toList, [("dim".toList, showNat d)], false, false⟩ : Markup) =
      .ok (mkSt sh dim (Frame.mapping d (p.sizes.getD d 0) [] :: Frame.part p :: rs) node) := by
  have hc : checkAttribs line (specOf "Mapping") [("dim".toList, showNat d)] = .ok () := by
    simp [checkAttribs, specOf]
  have a1 : attrOf (⟨"Mapping".toList, [("dim".toList, showNat d)], false, false⟩ : Markup) "dim" =
      some (showNat d) := by
    have h1 : strLt "dim".toList "dim".toList = false := by decide
    simp only [attrOf, mapFind, h1]; rfl
  generalize hst : mkSt sh dim (Frame.part p :: rs) node = st
  generalize hmm : (⟨"Mapping".toList, [("dim".toList, showNat d)], false, false⟩ : Markup) = m at a1
  have hstack : st.stack = Frame.part p :: rs := by rw [← hst]; rfl
  have hn : String.ofList m.name = "Mapping" := by rw [← hmm]; exact String_ofList_toList _
  have ha : m.attrs = [("dim".toList, showNat d)] := by rw [← hmm]
  have hcl : m.closed = false := by rw [← hmm]
  have h2 : ¬ d ≥ p.maps.length := by omega
  unfold openM
  rw [hstack]
  simp only [hn, ha, hc, hcl, a1, readIndex_showNat d hd64, hnone, h2]
  simp [← hst, mkSt]

theorem closeTop_mapping_frame (sh : Shape) (dim d count : Nat) (acc : List Nat) (p : PartSt)
    (rs : List Frame) (node : Node) (line : Nat) (h : count ≤ acc.length) :
    closeTop (mkSt sh dim (Frame.mapping d count acc :: Frame.part p :: rs) node) line =
      .ok (mkSt sh dim (Frame.part { p with maps := p.maps.set d (some acc.reverse) } :: rs) node) := by
  simp [closeTop, mkSt, Nat.not_lt.mpr h]

/-- the lines of one mapping block as printed by `writePart` -/
def mapBlock (d : Nat) (idx : List Nat) : List Str :=
  if idx.isEmpty then []
  else [sp 4 ++ "<Mapping dim=".toList ++ q (showNat d) ++ ">".toList] ++
       idx.map (fun i => sp 6 ++ showNat i) ++ [sp 4 ++ "</Mapping>".toList]

def mapBlocks : Nat → List (List Nat) → List Str
  | _, [] => []
  | k, idx :: rest => mapBlock k idx ++ mapBlocks (k + 1) rest

theorem scan_mapping_line (d : Nat) :
    scanMarkup ('<' :: ("Mapping dim=".toList ++ q (showNat d)) ++ ['>']) =
      .ok (some { name := "Mapping".toList, attrs := [("dim".toList, showNat d)],
                  closed := false, termin := false }) := by
  have e : '<' :: ("Mapping dim=".toList ++ q (showNat d)) ++ ['>'] =
      '<' :: ("Mapping".toList ++ ' ' :: ("dim".toList ++ '=' :: '"' :: (showNat d ++ ['"', '>']))) := by
    simp [q]
  rw [e, scanMarkup_one_attr (by decide) (by decide) (showNat_attr d).1 (showNat_attr d).2]

/-- what the parser holds for a mapping: absent iff it was not written -/
def optOf (idx : List Nat) : Option (List Nat) := if idx.isEmpty then none else some idx

theorem Run_map_block (sh : Shape) (dim : Nat) (p : PartSt) (rs : List Frame) (node : Node) (b : Str)
    (below : List Str) (d : Nat) (idx : List Nat) (hd64 : d < 2 ^ 64) (hdl : d < p.maps.length)
    (hnone : p.maps.getD d none = none) (hlen : idx.length = p.sizes.getD d 0)
    (h64 : ∀ i ∈ idx, i < 2 ^ 64) :
    Run (mapBlock d idx) (b :: below)
      (mkSt sh dim (Frame.part p :: rs) node) (b :: below)
      (mkSt sh dim (Frame.part { p with maps := p.maps.set d (optOf idx) } :: rs) node) := by
  unfold mapBlock optOf
  cases hidx : idx.isEmpty with
  | true =>
    have hset : p.maps.set d none = p.maps := by
      apply List.ext_getElem (by simp)
      intro j h1 h2
      rw [List.getElem_set]
      split
      · next hj =>
        subst hj
        have : p.maps.getD d none = p.maps[d] := by simp [List.getD, List.getElem?_eq_getElem h2]
        rw [← this, hnone]
      · rfl
    simp only [if_true, hset]
    exact Run.nil _ _
  | false =>
    simp only [Bool.false_eq_true, if_false]
    have e1 : sp 4 ++ "<Mapping dim=".toList ++ q (showNat d) ++ ">".toList =
        sp 4 ++ '<' :: (('M' :: ("apping dim=".toList ++ q (showNat d))) ++ ['>']) := by
      simp
    have e2 : "</Mapping>".toList = '<' :: (('/' :: "Mapping".toList) ++ ['>']) := by decide
    rw [e1, e2]
    have hs : scanMarkup ('<' :: (('M' :: ("apping dim=".toList ++ q (showNat d))) ++ ['>'])) =
        .ok (some (⟨"Mapping".toList, [("dim".toList, showNat d)], false, false⟩ : Markup)) :=
      scan_mapping_line d
    have r1 := Run_open_line (k := 4) (by decide) hs rfl rfl
      (fun line => openM_mapping sh dim p rs node line d hd64 hdl hnone) (b :: below)
    have r2 := Run_map_rows sh dim d (p.sizes.getD d 0) (Frame.part p :: rs) node
      ("Mapping".toList :: b :: below) idx [] h64 (by simp [hlen])
    have r3 := Run_close_line (k := 4) (nm := "Mapping".toList) (by decide)
      (fun line => closeTop_mapping_frame sh dim d (p.sizes.getD d 0) (idx.reverse ++ []) p rs node line
        (by simp [hlen])) b below
    have := Run.append (Run.append r1 r2) r3
    simpa using this

theorem Run_map_blocks (sh : Shape) (dim : Nat) (name : Str) (tt : TopoType) (sizes : List Nat)
    (topo : List (Option (List (List Nat)))) (attrs : List (Str × Attr)) (rs : List Frame) (node : Node)
    (b : Str) (below : List Str) (todo : List (List Nat)) :
    ∀ (k : Nat) (done : List (List Nat)), done.length = k → k + todo.length < 2 ^ 64 →
    (∀ j, j < todo.length → (todo.getD j []).length = sizes.getD (k + j) 0) →
    (∀ idx ∈ todo, ∀ i ∈ idx, i < 2 ^ 64) →
    Run (mapBlocks k todo) (b :: below)
      (mkSt sh dim (Frame.part ⟨name, [], tt, sizes, done.map optOf ++ List.replicate todo.length none,
        topo, attrs⟩ :: rs) node) (b :: below)
      (mkSt sh dim (Frame.part ⟨name, [], tt, sizes, (done ++ todo).map optOf, topo, attrs⟩ :: rs) node) := by
  induction todo with
  | nil =>
    intro k done _ _ _ _
    simpa [mapBlocks] using Run.nil _ _
  | cons t ts ih =>
    intro k done hk h64 hP hI
    subst hk
    have hP0 : t.length = sizes.getD done.length 0 := by simpa using hP 0 (by simp)
    have hlen : (done.map optOf).length = done.length := by simp
    have r1 := Run_map_block sh dim
      ⟨name, [], tt, sizes, done.map optOf ++ none :: List.replicate ts.length none, topo, attrs⟩
      rs node b below done.length t (by simp at h64; omega) (by simp)
      (by show (done.map optOf ++ none :: List.replicate ts.length none).getD done.length none = none
          rw [← hlen]; exact getD_append_length _ _ _ _) hP0 (hI t (by simp))
    have hset : (done.map optOf ++ none :: List.replicate ts.length none).set done.length (optOf t) =
        (done ++ [t]).map optOf ++ List.replicate ts.length none := by
      rw [← hlen, set_append_length]; simp
    simp only [hset] at r1
    have r2 := ih (done.length + 1) (done ++ [t]) (by simp) (by simp at h64; omega)
      (by
        intro j hj
        have := hP (j + 1) (by simp; omega)
        simpa [Nat.add_assoc, Nat.add_comm 1 j] using this)
      (fun idx hidx => hI idx (by simp [hidx]))
    have := Run.append r1 r2
    simpa [mapBlocks, List.replicate_succ] using this

theorem mapBlocks_eq (maps : List (List Nat)) : ∀ k : Nat,
    ((maps.zipIdx k).map (fun (idx, d) =>
      if idx.isEmpty then []
      else [sp 4 ++ "<Mapping dim=".toList ++ q (showNat d) ++ ">".toList] ++
           idx.map (fun i => sp 6 ++ showNat i) ++ [sp 4 ++ "</Mapping>".toList])).flatten = mapBlocks k maps := by
  induction maps with
  | nil => intro k; rfl
  | cons t ts ih =>
    intro k
    rw [List.zipIdx_cons, List.map_cons, List.flatten_cons, ih (k + 1)]
    rfl

/-! ## Part 5: the `<Topology>` blocks of a mesh part (empty ones are skipped) -/

theorem set_none_self {α : Type} (l : List (Option α)) (d : Nat) (h : l.getD d none = none) :
    l.set d none = l := by
  apply List.ext_getElem (by simp)
  intro j h1 h2
  rw [List.getElem_set]
  split
  · next hj =>
    subst hj
    have : l.getD d none = l[d] := by simp [List.getD, List.getElem?_eq_getElem h2]
    rw [← this, h]
  · rfl

theorem openM_topology_part (sh : Shape) (dim : Nat) (p : PartSt) (rs : List Frame) (node : Node) (line d : Nat)
    (htt : (p.topoType == TopoType.none) = false)
    (hd64 : d < 2 ^ 64) (hd0 : 0 < d) (hdl : d ≤ p.topo.length) (hnone : p.topo.getD (d - 1) none = none) :
    openM (mkSt sh dim (Frame.part p :: rs) node) line
      (⟨"Topology".toList, [("dim".toList, showNat d)], false, false⟩ : Markup) =
      .ok (mkSt sh dim (Frame.topo d (nverts sh d) (p.sizes.getD 0 0) (p.sizes.getD d 0) [] ::
        Frame.part p :: rs) node) := by
  have hc : checkAttribs line (specOf "Topology") [("dim".toList, showNat d)] = .ok () := by
    simp [checkAttribs, specOf]
  have hm := topoCreate_printed sh dim (Frame.part p :: rs) node line d p.sizes p.topo hd64 hd0 hdl hnone
  generalize hst : mkSt sh dim (Frame.part p :: rs) node = st at hm ⊢
  generalize hmm : (⟨"Topology".toList, [("dim".toList, showNat d)], false, false⟩ : Markup) = m at hm ⊢
  have hstack : st.stack = Frame.part p :: rs := by rw [← hst]; rfl
  have hn : String.ofList m.name = "Topology" := by rw [← hmm]; exact String_ofList_toList _
  have ha : m.attrs = [("dim".toList, showNat d)] := by rw [← hmm]
  have hcl : m.closed = false := by rw [← hmm]
  unfold openM
  rw [hstack]
  simp only [hn, ha, hc, hcl, hm, htt]
  simp [← hst, mkSt]

theorem closeTop_topo_part_frame (sh : Shape) (dim d numIdx bound count : Nat) (acc : List (List Nat))
    (p : PartSt) (rs : List Frame) (node : Node) (line : Nat) (h : count ≤ acc.length) :
    closeTop (mkSt sh dim (Frame.topo d numIdx bound count acc :: Frame.part p :: rs) node) line =
      .ok (mkSt sh dim (Frame.part { p with topo := p.topo.set (d - 1) (some acc.reverse) } :: rs) node) := by
  simp [closeTop, mkSt, Nat.not_lt.mpr h]

def optT (t : List (List Nat)) : Option (List (List Nat)) := if t.isEmpty then none else some t

def ptopoBlock (ind i : Nat) (tuples : List (List Nat)) : List Str :=
  if tuples.isEmpty then [] else topoBlock ind i tuples

def ptopoBlocks (ind : Nat) : Nat → List (List (List Nat)) → List Str
  | _, [] => []
  | k, t :: ts => ptopoBlock ind k t ++ ptopoBlocks ind (k + 1) ts

theorem Run_ptopo_block (sh : Shape) (dim ind : Nat) (p : PartSt) (rs : List Frame) (node : Node) (b : Str)
    (below : List Str) (i : Nat) (tuples : List (List Nat))
    (htt : (p.topoType == TopoType.none) = false) (hi : i < p.topo.length) (hi64 : i + 1 < 2 ^ 64)
    (hnone : p.topo.getD i none = none) (hbound : p.sizes.getD 0 0 ≤ 2 ^ 64)
    (hprop : tuplesProp sh p.sizes i tuples) :
    Run (ptopoBlock ind i tuples) (b :: below)
      (mkSt sh dim (Frame.part p :: rs) node) (b :: below)
      (mkSt sh dim (Frame.part { p with topo := p.topo.set i (optT tuples) } :: rs) node) := by
  unfold ptopoBlock optT
  cases hemp : tuples.isEmpty with
  | true =>
    simp only [if_true, set_none_self _ _ hnone]
    exact Run.nil _ _
  | false =>
    simp only [Bool.false_eq_true, if_false]
    have e1 : sp ind ++ "<Topology dim=".toList ++ q (showNat (i + 1)) ++ ">".toList =
        sp ind ++ '<' :: (('T' :: ("opology dim=".toList ++ q (showNat (i + 1)))) ++ ['>']) := by
      simp
    have e2 : "</Topology>".toList = '<' :: (('/' :: "Topology".toList) ++ ['>']) := by decide
    unfold topoBlock
    rw [e1, e2]
    have hs : scanMarkup ('<' :: (('T' :: ("opology dim=".toList ++ q (showNat (i + 1)))) ++ ['>'])) =
        .ok (some (⟨"Topology".toList, [("dim".toList, showNat (i + 1))], false, false⟩ : Markup)) :=
      scan_topo_line (i + 1)
    have r1 := Run_open_line (k := ind) (by decide) hs rfl rfl
      (fun line => openM_topology_part sh dim p rs node line (i + 1) htt hi64 (by omega) (by omega)
        (by simpa using hnone)) (b :: below)
    have r2 := Run_topo_rows sh dim (i + 1) (nverts sh (i + 1)) (p.sizes.getD 0 0) (p.sizes.getD (i + 1) 0) (ind + 2)
      (Frame.part p :: rs) node ("Topology".toList :: b :: below) (nverts_pos _ _) hbound
      tuples [] hprop.2 (by simp [hprop.1])
    have r3 := Run_close_line (k := ind) (nm := "Topology".toList) (by decide)
      (fun line => closeTop_topo_part_frame sh dim (i + 1) (nverts sh (i + 1)) (p.sizes.getD 0 0)
        (p.sizes.getD (i + 1) 0) (tuples.reverse ++ []) p rs node line (by simp [hprop.1])) b below
    have := Run.append (Run.append r1 r2) r3
    simpa using this

theorem Run_ptopo_blocks (sh : Shape) (dim ind : Nat) (name : Str) (tt : TopoType) (sizes : List Nat)
    (maps : List (Option (List Nat))) (attrs : List (Str × Attr)) (rs : List Frame) (node : Node)
    (b : Str) (below : List Str) (htt : (tt == TopoType.none) = false) (hbound : sizes.getD 0 0 ≤ 2 ^ 64)
    (todo : List (List (List Nat))) :
    ∀ (k : Nat) (done : List (List (List Nat))), done.length = k → k + todo.length < 2 ^ 64 →
    (∀ j, j < todo.length → tuplesProp sh sizes (k + j) (todo.getD j [])) →
    Run (ptopoBlocks ind k todo) (b :: below)
      (mkSt sh dim (Frame.part ⟨name, [], tt, sizes, maps, done.map optT ++ List.replicate todo.length none,
        attrs⟩ :: rs) node) (b :: below)
      (mkSt sh dim (Frame.part ⟨name, [], tt, sizes, maps, (done ++ todo).map optT, attrs⟩ :: rs) node) := by
  induction todo with
  | nil =>
    intro k done _ _ _
    simpa [ptopoBlocks] using Run.nil _ _
  | cons t ts ih =>
    intro k done hk h64 hP
    subst hk
    have hP0 : tuplesProp sh sizes done.length t := by simpa using hP 0 (by simp)
    have hlen : (done.map optT).length = done.length := by simp
    have r1 := Run_ptopo_block sh dim ind
      ⟨name, [], tt, sizes, maps, done.map optT ++ none :: List.replicate ts.length none, attrs⟩
      rs node b below done.length t htt (by simp) (by simp at h64; omega)
      (by show (done.map optT ++ none :: List.replicate ts.length none).getD done.length none = none
          rw [← hlen]; exact getD_append_length _ _ _ _) hbound hP0
    have hset : (done.map optT ++ none :: List.replicate ts.length none).set done.length (optT t) =
        (done ++ [t]).map optT ++ List.replicate ts.length none := by
      rw [← hlen, set_append_length]; simp
    simp only [hset] at r1
    have r2 := ih (done.length + 1) (done ++ [t]) (by simp) (by simp at h64; omega)
      (by
        intro j hj
        have := hP (j + 1) (by simp; omega)
        simpa [Nat.add_assoc, Nat.add_comm 1 j] using this)
    have := Run.append r1 r2
    simpa [ptopoBlocks, List.replicate_succ] using this

theorem writeTopo_skip_aux (ind : Nat) (ts : List (List (List Nat))) : ∀ k : Nat,
    ((ts.zipIdx k).map (fun (tuples, i) =>
      if true && tuples.isEmpty then []
      else
        [sp ind ++ "<Topology dim=".toList ++ q (showNat (i + 1)) ++ ">".toList] ++
        tuples.map (fun t => sp (ind + 2) ++ joinSp (t.map showNat)) ++
        [sp ind ++ "</Topology>".toList])).flatten = ptopoBlocks ind k ts := by
  induction ts with
  | nil => intro k; rfl
  | cons t ts ih =>
    intro k
    rw [List.zipIdx_cons, List.map_cons, List.flatten_cons, ih (k + 1)]
    simp only [ptopoBlocks, ptopoBlock, topoBlock, Bool.true_and]

theorem writeTopo_skip_eq (ind : Nat) (ts : List (List (List Nat))) :
    writeTopo ind true ts = ptopoBlocks ind 0 ts := by
  unfold writeTopo
  exact writeTopo_skip_aux ind ts 0

/-! ## Part 5b: the `<Attribute>` blocks of a mesh part -/

theorem scan_attr_line (an : Str) (d : Nat) (hn : NameOk an) :
    scanMarkup ('<' :: (('A' :: ("ttribute name=".toList ++ q an ++ " dim=".toList ++ q (showNat d))) ++ ['>'])) =
      .ok (some { name := "Attribute".toList,
                  attrs := [("dim".toList, showNat d), ("name".toList, an)],
                  closed := false, termin := false }) := by
  have e : '<' :: (('A' :: ("ttribute name=".toList ++ q an ++ " dim=".toList ++ q (showNat d))) ++ ['>']) =
      '<' :: ("Attribute".toList ++ ' ' :: ("name".toList ++ '=' :: '"' :: (an ++ '"' :: ' ' ::
        ("dim".toList ++ '=' :: '"' :: (showNat d ++ ['"', '>']))))) := by
    simp [q]
  rw [e, scanMarkup_two_attr (by decide) (by decide) (by decide)
    (nameOk_attr hn).1 (nameOk_attr hn).2 (showNat_attr d).1 (showNat_attr d).2]
  rw [mapInsert_lt (by decide)]

theorem openM_attribute (sh : Shape) (dim : Nat) (p : PartSt) (rs : List Frame) (node : Node) (line : Nat)
    (an : Str) (d : Nat) (hd0 : 0 < d) (hd31 : d ≤ 2 ^ 31 - 1) :
    openM (mkSt sh dim (Frame.part p :: rs) node) line
      (⟨"Attribute".toList, [("dim".toList, showNat d), ("name".toList, an)], false, false⟩ : Markup) =
      .ok (mkSt sh dim (Frame.attr an d (p.sizes.getD 0 0) [] :: Frame.part p :: rs) node) := by
  have hc : checkAttribs line (specOf "Attribute") [("dim".toList, showNat d), ("name".toList, an)] = .ok () := by
    simp [checkAttribs, specOf]
  have s1 : strLt "dim".toList "dim".toList = false := by decide
  have s2 : strLt "name".toList "dim".toList = false := by decide
  have s3 : strLt "dim".toList "name".toList = true := by decide
  have s4 : strLt "name".toList "name".toList = false := by decide
  have a1 : attrOf (⟨"Attribute".toList, [("dim".toList, showNat d), ("name".toList, an)], false, false⟩ : Markup)
      "dim" = some (showNat d) := by
    simp only [attrOf, mapFind, s1]; rfl
  have a2 : attrOf (⟨"Attribute".toList, [("dim".toList, showNat d), ("name".toList, an)], false, false⟩ : Markup)
      "name" = some an := by
    simp only [attrOf, mapFind, s2, s3, s4]; rfl
  generalize hst : mkSt sh dim (Frame.part p :: rs) node = st
  generalize hmm : (⟨"Attribute".toList, [("dim".toList, showNat d), ("name".toList, an)], false, false⟩ : Markup)
    = m at a1 a2
  have hstack : st.stack = Frame.part p :: rs := by rw [← hst]; rfl
  have hn : String.ofList m.name = "Attribute" := by rw [← hmm]; exact String_ofList_toList _
  have ha : m.attrs = [("dim".toList, showNat d), ("name".toList, an)] := by rw [← hmm]
  have hcl : m.closed = false := by rw [← hmm]
  have h2 : (d == 0) = false := by simp; omega
  have h3 : ¬ (d > 2 ^ 31 - 1) := by omega
  have hd64 : d < 2 ^ 64 := by
    have : (2 : Nat) ^ 31 - 1 < 2 ^ 64 := by decide
    omega
  unfold openM
  rw [hstack]
  simp only [hn, ha, hc, hcl, a1, a2, readIndex_showNat d hd64, h2, h3]
  simp [← hst, mkSt]

theorem contentM_attr_row (sh : Shape) (dim d count line : Nat) (an : Str) (acc : List (List Rat))
    (rs : List Frame) (node : Node) (v : List Rat) (hv : v.length = d) (hc : acc.length < count) :
    contentM (mkSt sh dim (Frame.attr an d count acc :: rs) node) line (joinSp (v.map showQ)) =
      .ok (mkSt sh dim (Frame.attr an d count (v :: acc) :: rs) node) := by
  have h1 : ¬ acc.length ≥ count := by omega
  have h2 : mapMOpt readQ (v.map showQ) = some v := mapMOpt_map _ _ _ (fun q _ => readQ_showQ q)
  simp [contentM, mkSt, h1, splitWs_joinSp_showQ, hv, h2]

theorem Run_attr_rows (sh : Shape) (dim d count : Nat) (an : Str) (rs : List Frame) (node : Node)
    (names : List Str) (hd : 0 < d) (rows : List (List Rat)) :
    ∀ (acc : List (List Rat)), (∀ v ∈ rows, v.length = d) → acc.length + rows.length ≤ count →
    Run (rows.map (fun v => sp 6 ++ joinSp (v.map showQ))) names
      (mkSt sh dim (Frame.attr an d count acc :: rs) node) names
      (mkSt sh dim (Frame.attr an d count (rows.reverse ++ acc) :: rs) node) := by
  induction rows with
  | nil => intro acc _ _; exact Run.nil _ _
  | cons v rows ih =>
    intro acc hrows hcount
    have hv : v.length = d := hrows v (by simp)
    have hvne : v ≠ [] := by intro e; subst e; simp at hv; omega
    simp only [List.length_cons] at hcount
    rw [List.map_cons, List.reverse_cons, List.append_assoc, List.singleton_append]
    refine Run.cons (Run.single ?_) (ih (v :: acc) (fun w hw => hrows w (by simp [hw])) (by simp; omega))
    intro tail i
    exact step_content (trim_sp_joinSp_showQ 6 v) (joinSp_showQ_ne_nil hvne)
      (tokLine_head (joinSp_showQ_chars v)) (tokLine_last (joinSp_showQ_chars v))
      (contentM_attr_row sh dim d count (i + 1) an acc rs node v hv (by omega))

theorem closeTop_attr_frame (sh : Shape) (dim d count : Nat) (an : Str) (acc : List (List Rat)) (p : PartSt)
    (rs : List Frame) (node : Node) (line : Nat) (h : count ≤ acc.length) :
    closeTop (mkSt sh dim (Frame.attr an d count acc :: Frame.part p :: rs) node) line =
      .ok (mkSt sh dim (Frame.part { p with attrs := mapInsert strLt an ⟨d, acc.reverse⟩ p.attrs } :: rs) node) := by
  simp [closeTop, mkSt, Nat.not_lt.mpr h]

def attrBlock (an : Str) (a : Attr) : List Str :=
  [sp 4 ++ "<Attribute name=".toList ++ q an ++ " dim=".toList ++ q (showNat a.dim) ++ ">".toList] ++
    a.vals.map (fun v => sp 6 ++ joinSp (v.map showQ)) ++ [sp 4 ++ "</Attribute>".toList]

def attrBlocks (l : List (Str × Attr)) : List Str := (l.map (fun (an, a) => attrBlock an a)).flatten

theorem Run_attr_block (sh : Shape) (dim : Nat) (p : PartSt) (rs : List Frame) (node : Node) (b : Str)
    (below : List Str) (an : Str) (a : Attr) (ha : AttrSetOk (p.sizes.getD 0 0) an a) :
    Run (attrBlock an a) (b :: below)
      (mkSt sh dim (Frame.part p :: rs) node) (b :: below)
      (mkSt sh dim (Frame.part { p with attrs := mapInsert strLt an a p.attrs } :: rs) node) := by
  obtain ⟨d, vals⟩ := a
  obtain ⟨hname, hd0, hd31, hlen, hrows⟩ := ha
  simp only at hd0 hd31 hlen hrows
  unfold attrBlock
  simp only
  have e1 : sp 4 ++ "<Attribute name=".toList ++ q an ++ " dim=".toList ++ q (showNat d) ++ ">".toList =
      sp 4 ++ '<' :: (('A' :: ("ttribute name=".toList ++ q an ++ " dim=".toList ++ q (showNat d))) ++ ['>']) := by
    simp
  have e2 : "</Attribute>".toList = '<' :: (('/' :: "Attribute".toList) ++ ['>']) := by decide
  rw [e1, e2]
  have r1 := Run_open_line (k := 4) (by decide) (scan_attr_line an d hname) rfl rfl
    (fun line => openM_attribute sh dim p rs node line an d hd0 hd31) (b :: below)
  have r2 := Run_attr_rows sh dim d (p.sizes.getD 0 0) an (Frame.part p :: rs) node
    ("Attribute".toList :: b :: below) hd0 vals [] hrows (by simp [hlen])
  have r3 := Run_close_line (k := 4) (nm := "Attribute".toList) (by decide)
    (fun line => closeTop_attr_frame sh dim d (p.sizes.getD 0 0) an (vals.reverse ++ []) p rs node line
      (by simp [hlen])) b below
  have := Run.append (Run.append r1 r2) r3
  simpa using this

theorem Run_attr_blocks (sh : Shape) (dim : Nat) (name : Str) (tt : TopoType) (sizes : List Nat)
    (maps : List (Option (List Nat))) (topo : List (Option (List (List Nat)))) (rs : List Frame) (node : Node)
    (b : Str) (below : List Str) (todo : List (Str × Attr)) :
    ∀ (done : List (Str × Attr)), (∀ na ∈ todo, AttrSetOk (sizes.getD 0 0) na.1 na.2) →
    (done ++ todo).Pairwise (fun a b => strLt a.1 b.1 = true) →
    Run (attrBlocks todo) (b :: below)
      (mkSt sh dim (Frame.part ⟨name, [], tt, sizes, maps, topo, done⟩ :: rs) node) (b :: below)
      (mkSt sh dim (Frame.part ⟨name, [], tt, sizes, maps, topo, done ++ todo⟩ :: rs) node) := by
  induction todo with
  | nil => intro done _ _; simpa [attrBlocks] using Run.nil _ _
  | cons na todo ih =>
    intro done hp hsorted
    obtain ⟨an, a⟩ := na
    have hfresh : ∀ kv ∈ done, strLt kv.1 an = true := by
      intro kv hkv
      exact (List.pairwise_append.1 hsorted).2.2 kv hkv (an, a) (by simp)
    have r1 := Run_attr_block sh dim ⟨name, [], tt, sizes, maps, topo, done⟩ rs node b below an a
      (hp (an, a) (by simp))
    simp only [mapInsert_append _ _ _ hfresh] at r1
    have r2 := ih (done ++ [(an, a)]) (fun np hnp => hp np (by simp [hnp])) (by simpa using hsorted)
    have := Run.append r1 r2
    simpa [attrBlocks] using this

/-! ## Part 5c: closing a mesh part -/

theorem optOf_getD (idx : List Nat) : (optOf idx).getD [] = idx := by
  unfold optOf
  cases idx <;> rfl

theorem map_optOf_getD (maps : List (List Nat)) : (maps.map optOf).map (fun o => o.getD []) = maps := by
  induction maps with
  | nil => rfl
  | cons a l ih => simp only [List.map_cons, optOf_getD, ih]

theorem optT_getD (t : List (List Nat)) : (optT t).getD [] = t := by
  unfold optT
  cases t <;> rfl

theorem map_optT_getD (topo : List (List (List Nat))) : (topo.map optT).map (fun o => o.getD []) = topo := by
  induction topo with
  | nil => rfl
  | cons a l ih => simp only [List.map_cons, optT_getD, ih]

theorem maps_check (sizes : List Nat) (maps : List (List Nat)) (hl : sizes.length = maps.length)
    (hm : ∀ d, d < maps.length → (maps.getD d []).length = sizes.getD d 0) :
    (List.range sizes.length).any (fun i => ((maps.map optOf).getD i none).isNone && decide (sizes.getD i 0 > 0)) =
      false := by
  rw [List.any_eq_false]
  intro i hi
  rw [List.mem_range] at hi
  have hi' : i < maps.length := by omega
  have h1 : (maps.map optOf).getD i none = optOf (maps.getD i []) := by
    simp [List.getD, hi']
  rw [h1]
  have h2 := hm i hi'
  unfold optOf
  cases hidx : maps.getD i [] with
  | nil => rw [hidx] at h2; simp at h2; simp [← h2]
  | cons a l => simp

theorem topo_check (sizes : List Nat) (topo : List (List (List Nat)))
    (hm : ∀ i, i < topo.length → (topo.getD i []).length = sizes.getD (i + 1) 0) :
    (List.range (topo.map optT).length).any
      (fun i => decide (sizes.getD (i + 1) 0 > 0) && ((topo.map optT).getD i none).isNone) = false := by
  rw [List.any_eq_false]
  intro i hi
  rw [List.mem_range, List.length_map] at hi
  have h1 : (topo.map optT).getD i none = optT (topo.getD i []) := by
    simp [List.getD, hi]
  rw [h1]
  have h2 := hm i hi
  unfold optT
  cases hidx : topo.getD i [] with
  | nil => rw [hidx] at h2; simp at h2; simp [← h2]
  | cons a l => simp

theorem closeTop_part_frame (sh : Shape) (dim : Nat) (name : Str) (hasTopo : Bool) (sizes : List Nat)
    (maps : List (List Nat)) (topo : List (List (List Nat))) (attrs : List (Str × Attr))
    (rs : List Frame) (mesh : Option Mesh) {chs : List (Str × Chart)} {wdim : Nat} (parts : List (Str × Part)) (pts : List Partition) (line : Nat)
    (hl : sizes.length = maps.length)
    (hm : ∀ d, d < maps.length → (maps.getD d []).length = sizes.getD d 0)
    (ht : hasTopo = true → ∀ i, i < topo.length → (topo.getD i []).length = sizes.getD (i + 1) 0) :
    closeTop (mkSt sh dim (Frame.part ⟨name, [], topoTy hasTopo, sizes, maps.map optOf, topo.map optT, attrs⟩ :: rs)
        ⟨mesh, parts, pts, chs, wdim⟩) line =
      .ok (mkSt sh dim rs ⟨mesh, mapInsert strLt name ⟨[], hasTopo, sizes, maps, topo, attrs⟩ parts, pts, chs, wdim⟩) := by
  have h1 := maps_check sizes maps hl hm
  cases hasTopo with
  | false =>
    have h2 : (topoTy false == TopoType.full) = false := by decide
    have h3 : (topoTy false != TopoType.none) = false := by decide
    simp only [closeTop, mkSt, h1, h2, h3, map_optOf_getD, map_optT_getD, Bool.false_and, Bool.false_eq_true,
      if_false]
  | true =>
    have h2 : (topoTy true == TopoType.full) = true := by decide
    have h3 : (topoTy true != TopoType.none) = true := by decide
    have h4 := topo_check sizes topo (ht rfl)
    simp only [closeTop, mkSt, h1, h2, h3, h4, map_optOf_getD, map_optT_getD, Bool.true_and, Bool.false_eq_true,
      if_false]

/-! ## Part 6: a whole mesh part, all mesh parts -/

/-- the `<MeshPart …>` line body (between the brackets) -/
def partOpen (name : Str) (hasTopo : Bool) (sizes : List Nat) : Str :=
  'M' :: ("eshPart name=".toList ++ q name ++ " parent=\"root\"".toList ++
        " topology=".toList ++ q (topoStr hasTopo) ++ " size=".toList ++ q (joinSp (sizes.map showNat)))

theorem writePart_eq (name : Str) (hasTopo : Bool) (sizes : List Nat) (maps : List (List Nat))
    (topo : List (List (List Nat))) (attrs : List (Str × Attr)) :
    writePart name ⟨[], hasTopo, sizes, maps, topo, attrs⟩ =
      [sp 2 ++ '<' :: (partOpen name hasTopo sizes ++ ['>'])] ++ mapBlocks 0 maps ++
        (if hasTopo then ptopoBlocks 4 0 topo else []) ++ attrBlocks attrs ++
        [sp 2 ++ '<' :: (('/' :: "MeshPart".toList) ++ ['>'])] := by
  have ea : (attrs.map (fun (an, a) =>
      [sp 4 ++ "<Attribute name=".toList ++ q an ++ " dim=".toList ++ q (showNat a.dim) ++ ">".toList] ++
      a.vals.map (fun v => sp 6 ++ joinSp (v.map showQ)) ++
      [sp 4 ++ "</Attribute>".toList])).flatten = attrBlocks attrs := rfl
  unfold writePart
  dsimp only
  rw [mapBlocks_eq, writeTopo_skip_eq, ea]
  cases hasTopo <;> simp [topoStr, partOpen]

theorem replicate_map_optT (n : Nat) : (List.replicate n ([] : List (List Nat))).map optT = List.replicate n none := by
  simp [optT]

theorem Run_writePart (sh : Shape) (dim : Nat) (mesh : Option Mesh) {chs : List (Str × Chart)} {wdim : Nat} (parts : List (Str × Part))
    (pts : List Partition) (name : Str) (p : Part) (hp : PartOkFull sh dim name p) (hdim : dim + 1 < 2 ^ 64)
    (hfresh : ∀ kv ∈ parts, strLt kv.1 name = true) (b : Str) (below : List Str) :
    Run (writePart name p) (b :: below) (mkSt sh dim [Frame.root] ⟨mesh, parts, pts, chs, wdim⟩) (b :: below)
      (mkSt sh dim [Frame.root] ⟨mesh, parts ++ [(name, p)], pts, chs, wdim⟩) := by
  obtain ⟨chart, hasTopo, sizes, maps, topo, attrs⟩ := p
  obtain ⟨h1, hsl, hml, hlens, htl, htopo1, htopo0, hs64, hm64, hname, hattrs, hasorted, hzb⟩ := hp
  simp only at h1 hsl hml hlens htl htopo1 htopo0 hs64 hm64 hattrs hasorted hzb
  subst h1
  rw [writePart_eq]
  have hbound : sizes.getD 0 0 ≤ 2 ^ 64 := by
    cases hm : sizes with
    | nil => simp
    | cons a t => have := hs64 a (by simp [hm]); simp; omega
  have hs : scanMarkup ('<' :: (partOpen name hasTopo sizes ++ ['>'])) =
      .ok (some (partMarkup name hasTopo sizes)) :=
    scan_part_line name hasTopo sizes hname
  have r1 := Run_open_line (k := 2) (a := 'M') (by decide) hs rfl rfl
    (fun line => openM_part (chs := chs) (wdim := wdim) sh dim mesh parts pts line name hasTopo sizes hsl hs64 hzb (mapFind_none _ _ hfresh))
    (b :: below)
  have r2 := Run_map_blocks sh dim name (topoTy hasTopo) sizes (List.replicate dim none) [] [Frame.root]
    ⟨mesh, parts, pts, chs, wdim⟩ "MeshPart".toList (b :: below) maps 0 [] rfl (by rw [hml]; omega)
    (by
      intro j hj
      have := hlens j (by omega)
      simpa using this)
    hm64
  rw [hml] at r2
  have r3 : Run (if hasTopo then ptopoBlocks 4 0 topo else []) ("MeshPart".toList :: b :: below)
      (mkSt sh dim [Frame.part ⟨name, [], topoTy hasTopo, sizes, ([] ++ maps).map optOf, List.replicate dim none, []⟩,
        Frame.root] ⟨mesh, parts, pts, chs, wdim⟩) ("MeshPart".toList :: b :: below)
      (mkSt sh dim [Frame.part ⟨name, [], topoTy hasTopo, sizes, ([] ++ maps).map optOf, topo.map optT, []⟩,
        Frame.root] ⟨mesh, parts, pts, chs, wdim⟩) := by
    cases hasTopo with
    | false =>
      rw [htopo0 rfl, replicate_map_optT]
      exact Run.nil _ _
    | true =>
      have := Run_ptopo_blocks sh dim 4 name (topoTy true) sizes (([] ++ maps).map optOf) [] [Frame.root]
        ⟨mesh, parts, pts, chs, wdim⟩ "MeshPart".toList (b :: below) (by decide) hbound topo 0 [] rfl (by rw [htl]; omega)
        (by
          intro j hj
          have := htopo1 rfl j (by omega)
          simpa [tuplesProp] using this)
      rw [htl] at this
      simpa using this
  have r4 := Run_attr_blocks sh dim name (topoTy hasTopo) sizes (([] ++ maps).map optOf) (topo.map optT)
    [Frame.root] ⟨mesh, parts, pts, chs, wdim⟩ "MeshPart".toList (b :: below) attrs [] hattrs (by simpa using hasorted)
  have r5 := Run_close_line (k := 2) (nm := "MeshPart".toList) (by decide)
    (fun line => closeTop_part_frame (chs := chs) (wdim := wdim) sh dim name hasTopo sizes maps topo attrs [Frame.root] mesh parts pts line
      (by omega) (by intro d hd; exact hlens d (by omega))
      (by intro ht i hi; exact (htopo1 ht i (by omega)).1)) b below
  rw [mapInsert_append _ _ _ hfresh] at r5
  simp only [List.nil_append] at r2 r3 r4
  exact Run.append (Run.append (Run.append (Run.append r1 r2) r3) r4) r5

def partsLines (parts : List (Str × Part)) : List Str :=
  (parts.map (fun (nm, p) => writePart nm p)).flatten

theorem Run_parts (sh : Shape) (dim : Nat) (mesh : Option Mesh) {chs : List (Str × Chart)} {wdim : Nat} (pts : List Partition) (hdim : dim + 1 < 2 ^ 64)
    (b : Str) (below : List Str) (todo : List (Str × Part)) :
    ∀ (done : List (Str × Part)), (∀ np ∈ todo, PartOkFull sh dim np.1 np.2) →
    (done ++ todo).Pairwise (fun a b => strLt a.1 b.1 = true) →
    Run (partsLines todo) (b :: below) (mkSt sh dim [Frame.root] ⟨mesh, done, pts, chs, wdim⟩) (b :: below)
      (mkSt sh dim [Frame.root] ⟨mesh, done ++ todo, pts, chs, wdim⟩) := by
  induction todo with
  | nil => intro done _ _; simpa [partsLines] using Run.nil _ _
  | cons np todo ih =>
    intro done hp hsorted
    obtain ⟨nm, p⟩ := np
    have hfresh : ∀ kv ∈ done, strLt kv.1 nm = true := by
      intro kv hkv
      exact (List.pairwise_append.1 hsorted).2.2 kv hkv (nm, p) (by simp)
    have r1 := Run_writePart (chs := chs) (wdim := wdim) sh dim mesh done pts nm p (hp (nm, p) (by simp)) hdim hfresh b below
    have r2 := ih (done ++ [(nm, p)]) (fun np hnp => hp np (by simp [hnp])) (by simpa using hsorted)
    have := Run.append r1 r2
    simpa [partsLines] using this

/-! ## Part 7: partitions — sorted sets -/

theorem setInsert_append (x : Nat) (l : List Nat) (h : ∀ y ∈ l, y < x) : setInsert x l = l ++ [x] := by
  induction l with
  | nil => rfl
  | cons y ys ih =>
    have hy : y < x := h y (by simp)
    have h1 : ¬ x < y := by omega
    have h2 : (x == y) = false := by simp; omega
    simp only [setInsert, h1, h2, if_false, Bool.false_eq_true, List.cons_append]
    rw [ih (fun z hz => h z (by simp [hz]))]

theorem foldl_setInsert (suf : List Nat) : ∀ pre : List Nat, (pre ++ suf).Pairwise (· < ·) →
    suf.foldl (fun acc e => setInsert e acc) pre = pre ++ suf := by
  induction suf with
  | nil => intro pre _; simp
  | cons e suf ih =>
    intro pre hp
    have h1 : ∀ y ∈ pre, y < e := fun y hy => (List.pairwise_append.1 hp).2.2 y hy e (by simp)
    rw [List.foldl_cons, setInsert_append e pre h1, ih (pre ++ [e]) (by simpa using hp)]
    simp

theorem sorted_length_le (l : List Nat) : ∀ k n : Nat, l.Pairwise (· < ·) → (∀ x ∈ l, k ≤ x ∧ x < n) →
    l.length ≤ n - k := by
  induction l with
  | nil => intro k n _ _; simp
  | cons a l ih =>
    intro k n hp hb
    have ha := hb a (by simp)
    have hpc := List.pairwise_cons.1 hp
    have := ih (a + 1) n hpc.2 (fun x hx => ⟨hpc.1 x hx, (hb x (by simp [hx])).2⟩)
    simp only [List.length_cons]
    omega

/-! ## Part 8: the `<Patch>` blocks -/

theorem scan_patch_line (r n : Nat) :
    scanMarkup ('<' :: (('P' :: ("atch rank=".toList ++ q (showNat r) ++ " size=".toList ++ q (showNat n))) ++ ['>'])) =
      .ok (some { name := "Patch".toList,
                  attrs := [("rank".toList, showNat r), ("size".toList, showNat n)],
                  closed := false, termin := false }) := by
  have e : '<' :: (('P' :: ("atch rank=".toList ++ q (showNat r) ++ " size=".toList ++ q (showNat n))) ++ ['>']) =
      '<' :: ("Patch".toList ++ ' ' :: ("rank".toList ++ '=' :: '"' :: (showNat r ++ '"' :: ' ' ::
        ("size".toList ++ '=' :: '"' :: (showNat n ++ ['"', '>']))))) := by
    simp [q]
  rw [e, scanMarkup_two_attr (by decide) (by decide) (by decide)
    (showNat_attr r).1 (showNat_attr r).2 (showNat_attr n).1 (showNat_attr n).2]
  have h1 : strLt "size".toList "rank".toList = false := by decide
  have h2 : strLt "rank".toList "size".toList = true := by decide
  simp only [mapInsert, h1, h2, Bool.false_eq_true, if_false, if_true]

theorem openM_patch (sh : Shape) (dim : Nat) (name : Str) (prio level : Int) (nr ne : Nat)
    (patches : List (List Nat)) (hv : List Bool) (rs : List Frame) (node : Node) (line r n : Nat)
    (hr : r < nr) (hr64 : r < 2 ^ 64) (hn64 : n < 2 ^ 64) (hfalse : hv.getD r false = false) :
    openM (mkSt sh dim (Frame.partition name prio level nr ne patches hv :: rs) node) line
      (⟨"Patch".toList, [("rank".toList, showNat r), ("size".toList, showNat n)], false, false⟩ : Markup) =
      .ok (mkSt sh dim (Frame.patch r n ne 0 [] :: Frame.partition name prio level nr ne patches hv :: rs) node) := by
  have hc : checkAttribs line (specOf "Patch") [("rank".toList, showNat r), ("size".toList, showNat n)] = .ok () := by
    simp [checkAttribs, specOf]
  have s1 : strLt "rank".toList "rank".toList = false := by decide
  have s2 : strLt "size".toList "rank".toList = false := by decide
  have s3 : strLt "rank".toList "size".toList = true := by decide
  have s4 : strLt "size".toList "size".toList = false := by decide
  have a1 : attrOf (⟨"Patch".toList, [("rank".toList, showNat r), ("size".toList, showNat n)], false, false⟩ : Markup)
      "rank" = some (showNat r) := by
    simp only [attrOf, mapFind, s1]; rfl
  have a2 : attrOf (⟨"Patch".toList, [("rank".toList, showNat r), ("size".toList, showNat n)], false, false⟩ : Markup)
      "size" = some (showNat n) := by
    simp only [attrOf, mapFind, s2, s3, s4]; rfl
  generalize hst : mkSt sh dim (Frame.partition name prio level nr ne patches hv :: rs) node = st
  generalize hmm : (⟨"Patch".toList, [("rank".toList, showNat r), ("size".toList, showNat n)], false, false⟩ : Markup)
    = m at a1 a2
  have hstack : st.stack = Frame.partition name prio level nr ne patches hv :: rs := by rw [← hst]; rfl
  have hn : String.ofList m.name = "Patch" := by rw [← hmm]; exact String_ofList_toList _
  have ha : m.attrs = [("rank".toList, showNat r), ("size".toList, showNat n)] := by rw [← hmm]
  have hcl : m.closed = false := by rw [← hmm]
  have h2 : ¬ r ≥ nr := by omega
  unfold openM
  rw [hstack]
  simp only [hn, ha, hc, hcl, a1, a2, readIndex_showNat r hr64, readIndex_showNat n hn64, h2, hfalse]
  simp [← hst, mkSt]

theorem contentM_patch_row (sh : Shape) (dim rank size ne read line : Nat) (elems : List Nat) (rs : List Frame)
    (node : Node) (e : Nat) (he : e < ne) (he64 : e < 2 ^ 64) (hc : read < size) :
    contentM (mkSt sh dim (Frame.patch rank size ne read elems :: rs) node) line (showNat e) =
      .ok (mkSt sh dim (Frame.patch rank size ne (read + 1) (elems ++ [e]) :: rs) node) := by
  have h1 : ¬ read ≥ size := by omega
  have h2 : ¬ e ≥ ne := by omega
  simp [contentM, mkSt, h1, h2, readIndex_showNat e he64]

theorem Run_patch_rows (sh : Shape) (dim rank size ne : Nat) (rs : List Frame) (node : Node)
    (names : List Str) (rows : List Nat) :
    ∀ (acc : List Nat), (∀ e ∈ rows, e < ne ∧ e < 2 ^ 64) → acc.length + rows.length ≤ size →
    Run (rows.map (fun e => sp 6 ++ showNat e)) names
      (mkSt sh dim (Frame.patch rank size ne acc.length acc :: rs) node) names
      (mkSt sh dim (Frame.patch rank size ne (acc ++ rows).length (acc ++ rows) :: rs) node) := by
  induction rows with
  | nil => intro acc _ _; simpa using Run.nil _ _
  | cons v rows ih =>
    intro acc hrows hcount
    simp only [List.length_cons] at hcount
    have r2 := ih (acc ++ [v]) (fun w hw => hrows w (by simp [hw])) (by simp; omega)
    rw [List.map_cons]
    have e1 : acc ++ v :: rows = acc ++ [v] ++ rows := by simp
    rw [e1]
    refine Run.cons (Run.single ?_) r2
    intro tail i
    obtain ⟨h1, h2, h3, h4⟩ := index_line 6 v
    have hc := contentM_patch_row sh dim rank size ne acc.length (i + 1) acc rs node v (hrows v (by simp)).1
      (hrows v (by simp)).2 (by omega)
    have e2 : (acc ++ [v]).length = acc.length + 1 := by simp
    rw [e2]
    exact step_content h1 h2 h3 h4 hc

theorem closeTop_patch_frame (sh : Shape) (dim rank size ne read : Nat) (elems : List Nat) (name : Str)
    (prio level : Int) (nr ne' : Nat) (patches : List (List Nat)) (hv : List Bool) (rs : List Frame) (node : Node)
    (line : Nat) (h : size ≤ read) :
    closeTop (mkSt sh dim (Frame.patch rank size ne read elems ::
        Frame.partition name prio level nr ne' patches hv :: rs) node) line =
      .ok (mkSt sh dim (Frame.partition name prio level nr ne'
        (patches.set rank (elems.foldl (fun acc e => setInsert e acc) (patches.getD rank [])))
        (hv.set rank true) :: rs) node) := by
  simp [closeTop, mkSt, Nat.not_lt.mpr h]

def patchBlock (r : Nat) (el : List Nat) : List Str :=
  [sp 4 ++ "<Patch rank=".toList ++ q (showNat r) ++ " size=".toList ++ q (showNat el.length) ++ ">".toList] ++
    el.map (fun e => sp 6 ++ showNat e) ++ [sp 4 ++ "</Patch>".toList]

def patchBlocks : Nat → List (List Nat) → List Str
  | _, [] => []
  | k, el :: rest => patchBlock k el ++ patchBlocks (k + 1) rest

theorem Run_patch_block (sh : Shape) (dim : Nat) (name : Str) (prio level : Int) (nr ne : Nat)
    (patches : List (List Nat)) (hv : List Bool) (rs : List Frame) (node : Node) (b : Str) (below : List Str)
    (r : Nat) (el : List Nat) (hr : r < nr) (hnr : nr < 2 ^ 31) (hne : ne < 2 ^ 31)
    (hempty : patches.getD r [] = []) (hfalse : hv.getD r false = false)
    (hsorted : el.Pairwise (· < ·)) (hb : ∀ e ∈ el, e < ne) :
    Run (patchBlock r el) (b :: below)
      (mkSt sh dim (Frame.partition name prio level nr ne patches hv :: rs) node) (b :: below)
      (mkSt sh dim (Frame.partition name prio level nr ne (patches.set r el) (hv.set r true) :: rs) node) := by
  have hlen : el.length ≤ ne := by
    have := sorted_length_le el 0 ne hsorted (fun x hx => ⟨by omega, hb x hx⟩)
    omega
  have h31 : (2 : Nat) ^ 31 < 2 ^ 64 := by decide
  unfold patchBlock
  have e1 : sp 4 ++ "<Patch rank=".toList ++ q (showNat r) ++ " size=".toList ++ q (showNat el.length) ++ ">".toList =
      sp 4 ++ '<' :: (('P' :: ("atch rank=".toList ++ q (showNat r) ++ " size=".toList ++ q (showNat el.length))) ++
        ['>']) := by
    simp
  have e2 : "</Patch>".toList = '<' :: (('/' :: "Patch".toList) ++ ['>']) := by decide
  rw [e1, e2]
  have r1 := Run_open_line (k := 4) (by decide) (scan_patch_line r el.length) rfl rfl
    (fun line => openM_patch sh dim name prio level nr ne patches hv rs node line r el.length hr (by omega) (by omega) hfalse)
    (b :: below)
  have r2 := Run_patch_rows sh dim r el.length ne (Frame.partition name prio level nr ne patches hv :: rs) node
    ("Patch".toList :: b :: below) el [] (fun e he => ⟨hb e he, by have := hb e he; omega⟩) (by simp)
  have r3 := Run_close_line (k := 4) (nm := "Patch".toList) (by decide)
    (fun line => closeTop_patch_frame sh dim r el.length ne ([] ++ el).length ([] ++ el) name prio level nr ne
      patches hv rs node line (by simp)) b below
  rw [hempty, foldl_setInsert _ [] (by simpa using hsorted)] at r3
  have := Run.append (Run.append r1 r2) r3
  simpa using this

theorem getD_replicate_true_append (k : Nat) (l : List Bool) :
    (List.replicate k true ++ false :: l).getD k false = false := by
  induction k with
  | zero => rfl
  | succ k ih => simp [List.replicate_succ]

theorem set_replicate_true_append (k : Nat) (l : List Bool) :
    (List.replicate k true ++ false :: l).set k true = List.replicate (k + 1) true ++ l := by
  induction k with
  | zero => rfl
  | succ k ih => simp only [List.replicate_succ, List.cons_append, List.set_cons_succ, ih]

theorem any_not_replicate_true (n : Nat) : (List.replicate n true).any (fun b => !b) = false := by
  induction n with
  | zero => rfl
  | succ n ih => simp [List.replicate_succ]

theorem Run_patch_blocks (sh : Shape) (dim : Nat) (name : Str) (prio level : Int) (nr ne : Nat)
    (rs : List Frame) (node : Node) (b : Str) (below : List Str) (hnr : nr < 2 ^ 31) (hne : ne < 2 ^ 31)
    (todo : List (List Nat)) :
    ∀ (k : Nat) (done : List (List Nat)), done.length = k → k + todo.length ≤ nr →
    (∀ el ∈ todo, el.Pairwise (· < ·) ∧ ∀ e ∈ el, e < ne) →
    Run (patchBlocks k todo) (b :: below)
      (mkSt sh dim (Frame.partition name prio level nr ne (done ++ List.replicate todo.length [])
        (List.replicate k true ++ List.replicate todo.length false) :: rs) node)
      (b :: below)
      (mkSt sh dim (Frame.partition name prio level nr ne (done ++ todo)
        (List.replicate (k + todo.length) true) :: rs) node) := by
  induction todo with
  | nil =>
    intro k done _ _ _
    simpa [patchBlocks] using Run.nil _ _
  | cons t ts ih =>
    intro k done hk hle hP
    subst hk
    have hP0 := hP t (by simp)
    have r1 := Run_patch_block sh dim name prio level nr ne (done ++ [] :: List.replicate ts.length [])
      (List.replicate done.length true ++ false :: List.replicate ts.length false)
      rs node b below done.length t (by simp at hle; omega) hnr hne (getD_append_length _ _ _ _)
      (getD_replicate_true_append _ _) hP0.1 hP0.2
    rw [set_append_length, set_replicate_true_append] at r1
    have r2 := ih (done.length + 1) (done ++ [t]) (by simp) (by simp at hle; omega)
      (fun el hel => hP el (by simp [hel]))
    have e : done ++ [t] ++ List.replicate ts.length [] = done ++ t :: List.replicate ts.length [] := by simp
    have e2 : done.length + 1 + ts.length = done.length + (t :: ts).length := by simp; omega
    rw [e, e2] at r2
    have := Run.append r1 r2
    simpa [patchBlocks, List.replicate_succ] using this

theorem patchBlocks_eq (patches : List (List Nat)) : ∀ k : Nat,
    ((patches.zipIdx k).map (fun (el, r) =>
      [sp 4 ++ "<Patch rank=".toList ++ q (showNat r) ++ " size=".toList ++ q (showNat el.length) ++ ">".toList] ++
      el.map (fun e => sp 6 ++ showNat e) ++ [sp 4 ++ "</Patch>".toList])).flatten = patchBlocks k patches := by
  induction patches with
  | nil => intro k; rfl
  | cons t ts ih =>
    intro k
    rw [List.zipIdx_cons, List.map_cons, List.flatten_cons, ih (k + 1)]
    rfl

/-! ## Part 9: the `<Partition>` markup -/

def szStr (nr ne : Nat) : Str := showNat nr ++ ' ' :: showNat ne

theorem szStr_eq (nr ne : Nat) : szStr nr ne = joinSp ([nr, ne].map showNat) := by
  unfold szStr joinSp
  simp

theorem showInt_attr (z : Int) :
    (∀ c ∈ showInt z, c ≠ '"' ∧ c ≠ '<' ∧ c ≠ '>') ∧ trim (showInt z) = showInt z := by
  constructor
  · intro c hc
    have h := tokChar_showInt z c hc
    exact ⟨(tokChar_ne h).2.2.2.1, (tokChar_ne h).1, (tokChar_ne h).2.1⟩
  · exact trim_eq_self_of_noWs _ (showInt_tok z).2

theorem szStr_attr (nr ne : Nat) :
    (∀ c ∈ szStr nr ne, c ≠ '"' ∧ c ≠ '<' ∧ c ≠ '>') ∧ trim (szStr nr ne) = szStr nr ne := by
  rw [szStr_eq]; exact joinSp_showNat_attr _

/-- the sorted attribute map of the printed `<Partition …>` line -/
def ptAttrs (name : Str) (prio level : Int) (nr ne : Nat) : List (Str × Str) :=
  if name.isEmpty then
    [("level".toList, showInt level), ("priority".toList, showInt prio), ("size".toList, szStr nr ne)]
  else
    [("level".toList, showInt level), ("name".toList, name), ("priority".toList, showInt prio),
     ("size".toList, szStr nr ne)]

def ptMarkup (name : Str) (prio level : Int) (nr ne : Nat) : Markup :=
  ⟨"Partition".toList, ptAttrs name prio level nr ne, false, false⟩

/-- the `<Partition …>` line body (between the brackets) -/
def ptOpen (name : Str) (prio level : Int) (nr ne : Nat) : Str :=
  'P' :: ("artition".toList ++ (if name.isEmpty then [] else " name=".toList ++ q name) ++
    " priority=".toList ++ q (showInt prio) ++ " level=".toList ++ q (showInt level) ++
    " size=".toList ++ q (showNat nr ++ ' ' :: showNat ne))

theorem fold_pt_attrs3 (a b c : Str) :
    [("priority".toList, a), ("level".toList, b), ("size".toList, c)].foldl insAttr [] =
      [("level".toList, b), ("priority".toList, a), ("size".toList, c)] := by
  have s_level_level : strLt "level".toList "level".toList = false := by decide
  have s_level_name : strLt "level".toList "name".toList = true := by decide
  have s_level_priority : strLt "level".toList "priority".toList = true := by decide
  have s_level_size : strLt "level".toList "size".toList = true := by decide
  have s_name_level : strLt "name".toList "level".toList = false := by decide
  have s_name_name : strLt "name".toList "name".toList = false := by decide
  have s_name_priority : strLt "name".toList "priority".toList = true := by decide
  have s_name_size : strLt "name".toList "size".toList = true := by decide
  have s_priority_level : strLt "priority".toList "level".toList = false := by decide
  have s_priority_name : strLt "priority".toList "name".toList = false := by decide
  have s_priority_priority : strLt "priority".toList "priority".toList = false := by decide
  have s_priority_size : strLt "priority".toList "size".toList = true := by decide
  have s_size_level : strLt "size".toList "level".toList = false := by decide
  have s_size_name : strLt "size".toList "name".toList = false := by decide
  have s_size_priority : strLt "size".toList "priority".toList = false := by decide
  have s_size_size : strLt "size".toList "size".toList = false := by decide
  simp only [List.foldl, insAttr, mapInsert, s_level_level, s_level_name, s_level_priority, s_level_size, s_name_level, s_name_name, s_name_priority, s_name_size, s_priority_level, s_priority_name, s_priority_priority, s_priority_size, s_size_level, s_size_name, s_size_priority, s_size_size,
    Bool.false_eq_true, if_false, if_true]

theorem fold_pt_attrs4 (n a b c : Str) :
    [("name".toList, n), ("priority".toList, a), ("level".toList, b), ("size".toList, c)].foldl insAttr [] =
      [("level".toList, b), ("name".toList, n), ("priority".toList, a), ("size".toList, c)] := by
  have s_level_level : strLt "level".toList "level".toList = false := by decide
  have s_level_name : strLt "level".toList "name".toList = true := by decide
  have s_level_priority : strLt "level".toList "priority".toList = true := by decide
  have s_level_size : strLt "level".toList "size".toList = true := by decide
  have s_name_level : strLt "name".toList "level".toList = false := by decide
  have s_name_name : strLt "name".toList "name".toList = false := by decide
  have s_name_priority : strLt "name".toList "priority".toList = true := by decide
  have s_name_size : strLt "name".toList "size".toList = true := by decide
  have s_priority_level : strLt "priority".toList "level".toList = false := by decide
  have s_priority_name : strLt "priority".toList "name".toList = false := by decide
  have s_priority_priority : strLt "priority".toList "priority".toList = false := by decide
  have s_priority_size : strLt "priority".toList "size".toList = true := by decide
  have s_size_level : strLt "size".toList "level".toList = false := by decide
  have s_size_name : strLt "size".toList "name".toList = false := by decide
  have s_size_priority : strLt "size".toList "priority".toList = false := by decide
  have s_size_size : strLt "size".toList "size".toList = false := by decide
  simp only [List.foldl, insAttr, mapInsert, s_level_level, s_level_name, s_level_priority, s_level_size, s_name_level, s_name_name, s_name_priority, s_name_size, s_priority_level, s_priority_name, s_priority_priority, s_priority_size, s_size_level, s_size_name, s_size_priority, s_size_size,
    Bool.false_eq_true, if_false, if_true]

theorem scan_partition_line (name : Str) (prio level : Int) (nr ne : Nat) (hn : NameOk name) :
    scanMarkup ('<' :: (ptOpen name prio level nr ne ++ ['>'])) = .ok (some (ptMarkup name prio level nr ne)) := by
  cases name with
  | nil =>
    have e : '<' :: (ptOpen [] prio level nr ne ++ ['>']) =
        '<' :: (("Partition".toList ++ ' ' :: attrText [("priority".toList, showInt prio),
          ("level".toList, showInt level), ("size".toList, szStr nr ne)]) ++ ['>']) := by
      simp [q, attrText, ptOpen, szStr]
    rw [e, scanMarkup_attr_list _ (by simp) (by decide), fold_pt_attrs3]
    · rfl
    · intro kv hkv
      simp only [List.mem_cons, List.not_mem_nil, or_false] at hkv
      rcases hkv with rfl | rfl | rfl
      · exact attrOk_mk (by decide) (showInt_attr prio)
      · exact attrOk_mk (by decide) (showInt_attr level)
      · exact attrOk_mk (by decide) (szStr_attr nr ne)
  | cons c cs =>
    have e : '<' :: (ptOpen (c :: cs) prio level nr ne ++ ['>']) =
        '<' :: (("Partition".toList ++ ' ' :: attrText [("name".toList, c :: cs), ("priority".toList, showInt prio),
          ("level".toList, showInt level), ("size".toList, szStr nr ne)]) ++ ['>']) := by
      simp [q, attrText, ptOpen, szStr]
    rw [e, scanMarkup_attr_list _ (by simp) (by decide), fold_pt_attrs4]
    · rfl
    · intro kv hkv
      simp only [List.mem_cons, List.not_mem_nil, or_false] at hkv
      rcases hkv with rfl | rfl | rfl | rfl
      · exact attrOk_mk (by decide) (nameOk_attr hn)
      · exact attrOk_mk (by decide) (showInt_attr prio)
      · exact attrOk_mk (by decide) (showInt_attr level)
      · exact attrOk_mk (by decide) (szStr_attr nr ne)

theorem readInt_showNat31 (n : Nat) (h : n < 2 ^ 31) : readInt (showNat n) = some (n : Int) := by
  rw [← showInt_ofNat]
  exact readInt_showInt _ ⟨by omega, by omega⟩

theorem pt_attrOf (name : Str) (prio level : Int) (nr ne : Nat) :
    attrOf (ptMarkup name prio level nr ne) "size" = some (szStr nr ne) ∧
    (attrOf (ptMarkup name prio level nr ne) "name").getD [] = name ∧
    attrOf (ptMarkup name prio level nr ne) "priority" = some (showInt prio) ∧
    attrOf (ptMarkup name prio level nr ne) "level" = some (showInt level) := by
  have s_level_level : strLt "level".toList "level".toList = false := by decide
  have s_level_name : strLt "level".toList "name".toList = true := by decide
  have s_level_priority : strLt "level".toList "priority".toList = true := by decide
  have s_level_size : strLt "level".toList "size".toList = true := by decide
  have s_name_level : strLt "name".toList "level".toList = false := by decide
  have s_name_name : strLt "name".toList "name".toList = false := by decide
  have s_name_priority : strLt "name".toList "priority".toList = true := by decide
  have s_name_size : strLt "name".toList "size".toList = true := by decide
  have s_priority_level : strLt "priority".toList "level".toList = false := by decide
  have s_priority_name : strLt "priority".toList "name".toList = false := by decide
  have s_priority_priority : strLt "priority".toList "priority".toList = false := by decide
  have s_priority_size : strLt "priority".toList "size".toList = true := by decide
  have s_size_level : strLt "size".toList "level".toList = false := by decide
  have s_size_name : strLt "size".toList "name".toList = false := by decide
  have s_size_priority : strLt "size".toList "priority".toList = false := by decide
  have s_size_size : strLt "size".toList "size".toList = false := by decide
  cases name with
  | nil =>
    refine ⟨?_, ?_, ?_, ?_⟩ <;>
    · unfold ptMarkup ptAttrs
      simp only [attrOf, List.isEmpty_nil, if_true, mapFind, s_level_level, s_level_name, s_level_priority, s_level_size, s_name_level, s_name_name, s_name_priority, s_name_size, s_priority_level, s_priority_name, s_priority_priority, s_priority_size, s_size_level, s_size_name, s_size_priority, s_size_size]
      rfl
  | cons c cs =>
    refine ⟨?_, ?_, ?_, ?_⟩ <;>
    · unfold ptMarkup ptAttrs
      simp only [attrOf, List.isEmpty_cons, Bool.false_eq_true, if_false, mapFind, s_level_level, s_level_name, s_level_priority, s_level_size, s_name_level, s_name_name, s_name_priority, s_name_size, s_priority_level, s_priority_name, s_priority_priority, s_priority_size, s_size_level, s_size_name, s_size_priority, s_size_size]
      rfl

theorem partitionCreate_printed (line : Nat) (name : Str) (prio level : Int) (nr ne : Nat)
    (hprio : -(2 ^ 31 : Int) ≤ prio ∧ prio < 2 ^ 31) (hlevel : 0 ≤ level ∧ level < 2 ^ 31)
    (hnr : nr < 2 ^ 31) (hne : ne < 2 ^ 31) :
    partitionCreate line (ptMarkup name prio level nr ne) =
      .ok (Frame.partition name prio level nr ne (List.replicate nr []) (List.replicate nr false)) := by
  obtain ⟨a1, a2, a3, a4⟩ := pt_attrOf name prio level nr ne
  have hsplit : splitWs (szStr nr ne) = [showNat nr, showNat ne] := by
    rw [szStr_eq, splitWs_joinSp_showNat]; rfl
  have hl : ¬ level < 0 := by omega
  unfold partitionCreate
  rw [a1, a2, a3, a4]
  simp only [hsplit, readInt_showNat31 nr hnr, readInt_showNat31 ne hne, readInt_showInt prio hprio,
    readInt_showInt level ⟨by omega, hlevel.2⟩, hl, if_false, Int.toNat_natCast]
  simp
  omega

theorem openM_partition (sh : Shape) (dim : Nat) (node : Node) (line : Nat) (name : Str) (prio level : Int)
    (nr ne : Nat) (hprio : -(2 ^ 31 : Int) ≤ prio ∧ prio < 2 ^ 31) (hlevel : 0 ≤ level ∧ level < 2 ^ 31)
    (hnr : nr < 2 ^ 31) (hne : ne < 2 ^ 31) :
    openM (mkSt sh dim [Frame.root] node) line (ptMarkup name prio level nr ne) =
      .ok (mkSt sh dim [Frame.partition name prio level nr ne (List.replicate nr []) (List.replicate nr false), Frame.root] node) := by
  have hc : checkAttribs line (specOf "Partition") (ptMarkup name prio level nr ne).attrs = .ok () := by
    unfold ptMarkup ptAttrs
    cases name <;> simp [checkAttribs, specOf]
  have hm := partitionCreate_printed line name prio level nr ne hprio hlevel hnr hne
  have hn : String.ofList (ptMarkup name prio level nr ne).name = "Partition" := String_ofList_toList _
  have hcl : (ptMarkup name prio level nr ne).closed = false := rfl
  generalize hst : mkSt sh dim [Frame.root] node = st
  generalize ptMarkup name prio level nr ne = m at hm hc hn hcl ⊢
  have hstack : st.stack = [Frame.root] := by rw [← hst]; rfl
  unfold openM
  rw [hstack]
  simp only [hn, hc, hcl, hm]
  simp [← hst, mkSt]

theorem closeTop_partition_frame (sh : Shape) (dim : Nat) (name : Str) (prio level : Int) (nr ne : Nat)
    (patches : List (List Nat)) (hv : List Bool) (rs : List Frame) (mesh : Option Mesh) {chs : List (Str × Chart)} {wdim : Nat} (parts : List (Str × Part))
    (pts : List Partition) (line : Nat) (hall : hv.any (fun b => !b) = false)
    (hsum : (patches.map List.length).sum = ne) :
    closeTop (mkSt sh dim (Frame.partition name prio level nr ne patches hv :: rs) ⟨mesh, parts, pts, chs, wdim⟩) line =
      .ok (mkSt sh dim rs ⟨mesh, parts, pts ++ [⟨name, prio, level, nr, ne, patches⟩], chs, wdim⟩) := by
  simp only [closeTop, mkSt, hall, hsum, bne_self_eq_false, Bool.false_eq_true, if_false]

/-! ## Part 10: a whole partition, all partitions -/

theorem writePartition_eq (p : Partition) :
    writePartition p =
      [sp 2 ++ '<' :: (ptOpen p.name p.prio p.level p.nr p.ne ++ ['>'])] ++ patchBlocks 0 p.patches ++
        [sp 2 ++ '<' :: (('/' :: "Partition".toList) ++ ['>'])] := by
  unfold writePartition
  rw [patchBlocks_eq]
  cases hn : p.name.isEmpty <;> simp [ptOpen, hn]

theorem Run_writePartition (sh : Shape) (dim : Nat) (mesh : Option Mesh) {chs : List (Str × Chart)} {wdim : Nat} (parts : List (Str × Part))
    (pts : List Partition) (p : Partition) (hp : PartitionOk p) (b : Str) (below : List Str) :
    Run (writePartition p) (b :: below) (mkSt sh dim [Frame.root] ⟨mesh, parts, pts, chs, wdim⟩) (b :: below)
      (mkSt sh dim [Frame.root] ⟨mesh, parts, pts ++ [p], chs, wdim⟩) := by
  rw [writePartition_eq]
  obtain ⟨name, prio, level, nr, ne, patches⟩ := p
  obtain ⟨hname, hprio, hlevel, hnr, hne, hlen, hpat, hsum⟩ := hp
  simp only at hname hprio hlevel hnr hne hlen hpat hsum ⊢
  have hs := scan_partition_line name prio level nr ne hname
  have r1 := Run_open_line (k := 2) (a := 'P') (by decide) hs rfl rfl
    (fun line => openM_partition sh dim ⟨mesh, parts, pts, chs, wdim⟩ line name prio level nr ne hprio hlevel hnr hne)
    (b :: below)
  have r2 := Run_patch_blocks sh dim name prio level nr ne [Frame.root] ⟨mesh, parts, pts, chs, wdim⟩
    "Partition".toList (b :: below) hnr hne patches 0 [] rfl (by omega) hpat
  rw [hlen] at r2
  have r3 := Run_close_line (k := 2) (nm := "Partition".toList) (by decide)
    (fun line => closeTop_partition_frame (chs := chs) (wdim := wdim) sh dim name prio level nr ne patches (List.replicate (0 + nr) true)
      [Frame.root] mesh parts pts line (any_not_replicate_true _) hsum)
    b below
  exact Run.append (Run.append r1 r2) r3

def ptsLines (pts : List Partition) : List Str := (pts.map writePartition).flatten

theorem Run_partitions (sh : Shape) (dim : Nat) (mesh : Option Mesh) {chs : List (Str × Chart)} {wdim : Nat} (parts : List (Str × Part))
    (b : Str) (below : List Str) (todo : List Partition) :
    ∀ (done : List Partition), (∀ p ∈ todo, PartitionOk p) →
    Run (ptsLines todo) (b :: below) (mkSt sh dim [Frame.root] ⟨mesh, parts, done, chs, wdim⟩) (b :: below)
      (mkSt sh dim [Frame.root] ⟨mesh, parts, done ++ todo, chs, wdim⟩) := by
  induction todo with
  | nil => intro done _; simpa [ptsLines] using Run.nil _ _
  | cons p todo ih =>
    intro done hp
    have r1 := Run_writePartition (chs := chs) (wdim := wdim) sh dim mesh parts done p (hp p (by simp)) b below
    have r2 := ih (done ++ [p]) (fun q hq => hp q (by simp [hq]))
    have := Run.append r1 r2
    simpa [ptsLines] using this

/-! ## Part 11: no line breaks inside the printed lines -/

theorem nl_partOpen (name : Str) (hasTopo : Bool) (sizes : List Nat) (hn : '\n' ∉ name) :
    '\n' ∉ partOpen name hasTopo sizes := by
  have h2 : '\n' ∉ joinSp (sizes.map showNat) := nl_tokLine (joinSp_showNat_chars sizes)
  have h3 : '\n' ∉ topoStr hasTopo := by cases hasTopo <;> decide
  unfold partOpen
  simp [q, hn, h2, h3]

theorem nl_index_line (k i : Nat) : '\n' ∉ sp k ++ showNat i :=
  nl_append (nl_sp k) (nl_showNat i)

theorem nl_mapBlocks (maps : List (List Nat)) : ∀ k, ∀ l ∈ mapBlocks k maps, '\n' ∉ l := by
  induction maps with
  | nil => intro k l hl; simp [mapBlocks] at hl
  | cons idx maps ih =>
    intro k l hl
    simp only [mapBlocks, List.mem_append] at hl
    rcases hl with hl | hl
    · unfold mapBlock at hl
      split at hl
      · simp at hl
      · simp only [List.mem_append, List.mem_singleton, List.mem_map] at hl
        rcases hl with (rfl | ⟨i, -, rfl⟩) | rfl
        · have h3 : '\n' ∉ "<Mapping dim=".toList := by decide
          have h4 : '\n' ∉ ">".toList := by decide
          exact nl_append (nl_append (nl_append (nl_sp 4) h3) (nl_q (nl_showNat k))) h4
        · exact nl_index_line 6 i
        · have h3 : '\n' ∉ "</Mapping>".toList := by decide
          exact nl_append (nl_sp 4) h3
    · exact ih (k + 1) l hl

theorem nl_close_line (k : Nat) (nm : Str) (h : '\n' ∉ nm) : '\n' ∉ sp k ++ '<' :: (('/' :: nm) ++ ['>']) := by
  simp [sp, h]

theorem nl_open_line (k : Nat) (body : Str) (h : '\n' ∉ body) : '\n' ∉ sp k ++ '<' :: (body ++ ['>']) := by
  simp [sp, h]

theorem nl_ptopoBlocks (ind : Nat) (ts : List (List (List Nat))) :
    ∀ k, ∀ l ∈ ptopoBlocks ind k ts, '\n' ∉ l := by
  induction ts with
  | nil => intro k l hl; simp [ptopoBlocks] at hl
  | cons t ts ih =>
    intro k l hl
    simp only [ptopoBlocks, List.mem_append] at hl
    rcases hl with hl | hl
    · unfold ptopoBlock at hl
      split at hl
      · simp at hl
      · exact nl_topoBlock ind k t l hl
    · exact ih (k + 1) l hl

theorem nl_attrBlocks (attrs : List (Str × Attr)) (h : ∀ na ∈ attrs, '\n' ∉ na.1) :
    ∀ l ∈ attrBlocks attrs, '\n' ∉ l := by
  intro l hl
  simp only [attrBlocks, List.mem_flatten, List.mem_map] at hl
  obtain ⟨ls, ⟨⟨an, a⟩, hna, rfl⟩, hl⟩ := hl
  simp only [attrBlock, List.mem_append, List.mem_singleton, List.mem_map] at hl
  rcases hl with (rfl | ⟨v, -, rfl⟩) | rfl
  · have h3 : '\n' ∉ "<Attribute name=".toList := by decide
    have h4 : '\n' ∉ ">".toList := by decide
    have h5 : '\n' ∉ " dim=".toList := by decide
    exact nl_append (nl_append (nl_append (nl_append (nl_append (nl_sp 4) h3) (nl_q (h _ hna))) h5)
      (nl_q (nl_showNat _))) h4
  · exact nl_append (nl_sp 6) (nl_tokLine (joinSp_showQ_chars v))
  · have h3 : '\n' ∉ "</Attribute>".toList := by decide
    exact nl_append (nl_sp 4) h3

theorem nl_partsLines (sh : Shape) (dim : Nat) (parts : List (Str × Part))
    (hp : ∀ np ∈ parts, PartOkFull sh dim np.1 np.2) :
    ∀ l ∈ partsLines parts, '\n' ∉ l := by
  intro l hl
  simp only [partsLines, List.mem_flatten, List.mem_map] at hl
  obtain ⟨ls, ⟨⟨nm, p⟩, hnp, rfl⟩, hl⟩ := hl
  obtain ⟨chart, hasTopo, sizes, maps, topo, attrs⟩ := p
  obtain ⟨h1, -, -, -, -, -, -, -, -, hname, hattrs, -, -⟩ := hp _ hnp
  simp only at h1 hattrs hl
  subst h1
  rw [writePart_eq] at hl
  simp only [List.mem_append, List.mem_singleton] at hl
  rcases hl with (((rfl | hl) | hl) | hl) | rfl
  · exact nl_open_line 2 _ (nl_partOpen nm hasTopo sizes (fun hm => (hname.2 _ hm).2.2.2 rfl))
  · exact nl_mapBlocks maps 0 l hl
  · cases hasTopo with
    | false => simp at hl
    | true => exact nl_ptopoBlocks 4 topo 0 l hl
  · exact nl_attrBlocks attrs (fun na hna hm => ((hattrs na hna).1.2 _ hm).2.2.2 rfl) l hl
  · exact nl_close_line 2 _ (by decide)

theorem nl_showInt (z : Int) : '\n' ∉ showInt z :=
  nl_tokLine (fun c hc => Or.inr (tokChar_showInt z c hc))

theorem nl_ptOpen (name : Str) (prio level : Int) (nr ne : Nat) (hn : '\n' ∉ name) :
    '\n' ∉ ptOpen name prio level nr ne := by
  have h1 := nl_showInt prio
  have h2 := nl_showInt level
  have h3 := nl_showNat nr
  have h4 := nl_showNat ne
  unfold ptOpen
  cases name <;> simp_all [q]

theorem nl_patchBlocks (patches : List (List Nat)) : ∀ k, ∀ l ∈ patchBlocks k patches, '\n' ∉ l := by
  induction patches with
  | nil => intro k l hl; simp [patchBlocks] at hl
  | cons el patches ih =>
    intro k l hl
    simp only [patchBlocks, List.mem_append] at hl
    rcases hl with hl | hl
    · unfold patchBlock at hl
      simp only [List.mem_append, List.mem_singleton, List.mem_map] at hl
      rcases hl with (rfl | ⟨i, -, rfl⟩) | rfl
      · have h3 : '\n' ∉ "<Patch rank=".toList := by decide
        have h4 : '\n' ∉ ">".toList := by decide
        have h5 : '\n' ∉ " size=".toList := by decide
        exact nl_append (nl_append (nl_append (nl_append (nl_append (nl_sp 4) h3) (nl_q (nl_showNat k))) h5)
          (nl_q (nl_showNat _))) h4
      · exact nl_index_line 6 i
      · have h3 : '\n' ∉ "</Patch>".toList := by decide
        exact nl_append (nl_sp 4) h3
    · exact ih (k + 1) l hl

theorem nl_ptsLines (pts : List Partition) (hp : ∀ p ∈ pts, PartitionOk p) :
    ∀ l ∈ ptsLines pts, '\n' ∉ l := by
  intro l hl
  simp only [ptsLines, List.mem_flatten, List.mem_map] at hl
  obtain ⟨ls, ⟨p, hpm, rfl⟩, hl⟩ := hl
  have hname := (hp p hpm).1
  rw [writePartition_eq] at hl
  simp only [List.mem_append, List.mem_singleton] at hl
  rcases hl with (rfl | hl) | rfl
  · exact nl_open_line 2 _ (nl_ptOpen _ _ _ _ _ (fun hm => (hname.2 _ hm).2.2.2 rfl))
  · exact nl_patchBlocks p.patches 0 l hl
  · exact nl_close_line 2 _ (by decide)

/-! ## Part 12: assembling the round trip -/

def bodyLines (sh : Shape) (dim wdim : Nat) (m : Mesh) (parts : List (Str × Part)) (pts : List Partition) : List Str :=
  writeMesh sh dim wdim m ++ partsLines parts ++ ptsLines pts

theorem writeLines_node (sh : Shape) (dim wdim : Nat) (m : Mesh) (parts : List (Str × Part)) (pts : List Partition) :
    writeLines sh dim { mesh := some m, parts := parts, partitions := pts, wdim := wdim } =
      rootLine sh dim wdim :: (bodyLines sh dim wdim m parts pts ++ ["</FeatMeshFile>".toList]) := by
  unfold writeLines rootLine bodyLines partsLines ptsLines
  dsimp only
  simp only [List.cons_append, List.nil_append, List.append_assoc, List.map_nil, List.flatten_nil]

theorem nl_rootLine {sh : Shape} {dim wdim : Nat} (hs : supported sh (dim : Int) (wdim : Int) = true) :
    '\n' ∉ rootLine sh dim wdim := by
  apply nl_writeLines hs ⟨[], [], []⟩
  rw [writeLines_mesh]
  simp

structure NodeOk (sh : Shape) (dim wdim : Nat) (m : Mesh) (parts : List (Str × Part)) (pts : List Partition) : Prop where
  hwf : m.wf sh dim wdim = true
  h64 : ∀ s ∈ m.sizes, s < 2 ^ 64
  hp : ∀ np ∈ parts, PartOkFull sh dim np.1 np.2
  hsorted : parts.Pairwise (fun a b => strLt a.1 b.1 = true)
  hpt : ∀ p ∈ pts, PartitionOk p
  hzb : zeroBelow m.sizes = false
  hmap : mapOutOfRange ⟨some m, parts, pts, [], wdim⟩ = false

theorem nl_bodyLines {sh : Shape} {dim wdim : Nat} (hs : supported sh (dim : Int) (wdim : Int) = true) {m : Mesh}
    {parts : List (Str × Part)} {pts : List Partition} (h : NodeOk sh dim wdim m parts pts) :
    ∀ l ∈ bodyLines sh dim wdim m parts pts, '\n' ∉ l := by
  intro l hl
  simp only [bodyLines, List.mem_append] at hl
  rcases hl with (hl | hl) | hl
  · exact nl_writeMesh hs m l hl
  · exact nl_partsLines sh dim parts h.hp l hl
  · exact nl_ptsLines pts h.hpt l hl

theorem splitLines_node {sh : Shape} {dim wdim : Nat} (hs : supported sh (dim : Int) (wdim : Int) = true) {m : Mesh}
    {parts : List (Str × Part)} {pts : List Partition} (h : NodeOk sh dim wdim m parts pts) :
    splitLines (printMeshFile sh dim { mesh := some m, parts := parts, partitions := pts, wdim := wdim }) =
      rootLine sh dim wdim :: (bodyLines sh dim wdim m parts pts ++ ["</FeatMeshFile>".toList]) ++ [[]] := by
  unfold splitLines printMeshFile
  rw [writeLines_node, splitChar_flatMap '\n']
  intro l hl
  simp only [List.mem_cons, List.mem_append, List.not_mem_nil, or_false] at hl
  rcases hl with rfl | hl | rfl
  · exact nl_rootLine hs
  · exact nl_bodyLines hs h l hl
  · decide

theorem Run_body {sh : Shape} {dim wdim : Nat} (hs : supported sh (dim : Int) (wdim : Int) = true) {m : Mesh}
    {parts : List (Str × Part)} {pts : List Partition} (h : NodeOk sh dim wdim m parts pts) (b : Str)
    (below : List Str) :
    Run (bodyLines sh dim wdim m parts pts) (b :: below) (mkSt sh dim [Frame.root] (emptyNode wdim)) (b :: below)
      (mkSt sh dim [Frame.root] { mesh := some m, parts := parts, partitions := pts, wdim := wdim }) := by
  have hdim : dim + 1 < 2 ^ 64 := by
    have := supported_pos hs
    have : (4 : Nat) < 2 ^ 64 := by decide
    omega
  have r1 := Run_writeMesh hs m h.hwf h.h64 h.hzb b below
  have r2 := Run_parts (chs := []) (wdim := wdim) sh dim (some m) [] hdim b below parts [] h.hp (by simpa using h.hsorted)
  have r3 := Run_partitions (chs := []) (wdim := wdim) sh dim (some m) parts b below pts [] h.hpt
  have := Run.append (Run.append r1 r2) r3
  simpa [bodyLines] using this

theorem scanLoop_node {sh : Shape} {dim wdim : Nat} (hs : supported sh (dim : Int) (wdim : Int) = true) {m : Mesh}
    {parts : List (Str × Part)} {pts : List Partition} (h : NodeOk sh dim wdim m parts pts) (i : Nat) :
    scanLoop meshClient (bodyLines sh dim wdim m parts pts ++ ["</FeatMeshFile>".toList] ++ [[]]) i
      ["FeatMeshFile".toList] (mkSt sh dim [Frame.root] (emptyNode wdim)) =
      .ok (mkSt sh dim [] { mesh := some m, parts := parts, partitions := pts, wdim := wdim }) := by
  obtain ⟨j, hj⟩ := Run_body hs h "FeatMeshFile".toList [] (["</FeatMeshFile>".toList] ++ [[]]) i
  rw [List.append_assoc, hj]
  have e : "</FeatMeshFile>".toList = '<' :: (('/' :: "FeatMeshFile".toList) ++ ['>']) := by decide
  rw [e]
  exact final_close_line (by decide) (fun line => closeTop_root_frame sh dim _ line) _ j

theorem parseBody_node {sh : Shape} {dim wdim : Nat} (hs : supported sh (dim : Int) (wdim : Int) = true) {m : Mesh}
    {parts : List (Str × Part)} {pts : List Partition} (h : NodeOk sh dim wdim m parts pts) (i : Nat) :
    parseBody sh dim wdim (rootMarkup sh dim wdim) i (bodyLines sh dim wdim m parts pts ++ ["</FeatMeshFile>".toList] ++ [[]]) =
      .ok sh dim { mesh := some m, parts := parts, partitions := pts, wdim := wdim } := by
  have hc : checkAttribs i (specOf "root") (rootMarkup sh dim wdim).attrs = .ok () := by
    unfold rootMarkup
    simp [checkAttribs, specOf]
  have hn : (rootMarkup sh dim wdim).name = "FeatMeshFile".toList := rfl
  have hl := scanLoop_node hs h i
  unfold mkSt emptyNode at hl
  unfold parseBody
  simp only [hc, hn, hl]
  simp [h.hmap, resolveLinks, resolveDeduct]

theorem parse_print_of_NodeOk {sh : Shape} {dim wdim : Nat} (hs : supported sh (dim : Int) (wdim : Int) = true) {m : Mesh}
    {parts : List (Str × Part)} {pts : List Partition} (h : NodeOk sh dim wdim m parts pts) :
    parseMeshFile (printMeshFile sh dim { mesh := some m, parts := parts, partitions := pts, wdim := wdim })
      = .ok sh dim { mesh := some m, parts := parts, partitions := pts, wdim := wdim } := by
  unfold parseMeshFile
  rw [splitLines_node hs h, List.cons_append, readRoot_print hs]
  simp only [rootType_print hs, hs, Bool.not_true, Bool.false_eq_true, if_false, Int.toNat_natCast]
  exact parseBody_node hs h 1

theorem PartOk.toFull {sh : Shape} {dim : Nat} {name : Str} {p : Part} (h : PartOk dim name p) :
    PartOkFull sh dim name p := by
  obtain ⟨h1, h2, h3, hsl, hml, hlens, htopo, hs64, hm64, hname⟩ := h
  refine ⟨h1, hsl, hml, hlens, by rw [htopo]; simp, ?_, fun _ => htopo, hs64, hm64, hname, ?_, ?_, ?_⟩
  · intro ht; rw [h2] at ht; exact absurd ht (by decide)
  · rw [h3]; intro na hna; exact absurd hna (by simp)
  · rw [h3]; exact List.Pairwise.nil
  · intro ht; rw [h2] at ht; exact absurd ht (by decide)

/-! ## Part 13: files without a root mesh (`reparse`) -/

/-- the root line of a file without a root mesh -/
def rootLine0 : Str := "<FeatMeshFile version=\"1\"".toList ++ [] ++ ">".toList

def rootMarkup0 : Markup := ⟨"FeatMeshFile".toList, [("version".toList, ['1'])], false, false⟩

theorem writeLines_nomesh (sh : Shape) (dim wdim : Nat) (parts : List (Str × Part)) (pts : List Partition) :
    writeLines sh dim { mesh := none, parts := parts, partitions := pts, wdim := wdim } =
      rootLine0 :: (partsLines parts ++ ptsLines pts ++ ["</FeatMeshFile>".toList]) := by
  unfold writeLines rootLine0 partsLines ptsLines
  dsimp only
  simp only [List.cons_append, List.nil_append, List.append_assoc, List.append_nil, List.map_nil, List.flatten_nil]

theorem splitLines_nomesh (sh : Shape) (dim wdim : Nat) (parts : List (Str × Part)) (pts : List Partition)
    (hp : ∀ np ∈ parts, PartOkFull sh dim np.1 np.2) (hpt : ∀ p ∈ pts, PartitionOk p) :
    splitLines (printMeshFile sh dim { mesh := none, parts := parts, partitions := pts, wdim := wdim }) =
      rootLine0 :: (partsLines parts ++ ptsLines pts ++ ["</FeatMeshFile>".toList]) ++ [[]] := by
  unfold splitLines printMeshFile
  rw [writeLines_nomesh, splitChar_flatMap '\n']
  intro l hl
  simp only [List.mem_cons, List.mem_append, List.not_mem_nil, or_false] at hl
  rcases hl with rfl | (hl | hl) | rfl
  · decide
  · exact nl_partsLines sh dim parts hp l hl
  · exact nl_ptsLines pts hpt l hl
  · decide

theorem readRoot_nomesh (rest : List Str) : readRoot (rootLine0 :: rest) 0 = .ok (rootMarkup0, 1, rest) := by
  have htrim : trim rootLine0 = rootLine0 := by decide
  have hne : rootLine0.isEmpty = false := by decide
  have hs' : scanMarkup rootLine0 = .ok (some rootMarkup0) := by
    have e : rootLine0 = '<' :: ("FeatMeshFile".toList ++ ' ' :: ("version".toList ++ '=' :: '"' ::
        (['1'] ++ ['"', '>']))) := by decide
    rw [e, scanMarkup_one_attr (by decide) (by decide) (by decide) (by decide)]
    rfl
  rw [readRoot]
  simp only [htrim, hne, hs', Bool.false_eq_true, if_false]
  have h1 : rootMarkup0.closed = false := rfl
  have h2 : rootMarkup0.termin = false := rfl
  simp only [h1, h2, Bool.or_self, Bool.false_eq_true, if_false]

theorem rootType_nomesh (line : Nat) : rootType line rootMarkup0 = .ok none := by
  have a1 : attrOf rootMarkup0 "version" = some ['1'] := by decide
  have a2 : attrOf rootMarkup0 "mesh" = none := by decide
  have hn : (rootMarkup0.name != "FeatMeshFile".toList) = false := by decide
  have hv : readInt ['1'] = some 1 := by decide
  unfold rootType
  simp only [hn, a1, a2, hv]
  simp

theorem parseBody_nomesh (sh : Shape) (dim wdim : Nat) (hdim : dim + 1 < 2 ^ 64) (parts : List (Str × Part))
    (pts : List Partition) (hp : ∀ np ∈ parts, PartOkFull sh dim np.1 np.2)
    (hsorted : parts.Pairwise (fun a b => strLt a.1 b.1 = true)) (hpt : ∀ p ∈ pts, PartitionOk p) (i : Nat) :
    parseBody sh dim wdim rootMarkup0 i (partsLines parts ++ ptsLines pts ++ ["</FeatMeshFile>".toList] ++ [[]]) =
      .ok sh dim { mesh := none, parts := parts, partitions := pts, wdim := wdim } := by
  have hc : checkAttribs i (specOf "root") rootMarkup0.attrs = .ok () := by
    unfold rootMarkup0
    simp [checkAttribs, specOf]
  have hn : rootMarkup0.name = "FeatMeshFile".toList := rfl
  have r2 := Run_parts (chs := []) (wdim := wdim) sh dim none [] hdim "FeatMeshFile".toList [] parts [] hp (by simpa using hsorted)
  have r3 := Run_partitions (chs := []) (wdim := wdim) sh dim none parts "FeatMeshFile".toList [] pts [] hpt
  obtain ⟨j, hj⟩ := Run.append r2 r3 (["</FeatMeshFile>".toList] ++ [[]]) i
  have e : "</FeatMeshFile>".toList = '<' :: (('/' :: "FeatMeshFile".toList) ++ ['>']) := by decide
  have hl : scanLoop meshClient (partsLines parts ++ ptsLines pts ++ ["</FeatMeshFile>".toList] ++ [[]]) i
      ["FeatMeshFile".toList] (mkSt sh dim [Frame.root] (emptyNode wdim)) =
      .ok (mkSt sh dim [] { mesh := none, parts := parts, partitions := pts, wdim := wdim }) := by
    rw [List.append_assoc]
    simp only [List.nil_append] at hj
    unfold emptyNode
    rw [hj, e]
    exact final_close_line (by decide) (fun line => closeTop_root_frame sh dim _ line) _ j
  unfold mkSt emptyNode at hl
  unfold parseBody
  simp only [hc, hn, hl]
  simp [mapOutOfRange, resolveLinks, resolveDeduct]

end FeatModel.C11.RT2

/-! ## The main theorems -/

namespace FeatModel.C11

/-- **Stage A: parse ∘ print = id** for a file with a root mesh and mesh parts that carry target mappings
    (no chart, no own topology, no attribute sets), names strictly increasing w.r.t. `strLt`
    (the order of the `std::map`) -/
theorem parse_print_parts (sh : Shape) (dim wdim : Nat) (m : Mesh) (parts : List (Str × Part))
    (hs : supported sh (dim : Int) (wdim : Int) = true)
    (hwf : m.wf sh dim wdim = true)
    (h64 : ∀ s ∈ m.sizes, s < 2 ^ 64)
    (hzb : zeroBelow m.sizes = false)
    (hp : ∀ np ∈ parts, PartOk dim np.1 np.2)
    (hsorted : parts.Pairwise (fun a b => strLt a.1 b.1 = true))
    (hmap : mapOutOfRange ⟨some m, parts, [], [], wdim⟩ = false) :
    parseMeshFile (printMeshFile sh dim { mesh := some m, parts := parts, partitions := [], wdim := wdim })
      = .ok sh dim { mesh := some m, parts := parts, partitions := [], wdim := wdim } :=
  RT2.parse_print_of_NodeOk hs
    ⟨hwf, h64, fun np h => RT2.PartOk.toFull (hp np h), hsorted, fun _ h => absurd h (by simp), hzb, hmap⟩

/-- **Stage B: parse ∘ print = id** for a file with a root mesh, mesh parts with mappings, and partitions -/
theorem parse_print_node (sh : Shape) (dim wdim : Nat) (m : Mesh) (parts : List (Str × Part))
    (partitions : List Partition)
    (hs : supported sh (dim : Int) (wdim : Int) = true)
    (hwf : m.wf sh dim wdim = true)
    (h64 : ∀ s ∈ m.sizes, s < 2 ^ 64)
    (hzb : zeroBelow m.sizes = false)
    (hp : ∀ np ∈ parts, PartOk dim np.1 np.2)
    (hsorted : parts.Pairwise (fun a b => strLt a.1 b.1 = true))
    (hpt : ∀ p ∈ partitions, PartitionOk p)
    (hmap : mapOutOfRange ⟨some m, parts, partitions, [], wdim⟩ = false) :
    parseMeshFile (printMeshFile sh dim { mesh := some m, parts := parts, partitions := partitions, wdim := wdim })
      = .ok sh dim { mesh := some m, parts := parts, partitions := partitions, wdim := wdim } :=
  RT2.parse_print_of_NodeOk hs ⟨hwf, h64, fun np h => RT2.PartOk.toFull (hp np h), hsorted, hpt, hzb, hmap⟩

/-- **Stage C1: parse ∘ print = id** for a file with a root mesh, mesh parts with mappings, own (full) topology
    and attribute sets, and partitions -/
theorem parse_print_node_full (sh : Shape) (dim wdim : Nat) (m : Mesh) (parts : List (Str × Part))
    (partitions : List Partition)
    (hs : supported sh (dim : Int) (wdim : Int) = true)
    (hwf : m.wf sh dim wdim = true)
    (h64 : ∀ s ∈ m.sizes, s < 2 ^ 64)
    (hzb : zeroBelow m.sizes = false)
    (hp : ∀ np ∈ parts, PartOkFull sh dim np.1 np.2)
    (hsorted : parts.Pairwise (fun a b => strLt a.1 b.1 = true))
    (hpt : ∀ p ∈ partitions, PartitionOk p)
    (hmap : mapOutOfRange ⟨some m, parts, partitions, [], wdim⟩ = false) :
    parseMeshFile (printMeshFile sh dim { mesh := some m, parts := parts, partitions := partitions, wdim := wdim })
      = .ok sh dim { mesh := some m, parts := parts, partitions := partitions, wdim := wdim } :=
  RT2.parse_print_of_NodeOk hs ⟨hwf, h64, hp, hsorted, hpt, hzb, hmap⟩

/-- **Stage C2: files without a root mesh.**  The written root markup carries no `mesh` attribute, so the first
    parse cannot pick a mesh type; the second-generation parse with the known type gives the node back. -/
theorem reparse_print_nomesh (sh : Shape) (dim wdim : Nat) (parts : List (Str × Part)) (partitions : List Partition)
    (hdim : dim + 1 < 2 ^ 64)
    (hp : ∀ np ∈ parts, PartOkFull sh dim np.1 np.2)
    (hsorted : parts.Pairwise (fun a b => strLt a.1 b.1 = true))
    (hpt : ∀ p ∈ partitions, PartitionOk p) :
    parseMeshFile (printMeshFile sh dim { mesh := none, parts := parts, partitions := partitions, wdim := wdim }) = .notype ∧
    reparse sh dim wdim (printMeshFile sh dim { mesh := none, parts := parts, partitions := partitions, wdim := wdim })
      = .ok sh dim { mesh := none, parts := parts, partitions := partitions, wdim := wdim } := by
  constructor
  · unfold parseMeshFile
    rw [RT2.splitLines_nomesh sh dim wdim parts partitions hp hpt, List.cons_append, RT2.readRoot_nomesh]
    simp only [RT2.rootType_nomesh]
  · unfold reparse
    rw [RT2.splitLines_nomesh sh dim wdim parts partitions hp hpt, List.cons_append, RT2.readRoot_nomesh]
    simp only [RT2.rootType_nomesh]
    exact RT2.parseBody_nomesh sh dim wdim hdim parts partitions hp hsorted hpt 1

/-- **print ∘ parse ∘ print = print** (byte for byte), strongest stage with a root mesh -/
theorem print_parse_print_node (sh : Shape) (dim wdim : Nat) (m : Mesh) (parts : List (Str × Part))
    (partitions : List Partition)
    (hs : supported sh (dim : Int) (wdim : Int) = true)
    (hwf : m.wf sh dim wdim = true)
    (h64 : ∀ s ∈ m.sizes, s < 2 ^ 64)
    (hzb : zeroBelow m.sizes = false)
    (hp : ∀ np ∈ parts, PartOkFull sh dim np.1 np.2)
    (hsorted : parts.Pairwise (fun a b => strLt a.1 b.1 = true))
    (hpt : ∀ p ∈ partitions, PartitionOk p)
    (hmap : mapOutOfRange ⟨some m, parts, partitions, [], wdim⟩ = false) :
    ∀ sh' dim' n',
      parseMeshFile (printMeshFile sh dim { mesh := some m, parts := parts, partitions := partitions, wdim := wdim })
        = .ok sh' dim' n' →
      printMeshFile sh' dim' n' =
        printMeshFile sh dim { mesh := some m, parts := parts, partitions := partitions, wdim := wdim } := by
  intro sh' dim' n' h
  rw [parse_print_node_full sh dim wdim m parts partitions hs hwf h64 hzb hp hsorted hpt hmap] at h
  injection h with h1 h2 h3
  subst h1 h2 h3
  rfl

/-- **print ∘ reparse ∘ print = print** (byte for byte) for files without a root mesh -/
theorem print_reparse_print_nomesh (sh : Shape) (dim wdim : Nat) (parts : List (Str × Part))
    (partitions : List Partition)
    (hdim : dim + 1 < 2 ^ 64)
    (hp : ∀ np ∈ parts, PartOkFull sh dim np.1 np.2)
    (hsorted : parts.Pairwise (fun a b => strLt a.1 b.1 = true))
    (hpt : ∀ p ∈ partitions, PartitionOk p) :
    ∀ sh' dim' n',
      reparse sh dim wdim (printMeshFile sh dim { mesh := none, parts := parts, partitions := partitions, wdim := wdim })
        = .ok sh' dim' n' →
      printMeshFile sh' dim' n' =
        printMeshFile sh dim { mesh := none, parts := parts, partitions := partitions, wdim := wdim } := by
  intro sh' dim' n' h
  rw [(reparse_print_nomesh sh dim wdim parts partitions hdim hp hsorted hpt).2] at h
  injection h with h1 h2 h3
  subst h1 h2 h3
  rfl

end FeatModel.C11
