import FeatModel.Model.Cubature
import FeatModel.Gen.CubatureMeta
/-! # C14: structural facts of the refinery child maps (independent of any polynomial degree): the weight factor of
    every child is the absolute determinant of its affine map, it is positive, and the children's factors sum to one -/
namespace FeatModel.Cub

/-- determinant of a 1×1, 2×2 or 3×3 integer matrix (rows) -/
def det : List (List Int) → Int
  | [[a]] => a
  | [[a, b], [c, d]] => a * d - b * c
  | [[a, b, c], [d, e, f], [g, h, i]] => a * (e * i - f * h) - b * (d * i - f * g) + c * (d * h - e * g)
  | _ => 0

/-- `c / 2^ce = |det (A / 2^ae)|` and `c > 0`, for every child -/
def childWeightsAreDets (dim : Nat) (rm : RefMaps) : Bool :=
  rm.maps.all fun m => decide (0 < m.c) && (det m.a).natAbs * 2 ^ rm.ce == m.c.natAbs * 2 ^ (rm.ae * dim) &&
    m.a.length == dim && m.b.length == dim

/-- the children's volume fractions sum to one -/
def childrenTile (rm : RefMaps) : Bool := (rm.maps.map (·.c)).foldr (· + ·) 0 == 2 ^ rm.ce

/-- number of children: 2^d for hypercubes, 2 / 4 / 12 for simplices -/
def childCount : Shape → Nat
  | .s1 => 2 | .s2 => 4 | .s3 => 12 | .h1 => 2 | .h2 => 4 | .h3 => 8

theorem refinery_structure_all :
    ([Shape.s1, .s2, .s3, .h1, .h2, .h3].all fun s =>
      childWeightsAreDets s.dim (Gen.refMapsOf s) && childrenTile (Gen.refMapsOf s) &&
        (Gen.refMapsOf s).maps.length == childCount s) = true := by decide +kernel

/-- the seeded defect of round 3 (which tetrahedron children get 1/8 and which 1/16 swapped: the factors still sum
    to one) is excluded by the determinant condition -/
theorem swapped_tetra_weights_rejected :
    let rm := Gen.refMapsS3
    let swapped : RefMaps := { rm with maps := rm.maps.map fun m => { m with c := if m.c = 2 then 1 else 2 } }
    childWeightsAreDets 3 swapped = false := by decide +kernel

end FeatModel.Cub
