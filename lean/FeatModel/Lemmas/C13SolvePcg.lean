/-
C13, discretise-and-solve: the distributed Jacobi-preconditioned CG iteration is the serial one.
-/
import FeatModel.Lemmas.C13Solve
open FeatModel.Dist

set_option linter.unusedSectionVars false

namespace FeatModel.C13L

variable {α : Type} [Field α]

structure PCGSerial (α : Type) where
  x : Nat → α
  r : Nat → α
  p : Nat → α
  rz : α

def pcgSerialInit (d : Decomp) (mats : List (List (List (Nat × α)))) (B X : Nat → α) : PCGSerial α :=
  let R := fun g => B g - globalApply d mats X g
  let Z := fun g => R g * (1 / globalDiag d mats g)
  { x := X, r := R, p := Z, rz := globalDot d R Z }

def pcgSerialStep (d : Decomp) (mats : List (List (List (Nat × α)))) (st : PCGSerial α) : PCGSerial α :=
  let Q := globalApply d mats st.p
  let a := st.rz / globalDot d st.p Q
  let X := fun g => st.x g + a * st.p g
  let R := fun g => st.r g + (-a) * Q g
  let Z := fun g => R g * (1 / globalDiag d mats g)
  let rz := globalDot d R Z
  let P := fun g => Z g + (rz / st.rz) * st.p g
  { x := X, r := R, p := P, rz := rz }

def pcgSerialIter (d : Decomp) (mats : List (List (List (Nat × α)))) : Nat → PCGSerial α → PCGSerial α
  | 0, st => st
  | k + 1, st => pcgSerialIter d mats k (pcgSerialStep d mats st)

structure PCGRep (d : Decomp) (st : PCGState α) (S : PCGSerial α) : Prop where
  x : Rep d st.x S.x
  r : Rep d st.r S.r
  p : Rep d st.p S.p
  rz : st.rz = S.rz

/-- `z = D⁻¹ r` of a represented residual -/
theorem jacApply_rep (d : Decomp) (h : d.WF) (mats : List (List (List (Nat × α))))
    (hm : ∀ r, r < d.np → (mats.getD r []).length = (d.patch r).n)
    (ords : List (List Nat)) (hord : ∀ r, r < d.np → (ords.getD r []).Perm (List.range (d.patch r).nbrs.length))
    (rs : List (List α)) (R : Nat → α) (hr : Rep d rs R) :
    Rep d (jacApply d.patches ords mats rs) (fun g => R g * (1 / globalDiag d mats g)) :=
  compMul_rep d _ _ _ _ hr (ginvDiag_rep d h mats hm ords hord)

theorem pcgInit_rep [CharZero α] (d : Decomp) (h : d.WF) (mats : List (List (List (Nat × α))))
    (hm : ∀ r, r < d.np → (mats.getD r []).length = (d.patch r).n)
    (ords : List (List Nat)) (hord : ∀ r, r < d.np → (ords.getD r []).Perm (List.range (d.patch r).nbrs.length))
    (bs xs : List (List α)) (B X : Nat → α) (hb : Rep d bs B) (hx : Rep d xs X) :
    PCGRep d (pcgInit d.patches ords mats bs xs) (pcgSerialInit d mats B X) := by
  have hd := gdefect_rep d h mats hm ords hord bs xs B X hb hx
  have hz := jacApply_rep d h mats hm ords hord _ _ hd
  exact ⟨hx, hd, hz, gdot_rep d h _ _ _ _ hd hz⟩

theorem pcgStep_rep [CharZero α] (d : Decomp) (h : d.WF) (mats : List (List (List (Nat × α))))
    (hm : ∀ r, r < d.np → (mats.getD r []).length = (d.patch r).n)
    (ords : List (List Nat)) (hord : ∀ r, r < d.np → (ords.getD r []).Perm (List.range (d.patch r).nbrs.length))
    (st : PCGState α) (S : PCGSerial α) (hs : PCGRep d st S) :
    PCGRep d (pcgStep d.patches ords mats st) (pcgSerialStep d mats S) := by
  have hq := gapply_rep d h mats hm ords hord st.p S.p hs.p
  have ha : st.rz / gdot d.patches st.p (gapply d.patches ords mats st.p)
      = S.rz / globalDot d S.p (globalApply d mats S.p) := by
    rw [hs.rz, gdot_rep d h _ _ _ _ hs.p hq]
  have hx' := vAxpy_rep d (st.rz / gdot d.patches st.p (gapply d.patches ords mats st.p)) st.x st.p S.x S.p hs.x hs.p
  have hr' := vAxpy_rep d (-(st.rz / gdot d.patches st.p (gapply d.patches ords mats st.p))) st.r _ S.r _ hs.r hq
  rw [ha] at hx' hr'
  have hz := jacApply_rep d h mats hm ords hord _ _ hr'
  have hrz := gdot_rep d h _ _ _ _ hr' hz
  have hp' := vAxpy_rep d
    (globalDot d (fun g => S.r g + -(S.rz / globalDot d S.p (globalApply d mats S.p)) * globalApply d mats S.p g)
      (fun g => (S.r g + -(S.rz / globalDot d S.p (globalApply d mats S.p)) * globalApply d mats S.p g)
        * (1 / globalDiag d mats g)) / S.rz) _ st.p _ S.p hz hs.p
  unfold pcgStep pcgSerialStep
  simp only []
  rw [ha, hrz, hs.rz]
  exact ⟨hx', hr', hp', rfl⟩

theorem pcgIter_rep [CharZero α] (d : Decomp) (h : d.WF) (mats : List (List (List (Nat × α))))
    (hm : ∀ r, r < d.np → (mats.getD r []).length = (d.patch r).n)
    (ords : List (List Nat)) (hord : ∀ r, r < d.np → (ords.getD r []).Perm (List.range (d.patch r).nbrs.length))
    (k : Nat) (st : PCGState α) (S : PCGSerial α) (hs : PCGRep d st S) :
    PCGRep d (pcgIter d.patches ords mats k st) (pcgSerialIter d mats k S) := by
  induction k generalizing st S with
  | zero => exact hs
  | succ k ih => exact ih _ _ (pcgStep_rep d h mats hm ords hord st S hs)

end FeatModel.C13L
