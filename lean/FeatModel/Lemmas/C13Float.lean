/-
C13, float clause: the type-0 synchronisation with an abstract rounding `fl` of every addition.
-/
import Mathlib.Algebra.Order.Field.Basic
import Mathlib.Algebra.Order.BigOperators.Group.List
import Mathlib.Tactic.Positivity
import FeatModel.Lemmas.C13Freqs
open FeatModel.Dist

set_option linter.unusedSectionVars false

namespace FeatModel.C13L

section Exact
variable {α : Type} [Field α]

/-! ### (F-b) `fl = id` gives the exact functions -/

theorem scatterAddFl_id (v : List α) (mir : List Nat) (buf : List α) :
    scatterAddFl (fun x => x) v mir buf = scatterAxpy v mir buf 1 := by
  unfold scatterAddFl scatterAxpy
  congr 1
  funext w p
  congr 1
  funext x
  rw [one_mul]

theorem sync0PatchFl_id (ps : List Patch) (vs : List (List α)) (r : Nat) (ord : List Nat) :
    sync0PatchFl (fun x => x) ps vs r ord = sync0Patch ps vs r ord := by
  unfold sync0PatchFl sync0Patch
  congr 1
  funext tgt k
  exact scatterAddFl_id _ _ _

/-! ### (F-c) one rounded scatter, entry by entry -/

/-- the generic fold behind `scatterAddFl` -/
def flFold (fl : α → α) (l : List (Nat × α)) (v : List α) : List α :=
  l.foldl (fun w p => w.modify p.1 (fun x => fl (x + p.2))) v

theorem scatterAddFl_eq (fl : α → α) (v : List α) (mir : List Nat) (buf : List α) :
    scatterAddFl fl v mir buf = flFold fl (mir.zip buf) v := rfl

theorem flFold_length (fl : α → α) (l : List (Nat × α)) (v : List α) : (flFold fl l v).length = v.length := by
  unfold flFold
  induction l generalizing v with
  | nil => rfl
  | cons p l ih => simp [List.foldl_cons, ih]

theorem flFold_val_not_mem (fl : α → α) (l : List (Nat × α)) (v : List α) (i : Nat) (hi : i ∉ l.map (·.1)) :
    val (flFold fl l v) i = val v i := by
  unfold flFold
  induction l generalizing v with
  | nil => rfl
  | cons p l ih =>
    rw [List.map_cons, List.mem_cons, not_or] at hi
    rw [List.foldl_cons, ih _ hi.2]
    simp [val, List.getD_eq_getElem?_getD, Ne.symm hi.1]

/-- what the message `l` does to entry `i`: nothing, or one rounded addition of the matching buffer entry -/
theorem flFold_val (fl : α → α) (l : List (Nat × α)) (hn : (l.map (·.1)).Nodup) (v : List α) (i : Nat)
    (hi : i < v.length) :
    val (flFold fl l v) i = ((l.find? fun p => p.1 == i).map (·.2)).elim (val v i) (fun c => fl (val v i + c)) := by
  induction l generalizing v with
  | nil => rfl
  | cons p l ih =>
    rw [List.map_cons, List.nodup_cons] at hn
    have hstep : flFold fl (p :: l) v = flFold fl l (v.modify p.1 fun x => fl (x + p.2)) := rfl
    rw [hstep]
    by_cases hp : p.1 = i
    · rw [flFold_val_not_mem fl l _ i (hp ▸ hn.1), val_modify _ _ _ _ hi, if_pos hp]
      simp [hp]
    · rw [ih hn.2 _ (by simpa using hi), val_modify _ _ _ _ hi, if_neg hp]
      simp [hp]

theorem zip_fst_sublist {β : Type} (l : List Nat) (b : List β) : ((l.zip b).map (·.1)).Sublist l := by
  induction l generalizing b with
  | nil => simp
  | cons a l ih =>
    cases b with
    | nil => simp
    | cons x b => simpa using (ih b).cons_cons a

theorem scatterAddFl_length (fl : α → α) (v : List α) (mir : List Nat) (buf : List α) :
    (scatterAddFl fl v mir buf).length = v.length := flFold_length fl _ v

theorem scatterAddFl_val (fl : α → α) (v : List α) (mir : List Nat) (hn : mir.Nodup) (buf : List α) (i : Nat)
    (hi : i < v.length) :
    val (scatterAddFl fl v mir buf) i
      = (((mir.zip buf).find? fun p => p.1 == i).map (·.2)).elim (val v i) (fun c => fl (val v i + c)) :=
  flFold_val fl _ (hn.sublist (zip_fst_sublist mir buf)) v i hi

/-- position form: mirror position `k` (with a buffer entry) receives one rounded addition -/
theorem scatterAddFl_val_mem (fl : α → α) (v : List α) (mir : List Nat) (hn : mir.Nodup) (buf : List α) (k : Nat)
    (hk : k < mir.length) (hkb : k < buf.length) (hlt : mir[k] < v.length) :
    val (scatterAddFl fl v mir buf) mir[k] = fl (val v mir[k] + buf[k]) := by
  rw [scatterAddFl_val fl v mir hn buf _ hlt]
  have hmem : (mir[k], buf[k]) ∈ mir.zip buf := by
    rw [List.mem_iff_getElem]
    exact ⟨k, by simp; omega, by simp⟩
  have hnz := hn.sublist (zip_fst_sublist mir buf)
  have : (mir.zip buf).find? (fun p => p.1 == mir[k]) = some (mir[k], buf[k]) := by
    have := find?_fst_of_nodup (mir.zip buf) hnz (mir[k], buf[k]) hmem mir[k] rfl
    exact this
  rw [this]; rfl

theorem scatterAddFl_val_not_mem (fl : α → α) (v : List α) (mir : List Nat) (buf : List α) (i : Nat)
    (hi : i ∉ mir) : val (scatterAddFl fl v mir buf) i = val v i :=
  flFold_val_not_mem fl _ v i (fun h => hi ((zip_fst_sublist mir buf).subset h))

/-! ### a sequence of rounded scatters = one `flSum` per entry -/

theorem flSum_cons (fl : α → α) (c0 c : α) (cs : List α) : flSum fl c0 (c :: cs) = flSum fl (fl (c0 + c)) cs := rfl

theorem foldl_flFold_val (fl : α → α) (ms : List (List (Nat × α))) (hn : ∀ l ∈ ms, (l.map (·.1)).Nodup)
    (v : List α) (i : Nat) (hi : i < v.length) :
    val (ms.foldl (fun t l => flFold fl l t) v) i
      = flSum fl (val v i) (ms.filterMap fun l => (l.find? fun p => p.1 == i).map (·.2)) := by
  induction ms generalizing v with
  | nil => rfl
  | cons l ms ih =>
    rw [List.foldl_cons, ih (fun l' hl' => hn l' (by simp [hl'])) _ (by rw [flFold_length]; exact hi),
      flFold_val fl l (hn l (by simp)) v i hi, List.filterMap_cons]
    cases (l.find? fun p => p.1 == i).map (·.2) with
    | none => rfl
    | some c => rfl

/-- the contributions, in arrival order, that reach entry `i` of patch `r` -/
def arrivals (ps : List Patch) (vs : List (List α)) (r : Nat) (ord : List Nat) (i : Nat) : List α :=
  ord.filterMap fun k =>
    (((msgMir ps r k).zip (msgBuf ps vs r k)).find? fun p => p.1 == i).map (·.2)

theorem sync0PatchFl_eq (fl : α → α) (ps : List Patch) (vs : List (List α)) (r : Nat) (ord : List Nat) :
    sync0PatchFl fl ps vs r ord
      = (ord.map fun k => (msgMir ps r k).zip (msgBuf ps vs r k)).foldl (fun t l => flFold fl l t) (vs.getD r []) := by
  unfold sync0PatchFl
  rw [List.foldl_map]
  rfl

theorem sync0PatchFl_length (fl : α → α) (ps : List Patch) (vs : List (List α)) (r : Nat) (ord : List Nat) :
    (sync0PatchFl fl ps vs r ord).length = (vs.getD r []).length := by
  rw [sync0PatchFl_eq]
  generalize (ord.map fun k => (msgMir ps r k).zip (msgBuf ps vs r k)) = ms
  generalize vs.getD r [] = v
  induction ms generalizing v with
  | nil => rfl
  | cons l ms ih => rw [List.foldl_cons, ih, flFold_length]

theorem sync0PatchFl_val_flSum (fl : α → α) (ps : List Patch) (vs : List (List α)) (r : Nat) (ord : List Nat)
    (hn : ∀ k ∈ ord, (msgMir ps r k).Nodup) (i : Nat) (hi : i < (vs.getD r []).length) :
    val (sync0PatchFl fl ps vs r ord) i = flSum fl (val (vs.getD r []) i) (arrivals ps vs r ord i) := by
  rw [sync0PatchFl_eq, foldl_flFold_val fl _ ?_ _ i hi]
  · unfold arrivals
    rw [List.filterMap_map]
    rfl
  · intro l hl
    obtain ⟨k, hk, rfl⟩ := List.mem_map.1 hl
    exact (hn k hk).sublist (zip_fst_sublist _ _)

end Exact

/-! ### (F-a) the error of a rounded sum, for every order -/

section Order
variable {α : Type} [Field α] [LinearOrder α] [IsStrictOrderedRing α]

theorem sum_abs_nonneg (cs : List α) : 0 ≤ (cs.map fun c => |c|).sum := by
  apply List.sum_nonneg
  intro x hx
  obtain ⟨c, _, rfl⟩ := List.mem_map.1 hx
  exact abs_nonneg c

theorem flSum_bound (fl : α → α) (u : α) (hu : 0 ≤ u) (hfl : ∀ x, |fl x - x| ≤ u * |x|) (c0 : α) (cs : List α) :
    |flSum fl c0 cs - (c0 + cs.sum)| ≤ ((1 + u) ^ cs.length - 1) * (|c0| + (cs.map fun c => |c|).sum) := by
  induction cs generalizing c0 with
  | nil => simp [flSum]
  | cons c cs ih =>
    have ih' := ih (fl (c0 + c))
    have h1 := hfl (c0 + c)
    have h2 : |c0 + c| ≤ |c0| + |c| := abs_add_le c0 c
    have hS := sum_abs_nonneg cs
    have hE : 1 ≤ (1 + u) ^ cs.length := one_le_pow₀ (by linarith)
    have h3 : |fl (c0 + c)| ≤ (1 + u) * (|c0| + |c|) := by
      have : |fl (c0 + c)| ≤ |fl (c0 + c) - (c0 + c)| + |c0 + c| := by
        have := abs_add_le (fl (c0 + c) - (c0 + c)) (c0 + c)
        simpa using this
      have hu2 : u * |c0 + c| ≤ u * (|c0| + |c|) := mul_le_mul_of_nonneg_left h2 hu
      nlinarith
    have htri : |flSum fl (fl (c0 + c)) cs - (c0 + (c + cs.sum))|
        ≤ |flSum fl (fl (c0 + c)) cs - (fl (c0 + c) + cs.sum)| + |fl (c0 + c) - (c0 + c)| := by
      have := abs_add_le (flSum fl (fl (c0 + c)) cs - (fl (c0 + c) + cs.sum)) (fl (c0 + c) - (c0 + c))
      have e : flSum fl (fl (c0 + c)) cs - (fl (c0 + c) + cs.sum) + (fl (c0 + c) - (c0 + c))
          = flSum fl (fl (c0 + c)) cs - (c0 + (c + cs.sum)) := by ring
      rwa [e] at this
    have k1 : ((1 + u) ^ cs.length - 1) * (|fl (c0 + c)| + (cs.map fun c => |c|).sum)
        ≤ ((1 + u) ^ cs.length - 1) * ((1 + u) * (|c0| + |c|) + (cs.map fun c => |c|).sum) :=
      mul_le_mul_of_nonneg_left (by linarith) (by linarith)
    have k2 : u * |c0 + c| ≤ u * (|c0| + |c|) := mul_le_mul_of_nonneg_left h2 hu
    have k3 : 0 ≤ (1 + u) ^ cs.length * u * (cs.map fun c => |c|).sum :=
      mul_nonneg (mul_nonneg (by linarith) hu) hS
    rw [flSum_cons, List.sum_cons, List.map_cons, List.sum_cons, List.length_cons, pow_succ]
    nlinarith

/-- the arrival order changes the computed value but not the error bound -/
theorem flSum_bound_perm (fl : α → α) (u : α) (hu : 0 ≤ u) (hfl : ∀ x, |fl x - x| ≤ u * |x|) (c0 : α)
    (cs cs' : List α) (hp : cs'.Perm cs) :
    |flSum fl c0 cs' - (c0 + cs.sum)| ≤ ((1 + u) ^ cs.length - 1) * (|c0| + (cs.map fun c => |c|).sum) := by
  have := flSum_bound fl u hu hfl c0 cs'
  rwa [hp.sum_eq, hp.length_eq, (hp.map _).sum_eq] at this

end Order

end FeatModel.C13L
