import FeatModel.Lemmas.C01Csr
import FeatModel.Lemmas.C01Bcsr
import FeatModel.Lemmas.C01Dense
/-! result sizes of the leaf containers' `apply` members (needed to compose them in meta-matrices) -/
namespace FeatModel.LA

theorem Csr.kernel_size {α : Type} [Field α] (tiny : α → Bool) (A : Csr α) (a b : α) (x y r : Array α) (ali tr : Bool)
    (hr : r.size = if tr then A.cols else A.rows) (hy : y.size = if tr then A.cols else A.rows) :
    (A.kernel tiny a b x y r ali tr).size = if tr then A.cols else A.rows := by
  cases tr
  · simp [Csr.kernel]
  · simp only [if_true] at hr hy ⊢
    simp [Csr.kernel, Csr.scatterT_size, initR_size tiny A.cols b r y ali hr hy]

theorem Csr.apply_size {α : Type} [Field α] (tiny : α → Bool) (A : Csr α) (x r r' : Array α) (tr : Bool)
    (h : A.apply tiny x r tr = some r') : r'.size = if tr then A.cols else A.rows := by
  by_cases hc : (r.size != (if tr then A.cols else A.rows) || x.size != (if tr then A.rows else A.cols)) = true
  · simp [Csr.apply, hc] at h
  · have hc' := hc
    simp only [Bool.or_eq_true, bne_iff_ne, ne_eq, not_or, Decidable.not_not] at hc'
    by_cases h0 : (A.usedElements == 0) = true
    · simp only [Csr.apply, hc, h0, if_true, Bool.false_eq_true, if_false, Option.some.injEq] at h
      rw [← h]; simp [hc'.1]
    · simp only [Csr.apply, hc, h0, Bool.false_eq_true, if_false, Option.some.injEq] at h
      rw [← h]; exact Csr.kernel_size tiny A 1 0 x r r true tr hc'.1 hc'.1

theorem Csr.applyAxpy_size {α : Type} [Field α] (tiny : α → Bool) (A : Csr α) (x y r r' : Array α) (al : α)
    (ali tr : Bool) (h : A.applyAxpy tiny x y r al ali tr = some r') : r'.size = if tr then A.cols else A.rows := by
  by_cases hc : (r.size != (if tr then A.cols else A.rows) || x.size != (if tr then A.rows else A.cols)
      || y.size != (if tr then A.cols else A.rows)) = true
  · simp [Csr.applyAxpy, hc] at h
  · have hc' := hc
    simp only [Bool.or_eq_true, bne_iff_ne, ne_eq, not_or, Decidable.not_not] at hc'
    by_cases h0 : (A.usedElements == 0 || tiny al) = true
    · simp only [Csr.applyAxpy, hc, h0, if_true, Bool.false_eq_true, if_false, Option.some.injEq] at h
      rw [← h]; cases ali <;> simp [hc'.1.1, hc'.2]
    · simp only [Csr.applyAxpy, hc, h0, Bool.false_eq_true, if_false, Option.some.injEq] at h
      rw [← h]; exact Csr.kernel_size tiny A al 1 x y r ali tr hc'.1.1 hc'.2

theorem Bcsr.kernel_size {α : Type} [Field α] (tiny : α → Bool) (A : Bcsr α) (a b : α) (x y r : Array α) (ali : Bool) :
    (A.kernel tiny a b x y r ali).size = A.rows * A.bh := by
  simp [Bcsr.kernel]

theorem Bcsr.kernelT_size {α : Type} [Field α] (tiny : α → Bool) (A : Bcsr α) (a b : α) (x y r : Array α) (ali : Bool)
    (hr : r.size = A.cols * A.bw) (hy : y.size = A.cols * A.bw) :
    (A.kernelT tiny a b x y r ali).size = A.cols * A.bw := by
  have hk : A.kernelT tiny a b x y r ali
      = (Bcsr.scatterT A x ((initR tiny (A.cols * A.bw) b r y ali).map (b / a * ·))).map (a * ·) := by
    simp [Bcsr.kernelT, Bcsr.scatterT]
  rw [hk]
  simp [Bcsr.scatterT_size, initR_size tiny (A.cols * A.bw) b r y ali hr hy]

theorem Bcsr.apply_size {α : Type} [Field α] (tiny : α → Bool) (A : Bcsr α) (x r r' : Array α) (tr : Bool)
    (h : A.apply tiny x r tr = some r') : r'.size = if tr then A.cols * A.bw else A.rows * A.bh := by
  by_cases hc : (r.size != (if tr then A.cols * A.bw else A.rows * A.bh)
      || x.size != (if tr then A.rows * A.bh else A.cols * A.bw)) = true
  · simp [Bcsr.apply, hc] at h
  · have hc' := hc
    simp only [Bool.or_eq_true, bne_iff_ne, ne_eq, not_or, Decidable.not_not] at hc'
    by_cases h0 : (A.usedElements == 0) = true
    · simp only [Bcsr.apply, hc, h0, if_true, Bool.false_eq_true, if_false, Option.some.injEq] at h
      rw [← h]; simp [hc'.1]
    · simp only [Bcsr.apply, hc, h0, Bool.false_eq_true, if_false, Option.some.injEq] at h
      rw [← h]
      cases tr
      · simp [Bcsr.kernel_size]
      · simp only [if_true] at hc' ⊢
        exact Bcsr.kernelT_size tiny A 1 0 x r r true hc'.1 hc'.1

theorem Bcsr.applyAxpy_size {α : Type} [Field α] (tiny : α → Bool) (A : Bcsr α) (x y r r' : Array α) (al : α)
    (ali tr : Bool) (h : A.applyAxpy tiny x y r al ali tr = some r') :
    r'.size = if tr then A.cols * A.bw else A.rows * A.bh := by
  by_cases hc : (r.size != (if tr then A.cols * A.bw else A.rows * A.bh)
      || x.size != (if tr then A.rows * A.bh else A.cols * A.bw)
      || y.size != (if tr then A.cols * A.bw else A.rows * A.bh)) = true
  · simp [Bcsr.applyAxpy, hc] at h
  · have hc' := hc
    simp only [Bool.or_eq_true, bne_iff_ne, ne_eq, not_or, Decidable.not_not] at hc'
    by_cases h0 : (A.usedElements == 0 || tiny al) = true
    · simp only [Bcsr.applyAxpy, hc, h0, if_true, Bool.false_eq_true, if_false, Option.some.injEq] at h
      rw [← h]; cases ali <;> simp [hc'.1.1, hc'.2]
    · simp only [Bcsr.applyAxpy, hc, h0, Bool.false_eq_true, if_false, Option.some.injEq] at h
      rw [← h]
      cases tr
      · simp [Bcsr.kernel_size]
      · simp only [if_true] at hc' ⊢
        exact Bcsr.kernelT_size tiny A al 1 x y r ali hc'.1.1 hc'.2

theorem Dense.apply_size {α : Type} [Field α] (tiny : α → Bool) (A : Dense α) (x r r' : Array α) (tr : Bool)
    (h : A.apply tiny x r tr = some r') : r'.size = if tr then A.cols else A.rows := by
  by_cases hc : (r.size != (if tr then A.cols else A.rows) || x.size != (if tr then A.rows else A.cols)) = true
  · simp [Dense.apply, hc] at h
  · by_cases h0 : (r.size == 0 && x.size == 0) = true
    · simp [Dense.apply, hc, h0] at h
    · simp only [Dense.apply, hc, h0, Bool.false_eq_true, if_false, Option.some.injEq] at h
      rw [← h]; cases tr <;> simp [Dense.kernel, Dense.kernelT]

theorem Dense.applyAxpy_size {α : Type} [Field α] (tiny : α → Bool) (A : Dense α) (x y r r' : Array α) (al : α)
    (ali tr : Bool) (h : A.applyAxpy tiny x y r al ali tr = some r') : r'.size = if tr then A.cols else A.rows := by
  by_cases hc : (r.size != (if tr then A.cols else A.rows) || x.size != (if tr then A.rows else A.cols)
      || y.size != (if tr then A.cols else A.rows)) = true
  · simp [Dense.applyAxpy, hc] at h
  · have hc' := hc
    simp only [Bool.or_eq_true, bne_iff_ne, ne_eq, not_or, Decidable.not_not] at hc'
    by_cases h0 : (r.size == 0 && x.size == 0) = true
    · simp [Dense.applyAxpy, hc, h0] at h
    · by_cases h1 : tiny al = true
      · simp only [Dense.applyAxpy, hc, h0, h1, if_true, Bool.false_eq_true, if_false, Option.some.injEq] at h
        rw [← h]; cases ali <;> simp [hc'.1.1, hc'.2]
      · simp only [Dense.applyAxpy, hc, h0, h1, Bool.false_eq_true, if_false, Option.some.injEq] at h
        rw [← h]; cases tr <;> simp [Dense.kernel, Dense.kernelT]

end FeatModel.LA
