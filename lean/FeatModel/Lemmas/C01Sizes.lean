import FeatModel.Lemmas.C01Csr
import FeatModel.Lemmas.C01Bcsr
import FeatModel.Lemmas.C01Dense
import FeatModel.Lemmas.C01Cscr
import FeatModel.Lemmas.C01Banded
/-! result sizes of the leaf containers' `apply` members (needed to compose them in meta-matrices) -/
namespace FeatModel.LA

theorem Csr.kernel_size {α : Type} [Field α] (tiny : α → Bool) (A : Csr α) (a b : α) (x y r : Array α) (ali tr : Bool)
    (hr : r.size = if tr then A.cols else A.rows) (hy : y.size = if tr then A.cols else A.rows) :
    (A.kernel tiny a b x y r ali tr).size = if tr then A.cols else A.rows := by
  cases tr
  · simp [Csr.kernel]
  · simp only [if_true] at hr hy ⊢
    simp [Csr.kernel, Csr.scatterT_size, initR_size tiny A.cols b r y ali hr hy]

theorem Csr.apply_size {α : Type} [Field α] (tiny : α → Bool) (A : Csr α) (x r r' : Array α) (tr : Bool)
    (h : A.apply tiny x r tr = some r') : r'.size = if tr then A.cols else A.rows := by
  by_cases hc : (r.size != (if tr then A.cols else A.rows) || x.size != (if tr then A.rows else A.cols)) = true
  · simp [Csr.apply, hc] at h
  · have hc' := hc
    simp only [Bool.or_eq_true, bne_iff_ne, ne_eq, not_or, Decidable.not_not] at hc'
    by_cases h0 : (A.usedElements == 0) = true
    · simp only [Csr.apply, hc, h0, if_true, Bool.false_eq_true, if_false, Option.some.injEq] at h
      rw [← h]; simp [hc'.1]
    · simp only [Csr.apply, hc, h0, Bool.false_eq_true, if_false, Option.some.injEq] at h
      rw [← h]; exact Csr.kernel_size tiny A 1 0 x r r true tr hc'.1 hc'.1

theorem Csr.applyAxpy_size {α : Type} [Field α] (tiny : α → Bool) (A : Csr α) (x y r r' : Array α) (al : α)
    (ali tr : Bool) (h : A.applyAxpy tiny x y r al ali tr = some r') : r'.size = if tr then A.cols else A.rows := by
  by_cases hc : (r.size != (if tr then A.cols else A.rows) || x.size != (if tr then A.rows else A.cols)
      || y.size != (if tr then A.cols else A.rows)) = true
  · simp [Csr.applyAxpy, hc] at h
  · have hc' := hc
    simp only [Bool.or_eq_true, bne_iff_ne, ne_eq, not_or, Decidable.not_not] at hc'
    by_cases h0 : (A.usedElements == 0 || tiny al) = true
    · simp only [Csr.applyAxpy, hc, h0, if_true, Bool.false_eq_true, if_false, Option.some.injEq] at h
      rw [← h]; cases ali <;> simp [hc'.1.1, hc'.2]
    · simp only [Csr.applyAxpy, hc, h0, Bool.false_eq_true, if_false, Option.some.injEq] at h
      rw [← h]; exact Csr.kernel_size tiny A al 1 x y r ali tr hc'.1.1 hc'.2

theorem Bcsr.kernel_size {α : Type} [Field α] (tiny : α → Bool) (A : Bcsr α) (a b : α) (x y r : Array α) (ali : Bool) :
    (A.kernel tiny a b x y r ali).size = A.rows * A.bh := by
  simp [Bcsr.kernel]

theorem Bcsr.kernelT_size {α : Type} [Field α] (tiny : α → Bool) (A : Bcsr α) (a b : α) (x y r : Array α) (ali : Bool)
    (hr : r.size = A.cols * A.bw) (hy : y.size = A.cols * A.bw) :
    (A.kernelT tiny a b x y r ali).size = A.cols * A.bw := by
  have hk : A.kernelT tiny a b x y r ali
      = (Bcsr.scatterT A x ((initR tiny (A.cols * A.bw) b r y ali).map (b / a * ·))).map (a * ·) := by
    simp [Bcsr.kernelT, Bcsr.scatterT]
  rw [hk]
  simp [Bcsr.scatterT_size, initR_size tiny (A.cols * A.bw) b r y ali hr hy]

theorem Bcsr.apply_size {α : Type} [Field α] (tiny : α → Bool) (A : Bcsr α) (x r r' : Array α) (tr : Bool)
    (h : A.apply tiny x r tr = some r') : r'.size = if tr then A.cols * A.bw else A.rows * A.bh := by
  by_cases hc : (r.size != (if tr then A.cols * A.bw else A.rows * A.bh)
      || x.size != (if tr then A.rows * A.bh else A.cols * A.bw)) = true
  · simp [Bcsr.apply, hc] at h
  · have hc' := hc
    simp only [Bool.or_eq_true, bne_iff_ne, ne_eq, not_or, Decidable.not_not] at hc'
    by_cases h0 : (A.usedElements == 0) = true
    · simp only [Bcsr.apply, hc, h0, if_true, Bool.false_eq_true, if_false, Option.some.injEq] at h
      rw [← h]; simp [hc'.1]
    · simp only [Bcsr.apply, hc, h0, Bool.false_eq_true, if_false, Option.some.injEq] at h
      rw [← h]
      cases tr
      · simp [Bcsr.kernel_size]
      · simp only [if_true] at hc' ⊢
        exact Bcsr.kernelT_size tiny A 1 0 x r r true hc'.1 hc'.1

theorem Bcsr.applyAxpy_size {α : Type} [Field α] (tiny : α → Bool) (A : Bcsr α) (x y r r' : Array α) (al : α)
    (ali tr : Bool) (h : A.applyAxpy tiny x y r al ali tr = some r') :
    r'.size = if tr then A.cols * A.bw else A.rows * A.bh := by
  by_cases hc : (r.size != (if tr then A.cols * A.bw else A.rows * A.bh)
      || x.size != (if tr then A.rows * A.bh else A.cols * A.bw)
      || y.size != (if tr then A.cols * A.bw else A.rows * A.bh)) = true
  · simp [Bcsr.applyAxpy, hc] at h
  · have hc' := hc
    simp only [Bool.or_eq_true, bne_iff_ne, ne_eq, not_or, Decidable.not_not] at hc'
    by_cases h0 : (A.usedElements == 0 || tiny al) = true
    · simp only [Bcsr.applyAxpy, hc, h0, if_true, Bool.false_eq_true, if_false, Option.some.injEq] at h
      rw [← h]; cases ali <;> simp [hc'.1.1, hc'.2]
    · simp only [Bcsr.applyAxpy, hc, h0, Bool.false_eq_true, if_false, Option.some.injEq] at h
      rw [← h]
      cases tr
      · simp [Bcsr.kernel_size]
      · simp only [if_true] at hc' ⊢
        exact Bcsr.kernelT_size tiny A al 1 x y r ali hc'.1.1 hc'.2

theorem Dense.apply_size {α : Type} [Field α] (tiny : α → Bool) (A : Dense α) (x r r' : Array α) (tr : Bool)
    (h : A.apply tiny x r tr = some r') : r'.size = if tr then A.cols else A.rows := by
  by_cases hc : (r.size != (if tr then A.cols else A.rows) || x.size != (if tr then A.rows else A.cols)) = true
  · simp [Dense.apply, hc] at h
  · have hc' := hc
    simp only [Bool.or_eq_true, bne_iff_ne, ne_eq, not_or, Decidable.not_not] at hc'
    by_cases h0 : (r.size == 0) = true
    · simp only [Dense.apply, hc, h0, if_true, Bool.false_eq_true, if_false, Option.some.injEq] at h
      rw [← h]; exact hc'.1
    · simp only [Dense.apply, hc, h0, Bool.false_eq_true, if_false, Option.some.injEq] at h
      rw [← h]; cases tr <;> simp [Dense.kernel, Dense.kernelT]

theorem Dense.applyAxpy_size {α : Type} [Field α] (tiny : α → Bool) (A : Dense α) (x y r r' : Array α) (al : α)
    (ali tr : Bool) (h : A.applyAxpy tiny x y r al ali tr = some r') : r'.size = if tr then A.cols else A.rows := by
  by_cases hc : (r.size != (if tr then A.cols else A.rows) || x.size != (if tr then A.rows else A.cols)
      || y.size != (if tr then A.cols else A.rows)) = true
  · simp [Dense.applyAxpy, hc] at h
  · have hc' := hc
    simp only [Bool.or_eq_true, bne_iff_ne, ne_eq, not_or, Decidable.not_not] at hc'
    by_cases h0 : (r.size == 0) = true
    · simp only [Dense.applyAxpy, hc, h0, if_true, Bool.false_eq_true, if_false, Option.some.injEq] at h
      rw [← h]; exact hc'.1.1
    · by_cases h1 : tiny al = true
      · simp only [Dense.applyAxpy, hc, h0, h1, if_true, Bool.false_eq_true, if_false, Option.some.injEq] at h
        rw [← h]; cases ali <;> simp [hc'.1.1, hc'.2]
      · simp only [Dense.applyAxpy, hc, h0, h1, Bool.false_eq_true, if_false, Option.some.injEq] at h
        rw [← h]; cases tr <;> simp [Dense.kernel, Dense.kernelT]

theorem Cscr.rowLoop_size {α : Type} [Field α] (A : Cscr α) (a b : α) (x r : Array α) :
    (Cscr.rowLoop A a b x r).size = r.size := by
  unfold Cscr.rowLoop
  have : ∀ (L : List Nat) (r : Array α), (L.foldl (fun r nzrow =>
      r.setIfInBounds (A.rowNumbers.getD nzrow 0)
        ((A.rowSum x nzrow * a) + (b * r.getD (A.rowNumbers.getD nzrow 0) 0))) r).size = r.size := by
    intro L
    induction L with
    | nil => intro r; rfl
    | cons k L ih => intro r; rw [List.foldl_cons, ih, Array.size_setIfInBounds]
  exact this _ r

theorem Cscr.kernel_size {α : Type} [Field α] (tiny : α → Bool) (A : Cscr α) (a b : α) (x y r : Array α) (ali tr : Bool)
    (hr : r.size = if tr then A.cols else A.rows) (hy : y.size = if tr then A.cols else A.rows) :
    (A.kernel tiny a b x y r ali tr).size = if tr then A.cols else A.rows := by
  cases tr
  · simp only [Bool.false_eq_true, if_false] at hr hy ⊢
    have hk : A.kernel tiny a b x y r ali false = Cscr.rowLoop A a b x (initR tiny A.rows b r y ali) := by
      simp [Cscr.kernel, Cscr.rowLoop]
    rw [hk, Cscr.rowLoop_size, initR_size tiny A.rows b r y ali hr hy]
  · simp only [if_true] at hr hy ⊢
    have hk : A.kernel tiny a b x y r ali true
        = (Cscr.scatterT A x ((initR tiny A.cols b r y ali).map (b / a * ·))).map (a * ·) := by
      simp [Cscr.kernel, Cscr.scatterT]
    rw [hk]
    simp [Cscr.scatterT_size, initR_size tiny A.cols b r y ali hr hy]

theorem Cscr.apply_size {α : Type} [Field α] (tiny : α → Bool) (A : Cscr α) (x r r' : Array α) (tr : Bool)
    (h : A.apply tiny x r tr = some r') : r'.size = if tr then A.cols else A.rows := by
  by_cases hc : (r.size != (if tr then A.cols else A.rows) || x.size != (if tr then A.rows else A.cols)) = true
  · simp [Cscr.apply, hc] at h
  · have hc' := hc
    simp only [Bool.or_eq_true, bne_iff_ne, ne_eq, not_or, Decidable.not_not] at hc'
    by_cases h0 : (A.usedElements == 0) = true
    · simp only [Cscr.apply, hc, h0, if_true, Bool.false_eq_true, if_false, Option.some.injEq] at h
      rw [← h]; simp [hc'.1]
    · simp only [Cscr.apply, hc, h0, Bool.false_eq_true, if_false, Option.some.injEq] at h
      rw [← h]; exact Cscr.kernel_size tiny A 1 0 x r r true tr hc'.1 hc'.1

theorem Cscr.applyAxpy_size {α : Type} [Field α] (tiny : α → Bool) (A : Cscr α) (x y r r' : Array α) (al : α)
    (ali tr : Bool) (h : A.applyAxpy tiny x y r al ali tr = some r') : r'.size = if tr then A.cols else A.rows := by
  by_cases hc : (r.size != (if tr then A.cols else A.rows) || x.size != (if tr then A.rows else A.cols)
      || y.size != (if tr then A.cols else A.rows)) = true
  · simp [Cscr.applyAxpy, hc] at h
  · have hc' := hc
    simp only [Bool.or_eq_true, bne_iff_ne, ne_eq, not_or, Decidable.not_not] at hc'
    by_cases h0 : (A.usedElements == 0 || tiny al) = true
    · simp only [Cscr.applyAxpy, hc, h0, if_true, Bool.false_eq_true, if_false, Option.some.injEq] at h
      rw [← h]; cases ali <;> simp [hc'.1.1, hc'.2]
    · simp only [Cscr.applyAxpy, hc, h0, Bool.false_eq_true, if_false, Option.some.injEq] at h
      rw [← h]; exact Cscr.kernel_size tiny A al 1 x y r ali tr hc'.1.1 hc'.2

theorem Banded.bandedLoop_size {α : Type} [Field α] (A : Banded α) (alpha beta : α) (x r : Array α) :
    (A.bandedLoop alpha beta x r).size = r.size := by
  rw [Banded.bandedLoop_eq]
  have inner : ∀ (i : Nat) (L : List Nat) (r : Array α),
      (L.foldl (fun r j => Banded.cellStep A alpha beta x i j r) r).size = r.size := by
    intro i L
    induction L with
    | nil => intro r; rfl
    | cons a L ih => intro r; rw [List.foldl_cons, ih, Banded.cellStep_size]
  have outer : ∀ (L : List Nat) (r : Array α),
      (L.foldl (fun r i => (List.range (A.noo + 1)).reverse.foldl (fun r j => Banded.cellStep A alpha beta x i j r) r) r).size
        = r.size := by
    intro L
    induction L with
    | nil => intro r; rfl
    | cons a L ih => intro r; rw [List.foldl_cons, ih, inner]
  exact outer _ r

theorem Banded.apply_size {α : Type} [Field α] (tiny : α → Bool) (A : Banded α) (x r r' : Array α)
    (h : A.apply tiny x r false = some r') : r'.size = A.rows := by
  by_cases hc : (r.size != A.rows || x.size != A.cols) = true
  · simp [Banded.apply, hc] at h
  · have hc' := hc
    simp only [Bool.or_eq_true, bne_iff_ne, ne_eq, not_or, Decidable.not_not] at hc'
    by_cases h0 : (r.size == 0) = true
    · simp only [Banded.apply, hc, h0, if_true, Bool.false_eq_true, if_false, Option.some.injEq] at h
      rw [← h]; exact hc'.1
    · simp only [Banded.apply, hc, h0, Bool.false_eq_true, if_false, Option.some.injEq] at h
      rw [← h]
      simp [Banded.kernel, Banded.bandedLoop_size, initR_size tiny A.rows 0 r r true hc'.1 hc'.1]

theorem Banded.applyAxpy_size {α : Type} [Field α] (tiny : α → Bool) (A : Banded α) (x y r r' : Array α) (al : α)
    (ali : Bool) (h : A.applyAxpy tiny x y r al ali false = some r') : r'.size = A.rows := by
  by_cases hc : (r.size != A.rows || x.size != A.cols || y.size != A.rows) = true
  · simp [Banded.applyAxpy, hc] at h
  · have hc' := hc
    simp only [Bool.or_eq_true, bne_iff_ne, ne_eq, not_or, Decidable.not_not] at hc'
    by_cases h0 : (r.size == 0) = true
    · simp only [Banded.applyAxpy, hc, h0, if_true, Bool.false_eq_true, if_false, Option.some.injEq] at h
      rw [← h]; exact hc'.1.1
    · by_cases h1 : (A.usedElements == 0 || tiny al) = true
      · simp only [Banded.applyAxpy, hc, h0, h1, if_true, Bool.false_eq_true, if_false, Option.some.injEq] at h
        rw [← h]; cases ali <;> simp [hc'.1.1, hc'.2]
      · simp only [Banded.applyAxpy, hc, h0, h1, Bool.false_eq_true, if_false, Option.some.injEq] at h
        rw [← h]
        simp [Banded.kernel, Banded.bandedLoop_size, initR_size tiny A.rows 1 r y ali hc'.1.1 hc'.2]

end FeatModel.LA
