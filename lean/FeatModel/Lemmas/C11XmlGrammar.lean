import FeatModel.Lemmas.C11Xml
import FeatModel.Lemmas.C11Num
/-!
C11 — the two directions that complement totality of the XML scanner model (`Model/Xml.lean`):

* **soundness**: the shape of every result on every byte string (`scanMarkup_sound`, `scanLoop_error_class`,
  `scanDoc_error_class`, `scanDoc_ok_tree`, `scanDoc_ok_wellNested`);
* **completeness**: every line produced by the documented markup grammar, with arbitrary layout, is scanned to the
  intended markup (`scanMarkup_complete`), and a document made of such lines, blank lines and comment lines produces
  exactly the intended events (`scanLoop_complete`, `scanDoc_complete`).

Everything lives in the namespace `FeatModel.C11.XG`.  Core Lean only.
-/
namespace FeatModel.C11.XG
open FeatModel.C11

/-! ## 0. text helpers -/

/-- a string consisting of FEAT white space only -/
def AllWs (w : Str) : Prop := ∀ c ∈ w, isWs c = true

theorem AllWs.nil : AllWs [] := by intro c hc; cases hc

theorem AllWs.append {a b : Str} (ha : AllWs a) (hb : AllWs b) : AllWs (a ++ b) := by
  intro c hc
  rcases List.mem_append.1 hc with h | h
  · exact ha c h
  · exact hb c h

theorem isWs_ne {c d : Char} (h : isWs c = true) (hd : 32 < d.toNat) : c ≠ d := by
  intro e; subst e; have := xml_isWs_toNat h; omega

theorem AllWs.not_mem {w : Str} (h : AllWs w) {d : Char} (hd : 32 < d.toNat) : d ∉ w :=
  fun hm => isWs_ne (h d hm) hd rfl

theorem head?_dropWhile_false {p : Char → Bool} {l : Str} {c : Char}
    (h : (l.dropWhile p).head? = some c) : p c = false := by
  induction l with
  | nil => simp at h
  | cons x xs ih =>
    rw [List.dropWhile_cons] at h
    by_cases hx : p x = true
    · rw [if_pos hx] at h; exact ih h
    · rw [if_neg hx] at h
      simp only [List.head?_cons, Option.some.injEq] at h
      subst h; simpa using hx

theorem trimFront_head {s : Str} {c : Char} (h : (trimFront s).head? = some c) : isWs c = false :=
  head?_dropWhile_false h

theorem trimBack_getLast {s : Str} {c : Char} (h : (trimBack s).getLast? = some c) : isWs c = false := by
  unfold trimBack at h
  rw [List.getLast?_reverse] at h
  exact head?_dropWhile_false h

theorem trimBack_prefix (s : Str) : trimBack s <+: s := by
  unfold trimBack
  have := List.dropWhile_suffix (l := s.reverse) isWs
  have := List.reverse_prefix.2 this
  simpa using this

theorem trimFront_suffix (s : Str) : trimFront s <:+ s := List.dropWhile_suffix isWs

theorem head?_of_prefix {a b : Str} {c : Char} (h : a <+: b) (hc : a.head? = some c) : b.head? = some c := by
  obtain ⟨t, rfl⟩ := h
  cases a with
  | nil => simp at hc
  | cons x xs => simpa using hc

theorem trim_head {s : Str} {c : Char} (h : (trim s).head? = some c) : isWs c = false :=
  trimFront_head (head?_of_prefix (trimBack_prefix _) h)

theorem trim_getLast {s : Str} {c : Char} (h : (trim s).getLast? = some c) : isWs c = false :=
  trimBack_getLast h

/-- `trim` is idempotent -/
theorem trim_trim (s : Str) : trim (trim s) = trim s :=
  trim_eq_self _ (fun _ h => trim_head h) (fun _ h => trim_getLast h)

theorem mem_trim {s : Str} {c : Char} (h : c ∈ trim s) : c ∈ s :=
  (trimFront_suffix s).mem ((trimBack_prefix _).mem h)

theorem trimFront_ws_append {w t : Str} (hw : AllWs w) : trimFront (w ++ t) = trimFront t := by
  induction w with
  | nil => rfl
  | cons x xs ih =>
    have hx := hw x (by simp)
    simp only [trimFront, List.cons_append, List.dropWhile_cons, hx, if_true]
    exact ih (fun c hc => hw c (by simp [hc]))

theorem trimFront_allWs {w : Str} (hw : AllWs w) : trimFront w = [] := by
  simpa [trimFront] using trimFront_ws_append (t := []) hw

theorem AllWs.reverse {w : Str} (hw : AllWs w) : AllWs w.reverse :=
  fun c hc => hw c (List.mem_reverse.1 hc)

theorem trimBack_append_ws {w t : Str} (hw : AllWs w) : trimBack (t ++ w) = trimBack t := by
  unfold trimBack
  rw [List.reverse_append]
  have := trimFront_ws_append (t := t.reverse) hw.reverse
  unfold trimFront at this
  rw [this]

theorem trim_ws_append {w t : Str} (hw : AllWs w) : trim (w ++ t) = trim t := by
  unfold trim; rw [trimFront_ws_append hw]

theorem trim_append_ws {w t : Str} (hw : AllWs w) : trim (t ++ w) = trim t := by
  unfold trim trimFront
  rw [List.dropWhile_append]
  split
  · rename_i h
    have h' : t.dropWhile isWs = [] := by simpa using h
    have : w.dropWhile isWs = [] := trimFront_allWs hw
    rw [this, h']
  · exact trimBack_append_ws hw

/-- white space around a trimmed text is removed -/
theorem trim_wrap {w w' t : Str} (hw : AllWs w) (hw' : AllWs w') (ht : trim t = t) :
    trim (w ++ (t ++ w')) = t := by
  rw [trim_ws_append hw, trim_append_ws hw', ht]

theorem trim_allWs {w : Str} (hw : AllWs w) : trim w = [] := by
  have := trim_ws_append (t := []) hw
  rw [List.append_nil] at this
  rw [this]; rfl

/-- a text with a non-white head and a non-white last character is its own trim -/
theorem trim_self_of_ends {a b : Char} {t : Str} (ha : isWs a = false) (hb : isWs b = false) :
    trim (a :: (t ++ [b])) = a :: (t ++ [b]) :=
  xml_trim_eq_self ha (by simp [List.getLast?_eq_head?_reverse]) hb

/-! ### `splitAtChar` -/

theorem splitAtChar_some {c : Char} : ∀ {s a b : Str}, splitAtChar c s = some (a, b) → s = a ++ c :: b ∧ c ∉ a := by
  intro s
  induction s with
  | nil => intro a b h; simp [splitAtChar] at h
  | cons x xs ih =>
    intro a b h
    unfold splitAtChar at h
    by_cases hx : (x == c) = true
    · rw [if_pos hx] at h
      simp only [Option.some.injEq, Prod.mk.injEq] at h
      obtain ⟨rfl, rfl⟩ := h
      have : x = c := by simpa using hx
      subst this
      simp
    · rw [if_neg hx] at h
      cases hs : splitAtChar c xs with
      | none => rw [hs] at h; simp at h
      | some p =>
        obtain ⟨a', b'⟩ := p
        rw [hs] at h
        simp only [Option.some.injEq, Prod.mk.injEq] at h
        obtain ⟨rfl, rfl⟩ := h
        obtain ⟨e, hn⟩ := ih hs
        have hxc : x ≠ c := by simpa using hx
        refine ⟨by rw [e]; rfl, ?_⟩
        intro hm
        rcases List.mem_cons.1 hm with h1 | h1
        · exact hxc h1.symm
        · exact hn h1

theorem splitAtChar_none {c : Char} : ∀ {s : Str}, c ∉ s → splitAtChar c s = none := by
  intro s
  induction s with
  | nil => intro _; rfl
  | cons x xs ih =>
    intro h
    simp only [List.mem_cons, not_or] at h
    have hx : (x == c) = false := by simpa using fun e => h.1 e.symm
    simp [splitAtChar, hx, ih h.2]

/-! ### `strLt` is a strict order, `mapInsert` keeps a key-sorted list sorted -/

theorem strLt_irrefl : ∀ a : Str, strLt a a = false
  | [] => rfl
  | x :: xs => by
    have := strLt_irrefl xs
    simp [strLt, this]

theorem strLt_trans : ∀ {a b c : Str}, strLt a b = true → strLt b c = true → strLt a c = true
  | [], [], _, h, _ => by simp [strLt] at h
  | [], _ :: _, [], _, h => by simp [strLt] at h
  | [], _ :: _, _ :: _, _, _ => rfl
  | _ :: _, [], _, h, _ => by simp [strLt] at h
  | _ :: _, _ :: _, [], _, h => by simp [strLt] at h
  | x :: xs, y :: ys, z :: zs, h1, h2 => by
    unfold strLt at h1 h2 ⊢
    by_cases hxy : x.toNat < y.toNat
    · by_cases hyz : y.toNat < z.toNat
      · rw [if_pos (by omega)]
      · rw [if_neg hyz] at h2
        by_cases hzy : y.toNat > z.toNat
        · rw [if_pos hzy] at h2; cases h2
        · rw [if_pos (by omega)]
    · rw [if_neg hxy] at h1
      by_cases hyx : x.toNat > y.toNat
      · rw [if_pos hyx] at h1; cases h1
      · rw [if_neg hyx] at h1
        by_cases hyz : y.toNat < z.toNat
        · rw [if_pos (by omega)]
        · rw [if_neg hyz] at h2
          by_cases hzy : y.toNat > z.toNat
          · rw [if_pos hzy] at h2; cases h2
          · rw [if_neg hzy] at h2
            rw [if_neg (by omega), if_neg (by omega)]
            exact strLt_trans h1 h2

theorem strLt_asymm {a b : Str} (h : strLt a b = true) : strLt b a = false := by
  cases h' : strLt b a with
  | false => rfl
  | true => have := strLt_trans h h'; rw [strLt_irrefl] at this; cases this

/-- strictly increasing keys (`std::map` iteration order) -/
def SortedKeys (l : List (Str × Str)) : Prop := l.Pairwise (fun a b => strLt a.1 b.1 = true)

theorem mem_mapInsert {k v : Str} {l : List (Str × Str)} {x : Str × Str}
    (h : x ∈ mapInsert strLt k v l) : x = (k, v) ∨ x ∈ l := by
  induction l with
  | nil => simpa [mapInsert] using h
  | cons p rest ih =>
    obtain ⟨k', v'⟩ := p
    unfold mapInsert at h
    split at h
    · rcases List.mem_cons.1 h with h | h
      · exact .inl h
      · exact .inr h
    · split at h
      · rcases List.mem_cons.1 h with h | h
        · exact .inr (by simp [h])
        · rcases ih h with h | h
          · exact .inl h
          · exact .inr (List.mem_cons_of_mem _ h)
      · exact .inr h

theorem sortedKeys_mapInsert {k v : Str} {l : List (Str × Str)} (h : SortedKeys l) :
    SortedKeys (mapInsert strLt k v l) := by
  induction l with
  | nil => simp [mapInsert, SortedKeys]
  | cons p rest ih =>
    obtain ⟨k', v'⟩ := p
    have hp := List.pairwise_cons.1 h
    unfold mapInsert
    split
    · rename_i hlt
      refine List.pairwise_cons.2 ⟨?_, h⟩
      intro x hx
      rcases List.mem_cons.1 hx with rfl | hx
      · exact hlt
      · exact strLt_trans hlt (hp.1 x hx)
    · split
      · rename_i hgt
        refine List.pairwise_cons.2 ⟨?_, ih hp.2⟩
        intro x hx
        rcases mem_mapInsert hx with rfl | hx
        · exact hgt
        · exact hp.1 x hx
      · exact h

/-! ## 1. Soundness of `scan_markup` -/

/-- what every scanned attribute map satisfies -/
def AttrsOK (l : List (Str × Str)) : Prop :=
  (∀ kv ∈ l, validName kv.1 = true ∧ '"' ∉ kv.2 ∧ trim kv.2 = kv.2) ∧ SortedKeys l

theorem AttrsOK.nil : AttrsOK [] := ⟨fun kv h => (by cases h), List.Pairwise.nil⟩

theorem AttrsOK.insert {k v : Str} {l : List (Str × Str)} (h : AttrsOK l) (hk : validName k = true)
    (hv : '"' ∉ v) : AttrsOK (mapInsert strLt k (trim v) l) := by
  refine ⟨?_, sortedKeys_mapInsert h.2⟩
  intro kv hkv
  rcases mem_mapInsert hkv with rfl | hkv
  · exact ⟨hk, fun hm => hv (mem_trim hm), trim_trim v⟩
  · exact h.1 kv hkv

theorem scanAttrs_sound : ∀ (f : Nat) (s : Str) (acc r : List (Str × Str)),
    AttrsOK acc → scanAttrs f s acc = some r → AttrsOK r := by
  intro f
  induction f with
  | zero => intro s acc r _ h; simp [scanAttrs] at h
  | succ f ih =>
    intro s acc r hacc h
    unfold scanAttrs at h
    split at h
    · injection h with h; subst h; exact hacc
    · split at h
      · cases h
      · rename_i k rest hsp
        simp only at h
        split at h
        · cases h
        · rename_i hk
          split at h
          · rename_i r1 hrest
            split at h
            · cases h
            · rename_i v r2 hsp2
              have hv := (splitAtChar_some hsp2).2
              exact ih _ _ _ (hacc.insert (by simpa using hk) hv) h
          · cases h

/-- the well-formedness of a scanned markup -/
structure MarkupOK (m : Markup) : Prop where
  name : validName m.name = true
  attrs : ∀ kv ∈ m.attrs, validName kv.1 = true ∧ '"' ∉ kv.2 ∧ trim kv.2 = kv.2
  sorted : SortedKeys m.attrs
  not_both : ¬ (m.closed = true ∧ m.termin = true)
  termin_attrs : m.termin = true → m.attrs = []

/-- **Soundness of `scan_markup`**: on every input, a scanned markup has a valid name, valid attribute keys, trimmed
    attribute values without `"`, keys strictly increasing (`std::map` order, no duplicates), is not both a
    terminator and closed, and a terminator carries no attributes.  Moreover the line is bracketed by `<` … `>`. -/
theorem scanMarkup_sound {s : Str} {m : Markup} (h : scanMarkup s = .ok (some m)) :
    MarkupOK m ∧ s.head? = some '<' ∧ s.getLast? = some '>' ∧ 2 ≤ s.length := by
  unfold scanMarkup at h
  extract_lets xhead xtail inner sdata termin closed sdata1 sdata2 body name rest at h
  split at h
  · cases h
  split at h
  · cases h
  rename_i hb1 hb2
  have hbr : s.head? = some '<' ∧ s.getLast? = some '>' := by
    rw [← startsWith_lt_iff, ← endsWith_gt_iff]
    show xhead = true ∧ xtail = true
    cases hx : xhead <;> cases hy : xtail <;> simp_all
  split at h
  · cases h
  rename_i hlen
  refine ⟨?_, hbr.1, hbr.2, by omega⟩
  split at h
  · cases h
  split at h
  · cases h
  split at h
  · cases h
  split at h
  · cases h
  split at h
  · cases h
  rename_i htc _ hv
  have hv' : validName name = true := by simpa using hv
  split at h
  · rename_i ht
    split at h
    · injection h with h; injection h with h; subst h
      exact ⟨hv', fun kv hkv => (by cases hkv), List.Pairwise.nil, fun h => (by cases h.1), fun _ => rfl⟩
    · cases h
  · rename_i ht
    split at h
    · cases h
    · rename_i attrs hsa
      injection h with h; injection h with h; subst h
      have := scanAttrs_sound _ _ _ _ AttrsOK.nil hsa
      exact ⟨hv', this.1, this.2, fun h => (by cases h.2), fun h => (by cases h)⟩

/-- the statement in the form requested: name, attributes, flags -/
theorem scanMarkup_sound' {s : Str} {m : Markup} (h : scanMarkup s = .ok (some m)) :
    validName m.name = true ∧
    (∀ kv ∈ m.attrs, validName kv.1 = true ∧ '"' ∉ kv.2 ∧ trim kv.2 = kv.2) ∧
    ¬ (m.closed = true ∧ m.termin = true) ∧ (m.termin = true → m.attrs = []) ∧
    m.attrs.Pairwise (fun a b => strLt a.1 b.1 = true) :=
  let h := (scanMarkup_sound h).1
  ⟨h.name, h.attrs, h.not_both, h.termin_attrs, h.sorted⟩

/-- a line classified as content neither starts with `<` nor ends with `>` -/
theorem scanMarkup_none {s : Str} (h : scanMarkup s = .ok none) :
    s.head? ≠ some '<' ∧ s.getLast? ≠ some '>' := by
  unfold Ne
  rw [← startsWith_lt_iff, ← endsWith_gt_iff]
  unfold scanMarkup at h
  extract_lets xhead xtail inner sdata termin closed sdata1 sdata2 body name rest at h
  split at h
  · rename_i hb
    show ¬ xhead = true ∧ ¬ xtail = true
    cases hx : xhead <;> cases hy : xtail <;> simp_all
  split at h
  · cases h
  split at h
  · cases h
  split at h
  · cases h
  split at h
  · cases h
  split at h
  · cases h
  split at h
  · cases h
  split at h
  · cases h
  split at h
  · split at h <;> cases h
  · split at h <;> cases h

/-! ## 2. Error classes: the scanner itself only ever raises `SyntaxError` -/

/-- every error of `Scanner::scan` is a syntax error of the scanner or an error raised by the client -/
theorem scanLoop_error_class {σ : Type} (cl : Client σ) (P : Err → Prop)
    (ho : ∀ st l m e, cl.openM st l m = .error e → P e)
    (hc : ∀ st l e, cl.closeM st l = .error e → P e)
    (ht : ∀ st l s e, cl.content st l s = .error e → P e) :
    ∀ (lines : List Str) (iline : Nat) (names : List Str) (st : σ) (e : Err),
      scanLoop cl lines iline names st = .error e → e.cls = .syntax ∨ P e := by
  intro lines
  induction lines with
  | nil =>
    intro iline names st e h
    unfold scanLoop at h
    cases names <;> (injection h with h; subst h; exact .inl rfl)
  | cons raw rest ih =>
    intro iline names st e h
    unfold scanLoop at h
    extract_lets il sline at h
    split at h
    · exact ih _ _ _ _ h
    split at h
    · split at h
      · exact ih _ _ _ _ h
      · injection h with h; subst h; exact .inl rfl
    split at h
    · injection h with h; subst h; exact .inl rfl
    · split at h
      · rename_i e' he
        injection h with h; subst h; exact .inr (ht _ _ _ _ he)
      · exact ih _ _ _ _ h
    · split at h
      · split at h
        · injection h with h; subst h; exact .inl rfl
        · split at h
          · injection h with h; subst h; exact .inl rfl
          · split at h
            · rename_i e' he
              injection h with h; subst h; exact .inr (hc _ _ _ he)
            · split at h
              · cases h
              · exact ih _ _ _ _ h
      · split at h
        · rename_i e' he
          injection h with h; subst h; exact .inr (ho _ _ _ _ he)
        · exact ih _ _ _ _ h

theorem readRoot_error_class : ∀ (lines : List Str) (iline : Nat) (e : Err),
    readRoot lines iline = .error e → e.cls = .syntax := by
  intro lines
  induction lines with
  | nil => intro iline e h; unfold readRoot at h; injection h with h; subst h; rfl
  | cons raw rest ih =>
    intro iline e h
    unfold readRoot at h
    extract_lets il sline at h
    split at h
    · exact ih _ _ h
    split at h
    · injection h with h; subst h; rfl
    · injection h with h; subst h; rfl
    · split at h
      · injection h with h; subst h; rfl
      · cases h

/-- **on every byte string, the only failure of `scan` with the recording parser is a `SyntaxError`** -/
theorem scanDoc_error_class {text : Str} {e : Err} (h : scanDoc text = .error e) : e.cls = .syntax := by
  unfold scanDoc at h
  split at h
  · rename_i e' he
    injection h with h; subst h
    exact readRoot_error_class _ _ _ he
  · rename_i m iline rest hr
    split at h
    · rename_i e' he
      injection h with h; subst h
      have := scanLoop_error_class recClient (fun _ => False)
        (by intro st l m e h; simp [recClient] at h)
        (by intro st l e h; simp [recClient] at h)
        (by intro st l s e h; simp [recClient] at h) _ _ _ _ _ he
      rcases this with h | h
      · exact h
      · exact h.elim
    · cases h

/-! ## 3. Completeness of `scan_markup`: the layout-tolerant markup grammar

`ws* '<' ws* ['/' ws*] name ( ws+ key ws* '=' ws* '"' value '"' )* ws* ['/' ws*] '>' ws*`

`ws` ranges over `isWs`; `name`/`key` satisfy `validName`; a value is any text without `"`, `<`, `>` (inner blanks,
`=`, `/`, `'` allowed) and the scanner delivers `trim value`.  Only the separator in front of the *first* key has to be
non-empty: `<a b="1"c="2">` is accepted by the scanner (see the examples at the end of this section). -/

/-- the layout of one attribute: `sep key w1 '=' w2 '"' val '"'` -/
structure AttrL where
  sep : Str
  key : Str
  w1 : Str
  w2 : Str
  val : Str

def AttrL.core (a : AttrL) : Str := a.key ++ (a.w1 ++ '=' :: (a.w2 ++ '"' :: (a.val ++ ['"'])))
def AttrL.render (a : AttrL) : Str := a.sep ++ a.core

def renderAttrs : List AttrL → Str
  | [] => []
  | a :: as => a.render ++ renderAttrs as

structure AttrL.OK (a : AttrL) : Prop where
  sep : AllWs a.sep
  key : validName a.key = true
  w1 : AllWs a.w1
  w2 : AllWs a.w2
  val : ∀ c ∈ a.val, c ≠ '"' ∧ c ≠ '<' ∧ c ≠ '>'

/-- the scanned attribute map: `std::map::emplace` in file order (the first occurrence of a key wins) -/
def attrMap (as : List AttrL) : List (Str × Str) :=
  as.foldl (fun acc a => mapInsert strLt a.key (trim a.val) acc) []

/-- text between `<` and `>` -/
def markupInner (w1 w2 : Str) (termin : Bool) (name : Str) (attrs : List AttrL) (w3 : Str) (closed : Bool)
    (w4 : Str) : Str :=
  w1 ++ ((if termin then '/' :: w2 else []) ++ (name ++ (renderAttrs attrs ++ (w3 ++
    (if closed then '/' :: w4 else [])))))

/-- one markup line with explicit layout -/
def renderMarkup (w0 w1 w2 : Str) (termin : Bool) (name : Str) (attrs : List AttrL) (w3 : Str) (closed : Bool)
    (w4 w5 : Str) : Str :=
  w0 ++ ('<' :: (markupInner w1 w2 termin name attrs w3 closed w4 ++ ['>']) ++ w5)

theorem AttrL.OK.core_shape {a : AttrL} (h : a.OK) (r : Str) (hr : r = [] ∨ ∃ t, r = t ++ ['"']) :
    ∃ b t, isWs b = false ∧ a.core ++ r = b :: (t ++ ['"']) := by
  obtain ⟨sep, key, w1, w2, val⟩ := a
  have hk := h.key
  simp only at hk
  cases key with
  | nil => simp [validName] at hk
  | cons b u =>
    have hb := validName_not_ws hk b (by simp)
    rcases hr with rfl | ⟨t, rfl⟩
    · exact ⟨b, u ++ (w1 ++ '=' :: (w2 ++ '"' :: val)), hb, by simp [AttrL.core]⟩
    · exact ⟨b, u ++ (w1 ++ '=' :: (w2 ++ '"' :: (val ++ '"' :: t))), hb, by simp [AttrL.core]⟩

theorem renderAttrs_last : ∀ {as : List AttrL}, (∀ a ∈ as, a.OK) →
    renderAttrs as = [] ∨ ∃ t, renderAttrs as = t ++ ['"']
  | [], _ => .inl rfl
  | a :: as, h => by
    have ih := renderAttrs_last (as := as) (fun x hx => h x (by simp [hx]))
    obtain ⟨b, t, -, e⟩ := (h a (by simp)).core_shape _ ih
    refine .inr ⟨a.sep ++ b :: t, ?_⟩
    show a.sep ++ a.core ++ renderAttrs as = _
    rw [List.append_assoc, e]; simp

theorem renderAttrs_length : ∀ (as : List AttrL), as.length ≤ (renderAttrs as).length
  | [] => Nat.le_refl _
  | a :: as => by
    have := renderAttrs_length as
    simp only [renderAttrs, AttrL.render, AttrL.core, List.length_append, List.length_cons]
    omega

theorem not_mem_renderAttrs {d : Char} (hd : 32 < d.toNat) (h1 : d ≠ '=') (h2 : d ≠ '"')
    (hnm : ∀ nm : Str, validName nm = true → d ∉ nm) :
    ∀ {as : List AttrL}, (∀ a ∈ as, a.OK) → (∀ a ∈ as, d ∉ a.val) → d ∉ renderAttrs as
  | [], _, _ => by simp [renderAttrs]
  | a :: as, h, hv => by
    have ih := not_mem_renderAttrs hd h1 h2 hnm (as := as) (fun x hx => h x (by simp [hx]))
      (fun x hx => hv x (by simp [hx]))
    have ha := h a (by simp)
    simp only [renderAttrs, AttrL.render, AttrL.core, List.mem_append, List.mem_cons, List.not_mem_nil, or_false,
      not_or]
    exact ⟨⟨ha.sep.not_mem hd, hnm _ ha.key, ha.w1.not_mem hd, h1, ha.w2.not_mem hd, h2, hv a (by simp), h2⟩, ih⟩

theorem trim_renderAttrs_cons {a : AttrL} {as : List AttrL} (ha : a.OK) (has : ∀ x ∈ as, x.OK) :
    trim (renderAttrs (a :: as)) = a.core ++ renderAttrs as := by
  obtain ⟨b, t, hb, e⟩ := ha.core_shape _ (renderAttrs_last has)
  show trim (a.sep ++ a.core ++ renderAttrs as) = _
  rw [List.append_assoc, trim_ws_append ha.sep, e]
  exact trim_self_of_ends hb (by decide)

theorem scanAttrs_nil (f : Nat) (acc : List (Str × Str)) : scanAttrs (f + 1) [] acc = some acc := by
  simp [scanAttrs]

/-- one round of the attribute loop on `key w1 = w2 "v" r2` -/
theorem scanAttrs_step (f : Nat) (k w1 w2 v r2 : Str) (acc : List (Str × Str)) (hk : validName k = true)
    (hw1 : AllWs w1) (hw2 : AllWs w2) (hv : '"' ∉ v) (hr2 : r2 = [] ∨ ∃ t, r2 = t ++ ['"']) :
    scanAttrs (f + 1) (k ++ (w1 ++ '=' :: (w2 ++ '"' :: (v ++ '"' :: r2)))) acc =
      scanAttrs f (trim r2) (mapInsert strLt k (trim v) acc) := by
  have hne : (k ++ (w1 ++ '=' :: (w2 ++ '"' :: (v ++ '"' :: r2)))).isEmpty = false := by simp
  have hsplit1 : splitAtChar '=' (k ++ (w1 ++ '=' :: (w2 ++ '"' :: (v ++ '"' :: r2)))) =
      some (k ++ w1, w2 ++ '"' :: (v ++ '"' :: r2)) := by
    rw [← List.append_assoc]
    apply splitAtChar_append
    intro hm
    rcases List.mem_append.1 hm with hm | hm
    · exact validName_not_mem hk (by decide) hm
    · exact hw1.not_mem (by decide) hm
  have hsplit2 : splitAtChar '"' (v ++ '"' :: r2) = some (v, r2) := splitAtChar_append hv
  have hq : isWs '"' = false := by decide
  have htk : trim (k ++ w1) = k := by rw [trim_append_ws hw1, trim_validName hk]
  have htrimX : trim (w2 ++ '"' :: (v ++ '"' :: r2)) = '"' :: (v ++ '"' :: r2) := by
    rw [trim_ws_append hw2]
    rcases hr2 with rfl | ⟨t, rfl⟩
    · exact trim_self_of_ends hq hq
    · have : '"' :: (v ++ '"' :: (t ++ ['"'])) = '"' :: ((v ++ '"' :: t) ++ ['"']) := by simp
      rw [this]; exact trim_self_of_ends hq hq
  rw [scanAttrs]
  simp only [hne, Bool.false_eq_true, if_false, hsplit1, htk, hk, Bool.not_true, htrimX, hsplit2]

/-- the attribute loop on a rendered attribute list -/
theorem scanAttrs_render : ∀ (as : List AttrL) (acc : List (Str × Str)) (f : Nat), as.length < f →
    (∀ a ∈ as, a.OK) →
    scanAttrs f (trim (renderAttrs as)) acc =
      some (as.foldl (fun acc a => mapInsert strLt a.key (trim a.val) acc) acc)
  | [], acc, f, hf, _ => by
    cases f with
    | zero => cases hf
    | succ f => exact scanAttrs_nil f acc
  | a :: as, acc, f, hf, h => by
    cases f with
    | zero => cases hf
    | succ f =>
      have ha := h a (by simp)
      have has : ∀ x ∈ as, x.OK := fun x hx => h x (by simp [hx])
      rw [trim_renderAttrs_cons ha has]
      have e : a.core ++ renderAttrs as =
          a.key ++ (a.w1 ++ '=' :: (a.w2 ++ '"' :: (a.val ++ '"' :: renderAttrs as))) := by
        simp [AttrL.core]
      rw [e, scanAttrs_step f _ _ _ _ _ acc ha.key ha.w1 ha.w2 (fun hm => (ha.val _ hm).1 rfl)
        (renderAttrs_last has)]
      exact scanAttrs_render as _ f (by simpa using hf) has

theorem scanAttrs_attrMap (as : List AttrL) (h : ∀ a ∈ as, a.OK) :
    scanAttrs ((trim (renderAttrs as)).length + 1) (trim (renderAttrs as)) [] = some (attrMap as) := by
  apply scanAttrs_render as [] _ _ h
  cases as with
  | nil => simp
  | cons a as =>
    rw [trim_renderAttrs_cons (h a (by simp)) (fun x hx => h x (by simp [hx]))]
    have := renderAttrs_length as
    have hk : 0 < a.key.length := List.length_pos_iff.mpr (validName_ne_nil (h a (by simp)).key)
    simp only [AttrL.core, List.length_append, List.length_cons]
    omega

/-- facts about `name attr*` (the markup body after removing `/`s and outer white space) -/
theorem body_facts {name : Str} {attrs : List AttrL} (hn : validName name = true) (ha : ∀ a ∈ attrs, a.OK)
    (hsep : ∀ a, attrs.head? = some a → a.sep ≠ []) :
    trim (name ++ renderAttrs attrs) = name ++ renderAttrs attrs ∧
    '<' ∉ name ++ renderAttrs attrs ∧ '>' ∉ name ++ renderAttrs attrs ∧
    ((name ++ renderAttrs attrs).head? == some '/') = false ∧
    ((name ++ renderAttrs attrs).getLast? == some '/') = false ∧
    (name ++ renderAttrs attrs).takeWhile (fun c => !isWs c) = name ∧
    (name ++ renderAttrs attrs).dropWhile (fun c => !isWs c) = renderAttrs attrs := by
  obtain ⟨b, u, rfl⟩ : ∃ b u, name = b :: u := by
    cases name with
    | nil => simp [validName] at hn
    | cons b u => exact ⟨b, u, rfl⟩
  have hb : isWs b = false := validName_not_ws hn b (by simp)
  have hbs : b ≠ '/' := isAlnum_ne (validName_all hn b (by simp)) (by decide)
  have hlast : ∃ c, (b :: u ++ renderAttrs attrs).getLast? = some c ∧ isWs c = false ∧ c ≠ '/' := by
    rcases renderAttrs_last ha with e | ⟨t, e⟩
    · rw [e, List.append_nil]
      cases hl : (b :: u).getLast? with
      | none => simp at hl
      | some c =>
        have hm := List.mem_of_getLast? hl
        exact ⟨c, rfl, validName_not_ws hn c hm, isAlnum_ne (validName_all hn c hm) (by decide)⟩
    · refine ⟨'"', ?_, by decide, by decide⟩
      rw [e, ← List.append_assoc]; simp [List.getLast?_eq_head?_reverse]
  obtain ⟨c, hc, hcw, hcs⟩ := hlast
  have hspan := span_append_stop (p := fun c => !isWs c) (b :: u) (renderAttrs attrs)
    (fun c hc => by simp [validName_not_ws hn c hc])
    (by
      intro c hc
      cases attrs with
      | nil => simp [renderAttrs] at hc
      | cons a as =>
        have hs := hsep a rfl
        have hws := (ha a (by simp)).sep
        cases hsp : a.sep with
        | nil => exact absurd hsp hs
        | cons x xs =>
          simp only [renderAttrs, AttrL.render, hsp, List.cons_append, List.head?_cons, Option.some.injEq] at hc
          subst hc
          have := hws x (by simp [hsp])
          simp [this])
  refine ⟨xml_trim_eq_self hb hc hcw, ?_, ?_, ?_, ?_, hspan.1, hspan.2⟩
  · intro hm
    rcases List.mem_append.1 hm with hm | hm
    · exact validName_not_mem hn (by decide) hm
    · exact not_mem_renderAttrs (by decide) (by decide) (by decide)
        (fun nm h => validName_not_mem h (by decide)) ha (fun a h hm => ((ha a h).val _ hm).2.1 rfl) hm
  · intro hm
    rcases List.mem_append.1 hm with hm | hm
    · exact validName_not_mem hn (by decide) hm
    · exact not_mem_renderAttrs (by decide) (by decide) (by decide)
        (fun nm h => validName_not_mem h (by decide)) ha (fun a h hm => ((ha a h).val _ hm).2.2 rfl) hm
  · simp [hbs]
  · rw [hc]; simpa using hcs

theorem markupTail_attrs (name : Str) (attrs : List AttrL) (closed : Bool) (ha : ∀ a ∈ attrs, a.OK) :
    markupTail name (trim (renderAttrs attrs)) false closed =
      .ok (some { name := name, attrs := attrMap attrs, closed := closed, termin := false }) := by
  simp only [markupTail, Bool.false_eq_true, if_false, scanAttrs_attrMap attrs ha]

/-- open markup `< name attr* >` -/
theorem scanMarkup_inner_open {w1 name w3 : Str} {attrs : List AttrL} (hw1 : AllWs w1) (hw3 : AllWs w3)
    (hn : validName name = true) (ha : ∀ a ∈ attrs, a.OK) (hsep : ∀ a, attrs.head? = some a → a.sep ≠ []) :
    scanMarkup ('<' :: (markupInner w1 [] false name attrs w3 false [] ++ ['>'])) =
      .ok (some { name := name, attrs := attrMap attrs, closed := false, termin := false }) := by
  obtain ⟨h1, h2, h3, h4, h5, h6, h7⟩ := body_facts hn ha hsep
  have hne : name ++ renderAttrs attrs ≠ [] := by simp [validName_ne_nil hn]
  have e : markupInner w1 [] false name attrs w3 false [] = w1 ++ ((name ++ renderAttrs attrs) ++ w3) := by
    simp [markupInner]
  rw [e, scanMarkup_bracket _ (name ++ renderAttrs attrs) (name ++ renderAttrs attrs) name
    (trim (renderAttrs attrs)) false false (trim_wrap hw1 hw3 h1) hne h2 h3 h4 h5 rfl (by simpa using h1) hne h6
    (by rw [h7]) hn]
  exact markupTail_attrs name attrs false ha

/-- closed markup `< name attr* / >` -/
theorem scanMarkup_inner_closed {w1 name w3 w4 : Str} {attrs : List AttrL} (hw1 : AllWs w1) (hw3 : AllWs w3)
    (hw4 : AllWs w4) (hn : validName name = true) (ha : ∀ a ∈ attrs, a.OK)
    (hsep : ∀ a, attrs.head? = some a → a.sep ≠ []) :
    scanMarkup ('<' :: (markupInner w1 [] false name attrs w3 true w4 ++ ['>'])) =
      .ok (some { name := name, attrs := attrMap attrs, closed := true, termin := false }) := by
  obtain ⟨h1, h2, h3, h4, h5, h6, h7⟩ := body_facts hn ha hsep
  have hne : name ++ renderAttrs attrs ≠ [] := by simp [validName_ne_nil hn]
  obtain ⟨b, u, hbu⟩ : ∃ b u, name ++ renderAttrs attrs = b :: u := by
    cases hB : name ++ renderAttrs attrs with
    | nil => exact absurd hB hne
    | cons b u => exact ⟨b, u, rfl⟩
  have hb : isWs b = false := by
    have := trim_head (s := name ++ renderAttrs attrs) (c := b) (by rw [h1, hbu]; rfl)
    exact this
  -- the trimmed text between the brackets
  let sdata : Str := (name ++ renderAttrs attrs) ++ (w3 ++ ['/'])
  have hsd : sdata = b :: ((u ++ w3) ++ ['/']) := by
    show (name ++ renderAttrs attrs) ++ (w3 ++ ['/']) = _
    rw [hbu]; simp
  have htrim_sd : trim sdata = sdata := by rw [hsd]; exact trim_self_of_ends hb (by decide)
  have e : markupInner w1 [] false name attrs w3 true w4 = w1 ++ (sdata ++ w4) := by
    simp [markupInner, sdata]
  have hnotin : ∀ d : Char, d ∉ name ++ renderAttrs attrs → 32 < d.toNat → d ≠ '/' → d ∉ sdata := by
    intro d hd1 hd2 hd3 hm
    simp only [sdata, List.mem_append, List.mem_cons, List.not_mem_nil, or_false] at hm
    rcases hm with hm | hm | hm
    · exact hd1 (List.mem_append.2 hm)
    · exact hw3.not_mem hd2 hm
    · exact hd3 hm
  have hhead : (sdata.head? == some '/') = false := by
    have : sdata.head? = (name ++ renderAttrs attrs).head? := by rw [hsd, hbu]; rfl
    rw [this]; exact h4
  have hlast : (sdata.getLast? == some '/') = true := by
    rw [hsd]; simp [List.getLast?_eq_head?_reverse]
  have hbody : trim (if true = true then (if false = true then sdata.drop 1 else sdata).dropLast
      else (if false = true then sdata.drop 1 else sdata)) = name ++ renderAttrs attrs := by
    have : sdata.dropLast = (name ++ renderAttrs attrs) ++ w3 := by
      have : sdata = ((name ++ renderAttrs attrs) ++ w3) ++ ['/'] := by simp [sdata]
      rw [this, List.dropLast_concat]
    simp only [if_true, Bool.false_eq_true, if_false]
    rw [this, trim_append_ws hw3, h1]
  rw [e, scanMarkup_bracket _ sdata (name ++ renderAttrs attrs) name (trim (renderAttrs attrs)) false true
    (trim_wrap hw1 hw4 htrim_sd) (by rw [hsd]; simp) (hnotin _ h2 (by decide) (by decide))
    (hnotin _ h3 (by decide) (by decide)) hhead hlast rfl hbody hne h6 (by rw [h7]) hn]
  exact markupTail_attrs name attrs true ha

/-- terminator `< / name >` -/
theorem scanMarkup_inner_termin {w1 w2 name w3 : Str} (hw1 : AllWs w1) (hw2 : AllWs w2) (hw3 : AllWs w3)
    (hn : validName name = true) :
    scanMarkup ('<' :: (markupInner w1 w2 true name [] w3 false [] ++ ['>'])) =
      .ok (some { name := name, attrs := [], closed := false, termin := true }) := by
  have hne := validName_ne_nil hn
  obtain ⟨t, c, hname⟩ : ∃ t c, name = t ++ [c] := by
    rcases List.eq_nil_or_concat name with h | ⟨t, c, h⟩
    · exact absurd h hne
    · exact ⟨t, c, by simpa using h⟩
  have hc : c ∈ name := by rw [hname]; simp
  let sdata : Str := '/' :: (w2 ++ name)
  have hsd : sdata = '/' :: ((w2 ++ t) ++ [c]) := by simp [sdata, hname]
  have htrim_sd : trim sdata = sdata := by
    rw [hsd]; exact trim_self_of_ends (by decide) (validName_not_ws hn c hc)
  have e : markupInner w1 w2 true name [] w3 false [] = w1 ++ (sdata ++ w3) := by
    simp [markupInner, sdata, renderAttrs]
  have hnotin : ∀ d : Char, 32 < d.toNat → d ≠ '/' → d ∉ name → d ∉ sdata := by
    intro d hd1 hd2 hd3 hm
    simp only [sdata, List.mem_append, List.mem_cons] at hm
    rcases hm with hm | hm | hm
    · exact hd2 hm
    · exact hw2.not_mem hd1 hm
    · exact hd3 hm
  have hlast : (sdata.getLast? == some '/') = false := by
    rw [hsd]
    have : c ≠ '/' := isAlnum_ne (validName_all hn c hc) (by decide)
    simp [List.getLast?_eq_head?_reverse, this]
  have hbody : trim (if false = true then (if true = true then sdata.drop 1 else sdata).dropLast
      else (if true = true then sdata.drop 1 else sdata)) = name := by
    simp only [if_true, Bool.false_eq_true, if_false]
    show trim (w2 ++ name) = name
    rw [trim_ws_append hw2, trim_validName hn]
  rw [e, scanMarkup_bracket _ sdata name name [] true false
    (trim_wrap hw1 hw3 htrim_sd) (by simp [sdata]) (hnotin _ (by decide) (by decide) (validName_not_mem hn (by decide)))
    (hnotin _ (by decide) (by decide) (validName_not_mem hn (by decide))) (by simp [sdata]) hlast rfl hbody hne
    (takeWhile_notWs_validName hn) (by rw [dropWhile_notWs_validName hn]; rfl) hn]
  simp [markupTail]

/-- the outer white space of a markup line is removed by `trim` -/
theorem trim_renderMarkup {w0 w5 : Str} (hw0 : AllWs w0) (hw5 : AllWs w5) (w1 w2 : Str) (termin : Bool)
    (name : Str) (attrs : List AttrL) (w3 : Str) (closed : Bool) (w4 : Str) :
    trim (renderMarkup w0 w1 w2 termin name attrs w3 closed w4 w5) =
      '<' :: (markupInner w1 w2 termin name attrs w3 closed w4 ++ ['>']) :=
  trim_wrap hw0 hw5 (trim_self_of_ends (by decide) (by decide))

/-- **Completeness of `scan_markup`**: every line of the markup grammar, with arbitrary white-space layout, is
    scanned to the intended markup.  (`w2`/`w4` only occur behind the respective `/`.) -/
theorem scanMarkup_complete {w0 w1 w2 w3 w4 w5 name : Str} {termin closed : Bool} {attrs : List AttrL}
    (hw0 : AllWs w0) (hw1 : AllWs w1) (hw2 : AllWs w2) (hw3 : AllWs w3) (hw4 : AllWs w4) (hw5 : AllWs w5)
    (hn : validName name = true) (ha : ∀ a ∈ attrs, a.OK) (hsep : ∀ a, attrs.head? = some a → a.sep ≠ [])
    (ht : termin = true → attrs = [] ∧ closed = false) :
    scanMarkup (trim (renderMarkup w0 w1 w2 termin name attrs w3 closed w4 w5)) =
      .ok (some { name := name, attrs := attrMap attrs, closed := closed, termin := termin }) := by
  rw [trim_renderMarkup hw0 hw5]
  cases termin with
  | true =>
    obtain ⟨rfl, rfl⟩ := ht rfl
    have e : markupInner w1 w2 true name [] w3 false w4 = markupInner w1 w2 true name [] w3 false [] := by
      simp [markupInner]
    rw [e]; exact scanMarkup_inner_termin hw1 hw2 hw3 hn
  | false =>
    have e : markupInner w1 w2 false name attrs w3 closed w4 = markupInner w1 [] false name attrs w3 closed w4 := by
      simp [markupInner]
    rw [e]
    cases closed with
    | true => exact scanMarkup_inner_closed hw1 hw3 hw4 hn ha hsep
    | false =>
      have e : markupInner w1 [] false name attrs w3 false w4 = markupInner w1 [] false name attrs w3 false [] := by
        simp [markupInner]
      rw [e]; exact scanMarkup_inner_open hw1 hw3 hn ha hsep

/-! ### subtle cases of the markup grammar (documented behaviour of the scanner) -/

deriving instance DecidableEq for Except

/-- `std::map::emplace`: a key that is already present keeps its (first) value -/
theorem mapInsert_of_mem {k v v0 : Str} : ∀ {l : List (Str × Str)}, SortedKeys l → (k, v0) ∈ l →
    mapInsert strLt k v l = l
  | [], _, hm => by cases hm
  | (k', v') :: rest, hs, hm => by
    have hp := List.pairwise_cons.1 hs
    unfold mapInsert
    rcases List.mem_cons.1 hm with h | h
    · injection h with h1 h2; subst h1
      simp [strLt_irrefl]
    · have hlt : strLt k' k = true := hp.1 _ h
      rw [if_neg (by rw [strLt_asymm hlt]; simp), if_pos hlt, mapInsert_of_mem hp.2 h]

/-- both a terminator and closed (`</name/>`, `< / name / >`): syntax error -/
theorem scanMarkup_termin_closed {inner : Str} (h1 : (trim inner).head? = some '/')
    (h2 : (trim inner).getLast? = some '/') : scanMarkup ('<' :: (inner ++ ['>'])) = .error () := by
  unfold scanMarkup
  simp only [startsWith_lt, endsWith_gt, inner_bracket, h1, h2]
  simp only [Bool.not_true, Bool.and_self, Bool.false_eq_true, if_false, beq_self_eq_true, if_true]
  repeat' split
  all_goals rfl

-- a value ending in `/` directly in front of `">` is an ordinary value (the markup is not closed)
example : scanMarkup "<a b=\"x/\">".toList =
    .ok (some ⟨"a".toList, [("b".toList, "x/".toList)], false, false⟩) := by decide
-- ... and `/` after the closing quote closes the markup
example : scanMarkup "<a b=\"x/\"/>".toList =
    .ok (some ⟨"a".toList, [("b".toList, "x/".toList)], true, false⟩) := by decide
-- inner blanks, `=`, `/` and `'` are allowed in a value; outer white space of a value is trimmed
example : scanMarkup "<a b = \"  x = 'y' / z \t\" >".toList =
    .ok (some ⟨"a".toList, [("b".toList, "x = 'y' / z".toList)], false, false⟩) := by decide
-- `</name/>` and `</ name attr="x">` are syntax errors
example : scanMarkup "</a/>".toList = .error () := by decide
example : scanMarkup "</ a b=\"x\">".toList = .error () := by decide
-- `</ name >` is a terminator
example : scanMarkup "< / a >".toList = .ok (some ⟨"a".toList, [], false, true⟩) := by decide
-- a key that is not followed by `=`, a value that is not quoted, a missing closing quote: errors
example : scanMarkup "<a b>".toList = .error () := by decide
example : scanMarkup "<a b \"x\">".toList = .error () := by decide
example : scanMarkup "<a b=x>".toList = .error () := by decide
example : scanMarkup "<a b=\"x>".toList = .error () := by decide
-- invalid names / keys
example : scanMarkup "<1a>".toList = .error () := by decide
example : scanMarkup "<a b-c=\"x\">".toList = .error () := by decide
example : scanMarkup "<a =\"x\">".toList = .error () := by decide
example : scanMarkup "<>".toList = .error () := by decide
example : scanMarkup "< / >".toList = .error () := by decide
-- a bracket inside a value is an error
example : scanMarkup "<a b=\"x>y\">".toList = .error () := by decide
-- duplicate keys keep the FIRST value; the map is sorted by key
example : scanMarkup "<a k=\"1\" k=\"2\">".toList =
    .ok (some ⟨"a".toList, [("k".toList, "1".toList)], false, false⟩) := by decide
example : scanMarkup "<a z=\"1\" b=\"2\" B=\"3\">".toList =
    .ok (some ⟨"a".toList, [("B".toList, "3".toList), ("b".toList, "2".toList), ("z".toList, "1".toList)],
      false, false⟩) := by decide
-- a tab (or any other FEAT white space) between attributes works
example : scanMarkup "<a b=\"1\"\tc=\"2\">".toList =
    .ok (some ⟨"a".toList, [("b".toList, "1".toList), ("c".toList, "2".toList)], false, false⟩) := by decide
-- LENIENCY: no white space between two attributes is accepted by the scanner
example : scanMarkup "<a b=\"1\"c=\"2\">".toList =
    .ok (some ⟨"a".toList, [("b".toList, "1".toList), ("c".toList, "2".toList)], false, false⟩) := by decide
-- ... but the first key has to be separated from the name
example : scanMarkup "<ab=\"1\">".toList = .error () := by decide
-- LENIENCY: `/` directly behind the name closes the markup, and so does `/` separated by white space
example : scanMarkup "<a/>".toList = .ok (some ⟨"a".toList, [], true, false⟩) := by decide
example : scanMarkup "<a / >".toList = .ok (some ⟨"a".toList, [], true, false⟩) := by decide
-- a line with only one of the two brackets is an error; a line with none is content
example : scanMarkup "<a".toList = .error () := by decide
example : scanMarkup "a>".toList = .error () := by decide
example : scanMarkup "1 2 3".toList = .ok none := by decide

/-! ## 4. Every successful scan is a well-nested document -/

/-- a forest of document items (siblings chained through `rest`) -/
inductive Items where
  | nil : Items
  | text (line : Nat) (s : Str) (rest : Items) : Items
  | leaf (line : Nat) (m : Markup) (rest : Items) : Items
  | node (line : Nat) (m : Markup) (children : Items) (closeLine : Nat) (rest : Items) : Items

/-- the events a recording parser sees for a forest -/
def Items.events : Items → List Event
  | .nil => []
  | .text l s r => Event.text l s :: r.events
  | .leaf l m r => Event.create l m :: Event.close l :: r.events
  | .node l m ch cl r => Event.create l m :: (ch.events ++ Event.close cl :: r.events)

/-- a content line as delivered to the parser: trimmed, non-empty, neither starting with `<` nor ending with `>` -/
def TextOK (s : Str) : Prop := s ≠ [] ∧ trim s = s ∧ s.head? ≠ some '<' ∧ s.getLast? ≠ some '>'

inductive Items.WF : Items → Prop
  | nil : Items.WF .nil
  | text {l s r} : TextOK s → Items.WF r → Items.WF (.text l s r)
  | leaf {l m r} : MarkupOK m → m.closed = true → m.termin = false → Items.WF r → Items.WF (.leaf l m r)
  | node {l m ch cl r} : MarkupOK m → m.closed = false → m.termin = false → Items.WF ch → Items.WF r →
      Items.WF (.node l m ch cl r)

/-- what is still to come when `n` markups are open: `n` groups "siblings, then a terminator" -/
inductive Tail : Nat → List Event → Prop
  | last (f : Items) (l : Nat) : f.WF → Tail 1 (f.events ++ [Event.close l])
  | more {n : Nat} {t : List Event} (f : Items) (l : Nat) : f.WF → Tail (n + 1) t →
      Tail (n + 2) (f.events ++ Event.close l :: t)

theorem Tail.text {n : Nat} {T : List Event} {l : Nat} {s : Str} (hs : TextOK s) (h : Tail n T) :
    Tail n (Event.text l s :: T) := by
  cases h with
  | last f l' hf => exact Tail.last (.text l s f) l' (.text hs hf)
  | more f l' hf ht => exact Tail.more (.text l s f) l' (.text hs hf) ht

theorem Tail.leaf {n : Nat} {T : List Event} {l : Nat} {m : Markup} (hm : MarkupOK m) (hc : m.closed = true)
    (ht : m.termin = false) (h : Tail n T) : Tail n (Event.create l m :: Event.close l :: T) := by
  cases h with
  | last f l' hf => exact Tail.last (.leaf l m f) l' (.leaf hm hc ht hf)
  | more f l' hf h' => exact Tail.more (.leaf l m f) l' (.leaf hm hc ht hf) h'

theorem Tail.open {n : Nat} {T : List Event} {l : Nat} {m : Markup} (hm : MarkupOK m) (hc : m.closed = false)
    (ht : m.termin = false) (hn : 0 < n) (h : Tail (n + 1) T) : Tail n (Event.create l m :: T) := by
  cases n with
  | zero => cases hn
  | succ k =>
    cases h with
    | more f cl hf h' =>
      cases h' with
      | last f' l' hf' =>
        have e : Event.create l m :: (f.events ++ Event.close cl :: (f'.events ++ [Event.close l'])) =
            (Items.node l m f cl f').events ++ [Event.close l'] := by simp [Items.events]
        rw [e]; exact Tail.last _ l' (.node hm hc ht hf hf')
      | more f' l' hf' h'' =>
        rename_i t'
        have e : Event.create l m :: (f.events ++ Event.close cl :: (f'.events ++ Event.close l' :: t')) =
            (Items.node l m f cl f').events ++ Event.close l' :: t' := by simp [Items.events]
        rw [e]; exact Tail.more _ l' (.node hm hc ht hf hf') h''

theorem Tail.close {n : Nat} {T : List Event} (l : Nat) (hn : 0 < n) (h : Tail n T) :
    Tail (n + 1) (Event.close l :: T) := by
  cases n with
  | zero => cases hn
  | succ k => exact Tail.more .nil l .nil h

theorem textOK_of_scan {raw : Str} (hne : ¬ (trim raw).isEmpty = true) (h : scanMarkup (trim raw) = .ok none) :
    TextOK (trim raw) :=
  ⟨by simpa using hne, trim_trim raw, (scanMarkup_none h).1, (scanMarkup_none h).2⟩

/-- the invariant of `Scanner::scan` with the recording parser -/
theorem scanLoop_rec_tail : ∀ (lines : List Str) (iline : Nat) (names : List Str) (acc evs : List Event),
    names ≠ [] → scanLoop recClient lines iline names acc = .ok evs →
    ∃ T, evs.reverse = acc.reverse ++ T ∧ Tail names.length T := by
  intro lines
  induction lines with
  | nil =>
    intro iline names acc evs _ h
    unfold scanLoop at h
    cases names <;> cases h
  | cons raw rest ih =>
    intro iline names acc evs hnames h
    unfold scanLoop at h
    extract_lets il sline at h
    split at h
    · exact ih _ _ _ _ hnames h
    rename_i hne
    split at h
    · split at h
      · exact ih _ _ _ _ hnames h
      · cases h
    split at h
    · cases h
    · rename_i hsm
      split at h
      · cases h
      · rename_i st' hc
        have hst : st' = Event.text il sline :: acc := by
          simp only [recClient] at hc; injection hc with hc; exact hc.symm
        subst hst
        obtain ⟨T, hT, hTail⟩ := ih _ _ _ _ hnames h
        exact ⟨Event.text il sline :: T, by rw [hT]; simp, hTail.text (textOK_of_scan hne hsm)⟩
    · rename_i m hsm
      have hm := (scanMarkup_sound hsm).1
      split at h
      · rename_i hterm
        split at h
        · cases h
        · rename_i top below
          split at h
          · cases h
          · split at h
            · cases h
            · rename_i st' hc
              have hst : st' = Event.close il :: acc := by
                simp only [recClient] at hc; injection hc with hc; exact hc.symm
              subst hst
              split at h
              · rename_i hb
                injection h with h; subst h
                have hb' : below = [] := by simpa using hb
                subst hb'
                exact ⟨[Event.close il], by simp, Tail.last .nil il .nil⟩
              · rename_i hb
                have hb' : below ≠ [] := by simpa using hb
                obtain ⟨T, hT, hTail⟩ := ih _ _ _ _ hb' h
                refine ⟨Event.close il :: T, by rw [hT]; simp, ?_⟩
                exact Tail.close il (List.length_pos_iff.mpr hb') hTail
      · rename_i hterm
        have hterm' : m.termin = false := by simpa using hterm
        split at h
        · cases h
        · rename_i st' hc
          cases hcl : m.closed with
          | true =>
            have hst : st' = Event.close il :: Event.create il m :: acc := by
              simp only [recClient, hcl, if_true] at hc; injection hc with hc; exact hc.symm
            subst hst
            simp only [hcl, if_true] at h
            obtain ⟨T, hT, hTail⟩ := ih _ _ _ _ hnames h
            exact ⟨Event.create il m :: Event.close il :: T, by rw [hT]; simp, hTail.leaf hm hcl hterm'⟩
          | false =>
            have hst : st' = Event.create il m :: acc := by
              simp only [recClient, hcl, Bool.false_eq_true, if_false] at hc; injection hc with hc; exact hc.symm
            subst hst
            simp only [hcl, Bool.false_eq_true, if_false] at h
            obtain ⟨T, hT, hTail⟩ := ih _ _ _ _ (by simp) h
            exact ⟨Event.create il m :: T, by rw [hT]; simp,
              Tail.open hm hcl hterm' (List.length_pos_iff.mpr hnames) hTail⟩

theorem readRoot_ok : ∀ (lines : List Str) (iline : Nat) (m : Markup) (il : Nat) (rest : List Str),
    readRoot lines iline = .ok (m, il, rest) → MarkupOK m ∧ m.closed = false ∧ m.termin = false := by
  intro lines
  induction lines with
  | nil => intro iline m il rest h; unfold readRoot at h; cases h
  | cons raw rest' ih =>
    intro iline m il rest h
    unfold readRoot at h
    extract_lets il' sline at h
    split at h
    · exact ih _ _ _ _ h
    split at h
    · cases h
    · cases h
    · rename_i m' hsm
      split at h
      · cases h
      · rename_i hct
        injection h with h; injection h with h1 h2; subst h1
        have : m'.closed = false ∧ m'.termin = false := by simpa using hct
        exact ⟨(scanMarkup_sound hsm).1, this.1, this.2⟩

/-- **a successful scan is the event sequence of one well-formed root element** (inductive document grammar) -/
theorem scanDoc_ok_tree {text : Str} {evs : List Event} (h : scanDoc text = .ok evs) :
    ∃ (line : Nat) (m : Markup) (children : Items) (closeLine : Nat),
      evs = (Items.node line m children closeLine .nil).events ∧
      (Items.node line m children closeLine .nil).WF := by
  unfold scanDoc at h
  split at h
  · cases h
  · rename_i m iline rest hr
    obtain ⟨hm, hc, ht⟩ := readRoot_ok _ _ _ _ _ hr
    split at h
    · cases h
    · rename_i evs' hs
      injection h with h; subst h
      obtain ⟨T, hT, hTail⟩ := scanLoop_rec_tail _ _ _ _ _ (by simp) hs
      rw [hT]
      cases hTail with
      | last f l hf => exact ⟨iline, m, f, l, by simp [Items.events], .node hm hc ht hf .nil⟩

/-- executable depth counter: `create` of a non-closed markup opens a level; a closed markup's `create` must be
    followed immediately by its `close` on the same line; text and closed markups only inside the root; a `close` that
    brings the depth to 0 must be the last event.  `none` = violation. -/
def depthRun : List Event → Nat → Option Nat
  | [], d => some d
  | Event.text _ _ :: r, d => if d = 0 then none else depthRun r d
  | Event.close _ :: r, d =>
    if d = 0 then none else if d = 1 ∧ r ≠ [] then none else depthRun r (d - 1)
  | Event.create l m :: r, d =>
    if m.closed then
      match r with
      | Event.close l' :: r' => if l' = l ∧ d ≠ 0 then depthRun r' d else none
      | _ => none
    else if d = 0 ∧ m.termin = true then none else depthRun r (d + 1)

/-- the event list is a well-nested document: the depth counter runs from 0 back to 0 (and there is an event) -/
def Balanced (evs : List Event) : Prop := evs ≠ [] ∧ depthRun evs 0 = some 0

theorem depthRun_create_open {l : Nat} {m : Markup} (hc : m.closed = false) (r : List Event) (d : Nat) :
    depthRun (Event.create l m :: r) d = if d = 0 ∧ m.termin = true then none else depthRun r (d + 1) := by
  cases r with
  | nil => simp [depthRun, hc]
  | cons e r' => cases e <;> simp [depthRun, hc]

theorem depthRun_create_closed {l : Nat} {m : Markup} (hc : m.closed = true) (r : List Event) (d : Nat) :
    depthRun (Event.create l m :: Event.close l :: r) (d + 1) = depthRun r (d + 1) := by
  simp [depthRun, hc]

theorem depthRun_items : ∀ (f : Items), f.WF → ∀ (R : List Event) (d : Nat),
    depthRun (f.events ++ R) (d + 1) = depthRun R (d + 1)
  | .nil, _, R, d => rfl
  | .text l s r, h, R, d => by
    cases h with
    | text _ hr =>
      show depthRun (Event.text l s :: (r.events ++ R)) (d + 1) = _
      rw [depthRun, if_neg (by omega)]
      exact depthRun_items r hr R d
  | .leaf l m r, h, R, d => by
    cases h with
    | leaf _ hc _ hr =>
      show depthRun (Event.create l m :: Event.close l :: (r.events ++ R)) (d + 1) = _
      rw [depthRun_create_closed hc]
      exact depthRun_items r hr R d
  | .node l m ch cl r, h, R, d => by
    cases h with
    | node _ hc _ hch hr =>
      show depthRun (Event.create l m :: ((ch.events ++ Event.close cl :: r.events) ++ R)) (d + 1) = _
      rw [depthRun_create_open hc, if_neg (by omega), List.append_assoc,
        depthRun_items ch hch _ (d + 1)]
      show depthRun (Event.close cl :: (r.events ++ R)) (d + 2) = _
      rw [depthRun, if_neg (by omega), if_neg (by omega)]
      exact depthRun_items r hr R d

/-- **a successful scan is balanced**: the depth counter returns to 0 exactly at the last event -/
theorem scanDoc_ok_balanced {text : Str} {evs : List Event} (h : scanDoc text = .ok evs) : Balanced evs := by
  obtain ⟨line, m, ch, cl, rfl, hwf⟩ := scanDoc_ok_tree h
  cases hwf with
  | node hm hc ht hch _ =>
    refine ⟨by simp [Items.events], ?_⟩
    show depthRun (Event.create line m :: (ch.events ++ [Event.close cl])) 0 = some 0
    rw [depthRun_create_open hc, if_neg (by simp [ht]), depthRun_items ch hch]
    simp [depthRun]

/-- the first event of a successful scan creates the root: an open, non-closed markup with a valid name; and the
    last event is its `close` -/
theorem scanDoc_ok_ends {text : Str} {evs : List Event} (h : scanDoc text = .ok evs) :
    ∃ line m mid cl, evs = Event.create line m :: (mid ++ [Event.close cl]) ∧
      MarkupOK m ∧ m.closed = false ∧ m.termin = false := by
  obtain ⟨line, m, ch, cl, rfl, hwf⟩ := scanDoc_ok_tree h
  cases hwf with
  | node hm hc ht _ _ => exact ⟨line, m, ch.events, cl, by simp [Items.events], hm, hc, ht⟩

theorem mem_events_create : ∀ {f : Items}, f.WF → ∀ {l : Nat} {m : Markup},
    Event.create l m ∈ f.events → MarkupOK m ∧ m.termin = false
  | .nil, _, l, m, hm => by cases hm
  | .text _ _ r, h, l, m, hm => by
    cases h with
    | text _ hr =>
      simp only [Items.events, List.mem_cons, reduceCtorEq, false_or] at hm
      exact mem_events_create hr hm
  | .leaf _ m' r, h, l, m, hm => by
    cases h with
    | leaf hm' _ ht hr =>
      simp only [Items.events, List.mem_cons, Event.create.injEq, reduceCtorEq, false_or] at hm
      rcases hm with ⟨_, rfl⟩ | hm
      · exact ⟨hm', ht⟩
      · exact mem_events_create hr hm
  | .node _ m' ch _ r, h, l, m, hm => by
    cases h with
    | node hm' _ ht hch hr =>
      simp only [Items.events, List.mem_cons, List.mem_append, Event.create.injEq, reduceCtorEq, false_or] at hm
      rcases hm with ⟨_, rfl⟩ | hm | hm
      · exact ⟨hm', ht⟩
      · exact mem_events_create hch hm
      · exact mem_events_create hr hm

/-- every `create` event of a successful scan carries a well-formed, non-terminator markup -/
theorem scanDoc_ok_create {text : Str} {evs : List Event} (h : scanDoc text = .ok evs) {l : Nat} {m : Markup}
    (hm : Event.create l m ∈ evs) : MarkupOK m ∧ m.termin = false := by
  obtain ⟨line, m', ch, cl, rfl, hwf⟩ := scanDoc_ok_tree h
  exact mem_events_create hwf hm

/-! ## 5. Document-level completeness -/

/-- the layout of one markup line -/
structure MarkupL where
  w0 : Str
  w1 : Str
  w2 : Str
  termin : Bool
  name : Str
  attrs : List AttrL
  w3 : Str
  closed : Bool
  w4 : Str
  w5 : Str

def MarkupL.render (x : MarkupL) : Str :=
  renderMarkup x.w0 x.w1 x.w2 x.termin x.name x.attrs x.w3 x.closed x.w4 x.w5

/-- the markup a line stands for -/
def MarkupL.markup (x : MarkupL) : Markup :=
  { name := x.name, attrs := attrMap x.attrs, closed := x.closed, termin := x.termin }

structure MarkupL.OK (x : MarkupL) : Prop where
  w0 : AllWs x.w0
  w1 : AllWs x.w1
  w2 : AllWs x.w2
  w3 : AllWs x.w3
  w4 : AllWs x.w4
  w5 : AllWs x.w5
  name : validName x.name = true
  attrs : ∀ a ∈ x.attrs, a.OK
  sep : ∀ a, x.attrs.head? = some a → a.sep ≠ []
  termin : x.termin = true → x.attrs = [] ∧ x.closed = false

theorem MarkupL.scan {x : MarkupL} (h : x.OK) : scanMarkup (trim x.render) = .ok (some x.markup) :=
  scanMarkup_complete h.w0 h.w1 h.w2 h.w3 h.w4 h.w5 h.name h.attrs h.sep h.termin

theorem not_comment_of_second {c : Char} {tl : Str} (h : c ≠ '!') :
    startsWith ('<' :: c :: tl) "<!--".toList = false := by
  have : ('!' == c) = false := by simpa using fun e => h e.symm
  simp [startsWith, List.isPrefixOf, this]

theorem not_comment_of_head {s : Str} (h : s.head? ≠ some '<') : startsWith s "<!--".toList = false := by
  cases s with
  | nil => simp [startsWith]
  | cons a t =>
    have : ('<' == a) = false := by
      simp only [List.head?_cons, ne_eq, Option.some.injEq] at h
      simpa using fun e => h e.symm
    simp [startsWith, List.isPrefixOf, this]

theorem MarkupL.not_comment {x : MarkupL} (h : x.OK) : startsWith (trim x.render) "<!--".toList = false := by
  unfold MarkupL.render
  rw [trim_renderMarkup h.w0 h.w5]
  let A : Str := x.w1 ++ ((if x.termin then '/' :: x.w2 else []) ++ x.name)
  have hA : ∃ R, markupInner x.w1 x.w2 x.termin x.name x.attrs x.w3 x.closed x.w4 ++ ['>'] = A ++ R :=
    ⟨renderAttrs x.attrs ++ (x.w3 ++ ((if x.closed then '/' :: x.w4 else []) ++ ['>'])), by
      simp only [markupInner, A, List.append_assoc]⟩
  obtain ⟨R, hR⟩ := hA
  have hne : A ≠ [] := by simp [A, validName_ne_nil h.name]
  have hnot : '!' ∉ A := by
    intro hm
    simp only [A, List.mem_append] at hm
    rcases hm with hm | hm | hm
    · exact h.w1.not_mem (by decide) hm
    · cases ht : x.termin with
      | false => simp [ht] at hm
      | true =>
        simp only [ht, if_true, List.mem_cons] at hm
        rcases hm with hm | hm
        · cases hm
        · exact h.w2.not_mem (by decide) hm
    · exact validName_not_mem h.name (by decide) hm
  rw [hR]
  cases hA' : A with
  | nil => exact absurd hA' hne
  | cons c tl =>
    have : c ≠ '!' := by rintro rfl; exact hnot (by rw [hA']; simp)
    exact not_comment_of_second this

theorem MarkupL.trim_ne_nil {x : MarkupL} (h : x.OK) : (trim x.render).isEmpty = false := by
  unfold MarkupL.render
  rw [trim_renderMarkup h.w0 h.w5]; rfl

/-! ### single steps of `Scanner::scan` -/

theorem loop_skip_blank {σ : Type} (cl : Client σ) {raw : Str} {rest : List Str} {i : Nat} {names : List Str}
    {st : σ} (h : trim raw = []) :
    scanLoop cl (raw :: rest) i names st = scanLoop cl rest (i + 1) names st := by
  rw [scanLoop]; simp [h]

theorem loop_skip_comment {σ : Type} (cl : Client σ) {raw : Str} {rest : List Str} {i : Nat} {names : List Str}
    {st : σ} (h0 : (trim raw).isEmpty = false) (h1 : startsWith (trim raw) "<!--".toList = true)
    (h2 : endsWith (trim raw) "-->".toList = true) :
    scanLoop cl (raw :: rest) i names st = scanLoop cl rest (i + 1) names st := by
  rw [scanLoop]; simp only [h0, h1, h2, Bool.false_eq_true, if_false, if_true]

theorem loop_text {σ : Type} (cl : Client σ) {raw : Str} {rest : List Str} {i : Nat} {names : List Str}
    {st st' : σ} (h0 : (trim raw).isEmpty = false) (h1 : startsWith (trim raw) "<!--".toList = false)
    (h2 : scanMarkup (trim raw) = .ok none) (h3 : cl.content st (i + 1) (trim raw) = .ok st') :
    scanLoop cl (raw :: rest) i names st = scanLoop cl rest (i + 1) names st' := by
  rw [scanLoop]; simp only [h0, h1, h2, h3, Bool.false_eq_true, if_false]

theorem loop_open {σ : Type} (cl : Client σ) {raw : Str} {rest : List Str} {i : Nat} {names : List Str}
    {st st' : σ} {m : Markup} (h0 : (trim raw).isEmpty = false)
    (h1 : startsWith (trim raw) "<!--".toList = false)
    (h2 : scanMarkup (trim raw) = .ok (some m)) (ht : m.termin = false)
    (h3 : cl.openM st (i + 1) m = .ok st') :
    scanLoop cl (raw :: rest) i names st =
      scanLoop cl rest (i + 1) (if m.closed then names else m.name :: names) st' := by
  rw [scanLoop]; simp only [h0, h1, h2, h3, ht, Bool.false_eq_true, if_false]

theorem loop_close {σ : Type} (cl : Client σ) {raw : Str} {rest : List Str} {i : Nat} {below : List Str}
    {st st' : σ} {m : Markup} (h0 : (trim raw).isEmpty = false)
    (h1 : startsWith (trim raw) "<!--".toList = false)
    (h2 : scanMarkup (trim raw) = .ok (some m)) (ht : m.termin = true)
    (h3 : cl.closeM st (i + 1) = .ok st') :
    scanLoop cl (raw :: rest) i (m.name :: below) st =
      if below.isEmpty then .ok st' else scanLoop cl rest (i + 1) below st' := by
  rw [scanLoop]; simp only [h0, h1, h2, h3, ht, Bool.false_eq_true, if_false, if_true, bne_self_eq_false]

/-- the intended meaning of one physical line -/
inductive LineSpec where
  | blank (w : Str)
  | comment (w0 body w5 : Str)
  | text (w0 t w5 : Str)
  | markup (x : MarkupL)

def LineSpec.render : LineSpec → Str
  | .blank w => w
  | .comment w0 body w5 => w0 ++ ('<' :: (('!' :: '-' :: '-' :: (body ++ ['-', '-'])) ++ ['>']) ++ w5)
  | .text w0 t w5 => w0 ++ (t ++ w5)
  | .markup x => x.render

def LineSpec.OK : LineSpec → Prop
  | .blank w => AllWs w
  | .comment w0 _ w5 => AllWs w0 ∧ AllWs w5
  | .text w0 t w5 => AllWs w0 ∧ AllWs w5 ∧ TextOK t
  | .markup x => x.OK

/-- the events of the line with number `i` -/
def LineSpec.events (i : Nat) : LineSpec → List Event
  | .blank _ => []
  | .comment _ _ _ => []
  | .text _ t _ => [Event.text i t]
  | .markup x =>
    if x.termin then [Event.close i]
    else if x.closed then [Event.create i x.markup, Event.close i]
    else [Event.create i x.markup]

/-- the events of the lines `i+1, i+2, …` in file order -/
def specEvents : Nat → List LineSpec → List Event
  | _, [] => []
  | i, s :: r => s.events (i + 1) ++ specEvents (i + 1) r

/-- the stack discipline: with `names` open, the lines close all of them, the last one exactly at the last line -/
def closes : List Str → List LineSpec → Bool
  | _, [] => false
  | names, .markup x :: r =>
    if x.termin then
      match names with
      | [] => false
      | top :: below => x.name == top && (if below.isEmpty then r.isEmpty else closes below r)
    else closes (if x.closed then names else x.name :: names) r
  | names, .blank _ :: r => closes names r
  | names, .comment _ _ _ :: r => closes names r
  | names, .text _ _ _ :: r => closes names r

theorem comment_trim {w0 body w5 : Str} (h0 : AllWs w0) (h5 : AllWs w5) :
    trim (LineSpec.comment w0 body w5).render = '<' :: (('!' :: '-' :: '-' :: (body ++ ['-', '-'])) ++ ['>']) :=
  trim_wrap h0 h5 (trim_self_of_ends (by decide) (by decide))

/-- **document-level completeness of the scan loop**: rendered lines (markups in any layout, content lines, blank
    lines, comment lines) that respect the stack discipline produce exactly the intended events, with the right line
    numbers; lines after the final terminator are not read. -/
theorem scanLoop_complete : ∀ (specs : List LineSpec) (i : Nat) (names : List Str) (acc : List Event)
    (trailing : List Str), (∀ s ∈ specs, s.OK) → closes names specs = true →
    scanLoop recClient (specs.map LineSpec.render ++ trailing) i names acc =
      .ok ((specEvents i specs).reverse ++ acc)
  | [], _, _, _, _, _, hc => by simp [closes] at hc
  | .blank w :: r, i, names, acc, trailing, hok, hc => by
    have hw : AllWs w := hok (.blank w) (by simp)
    rw [List.map_cons, List.cons_append]
    show scanLoop recClient (w :: _) i names acc = _
    rw [loop_skip_blank _ (trim_allWs hw)]
    exact scanLoop_complete r (i + 1) names acc trailing (fun s hs => hok s (by simp [hs])) hc
  | .comment w0 body w5 :: r, i, names, acc, trailing, hok, hc => by
    have hw : AllWs w0 ∧ AllWs w5 := hok (.comment w0 body w5) (by simp)
    have ht := comment_trim (body := body) hw.1 hw.2
    rw [List.map_cons, List.cons_append, loop_skip_comment _ (by rw [ht]; rfl)
      (by rw [ht]; simp [startsWith, List.isPrefixOf]) (by rw [ht]; simp [endsWith, List.isPrefixOf])]
    exact scanLoop_complete r (i + 1) names acc trailing (fun s hs => hok s (by simp [hs])) hc
  | .text w0 t w5 :: r, i, names, acc, trailing, hok, hc => by
    have hw : AllWs w0 ∧ AllWs w5 ∧ TextOK t := hok (.text w0 t w5) (by simp)
    obtain ⟨h0, h5, hne, htt, hh, hl⟩ := hw
    have ht : trim (LineSpec.text w0 t w5).render = t := trim_wrap h0 h5 htt
    rw [List.map_cons, List.cons_append, loop_text recClient (st' := Event.text (i + 1) t :: acc)
      (by rw [ht]; simpa using hne) (by rw [ht]; exact not_comment_of_head hh)
      (by rw [ht]; exact scanMarkup_content' hh hl) (by rw [ht]; rfl)]
    rw [scanLoop_complete r (i + 1) names _ trailing (fun s hs => hok s (by simp [hs])) hc]
    simp [specEvents, LineSpec.events]
  | .markup x :: r, i, names, acc, trailing, hok, hc => by
    have hx : x.OK := hok (.markup x) (by simp)
    have hr : ∀ s ∈ r, s.OK := fun s hs => hok s (by simp [hs])
    cases hterm : x.termin with
    | true =>
      cases names with
      | nil => simp [closes, hterm] at hc
      | cons top below =>
        simp only [closes, hterm, if_true, Bool.and_eq_true, beq_iff_eq] at hc
        obtain ⟨rfl, hc⟩ := hc
        rw [List.map_cons, List.cons_append]
        have := loop_close recClient (raw := x.render) (rest := r.map LineSpec.render ++ trailing) (i := i)
          (below := below) (st := acc) (st' := Event.close (i + 1) :: acc) (m := x.markup)
          (MarkupL.trim_ne_nil hx) (MarkupL.not_comment hx) (MarkupL.scan hx) hterm rfl
        show scanLoop recClient (x.render :: _) i (x.markup.name :: below) acc = _
        rw [this]
        cases hb : below.isEmpty with
        | true =>
          simp only [hb, if_true] at hc ⊢
          have : r = [] := by simpa using hc
          subst this
          simp [specEvents, LineSpec.events, hterm]
        | false =>
          simp only [hb, Bool.false_eq_true, if_false] at hc ⊢
          rw [scanLoop_complete r (i + 1) below _ trailing hr hc]
          simp [specEvents, LineSpec.events, hterm]
    | false =>
      simp only [closes, hterm, Bool.false_eq_true, if_false] at hc
      rw [List.map_cons, List.cons_append]
      have := loop_open recClient (raw := x.render) (rest := r.map LineSpec.render ++ trailing) (i := i)
        (names := names) (st := acc) (m := x.markup)
        (st' := if x.closed then Event.close (i + 1) :: Event.create (i + 1) x.markup :: acc
                else Event.create (i + 1) x.markup :: acc)
        (MarkupL.trim_ne_nil hx) (MarkupL.not_comment hx) (MarkupL.scan hx) hterm rfl
      show scanLoop recClient (x.render :: _) i names acc = _
      rw [this]
      show scanLoop recClient _ (i + 1) (if x.closed then names else x.name :: names) _ = _
      rw [scanLoop_complete r (i + 1) _ _ trailing hr hc]
      cases hcl : x.closed <;> simp [specEvents, LineSpec.events, hterm, hcl]

/-! ### whole documents -/

/-- lines joined by `\n` (no trailing newline; a trailing newline is an additional empty last line) -/
def joinLines : List Str → Str
  | [] => []
  | [l] => l
  | l :: l' :: r => l ++ '\n' :: joinLines (l' :: r)

theorem splitChar_no {d : Char} : ∀ {l : Str}, d ∉ l → splitChar d l = [l]
  | [], _ => rfl
  | c :: cs, h => by
    simp only [List.mem_cons, not_or] at h
    have hc : (c == d) = false := by simpa using fun e => h.1 e.symm
    simp [splitChar, hc, splitChar_no h.2]

theorem splitChar_append {d : Char} : ∀ {l : Str} (r : Str), d ∉ l → splitChar d (l ++ d :: r) = l :: splitChar d r
  | [], r, _ => by simp [splitChar]
  | c :: cs, r, h => by
    simp only [List.mem_cons, not_or] at h
    have hc : (c == d) = false := by simpa using fun e => h.1 e.symm
    simp [splitChar, hc, splitChar_append r h.2]

theorem splitLines_joinLines : ∀ {ls : List Str}, ls ≠ [] → (∀ l ∈ ls, '\n' ∉ l) →
    splitLines (joinLines ls) = ls
  | [], h, _ => absurd rfl h
  | [l], _, h => splitChar_no (h l (by simp))
  | l :: l' :: r, _, h => by
    show splitChar '\n' (l ++ '\n' :: joinLines (l' :: r)) = _
    rw [splitChar_append _ (h l (by simp))]
    have := splitLines_joinLines (ls := l' :: r) (by simp) (fun x hx => h x (by simp [hx]))
    unfold splitLines at this
    rw [this]

/-- `read_root` skips blank lines and accepts an open, non-closed markup in any layout -/
theorem readRoot_complete {root : MarkupL} (hroot : root.OK) (hrt : root.termin = false)
    (hrc : root.closed = false) (rest : List Str) :
    ∀ (pre : List Str) (i : Nat), (∀ w ∈ pre, AllWs w) →
      readRoot (pre ++ root.render :: rest) i = .ok (root.markup, i + pre.length + 1, rest)
  | [], i, _ => by
    have h1 := MarkupL.trim_ne_nil hroot
    have h2 := MarkupL.scan hroot
    have h3 : (root.markup.closed || root.markup.termin) = false := by simp [MarkupL.markup, hrt, hrc]
    rw [List.nil_append, readRoot]
    simp only [h1, h2, h3, Bool.false_eq_true, if_false, List.length_nil, Nat.add_zero]
  | w :: pre, i, h => by
    have hw : (trim w).isEmpty = true := by rw [trim_allWs (h w (by simp))]; rfl
    rw [List.cons_append, readRoot]
    simp only [hw, if_true]
    rw [readRoot_complete hroot hrt hrc rest pre (i + 1) (fun x hx => h x (by simp [hx]))]
    simp only [List.length_cons]
    congr 3; omega

/-- **document-level completeness**: optional blank lines, a root markup line, lines respecting the stack
    discipline (markups in any layout, content, blank and comment lines), and arbitrary trailing lines are scanned
    to exactly the intended events. -/
theorem scanDoc_complete (pre : List Str) (root : MarkupL) (specs : List LineSpec) (trailing : List Str)
    (hpre : ∀ w ∈ pre, AllWs w) (hroot : root.OK) (hrt : root.termin = false) (hrc : root.closed = false)
    (hok : ∀ s ∈ specs, s.OK) (hc : closes [root.name] specs = true)
    (hnl : ∀ l ∈ pre ++ root.render :: (specs.map LineSpec.render ++ trailing), '\n' ∉ l) :
    scanDoc (joinLines (pre ++ root.render :: (specs.map LineSpec.render ++ trailing))) =
      .ok (Event.create (pre.length + 1) root.markup :: specEvents (pre.length + 1) specs) := by
  unfold scanDoc
  rw [splitLines_joinLines (by simp) hnl, readRoot_complete hroot hrt hrc _ pre 0 hpre]
  simp only [Nat.zero_add]
  have := scanLoop_complete specs (pre.length + 1) [root.name] [Event.create (pre.length + 1) root.markup]
    trailing hok hc
  have e : root.markup.name = root.name := rfl
  rw [e, this]
  simp

-- a comment (or an `<?xml … ?>` declaration) in front of the root markup is a syntax error: `read_root` does not
-- skip comments
example : scanDoc "<!-- c -->\n<a>\n</a>".toList = .error ⟨.syntax, 1⟩ := by decide
example : scanDoc "<?xml version=\"1.0\"?>\n<a>\n</a>".toList = .error ⟨.syntax, 1⟩ := by decide
-- `<!-->` counts as a complete comment; a comment that does not end with `-->` on its own line is an error
example : scanDoc "<a>\n<!-->\n</a>".toList =
    .ok [.create 1 ⟨"a".toList, [], false, false⟩, .close 3] := by decide
example : scanDoc "<a>\n<!-- x\n-->\n</a>".toList = .error ⟨.syntax, 2⟩ := by decide
-- lines behind the final terminator are not read
example : scanDoc "\n <a>\n 1 2\n<b x=\"1\"/>\n</a>\n<<garbage".toList =
    .ok [.create 2 ⟨"a".toList, [], false, false⟩, .text 3 "1 2".toList,
         .create 4 ⟨"b".toList, [("x".toList, "1".toList)], true, false⟩, .close 4, .close 5] := by decide
-- a closed root markup and a wrong terminator are syntax errors
example : scanDoc "<a/>".toList = .error ⟨.syntax, 1⟩ := by decide
example : scanDoc "<a>\n</b>".toList = .error ⟨.syntax, 2⟩ := by decide
example : scanDoc "<a>\n".toList = .error ⟨.syntax, 2⟩ := by decide

/-! ## 6. Supplements: error line numbers, "first occurrence wins" -/

/-- a scanner error points to a line that was actually read (client errors are characterised by `P`) -/
theorem scanLoop_error_line {σ : Type} (cl : Client σ) (P : Err → Prop)
    (ho : ∀ st l m e, cl.openM st l m = .error e → P e)
    (hc : ∀ st l e, cl.closeM st l = .error e → P e)
    (ht : ∀ st l s e, cl.content st l s = .error e → P e) :
    ∀ (lines : List Str) (iline : Nat) (names : List Str) (st : σ) (e : Err),
      scanLoop cl lines iline names st = .error e →
      (e.cls = .syntax ∧ iline ≤ e.line ∧ e.line ≤ iline + lines.length ∧ (lines ≠ [] → iline < e.line)) ∨ P e := by
  intro lines
  induction lines with
  | nil =>
    intro iline names st e h
    unfold scanLoop at h
    cases names <;> (injection h with h; subst h; exact .inl ⟨rfl, Nat.le_refl _, Nat.le_refl _, fun h => absurd rfl h⟩)
  | cons raw rest ih =>
    intro iline names st e h
    have hrec : ∀ names st, scanLoop cl rest (iline + 1) names st = .error e →
        (e.cls = .syntax ∧ iline ≤ e.line ∧ e.line ≤ iline + (raw :: rest).length ∧
          (raw :: rest ≠ [] → iline < e.line)) ∨ P e := by
      intro names st h
      rcases ih _ _ _ _ h with ⟨h1, h2, h3, _⟩ | h
      · refine .inl ⟨h1, by omega, by simp only [List.length_cons]; omega, fun _ => by omega⟩
      · exact .inr h
    have hhere : ∀ c, ((⟨c, iline + 1⟩ : Err).cls = c ∧ iline ≤ (⟨c, iline + 1⟩ : Err).line ∧
        (⟨c, iline + 1⟩ : Err).line ≤ iline + (raw :: rest).length ∧
        (raw :: rest ≠ [] → iline < (⟨c, iline + 1⟩ : Err).line)) := by
      intro c
      refine ⟨rfl, by simp, by simp only [List.length_cons]; omega, fun _ => by simp⟩
    unfold scanLoop at h
    extract_lets il sline at h
    split at h
    · exact hrec _ _ h
    split at h
    · split at h
      · exact hrec _ _ h
      · injection h with h; subst h; exact .inl (hhere _)
    split at h
    · injection h with h; subst h; exact .inl (hhere _)
    · split at h
      · rename_i e' he
        injection h with h; subst h; exact .inr (ht _ _ _ _ he)
      · exact hrec _ _ h
    · split at h
      · split at h
        · injection h with h; subst h; exact .inl (hhere _)
        · split at h
          · injection h with h; subst h; exact .inl (hhere _)
          · split at h
            · rename_i e' he
              injection h with h; subst h; exact .inr (hc _ _ _ he)
            · split at h
              · cases h
              · exact hrec _ _ h
      · split at h
        · rename_i e' he
          injection h with h; subst h; exact .inr (ho _ _ _ _ he)
        · exact hrec _ _ h

theorem readRoot_error_line : ∀ (lines : List Str) (iline : Nat) (e : Err),
    readRoot lines iline = .error e → iline ≤ e.line ∧ e.line ≤ iline + lines.length ∧
      (lines ≠ [] → iline < e.line) := by
  intro lines
  induction lines with
  | nil =>
    intro iline e h; unfold readRoot at h; injection h with h; subst h
    exact ⟨Nat.le_refl _, Nat.le_refl _, fun h => absurd rfl h⟩
  | cons raw rest ih =>
    intro iline e h
    have hhere : ∀ c, (iline ≤ (⟨c, iline + 1⟩ : Err).line ∧
        (⟨c, iline + 1⟩ : Err).line ≤ iline + (raw :: rest).length ∧
        (raw :: rest ≠ [] → iline < (⟨c, iline + 1⟩ : Err).line)) := by
      intro c
      refine ⟨by simp, by simp only [List.length_cons]; omega, fun _ => by simp⟩
    unfold readRoot at h
    extract_lets il sline at h
    split at h
    · obtain ⟨h1, h2, _⟩ := ih _ _ h
      exact ⟨by omega, by simp only [List.length_cons]; omega, fun _ => by omega⟩
    split at h
    · injection h with h; subst h; exact hhere _
    · injection h with h; subst h; exact hhere _
    · split at h
      · injection h with h; subst h; exact hhere _
      · cases h

theorem readRoot_ok_line : ∀ (lines : List Str) (iline : Nat) (m : Markup) (il : Nat) (rest : List Str),
    readRoot lines iline = .ok (m, il, rest) → il + rest.length = iline + lines.length ∧ iline < il := by
  intro lines
  induction lines with
  | nil => intro iline m il rest h; unfold readRoot at h; cases h
  | cons raw rest' ih =>
    intro iline m il rest h
    unfold readRoot at h
    extract_lets il' sline at h
    split at h
    · have := ih _ _ _ _ h
      simp only [List.length_cons]; omega
    split at h
    · cases h
    · cases h
    · split at h
      · cases h
      · injection h with h; injection h with h1 h2; injection h2 with h2 h3
        subst h2 h3
        simp only [List.length_cons]; omega

theorem splitChar_ne_nil (d : Char) : ∀ s : Str, splitChar d s ≠ []
  | [] => by simp [splitChar]
  | c :: cs => by
    unfold splitChar
    split
    · simp
    · split <;> simp

/-- **the line number of a `scan` error is a line of the file**: between 1 and the number of lines read by
    `getline` -/
theorem scanDoc_error_line {text : Str} {e : Err} (h : scanDoc text = .error e) :
    1 ≤ e.line ∧ e.line ≤ (splitLines text).length := by
  unfold scanDoc at h
  split at h
  · rename_i e' he
    injection h with h; subst h
    obtain ⟨_, h2, h3⟩ := readRoot_error_line _ _ _ he
    have := h3 (splitChar_ne_nil _ _)
    exact ⟨by omega, by omega⟩
  · rename_i m iline rest hr
    have hl := readRoot_ok_line _ _ _ _ _ hr
    split at h
    · rename_i e' he
      injection h with h; subst h
      have := scanLoop_error_line recClient (fun _ => False)
        (by intro st l m e h; simp [recClient] at h)
        (by intro st l e h; simp [recClient] at h)
        (by intro st l s e h; simp [recClient] at h) _ _ _ _ _ he
      rcases this with ⟨_, h1, h2, _⟩ | h
      · exact ⟨by omega, by omega⟩
      · exact h.elim
    · cases h

theorem mem_mapInsert_of_mem {k v : Str} {x : Str × Str} : ∀ {l : List (Str × Str)}, x ∈ l →
    x ∈ mapInsert strLt k v l
  | [], h => by cases h
  | (k', v') :: rest, h => by
    unfold mapInsert
    split
    · exact List.mem_cons_of_mem _ h
    · split
      · rcases List.mem_cons.1 h with h | h
        · rw [h]; exact List.mem_cons_self
        · exact List.mem_cons_of_mem _ (mem_mapInsert_of_mem h)
      · exact h

theorem key_mem_mapInsert (k v : Str) : ∀ (l : List (Str × Str)), SortedKeys l →
    ∃ v', (k, v') ∈ mapInsert strLt k v l
  | [], _ => ⟨v, by simp [mapInsert]⟩
  | (k', v') :: rest, hs => by
    have hp := List.pairwise_cons.1 hs
    unfold mapInsert
    split
    · exact ⟨v, List.mem_cons_self⟩
    · split
      · obtain ⟨v'', h⟩ := key_mem_mapInsert k v rest hp.2
        exact ⟨v'', List.mem_cons_of_mem _ h⟩
      · -- neither `k < k'` nor `k' < k`: the keys are equal (trichotomy of the byte-wise order)
        rename_i h1 h2
        have hkk : k = k' := by
          have tri : ∀ (a b : Str), strLt a b = false → strLt b a = false → a = b := by
            intro a
            induction a with
            | nil => intro b h1 h2; cases b with
              | nil => rfl
              | cons y ys => simp [strLt] at h1
            | cons x xs ih =>
              intro b h1 h2
              cases b with
              | nil => simp [strLt] at h2
              | cons y ys =>
                unfold strLt at h1 h2
                by_cases hxy : x.toNat < y.toNat
                · rw [if_pos hxy] at h1; cases h1
                · by_cases hyx : y.toNat < x.toNat
                  · rw [if_pos hyx] at h2; cases h2
                  · rw [if_neg hxy, if_neg (by omega)] at h1
                    rw [if_neg hyx, if_neg (by omega)] at h2
                    have e1 : x = y := Char.toNat_inj.mp (by omega)
                    rw [e1, ih ys h1 h2]
          exact tri k k' (by simpa using h1) (by simpa using h2)
        subst hkk
        exact ⟨v', List.mem_cons_self⟩

theorem foldl_insert_sorted (as : List AttrL) : ∀ (acc : List (Str × Str)), SortedKeys acc →
    SortedKeys (as.foldl (fun acc a => mapInsert strLt a.key (trim a.val) acc) acc) := by
  induction as with
  | nil => intro acc h; exact h
  | cons a as ih => intro acc h; exact ih _ (sortedKeys_mapInsert h)

theorem foldl_insert_key {k : Str} (as : List AttrL) : ∀ (acc : List (Str × Str)), SortedKeys acc →
    ((∃ v, (k, v) ∈ acc) ∨ ∃ a ∈ as, a.key = k) →
    ∃ v, (k, v) ∈ as.foldl (fun acc a => mapInsert strLt a.key (trim a.val) acc) acc := by
  induction as with
  | nil =>
    intro acc _ h
    rcases h with h | ⟨a, ha, _⟩
    · exact h
    · cases ha
  | cons a as ih =>
    intro acc hs h
    apply ih _ (sortedKeys_mapInsert hs)
    rcases h with ⟨v, hv⟩ | ⟨a', ha', hk⟩
    · exact .inl ⟨v, mem_mapInsert_of_mem hv⟩
    · rcases List.mem_cons.1 ha' with rfl | ha'
      · subst hk; exact .inl (key_mem_mapInsert _ _ _ hs)
      · exact .inr ⟨a', ha', hk⟩

theorem attrMap_sorted (as : List AttrL) : SortedKeys (attrMap as) :=
  foldl_insert_sorted as [] List.Pairwise.nil

/-- **duplicate keys keep the first value**: an attribute whose key already occurred does not change the map -/
theorem attrMap_dup (as : List AttrL) (a : AttrL) (h : ∃ a' ∈ as, a'.key = a.key) :
    attrMap (as ++ [a]) = attrMap as := by
  obtain ⟨v, hv⟩ := foldl_insert_key (k := a.key) as [] List.Pairwise.nil (.inr h)
  unfold attrMap
  rw [List.foldl_append]
  exact mapInsert_of_mem (foldl_insert_sorted as [] List.Pairwise.nil) hv

end FeatModel.C11.XG
