import FeatModel.Model.Solver.TinyInv
import Mathlib.Algebra.BigOperators.Intervals
import Mathlib.Algebra.Field.Defs
import Mathlib.Tactic.FieldSimp
import Mathlib.Tactic.Ring
import Mathlib.Tactic.IntervalCases
/-! C08: the closed-formula block inverses `Tiny::Matrix::set_inverse` (n = 1, 2, 3) are two-sided inverses whenever
the determinant the helper divides by is non-zero; the result has `n * n` entries. -/
namespace FeatModel.Solver

variable {α : Type} [Field α]

theorem tinyInv_size (n : Nat) (hn : n = 1 ∨ n = 2 ∨ n = 3) (other : Array α → Array α) (a : Array α) :
    (tinyInv n other a).size = n * n := by
  rcases hn with rfl | rfl | rfl <;> rfl

theorem tiny_inverse_spec1 (other : Array α → Array α) (a : Array α) (hdet : tinyDet 1 a ≠ 0)
    (i j : Nat) (hi : i < 1) (hj : j < 1) :
    (∑ k ∈ Finset.range 1, (tinyInv 1 other a).getD (i * 1 + k) 0 * a.getD (k * 1 + j) 0)
        = (if i = j then 1 else 0) ∧
    (∑ k ∈ Finset.range 1, a.getD (i * 1 + k) 0 * (tinyInv 1 other a).getD (k * 1 + j) 0)
        = (if i = j then 1 else 0) := by
  obtain rfl : i = 0 := by omega
  obtain rfl : j = 0 := by omega
  simp only [tinyDet] at hdet
  simp only [tinyInv, tinyInv1, Finset.sum_range_succ, Finset.sum_range_zero]
  generalize a.getD (0 * 1 + 0) 0 = x at hdet ⊢
  have h0 : (#[1 / x] : Array α).getD (0 * 1 + 0) 0 = 1 / x := rfl
  rw [h0]
  constructor <;> field_simp <;> simp

theorem tiny_inverse_spec2 (other : Array α → Array α) (a : Array α) (hdet : tinyDet 2 a ≠ 0)
    (i j : Nat) (hi : i < 2) (hj : j < 2) :
    (∑ k ∈ Finset.range 2, (tinyInv 2 other a).getD (i * 2 + k) 0 * a.getD (k * 2 + j) 0)
        = (if i = j then 1 else 0) ∧
    (∑ k ∈ Finset.range 2, a.getD (i * 2 + k) 0 * (tinyInv 2 other a).getD (k * 2 + j) 0)
        = (if i = j then 1 else 0) := by
  simp only [tinyDet] at hdet
  norm_num only at hdet
  generalize h0 : a.getD 0 0 = x0 at hdet
  generalize h1 : a.getD 1 0 = x1 at hdet
  generalize h2 : a.getD 2 0 = x2 at hdet
  generalize h3 : a.getD 3 0 = x3 at hdet
  have e : tinyInv 2 other a = #[1 / (x0 * x3 - x1 * x2) * x3, -(1 / (x0 * x3 - x1 * x2)) * x1,
      -(1 / (x0 * x3 - x1 * x2)) * x2, 1 / (x0 * x3 - x1 * x2) * x0] := by
    simp only [tinyInv, tinyInv2, h0, h1, h2, h3]
  rw [e]
  generalize hd : x0 * x3 - x1 * x2 = d at hdet
  have g0 : ∀ (y0 y1 y2 y3 : α), (#[y0, y1, y2, y3] : Array α).getD 0 0 = y0 := fun _ _ _ _ => rfl
  have g1 : ∀ (y0 y1 y2 y3 : α), (#[y0, y1, y2, y3] : Array α).getD 1 0 = y1 := fun _ _ _ _ => rfl
  have g2 : ∀ (y0 y1 y2 y3 : α), (#[y0, y1, y2, y3] : Array α).getD 2 0 = y2 := fun _ _ _ _ => rfl
  have g3 : ∀ (y0 y1 y2 y3 : α), (#[y0, y1, y2, y3] : Array α).getD 3 0 = y3 := fun _ _ _ _ => rfl
  interval_cases i <;> interval_cases j <;>
    norm_num only [Finset.sum_range_succ, Finset.sum_range_zero, g0, g1, g2, g3, h0, h1, h2, h3, if_true, if_false] <;>
    constructor <;> field_simp <;> rw [← hd] <;> ring

theorem tiny_inverse_spec3 (other : Array α → Array α) (a : Array α) (hdet : tinyDet 3 a ≠ 0)
    (i j : Nat) (hi : i < 3) (hj : j < 3) :
    (∑ k ∈ Finset.range 3, (tinyInv 3 other a).getD (i * 3 + k) 0 * a.getD (k * 3 + j) 0)
        = (if i = j then 1 else 0) ∧
    (∑ k ∈ Finset.range 3, a.getD (i * 3 + k) 0 * (tinyInv 3 other a).getD (k * 3 + j) 0)
        = (if i = j then 1 else 0) := by
  simp only [tinyDet] at hdet
  norm_num only at hdet
  have e : tinyInv 3 other a = tinyInv3 a := rfl
  rw [e]
  simp only [tinyInv3]
  norm_num only
  generalize h0 : a.getD 0 0 = x0 at hdet ⊢
  generalize h1 : a.getD 1 0 = x1 at hdet ⊢
  generalize h2 : a.getD 2 0 = x2 at hdet ⊢
  generalize h3 : a.getD 3 0 = x3 at hdet ⊢
  generalize h4 : a.getD 4 0 = x4 at hdet ⊢
  generalize h5 : a.getD 5 0 = x5 at hdet ⊢
  generalize h6 : a.getD 6 0 = x6 at hdet ⊢
  generalize h7 : a.getD 7 0 = x7 at hdet ⊢
  generalize h8 : a.getD 8 0 = x8 at hdet ⊢
  generalize hd : x0 * (x4 * x8 - x5 * x7) + x1 * (x5 * x6 - x3 * x8) + x2 * (x3 * x7 - x4 * x6) = d at hdet ⊢
  have g0 : ∀ (y0 y1 y2 y3 y4 y5 y6 y7 y8 : α),
      (#[y0, y1, y2, y3, y4, y5, y6, y7, y8] : Array α).getD 0 0 = y0 := fun _ _ _ _ _ _ _ _ _ => rfl
  have g1 : ∀ (y0 y1 y2 y3 y4 y5 y6 y7 y8 : α),
      (#[y0, y1, y2, y3, y4, y5, y6, y7, y8] : Array α).getD 1 0 = y1 := fun _ _ _ _ _ _ _ _ _ => rfl
  have g2 : ∀ (y0 y1 y2 y3 y4 y5 y6 y7 y8 : α),
      (#[y0, y1, y2, y3, y4, y5, y6, y7, y8] : Array α).getD 2 0 = y2 := fun _ _ _ _ _ _ _ _ _ => rfl
  have g3 : ∀ (y0 y1 y2 y3 y4 y5 y6 y7 y8 : α),
      (#[y0, y1, y2, y3, y4, y5, y6, y7, y8] : Array α).getD 3 0 = y3 := fun _ _ _ _ _ _ _ _ _ => rfl
  have g4 : ∀ (y0 y1 y2 y3 y4 y5 y6 y7 y8 : α),
      (#[y0, y1, y2, y3, y4, y5, y6, y7, y8] : Array α).getD 4 0 = y4 := fun _ _ _ _ _ _ _ _ _ => rfl
  have g5 : ∀ (y0 y1 y2 y3 y4 y5 y6 y7 y8 : α),
      (#[y0, y1, y2, y3, y4, y5, y6, y7, y8] : Array α).getD 5 0 = y5 := fun _ _ _ _ _ _ _ _ _ => rfl
  have g6 : ∀ (y0 y1 y2 y3 y4 y5 y6 y7 y8 : α),
      (#[y0, y1, y2, y3, y4, y5, y6, y7, y8] : Array α).getD 6 0 = y6 := fun _ _ _ _ _ _ _ _ _ => rfl
  have g7 : ∀ (y0 y1 y2 y3 y4 y5 y6 y7 y8 : α),
      (#[y0, y1, y2, y3, y4, y5, y6, y7, y8] : Array α).getD 7 0 = y7 := fun _ _ _ _ _ _ _ _ _ => rfl
  have g8 : ∀ (y0 y1 y2 y3 y4 y5 y6 y7 y8 : α),
      (#[y0, y1, y2, y3, y4, y5, y6, y7, y8] : Array α).getD 8 0 = y8 := fun _ _ _ _ _ _ _ _ _ => rfl
  interval_cases i <;> interval_cases j <;>
    norm_num only [Finset.sum_range_succ, Finset.sum_range_zero, g0, g1, g2, g3, g4, g5, g6, g7, g8,
      h0, h1, h2, h3, h4, h5, h6, h7, h8, if_true, if_false] <;>
    constructor <;> field_simp <;> rw [← hd] <;> ring

/-- `set_inverse` for the block sizes 1, 2, 3: `result · A = I` and `A · result = I` whenever the determinant the
    helper divides by is non-zero -/
theorem tiny_inverse_spec (n : Nat) (hn : n = 1 ∨ n = 2 ∨ n = 3) (other : Array α → Array α) (a : Array α)
    (hdet : tinyDet n a ≠ 0) (i j : Nat) (hi : i < n) (hj : j < n) :
    (∑ k ∈ Finset.range n, (tinyInv n other a).getD (i * n + k) 0 * a.getD (k * n + j) 0)
        = (if i = j then 1 else 0) ∧
    (∑ k ∈ Finset.range n, a.getD (i * n + k) 0 * (tinyInv n other a).getD (k * n + j) 0)
        = (if i = j then 1 else 0) := by
  rcases hn with rfl | rfl | rfl
  · exact tiny_inverse_spec1 other a hdet i j hi hj
  · exact tiny_inverse_spec2 other a hdet i j hi hj
  · exact tiny_inverse_spec3 other a hdet i j hi hj

end FeatModel.Solver
