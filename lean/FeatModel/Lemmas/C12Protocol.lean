import FeatModel.Model.PartitionRefine
/-! C12 helper lemmas: the stateful halo construction protocol of `extract_patch` is stateless in effect. -/
namespace FeatModel.Parti
open FeatModel.Adj

theorem foldl_push_eq (f : Nat → Bool) : ∀ (l : List (Nat × Nat)) (acc : List Nat),
    l.foldl (fun buf (bi : Nat × Nat) => if f bi.1 then buf ++ [bi.2] else buf) acc =
      acc ++ l.filterMap (fun bi => if f bi.1 then some bi.2 else none)
  | [], acc => by simp
  | (b, i) :: xs, acc => by
    simp only [List.foldl_cons, List.filterMap_cons]
    rw [foldl_push_eq f xs]
    by_cases h : f b <;> simp [h]

/-- a rebuilt buffer never depends on what the previous neighbour left in it -/
theorem haloBuildDim_eq (m : Mesh) (p : Parti) (r s d : Nat) (old : List Nat) :
    haloBuildDim m p r s d old = halo m p r s d := by
  unfold haloBuildDim halo
  have := foldl_push_eq (fun b => hasRank m p d b s) ((m.target (p.row r) d).zipIdx) []
  simp only [List.nil_append] at this
  simp only [List.drop_length]
  exact this

theorem haloFactoryBuild_eq (m : Mesh) (p : Parti) (r s : Nat) (state : List (List Nat)) :
    haloFactoryBuild m p r s state = (List.range (m.dim + 1)).map (halo m p r s) := by
  unfold haloFactoryBuild
  apply List.map_congr_left
  intro d _
  exact haloBuildDim_eq m p r s d _

theorem haloProtocol_fold (m : Mesh) (p : Parti) (r : Nat) : ∀ (l : List Nat) (st : List (List Nat))
    (acc : List (Nat × List (List Nat))),
    (l.foldl (fun (a : List (List Nat) × List (Nat × List (List Nat))) s =>
        let st' := haloFactoryBuild m p r s a.1
        (st', a.2 ++ [(s, st')])) (st, acc)).2 =
      acc ++ l.map fun s => (s, (List.range (m.dim + 1)).map (halo m p r s))
  | [], _, acc => by simp
  | s :: ss, st, acc => by
    simp only [List.foldl_cons, List.map_cons]
    rw [haloProtocol_fold m p r ss, haloFactoryBuild_eq]
    simp

theorem haloProtocol_eq (m : Mesh) (p : Parti) (r : Nat) :
    haloProtocol m p r = (commRanks m p r).map fun s => (s, (List.range (m.dim + 1)).map (halo m p r s)) := by
  unfold haloProtocol
  rw [haloProtocol_fold]
  simp

end FeatModel.Parti
