import FeatModel.Lemmas.C01Sum
import FeatModel.Model.LA.Csr
import Mathlib.Tactic.Linarith
import Mathlib.Tactic.FieldSimp
/-! CSR: well-formedness as a `Prop`, row sums and the transposed scatter as sums over the dense meaning. -/
open Finset
namespace FeatModel.LA
namespace Csr

variable {α : Type}

/-- `Csr.wf` spelled out -/
structure WF (A : Csr α) : Prop where
  size : A.rowPtr.size = A.rows + 1
  first : A.rowPtr.getD 0 0 = 0
  last : A.rowPtr.getD A.rows 0 = A.val.size
  colSize : A.colInd.size = A.val.size
  mono : ∀ i, i < A.rows → A.rowPtr.getD i 0 ≤ A.rowPtr.getD (i + 1) 0
  colLt : ∀ k, k < A.colInd.size → A.colInd.getD k 0 < A.cols

theorem wf_iff (A : Csr α) : A.wf = true ↔ A.WF := by
  constructor
  · intro h
    simp only [wf, Bool.and_eq_true, beq_iff_eq, List.all_eq_true, List.mem_range, decide_eq_true_eq,
      Array.all_eq_true] at h
    obtain ⟨⟨⟨⟨⟨h1, h2⟩, h3⟩, h4⟩, h5⟩, h6⟩ := h
    refine ⟨h1, h2, h3, h4, h5, ?_⟩
    intro k hk
    have := h6 k hk
    simpa [Array.getD, hk] using this
  · intro h
    simp only [wf, Bool.and_eq_true, beq_iff_eq, List.all_eq_true, List.mem_range, decide_eq_true_eq,
      Array.all_eq_true]
    refine ⟨⟨⟨⟨⟨h.size, h.first⟩, h.last⟩, h.colSize⟩, h.mono⟩, ?_⟩
    intro k hk
    have := h.colLt k hk
    simpa [Array.getD, hk] using this

theorem rowPtr_mono {A : Csr α} (h : A.WF) : ∀ j i, i ≤ j → j ≤ A.rows → A.rowPtr.getD i 0 ≤ A.rowPtr.getD j 0
  | 0, i, hij, _ => by
    have : i = 0 := by omega
    subst this; exact Nat.le_refl _
  | j + 1, i, hij, hj => by
    rcases Nat.lt_or_ge i (j + 1) with hlt | hge
    · exact Nat.le_trans (rowPtr_mono h j i (by omega) (by omega)) (h.mono j (by omega))
    · have : i = j + 1 := by omega
      subst this; exact Nat.le_refl _

theorem rowEnd_le {A : Csr α} (h : A.WF) {i : Nat} (hi : i < A.rows) : A.rowEnd i ≤ A.colInd.size := by
  have := rowPtr_mono h A.rows (i + 1) (by omega) (Nat.le_refl _)
  rw [h.last, ← h.colSize] at this
  exact this

theorem getD_eq_of_lt (a : Array Nat) {k : Nat} (hk : k < a.size) (d e : Nat) : a.getD k d = a.getD k e := by
  simp [Array.getD, hk]

variable [CommSemiring α]

theorem rowSum_eq_sum_Ico (A : Csr α) (x : Array α) (i : Nat) :
    A.rowSum x i = ∑ k ∈ Ico (A.rowBegin i) (A.rowEnd i), A.val.getD k 0 * x.getD (A.colInd.getD k 0) 0 := by
  unfold rowSum
  rw [foldRange_add, zero_add]

theorem entry_eq_sum_Ico (A : Csr α) (i j : Nat) :
    A.entry i j = ∑ k ∈ Ico (A.rowBegin i) (A.rowEnd i), (if A.colInd.getD k A.cols = j then A.val.getD k 0 else 0) := by
  unfold entry
  rw [foldRange_add_if, zero_add]

/-- a sum over the stored entries of row `i` is the sum over the dense row -/
theorem sum_row_eq {A : Csr α} (h : A.WF) (f : Nat → α) {i : Nat} (hi : i < A.rows) :
    ∑ k ∈ Ico (A.rowBegin i) (A.rowEnd i), A.val.getD k 0 * f (A.colInd.getD k 0)
      = ∑ j ∈ range A.cols, A.entry i j * f j := by
  simp only [entry_eq_sum_Ico, Finset.sum_mul, ite_mul, zero_mul]
  rw [Finset.sum_comm]
  apply Finset.sum_congr rfl
  intro k hk
  rw [Finset.mem_Ico] at hk
  have hks : k < A.colInd.size := Nat.lt_of_lt_of_le hk.2 (rowEnd_le h hi)
  have hc : A.colInd.getD k A.cols = A.colInd.getD k 0 := getD_eq_of_lt _ hks _ _
  rw [hc, Finset.sum_ite_eq, if_pos (Finset.mem_range.mpr (h.colLt k hks))]

/-- the inner loop of the non-transposed kernel computes row `i` of the dense product -/
theorem rowSum_eq {A : Csr α} (h : A.WF) (x : Array α) {i : Nat} (hi : i < A.rows) :
    A.rowSum x i = ∑ j ∈ range A.cols, A.entry i j * x.getD j 0 := by
  rw [rowSum_eq_sum_Ico]
  exact sum_row_eq h (fun j => x.getD j 0) hi

theorem scatterT_size (A : Csr α) (x r : Array α) : (A.scatterT x r).size = r.size := by
  unfold scatterT
  rw [List.range_eq_range']
  apply foldl_range'_size
  intro r row
  apply foldRange_size
  intro r i
  exact Array.size_modify ..

/-- the transposed scatter adds column `j` of the dense meaning, weighted with `x`, to `r[j]` -/
theorem scatterT_getD {A : Csr α} (h : A.WF) (x r : Array α) {j : Nat} (hj : j < r.size) :
    (A.scatterT x r).getD j 0 = r.getD j 0 + ∑ i ∈ range A.rows, A.entry i j * x.getD i 0 := by
  unfold scatterT
  rw [List.range_eq_range']
  have hsz : ∀ (r : Array α) (row : Nat),
      (foldRange (A.rowBegin row) (A.rowEnd row)
        (fun r i => r.modify (A.colInd.getD i 0) (· + A.val.getD i 0 * x.getD row 0)) r).size = r.size := by
    intro r row
    apply foldRange_size
    intro r i
    exact Array.size_modify ..
  rw [foldl_range'_acc _ (fun row => ∑ k ∈ Ico (A.rowBegin row) (A.rowEnd row),
      (if A.colInd.getD k 0 = j then A.val.getD k 0 * x.getD row 0 else 0)) j hsz ?_ _ _ r hj]
  · congr 1
    apply Finset.sum_congr rfl
    intro i hi
    rw [Finset.mem_range] at hi
    simp only [Nat.zero_add]
    rw [entry_eq_sum_Ico, Finset.sum_mul]
    apply Finset.sum_congr rfl
    intro k hk
    rw [Finset.mem_Ico] at hk
    have hks : k < A.colInd.size := Nat.lt_of_lt_of_le hk.2 (rowEnd_le h hi)
    rw [getD_eq_of_lt _ hks A.cols 0, ite_mul, zero_mul]
  · intro r row hjr
    apply foldRange_acc _ _ j ?_ ?_ _ _ r hjr
    · intro r i
      exact Array.size_modify ..
    · intro r i hjr'
      exact getD_modify_add r _ j _ hjr'

/-- a CSR matrix without stored entries represents the zero matrix -/
theorem entry_eq_zero_of_empty {A : Csr α} (h : A.WF) (h0 : A.usedElements = 0) {i : Nat} (hi : i < A.rows) (j : Nat) :
    A.entry i j = 0 := by
  rw [entry_eq_sum_Ico]
  have h1 := rowEnd_le h hi
  have h2 : A.colInd.size = 0 := by rw [h.colSize]; exact h0
  have h3 : A.rowEnd i = 0 := by omega
  rw [h3]
  simp

end Csr
end FeatModel.LA
