import FeatModel.Lemmas.C10Volume
/-! C10 — hexahedron child orientation: shared definitions -/
namespace FeatModel.Refine

/-- `i`-th binary digit of `j` as a rational number -/
def bitR (j i : Nat) : Rat := if bitOf j i then 1 else 0

end FeatModel.Refine
