import FeatModel.Model.MeshFile
import FeatModel.Lemmas.C11Xml
import FeatModel.Lemmas.C11Mesh
import FeatModel.Lemmas.C11RoundTrip2
/-
C11 — parser soundness for the mesh-file model, second part: MESH PARTS and PARTITIONS.
An accepted file never contains a target set / index set / attribute / patch whose declared size is not matched
by what was read; a whole missing child block is rejected unless the declared size is 0.
Core Lean only.
-/
namespace FeatModel.C11

/-! ### what "well formed" means for a parsed mesh part / partition -/

def Part.wf (sh : Shape) (dim : Nat) (p : Part) : Prop :=
  p.sizes.length = dim + 1 ∧ p.maps.length = dim + 1 ∧
  (∀ d, d ≤ dim → (p.maps.getD d []).length = p.sizes.getD d 0) ∧
  (∀ idx ∈ p.maps, ∀ i ∈ idx, i < 2 ^ 64) ∧
  p.topo.length = dim ∧
  (p.hasTopo = true → ∀ i, i < dim →
     (p.topo.getD i []).length = p.sizes.getD (i + 1) 0 ∧
     ∀ t ∈ p.topo.getD i [], t.length = nverts sh (i + 1) ∧ ∀ x ∈ t, x < p.sizes.getD 0 0) ∧
  (∀ na ∈ p.attrs, 0 < na.2.dim ∧ na.2.dim ≤ 2 ^ 31 - 1 ∧ na.2.vals.length = p.sizes.getD 0 0 ∧
    ∀ v ∈ na.2.vals, v.length = na.2.dim)

/-- a mesh part without topology has empty index sets -/
def Part.noTopoEmpty (p : Part) : Prop := p.hasTopo = false → ∀ ts ∈ p.topo, ts = []

/-- `Part.wf` plus `Part.noTopoEmpty`, with the topology clause guarded by `c` (a `topology="parent"` part has no checked topology before
    the linker has deducted it) -/
def Part.wfIf (c : Prop) (sh : Shape) (dim : Nat) (p : Part) : Prop :=
  p.sizes.length = dim + 1 ∧ p.maps.length = dim + 1 ∧
  (∀ d, d ≤ dim → (p.maps.getD d []).length = p.sizes.getD d 0) ∧
  (∀ idx ∈ p.maps, ∀ i ∈ idx, i < 2 ^ 64) ∧
  p.topo.length = dim ∧
  (c → p.hasTopo = true → ∀ i, i < dim →
     (p.topo.getD i []).length = p.sizes.getD (i + 1) 0 ∧
     ∀ t ∈ p.topo.getD i [], t.length = nverts sh (i + 1) ∧ ∀ x ∈ t, x < p.sizes.getD 0 0) ∧
  (p.hasTopo = false → ∀ ts ∈ p.topo, ts = []) ∧
  (∀ na ∈ p.attrs, 0 < na.2.dim ∧ na.2.dim ≤ 2 ^ 31 - 1 ∧ na.2.vals.length = p.sizes.getD 0 0 ∧
    ∀ v ∈ na.2.vals, v.length = na.2.dim)

def Partition.wf (p : Partition) : Prop :=
  p.patches.length = p.nr ∧ (∀ el ∈ p.patches, el.Pairwise (· < ·) ∧ ∀ e ∈ el, e < p.ne) ∧
  (p.patches.map List.length).sum = p.ne

/-- further facts about a parsed mesh part (number ranges, names, order of the attribute map); `N` is any
    property of attribute values that the scanner guarantees -/
def Part.wfX (N : Str → Prop) (name : Str) (p : Part) : Prop :=
  (∀ s ∈ p.sizes, s < 2 ^ 64) ∧ N name ∧
  (∀ na ∈ p.attrs, N na.1 ∧ na.2.dim < 2 ^ 64) ∧
  p.attrs.Pairwise (fun a b => strLt a.1 b.1 = true)

/-- further facts about a parsed partition -/
def Partition.wfX (N : Str → Prop) (p : Partition) : Prop :=
  N p.name ∧ (-(2 ^ 31 : Int) ≤ p.prio ∧ p.prio < 2 ^ 31) ∧ (0 ≤ p.level ∧ p.level < 2 ^ 31) ∧
  p.nr < 2 ^ 31 ∧ p.ne < 2 ^ 31

theorem Part.wfIf.mono {c c' : Prop} {sh : Shape} {dim : Nat} {p : Part} (h : Part.wfIf c sh dim p)
    (hc : c' → c) : Part.wfIf c' sh dim p := by
  obtain ⟨a1, a2, a3, a4, a5, a6, a7, a8⟩ := h
  exact ⟨a1, a2, a3, a4, a5, fun hc' => a6 (hc hc'), a7, a8⟩

theorem zipIdx_any_ge_false_iff (l : List (List Nat)) (f : Nat → Nat) :
    l.zipIdx.any (fun (idx, d) => idx.any (fun i => i ≥ f d)) = false ↔
      ∀ d, ∀ i ∈ l.getD d [], i < f d := by
  constructor
  · intro h d i hi
    rw [List.getD_eq_getElem?_getD] at hi
    cases hd : l[d]? with
    | none => rw [hd] at hi; simp at hi
    | some idx =>
      rw [hd] at hi
      simp only [Option.getD_some] at hi
      have hm : (idx, d) ∈ l.zipIdx := List.mem_zipIdx_iff_getElem?.2 hd
      rw [List.any_eq_false] at h
      have := h (idx, d) hm
      simp only [List.any_eq_true, not_exists, not_and] at this
      have := this i hi
      simpa using this
  · intro h
    rw [List.any_eq_false]
    intro x hx
    obtain ⟨idx, d⟩ := x
    have hd : l[d]? = some idx := List.mem_zipIdx_iff_getElem?.1 hx
    simp only [List.any_eq_true, not_exists, not_and]
    intro i hi
    have := h d i (by rw [List.getD_eq_getElem?_getD, hd]; exact hi)
    simp only [ge_iff_le, decide_eq_true_eq]
    omega

namespace S2

/-! ### auxiliary facts: `mapInsert`, `setInsert`, `strLt`, `mapMOpt` -/

theorem mem_mapInsert {α : Type} (lt : Str → Str → Bool) (k : Str) (v : α) :
    ∀ (l : List (Str × α)) (x : Str × α), x ∈ mapInsert lt k v l → x = (k, v) ∨ x ∈ l
  | [], x, h => by
    simp [mapInsert] at h; exact Or.inl h
  | (k', v') :: rest, x, h => by
    simp only [mapInsert] at h
    split at h
    · simp only [List.mem_cons] at h ⊢
      exact h
    · split at h
      · simp only [List.mem_cons] at h ⊢
        rcases h with h | h
        · exact Or.inr (Or.inl h)
        · rcases mem_mapInsert lt k v rest x h with h | h
          · exact Or.inl h
          · exact Or.inr (Or.inr h)
      · exact Or.inr h

theorem strLt_trans : ∀ (a b c : Str), strLt a b = true → strLt b c = true → strLt a c = true
  | [], [], _, h, _ => by simp [strLt] at h
  | [], _ :: _, [], _, h => by simp [strLt] at h
  | [], _ :: _, _ :: _, _, _ => by simp [strLt]
  | _ :: _, [], _, h, _ => by simp [strLt] at h
  | _ :: _, _ :: _, [], _, h => by simp [strLt] at h
  | a :: as, b :: bs, c :: cs, h1, h2 => by
    simp only [strLt] at h1 h2 ⊢
    by_cases hab : a.toNat < b.toNat
    · by_cases hbc : b.toNat < c.toNat
      · have : a.toNat < c.toNat := by omega
        simp [this]
      · by_cases hbc' : b.toNat > c.toNat
        · simp [hbc, hbc'] at h2
        · have : a.toNat < c.toNat := by omega
          simp [this]
    · by_cases hab' : a.toNat > b.toNat
      · simp [hab, hab'] at h1
      · simp only [hab, hab', if_false] at h1
        by_cases hbc : b.toNat < c.toNat
        · have : a.toNat < c.toNat := by omega
          simp [this]
        · by_cases hbc' : b.toNat > c.toNat
          · simp [hbc, hbc'] at h2
          · simp only [hbc, hbc', if_false] at h2
            have e1 : ¬ a.toNat < c.toNat := by omega
            have e2 : ¬ a.toNat > c.toNat := by omega
            simp only [e1, e2, if_false]
            exact strLt_trans as bs cs h1 h2

theorem mapInsert_sorted {α : Type} (k : Str) (v : α) :
    ∀ (l : List (Str × α)), l.Pairwise (fun a b => strLt a.1 b.1 = true) →
      (mapInsert strLt k v l).Pairwise (fun a b => strLt a.1 b.1 = true)
  | [], _ => by simp [mapInsert]
  | (k', v') :: rest, h => by
    simp only [mapInsert]
    rw [List.pairwise_cons] at h
    split
    · rename_i hk
      rw [List.pairwise_cons]
      refine ⟨?_, List.pairwise_cons.2 h⟩
      intro x hx
      simp only [List.mem_cons] at hx
      rcases hx with rfl | hx
      · exact hk
      · exact strLt_trans _ _ _ hk (h.1 x hx)
    · split
      · rename_i hk
        rw [List.pairwise_cons]
        refine ⟨?_, mapInsert_sorted k v rest h.2⟩
        intro x hx
        rcases mem_mapInsert _ _ _ _ _ hx with rfl | hx
        · exact hk
        · exact h.1 x hx
      · exact List.pairwise_cons.2 h

theorem mem_setInsert (x z : Nat) : ∀ l : List Nat, z ∈ setInsert x l → z = x ∨ z ∈ l
  | [], h => by simp [setInsert] at h; exact Or.inl h
  | y :: ys, h => by
    simp only [setInsert] at h
    split at h
    · simpa using h
    · split at h
      · exact Or.inr h
      · simp only [List.mem_cons] at h ⊢
        rcases h with h | h
        · exact Or.inr (Or.inl h)
        · rcases mem_setInsert x z ys h with h | h
          · exact Or.inl h
          · exact Or.inr (Or.inr h)

theorem setInsert_sorted (x : Nat) : ∀ l : List Nat, l.Pairwise (· < ·) → (setInsert x l).Pairwise (· < ·)
  | [], _ => by simp [setInsert]
  | y :: ys, h => by
    simp only [setInsert]
    rw [List.pairwise_cons] at h
    split
    · rename_i hxy
      rw [List.pairwise_cons]
      refine ⟨?_, List.pairwise_cons.2 h⟩
      intro z hz
      simp only [List.mem_cons] at hz
      rcases hz with rfl | hz
      · exact hxy
      · exact Nat.lt_trans hxy (h.1 z hz)
    · split
      · exact List.pairwise_cons.2 h
      · rename_i h1 h2
        rw [List.pairwise_cons]
        refine ⟨?_, setInsert_sorted x ys h.2⟩
        intro z hz
        rcases mem_setInsert _ _ _ hz with rfl | hz
        · simp at h2; omega
        · exact h.1 z hz

theorem foldl_setInsert_ok (ne : Nat) : ∀ (elems cur : List Nat), (∀ e ∈ elems, e < ne) →
    cur.Pairwise (· < ·) → (∀ e ∈ cur, e < ne) →
    (elems.foldl (fun acc e => setInsert e acc) cur).Pairwise (· < ·) ∧
      ∀ e ∈ elems.foldl (fun acc e => setInsert e acc) cur, e < ne
  | [], cur, _, h2, h3 => ⟨h2, h3⟩
  | x :: xs, cur, h1, h2, h3 => by
    simp only [List.foldl_cons]
    apply foldl_setInsert_ok ne xs (setInsert x cur) (fun e he => h1 e (by simp [he]))
      (setInsert_sorted x cur h2)
    intro e he
    rcases mem_setInsert _ _ _ he with rfl | he
    · exact h1 _ (by simp)
    · exact h3 e he

theorem mapMOpt_mem {α β : Type} (f : α → Option β) :
    ∀ (l : List α) (bs : List β), mapMOpt f l = some bs → ∀ b ∈ bs, ∃ a ∈ l, f a = some b
  | [], bs, h, b, hb => by
    simp [mapMOpt] at h; subst h; cases hb
  | a :: as, bs, h, b, hb => by
    unfold mapMOpt at h
    split at h
    · cases h
    · rename_i b0 hb0
      split at h
      · cases h
      · rename_i bs' hbs
        cases h
        simp only [List.mem_cons] at hb
        rcases hb with rfl | hb
        · exact ⟨a, by simp, hb0⟩
        · obtain ⟨a', ha', hf⟩ := mapMOpt_mem f as bs' hbs b hb
          exact ⟨a', by simp [ha'], hf⟩

theorem mapMOpt_readIndex_lt {l : List Str} {ns : List Nat} (h : mapMOpt readIndex l = some ns) :
    ∀ n ∈ ns, n < 2 ^ 64 := by
  intro n hn
  obtain ⟨a, _, ha⟩ := mapMOpt_mem _ _ _ h n hn
  exact readIndex_lt ha

/-! ### the invariant -/

/-- what is known about an open `<MeshPart>` frame -/
structure PartOk2 (N : Str → Prop) (sh : Shape) (dim : Nat) (ded : List Str) (p : PartSt) : Prop where
  sizesLen : p.sizes.length = dim + 1
  mapsLen : p.maps.length = dim + 1
  topoLen : p.topo.length = dim
  parentIn : p.topoType = .parent → p.name ∈ ded
  maps : ∀ d l, p.maps[d]? = some (some l) → l.length = p.sizes.getD d 0 ∧ ∀ i ∈ l, i < 2 ^ 64
  topo : ∀ i ts, p.topo[i]? = some (some ts) →
    tuplesOk (nverts sh (i + 1)) (p.sizes.getD 0 0) (p.sizes.getD (i + 1) 0) ts = true
  noTopo : p.topoType = .none → ∀ o ∈ p.topo, o = none
  attrs : ∀ na ∈ p.attrs, 0 < na.2.dim ∧ na.2.dim ≤ 2 ^ 31 - 1 ∧ na.2.vals.length = p.sizes.getD 0 0 ∧
    ∀ v ∈ na.2.vals, v.length = na.2.dim
  sizes64 : ∀ s ∈ p.sizes, s < 2 ^ 64
  nameN : N p.name
  attrsX : ∀ na ∈ p.attrs, N na.1 ∧ na.2.dim < 2 ^ 64
  attrsSorted : p.attrs.Pairwise (fun a b => strLt a.1 b.1 = true)
  zb : p.topoType ≠ .none → zeroBelow p.sizes = false

/-- what is known about a frame sitting directly above a `<MeshPart>` frame `p` -/
def childOkP (N : Str → Prop) (sh : Shape) (dim : Nat) (p : PartSt) : Frame → Prop
  | Frame.mapping d count acc =>
    d ≤ dim ∧ count = p.sizes.getD d 0 ∧ acc.length ≤ count ∧ ∀ i ∈ acc, i < 2 ^ 64
  | Frame.topo d numIdx bound count acc =>
    p.topoType ≠ .none ∧ 1 ≤ d ∧ d ≤ dim ∧ numIdx = nverts sh d ∧ bound = p.sizes.getD 0 0 ∧
    count = p.sizes.getD d 0 ∧ acc.length ≤ count ∧ ∀ t ∈ acc, t.length = numIdx ∧ ∀ x ∈ t, x < bound
  | Frame.attr name d count acc =>
    N name ∧ 0 < d ∧ d ≤ 2 ^ 31 - 1 ∧ count = p.sizes.getD 0 0 ∧ acc.length ≤ count ∧ ∀ r ∈ acc, r.length = d
  | _ => True

/-- what is known about an open `<Partition>` frame -/
structure PtOk2 (N : Str → Prop) (name : Str) (prio level : Int) (nr ne : Nat) (patches : List (List Nat))
    (hv : List Bool) : Prop where
  len : patches.length = nr
  flagsLen : hv.length = nr
  sorted : ∀ el ∈ patches, el.Pairwise (· < ·) ∧ ∀ e ∈ el, e < ne
  nameN : N name
  prio : -(2 ^ 31 : Int) ≤ prio ∧ prio < 2 ^ 31
  level : 0 ≤ level ∧ level < 2 ^ 31
  nr31 : nr < 2 ^ 31
  ne31 : ne < 2 ^ 31

/-- what is known about a frame sitting directly above a `<Partition>` frame -/
def childOkPt (nr ne : Nat) : Frame → Prop
  | Frame.patch rank _ ne' _ elems => rank < nr ∧ ne' = ne ∧ ∀ e ∈ elems, e < ne
  | _ => True

def frameOk2 (N : Str → Prop) (sh : Shape) (dim : Nat) (ded : List Str) : Frame → Prop
  | Frame.part p => PartOk2 N sh dim ded p
  | Frame.partition name prio level nr ne patches hv => PtOk2 N name prio level nr ne patches hv
  | Frame.mesh sizes _ _ => (∀ s ∈ sizes, s < 2 ^ 64) ∧ zeroBelow sizes = false
  | _ => True

def aboveOk2 (N : Str → Prop) (sh : Shape) (dim : Nat) (f : Frame) : List Frame → Prop
  | Frame.part p :: _ => childOkP N sh dim p f
  | Frame.partition _ _ _ nr ne _ _ :: _ => childOkPt nr ne f
  | _ => True

def stackInv2 (N : Str → Prop) (sh : Shape) (dim : Nat) (ded : List Str) : List Frame → Prop
  | [] => True
  | f :: rest => frameOk2 N sh dim ded f ∧ aboveOk2 N sh dim f rest ∧ stackInv2 N sh dim ded rest

/-- what is known about the node collected so far -/
structure NodeOk2 (N : Str → Prop) (sh : Shape) (dim : Nat) (ded : List Str) (n : Node) : Prop where
  mesh64 : ∀ m, n.mesh = some m → ∀ s ∈ m.sizes, s < 2 ^ 64
  meshZB : ∀ m, n.mesh = some m → zeroBelow m.sizes = false
  parts : ∀ np ∈ n.parts, Part.wfIf (np.1 ∉ ded) sh dim np.2 ∧ Part.wfX N np.1 np.2
  partsChart : ∀ np ∈ n.parts, np.2.chart = []
  partsZB : ∀ np ∈ n.parts, np.2.hasTopo = true → zeroBelow np.2.sizes = false
  partsSorted : n.parts.Pairwise (fun a b => strLt a.1 b.1 = true)
  partitions : ∀ p ∈ n.partitions, p.wf ∧ p.wfX N

def Good2 (N : Str → Prop) (sh : Shape) (dim : Nat) (ded : List Str) (stack : List Frame) (node : Node) : Prop :=
  stackInv2 N sh dim ded stack ∧ NodeOk2 N sh dim ded node

/-- the second parser-state invariant.  A `topology="parent"` mesh part registers a deduction with the linker
    (`st.deduct`); the topology clause of such a part is only established by the linker. -/
def Inv2 (N : Str → Prop) (sh : Shape) (dim : Nat) (st : St) : Prop :=
  st.shape = sh ∧ st.dim = dim ∧ Good2 N sh dim st.deduct st.stack st.node

/-- one transition: shape, dimension and the deduction list are kept, `Good2` is preserved -/
def Step (N : Str → Prop) (sh : Shape) (dim : Nat) (st st' : St) : Prop :=
  st'.shape = st.shape ∧ st'.dim = st.dim ∧ st'.deduct = st.deduct ∧ Good2 N sh dim st'.deduct st'.stack st'.node

theorem stackInv2_replace {N : Str → Prop} {sh : Shape} {dim : Nat} {ded : List Str} {f f' : Frame} {rest : List Frame}
    (h : stackInv2 N sh dim ded (f :: rest)) (h1 : frameOk2 N sh dim ded f')
    (h2 : ∀ p tl, rest = Frame.part p :: tl → childOkP N sh dim p f → childOkP N sh dim p f')
    (h3 : ∀ name prio level nr ne patches hv tl, rest = Frame.partition name prio level nr ne patches hv :: tl →
      childOkPt nr ne f → childOkPt nr ne f') :
    stackInv2 N sh dim ded (f' :: rest) := by
  obtain ⟨_, ha, hr⟩ := h
  refine ⟨h1, ?_, hr⟩
  cases rest with
  | nil => trivial
  | cons g tl =>
    cases g <;> try trivial
    · exact h2 _ _ rfl ha
    · exact h3 _ _ _ _ _ _ _ _ rfl ha

theorem stackInv2_push {N : Str → Prop} {sh : Shape} {dim : Nat} {ded : List Str} {f : Frame} {stack : List Frame}
    (h : stackInv2 N sh dim ded stack) (h1 : frameOk2 N sh dim ded f)
    (h2 : ∀ p tl, stack = Frame.part p :: tl → childOkP N sh dim p f)
    (h3 : ∀ name prio level nr ne patches hv tl, stack = Frame.partition name prio level nr ne patches hv :: tl →
      childOkPt nr ne f) :
    stackInv2 N sh dim ded (f :: stack) := by
  refine ⟨h1, ?_, h⟩
  cases stack with
  | nil => trivial
  | cons g tl =>
    cases g <;> try trivial
    · exact h2 _ _ rfl
    · exact h3 _ _ _ _ _ _ _ _ rfl

theorem stackInv2_tail {N : Str → Prop} {sh : Shape} {dim : Nat} {ded : List Str} {f : Frame} {rest : List Frame}
    (h : stackInv2 N sh dim ded (f :: rest)) : stackInv2 N sh dim ded rest := h.2.2

/-! ### `contentM` -/

theorem contentM_step {N : Str → Prop} {sh : Shape} {dim : Nat} {st st' : St} {line : Nat} {s : Str}
    (hG : Good2 N sh dim st.deduct st.stack st.node) (h : contentM st line s = .ok st') : Step N sh dim st st' := by
  obtain ⟨shape, d, wd, stack, node, links, deduct, unm⟩ := st
  obtain ⟨h4, hn⟩ := hG
  simp only at h4 hn
  cases stack with
  | nil => simp [contentM, gErr] at h
  | cons f rest =>
    cases f with
    | dummy => simp [contentM] at h; subst h; exact ⟨rfl, rfl, rfl, h4, hn⟩
    | root => simp [contentM, gErr] at h
    | mesh _ _ _ => simp [contentM, gErr] at h
    | part _ => simp [contentM, gErr] at h
    | partition _ _ _ _ _ _ => simp [contentM, gErr] at h
    | chart _ _ => simp [contentM, gErr] at h
    | chartItem => simp [contentM, gErr] at h
    | bezier _ _ _ _ _ => simp [contentM, gErr] at h
    | bezierPoints size read acc =>
      simp only [contentM] at h
      repeat' split at h
      all_goals first
        | (simp [cErr] at h; done)
        | (simp only [Except.ok.injEq] at h; subst h
           exact ⟨rfl, rfl, rfl, stackInv2_replace h4 trivial (fun _ _ _ _ => trivial)
             (fun _ _ _ _ _ _ _ _ _ _ => trivial), hn⟩)
    | bezierParams size read acc =>
      simp only [contentM] at h
      repeat' split at h
      all_goals first
        | (simp [cErr] at h; done)
        | (simp only [Except.ok.injEq] at h; subst h
           exact ⟨rfl, rfl, rfl, stackInv2_replace h4 trivial (fun _ _ _ _ => trivial)
             (fun _ _ _ _ _ _ _ _ _ _ => trivial), hn⟩)
    | verts count acc =>
      obtain ⟨v, hv, hc, rfl⟩ := contentM_verts rfl h
      exact ⟨rfl, rfl, rfl, stackInv2_replace h4 trivial (fun _ _ _ _ => trivial)
        (fun _ _ _ _ _ _ _ _ _ _ => trivial), hn⟩
    | topo dd numIdx bound count acc =>
      obtain ⟨v, hv, hb, hc, rfl⟩ := contentM_topo rfl h
      refine ⟨rfl, rfl, rfl, stackInv2_replace h4 trivial ?_ (fun _ _ _ _ _ _ _ _ _ _ => trivial), hn⟩
      intro p _ _ hc'
      obtain ⟨a0, a1, a2, a3, a4, a5, a6, a7⟩ := hc'
      refine ⟨a0, a1, a2, a3, a4, a5, by simp only [List.length_cons]; omega, ?_⟩
      intro r hr
      simp only [List.mem_cons] at hr
      rcases hr with rfl | hr
      · exact ⟨hv, hb⟩
      · exact a7 r hr
    | mapping dd count acc =>
      simp only [contentM] at h
      split at h
      · simp [cErr] at h
      · split at h
        · simp [cErr] at h
        · rename_i hlen _ i hi
          simp only [Except.ok.injEq] at h
          subst h
          refine ⟨rfl, rfl, rfl, stackInv2_replace h4 trivial ?_ (fun _ _ _ _ _ _ _ _ _ _ => trivial), hn⟩
          intro p _ _ hc'
          obtain ⟨a1, a2, a3, a4⟩ := hc'
          refine ⟨a1, a2, by simp only [List.length_cons]; omega, ?_⟩
          intro r hr
          simp only [List.mem_cons] at hr
          rcases hr with rfl | hr
          · exact readIndex_lt hi
          · exact a4 r hr
    | attr name dd count acc =>
      simp only [contentM] at h
      split at h
      · simp [cErr] at h
      · split at h
        · simp [cErr] at h
        · split at h
          · simp [cErr] at h
          · rename_i hlen htl _ v hv
            simp only [Except.ok.injEq] at h
            subst h
            refine ⟨rfl, rfl, rfl, stackInv2_replace h4 trivial ?_ (fun _ _ _ _ _ _ _ _ _ _ => trivial), hn⟩
            intro p _ _ hc'
            obtain ⟨a1, a2, a3, a4, a5, a6⟩ := hc'
            refine ⟨a1, a2, a3, a4, by simp only [List.length_cons]; omega, ?_⟩
            intro r hr
            simp only [List.mem_cons] at hr
            rcases hr with rfl | hr
            · have := mapMOpt_length _ _ _ hv
              simp at htl
              omega
            · exact a6 r hr
    | patch rank size ne read elems =>
      simp only [contentM] at h
      split at h
      · simp [cErr] at h
      · split at h
        · simp [cErr] at h
        · split at h
          · simp [cErr] at h
          · rename_i _ _ e he hne
            simp only [Except.ok.injEq] at h
            subst h
            refine ⟨rfl, rfl, rfl, stackInv2_replace h4 trivial (fun _ _ _ _ => trivial) ?_, hn⟩
            intro _ _ _ nr ne' _ _ _ _ hc'
            obtain ⟨a1, a2, a3⟩ := hc'
            refine ⟨a1, a2, ?_⟩
            intro x hx
            simp only [List.mem_append, List.mem_singleton] at hx
            rcases hx with hx | rfl
            · exact a3 x hx
            · omega

/-! ### `closeTop` -/

/-- the mesh part built by `</MeshPart>` -/
def mkPart (p : PartSt) : Part :=
  { chart := []
    hasTopo := p.topoType != .none
    sizes := p.sizes
    maps := p.maps.map (fun o => o.getD [])
    topo := p.topo.map (fun o => o.getD [])
    attrs := p.attrs }

/-- `</MeshPart>`: a completely checked part frame yields a well-formed mesh part -/
theorem PartOk2.close {N : Str → Prop} {sh : Shape} {dim : Nat} {ded : List Str} {p : PartSt} (hp : PartOk2 N sh dim ded p)
    (hm : ∀ i, i < p.sizes.length → (p.maps.getD i none).isNone = true → p.sizes.getD i 0 = 0)
    (ht : p.topoType = .full → ∀ i, i < p.topo.length → (p.topo.getD i none).isNone = true →
      p.sizes.getD (i + 1) 0 = 0) :
    Part.wfIf (p.topoType ≠ .parent) sh dim (mkPart p) ∧ Part.wfX N p.name (mkPart p) ∧
      ((mkPart p).hasTopo = true → zeroBelow (mkPart p).sizes = false) := by
  unfold mkPart
  refine ⟨⟨hp.sizesLen, by simp [hp.mapsLen], ?_, ?_, by simp [hp.topoLen], ?_, ?_, hp.attrs⟩,
    ⟨hp.sizes64, hp.nameN, hp.attrsX, hp.attrsSorted⟩, ?_⟩
  · intro d hd
    simp only
    rw [List.getD_eq_getElem?_getD, List.getElem?_map]
    cases ho : p.maps[d]? with
    | none =>
      have := List.getElem?_eq_none_iff.1 ho
      have := hp.mapsLen
      omega
    | some o =>
      cases o with
      | none =>
        have := hm d (by have := hp.sizesLen; omega) (by simp [List.getD_eq_getElem?_getD, ho])
        rw [this]; rfl
      | some l => simpa using (hp.maps d l ho).1
  · intro idx hidx i hi
    simp only [List.mem_map] at hidx
    obtain ⟨o, ho, rfl⟩ := hidx
    cases o with
    | none => simp at hi
    | some l =>
      obtain ⟨d, hd⟩ := List.getElem?_of_mem ho
      exact (hp.maps d l hd).2 i (by simpa using hi)
  · intro hnp hT i hi
    simp only at hT ⊢
    have hfull : p.topoType = .full := by
      cases hq : p.topoType <;> simp_all
    rw [List.getD_eq_getElem?_getD, List.getElem?_map]
    cases ho : p.topo[i]? with
    | none =>
      have := List.getElem?_eq_none_iff.1 ho
      have := hp.topoLen
      omega
    | some o =>
      cases o with
      | none =>
        have := ht hfull i (by have := hp.topoLen; omega) (by simp [List.getD_eq_getElem?_getD, ho])
        rw [this]; exact ⟨rfl, fun t ht' => by simp at ht'⟩
      | some ts =>
        have := (tuplesOk_iff _ _ _ _).1 (hp.topo i ts ho)
        simpa using this
  · intro hT ts hts
    simp only at hT hts
    have hnone : p.topoType = .none := by simpa using hT
    simp only [List.mem_map] at hts
    obtain ⟨o, ho, rfl⟩ := hts
    rw [hp.noTopo hnone o ho]
    rfl
  · intro hT
    simp only at hT ⊢
    exact hp.zb (by simpa using hT)

theorem getD_sorted_bounded {ne : Nat} {patches : List (List Nat)}
    (h : ∀ el ∈ patches, el.Pairwise (· < ·) ∧ ∀ e ∈ el, e < ne) (rank : Nat) :
    (patches.getD rank []).Pairwise (· < ·) ∧ ∀ e ∈ patches.getD rank [], e < ne := by
  rw [List.getD_eq_getElem?_getD]
  cases ho : patches[rank]? with
  | none => simp
  | some el => exact h el (List.mem_of_getElem? ho)

theorem closeTop_step {N : Str → Prop} {sh : Shape} {dim : Nat} {st st' : St} {line : Nat}
    (hG : Good2 N sh dim st.deduct st.stack st.node) (h : closeTop st line = .ok st') : Step N sh dim st st' := by
  obtain ⟨shape, d, wd, stack, node, links, deduct, unm⟩ := st
  obtain ⟨h4, hn⟩ := hG
  simp only at h4 hn
  cases stack with
  | nil => simp [closeTop, gErr] at h
  | cons f rest =>
    cases f with
    | root => simp [closeTop] at h; subst h; exact ⟨rfl, rfl, rfl, stackInv2_tail h4, hn⟩
    | dummy => simp [closeTop] at h; subst h; exact ⟨rfl, rfl, rfl, stackInv2_tail h4, hn⟩
    | chartItem => simp [closeTop] at h; subst h; exact ⟨rfl, rfl, rfl, stackInv2_tail h4, hn⟩
    | chart name c =>
      cases c with
      | none => simp [closeTop, gErr] at h
      | some ch =>
        simp [closeTop] at h; subst h
        exact ⟨rfl, rfl, rfl, stackInv2_tail h4,
          ⟨hn.mesh64, hn.meshZB, hn.parts, hn.partsChart, hn.partsZB, hn.partsSorted, hn.partitions⟩⟩
    | bezier sz cl o segs params =>
      cases rest with
      | nil => simp [closeTop, gErr] at h
      | cons g tl =>
        cases g with
        | chart name c =>
          simp only [closeTop, Except.ok.injEq] at h
          subst h
          exact ⟨rfl, rfl, rfl, stackInv2_replace (stackInv2_tail h4) trivial (fun _ _ _ _ => trivial)
            (fun _ _ _ _ _ _ _ _ _ _ => trivial), hn⟩
        | _ => simp [closeTop, gErr] at h
    | bezierPoints size read acc =>
      cases rest with
      | nil => simp [closeTop, gErr] at h
      | cons g tl =>
        cases g with
        | bezier sz cl o segs params =>
          simp only [closeTop] at h
          split at h
          · simp [gErr] at h
          · simp only [Except.ok.injEq] at h
            subst h
            exact ⟨rfl, rfl, rfl, stackInv2_replace (stackInv2_tail h4) trivial (fun _ _ _ _ => trivial)
              (fun _ _ _ _ _ _ _ _ _ _ => trivial), hn⟩
        | _ => simp [closeTop, gErr] at h
    | bezierParams size read acc =>
      cases rest with
      | nil => simp [closeTop, gErr] at h
      | cons g tl =>
        cases g with
        | bezier sz cl o segs params =>
          simp only [closeTop] at h
          split at h
          · simp [gErr] at h
          · simp only [Except.ok.injEq] at h
            subst h
            exact ⟨rfl, rfl, rfl, stackInv2_replace (stackInv2_tail h4) trivial (fun _ _ _ _ => trivial)
              (fun _ _ _ _ _ _ _ _ _ _ => trivial), hn⟩
        | _ => simp [closeTop, gErr] at h
    | mesh sizes v topo =>
      simp only [closeTop] at h
      split at h
      · simp [gErr] at h
      · split at h
        · simp [gErr] at h
        · simp only [Except.ok.injEq] at h
          subst h
          refine ⟨rfl, rfl, rfl, stackInv2_tail h4, { hn with mesh64 := ?_, meshZB := ?_ }⟩
          · intro m hm
            simp only [Option.some.injEq] at hm
            subst hm
            exact h4.1.1
          · intro m hm
            simp only [Option.some.injEq] at hm
            subst hm
            exact h4.1.2
    | verts count acc =>
      cases rest with
      | nil => simp [closeTop, gErr] at h
      | cons g tl =>
        cases g with
        | mesh sizes v topo =>
          obtain ⟨hc, rfl⟩ := closeTop_verts rfl h
          obtain ⟨_, ha, ht⟩ := h4
          exact ⟨rfl, rfl, rfl, stackInv2_replace ht ht.1 (fun _ _ _ _ => trivial)
            (fun _ _ _ _ _ _ _ _ _ _ => trivial), hn⟩
        | _ => simp [closeTop, gErr] at h
    | topo dd numIdx bound count acc =>
      cases rest with
      | nil => simp [closeTop, gErr] at h
      | cons g tl =>
        cases g with
        | mesh sizes v topo =>
          obtain ⟨hc, rfl⟩ := closeTop_topo rfl h
          obtain ⟨_, ha, ht⟩ := h4
          exact ⟨rfl, rfl, rfl, stackInv2_replace ht ht.1 (fun _ _ _ _ => trivial)
            (fun _ _ _ _ _ _ _ _ _ _ => trivial), hn⟩
        | part p =>
          simp only [closeTop] at h
          split at h
          · simp [gErr] at h
          · rename_i hlen
            simp only [Except.ok.injEq] at h
            subst h
            obtain ⟨_, ha, ht⟩ := h4
            obtain ⟨a0, a1, a2, a3, a4, a5, a6, a7⟩ := ha
            have hp : PartOk2 N sh dim deduct p := ht.1
            refine ⟨rfl, rfl, rfl, stackInv2_replace ht ?_ (fun _ _ _ _ => trivial)
              (fun _ _ _ _ _ _ _ _ _ _ => trivial), hn⟩
            refine { hp with topoLen := by simpa using hp.topoLen, topo := ?_, noTopo := fun hq => absurd hq a0 }
            intro i ts hi
            simp only at hi
            rw [List.getElem?_set] at hi
            split at hi
            · split at hi
              · simp only [Option.some.injEq] at hi
                subst hi
                have hdd : i + 1 = dd := by omega
                rw [hdd, tuplesOk_iff]
                refine ⟨by simp only [List.length_reverse]; omega, ?_⟩
                intro t ht'
                have := a7 t (by simpa using ht')
                rw [← a3, ← a4]
                exact this
              · cases hi
            · exact hp.topo i ts hi
        | _ => simp [closeTop, gErr] at h
    | mapping dd count acc =>
      cases rest with
      | nil => simp [closeTop, gErr] at h
      | cons g tl =>
        cases g with
        | part p =>
          simp only [closeTop] at h
          split at h
          · simp [gErr] at h
          · rename_i hlen
            simp only [Except.ok.injEq] at h
            subst h
            obtain ⟨_, ha, ht⟩ := h4
            obtain ⟨a1, a2, a3, a4⟩ := ha
            have hp : PartOk2 N sh dim deduct p := ht.1
            refine ⟨rfl, rfl, rfl, stackInv2_replace ht ?_ (fun _ _ _ _ => trivial)
              (fun _ _ _ _ _ _ _ _ _ _ => trivial), hn⟩
            refine { hp with mapsLen := by simpa using hp.mapsLen, maps := ?_ }
            intro i l hi
            simp only at hi
            rw [List.getElem?_set] at hi
            split at hi
            · split at hi
              · simp only [Option.some.injEq] at hi
                subst hi
                rename_i hdi _
                subst hdi
                refine ⟨by simp only [List.length_reverse]; omega, ?_⟩
                intro x hx
                exact a4 x (by simpa using hx)
              · cases hi
            · exact hp.maps i l hi
        | _ => simp [closeTop, gErr] at h
    | attr name dd count acc =>
      cases rest with
      | nil => simp [closeTop, gErr] at h
      | cons g tl =>
        cases g with
        | part p =>
          simp only [closeTop] at h
          split at h
          · simp [gErr] at h
          · rename_i hlen
            simp only [Except.ok.injEq] at h
            subst h
            obtain ⟨_, ha, ht⟩ := h4
            obtain ⟨a1, a2, a3, a4, a5, a6⟩ := ha
            have hp : PartOk2 N sh dim deduct p := ht.1
            refine ⟨rfl, rfl, rfl, stackInv2_replace ht ?_ (fun _ _ _ _ => trivial)
              (fun _ _ _ _ _ _ _ _ _ _ => trivial), hn⟩
            refine { hp with attrs := ?_, attrsX := ?_, attrsSorted := mapInsert_sorted _ _ _ hp.attrsSorted }
            · intro na hna
              rcases mem_mapInsert _ _ _ _ _ hna with rfl | hna
              · refine ⟨a2, a3, by simp only [List.length_reverse]; omega, ?_⟩
                intro v hv
                exact a6 v (by simpa using hv)
              · exact hp.attrs na hna
            · intro na hna
              rcases mem_mapInsert _ _ _ _ _ hna with rfl | hna
              · refine ⟨a1, ?_⟩
                have : (2 : Nat) ^ 31 - 1 < 2 ^ 64 := by decide
                show dd < 2 ^ 64
                omega
              · exact hp.attrsX na hna
        | _ => simp [closeTop, gErr] at h
    | patch rank size ne read elems =>
      cases rest with
      | nil => simp [closeTop, gErr] at h
      | cons g tl =>
        cases g with
        | partition name prio level nr ne' patches hv =>
          simp only [closeTop] at h
          split at h
          · simp [gErr] at h
          · simp only [Except.ok.injEq] at h
            subst h
            obtain ⟨_, ha, ht⟩ := h4
            obtain ⟨a1, a2, a3⟩ := ha
            have hp : PtOk2 N name prio level nr ne' patches hv := ht.1
            refine ⟨rfl, rfl, rfl, stackInv2_replace ht ?_ (fun _ _ _ _ => trivial)
              (fun _ _ _ _ _ _ _ _ _ _ => trivial), hn⟩
            refine { hp with len := by simpa using hp.len, flagsLen := by simpa using hp.flagsLen, sorted := ?_ }
            intro el hel
            rcases List.mem_or_eq_of_mem_set hel with hel | rfl
            · exact hp.sorted el hel
            · have hcur := getD_sorted_bounded hp.sorted rank
              exact foldl_setInsert_ok ne' elems _ a3 hcur.1 hcur.2
        | _ => simp [closeTop, gErr] at h
    | part p =>
      simp only [closeTop] at h
      split at h
      · simp [gErr] at h
      · split at h
        · simp [gErr] at h
        · rename_i hc1 hc2
          simp only [Except.ok.injEq] at h
          subst h
          have hp : PartOk2 N sh dim deduct p := h4.1
          have hm : ∀ i, i < p.sizes.length → (p.maps.getD i none).isNone = true → p.sizes.getD i 0 = 0 := by
            intro i hi hnone
            rcases Nat.eq_zero_or_pos (p.sizes.getD i 0) with h0 | h0
            · exact h0
            · exfalso
              apply hc1
              simp only [List.any_eq_true]
              exact ⟨i, List.mem_range.2 hi, by rw [hnone, decide_eq_true h0]; rfl⟩
          have ht : p.topoType = .full → ∀ i, i < p.topo.length → (p.topo.getD i none).isNone = true →
              p.sizes.getD (i + 1) 0 = 0 := by
            intro hfull i hi hnone
            rcases Nat.eq_zero_or_pos (p.sizes.getD (i + 1) 0) with h0 | h0
            · exact h0
            · exfalso
              apply hc2
              simp only [Bool.and_eq_true, List.any_eq_true]
              exact ⟨by simp [hfull], i, List.mem_range.2 hi, by rw [hnone, decide_eq_true h0]; exact ⟨rfl, rfl⟩⟩
          obtain ⟨hw1, hw2, hw3⟩ := hp.close hm ht
          have hnpar : p.name ∉ deduct → p.topoType ≠ .parent := fun hni hq => hni (hp.parentIn hq)
          refine ⟨rfl, rfl, rfl, stackInv2_tail h4,
            { hn with parts := ?_, partsChart := ?_, partsZB := ?_, partsSorted := ?_ }⟩
          · intro np hnp
            rcases mem_mapInsert _ _ _ _ _ hnp with rfl | hnp
            · exact ⟨hw1.mono hnpar, hw2⟩
            · exact hn.parts np hnp
          · intro np hnp
            rcases mem_mapInsert _ _ _ _ _ hnp with rfl | hnp
            · rfl
            · exact hn.partsChart np hnp
          · intro np hnp
            rcases mem_mapInsert _ _ _ _ _ hnp with rfl | hnp
            · exact hw3
            · exact hn.partsZB np hnp
          · exact mapInsert_sorted _ _ _ hn.partsSorted
    | partition name prio level nr ne patches hv =>
      simp only [closeTop] at h
      split at h
      · simp [gErr] at h
      · split at h
        · simp [gErr] at h
        · rename_i _ hsum
          simp only [Except.ok.injEq] at h
          subst h
          have hp : PtOk2 N name prio level nr ne patches hv := h4.1
          refine ⟨rfl, rfl, rfl, stackInv2_tail h4, { hn with partitions := ?_ }⟩
          intro q hq
          simp only [List.mem_append, List.mem_singleton] at hq
          rcases hq with hq | rfl
          · exact hn.partitions q hq
          · exact ⟨⟨hp.len, hp.sorted, by simpa using hsum⟩, hp.nameN, hp.prio, hp.level, hp.nr31, hp.ne31⟩

/-! ### `openM` -/

theorem prio_ok {o : Option Str} {line : Nat} {prio : Int}
    (h : (match o with
      | none => (.ok 0 : Except Err Int)
      | some p => match readInt p with
        | none => cErr line
        | some v => .ok v) = .ok prio) : -(2 ^ 31 : Int) ≤ prio ∧ prio < 2 ^ 31 := by
  split at h
  · cases h; omega
  · split at h
    · simp [cErr] at h
    · rename_i hv
      cases h
      exact readInt_range hv

theorem level_ok {o : Option Str} {line : Nat} {level : Int}
    (h : (match o with
      | none => (.ok 0 : Except Err Int)
      | some p => match readInt p with
        | none => cErr line
        | some v => if v < 0 then cErr line else .ok v) = .ok level) : 0 ≤ level ∧ level < 2 ^ 31 := by
  split at h
  · cases h; omega
  · split at h
    · simp [cErr] at h
    · rename_i hv
      split at h
      · simp [cErr] at h
      · cases h
        have := readInt_range hv
        omega

theorem partitionCreate_ok2 {line : Nat} {m : Markup} {f : Frame}
    (h : partitionCreate line m = .ok f) :
    ∃ prio level nr ne, f = Frame.partition ((attrOf m "name").getD []) prio level nr ne (List.replicate nr [])
        (List.replicate nr false) ∧
      (-(2 ^ 31 : Int) ≤ prio ∧ prio < 2 ^ 31) ∧ (0 ≤ level ∧ level < 2 ^ 31) ∧ nr < 2 ^ 31 ∧ ne < 2 ^ 31 := by
  unfold partitionCreate at h
  split at h
  · simp [gErr] at h
  · split at h
    · split at h
      · rename_i nr ne hnr hne
        split at h
        · simp [cErr] at h
        · simp only at h
          split at h
          · cases h
          · rename_i prio hprio
            split at h
            · cases h
            · rename_i level hlevel
              simp only [Except.ok.injEq] at h
              have h1 := readInt_range hnr
              have h2 := readInt_range hne
              exact ⟨prio, level, nr.toNat, ne.toNat, h.symm, prio_ok hprio, level_ok hlevel, by omega, by omega⟩
      · simp [cErr] at h
    · simp [cErr] at h

theorem partCreate_ok2 {st : St} {line : Nat} {m : Markup} {p : PartSt} {links : List (Str × Str)}
    {deduct : List Str} (h : partCreate st line m = .ok (p, links, deduct)) :
    m.closed = false ∧ attrOf m "name" = some p.name ∧ p.sizes.length = st.dim + 1 ∧
      (∀ s ∈ p.sizes, s < 2 ^ 64) ∧ p.maps = List.replicate (st.dim + 1) none ∧
      p.topo = List.replicate st.dim none ∧ p.attrs = [] ∧
      deduct = (if p.topoType == .parent then st.deduct ++ [p.name] else st.deduct) ∧
      (p.topoType ≠ .none → zeroBelow p.sizes = false) := by
  unfold partCreate at h
  split at h
  · simp [gErr] at h
  · rename_i hclosed
    split at h
    · rename_i name parent sz topo hname _ _ _
      split at h
      · simp [cErr] at h
      · simp only at h
        split at h
        · simp [cErr] at h
        · split at h
          · simp [cErr] at h
          · rename_i tt htt
            split at h
            · simp [cErr] at h
            · rename_i hlen
              split at h
              · simp [cErr] at h
              · rename_i given hgiven
                split at h
                · simp [cErr] at h
                · rename_i hzb
                  simp only [Except.ok.injEq, Prod.mk.injEq] at h
                  obtain ⟨rfl, _, rfl⟩ := h
                  have hgl := mapMOpt_length _ _ _ hgiven
                  refine ⟨by simpa using hclosed, hname, ?_, ?_, rfl, rfl, rfl, rfl, ?_⟩
                  · simp only [List.length_append, List.length_replicate]
                    simp at hlen
                    omega
                  · intro s hs
                    simp only [List.mem_append, List.mem_replicate] at hs
                    rcases hs with hs | ⟨_, rfl⟩
                    · exact mapMOpt_readIndex_lt hgiven s hs
                    · exact Nat.two_pow_pos 64
                  · intro hne
                    simp only at hne
                    have hb : (tt != TopoType.none) = true := by cases tt <;> simp_all
                    simpa [hb] using hzb
    · simp [gErr] at h

theorem meshCreate_ok2 {st : St} {line : Nat} {m : Markup} {f : Frame}
    (h : meshCreate st line m = .ok f) :
    ∃ sizes, ((∀ s ∈ sizes, s < 2 ^ 64) ∧ zeroBelow sizes = false) ∧
      f = Frame.mesh sizes none (List.replicate st.dim none) := by
  unfold meshCreate at h
  repeat' split at h
  all_goals first | (simp [cErr, gErr] at h; done) | skip
  simp only at h
  split at h
  · simp [cErr] at h
  · split at h
    · simp [cErr] at h
    · rename_i hl _ sizes hs
      split at h
      · simp [cErr] at h
      · rename_i hzb
        simp only [Except.ok.injEq] at h
        exact ⟨sizes, ⟨mapMOpt_readIndex_lt hs, by simpa using hzb⟩, h.symm⟩

theorem PartOk2.mono {N : Str → Prop} {sh : Shape} {dim : Nat} {ded ded' : List Str} {p : PartSt}
    (hsub : ∀ x ∈ ded, x ∈ ded') (h : PartOk2 N sh dim ded p) : PartOk2 N sh dim ded' p :=
  { h with parentIn := fun hq => hsub _ (h.parentIn hq) }

theorem frameOk2_mono {N : Str → Prop} {sh : Shape} {dim : Nat} {ded ded' : List Str}
    (hsub : ∀ x ∈ ded, x ∈ ded') : ∀ f : Frame, frameOk2 N sh dim ded f → frameOk2 N sh dim ded' f := by
  intro f h
  cases f <;> first | exact h | exact PartOk2.mono hsub h

theorem stackInv2_mono {N : Str → Prop} {sh : Shape} {dim : Nat} {ded ded' : List Str}
    (hsub : ∀ x ∈ ded, x ∈ ded') : ∀ {stack : List Frame}, stackInv2 N sh dim ded stack → stackInv2 N sh dim ded' stack
  | [], _ => trivial
  | _ :: _, h => ⟨frameOk2_mono hsub _ h.1, h.2.1, stackInv2_mono hsub h.2.2⟩

theorem NodeOk2.mono {N : Str → Prop} {sh : Shape} {dim : Nat} {ded ded' : List Str} {n : Node}
    (h : NodeOk2 N sh dim ded n) (hsub : ∀ x ∈ ded, x ∈ ded') : NodeOk2 N sh dim ded' n :=
  { h with
    parts := fun np hnp => ⟨(h.parts np hnp).1.mono (fun hni hx => hni (hsub _ hx)), (h.parts np hnp).2⟩
    partsZB := h.partsZB }

theorem push_open {N : Str → Prop} {sh : Shape} {dim : Nat} {st1 st' : St} {line : Nat} {c : Bool}
    {shape : Shape} {d : Nat} {deduct : List Str}
    (h : (if c = true then closeTop st1 line else .ok st1) = .ok st')
    (hG1 : Good2 N sh dim st1.deduct st1.stack st1.node) (h1 : st1.shape = shape) (h2 : st1.dim = d)
    (_h3 : st1.deduct = deduct) :
    st'.shape = shape ∧ st'.dim = d ∧ Good2 N sh dim st'.deduct st'.stack st'.node := by
  split at h
  · obtain ⟨a1, a2, a3, a4⟩ := closeTop_step hG1 h
    exact ⟨a1.trans h1, a2.trans h2, a4⟩
  · simp only [Except.ok.injEq] at h
    subst h
    exact ⟨h1, h2, hG1⟩

theorem push_open_ok {N : Str → Prop} {sh : Shape} {dim : Nat} {st1 st' : St}
    {shape : Shape} {d : Nat} {deduct : List Str}
    (h : (Except.ok st1 : Except Err St) = .ok st')
    (hG1 : Good2 N sh dim st1.deduct st1.stack st1.node) (h1 : st1.shape = shape) (h2 : st1.dim = d)
    (_h3 : st1.deduct = deduct) :
    st'.shape = shape ∧ st'.dim = d ∧ Good2 N sh dim st'.deduct st'.stack st'.node := by
  simp only [Except.ok.injEq] at h
  subst h
  exact ⟨h1, h2, hG1⟩

theorem openM_step {N : Str → Prop} {sh : Shape} {dim : Nat} {st st' : St} {line : Nat} {m : Markup}
    (hs : st.shape = sh) (hd : st.dim = dim) (hG : Good2 N sh dim st.deduct st.stack st.node)
    (hN0 : N []) (hNm : ∀ k v, attrOf m k = some v → N v)
    (h : openM st line m = .ok st') :
    st'.shape = st.shape ∧ st'.dim = st.dim ∧ Good2 N sh dim st'.deduct st'.stack st'.node := by
  obtain ⟨shape, d, wd, stack, node, links, deduct, unm⟩ := st
  obtain ⟨h4, hn⟩ := hG
  simp only at hs hd h4 hn ⊢
  subst hs hd
  cases stack with
  | nil => simp [openM, gErr] at h
  | cons f rest =>
    cases f with
    | verts _ _ => simp [openM, gErr] at h
    | topo _ _ _ _ _ => simp [openM, gErr] at h
    | mapping _ _ _ => simp [openM, gErr] at h
    | attr _ _ _ _ => simp [openM, gErr] at h
    | patch _ _ _ _ _ => simp [openM, gErr] at h
    | dummy =>
      simp only [openM] at h
      exact push_open h ⟨stackInv2_push h4 trivial (fun _ _ hh => by cases hh)
        (fun _ _ _ _ _ _ _ _ hh => by cases hh), hn⟩ rfl rfl rfl
    | root =>
      simp only [openM] at h
      have hpush : ∀ f, frameOk2 N shape d deduct f → stackInv2 N shape d deduct (f :: Frame.root :: rest) :=
        fun f hf => stackInv2_push h4 hf (fun _ _ hh => by cases hh) (fun _ _ _ _ _ _ _ _ hh => by cases hh)
      split at h
      · exact push_open h ⟨hpush _ trivial, hn⟩ rfl rfl rfl
      · split at h
        · split at h
          · cases h
          · split at h
            · simp [gErr] at h
            · split at h
              · simp [gErr] at h
              · split at h
                · simp [gErr] at h
                · split at h
                  · simp [cErr] at h
                  · exact push_open_ok h ⟨hpush _ trivial, hn⟩ rfl rfl rfl
        · split at h
          · split at h
            · simp [gErr] at h
            · split at h
              · cases h
              · split at h
                · simp [gErr] at h
                · split at h
                  · cases h
                  · rename_i f hf
                    obtain ⟨sizes, h64, rfl⟩ := meshCreate_ok2 hf
                    exact push_open_ok h ⟨hpush _ h64, hn⟩ rfl rfl rfl
          · split at h
            · split at h
              · cases h
              · split at h
                · cases h
                · rename_i p links' deduct' hp
                  obtain ⟨hcl, hname, hsl, h64, hmaps, htopo, hattrs, hded, hzb⟩ := partCreate_ok2 hp
                  rw [hcl] at h
                  simp only [Bool.false_eq_true, if_false, Except.ok.injEq] at h
                  subst h
                  refine ⟨rfl, rfl, ?_⟩
                  have hsub : ∀ x ∈ deduct, x ∈ deduct' := by
                    intro x hx
                    rw [hded]
                    split
                    · exact List.mem_append_left _ hx
                    · exact hx
                  have hpar : p.topoType = .parent → p.name ∈ deduct' := by
                    intro hq
                    rw [hded, hq]
                    simp
                  show Good2 N shape d deduct' (Frame.part p :: Frame.root :: rest) node
                  refine ⟨stackInv2_push (stackInv2_mono hsub h4) ?_ (fun _ _ hh => by cases hh)
                    (fun _ _ _ _ _ _ _ _ hh => by cases hh), hn.mono hsub⟩
                  · exact {
                      sizesLen := hsl
                      mapsLen := by rw [hmaps]; simp
                      topoLen := by rw [htopo]; simp
                      parentIn := hpar
                      maps := by
                        rw [hmaps]; intro i l hil
                        rw [List.getElem?_replicate] at hil
                        split at hil <;> simp at hil
                      topo := by
                        rw [htopo]; intro i l hil
                        rw [List.getElem?_replicate] at hil
                        split at hil <;> simp at hil
                      noTopo := by
                        intro _ o ho; rw [htopo] at ho; exact (List.mem_replicate.1 ho).2
                      attrs := by rw [hattrs]; intro na hna; cases hna
                      sizes64 := h64
                      nameN := hNm _ _ hname
                      attrsX := by rw [hattrs]; intro na hna; cases hna
                      attrsSorted := by rw [hattrs]; exact List.Pairwise.nil
                      zb := hzb }
            · split at h
              · split at h
                · cases h
                · split at h
                  · cases h
                  · rename_i f hf
                    obtain ⟨prio, level, nr, ne, rfl, h1, h2, h3, h5⟩ := partitionCreate_ok2 hf
                    refine push_open h ⟨hpush _ ?_, hn⟩ rfl rfl rfl
                    exact {
                      len := List.length_replicate
                      flagsLen := List.length_replicate
                      sorted := by intro el hel; rw [(List.mem_replicate.1 hel).2]; simp
                      nameN := by
                        cases hnm : attrOf m "name" with
                        | none => exact hN0
                        | some v => exact hNm _ _ hnm
                      prio := h1
                      level := h2
                      nr31 := h3
                      ne31 := h5 }
              · simp [gErr] at h
    | chartItem => simp [openM, gErr] at h
    | bezierPoints _ _ _ => simp [openM, gErr] at h
    | bezierParams _ _ _ => simp [openM, gErr] at h
    | bezier sz cl o segs params =>
      have hpush : ∀ f, frameOk2 N shape d deduct f →
          stackInv2 N shape d deduct (f :: Frame.bezier sz cl o segs params :: rest) :=
        fun f hf => stackInv2_push h4 hf (fun _ _ hh => by cases hh) (fun _ _ _ _ _ _ _ _ hh => by cases hh)
      simp only [openM] at h
      repeat' split at h
      all_goals first
        | (simp [gErr] at h; done)
        | (cases h; done)
        | exact push_open_ok h ⟨hpush _ trivial, hn⟩ rfl rfl rfl
        | exact push_open h ⟨hpush _ trivial, hn⟩ rfl rfl rfl
    | chart name c =>
      have hrep : ∀ c', stackInv2 N shape d deduct (Frame.chart name c' :: rest) := fun c' =>
        stackInv2_replace h4 trivial (fun _ _ _ _ => trivial) (fun _ _ _ _ _ _ _ _ _ _ => trivial)
      have hpush : ∀ c' f, frameOk2 N shape d deduct f →
          stackInv2 N shape d deduct (f :: Frame.chart name c' :: rest) :=
        fun c' f hf => stackInv2_push (hrep c') hf (fun _ _ hh => by cases hh)
          (fun _ _ _ _ _ _ _ _ hh => by cases hh)
      simp only [openM] at h
      repeat' split at h
      all_goals first
        | (simp [gErr] at h; done)
        | (cases h; done)
        | (simp only [Except.ok.injEq] at h; subst h; exact ⟨rfl, rfl, hrep _, hn⟩)
        | (simp only [Except.ok.injEq] at h; subst h; exact ⟨rfl, rfl, hpush _ _ trivial, hn⟩)
        | exact push_open h ⟨hpush _ _ trivial, hn⟩ rfl rfl rfl
        | (obtain ⟨a1, a2, _, a4⟩ := closeTop_step (N := N) (sh := shape) (dim := d) ⟨hpush _ Frame.dummy trivial, hn⟩ h
           exact ⟨a1, a2, a4⟩)
    | mesh sizes v topo =>
      simp only [openM] at h
      have hpush : ∀ f, frameOk2 N shape d deduct f → stackInv2 N shape d deduct (f :: Frame.mesh sizes v topo :: rest) :=
        fun f hf => stackInv2_push h4 hf (fun _ _ hh => by cases hh) (fun _ _ _ _ _ _ _ _ hh => by cases hh)
      split at h
      · split at h
        · simp [gErr] at h
        · split at h
          · cases h
          · split at h
            · simp [gErr] at h
            · exact push_open_ok h ⟨hpush _ trivial, hn⟩ rfl rfl rfl
      · split at h
        · split at h
          · cases h
          · split at h
            · cases h
            · rename_i f hf
              obtain ⟨_, dd, _, _, rfl⟩ := topoCreate_ok hf
              exact push_open h ⟨hpush _ trivial, hn⟩ rfl rfl rfl
        · simp [gErr] at h
    | part p =>
      have hp : PartOk2 N shape d deduct p := h4.1
      have hpush : ∀ f, frameOk2 N shape d deduct f → childOkP N shape d p f →
          stackInv2 N shape d deduct (f :: Frame.part p :: rest) :=
        fun f hf hc => stackInv2_push h4 hf (fun _ _ hh => by cases hh; exact hc)
          (fun _ _ _ _ _ _ _ _ hh => by cases hh)
      simp only [openM] at h
      split at h
      · split at h
        · cases h
        · split at h
          · simp [gErr] at h
          · split at h
            · simp [gErr] at h
            · split at h
              · simp [cErr] at h
              · rename_i dd hdd
                split at h
                · simp [cErr] at h
                · rename_i hlt
                  split at h
                  · simp [cErr] at h
                  · exact push_open_ok h ⟨hpush _ trivial
                      ⟨by have := hp.mapsLen; simp at hlt; omega, rfl, Nat.zero_le _, fun _ hi => by cases hi⟩,
                      hn⟩ rfl rfl rfl
      · split at h
        · split at h
          · simp [cErr] at h
          · rename_i htt
            split at h
            · cases h
            · split at h
              · cases h
              · rename_i f hf
                obtain ⟨_, dd, hd1, hd2, rfl⟩ := topoCreate_ok hf
                exact push_open h ⟨hpush _ trivial
                  ⟨by simpa using htt, hd1, by have := hp.topoLen; omega, rfl, rfl, rfl, Nat.zero_le _,
                    fun _ hi => by cases hi⟩, hn⟩ rfl rfl rfl
        · split at h
          · split at h
            · cases h
            · split at h
              · simp [gErr] at h
              · split at h
                · rename_i ds name hds hname
                  split at h
                  · simp [cErr] at h
                  · rename_i dd hdd
                    split at h
                    · simp [cErr] at h
                    · rename_i hne
                      exact push_open_ok h ⟨hpush _ trivial
                        ⟨hNm _ _ hname, by simp at hne; omega, by simp at hne; omega, rfl, Nat.zero_le _,
                          fun _ hi => by cases hi⟩, hn⟩ rfl rfl rfl
                · simp [gErr] at h
          · simp [gErr] at h
    | partition name prio level nr ne patches hv =>
      simp only [openM] at h
      split at h
      · split at h
        · cases h
        · split at h
          · rename_i rs ss hrs hss
            split at h
            · simp [cErr] at h
            · split at h
              · simp [cErr] at h
              · split at h
                · simp [cErr] at h
                · rename_i hr
                  split at h
                  · simp [cErr] at h
                  · exact push_open h ⟨stackInv2_push h4 trivial (fun _ _ hh => by cases hh)
                      (fun _ _ _ _ _ _ _ _ hh => by
                        cases hh; exact ⟨by omega, rfl, fun _ he => by cases he⟩), hn⟩ rfl rfl rfl
          · simp [gErr] at h
      · simp [gErr] at h

/-! ### frame conditions: shape, dimension and the deduction list -/

theorem contentM_frame {st st' : St} {line : Nat} {s : Str} (h : contentM st line s = .ok st') :
    st'.shape = st.shape ∧ st'.dim = st.dim ∧ st'.deduct = st.deduct := by
  unfold contentM at h
  repeat' (first | split at h | (simp only at h; split at h))
  all_goals first
    | (simp [cErr] at h; done)
    | (simp [gErr] at h; done)
    | (simp only [Except.ok.injEq] at h; subst h; exact ⟨rfl, rfl, rfl⟩)

theorem closeTop_frame {st st' : St} {line : Nat} (h : closeTop st line = .ok st') :
    st'.shape = st.shape ∧ st'.dim = st.dim ∧ st'.deduct = st.deduct := by
  unfold closeTop at h
  repeat' (first | split at h | (simp only at h; split at h))
  all_goals first
    | (simp [gErr] at h; done)
    | (simp only [Except.ok.injEq] at h; subst h; exact ⟨rfl, rfl, rfl⟩)

/-! ### preservation of `Inv2`, the scanner loop -/

theorem contentM_inv2 {N : Str → Prop} {sh : Shape} {dim : Nat} {st st' : St} {line : Nat} {s : Str}
    (hI : Inv2 N sh dim st) (h : contentM st line s = .ok st') : Inv2 N sh dim st' := by
  obtain ⟨h1, h2, h3⟩ := hI
  obtain ⟨f1, f2, _, f4⟩ := contentM_step h3 h
  exact ⟨f1.trans h1, f2.trans h2, f4⟩

theorem closeTop_inv2 {N : Str → Prop} {sh : Shape} {dim : Nat} {st st' : St} {line : Nat}
    (hI : Inv2 N sh dim st) (h : closeTop st line = .ok st') : Inv2 N sh dim st' := by
  obtain ⟨h1, h2, h3⟩ := hI
  obtain ⟨f1, f2, _, f4⟩ := closeTop_step h3 h
  exact ⟨f1.trans h1, f2.trans h2, f4⟩

theorem openM_inv2 {N : Str → Prop} {sh : Shape} {dim : Nat} {st st' : St} {line : Nat} {m : Markup}
    (hN0 : N []) (hNm : ∀ k v, attrOf m k = some v → N v)
    (hI : Inv2 N sh dim st) (h : openM st line m = .ok st') : Inv2 N sh dim st' := by
  obtain ⟨h1, h2, h3⟩ := hI
  obtain ⟨f1, f2, f4⟩ := openM_step h1 h2 h3 hN0 hNm h
  exact ⟨f1.trans h1, f2.trans h2, f4⟩

/-- `N` holds for every attribute value of every markup line the scanner can produce from `lines` -/
def LinesN (N : Str → Prop) (lines : List Str) : Prop :=
  ∀ raw ∈ lines, ∀ m, scanMarkup (trim raw) = .ok (some m) → ∀ k v, attrOf m k = some v → N v

theorem scanLoop_inv2 {N : Str → Prop} {sh : Shape} {dim : Nat} (hN0 : N []) (lines : List Str) :
    LinesN N lines → ∀ (iline : Nat) (names : List Str) (st st' : St),
      Inv2 N sh dim st → scanLoop meshClient lines iline names st = .ok st' → Inv2 N sh dim st' := by
  induction lines with
  | nil =>
    intro _ iline names st st' _ h
    unfold scanLoop at h
    split at h <;> cases h
  | cons raw rest ih =>
    intro hN iline names st st' hI h
    have hN' : LinesN N rest := fun r hr => hN r (List.mem_cons_of_mem _ hr)
    have hNr := hN raw (List.mem_cons_self ..)
    unfold scanLoop at h
    simp only at h
    repeat' split at h
    all_goals first
      | (cases h; done)
      | exact ih hN' _ _ _ _ hI h
      | exact ih hN' _ _ _ _ (contentM_inv2 hI (by assumption)) h
      | exact ih hN' _ _ _ _ (closeTop_inv2 hI (by assumption)) h
      | exact ih hN' _ _ _ _ (openM_inv2 hN0 (hNr _ (by assumption)) hI (by assumption)) h
      | (simp only [Except.ok.injEq] at h; subst h; exact closeTop_inv2 hI (by assumption))

theorem Inv2_init (N : Str → Prop) (sh : Shape) (dim wdim : Nat) :
    Inv2 N sh dim { shape := sh, dim := dim, wdim := wdim, stack := [Frame.root],
                    node := { mesh := none, parts := [], partitions := [], wdim := wdim },
                    links := [], deduct := [], unmodelled := false } := by
  refine ⟨rfl, rfl, ⟨trivial, trivial, trivial⟩, ?_⟩
  exact { mesh64 := fun _ hm => by cases hm
          meshZB := fun _ hm => by cases hm
          parts := fun _ hp => by cases hp
          partsChart := fun _ hp => by cases hp
          partsZB := fun _ hp => by cases hp
          partsSorted := List.Pairwise.nil
          partitions := fun _ hp => by cases hp }

/-! ### the linker: `resolveLinks`, `deductTopo`, `resolveDeduct` -/

theorem strLt_irrefl (a : Str) : strLt a a = false := by
  cases h : strLt a a with
  | false => rfl
  | true => have := RT2.strLt_asymm a a h; rw [h] at this; cases this

theorem strLt_total : ∀ (a b : Str), strLt a b = false → strLt b a = false → a = b
  | [], [], _, _ => rfl
  | [], _ :: _, h, _ => by simp [strLt] at h
  | _ :: _, [], _, h => by simp [strLt] at h
  | a :: as, b :: bs, h1, h2 => by
    simp only [strLt] at h1 h2
    by_cases hab : a.toNat < b.toNat
    · simp [hab] at h1
    · by_cases hba : b.toNat < a.toNat
      · simp [hba] at h2
      · simp only [hab, hba, if_false] at h1 h2
        have e := congrArg Char.ofNat (show a.toNat = b.toNat by omega)
        rw [Char.ofNat_toNat, Char.ofNat_toNat] at e
        rw [e, strLt_total as bs h1 h2]

theorem sorted_unique {α : Type} : ∀ (l : List (Str × α)), l.Pairwise (fun a b => strLt a.1 b.1 = true) →
    ∀ x ∈ l, ∀ y ∈ l, x.1 = y.1 → x = y
  | [], _, x, hx, _, _, _ => by cases hx
  | a :: t, h, x, hx, y, hy, hxy => by
    rw [List.pairwise_cons] at h
    simp only [List.mem_cons] at hx hy
    rcases hx with rfl | hx <;> rcases hy with rfl | hy
    · rfl
    · have := h.1 y hy
      rw [hxy, strLt_irrefl] at this
      cases this
    · have := h.1 x hx
      rw [← hxy, strLt_irrefl] at this
      cases this
    · exact sorted_unique t h.2 x hx y hy hxy

theorem mapFind_mem_key {α : Type} (k : Str) : ∀ (l : List (Str × α)) (v : α),
    mapFind strLt k l = some v → (k, v) ∈ l
  | [], v, h => by simp [mapFind] at h
  | (k', v') :: rest, v, h => by
    unfold mapFind at h
    split at h
    · rename_i hc
      simp only [Bool.and_eq_true, Bool.not_eq_true'] at hc
      have := strLt_total k k' hc.1 hc.2
      subst this
      cases h
      simp
    · exact List.mem_cons_of_mem _ (mapFind_mem_key k rest v h)

/-! ### third invariant: the linker's deduction list only names parts that have (or will get) a topology -/

theorem mem_mapInsert_of_mem {α : Type} (k : Str) (v : α) :
    ∀ (l : List (Str × α)) (x : Str × α), x ∈ l → x ∈ mapInsert strLt k v l
  | [], x, h => by cases h
  | (k', v') :: rest, x, h => by
    simp only [mapInsert]
    split
    · exact List.mem_cons_of_mem _ h
    · split
      · simp only [List.mem_cons] at h ⊢
        rcases h with h | h
        · exact Or.inl h
        · exact Or.inr (mem_mapInsert_of_mem k v rest x h)
      · exact h

theorem mapInsert_has_key {α : Type} (k : Str) (v : α) :
    ∀ (l : List (Str × α)), ∃ x ∈ mapInsert strLt k v l, x.1 = k
  | [] => ⟨(k, v), by simp [mapInsert], rfl⟩
  | (k', v') :: rest => by
    simp only [mapInsert]
    split
    · exact ⟨(k, v), by simp, rfl⟩
    · split
      · obtain ⟨x, hx, e⟩ := mapInsert_has_key k v rest
        exact ⟨x, List.mem_cons_of_mem _ hx, e⟩
      · rename_i h1 h2
        refine ⟨(k', v'), by simp, ?_⟩
        exact (strLt_total k k' (by simpa using h1) (by simpa using h2)).symm

theorem mapFind_none_key {α : Type} (k : Str) : ∀ (l : List (Str × α)),
    mapFind strLt k l = none → ∀ x ∈ l, x.1 ≠ k
  | [], _, x, hx => by cases hx
  | (k', v') :: rest, h, x, hx => by
    unfold mapFind at h
    split at h
    · cases h
    · rename_i hc
      simp only [List.mem_cons] at hx
      rcases hx with rfl | hx
      · intro e
        apply hc
        simp only at e
        subst e
        simp [strLt_irrefl]
      · exact mapFind_none_key k rest h x hx

/-- name and topology type of the open `<MeshPart>` frame, if there is one -/
def openPart : List Frame → Option (Str × TopoType)
  | [] => none
  | Frame.root :: _ => none
  | Frame.part p :: _ => some (p.name, p.topoType)
  | _ :: rest => openPart rest

/-- the root frame is the bottom of the stack and a `<MeshPart>` frame sits directly on it: no two part frames
    are open at once -/
def rootBottom : List Frame → Prop
  | [] => True
  | Frame.root :: rest => rest = []
  | Frame.part _ :: rest => rest = [Frame.root]
  | _ :: rest => rootBottom rest

/-- the deduction list `ded` against the finished parts and the open part frame `o` -/
structure DedOk (parts : List (Str × Part)) (ded : List Str) (o : Option (Str × TopoType)) : Prop where
  has : ∀ np ∈ parts, np.1 ∈ ded → np.2.hasTopo = true
  src : ∀ x ∈ ded, (∃ np ∈ parts, np.1 = x) ∨ ∃ t, o = some (x, t)
  opn : ∀ x, o = some (x, TopoType.none) → x ∉ ded

def Inv3 (st : St) : Prop := rootBottom st.stack ∧ DedOk st.node.parts st.deduct (openPart st.stack)

theorem Inv3_of {st st' : St} (h : Inv3 st) (hs : rootBottom st'.stack) (ho : openPart st'.stack = openPart st.stack)
    (hp : st'.node.parts = st.node.parts) (hd : st'.deduct = st.deduct) : Inv3 st' := by
  unfold Inv3
  rw [ho, hp, hd]
  exact ⟨hs, h.2⟩

theorem contentM_inv3 {st st' : St} {line : Nat} {s : Str} (hI : Inv3 st) (h : contentM st line s = .ok st') :
    Inv3 st' := by
  obtain ⟨shape, d, wd, stack, node, links, deduct, unm⟩ := st
  unfold contentM at h
  repeat' (first | split at h | (simp only at h; split at h))
  all_goals first
    | (simp [cErr] at h; done)
    | (simp [gErr] at h; done)
    | (simp only [Except.ok.injEq] at h; subst h; simp only [Inv3] at hI ⊢; simp_all [rootBottom, openPart]; done)

theorem closePart_inv3 {shape : Shape} {d wd : Nat} {p : PartSt} {rest : List Frame} {node : Node}
    {links : List (Str × Str)} {deduct : List Str} {unm : Bool} {part : Part}
    (hpt : part.hasTopo = (p.topoType != .none))
    (hI : Inv3 ⟨shape, d, wd, Frame.part p :: rest, node, links, deduct, unm⟩) :
    Inv3 ⟨shape, d, wd, rest, { node with parts := mapInsert strLt p.name part node.parts }, links, deduct, unm⟩ := by
  obtain ⟨hr, hd⟩ := hI
  simp only [rootBottom] at hr
  subst hr
  simp only [openPart] at hd
  refine ⟨rfl, ?_, ?_, ?_⟩
  · intro np hnp hin
    rcases mem_mapInsert _ _ _ _ _ hnp with rfl | hnp
    · simp only [hpt]
      cases hq : p.topoType with
      | none => exact absurd hin (hd.opn p.name (by rw [hq]))
      | full => rfl
      | parent => rfl
    · exact hd.has np hnp hin
  · intro x hx
    left
    rcases hd.src x hx with ⟨np, hnp, e⟩ | ⟨t, e⟩
    · exact ⟨np, mem_mapInsert_of_mem _ _ _ _ hnp, e⟩
    · simp only [Option.some.injEq, Prod.mk.injEq] at e
      obtain ⟨x', hx', e'⟩ := mapInsert_has_key p.name part node.parts
      exact ⟨x', hx', e'.trans e.1⟩
  · intro x hx
    simp [openPart] at hx

theorem closeTop_inv3 {st st' : St} {line : Nat} (hI : Inv3 st) (h : closeTop st line = .ok st') : Inv3 st' := by
  obtain ⟨shape, d, wd, stack, node, links, deduct, unm⟩ := st
  unfold closeTop at h
  repeat' (first | split at h | (simp only at h; split at h))
  all_goals first
    | (simp [gErr] at h; done)
    | (simp only [Except.ok.injEq] at h; subst h; simp only [Inv3] at hI ⊢; simp_all [rootBottom, openPart]; done)
    | (simp only [Except.ok.injEq] at h; subst h; subst_vars; exact closePart_inv3 rfl hI)

theorem push_inv3 {st1 st' : St} {line : Nat} {c : Bool} (hI : Inv3 st1)
    (h : (if c = true then closeTop st1 line else .ok st1) = .ok st') : Inv3 st' := by
  split at h
  · exact closeTop_inv3 hI h
  · simp only [Except.ok.injEq] at h
    subst h
    exact hI

theorem openM_inv3 {st st' : St} {line : Nat} {m : Markup} (hI : Inv3 st) (h : openM st line m = .ok st') :
    Inv3 st' := by
  obtain ⟨shape, d, wd, stack, node, links, deduct, unm⟩ := st
  cases stack with
  | nil => simp [openM, gErr] at h
  | cons f rest =>
    cases f with
    | verts _ _ => simp [openM, gErr] at h
    | topo _ _ _ _ _ => simp [openM, gErr] at h
    | mapping _ _ _ => simp [openM, gErr] at h
    | attr _ _ _ _ => simp [openM, gErr] at h
    | patch _ _ _ _ _ => simp [openM, gErr] at h
    | chartItem => simp [openM, gErr] at h
    | bezierPoints _ _ _ => simp [openM, gErr] at h
    | bezierParams _ _ _ => simp [openM, gErr] at h
    | bezier sz cl o segs params =>
      have hr : rootBottom rest := by simpa [Inv3, rootBottom] using hI.1
      simp only [openM] at h
      repeat' split at h
      all_goals first
        | (simp [gErr] at h; done)
        | (cases h; done)
        | (first | (refine push_inv3 ?_ h; exact Inv3_of hI (by simpa [rootBottom] using hr) (by simp [openPart]) rfl rfl) | (simp only [Except.ok.injEq] at h; subst h; exact Inv3_of hI (by simpa [rootBottom] using hr) (by simp [openPart]) rfl rfl) | (refine closeTop_inv3 ?_ h; exact Inv3_of hI (by simpa [rootBottom] using hr) (by simp [openPart]) rfl rfl))
    | dummy =>
      simp only [openM] at h
      (first | (refine push_inv3 ?_ h; exact Inv3_of hI (by simpa [Inv3, rootBottom] using hI.1) (by simp [openPart]) rfl rfl) | (simp only [Except.ok.injEq] at h; subst h; exact Inv3_of hI (by simpa [Inv3, rootBottom] using hI.1) (by simp [openPart]) rfl rfl) | (refine closeTop_inv3 ?_ h; exact Inv3_of hI (by simpa [Inv3, rootBottom] using hI.1) (by simp [openPart]) rfl rfl))
    | root =>
      have hrest : rest = [] := by simpa [Inv3, rootBottom] using hI.1
      subst hrest
      simp only [openM] at h
      split at h
      · (first | (refine push_inv3 ?_ h; exact Inv3_of hI (by simp [rootBottom]) (by simp [openPart]) rfl rfl) | (simp only [Except.ok.injEq] at h; subst h; exact Inv3_of hI (by simp [rootBottom]) (by simp [openPart]) rfl rfl) | (refine closeTop_inv3 ?_ h; exact Inv3_of hI (by simp [rootBottom]) (by simp [openPart]) rfl rfl))
      · split at h
        · split at h
          · cases h
          · split at h
            · simp [gErr] at h
            · split at h
              · simp [gErr] at h
              · split at h
                · simp [gErr] at h
                · split at h
                  · simp [cErr] at h
                  · (first | (refine push_inv3 ?_ h; exact Inv3_of hI (by simp [rootBottom]) (by simp [openPart]) rfl rfl) | (simp only [Except.ok.injEq] at h; subst h; exact Inv3_of hI (by simp [rootBottom]) (by simp [openPart]) rfl rfl) | (refine closeTop_inv3 ?_ h; exact Inv3_of hI (by simp [rootBottom]) (by simp [openPart]) rfl rfl))
        · split at h
          · split at h
            · simp [gErr] at h
            · split at h
              · cases h
              · split at h
                · simp [gErr] at h
                · split at h
                  · cases h
                  · rename_i f hf
                    obtain ⟨sizes, _, rfl⟩ := meshCreate_ok2 hf
                    (first | (refine push_inv3 ?_ h; exact Inv3_of hI (by simp [rootBottom]) (by simp [openPart]) rfl rfl) | (simp only [Except.ok.injEq] at h; subst h; exact Inv3_of hI (by simp [rootBottom]) (by simp [openPart]) rfl rfl) | (refine closeTop_inv3 ?_ h; exact Inv3_of hI (by simp [rootBottom]) (by simp [openPart]) rfl rfl))
          · split at h
            · split at h
              · cases h
              · split at h
                · cases h
                · rename_i p links' deduct' hp
                  obtain ⟨hcl, hname, -, -, -, -, -, hded, -⟩ := partCreate_ok2 hp
                  have hfresh : ∀ np ∈ node.parts, np.1 ≠ p.name := by
                    unfold partCreate at hp
                    rw [hname] at hp
                    simp only [hcl, Bool.false_eq_true, if_false] at hp
                    split at hp
                    · split at hp
                      · simp [cErr] at hp
                      · rename_i hnf
                        rename_i nm _ _ _ hnm _ _ _
                        simp only [Option.some.injEq] at hnm
                        subst hnm
                        apply mapFind_none_key
                        simpa using hnf
                    · simp [gErr] at hp
                  rw [hcl] at h
                  simp only [Bool.false_eq_true, if_false, Except.ok.injEq] at h
                  subst h
                  obtain ⟨_, hd⟩ := hI
                  simp only [openPart] at hd
                  have hold : ∀ x ∈ deduct, ∃ np ∈ node.parts, np.1 = x := by
                    intro x hx
                    rcases hd.src x hx with h1 | ⟨t, e⟩
                    · exact h1
                    · cases e
                  have hnew : ∀ x ∈ deduct', x ∈ deduct ∨ (x = p.name ∧ p.topoType = .parent) := by
                    intro x hx
                    rw [hded] at hx
                    split at hx
                    · rename_i hq
                      simp only [List.mem_append, List.mem_singleton] at hx
                      rcases hx with hx | hx
                      · exact Or.inl hx
                      · exact Or.inr ⟨hx, by simpa using hq⟩
                    · exact Or.inl hx
                  refine ⟨rfl, ?_, ?_, ?_⟩
                  · intro np hnp hin
                    rcases hnew _ hin with h1 | ⟨h1, _⟩
                    · exact hd.has np hnp h1
                    · exact absurd h1 (hfresh np hnp)
                  · intro x hx
                    rcases hnew _ hx with h1 | ⟨h1, _⟩
                    · exact Or.inl (hold x h1)
                    · exact Or.inr ⟨p.topoType, by simp [openPart, h1]⟩
                  · intro x hx hin
                    simp only [openPart, Option.some.injEq, Prod.mk.injEq] at hx
                    obtain ⟨rfl, hq⟩ := hx
                    rcases hnew _ hin with h1 | ⟨_, h2⟩
                    · obtain ⟨np, hnp, e⟩ := hold _ h1
                      exact hfresh np hnp e
                    · rw [hq] at h2
                      cases h2
            · split at h
              · split at h
                · cases h
                · split at h
                  · cases h
                  · rename_i f hf
                    obtain ⟨prio, level, nr, ne, rfl, _⟩ := partitionCreate_ok2 hf
                    (first | (refine push_inv3 ?_ h; exact Inv3_of hI (by simp [rootBottom]) (by simp [openPart]) rfl rfl) | (simp only [Except.ok.injEq] at h; subst h; exact Inv3_of hI (by simp [rootBottom]) (by simp [openPart]) rfl rfl) | (refine closeTop_inv3 ?_ h; exact Inv3_of hI (by simp [rootBottom]) (by simp [openPart]) rfl rfl))
              · simp [gErr] at h
    | chart name c =>
      have hr : rootBottom rest := by simpa [Inv3, rootBottom] using hI.1
      simp only [openM] at h
      repeat' split at h
      all_goals first
        | (simp [gErr] at h; done)
        | (cases h; done)
        | (first | (refine push_inv3 ?_ h; exact Inv3_of hI (by simpa [rootBottom] using hr) (by simp [openPart]) rfl rfl) | (simp only [Except.ok.injEq] at h; subst h; exact Inv3_of hI (by simpa [rootBottom] using hr) (by simp [openPart]) rfl rfl) | (refine closeTop_inv3 ?_ h; exact Inv3_of hI (by simpa [rootBottom] using hr) (by simp [openPart]) rfl rfl))
    | mesh sizes v topo =>
      have hr : rootBottom rest := by simpa [Inv3, rootBottom] using hI.1
      simp only [openM] at h
      repeat' split at h
      all_goals first
        | (simp [gErr] at h; done)
        | (cases h; done)
        | (obtain ⟨_, dd, _, _, rfl⟩ := topoCreate_ok (by assumption)
           (first | (refine push_inv3 ?_ h; exact Inv3_of hI (by simpa [rootBottom] using hr) (by simp [openPart]) rfl rfl) | (simp only [Except.ok.injEq] at h; subst h; exact Inv3_of hI (by simpa [rootBottom] using hr) (by simp [openPart]) rfl rfl) | (refine closeTop_inv3 ?_ h; exact Inv3_of hI (by simpa [rootBottom] using hr) (by simp [openPart]) rfl rfl)))
        | (first | (refine push_inv3 ?_ h; exact Inv3_of hI (by simpa [rootBottom] using hr) (by simp [openPart]) rfl rfl) | (simp only [Except.ok.injEq] at h; subst h; exact Inv3_of hI (by simpa [rootBottom] using hr) (by simp [openPart]) rfl rfl) | (refine closeTop_inv3 ?_ h; exact Inv3_of hI (by simpa [rootBottom] using hr) (by simp [openPart]) rfl rfl))
    | part p =>
      have hr : rest = [Frame.root] := by simpa [Inv3, rootBottom] using hI.1
      simp only [openM] at h
      repeat' split at h
      all_goals first
        | (simp [gErr] at h; done)
        | (simp [cErr] at h; done)
        | (cases h; done)
        | (obtain ⟨_, dd, _, _, rfl⟩ := topoCreate_ok (by assumption)
           (first | (refine push_inv3 ?_ h; exact Inv3_of hI (by simpa [rootBottom] using hr) (by simp [openPart]) rfl rfl) | (simp only [Except.ok.injEq] at h; subst h; exact Inv3_of hI (by simpa [rootBottom] using hr) (by simp [openPart]) rfl rfl) | (refine closeTop_inv3 ?_ h; exact Inv3_of hI (by simpa [rootBottom] using hr) (by simp [openPart]) rfl rfl)))
        | (first | (refine push_inv3 ?_ h; exact Inv3_of hI (by simpa [rootBottom] using hr) (by simp [openPart]) rfl rfl) | (simp only [Except.ok.injEq] at h; subst h; exact Inv3_of hI (by simpa [rootBottom] using hr) (by simp [openPart]) rfl rfl) | (refine closeTop_inv3 ?_ h; exact Inv3_of hI (by simpa [rootBottom] using hr) (by simp [openPart]) rfl rfl))
    | partition name prio level nr ne patches hv =>
      have hr : rootBottom rest := by simpa [Inv3, rootBottom] using hI.1
      simp only [openM] at h
      repeat' split at h
      all_goals first
        | (simp [gErr] at h; done)
        | (simp [cErr] at h; done)
        | (cases h; done)
        | (first | (refine push_inv3 ?_ h; exact Inv3_of hI (by simpa [rootBottom] using hr) (by simp [openPart]) rfl rfl) | (simp only [Except.ok.injEq] at h; subst h; exact Inv3_of hI (by simpa [rootBottom] using hr) (by simp [openPart]) rfl rfl) | (refine closeTop_inv3 ?_ h; exact Inv3_of hI (by simpa [rootBottom] using hr) (by simp [openPart]) rfl rfl))

theorem scanLoop_inv3 (lines : List Str) :
    ∀ (iline : Nat) (names : List Str) (st st' : St),
      Inv3 st → scanLoop meshClient lines iline names st = .ok st' → Inv3 st' := by
  induction lines with
  | nil =>
    intro iline names st st' _ h
    unfold scanLoop at h
    split at h <;> cases h
  | cons raw rest ih =>
    intro iline names st st' hI h
    unfold scanLoop at h
    simp only at h
    repeat' split at h
    all_goals first
      | (cases h; done)
      | exact ih _ _ _ _ hI h
      | exact ih _ _ _ _ (contentM_inv3 hI (by assumption)) h
      | exact ih _ _ _ _ (closeTop_inv3 hI (by assumption)) h
      | exact ih _ _ _ _ (openM_inv3 hI (by assumption)) h
      | (simp only [Except.ok.injEq] at h; subst h; exact closeTop_inv3 hI (by assumption))

theorem Inv3_init (sh : Shape) (dim wdim : Nat) :
    Inv3 { shape := sh, dim := dim, wdim := wdim, stack := [Frame.root],
           node := { mesh := none, parts := [], partitions := [], wdim := wdim },
           links := [], deduct := [], unmodelled := false } := by
  refine ⟨rfl, ?_, ?_, ?_⟩
  · intro _ hp; cases hp
  · intro _ hx; cases hx
  · intro _ _ hx; cases hx

theorem mapMOpt_getElem? {α β : Type} (f : α → Option β) :
    ∀ (l : List α) (bs : List β), mapMOpt f l = some bs → ∀ (i : Nat) (a : α), l[i]? = some a →
      ∃ b, bs[i]? = some b ∧ f a = some b
  | [], bs, h, i, a, hi => by simp at hi
  | x :: xs, bs, h, i, a, hi => by
    unfold mapMOpt at h
    split at h
    · cases h
    · rename_i b0 hb0
      split at h
      · cases h
      · rename_i bs' hbs
        cases h
        cases i with
        | zero =>
          simp only [List.getElem?_cons_zero, Option.some.injEq] at hi
          subst hi
          exact ⟨b0, by simp, hb0⟩
        | succ j =>
          simp only [List.getElem?_cons_succ] at hi
          simpa using mapMOpt_getElem? f xs bs' hbs j a hi

theorem mapMOpt_isSome {α β : Type} (f : α → Option β) :
    ∀ (l : List α), (∀ a ∈ l, (f a).isSome = true) → ∃ bs, mapMOpt f l = some bs
  | [], _ => ⟨[], rfl⟩
  | x :: xs, h => by
    obtain ⟨b, hb⟩ := Option.isSome_iff_exists.1 (h x (by simp))
    obtain ⟨bs, hbs⟩ := mapMOpt_isSome f xs (fun a ha => h a (by simp [ha]))
    exact ⟨b :: bs, by simp [mapMOpt, hb, hbs]⟩

theorem invVertex_aux (v : Nat) : ∀ (l : List Nat) (k : Nat) (init : Option Nat) (j : Nat),
    (l.zipIdx k).foldl (fun acc xi => if xi.1 == v then some xi.2 else acc) init = some j →
    init = some j ∨ (k ≤ j ∧ j < k + l.length ∧ l[j - k]? = some v)
  | [], k, init, j, h => by
    simp only [List.zipIdx_nil, List.foldl_nil] at h
    exact Or.inl h
  | x :: xs, k, init, j, h => by
    simp only [List.zipIdx_cons, List.foldl_cons] at h
    rcases invVertex_aux v xs (k + 1) _ j h with h1 | ⟨h1, h2, h3⟩
    · by_cases hx : x = v
      · subst hx
        simp only [beq_self_eq_true, if_true, Option.some.injEq] at h1
        subst h1
        right
        exact ⟨Nat.le_refl _, by simp, by simp⟩
      · have : (x == v) = false := by simpa using hx
        simp only [this, Bool.false_eq_true, if_false] at h1
        exact Or.inl h1
    · right
      refine ⟨by omega, by simp only [List.length_cons]; omega, ?_⟩
      have : j - k = (j - (k + 1)) + 1 := by omega
      rw [this, List.getElem?_cons_succ]
      exact h3

/-- a deduced local index is a position in the vertex mapping that holds the parent's vertex -/
theorem invVertex_some {vmap : List Nat} {v j : Nat} (h : invVertex vmap v = some j) :
    j < vmap.length ∧ vmap[j]? = some v := by
  unfold invVertex at h
  rcases invVertex_aux v vmap 0 none j h with h1 | ⟨_, h2, h3⟩
  · cases h1
  · exact ⟨by omega, by simpa using h3⟩

theorem invVertex_aux_isSome (v : Nat) : ∀ (l : List Nat) (k : Nat) (init : Option Nat),
    (init.isSome = true ∨ v ∈ l) →
    ((l.zipIdx k).foldl (fun acc xi => if xi.1 == v then some xi.2 else acc) init).isSome = true
  | [], k, init, h => by
    simp only [List.zipIdx_nil, List.foldl_nil]
    rcases h with h | h
    · exact h
    · cases h
  | x :: xs, k, init, h => by
    simp only [List.zipIdx_cons, List.foldl_cons]
    apply invVertex_aux_isSome v xs (k + 1)
    by_cases hx : x = v
    · left; simp [hx]
    · have hb : (x == v) = false := by simpa using hx
      rcases h with h | h
      · left; simp [hb, h]
      · right
        simp only [List.mem_cons] at h
        rcases h with h | h
        · exact absurd h.symm hx
        · exact h

theorem invVertex_isSome {vmap : List Nat} {v : Nat} (h : v ∈ vmap) : (invVertex vmap v).isSome = true :=
  invVertex_aux_isSome v vmap 0 none (Or.inr h)

/-- **restriction of the parent's index sets**: what `deductTopo` returns -/
theorem deductTopo_spec {m : Mesh} {p : Part} {t : List (List (List Nat))} (h : deductTopo m p = some t) :
    t.length = m.topo.length ∧
    ∀ d, d < m.topo.length → (t.getD d []).length = (p.maps.getD (d + 1) []).length ∧
      ∀ (k c : Nat), (p.maps.getD (d + 1) [])[k]? = some c →
        ∃ tup : List Nat, (t.getD d [])[k]? = some tup ∧ tup.length = ((m.topo.getD d []).getD c []).length ∧
          ∀ (j v : Nat), ((m.topo.getD d []).getD c [])[j]? = some v →
            ∃ x : Nat, tup[j]? = some x ∧ x < (p.maps.getD 0 []).length ∧ (p.maps.getD 0 [])[x]? = some v := by
  unfold deductTopo at h
  refine ⟨by simpa using mapMOpt_length _ _ _ h, ?_⟩
  intro d hd
  obtain ⟨ti, hti, hcell⟩ := mapMOpt_getElem? _ _ _ h d d (by simp [hd])
  have htd : t.getD d [] = ti := by rw [List.getD_eq_getElem?_getD, hti]; rfl
  rw [htd]
  refine ⟨mapMOpt_length _ _ _ hcell, ?_⟩
  intro k c hk
  obtain ⟨tup, htup, hv⟩ := mapMOpt_getElem? _ _ _ hcell k c hk
  refine ⟨tup, htup, mapMOpt_length _ _ _ hv, ?_⟩
  intro j v hj
  obtain ⟨x, hx, hinv⟩ := mapMOpt_getElem? _ _ _ hv j v hj
  exact ⟨x, hx, invVertex_some hinv⟩

/-- totality: if every vertex of every selected cell occurs in the part's vertex mapping, the deduction succeeds -/
theorem deductTopo_total {m : Mesh} {p : Part}
    (h : ∀ d, d < m.topo.length → ∀ c ∈ p.maps.getD (d + 1) [], ∀ v ∈ (m.topo.getD d []).getD c [],
      v ∈ p.maps.getD 0 []) :
    ∃ t, deductTopo m p = some t := by
  unfold deductTopo
  apply mapMOpt_isSome
  intro d hd
  rw [List.mem_range] at hd
  obtain ⟨ti, hti⟩ := mapMOpt_isSome
    (fun c => mapMOpt (invVertex (p.maps.getD 0 [])) ((m.topo.getD d []).getD c [])) (p.maps.getD (d + 1) []) (by
      intro c hc
      obtain ⟨tup, htup⟩ := mapMOpt_isSome (invVertex (p.maps.getD 0 [])) ((m.topo.getD d []).getD c [])
        (fun v hv => invVertex_isSome (h d hd c hc v hv))
      rw [htup]; rfl)
  rw [hti]; rfl

/-- the deduced topology of a mesh part whose mapping indices are entities of a well-formed root mesh is a
    well-formed topology of the part: one tuple per cell, parent tuple width, entries are positions in the vertex
    mapping -/
theorem deductTopo_wf {sh : Shape} {dim wdim : Nat} {m : Mesh} {p : Part} {t : List (List (List Nat))}
    (hm : m.wf sh dim wdim = true) (h : deductTopo m p = some t)
    (hlen : ∀ d, d ≤ dim → (p.maps.getD d []).length = p.sizes.getD d 0)
    (hrange : ∀ d, ∀ i ∈ p.maps.getD d [], i < m.sizes.getD d 0) :
    t.length = dim ∧ ∀ i, i < dim →
      (t.getD i []).length = p.sizes.getD (i + 1) 0 ∧
      ∀ tup ∈ t.getD i [], tup.length = nverts sh (i + 1) ∧ ∀ x ∈ tup, x < p.sizes.getD 0 0 := by
  obtain ⟨-, -, -, htl, htp⟩ := (Mesh.wf_iff sh dim wdim m).1 hm
  obtain ⟨h1, h2⟩ := deductTopo_spec h
  rw [htl] at h1 h2
  refine ⟨h1, ?_⟩
  intro i hi
  obtain ⟨h3, h4⟩ := h2 i hi
  refine ⟨by rw [h3]; exact hlen (i + 1) (by omega), ?_⟩
  intro tup htup
  obtain ⟨k, hk⟩ := List.getElem?_of_mem htup
  have hkl : k < (p.maps.getD (i + 1) []).length := by
    rw [← h3]
    exact (List.getElem?_eq_some_iff.1 hk).1
  obtain ⟨tup', htup', hlen', hent⟩ := h4 k _ (List.getElem?_eq_getElem hkl)
  rw [hk] at htup'
  cases htup'
  generalize hc : (p.maps.getD (i + 1) [])[k] = c at hlen' hent
  have hcm : c ∈ p.maps.getD (i + 1) [] := by rw [← hc]; exact List.getElem_mem hkl
  have hcl : c < (m.topo.getD i []).length := by
    rw [(htp i hi).1]; exact hrange (i + 1) c hcm
  have hcell : (m.topo.getD i []).getD c [] ∈ m.topo.getD i [] := by
    have : (m.topo.getD i []).getD c [] = (m.topo.getD i [])[c] := by
      rw [List.getD_eq_getElem?_getD (l := m.topo.getD i []), List.getElem?_eq_getElem hcl]; rfl
    rw [this]
    exact List.getElem_mem hcl
  refine ⟨by rw [hlen']; exact ((htp i hi).2 _ hcell).1, ?_⟩
  intro x hx
  obtain ⟨j, hj⟩ := List.getElem?_of_mem hx
  have hjl : j < ((m.topo.getD i []).getD c []).length := by
    rw [← hlen']
    exact (List.getElem?_eq_some_iff.1 hj).1
  obtain ⟨x', hx', hlt, -⟩ := hent j _ (List.getElem?_eq_getElem hjl)
  rw [hj] at hx'
  cases hx'
  rw [← hlen 0 (Nat.zero_le _)]
  exact hlt

/-- the keys of the mesh-part map after one linker step -/
theorem map_keys_if {pn : Str} {f : Part → Part} (parts : List (Str × Part)) :
    (parts.map (fun np => if np.1 == pn then (np.1, f np.2) else np)).map (·.1) = parts.map (·.1) := by
  rw [List.map_map]
  apply List.map_congr_left
  intro np _
  simp only [Function.comp]
  split <;> rfl

theorem sorted_of_keys {l l' : List (Str × Part)} (hk : l'.map (·.1) = l.map (·.1))
    (h : l.Pairwise (fun a b => strLt a.1 b.1 = true)) : l'.Pairwise (fun a b => strLt a.1 b.1 = true) := by
  have h1 : (l.map (·.1)).Pairwise (fun a b => strLt a b = true) := List.pairwise_map.2 h
  rw [← hk] at h1
  exact List.pairwise_map.1 h1

/-- `resolveLinks`, element-wise: every part keeps its name and all fields but `chart`, which is either kept or
    set to the name of a chart of the atlas -/
theorem resolveLinks_mem : ∀ (links : List (Str × Str)) (n n' : Node), resolveLinks links n = some n' →
    n'.parts.map (·.1) = n.parts.map (·.1) ∧
    ∀ np' ∈ n'.parts, ∃ np ∈ n.parts, np'.1 = np.1 ∧ ∃ c, np'.2 = { np.2 with chart := c } ∧
      (c = np.2.chart ∨ (mapFind strLt c n.charts).isSome = true)
  | [], n, n', h => by
    simp only [resolveLinks, Option.some.injEq] at h
    subst h
    exact ⟨rfl, fun np hnp => ⟨np, hnp, rfl, np.2.chart, rfl, Or.inl rfl⟩⟩
  | (pn, cn) :: rest, n, n', h => by
    simp only [resolveLinks] at h
    split at h
    · cases h
    · rename_i hc
      have ih := resolveLinks_mem rest _ n' h
      obtain ⟨ih1, ih2⟩ := ih
      refine ⟨ih1.trans (map_keys_if (pn := pn) (f := fun q => { q with chart := cn }) n.parts), ?_⟩
      intro np' hnp'
      obtain ⟨np2, hnp2, e1, c, e2, e3⟩ := ih2 np' hnp'
      simp only [List.mem_map] at hnp2
      obtain ⟨np, hnp, rfl⟩ := hnp2
      refine ⟨np, hnp, ?_, c, ?_, ?_⟩
      · rw [e1]; split <;> rfl
      · rw [e2]; split <;> rfl
      · rcases e3 with e3 | e3
        · split at e3
          · right
            rw [e3]
            cases hq : mapFind strLt cn n.charts <;> simp_all
          · exact Or.inl e3
        · exact Or.inr e3

/-- `resolveDeduct`, element-wise: every part keeps its name and all fields but `topo`; the topology of a part
    that is not on the list is kept, that of a part on the list is the one deduced from the root mesh -/
theorem resolveDeduct_mem : ∀ (ded : List Str) (n n' : Node), resolveDeduct ded n = some n' →
    n.parts.Pairwise (fun a b => strLt a.1 b.1 = true) →
    n'.parts.map (·.1) = n.parts.map (·.1) ∧
    ∀ np' ∈ n'.parts, ∃ np ∈ n.parts, np'.1 = np.1 ∧ ∃ t, np'.2 = { np.2 with topo := t } ∧
      (np.1 ∉ ded → t = np.2.topo) ∧
      (np.1 ∈ ded → ∃ m, n.mesh = some m ∧ deductTopo m np.2 = some t)
  | [], n, n', h, _ => by
    simp only [resolveDeduct, Option.some.injEq] at h
    subst h
    exact ⟨rfl, fun np hnp => ⟨np, hnp, rfl, np.2.topo, rfl, fun _ => rfl, fun hx => by cases hx⟩⟩
  | pn :: rest, n, n', h, hs => by
    simp only [resolveDeduct] at h
    split at h
    · rename_i m p hmesh hfind
      split at h
      · cases h
      · rename_i t0 ht0
        have hs2 := sorted_of_keys (map_keys_if (pn := pn) (f := fun q => { q with topo := t0 }) n.parts) hs
        obtain ⟨ih1, ih2⟩ := resolveDeduct_mem rest _ n' h hs2
        refine ⟨ih1.trans (map_keys_if (pn := pn) (f := fun q => { q with topo := t0 }) n.parts), ?_⟩
        intro np' hnp'
        obtain ⟨np2, hnp2, e1, t, e2, e3, e4⟩ := ih2 np' hnp'
        simp only [List.mem_map] at hnp2
        obtain ⟨np, hnp, rfl⟩ := hnp2
        by_cases hpn : np.1 = pn
        · have hb : (np.1 == pn) = true := by simpa using hpn
          simp only [hb, if_true] at e1 e2 e3 e4
          have hnpp : np = (pn, p) :=
            sorted_unique _ hs np hnp (pn, p) (mapFind_mem_key pn _ p hfind) hpn
          have hded : deductTopo m np.2 = some t0 := by rw [hnpp]; exact ht0
          refine ⟨np, hnp, e1, t, e2, fun hni => absurd (List.mem_cons.2 (Or.inl hpn)) hni, fun _ => ⟨m, hmesh, ?_⟩⟩
          by_cases hr : np.1 ∈ rest
          · obtain ⟨m', hm', hd'⟩ := e4 hr
            have hm' : n.mesh = some m' := hm'
            rw [hmesh] at hm'
            cases hm'
            exact hd'
          · rw [e3 hr]
            exact hded
        · have hb : (np.1 == pn) = false := by simpa using hpn
          simp only [hb, Bool.false_eq_true, if_false] at e1 e2 e3 e4
          refine ⟨np, hnp, e1, t, e2, fun hni => e3 (fun hx => hni (List.mem_cons_of_mem _ hx)), ?_⟩
          intro hx
          simp only [List.mem_cons] at hx
          rcases hx with hx | hx
          · exact absurd hx hpn
          · exact e4 hx
    · cases h

theorem resolveDeduct_mapOutOfRange : ∀ (ded : List Str) (n n' : Node), resolveDeduct ded n = some n' →
    mapOutOfRange n' = mapOutOfRange n
  | [], n, n', h => by simp only [resolveDeduct, Option.some.injEq] at h; subst h; rfl
  | pn :: rest, n, n', h => by
    simp only [resolveDeduct] at h
    split at h
    · split at h
      · cases h
      · rw [resolveDeduct_mapOutOfRange rest _ n' h]
        unfold mapOutOfRange
        simp only
        split
        · rfl
        · rw [List.any_map]
          congr 1
          funext np
          simp only [Function.comp]
          split <;> rfl
    · cases h

/-- what is known about an accepted node: like `NodeOk2`, with the complete `Part.wf` for every mesh part
    (deducted topologies included) and chart references that resolve -/
structure NodeOk3 (N : Str → Prop) (sh : Shape) (dim : Nat) (n : Node) : Prop where
  mesh64 : ∀ m, n.mesh = some m → ∀ s ∈ m.sizes, s < 2 ^ 64
  meshZB : ∀ m, n.mesh = some m → zeroBelow m.sizes = false
  parts : ∀ np ∈ n.parts, Part.wf sh dim np.2 ∧ Part.wfX N np.1 np.2
  partsChart : ∀ np ∈ n.parts, np.2.chart = [] ∨ (mapFind strLt np.2.chart n.charts).isSome = true
  partsSorted : n.parts.Pairwise (fun a b => strLt a.1 b.1 = true)
  partitions : ∀ p ∈ n.partitions, p.wf ∧ p.wfX N

/-- an accepted `parseBody` run: the node satisfies `NodeOk3`; the parts that are not on the linker's deduction
    list have no entity count of zero below a non-zero one -/
theorem parseBody_node_ok {N : Str → Prop} {sh sh' : Shape} {dim dim' wdim : Nat} {m : Markup} {iline : Nat}
    {rest : List Str} {n : Node} (hN0 : N []) (hN : LinesN N rest)
    (h : parseBody sh dim wdim m iline rest = .ok sh' dim' n) :
    sh' = sh ∧ dim' = dim ∧ NodeOk3 N sh dim n ∧ mapOutOfRange n = false ∧
    ∃ st : St, scanLoop meshClient rest iline [m.name]
        { shape := sh, dim := dim, wdim := wdim, stack := [Frame.root],
          node := { mesh := none, parts := [], partitions := [], wdim := wdim },
          links := [], deduct := [], unmodelled := false } = .ok st ∧
      n.charts = st.node.charts ∧ (n.charts = [] → st.links = []) ∧
      (∀ np ∈ n.parts, np.1 ∉ st.deduct →
        (np.2.hasTopo = true → zeroBelow np.2.sizes = false) ∧ np.2.noTopoEmpty) ∧
      (∀ np ∈ n.parts, np.2.hasTopo = true → zeroBelow np.2.sizes = false) ∧
      ∀ np ∈ n.parts, np.1 ∈ st.deduct → np.2.hasTopo = true := by
  have hmwf := fun msh hm => parseBody_mesh_wf' (msh := msh) h hm
  obtain ⟨rfl, rfl, st, n1, hscan, _, hl, hmap, hd⟩ := parseBody_ok_run h
  obtain ⟨_, _, hstack, hn⟩ := scanLoop_inv2 hN0 _ hN _ _ _ _ (Inv2_init N _ _ _) hscan
  obtain ⟨l1, l2, l3⟩ := resolveLinks_fields _ _ _ hl
  obtain ⟨d1, d2, d3⟩ := resolveDeduct_fields _ _ _ hd
  obtain ⟨lk, lm⟩ := resolveLinks_mem _ _ _ hl
  have hs1 : n1.parts.Pairwise (fun a b => strLt a.1 b.1 = true) := sorted_of_keys lk hn.partsSorted
  obtain ⟨dk, dm⟩ := resolveDeduct_mem _ _ _ hd hs1
  have hmap' : mapOutOfRange n = false := by rw [resolveDeduct_mapOutOfRange _ _ _ hd]; exact hmap
  -- every part of the result comes from a part of the scanner state
  have hfrom : ∀ np' ∈ n.parts, ∃ np ∈ st.node.parts, np'.1 = np.1 ∧ ∃ c t,
      np'.2 = { np.2 with chart := c, topo := t } ∧ (c = [] ∨ (mapFind strLt c n.charts).isSome = true) ∧
      (np.1 ∉ st.deduct → t = np.2.topo) ∧
      (np.1 ∈ st.deduct → ∃ msh, n.mesh = some msh ∧ deductTopo msh np.2 = some t) := by
    intro np' hnp'
    obtain ⟨np1, hnp1, e1, t, e2, e3, e4⟩ := dm np' hnp'
    obtain ⟨np, hnp, f1, c, f2, f3⟩ := lm np1 hnp1
    refine ⟨np, hnp, e1.trans f1, c, t, ?_, ?_, ?_, ?_⟩
    · rw [e2, f2]
    · rcases f3 with f3 | f3
      · left; rw [f3]; exact hn.partsChart np hnp
      · right; rw [d3, l3]; exact f3
    · intro hni
      rw [e3 (by rw [f1]; exact hni), f2]
    · intro hi
      obtain ⟨msh, hm1, hd1⟩ := e4 (by rw [f1]; exact hi)
      refine ⟨msh, by rw [d1]; exact hm1, ?_⟩
      rw [f2] at hd1
      exact hd1
  refine ⟨rfl, rfl, ?_, hmap', st, hscan, by rw [d3, l3], ?_, ?_, ?_, ?_⟩
  · refine ⟨fun msh hm => hn.mesh64 msh (by rw [← l1, ← d1]; exact hm),
      fun msh hm => hn.meshZB msh (by rw [← l1, ← d1]; exact hm), ?_, ?_,
      sorted_of_keys dk hs1, fun p hp => hn.partitions p (by rw [← l2, ← d2]; exact hp)⟩
    · intro np' hnp'
      obtain ⟨np, hnp, e1, c, t, e2, -, e4, e5⟩ := hfrom np' hnp'
      obtain ⟨⟨a1, a2, a3, a4, a5, a6, a7, a8⟩, hx⟩ := hn.parts np hnp
      refine ⟨?_, by rw [e1, e2]; exact hx⟩
      rw [e2]
      by_cases hi : np.1 ∈ st.deduct
      · obtain ⟨msh, hm, hdt⟩ := e5 hi
        have hr : ∀ d, ∀ i ∈ np.2.maps.getD d [], i < msh.sizes.getD d 0 := by
          intro d i hid
          have hmo := hmap'
          unfold mapOutOfRange at hmo
          rw [hm] at hmo
          simp only at hmo
          rw [List.any_eq_false] at hmo
          have := hmo np' hnp'
          rw [e2] at this
          simp only [Bool.not_eq_true] at this
          exact (zipIdx_any_ge_false_iff np.2.maps (fun d => msh.sizes.getD d 0)).1 this d i hid
        obtain ⟨w1, w2⟩ := deductTopo_wf (hmwf msh hm) hdt a3 hr
        exact ⟨a1, a2, a3, a4, w1, fun _ => w2, a8⟩
      · rw [e4 hi]
        exact ⟨a1, a2, a3, a4, a5, a6 hi, a8⟩
    · intro np' hnp'
      obtain ⟨np, hnp, e1, c, t, e2, e3, -, -⟩ := hfrom np' hnp'
      rw [e2]
      exact e3
  · intro hc
    cases hq : st.links with
    | nil => rfl
    | cons a l =>
      rw [hq] at hl
      obtain ⟨pn, cn⟩ := a
      simp only [resolveLinks] at hl
      rw [d3, l3] at hc
      rw [hc] at hl
      simp [mapFind] at hl
  · intro np' hnp' hni
    obtain ⟨np, hnp, e1, c, t, e2, -, e4, -⟩ := hfrom np' hnp'
    have hni' : np.1 ∉ st.deduct := by rw [← e1]; exact hni
    rw [e2, e4 hni']
    exact ⟨fun hT => hn.partsZB np hnp hT, (hn.parts np hnp).1.2.2.2.2.2.2.1⟩
  · intro np' hnp'
    obtain ⟨np, hnp, e1, c, t, e2, -, -, -⟩ := hfrom np' hnp'
    rw [e2]
    exact hn.partsZB np hnp
  · intro np' hnp' hin
    obtain ⟨np, hnp, e1, c, t, e2, -, -, -⟩ := hfrom np' hnp'
    rw [e2]
    exact (scanLoop_inv3 _ _ _ _ _ (Inv3_init _ _ _) hscan).2.has np hnp (by rw [← e1]; exact hin)

end S2

/-! ### the theorems -/

theorem parseBody_parts_wf' {sh sh' : Shape} {dim dim' wdim : Nat} {m : Markup} {iline : Nat} {rest : List Str}
    {n : Node} (h : parseBody sh dim wdim m iline rest = .ok sh' dim' n) :
    ∀ np ∈ n.parts, Part.wf sh' dim' np.2 := by
  obtain ⟨rfl, rfl, hn, _⟩ := S2.parseBody_node_ok (N := fun _ => True) trivial (fun _ _ _ _ _ _ _ => trivial) h
  exact fun np hnp => (hn.parts np hnp).1

theorem parseBody_partitions_wf' {sh sh' : Shape} {dim dim' wdim : Nat} {m : Markup} {iline : Nat} {rest : List Str}
    {n : Node} (h : parseBody sh dim wdim m iline rest = .ok sh' dim' n) :
    ∀ p ∈ n.partitions, p.wf := by
  obtain ⟨rfl, rfl, hn, _⟩ := S2.parseBody_node_ok (N := fun _ => True) trivial (fun _ _ _ _ _ _ _ => trivial) h
  exact fun p hp => (hn.partitions p hp).1

/-- parser soundness for mesh parts (general mesh type; `reparse` goes through `parseBody`) -/
theorem parseBody_parts_wf (sh : Shape) (dim wdim : Nat) (m : Markup) (iline : Nat) (rest : List Str) (n : Node) :
    parseBody sh dim wdim m iline rest = .ok sh dim n → ∀ np ∈ n.parts, Part.wf sh dim np.2 :=
  fun h => parseBody_parts_wf' h

/-- parser soundness for partitions (general mesh type) -/
theorem parseBody_partitions_wf (sh : Shape) (dim wdim : Nat) (m : Markup) (iline : Nat) (rest : List Str) (n : Node) :
    parseBody sh dim wdim m iline rest = .ok sh dim n → ∀ p ∈ n.partitions, p.wf :=
  fun h => parseBody_partitions_wf' h

/-- parser soundness for mesh parts: in an accepted file every mesh part has exactly the declared number of
    mapping entries per dimension, a complete own topology (if it has one) with all indices in range, and
    complete attribute sets -/
theorem parseMeshFile_parts_wf (text : Str) (sh : Shape) (dim : Nat) (n : Node) :
    parseMeshFile text = .ok sh dim n → ∀ np ∈ n.parts, Part.wf sh dim np.2 := by
  intro h
  unfold parseMeshFile at h
  repeat' split at h
  all_goals first
    | (cases h; done)
    | exact parseBody_parts_wf' h

/-- parser soundness for partitions: one strictly sorted, in-range element list per rank -/
theorem parseMeshFile_partitions_wf (text : Str) (sh : Shape) (dim : Nat) (n : Node) :
    parseMeshFile text = .ok sh dim n → ∀ p ∈ n.partitions, p.wf := by
  intro h
  unfold parseMeshFile at h
  repeat' split at h
  all_goals first
    | (cases h; done)
    | exact parseBody_partitions_wf' h

theorem reparse_parts_wf (sh sh' : Shape) (dim dim' wdim : Nat) (text : Str) (n : Node) :
    reparse sh dim wdim text = .ok sh' dim' n → ∀ np ∈ n.parts, Part.wf sh' dim' np.2 := by
  intro h
  unfold reparse at h
  repeat' split at h
  all_goals first
    | (cases h; done)
    | exact parseBody_parts_wf' h

theorem reparse_partitions_wf (sh sh' : Shape) (dim dim' wdim : Nat) (text : Str) (n : Node) :
    reparse sh dim wdim text = .ok sh' dim' n → ∀ p ∈ n.partitions, p.wf := by
  intro h
  unfold reparse at h
  repeat' split at h
  all_goals first
    | (cases h; done)
    | exact parseBody_partitions_wf' h

/-- headline corollary: a declared non-empty target set is never silently missing or short -/
theorem parseMeshFile_mapping_complete {text : Str} {sh : Shape} {dim : Nat} {n : Node}
    (h : parseMeshFile text = .ok sh dim n) :
    ∀ np ∈ n.parts, ∀ d, d ≤ dim → 0 < np.2.sizes.getD d 0 →
      (np.2.maps.getD d []).length = np.2.sizes.getD d 0 :=
  fun np hnp d hd _ => (parseMeshFile_parts_wf text sh dim n h np hnp).2.2.1 d hd

/-- in particular such a target set is present and non-empty -/
theorem parseMeshFile_mapping_nonempty {text : Str} {sh : Shape} {dim : Nat} {n : Node}
    (h : parseMeshFile text = .ok sh dim n) :
    ∀ np ∈ n.parts, ∀ d, d ≤ dim → 0 < np.2.sizes.getD d 0 → np.2.maps.getD d [] ≠ [] := by
  intro np hnp d hd hpos hnil
  have := parseMeshFile_mapping_complete h np hnp d hd hpos
  rw [hnil, List.length_nil] at this
  omega

/-! ### the guarantees of the fixed reader: mapping ranges, partition element counts, entity counts -/

/-- `mapOutOfRange` spelled out: every mapping index of every mesh part is an entity index of the root mesh -/
theorem mapOutOfRange_false_iff (m : Mesh) (parts : List (Str × Part)) (pts : List Partition)
    (chs : List (Str × Chart) := []) (wdim : Nat := 0) :
    mapOutOfRange ⟨some m, parts, pts, chs, wdim⟩ = false ↔
      ∀ np ∈ parts, ∀ d, ∀ i ∈ np.2.maps.getD d [], i < m.sizes.getD d 0 := by
  show (parts.any (fun np => np.2.maps.zipIdx.any (fun (idx, d) => idx.any (fun i => i ≥ m.sizes.getD d 0)))) = false
    ↔ _
  rw [List.any_eq_false]
  constructor
  · intro h np hnp
    exact (zipIdx_any_ge_false_iff np.2.maps (fun d => m.sizes.getD d 0)).1 (by simpa using h np hnp)
  · intro h np hnp
    rw [(zipIdx_any_ge_false_iff np.2.maps (fun d => m.sizes.getD d 0)).2 (h np hnp)]
    simp

theorem mapOutOfRange_nomesh (parts : List (Str × Part)) (pts : List Partition) (chs : List (Str × Chart) := []) (wdim : Nat := 0) :
    mapOutOfRange ⟨none, parts, pts, chs, wdim⟩ = false := rfl

/-- an accepted `parseBody` run (any markup): the node invariant and the linker's range check -/
theorem parseBody_node_ok' {sh sh' : Shape} {dim dim' wdim : Nat} {m : Markup} {iline : Nat} {rest : List Str}
    {n : Node} (h : parseBody sh dim wdim m iline rest = .ok sh' dim' n) :
    S2.NodeOk3 (fun _ => True) sh' dim' n ∧ mapOutOfRange n = false := by
  obtain ⟨rfl, rfl, hn, hmap, _⟩ :=
    S2.parseBody_node_ok (N := fun _ => True) trivial (fun _ _ _ _ _ _ _ => trivial) h
  exact ⟨hn, hmap⟩

theorem parseMeshFile_node_ok' {text : Str} {sh : Shape} {dim : Nat} {n : Node}
    (h : parseMeshFile text = .ok sh dim n) :
    S2.NodeOk3 (fun _ => True) sh dim n ∧ mapOutOfRange n = false := by
  unfold parseMeshFile at h
  repeat' split at h
  all_goals first
    | (cases h; done)
    | exact parseBody_node_ok' h

theorem reparse_node_ok' {text : Str} {sh sh' : Shape} {dim dim' wdim : Nat} {n : Node}
    (h : reparse sh dim wdim text = .ok sh' dim' n) :
    S2.NodeOk3 (fun _ => True) sh' dim' n ∧ mapOutOfRange n = false := by
  unfold reparse at h
  repeat' split at h
  all_goals first
    | (cases h; done)
    | exact parseBody_node_ok' h

/-- **mapping indices are in range**: a file in which some mesh part maps to an entity index `≥` the entity count
    of the root mesh is rejected (`MeshNodeLinker::execute`) -/
theorem parseMeshFile_mapping_in_range {text : Str} {sh : Shape} {dim : Nat} {n : Node}
    (h : parseMeshFile text = .ok sh dim n) : mapOutOfRange n = false :=
  (parseMeshFile_node_ok' h).2

/-- the same, spelled out -/
theorem parseMeshFile_mapping_lt {text : Str} {sh : Shape} {dim : Nat} {n : Node} {m : Mesh}
    (h : parseMeshFile text = .ok sh dim n) (hm : n.mesh = some m) :
    ∀ np ∈ n.parts, ∀ d, ∀ i ∈ np.2.maps.getD d [], i < m.sizes.getD d 0 := by
  have hr := parseMeshFile_mapping_in_range h
  obtain ⟨mesh, parts, pts, chs, wd⟩ := n
  simp only at hm
  subst hm
  exact (mapOutOfRange_false_iff m parts pts chs wd).1 hr

theorem reparse_mapping_in_range {text : Str} {sh sh' : Shape} {dim dim' wdim : Nat} {n : Node}
    (h : reparse sh dim wdim text = .ok sh' dim' n) : mapOutOfRange n = false :=
  (reparse_node_ok' h).2

/-- **declared element count of a partition**: the patches of an accepted partition hold exactly the declared
    number of elements -/
theorem parseMeshFile_partition_elements {text : Str} {sh : Shape} {dim : Nat} {n : Node}
    (h : parseMeshFile text = .ok sh dim n) :
    ∀ p ∈ n.partitions, (p.patches.map List.length).sum = p.ne :=
  fun p hp => (parseMeshFile_partitions_wf text sh dim n h p hp).2.2

/-- **one `<Patch>` per rank**: a `<Partition>` frame only closes when a `<Patch>` block has been closed for every
    rank and the declared number of elements is met; it then appends exactly the collected partition -/
theorem closeTop_partition_flags {st st' : St} {line : Nat} {name : Str} {prio level : Int} {nr ne : Nat}
    {patches : List (List Nat)} {hv : List Bool} {rest : List Frame}
    (hs : st.stack = Frame.partition name prio level nr ne patches hv :: rest)
    (h : closeTop st line = .ok st') :
    (∀ b ∈ hv, b = true) ∧ (patches.map List.length).sum = ne ∧
      st' = { st with stack := rest, node := { st.node with partitions := st.node.partitions ++
        [{ name := name, prio := prio, level := level, nr := nr, ne := ne, patches := patches }] } } := by
  obtain ⟨shape, d, wd, stack, node, links, deduct, unm⟩ := st
  simp only at hs
  subst hs
  simp only [closeTop] at h
  split at h
  · simp [gErr] at h
  · rename_i hall
    split at h
    · simp [gErr] at h
    · rename_i hsum
      simp only [Except.ok.injEq] at h
      refine ⟨?_, by simpa using hsum, h.symm⟩
      intro b hb
      cases b with
      | true => rfl
      | false => exact absurd (List.any_eq_true.2 ⟨false, hb, rfl⟩) hall

/-- a second `<Patch>` block for a rank that already has one is rejected -/
theorem openM_patch_flag {st st' : St} {line : Nat} {m : Markup} {name : Str} {prio level : Int} {nr ne : Nat}
    {patches : List (List Nat)} {hv : List Bool} {rest : List Frame}
    (hs : st.stack = Frame.partition name prio level nr ne patches hv :: rest)
    (h : openM st line m = .ok st') :
    ∃ rank, attrOf m "rank" = some rank ∧ ∃ r, readIndex rank = some r ∧ r < nr ∧ hv.getD r false = false := by
  obtain ⟨shape, d, wd, stack, node, links, deduct, unm⟩ := st
  simp only at hs
  subst hs
  simp only [openM] at h
  split at h
  · split at h
    · cases h
    · split at h
      · rename_i rs ss hrs hss
        split at h
        · simp [cErr] at h
        · rename_i r hr
          split at h
          · simp [cErr] at h
          · split at h
            · simp [cErr] at h
            · rename_i hlt
              split at h
              · simp [cErr] at h
              · rename_i hflag
                exact ⟨rs, hrs, r, hr, by omega, by simpa using hflag⟩
      · simp [gErr] at h
  · simp [gErr] at h

/-- **no empty entity dimension below a non-empty one** (root mesh) -/
theorem parseMeshFile_sizes_no_zero_below {text : Str} {sh : Shape} {dim : Nat} {n : Node} {m : Mesh}
    (h : parseMeshFile text = .ok sh dim n) (hm : n.mesh = some m) : zeroBelow m.sizes = false :=
  (parseMeshFile_node_ok' h).1.meshZB m hm

/-- attribute dimensions fit a signed 32-bit `int` -/
theorem parseMeshFile_attr_dim {text : Str} {sh : Shape} {dim : Nat} {n : Node}
    (h : parseMeshFile text = .ok sh dim n) :
    ∀ np ∈ n.parts, ∀ na ∈ np.2.attrs, 0 < na.2.dim ∧ na.2.dim ≤ 2 ^ 31 - 1 :=
  fun np hnp na hna =>
    ⟨((parseMeshFile_parts_wf text sh dim n h np hnp).2.2.2.2.2.2 na hna).1,
     ((parseMeshFile_parts_wf text sh dim n h np hnp).2.2.2.2.2.2 na hna).2.1⟩

/-! ### stretch: attribute values delivered by the scanner are admissible names (`NameOk`) -/

namespace S2

theorem head?_dropWhile_not {p : Char → Bool} : ∀ (l : Str) (c : Char), (l.dropWhile p).head? = some c → p c = false
  | [], c, h => by simp at h
  | a :: l, c, h => by
    rw [List.dropWhile_cons] at h
    split at h
    · exact head?_dropWhile_not l c h
    · rename_i hp
      simp only [List.head?_cons, Option.some.injEq] at h
      subst h
      simpa using hp

theorem getLast?_dropWhile {p : Char → Bool} : ∀ (l : Str) (c : Char),
    (l.dropWhile p).getLast? = some c → l.getLast? = some c
  | [], c, h => by simp at h
  | a :: l, c, h => by
    rw [List.dropWhile_cons] at h
    split at h
    · have ih := getLast?_dropWhile l c h
      rw [List.getLast?_cons, ih]
      rfl
    · exact h

theorem mem_trimFront {s : Str} {c : Char} (h : c ∈ trimFront s) : c ∈ s :=
  (List.dropWhile_sublist isWs).subset h

theorem mem_trimBack {s : Str} {c : Char} (h : c ∈ trimBack s) : c ∈ s := by
  unfold trimBack at h
  rw [List.mem_reverse] at h
  exact List.mem_reverse.1 ((List.dropWhile_sublist isWs).subset h)

theorem mem_trim {s : Str} {c : Char} (h : c ∈ trim s) : c ∈ s :=
  mem_trimFront (mem_trimBack h)

theorem trim_head_notWs (s : Str) (c : Char) (h : (trim s).head? = some c) : isWs c = false := by
  unfold trim trimBack at h
  rw [List.head?_reverse] at h
  have h2 := getLast?_dropWhile _ _ h
  rw [List.getLast?_reverse] at h2
  exact head?_dropWhile_not _ _ h2

theorem trim_last_notWs (s : Str) (c : Char) (h : (trim s).getLast? = some c) : isWs c = false := by
  unfold trim trimBack at h
  rw [List.getLast?_reverse] at h
  exact head?_dropWhile_not _ _ h

theorem trim_trim (s : Str) : trim (trim s) = trim s :=
  trim_eq_self _ (trim_head_notWs s) (trim_last_notWs s)

theorem splitAtChar_spec {c : Char} : ∀ (s a b : Str), splitAtChar c s = some (a, b) → s = a ++ c :: b ∧ c ∉ a
  | [], a, b, h => by simp [splitAtChar] at h
  | x :: xs, a, b, h => by
    unfold splitAtChar at h
    split at h
    · rename_i hx
      simp only [Option.some.injEq, Prod.mk.injEq] at h
      obtain ⟨rfl, rfl⟩ := h
      simp at hx
      simp [hx]
    · rename_i hx
      split at h
      · cases h
      · rename_i a' b' hab
        simp only [Option.some.injEq, Prod.mk.injEq] at h
        obtain ⟨rfl, rfl⟩ := h
        obtain ⟨h1, h2⟩ := splitAtChar_spec xs a' _ hab
        simp at hx
        refine ⟨by rw [h1]; rfl, ?_⟩
        intro hc
        simp only [List.mem_cons] at hc
        rcases hc with rfl | hc
        · exact hx rfl
        · exact h2 hc

/-- no bracket and no line break -/
def Clean (s : Str) : Prop := ∀ c ∈ s, c ≠ '<' ∧ c ≠ '>' ∧ c ≠ '\n'

theorem Clean.sub {s t : Str} (h : Clean s) (hs : ∀ c ∈ t, c ∈ s) : Clean t := fun c hc => h c (hs c hc)

theorem Clean.trim {s : Str} (h : Clean s) : Clean (trim s) := h.sub (fun _ => mem_trim)

theorem NameOk_trim {v : Str} (h : Clean v) (hq : '"' ∉ v) : NameOk (C11.trim v) := by
  refine ⟨trim_trim v, ?_⟩
  intro c hc
  have hcv := mem_trim hc
  obtain ⟨a1, a2, a3⟩ := h c hcv
  refine ⟨?_, a1, a2, a3⟩
  intro hcq
  exact hq (hcq ▸ hcv)

theorem scanAttrs_NameOk : ∀ (fuel : Nat) (s : Str) (acc attrs : List (Str × Str)),
    scanAttrs fuel s acc = some attrs → Clean s → (∀ kv ∈ acc, NameOk kv.2) → ∀ kv ∈ attrs, NameOk kv.2
  | 0, _, _, _, h, _, _ => by simp [scanAttrs] at h
  | fuel + 1, s, acc, attrs, h, hs, hacc => by
    unfold scanAttrs at h
    split at h
    · cases h; exact hacc
    · split at h
      · cases h
      · rename_i k rest hsplit
        simp only at h
        split at h
        · cases h
        · split at h
          · rename_i r1 hr1
            split at h
            · cases h
            · rename_i v r2 hv
              obtain ⟨e1, _⟩ := splitAtChar_spec _ _ _ hsplit
              obtain ⟨e2, hq⟩ := splitAtChar_spec _ _ _ hv
              have hrest : Clean rest := hs.sub (fun c hc => by rw [e1]; simp [hc])
              have hr1c : Clean r1 := hrest.trim.sub (fun c hc => by rw [hr1]; simp [hc])
              have hvc : Clean v := hr1c.sub (fun c hc => by rw [e2]; simp [hc])
              have hr2c : Clean r2 := hr1c.sub (fun c hc => by rw [e2]; simp [hc])
              refine scanAttrs_NameOk fuel _ _ attrs h hr2c.trim ?_
              intro kv hkv
              rcases mem_mapInsert _ _ _ _ _ hkv with rfl | hkv
              · exact NameOk_trim hvc hq
              · exact hacc kv hkv
          · cases h

theorem sub_chain (sdata : Str) (t cl : Bool) (c : Char)
    (hc : c ∈ trim ((trim (if cl = true then (if t = true then sdata.drop 1 else sdata).dropLast
        else (if t = true then sdata.drop 1 else sdata))).dropWhile (fun c => !isWs c))) : c ∈ sdata := by
  have h1 := (List.dropWhile_sublist _).subset (mem_trim hc)
  have h2 := mem_trim h1
  have h3 : c ∈ (if t = true then sdata.drop 1 else sdata) := by
    split at h2
    · exact (List.dropLast_subset _) h2
    · exact h2
  split at h3
  · exact List.mem_of_mem_drop h3
  · exact h3

theorem scanMarkup_NameOk {sline : Str} {m : Markup} (h : scanMarkup sline = .ok (some m))
    (hnl : '\n' ∉ sline) : ∀ kv ∈ m.attrs, NameOk kv.2 := by
  unfold scanMarkup at h
  simp only at h
  generalize hsd : C11.trim (List.drop 1 sline).dropLast = sdata at h
  generalize ht : (sdata.head? == some '/') = termin at h
  generalize hcl : (sdata.getLast? == some '/') = closed at h
  generalize hbody : C11.trim (if closed = true then (if termin = true then sdata.drop 1 else sdata).dropLast
      else (if termin = true then sdata.drop 1 else sdata)) = body at h
  generalize hrest : C11.trim (List.dropWhile (fun c => !isWs c) body) = rest at h
  generalize hname : List.takeWhile (fun c => !isWs c) body = name at h
  repeat' split at h
  all_goals first
    | (cases h; done)
    | (simp only [Except.ok.injEq, Option.some.injEq] at h; subst h; intro kv hkv; cases hkv; done)
    | skip
  rename_i hcont _ _ _ _ _ attrs hattrs
  simp only [Except.ok.injEq, Option.some.injEq] at h
  subst h
  show ∀ kv ∈ attrs, NameOk kv.2
  refine scanAttrs_NameOk _ _ _ _ hattrs ?_ (fun kv hkv => by cases hkv)
  have hsub : ∀ c ∈ rest, c ∈ sdata := by
    intro c hc
    rw [← hrest, ← hbody] at hc
    exact sub_chain sdata termin closed c hc
  simp only [Bool.or_eq_true, List.contains_iff_mem, not_or] at hcont
  intro c hc
  have hcs := hsub c hc
  have hcl : c ∈ sline := by
    rw [← hsd] at hcs
    exact List.mem_of_mem_drop ((List.dropLast_subset _) (mem_trim hcs))
  exact ⟨fun e => hcont.1 (e ▸ hcs), fun e => hcont.2 (e ▸ hcs), fun e => hnl (e ▸ hcl)⟩

theorem splitChar_no_delim (d : Char) : ∀ (s : Str), ∀ p ∈ splitChar d s, d ∉ p
  | [], p, hp => by
    simp [splitChar] at hp; subst hp; simp
  | c :: cs, p, hp => by
    unfold splitChar at hp
    split at hp
    · simp only [List.mem_cons] at hp
      rcases hp with rfl | hp
      · simp
      · exact splitChar_no_delim d cs p hp
    · rename_i hcd
      split at hp
      · simp only [List.mem_singleton] at hp
        subst hp
        simp at hcd
        simp [Ne.symm hcd]
      · rename_i p0 ps hsplit
        simp only [List.mem_cons] at hp
        have ih := splitChar_no_delim d cs
        rw [hsplit] at ih
        rcases hp with rfl | hp
        · have := ih p0 (by simp)
          simp at hcd
          simp [Ne.symm hcd, this]
        · exact ih p (by simp [hp])

theorem mapFind_mem {α : Type} (lt : Str → Str → Bool) (k : Str) :
    ∀ (l : List (Str × α)) (v : α), mapFind lt k l = some v → ∃ kv ∈ l, kv.2 = v
  | [], v, h => by simp [mapFind] at h
  | (k', v') :: rest, v, h => by
    unfold mapFind at h
    split at h
    · cases h
      exact ⟨(k', v'), by simp, rfl⟩
    · obtain ⟨kv, hkv, e⟩ := mapFind_mem lt k rest v h
      exact ⟨kv, by simp [hkv], e⟩

/-- every attribute value the scanner delivers from lines without a line break is an admissible name -/
theorem LinesN_NameOk {lines : List Str} (h : ∀ raw ∈ lines, '\n' ∉ raw) : LinesN NameOk lines := by
  intro raw hraw m hm k v hv
  obtain ⟨kv, hkv, rfl⟩ := mapFind_mem _ _ _ _ hv
  exact scanMarkup_NameOk hm (fun hc => h raw hraw (mem_trim hc)) kv hkv

theorem LinesN_splitLines (text : Str) : LinesN NameOk (splitLines text) :=
  LinesN_NameOk (splitChar_no_delim '\n' text)

theorem LinesN.sub {N : Str → Prop} {l l' : List Str} (h : LinesN N l) (hs : ∀ r ∈ l', r ∈ l) : LinesN N l' :=
  fun raw hraw => h raw (hs raw hraw)

theorem readRoot_rest_sub : ∀ (lines : List Str) (i : Nat) (m : Markup) (iline : Nat) (rest : List Str),
    readRoot lines i = .ok (m, iline, rest) → ∀ r ∈ rest, r ∈ lines
  | [], i, m, iline, rest, h => by simp [readRoot] at h
  | raw :: tl, i, m, iline, rest, h => by
    unfold readRoot at h
    simp only at h
    split at h
    · intro r hr
      exact List.mem_cons_of_mem _ (readRoot_rest_sub tl _ m iline rest h r hr)
    · split at h
      · cases h
      · cases h
      · split at h
        · cases h
        · simp only [Except.ok.injEq, Prod.mk.injEq] at h
          obtain ⟨_, _, rfl⟩ := h
          intro r hr
          exact List.mem_cons_of_mem _ hr

theorem NameOk_nil : NameOk [] := ⟨rfl, fun _ hc => by cases hc⟩

/-- the parsed node satisfies the printable-node hypotheses of `C11RoundTrip2` -/
theorem PartOkFull_of_wf {sh : Shape} {dim : Nat} {name : Str} {p : Part}
    (h : Part.wf sh dim p) (hx : Part.wfX NameOk name p) (b1 : p.chart = []) (a7 : p.noTopoEmpty)
    (a9 : p.hasTopo = true → zeroBelow p.sizes = false) : PartOkFull sh dim name p := by
  obtain ⟨a1, a2, a3, a4, a5, a6, a8⟩ := h
  obtain ⟨b2, b3, b4, b5⟩ := hx
  refine ⟨b1, a1, a2, a3, a5, a6, ?_, b2, a4, b3, ?_, b5, a9⟩
  · intro hT
    rw [List.eq_replicate_iff]
    exact ⟨a5, a7 hT⟩
  · intro na hna
    obtain ⟨c1, c2, c3, c4⟩ := a8 na hna
    obtain ⟨d1, d2⟩ := b4 na hna
    exact ⟨d1, c1, c2, c3, c4⟩

theorem PartitionOk_of_wf {p : Partition} (h : p.wf) (hx : p.wfX NameOk) : PartitionOk p := by
  obtain ⟨a1, a2, a3⟩ := h
  obtain ⟨b1, b2, b3, b4, b5⟩ := hx
  exact ⟨b1, b2, b3, b4, b5, a1, a2, a3⟩

theorem parseMeshFile_decomp {text : Str} {sh : Shape} {dim : Nat} {n : Node}
    (h : parseMeshFile text = .ok sh dim n) :
    ∃ m iline rest sd wd, readRoot (splitLines text) 0 = .ok (m, iline, rest) ∧
      rootType iline m = .ok (some (sh, sd, wd)) ∧
      supported sh sd wd = true ∧ parseBody sh sd.toNat wd.toNat m iline rest = .ok sh dim n := by
  unfold parseMeshFile at h
  split at h
  · cases h
  · rename_i m iline rest hroot
    split at h
    · cases h
    · cases h
    · rename_i sh' sd wd hrt
      split at h
      · cases h
      · rename_i hsup
        have := (parseBody_ok_type h).1
        subst this
        exact ⟨m, iline, rest, sd, wd, hroot, hrt, by simpa using hsup, h⟩

end S2

/-! ### the linker's deduction list, seen from the text -/

/-- the linker's deduction list of a `parseBody` run: the names of the `topology="parent"` mesh parts -/
def deductOfBody (sh : Shape) (dim wdim : Nat) (m : Markup) (iline : Nat) (rest : List Str) : List Str :=
  match scanLoop meshClient rest iline [m.name]
      { shape := sh, dim := dim, wdim := wdim, stack := [Frame.root],
          node := { mesh := none, parts := [], partitions := [], wdim := wdim },
        links := [], deduct := [], unmodelled := false } with
  | .ok st => st.deduct
  | .error _ => []

/-- the names of the `topology="parent"` mesh parts of a mesh file (as `parseMeshFile` sees them) -/
def deductNames (text : Str) : List Str :=
  match readRoot (splitLines text) 0 with
  | .ok (m, iline, rest) =>
    match rootType iline m with
    | .ok (some (sh, sd, wd)) => deductOfBody sh sd.toNat wd.toNat m iline rest
    | _ => []
  | .error _ => []

/-- the same for the second-generation parse with a fixed mesh type -/
def deductNamesAs (sh : Shape) (dim wdim : Nat) (text : Str) : List Str :=
  match readRoot (splitLines text) 0 with
  | .ok (m, iline, rest) => deductOfBody sh dim wdim m iline rest
  | .error _ => []

/-- mesh parts whose topology was not deducted by the linker: no entity count of zero below a non-zero one (if
    the part has a topology), empty index sets (if it has none) -/
theorem parseBody_parts_nonded {sh sh' : Shape} {dim dim' wdim : Nat} {m : Markup} {iline : Nat} {rest : List Str}
    {n : Node} (h : parseBody sh dim wdim m iline rest = .ok sh' dim' n) :
    ∀ np ∈ n.parts, np.1 ∉ deductOfBody sh dim wdim m iline rest →
      (np.2.hasTopo = true → zeroBelow np.2.sizes = false) ∧ np.2.noTopoEmpty := by
  obtain ⟨_, _, _, _, st, hscan, _, _, hz, _⟩ :=
    S2.parseBody_node_ok (N := fun _ => True) trivial (fun _ _ _ _ _ _ _ => trivial) h
  unfold deductOfBody
  rw [hscan]
  exact hz

/-- **a mesh part without topology has empty index sets** — for every part of every accepted file: a part on
    the linker's deduction list was declared `topology="parent"` (no two `<MeshPart>` frames are open at once and
    part names are unique), so it has a topology -/
theorem parseBody_parts_noTopoEmpty {sh sh' : Shape} {dim dim' wdim : Nat} {m : Markup} {iline : Nat}
    {rest : List Str} {n : Node} (h : parseBody sh dim wdim m iline rest = .ok sh' dim' n) :
    ∀ np ∈ n.parts, np.2.noTopoEmpty := by
  obtain ⟨_, _, _, _, st, _, _, _, hz, _, hd⟩ :=
    S2.parseBody_node_ok (N := fun _ => True) trivial (fun _ _ _ _ _ _ _ => trivial) h
  intro np hnp
  by_cases hin : np.1 ∈ st.deduct
  · intro hF
    rw [hd np hnp hin] at hF
    cases hF
  · exact (hz np hnp hin).2

/-- every mesh part with a topology (`topology="full"` or deducted from `topology="parent"`): no entity count of
    zero below a non-zero one -/
theorem parseBody_parts_no_zero_below_all {sh sh' : Shape} {dim dim' wdim : Nat} {m : Markup} {iline : Nat}
    {rest : List Str} {n : Node} (h : parseBody sh dim wdim m iline rest = .ok sh' dim' n) :
    ∀ np ∈ n.parts, np.2.hasTopo = true → zeroBelow np.2.sizes = false := by
  obtain ⟨_, _, _, _, st, _, _, _, _, hz, _⟩ :=
    S2.parseBody_node_ok (N := fun _ => True) trivial (fun _ _ _ _ _ _ _ => trivial) h
  exact hz

theorem parseMeshFile_parts_nonded {text : Str} {sh : Shape} {dim : Nat} {n : Node}
    (h : parseMeshFile text = .ok sh dim n) :
    ∀ np ∈ n.parts, np.1 ∉ deductNames text →
      (np.2.hasTopo = true → zeroBelow np.2.sizes = false) ∧ np.2.noTopoEmpty := by
  obtain ⟨m, iline, rest, sd, wd, hroot, hrt, _, hbody⟩ := S2.parseMeshFile_decomp h
  have := parseBody_parts_nonded hbody
  unfold deductNames
  rw [hroot]
  simp only [hrt]
  exact this

/-- **no empty entity dimension below a non-empty one** for mesh parts with an own (`topology="full"`) topology.
    (Older, weaker form kept for its users; `parseMeshFile_parts_no_zero_below_all` drops the `deductNames` side
    condition: the reader checks this for `topology="parent"` parts as well.) -/
theorem parseMeshFile_parts_no_zero_below {text : Str} {sh : Shape} {dim : Nat} {n : Node}
    (h : parseMeshFile text = .ok sh dim n) :
    ∀ np ∈ n.parts, np.1 ∉ deductNames text → np.2.hasTopo = true → zeroBelow np.2.sizes = false :=
  fun np hnp hni => (parseMeshFile_parts_nonded h np hnp hni).1

theorem reparse_parts_no_zero_below {text : Str} {sh sh' : Shape} {dim dim' wdim : Nat} {n : Node}
    (h : reparse sh dim wdim text = .ok sh' dim' n) :
    ∀ np ∈ n.parts, np.1 ∉ deductNamesAs sh dim wdim text → np.2.hasTopo = true → zeroBelow np.2.sizes = false := by
  unfold reparse at h
  split at h
  · cases h
  · rename_i m iline rest hroot
    split at h
    · cases h
    · have := parseBody_parts_nonded h
      unfold deductNamesAs
      rw [hroot]
      exact fun np hnp hni => (this np hnp hni).1

/-- **no empty entity dimension below a non-empty one, for EVERY mesh part with a topology** — `topology="full"`
    and `topology="parent"` alike (`MeshPartParser::create` rejects the size list for every part that has or will
    get a topology). -/
theorem parseMeshFile_parts_no_zero_below_all {text : Str} {sh : Shape} {dim : Nat} {n : Node}
    (h : parseMeshFile text = .ok sh dim n) :
    ∀ np ∈ n.parts, np.2.hasTopo = true → zeroBelow np.2.sizes = false := by
  obtain ⟨m, iline, rest, sd, wd, _, _, _, hbody⟩ := S2.parseMeshFile_decomp h
  exact parseBody_parts_no_zero_below_all hbody

theorem reparse_parts_no_zero_below_all {text : Str} {sh sh' : Shape} {dim dim' wdim : Nat} {n : Node}
    (h : reparse sh dim wdim text = .ok sh' dim' n) :
    ∀ np ∈ n.parts, np.2.hasTopo = true → zeroBelow np.2.sizes = false := by
  unfold reparse at h
  split at h
  · cases h
  · split at h
    · cases h
    · exact parseBody_parts_no_zero_below_all h

/-- **a mesh part without topology has empty index sets**, for every part of every accepted file -/
theorem parseMeshFile_parts_noTopoEmpty {text : Str} {sh : Shape} {dim : Nat} {n : Node}
    (h : parseMeshFile text = .ok sh dim n) : ∀ np ∈ n.parts, np.2.noTopoEmpty := by
  obtain ⟨m, iline, rest, sd, wd, _, _, _, hbody⟩ := S2.parseMeshFile_decomp h
  exact parseBody_parts_noTopoEmpty hbody

theorem reparse_parts_noTopoEmpty {text : Str} {sh sh' : Shape} {dim dim' wdim : Nat} {n : Node}
    (h : reparse sh dim wdim text = .ok sh' dim' n) : ∀ np ∈ n.parts, np.2.noTopoEmpty := by
  unfold reparse at h
  split at h
  · cases h
  · split at h
    · cases h
    · exact parseBody_parts_noTopoEmpty h

/-- every mesh part on the linker's deduction list (`topology="parent"`) has a topology in the result -/
theorem parseMeshFile_deducted_hasTopo {text : Str} {sh : Shape} {dim : Nat} {n : Node}
    (h : parseMeshFile text = .ok sh dim n) : ∀ np ∈ n.parts, np.1 ∈ deductNames text → np.2.hasTopo = true := by
  obtain ⟨m, iline, rest, sd, wd, hroot, hrt, _, hbody⟩ := S2.parseMeshFile_decomp h
  obtain ⟨_, _, _, _, st, hscan, _, _, _, _, hd⟩ :=
    S2.parseBody_node_ok (N := fun _ => True) trivial (fun _ _ _ _ _ _ _ => trivial) hbody
  unfold deductNames deductOfBody
  rw [hroot]
  simp only [hrt, hscan]
  exact hd

/-- a chart-linked mesh part refers to a chart of the atlas -/
theorem parseMeshFile_chart_links {text : Str} {sh : Shape} {dim : Nat} {n : Node}
    (h : parseMeshFile text = .ok sh dim n) :
    ∀ np ∈ n.parts, np.2.chart = [] ∨ (mapFind strLt np.2.chart n.charts).isSome = true :=
  (parseMeshFile_node_ok' h).1.partsChart

/-- without charts no mesh part has a chart link -/
theorem parseMeshFile_no_charts {text : Str} {sh : Shape} {dim : Nat} {n : Node}
    (h : parseMeshFile text = .ok sh dim n) (hc : n.charts = []) : ∀ np ∈ n.parts, np.2.chart = [] := by
  intro np hnp
  rcases parseMeshFile_chart_links h np hnp with h1 | h1
  · exact h1
  · rw [hc] at h1
    simp [mapFind] at h1

/-- **parser outputs are printable**: an accepted file without charts yields a node that satisfies all side
    conditions of the round-trip theorems of `C11RoundTrip2`, provided the parts with a topology have no entity
    count of zero below a non-zero one and the parts without have empty index sets (both hold for every part that
    was not declared `topology="parent"`: `parseMeshFile_parts_nonded`) -/
theorem parseMeshFile_printable (text : Str) (sh : Shape) (dim : Nat) (n : Node)
    (h : parseMeshFile text = .ok sh dim n) (hc : n.charts = [])
    (hzb : ∀ np ∈ n.parts, np.2.hasTopo = true → zeroBelow np.2.sizes = false)
    (hnt : ∀ np ∈ n.parts, np.2.noTopoEmpty) :
    supported sh (dim : Int) (n.wdim : Int) = true ∧
    (∀ m, n.mesh = some m → m.wf sh dim n.wdim = true ∧ (∀ s ∈ m.sizes, s < 2 ^ 64) ∧ zeroBelow m.sizes = false) ∧
    (∀ np ∈ n.parts, PartOkFull sh dim np.1 np.2) ∧
    n.parts.Pairwise (fun a b => strLt a.1 b.1 = true) ∧
    (∀ p ∈ n.partitions, PartitionOk p) ∧
    mapOutOfRange n = false := by
  obtain ⟨m, iline, rest, sd, wd, hroot, _, hsup, hbody⟩ := S2.parseMeshFile_decomp h
  have hN : S2.LinesN NameOk rest :=
    (S2.LinesN_splitLines text).sub (S2.readRoot_rest_sub _ _ _ _ _ hroot)
  obtain ⟨_, hdim, hn, hmap, _⟩ := S2.parseBody_node_ok S2.NameOk_nil hN hbody
  refine ⟨?_, ?_, ?_, hn.partsSorted, ?_, hmap⟩
  · exact parseMeshFile_supported h
  · intro msh hm
    exact ⟨parseMeshFile_mesh_wf text sh dim n msh h hm, hn.mesh64 msh hm, hn.meshZB msh hm⟩
  · intro np hnp
    subst hdim
    exact S2.PartOkFull_of_wf (hn.parts np hnp).1 (hn.parts np hnp).2 (parseMeshFile_no_charts h hc np hnp)
      (hnt np hnp) (hzb np hnp)
  · intro p hp
    exact S2.PartitionOk_of_wf (hn.partitions p hp).1 (hn.partitions p hp).2

/-- **parse ∘ print ∘ parse = parse**: re-parsing the written form of an accepted file (with a root mesh, without
    charts) gives the same node back.  `hzb` / `hnt` hold for all parts that were not declared `topology="parent"`
    (`parseMeshFile_parts_nonded`); a deducted part is written as `topology="full"`, for which the reader demands
    `hzb`. -/
theorem parse_print_parse (text : Str) (sh : Shape) (dim : Nat) (n : Node)
    (h : parseMeshFile text = .ok sh dim n) (hm : n.mesh.isSome) (hc : n.charts = [])
    (hzb : ∀ np ∈ n.parts, np.2.hasTopo = true → zeroBelow np.2.sizes = false)
    (hnt : ∀ np ∈ n.parts, np.2.noTopoEmpty) :
    parseMeshFile (printMeshFile sh dim n) = .ok sh dim n := by
  obtain ⟨hs, hmesh, hp, hsorted, hpt, hmap⟩ := parseMeshFile_printable text sh dim n h hc hzb hnt
  obtain ⟨mesh, parts, partitions, charts, wd⟩ := n
  simp only at hc
  subst hc
  cases mesh with
  | none => simp at hm
  | some msh =>
    obtain ⟨hwf, h64, hzb'⟩ := hmesh msh rfl
    exact parse_print_node_full sh dim wd msh parts partitions hs hwf h64 hzb' hp hsorted hpt hmap

/-- `parseMeshFile_printable` without the `hzb` / `hnt` hypotheses: every accepted file without charts yields a
    printable node -/
theorem parseMeshFile_printable_nocharts (text : Str) (sh : Shape) (dim : Nat) (n : Node)
    (h : parseMeshFile text = .ok sh dim n) (hc : n.charts = []) :
    supported sh (dim : Int) (n.wdim : Int) = true ∧
    (∀ m, n.mesh = some m → m.wf sh dim n.wdim = true ∧ (∀ s ∈ m.sizes, s < 2 ^ 64) ∧ zeroBelow m.sizes = false) ∧
    (∀ np ∈ n.parts, PartOkFull sh dim np.1 np.2) ∧
    n.parts.Pairwise (fun a b => strLt a.1 b.1 = true) ∧
    (∀ p ∈ n.partitions, PartitionOk p) ∧
    mapOutOfRange n = false :=
  parseMeshFile_printable text sh dim n h hc (parseMeshFile_parts_no_zero_below_all h)
    (parseMeshFile_parts_noTopoEmpty h)

/-- `parse_print_parse` without the `hzb` hypothesis: the reader itself guarantees it for every part with a
    topology (`parseMeshFile_parts_no_zero_below_all`) -/
theorem parse_print_parse_nozb (text : Str) (sh : Shape) (dim : Nat) (n : Node)
    (h : parseMeshFile text = .ok sh dim n) (hm : n.mesh.isSome) (hc : n.charts = [])
    (hnt : ∀ np ∈ n.parts, np.2.noTopoEmpty) :
    parseMeshFile (printMeshFile sh dim n) = .ok sh dim n :=
  parse_print_parse text sh dim n h hm hc (parseMeshFile_parts_no_zero_below_all h) hnt

/-- **parse ∘ print ∘ parse = parse for every accepted file with a root mesh and without charts** — no further
    hypotheses (`topology="parent"` parts included: they are written as `topology="full"`) -/
theorem parse_print_parse_nocharts (text : Str) (sh : Shape) (dim : Nat) (n : Node)
    (h : parseMeshFile text = .ok sh dim n) (hm : n.mesh.isSome) (hc : n.charts = []) :
    parseMeshFile (printMeshFile sh dim n) = .ok sh dim n :=
  parse_print_parse_nozb text sh dim n h hm hc (parseMeshFile_parts_noTopoEmpty h)

/-- closed form for files without `topology="parent"` parts and without charts: no further hypotheses -/
theorem parse_print_parse_noparent (text : Str) (sh : Shape) (dim : Nat) (n : Node)
    (h : parseMeshFile text = .ok sh dim n) (hm : n.mesh.isSome) (hc : n.charts = [])
    (hd : deductNames text = []) :
    parseMeshFile (printMeshFile sh dim n) = .ok sh dim n :=
  parse_print_parse text sh dim n h hm hc
    (fun np hnp => (parseMeshFile_parts_nonded h np hnp (by rw [hd]; simp)).1)
    (fun np hnp => (parseMeshFile_parts_nonded h np hnp (by rw [hd]; simp)).2)

/-- the same for an accepted file without a root mesh: the written file carries no mesh type, so the first parse
    reports `notype` and the second-generation parse with the known type gives the node back.  Without a root mesh
    the linker cannot deduct a topology, so only the `charts = []` restriction is needed. -/
theorem parse_print_reparse (text : Str) (sh : Shape) (dim : Nat) (n : Node)
    (h : parseMeshFile text = .ok sh dim n) (hm : n.mesh = none) (hc : n.charts = []) :
    parseMeshFile (printMeshFile sh dim n) = .notype ∧
    reparse sh dim n.wdim (printMeshFile sh dim n) = .ok sh dim n := by
  have hded : deductNames text = [] := by
    obtain ⟨m, iline, rest, sd, wd, hroot, hrt, _, hbody⟩ := S2.parseMeshFile_decomp h
    obtain ⟨_, _, st, n1, hscan, _, hl, _, hd⟩ := parseBody_ok_run hbody
    unfold deductNames deductOfBody
    rw [hroot]
    simp only [hrt, hscan]
    cases hq : st.deduct with
    | nil => rfl
    | cons a l =>
      rw [hq] at hd
      have hm1 : n1.mesh = none := by rw [← (resolveDeduct_fields _ _ _ hd).1]; exact hm
      simp [resolveDeduct, hm1] at hd
  have hnd := parseMeshFile_parts_nonded h
  rw [hded] at hnd
  obtain ⟨hs, _, hp, hsorted, hpt, _⟩ := parseMeshFile_printable text sh dim n h hc
    (fun np hnp => (hnd np hnp (by simp)).1) (fun np hnp => (hnd np hnp (by simp)).2)
  have hdim : dim + 1 < 2 ^ 64 := by
    unfold supported at hs
    simp only [Bool.and_eq_true, Bool.or_eq_true, beq_iff_eq] at hs
    omega
  obtain ⟨mesh, parts, partitions, charts, wd⟩ := n
  simp only at hm hc
  subst hm hc
  exact reparse_print_nomesh sh dim wd parts partitions hdim hp hsorted hpt

/-- the mesh type of an accepted file is the one declared in the root markup: `dim` and `n.wdim` are the shape and
    world dimension that `read_root_markup` reads from the `mesh` attribute of the first markup line -/
theorem parseMeshFile_root_type {text : Str} {sh : Shape} {dim : Nat} {n : Node}
    (h : parseMeshFile text = .ok sh dim n) :
    ∃ m iline rest, readRoot (splitLines text) 0 = .ok (m, iline, rest) ∧
      rootType iline m = .ok (some (sh, (dim : Int), (n.wdim : Int))) := by
  obtain ⟨m, iline, rest, sd, wd, hroot, hrt, hsup, hbody⟩ := S2.parseMeshFile_decomp h
  refine ⟨m, iline, rest, hroot, ?_⟩
  have hd := (parseBody_ok_type hbody).2
  have hw := parseBody_ok_wdim hbody
  have hnn : (0 : Int) ≤ sd ∧ (0 : Int) ≤ wd := by
    simp only [supported, Bool.or_eq_true, Bool.and_eq_true, beq_iff_eq] at hsup
    omega
  rw [hrt, hd, hw, Int.toNat_of_nonneg hnn.1, Int.toNat_of_nonneg hnn.2]

end FeatModel.C11
