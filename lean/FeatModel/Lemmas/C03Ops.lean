import FeatModel.Lemmas.C03Merge
/-! Matrix-level consequences of the merge lemmas and the row-loop kernels (property C03). -/
set_option linter.unusedSectionVars false
namespace FeatModel.LA.MatAlg
open FeatModel.LA

section Products
variable {α : Type} [CommRing α]

/-- all rows of X: the restricted-product formula, whatever `allow_incomplete` is, when the call returns -/
theorem products_spec (allow : Bool) (n : Nat) (xrow : Nat → Row α) (ws : Nat → List (α × Row α))
    (hx : ∀ i, SortedCols (xrow i)) (hw : ∀ i, ∀ w ∈ ws i, SortedCols w.2) (R : List (Row α))
    (h : forRows (fun i => mergeMany allow (xrow i) (terms (ws i))) (List.range n) = .ok R) :
    R.length = n ∧ ∀ i, i < n → ∃ r, R[i]? = some r ∧ rowCols r = rowCols (xrow i) ∧
      ∀ j, rowVal r j = rowVal (xrow i) j +
        ((ws i).map fun w => w.1 * (if j ∈ rowCols (xrow i) then rowVal w.2 j else 0)).sum := by
  obtain ⟨hl, hk⟩ := forRows_ok _ _ R h
  refine ⟨by simpa using hl, fun i hi => ?_⟩
  obtain ⟨r, hr, hf⟩ := hk i (by simpa using hi)
  simp only [List.getElem_range] at hf
  obtain ⟨hc, hv⟩ := mergeMany_spec allow (ws i) (xrow i) (hx i) (hw i) r hf
  exact ⟨r, hr, hc, hv⟩

/-- `allow_incomplete = false`: a normal return carries the full (unrestricted) product -/
theorem products_spec_strict (n : Nat) (xrow : Nat → Row α) (ws : Nat → List (α × Row α))
    (hx : ∀ i, SortedCols (xrow i)) (hw : ∀ i, ∀ w ∈ ws i, SortedCols w.2) (R : List (Row α))
    (h : forRows (fun i => mergeMany false (xrow i) (terms (ws i))) (List.range n) = .ok R) :
    R.length = n ∧ ∀ i, i < n → ∃ r, R[i]? = some r ∧ rowCols r = rowCols (xrow i) ∧
      ∀ j, rowVal r j = rowVal (xrow i) j + ((ws i).map fun w => w.1 * rowVal w.2 j).sum := by
  obtain ⟨hl, hk⟩ := forRows_ok _ _ R h
  refine ⟨by simpa using hl, fun i hi => ?_⟩
  obtain ⟨r, hr, hf⟩ := hk i (by simpa using hi)
  simp only [List.getElem_range] at hf
  exact ⟨r, hr, (mergeMany_spec false (ws i) (xrow i) (hx i) (hw i) r hf).1,
    mergeMany_spec_strict (ws i) (xrow i) (hx i) (hw i) r hf⟩

/-- `allow_incomplete = false` and some merged row of B has a column that row `i` of X lacks ⇒ abort -/
theorem products_reported {β γ : Type} (n : Nat) (xrow : Nat → Row β) (ts : Nat → List ((β → γ → β) × Row γ))
    (i : Nat) (hi : i < n) (t : (β → γ → β) × Row γ) (ht : t ∈ ts i) (c : Nat) (hc : c ∈ rowCols t.2)
    (hmiss : c ∉ rowCols (xrow i)) :
    ∃ e, forRows (fun i => mergeMany false (xrow i) (ts i)) (List.range n) = .error e := by
  cases h1 : mergeMany false (xrow i) (ts i) with
  | ok r => exact absurd (mergeMany_strict_ok_subset (ts i) (xrow i) r h1 t ht c hc) hmiss
  | error e => exact forRows_error _ _ i (List.mem_range.mpr hi) e h1

/-- `allow_incomplete = true` never aborts (on matching dimensions) -/
theorem products_allow_ok {β γ : Type} (n : Nat) (xrow : Nat → Row β) (ts : Nat → List ((β → γ → β) × Row γ)) :
    ∃ R, forRows (fun i => mergeMany true (xrow i) (ts i)) (List.range n) = .ok R :=
  forRows_all_ok _ _ (fun i _ => mergeMany_allow_ok (ts i) (xrow i))

/-- complete pattern ⇒ never aborts, whatever the flag -/
theorem mergeMany_complete_ok {β γ : Type} (allow : Bool) (ts : List ((β → γ → β) × Row γ)) :
    ∀ xs : Row β, SortedCols xs → (∀ t ∈ ts, SortedCols t.2) → (∀ t ∈ ts, ∀ c ∈ rowCols t.2, c ∈ rowCols xs) →
      ∃ r, mergeMany allow xs ts = .ok r := by
  induction ts with
  | nil => intro xs _ _ _; exact ⟨xs, rfl⟩
  | cons t ts ih =>
    intro xs hx hs hsub
    obtain ⟨f, br⟩ := t
    obtain ⟨r1, h1⟩ := mergeRow_complete_ok allow f xs br hx (hs _ List.mem_cons_self) (hsub _ List.mem_cons_self)
    have hc := mergeRow_cols allow f xs br r1 h1
    obtain ⟨r, h⟩ := ih r1 (by unfold SortedCols; rw [hc]; exact hx) (fun t ht => hs t (List.mem_cons_of_mem _ ht))
      (fun t ht c hcc => by rw [hc]; exact hsub t (List.mem_cons_of_mem _ ht) c hcc)
    exact ⟨r, by simp only [mergeMany, h1]; exact h⟩

theorem products_complete_ok {β γ : Type} (allow : Bool) (n : Nat) (xrow : Nat → Row β)
    (ts : Nat → List ((β → γ → β) × Row γ))
    (hx : ∀ i, SortedCols (xrow i)) (hs : ∀ i, ∀ t ∈ ts i, SortedCols t.2)
    (hsub : ∀ i, i < n → ∀ t ∈ ts i, ∀ c ∈ rowCols t.2, c ∈ rowCols (xrow i)) :
    ∃ R, forRows (fun i => mergeMany allow (xrow i) (ts i)) (List.range n) = .ok R :=
  forRows_all_ok _ _ (fun i hi => mergeMany_complete_ok allow (ts i) (xrow i) (hx i) (hs i) (hsub i (List.mem_range.mp hi)))

/-- all rows of X, algebra-free: every returned row is the entry-wise image of the old row under the sequence of updates -/
theorem products_eq_map {β γ : Type} (allow : Bool) (n : Nat) (xrow : Nat → Row β) (ts : Nat → List ((β → γ → β) × Row γ))
    (hx : ∀ i, SortedCols (xrow i)) (hs : ∀ i, ∀ t ∈ ts i, SortedCols t.2) (R : List (Row β))
    (h : forRows (fun i => mergeMany allow (xrow i) (ts i)) (List.range n) = .ok R) :
    R.length = n ∧ ∀ i, i < n → R[i]? = some ((xrow i).map (applyMany (ts i))) := by
  obtain ⟨hl, hk⟩ := forRows_ok _ _ R h
  refine ⟨by simpa using hl, fun i hi => ?_⟩
  obtain ⟨r, hr, hf⟩ := hk i (by simpa using hi)
  simp only [List.getElem_range] at hf
  rw [hr, mergeMany_eq_map allow (ts i) (xrow i) (hx i) (hs i) r hf]

/-- weights of the three CSR products -/
def wMM (alpha : α) (D B : Csr α) (i : Nat) : List (α × Row α) :=
  (csrRow D i).map fun kd => (alpha * kd.2, csrRow B kd.1)
def wDMM (alpha : α) (D A B : Csr α) (i : Nat) : List (α × Row α) :=
  (csrRow D i).flatMap fun kd => (csrRow A kd.1).map fun la => (alpha * kd.2 * la.2, csrRow B la.1)
def wDGM (alpha : α) (D : Csr α) (a : Array α) (B : Csr α) (i : Nat) : List (α × Row α) :=
  (csrRow D i).map fun kd => (alpha * kd.2 * a.getD kd.1 0, csrRow B kd.1)

theorem csrAddMatMat_eq (allow : Bool) (alpha : α) (X D B : Csr α) :
    csrAddMatMat allow alpha X D B =
      if X.rows != D.rows || D.cols != B.rows || B.cols != X.cols then .error .dims
      else forRows (fun i => mergeMany allow (csrRow X i) (terms (wMM alpha D B i))) (List.range X.rows) := by
  simp only [csrAddMatMat, terms, wMM, List.map_map]
  rfl

theorem csrAddDoubleMatMat_eq (allow : Bool) (alpha : α) (X D A B : Csr α) :
    csrAddDoubleMatMat allow alpha X D A B =
      if X.rows != D.rows || D.cols != A.rows || A.cols != B.rows || B.cols != X.cols then .error .dims
      else forRows (fun i => mergeMany allow (csrRow X i) (terms (wDMM alpha D A B i))) (List.range X.rows) := by
  simp only [csrAddDoubleMatMat, terms, wDMM, List.map_flatMap, List.map_map]
  rfl

theorem csrAddDoubleDiag_eq (allow : Bool) (alpha : α) (X D : Csr α) (a : Array α) (B : Csr α) :
    csrAddDoubleDiag allow alpha X D a B =
      if X.rows != D.rows || D.cols != a.size || a.size != B.rows || B.cols != X.cols then .error .dims
      else forRows (fun i => mergeMany allow (csrRow X i) (terms (wDGM alpha D a B i))) (List.range X.rows) := by
  simp only [csrAddDoubleDiag, terms, wDGM, List.map_map]
  rfl

theorem wMM_sorted (alpha : α) (D B : Csr α) (hB : ∀ k, SortedCols (csrRow B k)) (i : Nat) :
    ∀ w ∈ wMM alpha D B i, SortedCols w.2 := by
  intro w hw
  simp only [wMM, List.mem_map] at hw
  obtain ⟨kd, _, rfl⟩ := hw
  exact hB _

theorem wDMM_sorted (alpha : α) (D A B : Csr α) (hB : ∀ k, SortedCols (csrRow B k)) (i : Nat) :
    ∀ w ∈ wDMM alpha D A B i, SortedCols w.2 := by
  intro w hw
  simp only [wDMM, List.mem_flatMap, List.mem_map] at hw
  obtain ⟨kd, _, la, _, rfl⟩ := hw
  exact hB _

theorem wDGM_sorted (alpha : α) (D : Csr α) (a : Array α) (B : Csr α) (hB : ∀ k, SortedCols (csrRow B k)) (i : Nat) :
    ∀ w ∈ wDGM alpha D a B i, SortedCols w.2 := by
  intro w hw
  simp only [wDGM, List.mem_map] at hw
  obtain ⟨kd, _, rfl⟩ := hw
  exact hB _

end Products

section RowOps
variable {α : Type} [CommRing α]

theorem foldl_add_eq_sum {β : Type} (g : β → α) (l : List β) (init : α) :
    l.foldl (fun s p => s + g p) init = init + (l.map g).sum := by
  induction l generalizing init with
  | nil => simp
  | cons p t ih => simp only [List.foldl_cons, List.map_cons, List.sum_cons, ih]; ring

/-- row sums: the lumped value is the sum of the dense row -/
theorem lumpRow_eq_sum (r : Row α) : lumpRow r = (r.map Prod.snd).sum := by
  unfold lumpRow
  rw [foldl_add_eq_sum (fun p => p.2) r 0, zero_add]

theorem rowNormSq_eq_sum (r : Row α) : rowNormSq r = (r.map fun p => p.2 * p.2).sum := by
  unfold rowNormSq
  rw [foldl_add_eq_sum (fun p => p.2 * p.2) r 0, zero_add]

/-- the sum of all stored values of a row = the sum of its dense entries over any column range containing the
    pattern is not needed here: `rowVal` summed over the distinct columns of a sorted row gives the same -/
theorem rowVal_map_mul (r : Row α) (c : α) (j : Nat) :
    rowVal (r.map fun p => (p.1, p.2 * c)) j = rowVal r j * c := by
  induction r with
  | nil => simp [rowVal]
  | cons p t ih =>
    obtain ⟨k, v⟩ := p
    simp only [List.map_cons, rowVal_cons, ih]
    split <;> ring

theorem rowVal_map_mul_col (r : Row α) (s : Nat → α) (j : Nat) :
    rowVal (r.map fun p => (p.1, p.2 * s p.1)) j = rowVal r j * s j := by
  induction r with
  | nil => simp [rowVal]
  | cons p t ih =>
    obtain ⟨k, v⟩ := p
    simp only [List.map_cons, rowVal_cons, ih]
    split
    · next h => subst h; ring
    · rfl

/-- `scale_rows` / `scale_cols` kernels when `x` has the layout of `this` (in particular `x` = `this`) -/
theorem scaleRowsK_eq (T X : Csr α) (s : Array α) (hp : X.rowPtr = T.rowPtr) (hc : X.colInd = T.colInd) :
    scaleRowsK T X.val s = (List.range T.rows).map fun i => (csrRow X i).map fun p => (p.1, p.2 * s.getD i 0) := by
  simp only [scaleRowsK, csrRow, Csr.rowBegin, Csr.rowEnd, hp, hc, List.map_map]
  rfl

theorem scaleColsK_eq (T X : Csr α) (s : Array α) (hp : X.rowPtr = T.rowPtr) (hc : X.colInd = T.colInd) :
    scaleColsK T X.val s = (List.range T.rows).map fun i => (csrRow X i).map fun p => (p.1, p.2 * s.getD p.1 0) := by
  simp only [scaleColsK, csrRow, Csr.rowBegin, Csr.rowEnd, hp, hc, List.map_map]
  rfl

/-- the diagonal search returns the storage position of the first entry with column = row, else `notFound` -/
theorem diagIndexRow_spec (rb nf row : Nat) : ∀ (cols : List Nat) (k : Nat),
    (row ∉ cols ∧ diagIndexRow rb nf row cols k = nf) ∨
    (∃ t, t < cols.length ∧ cols[t]? = some row ∧ (∀ u, u < t → cols[u]? ≠ some row) ∧
      diagIndexRow rb nf row cols k = rb + k + t) := by
  intro cols
  induction cols with
  | nil => intro k; left; simp [diagIndexRow]
  | cons c t ih =>
    intro k
    by_cases h : row = c
    · right
      exact ⟨0, by simp, by simp [h], by simp, by simp [diagIndexRow, h]⟩
    · rcases ih (k + 1) with ⟨hn, he⟩ | ⟨u, hu, hg, hfirst, he⟩
      · left
        refine ⟨by simp [h, hn], by simp [diagIndexRow, h, he]⟩
      · right
        refine ⟨u + 1, by simp [hu], by simpa using hg, ?_, by simp [diagIndexRow, h, he]; omega⟩
        intro v hv
        cases v with
        | zero => simp; exact fun e => h e.symm
        | succ v => simpa using hfirst v (by omega)

end RowOps

section Shrink
variable {α : Type} [LT α] [DecidableLT α] [Neg α] [Zero α]

/-- `shrink` keeps exactly the entries that are not below the threshold, in order -/
theorem mem_shrinkRow (eps : α) (r : Row α) (p : Nat × α) :
    p ∈ shrinkRow eps r ↔ p ∈ r ∧ ¬ (FeatModel.Vec.absK p.2 < eps) := by
  simp [shrinkRow, List.mem_filter]

theorem shrinkRow_sublist (eps : α) (r : Row α) : (shrinkRow eps r).Sublist r := by
  unfold shrinkRow; exact List.filter_sublist

end Shrink

end FeatModel.LA.MatAlg
