import FeatModel.Lemmas.C03Bcsr
/-! The row-loop members write EVERY entry of their output vector (property C03): `writeAll` on an arbitrary pre-filled array. -/
set_option linter.unusedSectionVars false
namespace FeatModel.LA.MatAlg
open FeatModel.LA

section
variable {α : Type}

theorem writeAll_succ (f : Nat → α) (n : Nat) (out0 : Array α) :
    writeAll f (n + 1) out0 = (writeAll f n out0).setIfInBounds n (f n) := by
  unfold writeAll
  rw [List.range_succ, List.foldl_append]
  rfl

theorem writeAll_size (f : Nat → α) (n : Nat) (out0 : Array α) : (writeAll f n out0).size = out0.size := by
  induction n with
  | zero => rfl
  | succ n ih => rw [writeAll_succ, Array.size_setIfInBounds, ih]

/-- every position `i < n` (inside the array) holds `f i` afterwards, whatever the array held before;
    positions `≥ n` are untouched -/
theorem writeAll_getElem? (f : Nat → α) (n : Nat) (out0 : Array α) (i : Nat) :
    (writeAll f n out0)[i]? = if i < n ∧ i < out0.size then some (f i) else out0[i]? := by
  induction n with
  | zero => simp [writeAll]
  | succ n ih =>
    rw [writeAll_succ, Array.getElem?_setIfInBounds, writeAll_size, ih]
    by_cases h : n = i
    · subst h
      by_cases h2 : n < out0.size
      · simp [h2]
      · simp [h2]
    · rw [if_neg h]
      by_cases h3 : i < n
      · have : i < n + 1 := by omega
        simp [h3, this]
      · have : ¬ i < n + 1 := by omega
        simp [h3, this]

/-- on an output vector of exactly `n` entries the result is the list of the `n` values: nothing of the old content
    survives -/
theorem writeAll_toList (f : Nat → α) (n : Nat) (out0 : Array α) (h : out0.size = n) :
    (writeAll f n out0).toList = (List.range n).map f := by
  apply List.ext_getElem?
  intro i
  rw [Array.getElem?_toList, writeAll_getElem?, h]
  by_cases hi : i < n
  · simp [hi]
  · have : out0[i]? = none := Array.getElem?_eq_none (by omega)
    simp [hi, this]

end
end FeatModel.LA.MatAlg

namespace FeatModel.LA.MatAlg
open FeatModel.LA

theorem toList_getD {α : Type} [Zero α] (a : Array α) (p : Nat) : a.toList.getD p 0 = a.getD p 0 := by
  by_cases h : p < a.size
  · simp [Array.getD, List.getD, h]
  · simp [Array.getD, List.getD, h]

theorem map_getD_range {α : Type} [Zero α] (l : List α) :
    (List.range l.length).map (fun k => l.toArray.getD k 0) = l := by
  apply List.ext_getElem?
  intro i
  by_cases hi : i < l.length
  · simp [hi, Array.getD]
  · simp [hi]

theorem length_flatMap_const {ι κ : Type} (l : List ι) (f : ι → List κ) (c : Nat) (h : ∀ x ∈ l, (f x).length = c) :
    (l.flatMap f).length = l.length * c := by
  induction l with
  | nil => simp
  | cons x t ih =>
    rw [List.flatMap_cons, List.length_append, h x List.mem_cons_self, ih (fun y hy => h y (List.mem_cons_of_mem _ hy)),
      List.length_cons, Nat.add_mul, Nat.one_mul, Nat.add_comm]

section
variable {α : Type} [Zero α] [Add α] [Mul α]

theorem bcsrLump_length (A : Bcsr α) : (bcsrLump A).length = A.rows * A.bh := by
  unfold bcsrLump
  rw [length_flatMap_const _ _ A.bh (fun _ _ => by simp), List.length_range]

theorem bcsrRowNorm2Sqr_length (A : Bcsr α) (sc : Option (Array α)) : (bcsrRowNorm2Sqr A sc).length = A.rows * A.bh := by
  unfold bcsrRowNorm2Sqr
  rw [length_flatMap_const _ _ A.bh (fun _ _ => by simp), List.length_range]

theorem bcsrRowNorm2_length (sqrt : α → α) (A : Bcsr α) : (bcsrRowNorm2 sqrt A).length = A.rows * A.bh := by
  unfold bcsrRowNorm2
  rw [List.length_map, bcsrRowNorm2Sqr_length]

/-- a BCSR `*Into` member overwrites the whole output vector with its list version -/
theorem into_list (l : List α) (n : Nat) (hl : l.length = n) (out0 : Array α) (h : out0.size = n) :
    (writeAll (fun k => l.toArray.getD k 0) n out0).toList = l := by
  rw [writeAll_toList _ _ _ h, ← hl, map_getD_range]

end
end FeatModel.LA.MatAlg
