import FeatModel.Model.RefineCover
/-! C10 local refinement lemma, hexahedron, pairwise covering family, configurations 48..51 (kernel evaluation). -/
namespace FeatModel.Refine
set_option maxRecDepth 100000

theorem cover_hexa_12 : ∀ j < 4, (refine (cell3c .hypercube (j + 48))).consistent = true := by decide +kernel

end FeatModel.Refine
