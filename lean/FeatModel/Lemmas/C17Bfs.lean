import FeatModel.Model.DA.Layers
import FeatModel.Lemmas.C19_cm
/-!
BFS layering of `DomainAssembler::_build_layers` (`bfsLevels`, `bfsOuter`, `buildLayers`):
the layers partition the selected cells (`bfs_layers_partition`) and adjacent cells lie in equal or
consecutive layers (`bfs_adjacent_levels`).
-/
open FeatModel.Adj

namespace FeatModel.DA

/-! ### prefix sums -/

theorem bfs_ps_cons (acc : Nat) (xs : List Nat) :
    ∃ t, Graph.prefixSums acc xs = acc :: t ∧ t.length = xs.length := by
  cases xs with
  | nil => exact ⟨[], rfl, rfl⟩
  | cons x xs =>
    refine ⟨Graph.prefixSums (acc + x) xs, rfl, ?_⟩
    induction xs generalizing acc x with
    | nil => rfl
    | cons y ys ih => simp [Graph.prefixSums, ih]

theorem bfs_ps_length (acc : Nat) (xs : List Nat) :
    (Graph.prefixSums acc xs).length = xs.length + 1 := by
  obtain ⟨t, h1, h2⟩ := bfs_ps_cons acc xs
  rw [h1]; simp [h2]

theorem bfs_ps_snoc (acc : Nat) (xs : List Nat) (y : Nat) :
    Graph.prefixSums acc (xs ++ [y]) = Graph.prefixSums acc xs ++ [acc + xs.sum + y] := by
  induction xs generalizing acc with
  | nil => simp [Graph.prefixSums]
  | cons x xs ih => simp [Graph.prefixSums, ih, Nat.add_assoc]

theorem bfs_ps_getLastD (acc : Nat) (xs : List Nat) :
    (Graph.prefixSums acc xs).getLastD 0 = acc + xs.sum := by
  induction xs generalizing acc with
  | nil => simp [Graph.prefixSums, List.getLastD]
  | cons x xs ih =>
    obtain ⟨t, h1, _⟩ := bfs_ps_cons (acc + x) xs
    have := ih (acc + x)
    rw [h1] at this
    show (acc :: Graph.prefixSums (acc + x) xs).getLastD 0 = _
    rw [h1]
    have e : (acc :: (acc + x) :: t).getLastD 0 = ((acc + x) :: t).getLastD 0 := rfl
    rw [e, this, List.sum_cons]
    omega

theorem bfs_ps_get_last (acc : Nat) (xs : List Nat) :
    (Graph.prefixSums acc xs).getD xs.length 0 = acc + xs.sum := by
  induction xs generalizing acc with
  | nil => simp [Graph.prefixSums]
  | cons x xs ih =>
    simp only [Graph.prefixSums, List.length_cons, List.getD_cons_succ, ih, List.sum_cons]
    omega

theorem bfs_ps_ge (xs : List Nat) : ∀ (acc j : Nat), j < (Graph.prefixSums acc xs).length →
    acc ≤ (Graph.prefixSums acc xs).getD j 0 := by
  induction xs with
  | nil => intro acc j hj; simp [Graph.prefixSums] at hj ⊢; subst hj; simp
  | cons x xs ih =>
    intro acc j hj
    cases j with
    | zero => simp [Graph.prefixSums]
    | succ j =>
      simp only [Graph.prefixSums, List.length_cons, Nat.add_lt_add_iff_right] at hj
      have := ih (acc + x) j hj
      simp only [Graph.prefixSums, List.getD_cons_succ]
      omega

theorem bfs_ps_mono (xs : List Nat) : ∀ (acc i j : Nat), i ≤ j → j < (Graph.prefixSums acc xs).length →
    (Graph.prefixSums acc xs).getD i 0 ≤ (Graph.prefixSums acc xs).getD j 0 := by
  induction xs with
  | nil =>
    intro acc i j hij hj
    simp [Graph.prefixSums] at hj
    have : i = 0 := by omega
    subst this; subst hj; exact Nat.le_refl _
  | cons x xs ih =>
    intro acc i j hij hj
    cases j with
    | zero =>
      have : i = 0 := by omega
      subst this; exact Nat.le_refl _
    | succ j =>
      simp only [Graph.prefixSums, List.length_cons, Nat.add_lt_add_iff_right] at hj
      cases i with
      | zero =>
        have := bfs_ps_ge xs (acc + x) j hj
        simp only [Graph.prefixSums, List.getD_cons_succ, List.getD_cons_zero]
        omega
      | succ i =>
        simp only [Graph.prefixSums, List.getD_cons_succ]
        exact ih (acc + x) i j (by omega) hj

theorem bfs_ps_gt (xs : List Nat) (hpos : ∀ x, x ∈ xs → 0 < x) : ∀ (acc j : Nat), 0 < j →
    j < (Graph.prefixSums acc xs).length → acc < (Graph.prefixSums acc xs).getD j 0 := by
  induction xs with
  | nil => intro acc j h0 hj; simp [Graph.prefixSums] at hj; omega
  | cons x xs ih =>
    intro acc j h0 hj
    cases j with
    | zero => omega
    | succ j =>
      simp only [Graph.prefixSums, List.length_cons, Nat.add_lt_add_iff_right] at hj
      have hx : 0 < x := hpos x (by simp)
      have := bfs_ps_ge xs (acc + x) j hj
      simp only [Graph.prefixSums, List.getD_cons_succ]
      omega

theorem bfs_ps_strict (xs : List Nat) (hpos : ∀ x, x ∈ xs → 0 < x) : ∀ (acc i j : Nat), i < j →
    j < (Graph.prefixSums acc xs).length →
    (Graph.prefixSums acc xs).getD i 0 < (Graph.prefixSums acc xs).getD j 0 := by
  induction xs with
  | nil => intro acc i j hij hj; simp [Graph.prefixSums] at hj; omega
  | cons x xs ih =>
    intro acc i j hij hj
    cases j with
    | zero => omega
    | succ j =>
      cases i with
      | zero =>
        have := bfs_ps_gt (x :: xs) hpos acc (j + 1) (by omega) hj
        simpa [Graph.prefixSums] using this
      | succ i =>
        simp only [Graph.prefixSums, List.length_cons, Nat.add_lt_add_iff_right] at hj
        simp only [Graph.prefixSums, List.getD_cons_succ]
        exact ih (fun y hy => hpos y (by simp [hy])) (acc + x) i j (by omega) hj

/-! ### slices -/

theorem bfs_slices (xs : List Nat) : ∀ (L : List (List Nat)) (acc : Nat), xs.drop acc = L.flatten →
    slices xs (Graph.prefixSums acc (L.map List.length)) = L := by
  intro L
  induction L with
  | nil => intro acc _; simp [Graph.prefixSums, slices]
  | cons l L ih =>
    intro acc h
    obtain ⟨t, h1, _⟩ := bfs_ps_cons (acc + l.length) (L.map List.length)
    have h2 := ih (acc + l.length) (by
      rw [← List.drop_drop, h]; simp)
    simp only [List.map_cons, Graph.prefixSums]
    rw [h1] at h2 ⊢
    simp only [slices, h2, h]
    simp

/-! ### lists of layers -/

theorem bfs_getD_append_lt (L : List (List Nat)) (c : List Nat) (a : Nat) (h : a < L.length) :
    (L ++ [c]).getD a [] = L.getD a [] := by
  simp [List.getD_eq_getElem?_getD, List.getElem?_append_left h]

theorem bfs_getD_append_eq (L : List (List Nat)) (c : List Nat) :
    (L ++ [c]).getD L.length [] = c := by
  simp [List.getD_eq_getElem?_getD]

theorem bfs_getD_ge (L : List (List Nat)) (a : Nat) (h : L.length ≤ a) :
    L.getD a [] = [] := by
  simp [List.getD_eq_getElem?_getD, List.getElem?_eq_none h]

theorem bfs_mem_getD (L : List (List Nat)) (a x : Nat) (h : x ∈ L.getD a []) :
    a < L.length ∧ x ∈ L.flatten := by
  by_cases ha : a < L.length
  · refine ⟨ha, ?_⟩
    rw [List.getD_eq_getElem?_getD, List.getElem?_eq_getElem ha] at h
    simp only [Option.getD_some] at h
    exact List.mem_flatten.mpr ⟨L[a], List.getElem_mem ha, h⟩
  · rw [bfs_getD_ge L a (by omega)] at h
    simp at h

/-- position `p` of the flattened list lies in the layer `a` with `off[a] ≤ p < off[a+1]` -/
theorem bfs_pos_layer : ∀ (L : List (List Nat)) (acc p : Nat), p < L.flatten.length →
    ∃ a, a < L.length ∧ (Graph.prefixSums acc (L.map List.length)).getD a 0 ≤ acc + p ∧
      acc + p < (Graph.prefixSums acc (L.map List.length)).getD (a + 1) 0 ∧
      L.flatten.getD p 0 ∈ L.getD a [] := by
  intro L
  induction L with
  | nil => intro acc p hp; simp at hp
  | cons l L ih =>
    intro acc p hp
    obtain ⟨t, h1, _⟩ := bfs_ps_cons (acc + l.length) (L.map List.length)
    by_cases hpl : p < l.length
    · refine ⟨0, by simp, ?_, ?_, ?_⟩
      · simp [Graph.prefixSums]
      · simp only [List.map_cons, Graph.prefixSums, List.getD_cons_succ, h1, List.getD_cons_zero]
        omega
      · simp only [List.flatten_cons, List.getD_cons_zero]
        rw [List.getD_eq_getElem?_getD, List.getElem?_append_left hpl, List.getElem?_eq_getElem hpl]
        simp
    · simp only [List.flatten_cons, List.length_append] at hp
      obtain ⟨a, ha, h2, h3, h4⟩ := ih (acc + l.length) (p - l.length) (by omega)
      refine ⟨a + 1, by simp [ha], ?_, ?_, ?_⟩
      · simp only [List.map_cons, Graph.prefixSums, List.getD_cons_succ]
        omega
      · simp only [List.map_cons, Graph.prefixSums, List.getD_cons_succ]
        omega
      · have e : (l ++ L.flatten).getD p 0 = L.flatten.getD (p - l.length) 0 := by
          simp only [List.getD_eq_getElem?_getD]
          rw [List.getElem?_append_right (by omega)]
        show (l ++ L.flatten).getD p 0 ∈ L.getD a []
        rw [e]; exact h4

/-- a member of a layer of a duplicate-free layering determines the layer -/
theorem bfs_layer_unique : ∀ (L : List (List Nat)), L.flatten.Nodup → ∀ (a b x : Nat),
    x ∈ L.getD a [] → x ∈ L.getD b [] → a = b := by
  intro L
  induction L with
  | nil => intro _ a b x h; simp at h
  | cons l L ih =>
    intro hnd a b x ha hb
    simp only [List.flatten_cons, List.nodup_append] at hnd
    obtain ⟨_, h2, h3⟩ := hnd
    cases a with
    | zero =>
      cases b with
      | zero => rfl
      | succ b =>
        simp only [List.getD_cons_zero, List.getD_cons_succ] at ha hb
        exact absurd rfl (h3 x ha x (bfs_mem_getD L b x hb).2)
    | succ a =>
      cases b with
      | zero =>
        simp only [List.getD_cons_zero, List.getD_cons_succ] at ha hb
        exact absurd rfl (h3 x hb x (bfs_mem_getD L a x ha).2)
      | succ b =>
        simp only [List.getD_cons_succ] at ha hb
        rw [ih h2 a b x ha hb]

/-! ### `expandLevel` masks every neighbour of the level -/

theorem bfs_expRow_masks {n : Nat} : ∀ (row : List Nat), (∀ k, k ∈ row → k < n) →
    ∀ (acc : List Nat × Array Bool), acc.2.size = n →
      (row.foldl C19L.cm.expStep acc).2.size = n ∧
      (∀ j, CM.isMasked acc.2 j = true → CM.isMasked (row.foldl C19L.cm.expStep acc).2 j = true) ∧
      (∀ k, k ∈ row → CM.isMasked (row.foldl C19L.cm.expStep acc).2 k = true) := by
  intro row
  induction row with
  | nil => intro _ acc h; exact ⟨h, fun _ h => h, fun k hk => by simp at hk⟩
  | cons k t ih =>
    intro hrow acc hsz
    simp only [List.foldl_cons]
    have hstep : (C19L.cm.expStep acc k).2.size = n ∧
        (∀ j, CM.isMasked acc.2 j = true → CM.isMasked (C19L.cm.expStep acc k).2 j = true) ∧
        CM.isMasked (C19L.cm.expStep acc k).2 k = true := by
      unfold C19L.cm.expStep
      cases hm : CM.isMasked acc.2 k with
      | true => simp [hsz, hm]
      | false =>
        simp only [Bool.false_eq_true, if_false, Array.size_setIfInBounds]
        have hk : k < acc.2.size := by rw [hsz]; exact hrow k (by simp)
        refine ⟨hsz, ?_, ?_⟩
        · intro j hj
          rw [C19L.cm.isMasked_set acc.2 k j hk]
          split <;> simp [hj]
        · rw [C19L.cm.isMasked_set acc.2 k k hk]; simp
    obtain ⟨h1, h2, h3⟩ := ih (fun x hx => hrow x (by simp [hx])) (C19L.cm.expStep acc k) hstep.1
    refine ⟨h1, fun j hj => h2 j (hstep.2.1 j hj), ?_⟩
    intro x hx
    rcases List.mem_cons.mp hx with e | hx
    · subst e; exact h2 x hstep.2.2
    · exact h3 x hx

theorem bfs_expandLevel_masks (g : Graph) (hsq : g.nImg = g.nDom) (hwf : g.wf = true)
    (level : List Nat) (mask : Array Bool) (hsz : mask.size = g.nDom) :
    ∀ x, x ∈ level → ∀ k, k ∈ g.row x → CM.isMasked (CM.expandLevel g level mask).2 k = true := by
  rw [C19L.cm.expandLevel_eq]
  have key : ∀ (level : List Nat) (acc : List Nat × Array Bool), acc.2.size = g.nDom →
      (level.foldl (fun acc nd => (g.row nd).foldl C19L.cm.expStep acc) acc).2.size = g.nDom ∧
      (∀ j, CM.isMasked acc.2 j = true →
        CM.isMasked (level.foldl (fun acc nd => (g.row nd).foldl C19L.cm.expStep acc) acc).2 j = true) ∧
      (∀ x, x ∈ level → ∀ k, k ∈ g.row x →
        CM.isMasked (level.foldl (fun acc nd => (g.row nd).foldl C19L.cm.expStep acc) acc).2 k = true) := by
    intro level
    induction level with
    | nil => intro acc h; exact ⟨h, fun _ h => h, fun x hx => by simp at hx⟩
    | cons nd t ih =>
      intro acc hsz
      simp only [List.foldl_cons]
      obtain ⟨r1, r2, r3⟩ := bfs_expRow_masks (g.row nd)
        (fun k hk => C19L.cm.row_lt g hsq hwf nd k hk) acc hsz
      obtain ⟨h1, h2, h3⟩ := ih _ r1
      refine ⟨h1, fun j hj => h2 j (r2 j hj), ?_⟩
      intro x hx k hk
      rcases List.mem_cons.mp hx with e | hx
      · subst e; exact h2 k (r3 k hk)
      · exact h3 x hx k hk
  exact (key level ([], mask) hsz).2.2

/-! ### the loop invariant -/

/-- edges do not jump forward over a layer -/
def BfsAdj (g : Graph) (L : List (List Nat)) : Prop :=
  ∀ a b x y, x ∈ L.getD a [] → y ∈ L.getD b [] → y ∈ g.row x → b ≤ a + 1

/-- `done` = completed layers (all neighbours numbered), `cur` = current (last) level -/
structure BfsInv (g : Graph) (done : List (List Nat)) (cur el lay : List Nat) (mask : Array Bool) :
    Prop where
  hel : el = done.flatten ++ cur
  hlay : lay = Graph.prefixSums 0 (done.map List.length)
  hne : ∀ l, l ∈ done → l ≠ []
  inv : C19L.cm.Inv g.nDom el mask
  closed : ∀ x, x ∈ done.flatten → ∀ k, k ∈ g.row x → k ∈ el
  adj : BfsAdj g (done ++ [cur])

theorem bfsInv_init (g : Graph) : BfsInv g [] [] [] [0] (Array.replicate g.nDom false) := by
  refine ⟨rfl, rfl, fun l hl => by simp at hl, C19L.cm.inv_init _, fun x hx => by simp at hx, ?_⟩
  intro a b x y hx
  have := (bfs_mem_getD _ a x hx).2
  simp at this

/-- a new root is appended to the current level -/
theorem bfsInv_root {g : Graph} {done : List (List Nat)} {cur el lay : List Nat} {mask : Array Bool}
    (h : BfsInv g done cur el lay mask) {r : Nat} (hr : r < g.nDom) (hm : CM.isMasked mask r = false) :
    BfsInv g done (cur ++ [r]) (el ++ [r]) lay (mask.setIfInBounds r true) := by
  have hrel : r ∉ el := fun hin => by
    have := (h.inv.mask_iff r).mpr hin
    rw [hm] at this; exact Bool.noConfusion this
  refine ⟨by rw [h.hel, List.append_assoc], h.hlay, h.hne, h.inv.push hr hm, ?_, ?_⟩
  · intro x hx k hk
    exact List.mem_append_left _ (h.closed x hx k hk)
  · intro a b x y hx hy hxy
    apply Classical.byContradiction
    intro hba
    have hb := (bfs_mem_getD _ b y hy).1
    simp only [List.length_append, List.length_singleton] at hb
    have ha : a < done.length := by omega
    rw [bfs_getD_append_lt _ _ a ha] at hx
    have hx' : x ∈ (done ++ [cur]).getD a [] := by rw [bfs_getD_append_lt _ _ a ha]; exact hx
    by_cases hbn : b < done.length
    · rw [bfs_getD_append_lt _ _ b hbn] at hy
      have hy' : y ∈ (done ++ [cur]).getD b [] := by rw [bfs_getD_append_lt _ _ b hbn]; exact hy
      exact hba (h.adj a b x y hx' hy' hxy)
    · have hbe : b = done.length := by omega
      subst hbe
      rw [bfs_getD_append_eq] at hy
      rcases List.mem_append.mp hy with hy | hy
      · have hy' : y ∈ (done ++ [cur]).getD done.length [] := by rw [bfs_getD_append_eq]; exact hy
        exact hba (h.adj a _ x y hx' hy' hxy)
      · simp only [List.mem_singleton] at hy
        subst hy
        exact hrel (h.closed x (bfs_mem_getD _ a x hx).2 y hxy)

/-- the current level has been expanded: it becomes a completed layer, `new` is the next level -/
theorem bfsInv_next {g : Graph} {done : List (List Nat)} {cur el lay : List Nat} {mask mask' : Array Bool}
    (h : BfsInv g done cur el lay mask) (hc : cur ≠ []) {new : List Nat}
    (hinv : C19L.cm.Inv g.nDom (el ++ new) mask')
    (hmk : ∀ x, x ∈ cur → ∀ k, k ∈ g.row x → CM.isMasked mask' k = true) :
    BfsInv g (done ++ [cur]) new (el ++ new) (lay ++ [el.length]) mask' := by
  refine ⟨?_, ?_, ?_, hinv, ?_, ?_⟩
  · rw [h.hel]; simp
  · rw [List.map_append, List.map_singleton, bfs_ps_snoc, ← h.hlay, h.hel, List.length_append,
      List.length_flatten]
    simp
  · intro l hl
    rcases List.mem_append.mp hl with hl | hl
    · exact h.hne l hl
    · simp only [List.mem_singleton] at hl; exact hl ▸ hc
  · intro x hx k hk
    simp only [List.flatten_append, List.flatten_singleton, List.mem_append] at hx
    rcases hx with hx | hx
    · exact List.mem_append_left _ (h.closed x hx k hk)
    · exact (hinv.mask_iff k).mp (hmk x hx k hk)
  · intro a b x y hx hy hxy
    apply Classical.byContradiction
    intro hba
    have hb := (bfs_mem_getD _ b y hy).1
    simp only [List.length_append, List.length_singleton] at hb
    have ha : a < (done ++ [cur]).length := by simp; omega
    rw [bfs_getD_append_lt _ _ a ha] at hx
    by_cases hbn : b < (done ++ [cur]).length
    · rw [bfs_getD_append_lt _ _ b hbn] at hy
      exact hba (h.adj a b x y hx hy hxy)
    · have hbe : b = (done ++ [cur]).length := by simp at hbn ⊢; omega
      subst hbe
      rw [bfs_getD_append_eq] at hy
      have ha' : a < done.length := by simp at hba; omega
      rw [bfs_getD_append_lt _ _ a ha'] at hx
      have hyel : y ∈ el := h.closed x (bfs_mem_getD _ a x hx).2 y hxy
      have hnd := hinv.nodup
      rw [List.nodup_append] at hnd
      exact hnd.2.2 y hyel y hy rfl

/-! ### the loops -/

theorem bfsLevels_spec (g : Graph) (hsq : g.nImg = g.nDom) (hwf : g.wf = true) (sorted : Bool) :
    ∀ (fuel : Nat) (done : List (List Nat)) (cur el lay : List Nat) (mask : Array Bool),
      BfsInv g done cur el lay mask → cur ≠ [] → g.nDom ≤ fuel + el.length →
      ∃ done' cur', BfsInv g done' cur' (bfsLevels g sorted fuel el lay mask).1
          (bfsLevels g sorted fuel el lay mask).2.1 (bfsLevels g sorted fuel el lay mask).2.2 ∧
        ((cur' ≠ [] ∧ g.nDom ≤ (bfsLevels g sorted fuel el lay mask).1.length) ∨
         (cur' = [] ∧ (bfsLevels g sorted fuel el lay mask).1.length < g.nDom)) := by
  intro fuel
  induction fuel with
  | zero =>
    intro done cur el lay mask h hc hf
    exact ⟨done, cur, by simpa [bfsLevels] using h, Or.inl ⟨hc, by simpa [bfsLevels] using hf⟩⟩
  | succ fuel ih =>
    intro done cur el lay mask h hc hf
    unfold bfsLevels
    by_cases hlt : el.length < g.nDom
    · simp only [hlt, if_true]
      have hlev : el.drop (lay.getLastD 0) = cur := by
        rw [h.hlay, bfs_ps_getLastD, h.hel, ← List.length_flatten]; simp
      rw [hlev]
      have hexp := C19L.cm.expandLevel_inv g hsq hwf el cur mask h.inv
      have hmk := bfs_expandLevel_masks g hsq hwf cur mask h.inv.size
      generalize CM.expandLevel g cur mask = r at hexp hmk
      obtain ⟨fresh, mask'⟩ := r
      simp only at hexp hmk ⊢
      by_cases hempty : fresh.isEmpty = true
      · simp only [hempty, if_true]
        have : fresh = [] := List.isEmpty_iff.mp hempty
        subst this
        have := bfsInv_next h hc hexp hmk
        simp only [List.append_nil] at this
        exact ⟨_, [], this, Or.inr ⟨rfl, hlt⟩⟩
      · simp only [hempty, Bool.false_eq_true, if_false]
        have hperm : (if sorted = true then CM.sortLevel g .asc fresh else fresh).Perm fresh := by
          split
          · exact C19L.cm.sortLevel_perm g .asc fresh
          · exact List.Perm.refl _
        generalize (if sorted = true then CM.sortLevel g .asc fresh else fresh) = fresh' at hperm ⊢
        have hinv' := hexp.of_perm (List.Perm.append_left el hperm.symm)
        have hne : fresh' ≠ [] := by
          intro e; subst e
          have := hperm.length_eq
          simp only [List.length_nil] at this
          exact hempty (by rw [List.isEmpty_iff]; exact List.length_eq_zero_iff.mp this.symm)
        have hpos : 0 < fresh'.length := List.length_pos_iff.mpr hne
        have hst := bfsInv_next h hc hinv' hmk
        exact ih _ _ _ _ _ hst hne (by simp only [List.length_append]; omega)
    · simp only [hlt, if_false]
      exact ⟨done, cur, h, Or.inl ⟨hc, by omega⟩⟩

theorem bfs_minDegRoot_some (g : Graph) (mask : Array Bool) (r : Nat) (h : minDegRoot g mask = some r) :
    r < g.nDom ∧ CM.isMasked mask r = false := by
  have := C19L.cm.rootFold_sound g mask (fun acc j => decide (g.degree j < acc.2)) (List.range g.nDom)
    (none, g.nDom + 1) r h
  rcases this with h1 | ⟨h1, h2⟩
  · simp at h1
  · exact ⟨List.mem_range.mp h1, h2⟩

theorem bfsOuter_spec (g : Graph) (hsq : g.nImg = g.nDom) (hwf : g.wf = true) (sorted : Bool) :
    ∀ (fuel : Nat) (done : List (List Nat)) (el lay : List Nat) (mask : Array Bool) (el' lay' : List Nat),
      BfsInv g done [] el lay mask → el.length < g.nDom →
      bfsOuter g sorted fuel el lay mask = some (el', lay') →
      ∃ done' cur' mask', BfsInv g done' cur' el' lay' mask' ∧ cur' ≠ [] ∧ g.nDom ≤ el'.length := by
  intro fuel
  induction fuel with
  | zero =>
    intro done el lay mask el' lay' h hlt hres
    simp [bfsOuter, hlt] at hres
  | succ fuel ih =>
    intro done el lay mask el' lay' h hlt hres
    unfold bfsOuter at hres
    simp only [hlt, if_true] at hres
    cases hroot : minDegRoot g mask with
    | none => rw [hroot] at hres; simp at hres
    | some root =>
      rw [hroot] at hres
      simp only at hres
      obtain ⟨hr, hm⟩ := bfs_minDegRoot_some g mask root hroot
      have h1 := bfsInv_root h hr hm
      obtain ⟨done', cur', h2, h3⟩ := bfsLevels_spec g hsq hwf sorted (g.nDom + 1) done ([] ++ [root])
        (el ++ [root]) lay _ h1 (by simp) (by omega)
      generalize bfsLevels g sorted (g.nDom + 1) (el ++ [root]) lay (mask.setIfInBounds root true) = r
        at h2 h3 hres
      obtain ⟨el1, lay1, mask1⟩ := r
      simp only at h2 h3 hres
      rcases h3 with ⟨hc, hge⟩ | ⟨hc, hlt'⟩
      · have e : bfsOuter g sorted fuel el1 lay1 mask1 = some (el1, lay1) := by
          cases fuel <;> simp [bfsOuter, Nat.not_lt.mpr hge]
        rw [e] at hres
        simp only [Option.some.injEq, Prod.mk.injEq] at hres
        obtain ⟨e1, e2⟩ := hres
        subst e1; subst e2
        exact ⟨done', cur', mask1, h2, hc, hge⟩
      · subst hc
        exact ih _ _ _ _ _ _ h2 hlt' hres

/-! ### lifting through `buildLayers` -/

theorem bfs_insertSorted_perm (x : Nat) (l : List Nat) : (Graph.insertSorted x l).Perm (x :: l) := by
  induction l with
  | nil => simp [Graph.insertSorted]
  | cons y ys ih =>
    simp only [Graph.insertSorted]
    split
    · exact List.Perm.refl _
    · exact (ih.cons y).trans (List.Perm.swap x y ys)

theorem bfs_sortList_perm (l : List Nat) : (Graph.sortList l).Perm l := by
  induction l with
  | nil => simp [Graph.sortList]
  | cons x xs ih =>
    simp only [Graph.sortList]
    exact (bfs_insertSorted_perm x _).trans (ih.cons x)

/-- translation (and optional sorting) of one layer -/
def bfsTr (elemIdx : List Nat) (sorted : Bool) (l : List Nat) : List Nat :=
  let t := l.map fun k => elemIdx.getD k 0
  if sorted then Graph.sortList t else t

theorem bfsTr_perm (elemIdx : List Nat) (sorted : Bool) (l : List Nat) :
    (bfsTr elemIdx sorted l).Perm (l.map fun k => elemIdx.getD k 0) := by
  unfold bfsTr
  cases sorted with
  | true => exact bfs_sortList_perm _
  | false => exact List.Perm.refl _

theorem bfsTr_nil (elemIdx : List Nat) (sorted : Bool) : bfsTr elemIdx sorted [] = [] := by
  cases sorted <;> simp [bfsTr, Graph.sortList]

theorem bfsTr_length (elemIdx : List Nat) (sorted : Bool) (l : List Nat) :
    (bfsTr elemIdx sorted l).length = l.length := by
  rw [(bfsTr_perm elemIdx sorted l).length_eq, List.length_map]

theorem bfs_flatten_map_perm (f h : List Nat → List Nat) (hf : ∀ l, (f l).Perm (h l)) :
    ∀ (L : List (List Nat)), (L.map f).flatten.Perm (L.map h).flatten := by
  intro L
  induction L with
  | nil => exact List.Perm.refl _
  | cons l L ih =>
    simp only [List.map_cons, List.flatten_cons]
    exact List.Perm.append (hf l) ih

theorem bfs_perm_range {n : Nat} {l : List Nat} (hnd : l.Nodup) (hlt : ∀ x, x ∈ l → x < n)
    (hlen : l.length = n) : l.Perm (List.range n) := by
  rw [List.perm_ext_iff_of_nodup hnd List.nodup_range]
  intro a
  rw [List.mem_range]
  exact ⟨hlt a, C19L.cm.mem_of_nodup_full hnd hlt hlen a⟩

theorem bfs_map_getD_range (l : List Nat) : (List.range l.length).map (fun k => l.getD k 0) = l := by
  apply List.ext_getElem
  · simp
  · intro i h1 h2
    simp [List.getD_eq_getElem?_getD, List.getElem?_eq_getElem h2]

theorem bfs_getD_inj {l : List Nat} (hnd : l.Nodup) {i j : Nat} (hi : i < l.length) (hj : j < l.length)
    (h : l.getD i 0 = l.getD j 0) : i = j := by
  rw [List.getD_eq_getElem?_getD, List.getD_eq_getElem?_getD, List.getElem?_eq_getElem hi,
    List.getElem?_eq_getElem hj] at h
  simp only [Option.getD_some] at h
  have hp := List.pairwise_iff_getElem.mp hnd
  rcases Nat.lt_trichotomy i j with hlt | heq | hgt
  · exact absurd h (hp i j hi hj hlt)
  · exact heq
  · exact absurd h.symm (hp j i hj hi hgt)

theorem bfs_getD_map (f : List Nat → List Nat) (hf : f [] = []) (L : List (List Nat)) (a : Nat) :
    (L.map f).getD a [] = f (L.getD a []) := by
  simp only [List.getD_eq_getElem?_getD, List.getElem?_map]
  cases L[a]? with
  | none => simp [hf]
  | some v => simp

theorem bfs_getD_reverse (L : List (List Nat)) (a : Nat) (ha : a < L.length) :
    L.reverse.getD a [] = L.getD (L.length - 1 - a) [] := by
  simp only [List.getD_eq_getElem?_getD, List.getElem?_reverse ha]

theorem bfs_tr_mem (elemIdx : List Nat) (sorted : Bool) (L : List (List Nat)) (a x' : Nat)
    (h : x' ∈ (L.map (bfsTr elemIdx sorted)).getD a []) :
    ∃ x, x ∈ L.getD a [] ∧ x' = elemIdx.getD x 0 := by
  rw [bfs_getD_map _ (bfsTr_nil elemIdx sorted)] at h
  have := (bfsTr_perm elemIdx sorted (L.getD a [])).mem_iff.mp h
  obtain ⟨x, hx, e⟩ := List.mem_map.mp this
  exact ⟨x, hx, e.symm⟩

/-- the result of `buildLayers` in terms of the local BFS layering `L` -/
theorem bfs_buildLayers_decomp (g : Graph) (elemIdx : List Nat) (reverse sorted : Bool)
    (hsq : g.nImg = g.nDom) (hwf : g.wf = true) (hn : 0 < g.nDom)
    (ei le : List Nat) (h : buildLayers g elemIdx reverse sorted = some (ei, le)) :
    ∃ L : List (List Nat), (∀ l, l ∈ L → l ≠ []) ∧ L.flatten.Nodup ∧ (∀ k, k ∈ L.flatten → k < g.nDom) ∧
      L.flatten.length = g.nDom ∧ BfsAdj g L ∧
      ei = (if reverse then (L.map (bfsTr elemIdx sorted)).reverse
            else L.map (bfsTr elemIdx sorted)).flatten ∧
      le = Graph.prefixSums 0 ((if reverse then (L.map (bfsTr elemIdx sorted)).reverse
            else L.map (bfsTr elemIdx sorted)).map List.length) := by
  unfold buildLayers at h
  cases hres : bfsOuter g sorted (g.nDom + 1) [] [0] (Array.replicate g.nDom false) with
  | none => rw [hres] at h; simp at h
  | some r =>
    obtain ⟨el, lay⟩ := r
    rw [hres] at h
    obtain ⟨done, cur, mask, hinv, hc, hge⟩ := bfsOuter_spec g hsq hwf sorted (g.nDom + 1) [] [] [0] _ el lay
      (bfsInv_init g) hn hres
    have hlen : el.length = g.nDom := Nat.le_antisymm hinv.inv.length_le hge
    have hfl : (done ++ [cur]).flatten = el := by rw [hinv.hel]; simp
    have hsl : slices el (lay ++ [g.nDom]) = done ++ [cur] := by
      have e : lay ++ [g.nDom] = Graph.prefixSums 0 ((done ++ [cur]).map List.length) := by
        rw [List.map_append, List.map_singleton, bfs_ps_snoc, ← hinv.hlay, ← hlen, hinv.hel,
          List.length_append, List.length_flatten]
        simp
      rw [e]
      exact bfs_slices el _ 0 (by simp [hfl])
    refine ⟨done ++ [cur], ?_, ?_, ?_, ?_, hinv.adj, ?_⟩
    · intro l hl
      rcases List.mem_append.mp hl with hl | hl
      · exact hinv.hne l hl
      · simp only [List.mem_singleton] at hl; exact hl ▸ hc
    · rw [hfl]; exact hinv.inv.nodup
    · rw [hfl]; exact hinv.inv.lt
    · rw [hfl]; exact hlen
    · simp only [hsl, Option.some.injEq, Prod.mk.injEq] at h
      obtain ⟨h1, h2⟩ := h
      exact ⟨h1.symm, h2.symm⟩

/-- every selected cell lies in exactly one layer: the new element list is a permutation of the old one and
the layer offsets are a strictly increasing cut of it (non-empty layers) starting at 0 and ending at the
length -/
theorem bfs_layers_partition (g : Graph) (elemIdx : List Nat) (reverse sorted : Bool)
    (hsq : g.nImg = g.nDom) (hwf : g.wf = true) (hlen : elemIdx.length = g.nDom) (hn : 0 < g.nDom)
    (ei le : List Nat) (h : buildLayers g elemIdx reverse sorted = some (ei, le)) :
    ei.Perm elemIdx ∧ le.getD 0 0 = 0 ∧ le.getD (le.length - 1) 0 = ei.length ∧
      (∀ i j, i < j → j < le.length → le.getD i 0 < le.getD j 0) := by
  obtain ⟨L, hne, hnd, hlt, hfl, _, hei, hle⟩ := bfs_buildLayers_decomp g elemIdx reverse sorted hsq hwf hn ei le h
  generalize hls : (if reverse = true then (L.map (bfsTr elemIdx sorted)).reverse
    else L.map (bfsTr elemIdx sorted)) = ls at hei hle
  have hperm : ls.Perm (L.map (bfsTr elemIdx sorted)) := by
    rw [← hls]; split
    · exact List.reverse_perm _
    · exact List.Perm.refl _
  refine ⟨?_, ?_, ?_, ?_⟩
  · rw [hei]
    refine hperm.flatten.trans ?_
    refine (bfs_flatten_map_perm _ _ (bfsTr_perm elemIdx sorted) L).trans ?_
    rw [← List.map_flatten]
    refine ((bfs_perm_range hnd hlt hfl).map _).trans ?_
    rw [← hlen, bfs_map_getD_range]
  · obtain ⟨t, h1, _⟩ := bfs_ps_cons 0 (ls.map List.length)
    rw [hle, h1]; rfl
  · rw [hle, bfs_ps_length, Nat.add_sub_cancel, hei, List.length_flatten]
    have := bfs_ps_get_last 0 (ls.map List.length)
    rw [List.length_map] at this
    rw [List.length_map, this]; simp
  · rw [hle]
    apply bfs_ps_strict
    intro x hx
    obtain ⟨l', hl', e⟩ := List.mem_map.mp hx
    obtain ⟨l0, hl0, e0⟩ := List.mem_map.mp (hperm.mem_iff.mp hl')
    rw [← e, ← e0, bfsTr_length]
    exact List.length_pos_iff.mpr (hne l0 hl0)

/-- the excluded case of `bfs_layers_partition`: without cells there is one empty layer -/
theorem bfs_layers_empty (g : Graph) (elemIdx : List Nat) (reverse sorted : Bool) (hn : g.nDom = 0) :
    buildLayers g elemIdx reverse sorted = some ([], [0, 0]) := by
  unfold buildLayers
  rw [hn]
  cases reverse <;> cases sorted <;>
    simp [bfsOuter, hn, slices, Graph.sortList, Graph.prefixSums]

/-- a position in layer `a` before offset `l` and a position in layer `b` from offset `l+1` on: the layers
`a` and `b` are separated by the layer `l` -/
theorem bfs_sep (ls : List (List Nat)) (p q l a b : Nat) (ha : a < ls.length)
    (h1 : (Graph.prefixSums 0 (ls.map List.length)).getD a 0 ≤ p)
    (h2 : q < (Graph.prefixSums 0 (ls.map List.length)).getD (b + 1) 0)
    (hl : l + 1 < (Graph.prefixSums 0 (ls.map List.length)).length)
    (hp : p < (Graph.prefixSums 0 (ls.map List.length)).getD l 0)
    (hq : (Graph.prefixSums 0 (ls.map List.length)).getD (l + 1) 0 ≤ q) : a + 2 ≤ b := by
  have hlen := bfs_ps_length 0 (ls.map List.length)
  rw [List.length_map] at hlen
  have hal : a < l := by
    apply Classical.byContradiction
    intro hn
    have := bfs_ps_mono (ls.map List.length) 0 l a (by omega) (by omega)
    omega
  have hlb : l < b := by
    apply Classical.byContradiction
    intro hn
    have := bfs_ps_mono (ls.map List.length) 0 (b + 1) (l + 1) (by omega) hl
    omega
  omega

/-- local form: in the BFS layering `L` of the local numbering (before translation, sorting and reversal,
see `bfs_buildLayers_decomp`) an edge never jumps forward over a layer; together with the symmetry of the
graph the two end points of an edge lie in equal or consecutive layers -/
theorem bfs_adjacent_levels_local (g : Graph) (elemIdx : List Nat) (reverse sorted : Bool)
    (hsq : g.nImg = g.nDom) (hwf : g.wf = true) (hn : 0 < g.nDom)
    (ei le : List Nat) (h : buildLayers g elemIdx reverse sorted = some (ei, le)) :
    ∃ L : List (List Nat), L.flatten.Perm (List.range g.nDom) ∧
      (∀ a b x y, x ∈ L.getD a [] → y ∈ L.getD b [] → y ∈ g.row x → b ≤ a + 1) ∧
      ei = (if reverse then (L.map (bfsTr elemIdx sorted)).reverse
            else L.map (bfsTr elemIdx sorted)).flatten ∧
      le = Graph.prefixSums 0 ((if reverse then (L.map (bfsTr elemIdx sorted)).reverse
            else L.map (bfsTr elemIdx sorted)).map List.length) := by
  obtain ⟨L, _, hnd, hlt, hfl, hadj, hei, hle⟩ :=
    bfs_buildLayers_decomp g elemIdx reverse sorted hsq hwf hn ei le h
  exact ⟨L, bfs_perm_range hnd hlt hfl, hadj, hei, hle⟩

/-- vertex-adjacent cells lie in equal or consecutive layers (also across components): there is no layer
`l` strictly between the positions of two adjacent cells -/
theorem bfs_adjacent_levels (g : Graph) (elemIdx : List Nat) (reverse sorted : Bool)
    (hsq : g.nImg = g.nDom) (hwf : g.wf = true) (hsym : ∀ i j, j ∈ g.row i → i ∈ g.row j)
    (hlen : elemIdx.length = g.nDom) (hnd : elemIdx.Nodup)
    (ei le : List Nat) (h : buildLayers g elemIdx reverse sorted = some (ei, le))
    (p q i j l : Nat) (hp : p < ei.length) (hq : q < ei.length) (hi : i < g.nDom)
    (hpi : ei.getD p 0 = elemIdx.getD i 0) (hqj : ei.getD q 0 = elemIdx.getD j 0) (hadj : j ∈ g.row i)
    (hl : l + 1 < le.length) :
    ¬ (p < le.getD l 0 ∧ le.getD (l + 1) 0 ≤ q) := by
  intro ⟨hpl, hql⟩
  have hj : j < g.nDom := C19L.cm.row_lt g hsq hwf i j hadj
  obtain ⟨L, _, _, hlt, _, hA, hei, hle⟩ :=
    bfs_buildLayers_decomp g elemIdx reverse sorted hsq hwf (by omega) ei le h
  -- the local node behind a member of a translated layer
  have hloc : ∀ (c x' k : Nat), x' ∈ (L.map (bfsTr elemIdx sorted)).getD c [] → k < g.nDom →
      x' = elemIdx.getD k 0 → k ∈ L.getD c [] := by
    intro c x' k hx hk e
    obtain ⟨x, hx1, hx2⟩ := bfs_tr_mem elemIdx sorted L c x' hx
    have hxlt : x < g.nDom := hlt x (bfs_mem_getD L c x hx1).2
    have : x = k := bfs_getD_inj hnd (by omega) (by omega) (hx2.symm.trans e)
    exact this ▸ hx1
  subst hei; subst hle
  cases reverse with
  | false =>
    simp only [Bool.false_eq_true, if_false] at hp hq hpi hqj hl hpl hql
    obtain ⟨a, ha, a1, _, a3⟩ := bfs_pos_layer _ 0 p hp
    obtain ⟨b, hb, _, b2, b3⟩ := bfs_pos_layer _ 0 q hq
    simp only [Nat.zero_add] at a1 b2
    have hia := hloc a _ i a3 hi hpi
    have hjb := hloc b _ j b3 hj hqj
    have h1 := hA a b i j hia hjb hadj
    have h2 := bfs_sep _ p q l a b ha a1 b2 hl hpl hql
    omega
  | true =>
    simp only [if_true] at hp hq hpi hqj hl hpl hql
    obtain ⟨a, ha, a1, _, a3⟩ := bfs_pos_layer _ 0 p hp
    obtain ⟨b, hb, _, b2, b3⟩ := bfs_pos_layer _ 0 q hq
    simp only [Nat.zero_add] at a1 b2
    have ha' : a < (L.map (bfsTr elemIdx sorted)).length := by simpa using ha
    have hb' : b < (L.map (bfsTr elemIdx sorted)).length := by simpa using hb
    rw [bfs_getD_reverse _ a ha'] at a3
    rw [bfs_getD_reverse _ b hb'] at b3
    have hia := hloc _ _ i a3 hi hpi
    have hjb := hloc _ _ j b3 hj hqj
    have h1 := hA _ _ j i hjb hia (hsym i j hadj)
    have h2 := bfs_sep _ p q l a b ha a1 b2 hl hpl hql
    simp only [List.length_map] at h1 ha' hb'
    omega

end FeatModel.DA
