import FeatModel.Model.FEDual
/-! kernel-checked: the generated tables of `keysH3` reproduce all samples of the real FEAT evaluators and their
    gradient / Hessian polynomials are the formal derivatives of the value polynomials -/
namespace FeatModel.FE
set_option maxRecDepth 100000 in
theorem tabs_keysH3 : keysH3.all okKey = true := by decide +kernel
end FeatModel.FE
