import FeatModel.Model.FEDual
/-! kernel-checked: the generated tables of `keysH3a` -/
namespace FeatModel.FE
open FeatModel.Poly FeatModel.Gen
set_option maxRecDepth 100000 in
theorem tabs_keysH3a : keysH3a.all okKey = true := by decide +kernel
end FeatModel.FE
