import FeatModel.Lemmas.C05Text
/-! helper lemmas for C05, text modes, part B: the structural part of the CSR MatrixMarket round trip.
A matrix is given by its rows (`List (Row α)`, a row is its list of (column, value) pairs); `ptrs`, `colsOf`,
`valsOf` are its CSR arrays. -/
namespace FeatModel.TextIO

variable {α : Type}


/-- `row_ptr` of the rows `R`, first entry `idx` (length `|R| + 1`) -/
def ptrs (idx : Nat) : List (Row α) → List Nat
  | [] => [idx]
  | row :: rest => idx :: ptrs (idx + row.length) rest

/-- `row_ptr` without its last entry -/
def ptrsInit (idx : Nat) : List (Row α) → List Nat
  | [] => []
  | row :: rest => idx :: ptrsInit (idx + row.length) rest

def colsOf (R : List (Row α)) : List Nat := R.flatten.map (·.1)
def valsOf (R : List (Row α)) : List α := R.flatten.map (·.2)

/-- all stored entries in row-major order with their row number, rows numbered from `r0` -/
def entsFrom (r0 : Nat) : List (Row α) → List (Nat × Nat × α)
  | [] => []
  | row :: rest => row.map (fun e => (r0, e.1, e.2)) ++ entsFrom (r0 + 1) rest

/-- the content of `std::map<row, std::map<col, val>>`: the non-empty rows with their numbers -/
def groups (r0 : Nat) : List (Row α) → List (Nat × Row α)
  | [] => []
  | row :: rest => if row.isEmpty then groups (r0 + 1) rest else (r0, row) :: groups (r0 + 1) rest

theorem ptrs_eq (idx : Nat) : ∀ R : List (Row α), ptrs idx R = ptrsInit idx R ++ [idx + R.flatten.length]
  | [] => by simp [ptrs, ptrsInit]
  | row :: rest => by
    simp [ptrs, ptrsInit, ptrs_eq (idx + row.length) rest, Nat.add_assoc]

/-! ### writer: the index loops enumerate exactly the rows -/

theorem getD_at_length {β : Type} (x : β) (post : List β) (d : β) :
    ∀ pre : List β, (pre ++ x :: post).getD pre.length d = x
  | [] => rfl
  | _ :: pre => by simp [List.getD_cons_succ, getD_at_length x post d pre]

theorem map_range_rows (h : Nat → α → Nat × Nat × α) (d : α) :
    ∀ (row : Row α) (preA postA : List Nat) (preB postB : List α) (p : Nat),
      preA.length = p → preB.length = p →
      (List.range row.length).map (fun k =>
          h ((preA ++ row.map (·.1) ++ postA).getD (p + k) 0) ((preB ++ row.map (·.2) ++ postB).getD (p + k) d))
        = row.map (fun e => h e.1 e.2)
  | [], _, _, _, _, _, _, _ => rfl
  | e :: t, preA, postA, preB, postB, p, hA, hB => by
    have ih := map_range_rows h d t (preA ++ [e.1]) postA (preB ++ [e.2]) postB (p + 1)
      (by simp [hA]) (by simp [hB])
    have eA : preA ++ List.map (·.1) (e :: t) ++ postA = preA ++ [e.1] ++ List.map (·.1) t ++ postA := by simp
    have eB : preB ++ List.map (·.2) (e :: t) ++ postB = preB ++ [e.2] ++ List.map (·.2) t ++ postB := by simp
    have hA0 : (preA ++ [e.1] ++ List.map (·.1) t ++ postA).getD p 0 = e.1 := by
      have := getD_at_length e.1 (List.map (·.1) t ++ postA) 0 preA
      rw [hA] at this
      simpa using this
    have hB0 : (preB ++ [e.2] ++ List.map (·.2) t ++ postB).getD p d = e.2 := by
      have := getD_at_length e.2 (List.map (·.2) t ++ postB) d preB
      rw [hB] at this
      simpa using this
    rw [eA, eB, List.length_cons, List.range_succ_eq_map]
    simp only [List.map_cons, List.map_map]
    rw [Nat.add_zero, hA0, hB0]
    congr 1
    rw [← ih]
    apply List.map_congr_left
    intro k _
    simp only [Function.comp, Nat.succ_eq_add_one]
    rw [show p + (k + 1) = p + 1 + k by omega]

theorem flatMap_congr' {β γ : Type} (f g : β → List γ) : ∀ l : List β, (∀ x ∈ l, f x = g x) →
    l.flatMap f = l.flatMap g
  | [], _ => rfl
  | x :: l, h => by
    rw [List.flatMap_cons, List.flatMap_cons, h x (by simp), flatMap_congr' f g l (fun y hy => h y (by simp [hy]))]

/-- generalised writer loop: rows numbered from `r0`, `row_ptr` starting at `idx`, arrays with `idx` leading
    entries that belong to earlier rows -/
theorem entries_loop (d : α) : ∀ (R : List (Row α)) (r0 idx : Nat) (preC : List Nat) (preV : List α),
    preC.length = idx → preV.length = idx →
    (List.range R.length).flatMap (fun row =>
        (List.range ((ptrs idx R).getD (row + 1) 0 - (ptrs idx R).getD row 0)).map fun k =>
          (r0 + row, (preC ++ colsOf R).getD ((ptrs idx R).getD row 0 + k) 0,
            (preV ++ valsOf R).getD ((ptrs idx R).getD row 0 + k) d))
      = entsFrom r0 R
  | [], _, _, _, _, _, _ => rfl
  | row :: rest, r0, idx, preC, preV, hC, hV => by
    have ih := entries_loop d rest (r0 + 1) (idx + row.length) (preC ++ row.map (·.1)) (preV ++ row.map (·.2))
      (by simp [hC]) (by simp [hV])
    have hc : preC ++ colsOf (row :: rest) = preC ++ row.map (·.1) ++ colsOf rest := by
      simp [colsOf, List.append_assoc]
    have hv : preV ++ valsOf (row :: rest) = preV ++ row.map (·.2) ++ valsOf rest := by
      simp [valsOf, List.append_assoc]
    have hp1 : (ptrs idx (row :: rest)).getD 1 0 = idx + row.length := by
      cases rest <;> simp [ptrs]
    have hhead : (List.range ((ptrs idx (row :: rest)).getD (0 + 1) 0 - (ptrs idx (row :: rest)).getD 0 0)).map
        (fun k => (r0 + 0, (preC ++ colsOf (row :: rest)).getD ((ptrs idx (row :: rest)).getD 0 0 + k) 0,
          (preV ++ valsOf (row :: rest)).getD ((ptrs idx (row :: rest)).getD 0 0 + k) d))
        = row.map (fun e => (r0, e.1, e.2)) := by
      have h0 : (ptrs idx (row :: rest)).getD 0 0 = idx := by simp [ptrs]
      rw [Nat.zero_add, hp1, h0, Nat.add_sub_cancel_left, hc, hv, Nat.add_zero]
      exact map_range_rows (fun c v => (r0, c, v)) d row preC (colsOf rest) preV (valsOf rest) idx hC hV
    rw [List.length_cons, List.range_succ_eq_map, List.flatMap_cons, hhead, entsFrom]
    congr 1
    rw [← ih, List.flatMap_map]
    apply flatMap_congr'
    intro r _
    simp only [Nat.succ_eq_add_one, ptrs, List.getD_cons_succ, hc, hv]
    rw [show r0 + (r + 1) = r0 + 1 + r by omega]

theorem csrEntries_rows (d : α) (R : List (Row α)) :
    csrEntries R.length (ptrs 0 R) (colsOf R) (valsOf R) d = entsFrom 0 R := by
  have := entries_loop d R 0 0 [] [] rfl rfl
  simpa [csrEntries] using this

/-! ### reader: the two maps collect the rows again -/

theorem colInsert_last (c : Nat) (v : α) : ∀ g : Row α, (∀ e ∈ g, e.1 < c) → colInsert c v g = g ++ [(c, v)]
  | [], _ => rfl
  | (c', v') :: g, h => by
    have hc : c' < c := h (c', v') (by simp)
    have h1 : ¬ c < c' := by omega
    have h2 : ¬ c = c' := by omega
    simp only [colInsert, h1, h2, if_false, List.cons_append]
    rw [colInsert_last c v g (fun e he => h e (by simp [he]))]

theorem rowInsert_new (r c : Nat) (v : α) : ∀ M : List (Nat × Row α), (∀ e ∈ M, e.1 < r) →
    rowInsert r c v M = M ++ [(r, [(c, v)])]
  | [], _ => rfl
  | (r', m) :: M, h => by
    have hr : r' < r := h (r', m) (by simp)
    have h1 : ¬ r < r' := by omega
    have h2 : ¬ r = r' := by omega
    simp only [rowInsert, h1, h2, if_false, List.cons_append]
    rw [rowInsert_new r c v M (fun e he => h e (by simp [he]))]

theorem rowInsert_same (r c : Nat) (v : α) (g : Row α) : ∀ M : List (Nat × Row α), (∀ e ∈ M, e.1 < r) →
    rowInsert r c v (M ++ [(r, g)]) = M ++ [(r, colInsert c v g)]
  | [], _ => by simp [rowInsert]
  | (r', m) :: M, h => by
    have hr : r' < r := h (r', m) (by simp)
    have h1 : ¬ r < r' := by omega
    have h2 : ¬ r = r' := by omega
    simp only [List.cons_append, rowInsert, h1, h2, if_false]
    rw [rowInsert_same r c v g M (fun e he => h e (by simp [he]))]

/-- the remaining entries of a row are appended to its group -/
theorem fold_row_tail (r : Nat) (M : List (Nat × Row α)) (hM : ∀ e ∈ M, e.1 < r) :
    ∀ (t g : Row α), List.Pairwise (· < ·) ((g ++ t).map (·.1)) →
      (t.map (fun e => (r, e.1, e.2))).foldl (fun m e => rowInsert e.1 e.2.1 e.2.2 m) (M ++ [(r, g)])
        = M ++ [(r, g ++ t)]
  | [], g, _ => by simp
  | (c, v) :: t, g, hs => by
    have hlt : ∀ e ∈ g, e.1 < c := by
      intro e he
      rw [List.map_append, List.pairwise_append] at hs
      exact hs.2.2 e.1 (List.mem_map.mpr ⟨e, he, rfl⟩) c (by simp)
    have hs' : List.Pairwise (· < ·) (((g ++ [(c, v)]) ++ t).map (·.1)) := by
      simpa [List.append_assoc] using hs
    have ih := fold_row_tail r M hM t (g ++ [(c, v)]) hs'
    simp only [List.map_cons, List.foldl_cons]
    rw [rowInsert_same r c v g M hM, colInsert_last c v g hlt, ih]
    simp [List.append_assoc]

theorem fold_row (r : Nat) (M : List (Nat × Row α)) (hM : ∀ e ∈ M, e.1 < r) (row : Row α) (hs : StrictCols row) :
    (row.map (fun e => (r, e.1, e.2))).foldl (fun m e => rowInsert e.1 e.2.1 e.2.2 m) M
      = if row.isEmpty then M else M ++ [(r, row)] := by
  cases row with
  | nil => rfl
  | cons e t =>
    obtain ⟨c, v⟩ := e
    have := fold_row_tail r M hM t [(c, v)] (by simpa [StrictCols] using hs)
    simp only [List.map_cons, List.foldl_cons, List.isEmpty_cons]
    rw [rowInsert_new r c v M hM, this]
    simp

theorem fold_rows : ∀ (R : List (Row α)) (r0 : Nat) (M : List (Nat × Row α)), (∀ e ∈ M, e.1 < r0) →
    (∀ row ∈ R, StrictCols row) →
    (entsFrom r0 R).foldl (fun m e => rowInsert e.1 e.2.1 e.2.2 m) M = M ++ groups r0 R
  | [], _, _, _, _ => by simp [entsFrom, groups]
  | row :: rest, r0, M, hM, hs => by
    have hrow := fold_row r0 M hM row (hs row (by simp))
    have hs' : ∀ x ∈ rest, StrictCols x := fun x hx => hs x (by simp [hx])
    rw [entsFrom, List.foldl_append, hrow]
    cases hr : row.isEmpty with
    | true =>
      simp only [groups, hr, ↓reduceIte]
      exact fold_rows rest (r0 + 1) M (fun e he => Nat.lt_succ_of_lt (hM e he)) hs'
    | false =>
      have hM' : ∀ e ∈ M ++ [(r0, row)], e.1 < r0 + 1 := by
        intro e he
        rcases List.mem_append.mp he with h | h
        · exact Nat.lt_succ_of_lt (hM e h)
        · simp at h
          rw [h]
          exact Nat.lt_succ_self r0
      simp only [groups, hr, Bool.false_eq_true, ↓reduceIte]
      rw [fold_rows rest (r0 + 1) (M ++ [(r0, row)]) hM' hs']
      simp [List.append_assoc]

theorem groups_keys_ge : ∀ (R : List (Row α)) (r0 : Nat), ∀ e ∈ groups r0 R, r0 ≤ e.1
  | [], _, _, h => by simp [groups] at h
  | row :: rest, r0, e, h => by
    have ih := groups_keys_ge rest (r0 + 1) e
    cases hr : row.isEmpty with
    | true =>
      simp only [groups, hr, if_true] at h
      exact Nat.le_of_succ_le (ih h)
    | false =>
      simp only [groups, hr] at h
      rcases List.mem_cons.mp h with h | h
      · rw [h]
        exact Nat.le_refl r0
      · exact Nat.le_of_succ_le (ih h)

/-- the row loop of the reader rebuilds `row_ptr` (empty rows included), `col_ind` and `val` -/
theorem csrFill_groups (rows : Nat) : ∀ (R : List (Row α)) (r0 idx : Nat), r0 + R.length = rows →
    csrFill rows R.length idx (groups r0 R) = (ptrsInit idx R, colsOf R, valsOf R)
  | [], _, _, _ => by simp [csrFill, ptrsInit, colsOf, valsOf]
  | row :: rest, r0, idx, hlen => by
    have hrow : rows - (rest.length + 1) = r0 := by simp at hlen; omega
    cases hr : row.isEmpty with
    | true =>
      have hnil : row = [] := List.isEmpty_iff.mp hr
      subst hnil
      have ih := csrFill_groups rows rest (r0 + 1) idx (by simp at hlen; omega)
      simp only [groups, List.isEmpty_nil, if_true, List.length_cons]
      cases hg : groups (r0 + 1) rest with
      | nil =>
        rw [hg] at ih
        simp only [csrFill]
        simp [ptrsInit, colsOf, valsOf, ih]
      | cons e it' =>
        obtain ⟨r, m⟩ := e
        have hge : r0 + 1 ≤ r := groups_keys_ge rest (r0 + 1) (r, m) (by rw [hg]; simp)
        have hne : ¬ r = rows - (rest.length + 1) := by omega
        rw [hg] at ih
        simp only [csrFill, hne, if_false]
        simp [ptrsInit, colsOf, valsOf, ih]
    | false =>
      have ih := csrFill_groups rows rest (r0 + 1) (idx + row.length) (by simp at hlen; omega)
      simp only [groups, hr, Bool.false_eq_true, ↓reduceIte, List.length_cons, csrFill, hrow]
      simp [ptrsInit, colsOf, valsOf, ih]

theorem length_entsFrom : ∀ (R : List (Row α)) (r0 : Nat), (entsFrom r0 R).length = R.flatten.length
  | [], _ => rfl
  | row :: rest, r0 => by simp [entsFrom, length_entsFrom rest (r0 + 1)]

/-- **structural round trip**: assembling the entries the writer enumerates gives the CSR arrays back -/
theorem csrAssemble_entsFrom (R : List (Row α)) (hs : ∀ row ∈ R, StrictCols row) :
    csrAssemble R.length (entsFrom 0 R) = (ptrs 0 R, colsOf R, valsOf R) := by
  have hf := fold_rows R 0 [] (by simp) hs
  have hg := csrFill_groups R.length R 0 0 (by simp)
  simp only [List.nil_append] at hf
  simp only [csrAssemble, hf, hg, length_entsFrom, ptrs_eq, Nat.zero_add]

/-! ### values through `rd ∘ pr` -/

def mapVals (f : α → α) (R : List (Row α)) : List (Row α) := R.map fun row => row.map fun e => (e.1, f e.2)

theorem ptrs_mapVals (f : α → α) : ∀ (R : List (Row α)) (idx : Nat), ptrs idx (mapVals f R) = ptrs idx R
  | [], _ => rfl
  | row :: rest, idx => by
    have := ptrs_mapVals f rest (idx + row.length)
    simp only [mapVals, List.map_cons, ptrs, List.length_map] at this ⊢
    rw [this]

theorem colsOf_mapVals (f : α → α) : ∀ R : List (Row α), colsOf (mapVals f R) = colsOf R
  | [] => rfl
  | row :: rest => by
    have := colsOf_mapVals f rest
    simp only [colsOf, mapVals, List.map_cons, List.flatten_cons, List.map_append, List.map_map] at this ⊢
    rw [this]
    rfl

theorem valsOf_mapVals (f : α → α) : ∀ R : List (Row α), valsOf (mapVals f R) = (valsOf R).map f
  | [] => rfl
  | row :: rest => by
    have := valsOf_mapVals f rest
    simp only [valsOf, mapVals, List.map_cons, List.flatten_cons, List.map_append, List.map_map] at this ⊢
    rw [this]
    rfl

theorem entsFrom_mapVals (f : α → α) : ∀ (R : List (Row α)) (r0 : Nat),
    entsFrom r0 (mapVals f R) = (entsFrom r0 R).map fun e => (e.1, e.2.1, f e.2.2)
  | [], _ => rfl
  | row :: rest, r0 => by
    have := entsFrom_mapVals f rest (r0 + 1)
    simp only [mapVals, List.map_cons, entsFrom, List.map_append, List.map_map] at this ⊢
    rw [this]
    rfl

theorem strict_mapVals (f : α → α) (R : List (Row α)) (hs : ∀ row ∈ R, StrictCols row) :
    ∀ row ∈ mapVals f R, StrictCols row := by
  intro row hrow
  obtain ⟨row0, h0, rfl⟩ := List.mem_map.mp hrow
  have := hs row0 h0
  simpa [StrictCols, List.map_map, Function.comp_def] using this

/-- **MatrixMarket round trip of a CSR matrix** given by its rows: same dimensions, same `row_ptr` (empty rows
    anywhere, matrices without entries, rectangular), same `col_ind`, values `rd (pr v)`. -/
theorem csr_mtx_roundtrip_rows (pr : α → String) (rd : String → α) (hp : ∀ v, NoBlank (pr v).toList)
    (R : List (Row α)) (cols : Nat) (hs : ∀ row ∈ R, StrictCols row) (d : α) :
    csrMtxRead rd (csrMtxWrite pr R.length cols (ptrs 0 R) (colsOf R) (valsOf R) d)
      = some (R.length, cols, (valsOf R).length, ptrs 0 R, colsOf R, (valsOf R).map fun v => rd (pr v)) := by
  have hh := mtxHeader_ok coordBanner (sizeLine3 R.length cols (valsOf R).length)
    ((csrEntries R.length (ptrs 0 R) (colsOf R) (valsOf R) d).map fun e => fmtEntry pr (e.1 + 1) (e.2.1 + 1) e.2.2)
    R.length (' ' :: (natChars cols ++ ' ' :: natChars (valsOf R).length))
    (by simp [sizeLine3, String.toList_ofList])
  have hbody : ((csrEntries R.length (ptrs 0 R) (colsOf R) (valsOf R) d).map
      fun e => fmtEntry pr (e.1 + 1) (e.2.1 + 1) e.2.2).map (parseEntry rd)
      = entsFrom 0 (mapVals (fun v => rd (pr v)) R) := by
    rw [csrEntries_rows, entsFrom_mapVals, List.map_map]
    apply List.map_congr_left
    intro e _
    simp [parseEntry_fmtEntry pr rd _ _ _ (hp e.2.2)]
  have hlen : (valsOf R).length = R.flatten.length := by simp only [valsOf, List.length_map]
  have hasm := csrAssemble_entsFrom (mapVals (fun v => rd (pr v)) R) (strict_mapVals _ R hs)
  have hl : (mapVals (fun v => rd (pr v)) R).length = R.length := by simp [mapVals]
  rw [hl, ptrs_mapVals, colsOf_mapVals, valsOf_mapVals] at hasm
  simp only [csrMtxRead, csrMtxWrite, List.cons_append, List.nil_append, hh, parseSize2_sizeLine3, hbody, hasm,
    List.length_map]
  rw [csrEntries_rows, length_entsFrom, hlen]

/-! ### every well-formed CSR matrix is given by its rows -/

theorem map_range_getD {β : Type} (d : β) : ∀ (n p : Nat) (l : List β), p + n ≤ l.length →
    (List.range n).map (fun k => l.getD (p + k) d) = (l.drop p).take n
  | 0, _, _, _ => rfl
  | n + 1, p, l, h => by
    have hp : p < l.length := by omega
    have ih := map_range_getD d n (p + 1) l (by omega)
    rw [List.range_succ_eq_map, List.map_cons, List.map_map, List.drop_eq_getElem_cons hp, List.take_succ_cons,
      ← ih]
    congr 1
    · simp [List.getD_eq_getElem?_getD, hp]
    · apply List.map_congr_left
      intro k _
      simp only [Function.comp, Nat.succ_eq_add_one]
      rw [show p + (k + 1) = p + 1 + k by omega]

theorem length_rowsOf (ci : List Nat) (vs : List α) (d : α) : ∀ P : List Nat, (rowsOf ci vs d P).length = P.length - 1
  | [] => rfl
  | [_] => rfl
  | p :: q :: rest => by
    have := length_rowsOf ci vs d (q :: rest)
    simp only [rowsOf, List.length_cons] at this ⊢
    omega

theorem ptrs_rowsOf (ci : List Nat) (vs : List α) (d : α) : ∀ (P : List Nat) (p : Nat),
    List.Pairwise (· ≤ ·) (p :: P) → ptrs p (rowsOf ci vs d (p :: P)) = p :: P
  | [], _, _ => rfl
  | q :: rest, p, h => by
    have hpq : p ≤ q := (List.pairwise_cons.mp h).1 q (by simp)
    have ih := ptrs_rowsOf ci vs d rest q (List.pairwise_cons.mp h).2
    simp only [rowsOf, ptrs, List.length_map, List.length_range]
    rw [show p + (q - p) = q by omega, ih]

theorem cols_vals_rowsOf (ci : List Nat) (vs : List α) (d : α) (hl : ci.length = vs.length) :
    ∀ (P : List Nat) (p pn : Nat), List.Pairwise (· ≤ ·) (p :: P) → (p :: P).getLast? = some pn →
      pn ≤ ci.length →
      colsOf (rowsOf ci vs d (p :: P)) = (ci.drop p).take (pn - p) ∧
      valsOf (rowsOf ci vs d (p :: P)) = (vs.drop p).take (pn - p)
  | [], p, pn, _, hlast, _ => by
    have : pn = p := by simpa using hlast.symm
    subst this
    simp [rowsOf, colsOf, valsOf]
  | q :: rest, p, pn, h, hlast, hle => by
    have hpq : p ≤ q := (List.pairwise_cons.mp h).1 q (by simp)
    have hmono := (List.pairwise_cons.mp h).2
    rw [List.getLast?_cons_cons] at hlast
    have hqn : q ≤ pn := by
      have hm := List.mem_of_getLast? hlast
      rcases List.mem_cons.mp hm with h1 | h1
      · omega
      · exact (List.pairwise_cons.mp hmono).1 pn h1
    obtain ⟨ihc, ihv⟩ := cols_vals_rowsOf ci vs d hl rest q pn hmono hlast hle
    have hc := map_range_getD 0 (q - p) p ci (by omega)
    have hv := map_range_getD d (q - p) p vs (by omega)
    have e : pn - p = (q - p) + (pn - q) := by omega
    constructor
    · simp only [colsOf, rowsOf, List.flatten_cons, List.map_append, List.map_map] at ihc ⊢
      rw [ihc, e, List.take_add, List.drop_drop, show p + (q - p) = q by omega, ← hc]
      rfl
    · simp only [valsOf, rowsOf, List.flatten_cons, List.map_append, List.map_map] at ihv ⊢
      rw [ihv, e, List.take_add, List.drop_drop, show p + (q - p) = q by omega, ← hv]
      rfl

/-- a well-formed CSR matrix is the matrix of its rows -/
theorem csr_of_rows (rows : Nat) (rowPtr ci : List Nat) (vs : List α) (d : α) (h : CsrWF rows rowPtr ci vs d) :
    (rowsOf ci vs d rowPtr).length = rows ∧ ptrs 0 (rowsOf ci vs d rowPtr) = rowPtr ∧
    colsOf (rowsOf ci vs d rowPtr) = ci ∧ valsOf (rowsOf ci vs d rowPtr) = vs := by
  obtain ⟨hlen, hhead, hmono, hlast, hcv, _⟩ := h
  cases rowPtr with
  | nil => simp at hlen
  | cons p P =>
    have hp : p = 0 := by simpa using hhead
    subst hp
    obtain ⟨hc, hv⟩ := cols_vals_rowsOf ci vs d hcv P 0 ci.length hmono hlast (Nat.le_refl _)
    refine ⟨by rw [length_rowsOf]; simp at hlen ⊢; omega, ptrs_rowsOf ci vs d P 0 hmono, ?_, ?_⟩
    · rw [hc]; simp
    · rw [hv, hcv]; simp

/-- **MatrixMarket round trip of every well-formed CSR matrix** -/
theorem csr_mtx_roundtrip (pr : α → String) (rd : String → α) (hp : ∀ v, NoBlank (pr v).toList)
    (rows cols : Nat) (rowPtr ci : List Nat) (vs : List α) (d : α) (h : CsrWF rows rowPtr ci vs d) :
    csrMtxRead rd (csrMtxWrite pr rows cols rowPtr ci vs d)
      = some (rows, cols, vs.length, rowPtr, ci, vs.map fun v => rd (pr v)) := by
  obtain ⟨h1, h2, h3, h4⟩ := csr_of_rows rows rowPtr ci vs d h
  have := csr_mtx_roundtrip_rows pr rd hp (rowsOf ci vs d rowPtr) cols h.2.2.2.2.2 d
  rw [h1, h2, h3, h4] at this
  exact this

end FeatModel.TextIO
