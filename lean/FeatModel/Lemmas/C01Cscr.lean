import FeatModel.Lemmas.C01Csr
import FeatModel.Model.LA.Cscr
/-! CSCR: the stored rows form a CSR matrix with `usedRows` rows; `rowNumbers` (strictly increasing) places them. -/
open Finset
namespace FeatModel.LA

section generic
variable {α : Type} [CommSemiring α]

/-- `for t < n: r[idx t] = G t r[idx t]` seen from component `l`: untouched if no `t` hits `l`,
    updated once by `t0` if `t0` is the only `t` with `idx t = l` -/
theorem foldl_range_setAt (idx : Nat → Nat) (G : Nat → α → α) (l : Nat) (r : Array α) (hl : l < r.size) : ∀ (n : Nat),
    (((List.range n).foldl (fun r t => r.setIfInBounds (idx t) (G t (r.getD (idx t) 0))) r).size = r.size) ∧
    ((∀ t, t < n → idx t ≠ l) →
      ((List.range n).foldl (fun r t => r.setIfInBounds (idx t) (G t (r.getD (idx t) 0))) r).getD l 0 = r.getD l 0) ∧
    (∀ t0, t0 < n → idx t0 = l → (∀ t, t < n → t ≠ t0 → idx t ≠ l) →
      ((List.range n).foldl (fun r t => r.setIfInBounds (idx t) (G t (r.getD (idx t) 0))) r).getD l 0
        = G t0 (r.getD l 0))
  | 0 => by
    refine ⟨by simp, by simp, ?_⟩
    intro t0 h; omega
  | n + 1 => by
    obtain ⟨ih1, ih2, ih3⟩ := foldl_range_setAt idx G l r hl n
    simp only [List.range_succ, List.foldl_append, List.foldl_cons, List.foldl_nil]
    generalize hR : (List.range n).foldl (fun r t => r.setIfInBounds (idx t) (G t (r.getD (idx t) 0))) r = R at ih1 ih2 ih3
    have hlR : l < R.size := by rw [ih1]; exact hl
    have hget : ∀ v, (R.setIfInBounds (idx n) v).getD l 0 = if idx n = l then v else R.getD l 0 := by
      intro v
      have hl' : l < (R.setIfInBounds (idx n) v).size := by rw [Array.size_setIfInBounds]; exact hlR
      rw [Array.getD_eq_getD_getElem?, Array.getElem?_eq_getElem hl', Array.getElem_setIfInBounds hlR]
      split
      · simp
      · simp
    refine ⟨by rw [Array.size_setIfInBounds, ih1], ?_, ?_⟩
    · intro hno
      rw [hget, if_neg (hno n (by omega))]
      exact ih2 (fun t ht => hno t (by omega))
    · intro t0 ht0 hidx huniq
      rw [hget]
      by_cases hn : t0 = n
      · subst hn
        rw [if_pos hidx, hidx, ih2 (fun t ht => huniq t (by omega) (by omega))]
      · rw [if_neg (huniq n (by omega) (fun h => hn h.symm))]
        exact ih3 t0 (by omega) hidx (fun t ht hne => huniq t (by omega) hne)

end generic

namespace Cscr
variable {α : Type}

/-- the stored rows as a CSR matrix with `usedRows` rows -/
def compressedCsr (A : Cscr α) : Csr α := ⟨A.usedRows, A.cols, A.rowPtr, A.colInd, A.val⟩

structure WF (A : Cscr α) : Prop where
  csr : A.compressedCsr.WF
  rnLt : ∀ nz, nz < A.usedRows → A.rowNumbers.getD nz 0 < A.rows
  rnMono : ∀ nz, nz + 1 < A.usedRows → A.rowNumbers.getD nz 0 < A.rowNumbers.getD (nz + 1) 0

theorem wf_iff (A : Cscr α) : A.wf = true ↔ A.WF := by
  constructor
  · intro h
    simp only [wf, Bool.and_eq_true, beq_iff_eq, List.all_eq_true, List.mem_range, decide_eq_true_eq,
      Array.all_eq_true] at h
    obtain ⟨⟨⟨⟨⟨⟨⟨h1, h2⟩, h3⟩, h4⟩, h5⟩, h6⟩, h7⟩, h8⟩ := h
    refine ⟨⟨h1, h2, h3, h4, h5, ?_⟩, ?_, fun nz hnz => h8 nz (by omega)⟩
    · intro k hk
      have hk' : k < A.colInd.size := hk
      have := h6 k hk'
      simpa [compressedCsr, Array.getD, hk'] using this
    · intro nz hnz
      have hk' : nz < A.rowNumbers.size := hnz
      have := h7 nz hk'
      simpa [Array.getD, hk'] using this
  · intro h
    simp only [wf, Bool.and_eq_true, beq_iff_eq, List.all_eq_true, List.mem_range, decide_eq_true_eq,
      Array.all_eq_true]
    refine ⟨⟨⟨⟨⟨⟨⟨h.csr.size, h.csr.first⟩, h.csr.last⟩, h.csr.colSize⟩, h.csr.mono⟩, ?_⟩, ?_⟩,
      fun nz hnz => h.rnMono nz (by omega)⟩
    · intro k hk
      have := h.csr.colLt k hk
      simpa [compressedCsr, Array.getD, hk] using this
    · intro nz hnz
      have := h.rnLt nz hnz
      simpa [Array.getD, hnz] using this

theorem rn_strict {A : Cscr α} (h : A.WF) : ∀ b a, a < b → b < A.usedRows →
    A.rowNumbers.getD a 0 < A.rowNumbers.getD b 0
  | 0, a, hab, _ => by omega
  | b + 1, a, hab, hb => by
    rcases Nat.lt_or_ge a b with hlt | hge
    · exact Nat.lt_trans (rn_strict h b a hlt (by omega)) (h.rnMono b hb)
    · have : a = b := by omega
      subst this; exact h.rnMono a hb

theorem rn_inj {A : Cscr α} (h : A.WF) {a b : Nat} (ha : a < A.usedRows) (hb : b < A.usedRows) (hne : a ≠ b) :
    A.rowNumbers.getD a 0 ≠ A.rowNumbers.getD b 0 := by
  rcases Nat.lt_or_ge a b with hlt | hge
  · exact Nat.ne_of_lt (rn_strict h b a hlt hb)
  · exact (Nat.ne_of_lt (rn_strict h a b (by omega) ha)).symm

variable [CommSemiring α]

theorem entry_eq_sum (A : Cscr α) (i j : Nat) :
    A.entry i j = ∑ nz ∈ range A.usedRows, (if A.rowNumbers.getD nz A.rows = i then A.compressedCsr.entry nz j else 0) := by
  unfold entry
  have : (fun (s : α) (nz : Nat) =>
      if A.rowNumbers.getD nz A.rows = i then
        foldRange (A.rowPtr.getD nz 0) (A.rowPtr.getD (nz + 1) 0)
          (fun s k => if A.colInd.getD k A.cols = j then s + A.val.getD k 0 else s) s
      else s)
      = fun s nz => s + (if A.rowNumbers.getD nz A.rows = i then A.compressedCsr.entry nz j else 0) := by
    funext s nz
    split
    · rw [foldRange_add_if, Csr.entry_eq_sum_Ico]; rfl
    · simp
  rw [this, List.range_eq_range', foldl_range'_add, zero_add]
  simp

theorem rowSum_eq_toCsr (A : Cscr α) (x : Array α) (nz : Nat) : A.rowSum x nz = A.compressedCsr.rowSum x nz := rfl

/-- row `i` of the dense product when `i` is the stored row `nz0` -/
theorem rowdot_listed {A : Cscr α} (h : A.WF) (x : Array α) {nz0 : Nat} (hnz : nz0 < A.usedRows) :
    ∑ j ∈ range A.cols, A.entry (A.rowNumbers.getD nz0 0) j * x.getD j 0 = A.rowSum x nz0 := by
  rw [rowSum_eq_toCsr, Csr.rowSum_eq h.csr x hnz]
  apply Finset.sum_congr rfl
  intro j _
  rw [entry_eq_sum, Finset.sum_eq_single nz0]
  · have : A.rowNumbers.getD nz0 A.rows = A.rowNumbers.getD nz0 0 := Csr.getD_eq_of_lt _ hnz _ _
    rw [if_pos this]
  · intro nz hnz' hne
    rw [Finset.mem_range] at hnz'
    have : A.rowNumbers.getD nz A.rows = A.rowNumbers.getD nz 0 := Csr.getD_eq_of_lt _ hnz' _ _
    rw [if_neg]
    rw [this]
    exact rn_inj h hnz' hnz hne
  · intro hc
    exact absurd (Finset.mem_range.mpr hnz) hc

/-- a row that is not stored is a zero row -/
theorem entry_unlisted {A : Cscr α} {i : Nat} (hno : ∀ nz, nz < A.usedRows → A.rowNumbers.getD nz 0 ≠ i) (j : Nat) :
    A.entry i j = 0 := by
  rw [entry_eq_sum]
  apply Finset.sum_eq_zero
  intro nz hnz
  rw [Finset.mem_range] at hnz
  have : A.rowNumbers.getD nz A.rows = A.rowNumbers.getD nz 0 := Csr.getD_eq_of_lt _ hnz _ _
  rw [if_neg]
  rw [this]; exact hno nz hnz

/-- the row loop of the non-transposed kernel -/
def rowLoop (A : Cscr α) (a b : α) (x r : Array α) : Array α :=
  (List.range A.usedRows).foldl (fun r nzrow =>
    r.setIfInBounds (A.rowNumbers.getD nzrow 0)
      ((A.rowSum x nzrow * a) + (b * r.getD (A.rowNumbers.getD nzrow 0) 0))) r

theorem rowLoop_facts {A : Cscr α} (h : A.WF) (a b : α) (x r : Array α) (l : Nat) (hl : l < r.size) :
    ((∀ nz, nz < A.usedRows → A.rowNumbers.getD nz 0 ≠ l) → (rowLoop A a b x r).getD l 0 = r.getD l 0) ∧
    (∀ nz0, nz0 < A.usedRows → A.rowNumbers.getD nz0 0 = l →
      (rowLoop A a b x r).getD l 0 = A.rowSum x nz0 * a + b * r.getD l 0) := by
  obtain ⟨_, f2, f3⟩ := foldl_range_setAt (fun t => A.rowNumbers.getD t 0) (fun t v => A.rowSum x t * a + b * v) l r hl
    A.usedRows
  refine ⟨f2, ?_⟩
  intro nz0 hnz0 hidx
  refine f3 nz0 hnz0 hidx ?_
  intro t ht hne heq
  exact rn_inj h ht hnz0 hne (by rw [heq, hidx])

/-- the transposed scatter loop -/
def scatterT (A : Cscr α) (x r : Array α) : Array α :=
  (List.range A.usedRows).foldl (fun r nzrow =>
    foldRange (A.rowPtr.getD nzrow 0) (A.rowPtr.getD (nzrow + 1) 0)
      (fun r i => r.modify (A.colInd.getD i 0) (· + A.val.getD i 0 * x.getD (A.rowNumbers.getD nzrow 0) 0)) r) r

theorem scatterT_size (A : Cscr α) (x r : Array α) : (A.scatterT x r).size = r.size := by
  unfold scatterT
  rw [List.range_eq_range']
  apply foldl_range'_size
  intro r row
  apply foldRange_size
  intro r i
  exact Array.size_modify ..

theorem scatterT_getD {A : Cscr α} (h : A.WF) (x r : Array α) {j : Nat} (hj : j < r.size) :
    (A.scatterT x r).getD j 0 = r.getD j 0 + ∑ i ∈ range A.rows, A.entry i j * x.getD i 0 := by
  unfold scatterT
  rw [List.range_eq_range']
  have hsz : ∀ (r : Array α) (nz : Nat),
      (foldRange (A.rowPtr.getD nz 0) (A.rowPtr.getD (nz + 1) 0)
        (fun r i => r.modify (A.colInd.getD i 0) (· + A.val.getD i 0 * x.getD (A.rowNumbers.getD nz 0) 0)) r).size
        = r.size := by
    intro r nz
    apply foldRange_size
    intro r i
    exact Array.size_modify ..
  rw [foldl_range'_acc _ (fun nz => ∑ k ∈ Ico (A.rowPtr.getD nz 0) (A.rowPtr.getD (nz + 1) 0),
      (if A.colInd.getD k 0 = j then A.val.getD k 0 * x.getD (A.rowNumbers.getD nz 0) 0 else 0)) j hsz ?_ _ _ r hj]
  · congr 1
    -- ∑_nz e(nz, j) * x[rn nz]  =  ∑_i entry i j * x_i
    have hstep : ∀ nz, nz ∈ range A.usedRows →
        (∑ k ∈ Ico (A.rowPtr.getD (0 + nz) 0) (A.rowPtr.getD (0 + nz + 1) 0),
          (if A.colInd.getD k 0 = j then A.val.getD k 0 * x.getD (A.rowNumbers.getD (0 + nz) 0) 0 else 0))
        = A.compressedCsr.entry nz j * x.getD (A.rowNumbers.getD nz 0) 0 := by
      intro nz hnz
      rw [Finset.mem_range] at hnz
      simp only [Nat.zero_add]
      rw [Csr.entry_eq_sum_Ico, Finset.sum_mul]
      apply Finset.sum_congr rfl
      intro k hk
      rw [Finset.mem_Ico] at hk
      have hks : k < A.colInd.size := Nat.lt_of_lt_of_le hk.2 (Csr.rowEnd_le h.csr hnz)
      have : A.compressedCsr.colInd.getD k A.compressedCsr.cols = A.colInd.getD k 0 := Csr.getD_eq_of_lt _ hks _ _
      rw [this, ite_mul, zero_mul]; rfl
    rw [Finset.sum_congr rfl hstep]
    simp only [entry_eq_sum, Finset.sum_mul, ite_mul, zero_mul]
    rw [Finset.sum_comm]
    apply Finset.sum_congr rfl
    intro nz hnz
    rw [Finset.mem_range] at hnz
    have : A.rowNumbers.getD nz A.rows = A.rowNumbers.getD nz 0 := Csr.getD_eq_of_lt _ hnz _ _
    rw [this, Finset.sum_ite_eq, if_pos (Finset.mem_range.mpr (h.rnLt nz hnz))]
  · intro r nz hjr
    apply foldRange_acc _ _ j ?_ ?_ _ _ r hjr
    · intro r i
      exact Array.size_modify ..
    · intro r i hjr'
      exact getD_modify_add r _ j _ hjr'

end Cscr
end FeatModel.LA
