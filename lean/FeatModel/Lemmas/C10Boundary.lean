import FeatModel.Lemmas.C10Lift2Dd
/-! C10 — the computed boundary (`BoundaryFactory` model `boundary`): its facet target set is exactly the set of facets
with one adjacent cell (any mesh, any dimension), its lower-dimensional target sets are exactly the faces of those
facets, and in 2-D the boundary facets of the refined mesh are exactly the children of the coarse boundary facets. -/
namespace FeatModel.Refine
open FeatModel.Gen.Refine

theorem modify_fold_size (tup : List Nat) (k : Nat) (acc : Array (List Nat)) :
    (tup.foldl (fun a l => a.modify l (· ++ [k])) acc).size = acc.size := by
  induction tup generalizing acc with
  | nil => rfl
  | cons x xs ih => rw [List.foldl_cons, ih]; simp

theorem modify_fold_len (tup : List Nat) (k : Nat) (acc : Array (List Nat)) (l : Nat) (hl : l < acc.size) :
    ((tup.foldl (fun a l => a.modify l (· ++ [k])) acc).getD l []).length
      = (acc.getD l []).length + tup.count l := by
  induction tup generalizing acc with
  | nil => simp
  | cons x xs ih =>
    rw [List.foldl_cons, ih _ (by simpa using hl), List.count_cons]
    have : ((acc.modify x (· ++ [k])).getD l []).length = (acc.getD l []).length + (if x == l then 1 else 0) := by
      simp only [Array.getD_eq_getD_getElem?, Array.getElem?_modify]
      by_cases hx : x = l
      · subst hx; simp [hl]
      · simp [hx, hl]
    rw [this]; omega

theorem cells_fold_size (cells : List (List Nat × Nat)) (acc : Array (List Nat)) :
    (cells.foldl (fun acc (p : List Nat × Nat) => p.1.foldl (fun a l => a.modify l (· ++ [p.2])) acc) acc).size
      = acc.size := by
  induction cells generalizing acc with
  | nil => rfl
  | cons c cs ih => rw [List.foldl_cons, ih, modify_fold_size]

theorem cells_fold_len (cells : List (List Nat × Nat)) (acc : Array (List Nat)) (l : Nat) (hl : l < acc.size) :
    ((cells.foldl (fun acc (p : List Nat × Nat) => p.1.foldl (fun a l => a.modify l (· ++ [p.2])) acc) acc).getD l []).length
      = (acc.getD l []).length + (cells.map fun p => p.1.count l).sum := by
  induction cells generalizing acc with
  | nil => simp
  | cons c cs ih =>
    rw [List.foldl_cons, ih _ (by rw [modify_fold_size]; exact hl), modify_fold_len _ _ _ _ hl,
      List.map_cons, List.sum_cons]
    omega

theorem zipIdx_map_fst_fun {α β : Type} (l : List α) (g : α → β) (n : Nat) :
    (l.zipIdx n).map (fun p => g p.1) = l.map g := by
  induction l generalizing n with
  | nil => rfl
  | cons a as ih => rw [List.zipIdx_cons, List.map_cons, List.map_cons, ih]

/-- the number of cells recorded for facet `l` is the number of its adjacent cells -/
theorem sharedBy_length (M : Mesh) (l : Nat) (hl : l < M.num (M.dim - 1)) :
    ((sharedBy M).getD l []).length = M.facetCount l := by
  unfold sharedBy Mesh.facetCount
  simp only
  have h := cells_fold_len ((M.idx M.dim (M.dim - 1)).zipIdx) (Array.replicate (M.num (M.dim - 1)) []) l
    (by simpa using hl)
  have e : ((M.idx M.dim (M.dim - 1)).zipIdx.map fun p => p.1.count l)
      = (M.idx M.dim (M.dim - 1)).map fun t => t.count l :=
    zipIdx_map_fst_fun _ (fun t => List.count l t) 0
  rw [e] at h
  simpa [hl] using h

/-- **the computed boundary facets are exactly the facets with one adjacent cell** (any mesh, any dimension ≥ 1) -/
theorem boundary_facets (M : Mesh) (hd : 1 ≤ M.dim) :
    (boundary M).getD (M.dim - 1) []
      = (List.range (M.num (M.dim - 1))).filter fun l => M.facetCount l == 1 := by
  unfold boundary
  simp only
  rw [List.getD_eq_getElem?_getD, List.getElem?_map, List.getElem?_range (by omega)]
  show (if M.dim - 1 = M.dim - 1 then _ else _) = _
  rw [if_pos rfl]
  apply List.filter_congr
  intro l hl
  rw [List.mem_range] at hl
  rw [sharedBy_length M l hl]
  by_cases hc : M.facetCount l = 1 <;> simp [hc]

theorem mask_fold_inner (tup : List Nat) (acc : Array Bool) (x : Nat) (hx : x < acc.size) :
    (tup.foldl (fun a y => a.setIfInBounds y true) acc).size = acc.size ∧
    ((tup.foldl (fun a y => a.setIfInBounds y true) acc).getD x false = true ↔ acc.getD x false = true ∨ x ∈ tup) := by
  induction tup generalizing acc with
  | nil => simp
  | cons y ys ih =>
    rw [List.foldl_cons]
    obtain ⟨h1, h2⟩ := ih (acc.setIfInBounds y true) (by simpa using hx)
    refine ⟨by rw [h1]; simp, ?_⟩
    rw [h2]
    have : (acc.setIfInBounds y true).getD x false = true ↔ acc.getD x false = true ∨ x = y := by
      simp only [Array.getD_eq_getD_getElem?, Array.getElem?_setIfInBounds]
      by_cases hy : y = x
      · subst hy; simp [hx]
      · simp [hy, Ne.symm hy]
    rw [this, List.mem_cons]
    constructor
    · rintro (h | h)
      · rcases h with h | h
        · exact Or.inl h
        · exact Or.inr (Or.inl h)
      · exact Or.inr (Or.inr h)
    · rintro (h | h | h)
      · exact Or.inl (Or.inl h)
      · exact Or.inl (Or.inr h)
      · exact Or.inr h

theorem mask_fold_outer (facets : List Nat) (g : Nat → List Nat) (acc : Array Bool) (x : Nat) (hx : x < acc.size) :
    (facets.foldl (fun acc q => (g q).foldl (fun a y => a.setIfInBounds y true) acc) acc).size = acc.size ∧
    ((facets.foldl (fun acc q => (g q).foldl (fun a y => a.setIfInBounds y true) acc) acc).getD x false = true
      ↔ acc.getD x false = true ∨ ∃ q ∈ facets, x ∈ g q) := by
  induction facets generalizing acc with
  | nil => simp
  | cons q qs ih =>
    rw [List.foldl_cons]
    obtain ⟨s1, m1⟩ := mask_fold_inner (g q) acc x hx
    obtain ⟨s2, m2⟩ := ih ((g q).foldl (fun a y => a.setIfInBounds y true) acc) (by rw [s1]; exact hx)
    refine ⟨by rw [s2, s1], ?_⟩
    rw [m2, m1]
    simp only [List.mem_cons, exists_eq_or_imp]
    constructor
    · rintro ((h | h) | h)
      · exact Or.inl h
      · exact Or.inr (Or.inl h)
      · exact Or.inr (Or.inr h)
    · rintro (h | h | h)
      · exact Or.inl (Or.inl h)
      · exact Or.inl (Or.inr h)
      · exact Or.inr h

/-- **lower-dimensional boundary target sets: exactly the `d`-faces of the facets with one adjacent cell** -/
theorem boundary_faces (M : Mesh) (d x : Nat) (hd : d < M.dim - 1) :
    x ∈ (boundary M).getD d [] ↔
      x < M.num d ∧ ∃ q, q < M.num (M.dim - 1) ∧ M.facetCount q = 1 ∧ x ∈ M.tuple (M.dim - 1) d q := by
  have hf := boundary_facets M (by omega)
  unfold boundary at hf ⊢
  simp only at hf ⊢
  rw [List.getD_eq_getElem?_getD, List.getElem?_map, List.getElem?_range (by omega)] at hf ⊢
  simp only [Option.map_some, Option.getD_some, if_pos] at hf
  simp only [Option.map_some, Option.getD_some]
  rw [if_neg (by omega), List.mem_filter, List.mem_range, hf]
  constructor
  · rintro ⟨hx, hm⟩
    refine ⟨hx, ?_⟩
    obtain ⟨_, hiff⟩ := mask_fold_outer _ (fun q => M.tuple (M.dim - 1) d q) (Array.replicate (M.num d) false) x
      (by simpa using hx)
    have := hiff.1 hm
    rcases this with h | ⟨q, hq, hxq⟩
    · simp [hx] at h
    · rw [List.mem_filter, List.mem_range] at hq
      exact ⟨q, hq.1, by simpa using hq.2, hxq⟩
  · rintro ⟨hx, q, hq, hc, hxq⟩
    refine ⟨hx, ?_⟩
    obtain ⟨_, hiff⟩ := mask_fold_outer
      ((List.range (M.num (M.dim - 1))).filter fun l => M.facetCount l == 1)
      (fun q => M.tuple (M.dim - 1) d q) (Array.replicate (M.num d) false) x (by simpa using hx)
    exact hiff.2 (Or.inr ⟨q, by rw [List.mem_filter, List.mem_range]; exact ⟨hq, by simp [hc]⟩, hxq⟩)

/-- adjacency counts of the fine edges of a refined 2-D mesh -/
theorem facetCount_refine2_cases (M : Mesh) (h : Ok2 M) (x : Nat) (hx : x < (refine M).num 1) :
    (x < 2 * M.num 1 → (refine M).facetCount x = M.facetCount (x / 2)) ∧
    (2 * M.num 1 ≤ x → (refine M).facetCount x = 2) := by
  obtain ⟨h1, _, _⟩ := fine_sizes2 M h
  obtain ⟨r11, r22, r10, f10, r21⟩ := rc2 M.kind
  rw [h1] at hx
  rw [facetCount_refine2 M h x]
  constructor
  · intro hlo
    have hx2 : x = 2 * (x / 2) + x % 2 := by omega
    have hE : x / 2 < M.num 1 := by omega
    have : ((List.range (M.num 2)).map fun i => occ M i x)
        = (List.range (M.num 2)).map fun i => (M.tuple 2 1 i).count (x / 2) := by
      apply List.map_congr_left
      intro i hi
      rw [List.mem_range] at hi
      have := occ_edge_child M h i (x / 2) (x % 2) hi hE (by omega)
      rw [← hx2] at this
      exact this
    rw [this, ← facetCount_coarse M h]
  · intro hhi
    obtain ⟨y, hxy⟩ : ∃ y, x = 2 * M.num 1 + y := ⟨x - 2 * M.num 1, by omega⟩
    have hy : y < refCount M.kind 2 1 * M.num 2 := by omega
    have hi0 : y / refCount M.kind 2 1 < M.num 2 := Nat.div_lt_of_lt_mul hy
    have ha0 : y % refCount M.kind 2 1 < refCount M.kind 2 1 := Nat.mod_lt _ r21
    have hxx : x = 2 * M.num 1 + refCount M.kind 2 1 * (y / refCount M.kind 2 1) + y % refCount M.kind 2 1 := by
      have := Nat.div_add_mod y (refCount M.kind 2 1)
      omega
    have : ((List.range (M.num 2)).map fun i => occ M i x)
        = (List.range (M.num 2)).map fun i => if i = y / refCount M.kind 2 1 then 2 else 0 := by
      apply List.map_congr_left
      intro i hi
      rw [List.mem_range] at hi
      rw [hxx]
      exact occ_inner M h i _ _ hi ha0
    rw [this, sum_indicator_range _ _ 2 hi0]

/-- **2-D: the boundary facets of the refined mesh are exactly the two children of every coarse boundary facet**
    ("the computed boundary is the set of facets with one adjacent cell" is preserved by refinement) -/
theorem boundary_refine2 (M : Mesh) (h : Ok2 M) (x : Nat) :
    x ∈ (boundary (refine M)).getD 1 [] ↔ x < 2 * M.num 1 ∧ x / 2 ∈ (boundary M).getD 1 [] := by
  have b1 := boundary_facets M (by rw [h.dim]; omega)
  have b2 := boundary_facets (refine M) (by rw [refine_dim, h.dim]; omega)
  rw [refine_dim] at b2
  rw [h.dim] at b1 b2
  rw [show (2 : Nat) - 1 = 1 from rfl] at b1 b2
  rw [b1, b2]
  simp only [List.mem_filter, List.mem_range, beq_iff_eq]
  obtain ⟨h1, _, _⟩ := fine_sizes2 M h
  constructor
  · rintro ⟨hx, hc⟩
    obtain ⟨c1, c2⟩ := facetCount_refine2_cases M h x hx
    by_cases hlo : x < 2 * M.num 1
    · exact ⟨hlo, by omega, by rw [← c1 hlo]; exact hc⟩
    · rw [c2 (by omega)] at hc; omega
  · rintro ⟨hlo, hE, hc⟩
    have hx : x < (refine M).num 1 := by rw [h1]; omega
    obtain ⟨c1, _⟩ := facetCount_refine2_cases M h x hx
    exact ⟨hx, by rw [c1 hlo]; exact hc⟩


end FeatModel.Refine
