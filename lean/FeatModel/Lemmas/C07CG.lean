import Mathlib.Tactic.Ring
import Mathlib.Tactic.Linarith
import Mathlib.Tactic.FieldSimp
import FeatModel.Model.Solver.Krylov
import FeatModel.Lemmas.C07Control
/-! Helper lemmas for C07: the classical induction of (preconditioned) CG in exact arithmetic, on the PCG model:
    residuals are mutually M-orthogonal and search directions mutually A-conjugate.  Only symmetry of `A` and of the
    preconditioner (as bilinear identities for `dot`) is used — neither linearity of `A` nor of the preconditioner. -/
namespace FeatModel.Solver
set_option linter.unusedSectionVars false

variable {V : Type}

/-- what the induction needs about the vector operations, the matrix and the preconditioner `M` -/
structure CgLaws (S : Sys V Rat) (M : V → V) : Prop where
  dot_comm : ∀ x y, S.ops.dot x y = S.ops.dot y x
  dot_axpy : ∀ y x p a, S.ops.dot y (S.ops.axpy x p a) = S.ops.dot y x + a * S.ops.dot y p
  dot_scale : ∀ y x a, S.ops.dot y (S.ops.scale x a) = a * S.ops.dot y x
  a_sym : ∀ x y, S.ops.dot (S.A x) y = S.ops.dot x (S.A y)
  no_filter : ∀ v, S.Fd v = v
  prec_eq : ∀ k v, S.prec k v = some (M v)
  m_sym : ∀ x y, S.ops.dot (M x) y = S.ops.dot x (M y)

/-- one completed CG iteration: search direction `p`, residual `r` and preconditioned residual `z = M r` it started
    from, step length `alpha` -/
structure CgEntry (V : Type) where
  p : V
  r : V
  z : V
  alpha : Rat

/-- `p` is `z` plus a multiple of the previous direction (or `z` itself at the start) -/
def PRel (S : Sys V Rat) (p z : V) : List (CgEntry V) → Prop
  | [] => p = z
  | e :: _ => ∃ β : Rat, p = S.ops.axpy (S.ops.scale e.p β) z 1

/-- the history (newest first) is a CG history ending in the current residual `rc`: every entry is linked to its
    successor residual by `r_next = r − α A p` with `α ≠ 0`, carries `z = M r`, its direction is built from `z` and
    the previous direction, and it is M-orthogonal / A-conjugate to ALL older entries -/
def CgChain (S : Sys V Rat) (M : V → V) : List (CgEntry V) → V → Prop
  | [], _ => True
  | e :: rest, rc =>
    e.alpha ≠ 0 ∧ rc = S.ops.axpy e.r (S.A e.p) (-e.alpha) ∧ e.z = M e.r ∧ PRel S e.p e.z rest ∧
      (∀ e2 ∈ rest, S.ops.dot e.r e2.z = 0 ∧ S.ops.dot e.r e2.p = 0 ∧ S.ops.dot e.p (S.A e2.p) = 0) ∧
      CgChain S M rest e.r

/-- the loop invariant of PCG -/
def CgInv (S : Sys V Rat) (M : V → V) (r p z : V) (gamma : Rat) (H : List (CgEntry V)) : Prop :=
  gamma = S.ops.dot r z ∧ S.ops.dot r p = gamma ∧ z = M r ∧ PRel S p z H ∧
    (∀ e ∈ H, S.ops.dot r e.z = 0 ∧ S.ops.dot r e.p = 0 ∧ S.ops.dot p (S.A e.p) = 0) ∧ CgChain S M H r

/-- if `y` is orthogonal to every previous direction, it is orthogonal to every previous preconditioned residual
    (each `z` is its direction minus a multiple of the older direction) -/
theorem chain_dot_z (S : Sys V Rat) (M : V → V) (hl : CgLaws S M) (y : V) :
    ∀ (H : List (CgEntry V)) (rc : V), CgChain S M H rc → (∀ e ∈ H, S.ops.dot y e.p = 0) →
      ∀ e ∈ H, S.ops.dot y e.z = 0 := by
  intro H
  induction H with
  | nil => intro rc _ _ e he; simp at he
  | cons e0 rest ih =>
    intro rc hch hp e he
    obtain ⟨_, _, _, hrel, _, hrest⟩ := hch
    rcases List.mem_cons.1 he with rfl | hin
    · cases rest with
      | nil =>
        simp only [PRel] at hrel
        rw [← hrel]; exact hp e (List.mem_cons_self ..)
      | cons e1 rest' =>
        obtain ⟨β, hβ⟩ := hrel
        have h0 := hp e (List.mem_cons_self ..)
        have h1 := hp e1 (List.mem_cons_of_mem _ (List.mem_cons_self ..))
        have h : S.ops.dot y e.p = S.ops.dot y (S.ops.axpy (S.ops.scale e1.p β) e.z 1) := by rw [← hβ]
        rw [hl.dot_axpy, hl.dot_scale, h1, h0] at h
        linarith
    · exact ih e0.r hrest (fun e' he' => hp e' (List.mem_cons_of_mem _ he')) e hin

/-- if `y` is orthogonal to the current and to all previous preconditioned residuals, then `M y` is A-conjugate to
    every previous direction -/
theorem chain_conj (S : Sys V Rat) (M : V → V) (hl : CgLaws S M) (y : V) :
    ∀ (H : List (CgEntry V)) (rc : V), CgChain S M H rc → S.ops.dot y (M rc) = 0 →
      (∀ e ∈ H, S.ops.dot y e.z = 0) → ∀ e ∈ H, S.ops.dot (M y) (S.A e.p) = 0 := by
  intro H
  induction H with
  | nil => intro rc _ _ _ e he; simp at he
  | cons e0 rest ih =>
    intro rc hch hc hz e he
    obtain ⟨ha, hrc, hz0, _, _, hrest⟩ := hch
    have hz00 := hz e0 (List.mem_cons_self ..)
    rcases List.mem_cons.1 he with rfl | hin
    · have h1 : S.ops.dot (M y) rc = 0 := by rw [hl.m_sym]; exact hc
      have h2 : S.ops.dot (M y) e.r = 0 := by rw [hl.m_sym, ← hz0]; exact hz00
      rw [hrc, hl.dot_axpy, h2] at h1
      have : e.alpha * S.ops.dot (M y) (S.A e.p) = 0 := by linarith
      rcases mul_eq_zero.1 this with h | h
      · exact absurd h ha
      · exact h
    · exact ih e0.r hrest (by rw [← hz0]; exact hz00) (fun e' he' => hz e' (List.mem_cons_of_mem _ he')) e hin

/-- ONE CG ITERATION PRESERVES THE INVARIANT (the classical induction step) -/
theorem cg_step (S : Sys V Rat) (M : V → V) (hl : CgLaws S M) (r p z : V) (gamma : Rat) (H : List (CgEntry V))
    (hinv : CgInv S M r p z gamma H) (hqp : S.ops.dot (S.A p) p ≠ 0) (hg : gamma ≠ 0) :
    CgInv S M (S.ops.axpy r (S.A p) (-(gamma / S.ops.dot (S.A p) p)))
      (S.ops.axpy (S.ops.scale p
        (S.ops.dot (S.ops.axpy r (S.A p) (-(gamma / S.ops.dot (S.A p) p)))
          (M (S.ops.axpy r (S.A p) (-(gamma / S.ops.dot (S.A p) p)))) / gamma))
        (M (S.ops.axpy r (S.A p) (-(gamma / S.ops.dot (S.A p) p)))) 1)
      (M (S.ops.axpy r (S.A p) (-(gamma / S.ops.dot (S.A p) p))))
      (S.ops.dot (S.ops.axpy r (S.A p) (-(gamma / S.ops.dot (S.A p) p)))
        (M (S.ops.axpy r (S.A p) (-(gamma / S.ops.dot (S.A p) p)))))
      (⟨p, r, z, gamma / S.ops.dot (S.A p) p⟩ :: H) := by
  obtain ⟨hgz, hrp, hzM, hrel, horth, hch⟩ := hinv
  generalize hal : gamma / S.ops.dot (S.A p) p = al
  generalize hqp' : S.ops.dot (S.A p) p = qp at hqp hal
  have hal0 : al ≠ 0 := by rw [← hal]; exact div_ne_zero hg hqp
  have halqp : al * qp = gamma := by rw [← hal]; field_simp
  generalize hr' : S.ops.axpy r (S.A p) (-al) = r'
  generalize hz' : M r' = z'
  generalize hg' : S.ops.dot r' z' = g'
  -- q·e.p = 0 for all previous directions
  have hq_p : ∀ e ∈ H, S.ops.dot (S.A p) e.p = 0 := fun e he => by rw [hl.a_sym]; exact (horth e he).2.2
  -- q·z = q·p
  have hq_z : S.ops.dot (S.A p) z = qp := by
    cases H with
    | nil => simp only [PRel] at hrel; rw [← hrel]; exact hqp'
    | cons e0 rest =>
      obtain ⟨β, hβ⟩ := hrel
      have h : S.ops.dot (S.A p) p = S.ops.dot (S.A p) (S.ops.axpy (S.ops.scale e0.p β) z 1) := by rw [← hβ]
      rw [hl.dot_axpy, hl.dot_scale, hq_p e0 (List.mem_cons_self ..), hqp'] at h
      linarith
  -- r'·p = 0, r'·z = 0
  have hr'p : S.ops.dot r' p = 0 := by
    rw [hl.dot_comm, ← hr', hl.dot_axpy, hl.dot_comm p r, hrp, hl.dot_comm p, hqp']; linarith
  have hr'z : S.ops.dot r' z = 0 := by
    rw [hl.dot_comm, ← hr', hl.dot_axpy, hl.dot_comm z r, ← hgz, hl.dot_comm z, hq_z]; linarith
  -- r' against the older entries
  have hr'_p : ∀ e ∈ H, S.ops.dot r' e.p = 0 := fun e he => by
    rw [hl.dot_comm, ← hr', hl.dot_axpy, hl.dot_comm e.p r, (horth e he).2.1, hl.dot_comm e.p, hq_p e he]; ring
  have hr'_pall : ∀ e ∈ (⟨p, r, z, al⟩ :: H : List (CgEntry V)), S.ops.dot r' e.p = 0 := by
    intro e he
    rcases List.mem_cons.1 he with rfl | hin
    · exact hr'p
    · exact hr'_p e hin
  have hchain' : CgChain S M (⟨p, r, z, al⟩ :: H) r' :=
    ⟨hal0, hr'.symm, hzM, hrel, fun e2 he2 => ⟨(horth e2 he2).1, (horth e2 he2).2.1, (horth e2 he2).2.2⟩, hch⟩
  have hr'_zall := chain_dot_z S M hl r' _ r' hchain' hr'_pall
  -- the new direction
  have hp'dot : ∀ y, S.ops.dot y (S.ops.axpy (S.ops.scale p (g' / gamma)) z' 1) =
      (g' / gamma) * S.ops.dot y p + S.ops.dot y z' := by
    intro y; rw [hl.dot_axpy, hl.dot_scale]; ring
  refine ⟨hg'.symm, ?_, hz'.symm, ⟨g' / gamma, rfl⟩, ?_, hchain'⟩
  · rw [hp'dot, hr'p, hg']; ring
  · intro e he
    refine ⟨hr'_zall e he, hr'_pall e he, ?_⟩
    rw [hl.dot_comm, hp'dot, hl.dot_comm (S.A e.p) p, hl.dot_comm (S.A e.p) z']
    rcases List.mem_cons.1 he with rfl | hin
    · -- conjugacy against the direction just used
      have hz'r : S.ops.dot z' r = 0 := by rw [← hz', hl.m_sym, ← hzM]; exact hr'z
      have hz'q : al * S.ops.dot z' (S.A p) = -g' := by
        have : S.ops.dot z' r' = g' := by rw [hl.dot_comm]; exact hg'
        rw [← hr', hl.dot_axpy, hz'r] at this
        linarith
      have hpq : S.ops.dot p (S.A p) = qp := by rw [hl.dot_comm]; exact hqp'
      simp only
      rw [hpq]
      have : S.ops.dot z' (S.A p) = -g' / al := by field_simp; linarith
      rw [this, ← halqp]
      field_simp
      ring
    · have h1 : S.ops.dot p (S.A e.p) = 0 := (horth e hin).2.2
      have h2 : S.ops.dot z' (S.A e.p) = 0 := by
        rw [← hz']
        exact chain_conj S M hl r' H r hch (by rw [← hzM]; exact hr'z)
          (fun e' he' => hr'_zall e' (List.mem_cons_of_mem _ he')) e hin
      rw [h1, h2]; ring

/-- entries of a CG history are pairwise M-orthogonal (residuals) and A-conjugate (directions); newer entry first -/
theorem chain_pairwise (S : Sys V Rat) (M : V → V) :
    ∀ (H : List (CgEntry V)) (rc : V), CgChain S M H rc →
      H.Pairwise (fun e1 e2 => S.ops.dot e1.r e2.z = 0 ∧ S.ops.dot e1.p (S.A e2.p) = 0) := by
  intro H
  induction H with
  | nil => intro _ _; exact List.Pairwise.nil
  | cons e rest ih =>
    intro rc hch
    obtain ⟨_, _, _, _, horth, hrest⟩ := hch
    exact List.Pairwise.cons (fun e2 he2 => ⟨(horth e2 he2).1, (horth e2 he2).2.2⟩) (ih e.r hrest)

theorem chain_entries (S : Sys V Rat) (M : V → V) :
    ∀ (H : List (CgEntry V)) (rc : V), CgChain S M H rc → ∀ e ∈ H, e.alpha ≠ 0 ∧ e.z = M e.r := by
  intro H
  induction H with
  | nil => intro _ _ e he; simp at he
  | cons e0 rest ih =>
    intro rc hch e he
    obtain ⟨ha, _, hz0, _, _, hrest⟩ := hch
    rcases List.mem_cons.1 he with rfl | hin
    · exact ⟨ha, hz0⟩
    · exact ih e0.r hrest e hin

/-- the PCG loop of the model maintains the CG invariant: when it returns after `k` more iterations, the history has
    grown by `k − 1` completed iterations -/
theorem pcgLoop_cg (S : Sys V Rat) (M : V → V) (hl : CgLaws S M) (c : Config Rat) :
    ∀ (fuel : Nat) (x r p : V) (gamma : Rat) (st : State Rat) (calls : Nat) (hist : List Rat) (z : V)
      (H : List (CgEntry V)) (res : Result V Rat),
      CgInv S M r p z gamma H →
      st.numIter ≤ max c.minIter c.maxIter → max c.minIter c.maxIter + 1 ≤ fuel + st.numIter →
      pcgLoop S c fuel x r p gamma st calls hist = some res →
      ∃ (rf pf zf : V) (gf : Rat) (Hf : List (CgEntry V)), CgInv S M rf pf zf gf Hf ∧
        Hf.length + st.numIter + 1 = H.length + res.st.numIter := by
  intro fuel
  induction fuel with
  | zero => intro x r p gamma st calls hist z H res _ h1 h2; omega
  | succ fuel ih =>
    intro x r p gamma st calls hist z H res hinv h1 h2 h
    simp only [pcgLoop, hl.no_filter] at h
    split at h
    · exact absurd h (by simp)
    · rename_i hqp
      generalize hsn : setNewDefect c st true _ = sn at h
      obtain ⟨status, st'⟩ := sn
      have hf := setNew_frame c st st' true _ _ hsn
      simp only at h
      split at h
      · simp only [Option.some.injEq] at h; subst h
        exact ⟨r, p, z, gamma, H, hinv, by simp only; omega⟩
      · rename_i hne
        have hp : status = .progress := by simpa using hne
        subst hp
        have hb := setNew_progress_bound c st st' true _ hsn
        rw [hl.prec_eq] at h
        simp only at h
        split at h
        · exact absurd h (by simp)
        · rename_i hg
          have hstep := cg_step S M hl r p z gamma H hinv hqp hg
          obtain ⟨rf, pf, zf, gf, Hf, hinvf, hlen⟩ := ih _ _ _ _ st' _ _ _ _ res hstep (by omega) (by omega) h
          refine ⟨rf, pf, zf, gf, Hf, hinvf, ?_⟩
          simp only [List.length_cons] at hlen
          omega

/-- `PCG::_apply_intern`: if iterations were made, the `num_iter − 1` completed iterations form a CG history -/
theorem pcgIntern_cg (S : Sys V Rat) (M : V → V) (hl : CgLaws S M) (c : Config Rat) (prev : State Rat) (x r : V)
    (res : Result V Rat) (h : pcgIntern S c prev x r = some res) (hpos : 0 < res.st.numIter) :
    ∃ (rf pf zf : V) (gf : Rat) (Hf : List (CgEntry V)), CgInv S M rf pf zf gf Hf ∧
      Hf.length + 1 = res.st.numIter := by
  simp only [pcgIntern] at h
  rcases hsi : setInitialDefect c prev true (S.nrm r) with ⟨status, st⟩
  rw [hsi] at h
  have hst := (setInitial_spec c prev true _ _ _ hsi).1
  simp only at h
  split at h
  · simp only [Option.some.injEq] at h; subst h; subst hst; simp at hpos
  · rw [hl.prec_eq] at h
    simp only at h
    have hinv0 : CgInv S M r (M r) (M r) (S.ops.dot r (M r)) [] :=
      ⟨rfl, rfl, rfl, rfl, fun e he => by simp at he, trivial⟩
    obtain ⟨rf, pf, zf, gf, Hf, hinvf, hlen⟩ :=
      pcgLoop_cg S M hl c _ x r _ _ st _ _ _ [] res hinv0 (by subst hst; simp) (by subst hst; simp [fuelOf]) h
    refine ⟨rf, pf, zf, gf, Hf, hinvf, ?_⟩
    subst hst
    simp only [List.length_nil] at hlen
    omega

end FeatModel.Solver
