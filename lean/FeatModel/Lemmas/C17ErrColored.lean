import FeatModel.Lemmas.C17Colored
/-
C17 (extension): the error path (`okay = false`) of the coloured barrier protocol (`CCfg.estep`):
deadlock freedom, conservativity over the failure-free machine, and safety of the scatter phase.
-/
set_option linter.unusedVariables false
set_option linter.unusedSimpArgs false

namespace FeatModel.DA

/-! ## the transitions of the extended machine, one by one -/

/-- the transitions of the failure-free machine, with their events -/
inductive ECB (c : CCfg) (s : CSt) : Ev → CSt → Prop
  | openFront : s.mph = .openFront →
      ECB c s (.fopen 0 0) { s with fence := updB s.fence 0 true, mph := .wait1, mi := 1 }
  | wait1 : s.mph = .wait1 → s.fence s.mi = true → ECB c s (.fwait 0 s.mi) { s with mph := .close1 }
  | wait2 : s.mph = .wait2 → s.fence s.mi = true → ECB c s (.fwait 0 s.mi) { s with mph := .close2 }
  | close1a : s.mph = .close1 → s.mi < c.n →
      ECB c s (.fclose 0 s.mi) { s with fence := updB s.fence s.mi false, mph := .wait1, mi := s.mi + 1 }
  | close1b : s.mph = .close1 → ¬ s.mi < c.n →
      ECB c s (.fclose 0 s.mi) { s with fence := updB s.fence s.mi false, mph := .closeFront }
  | close2a : s.mph = .close2 → s.mi < c.n →
      ECB c s (.fclose 0 s.mi) { s with fence := updB s.fence s.mi false, mph := .wait2, mi := s.mi + 1 }
  | close2b : s.mph = .close2 → ¬ s.mi < c.n →
      ECB c s (.fclose 0 s.mi) { s with fence := updB s.fence s.mi false, mph := .closeBack }
  | closeFront : s.mph = .closeFront →
      ECB c s (.fclose 0 0) { s with fence := updB s.fence 0 false, mph := .openBack }
  | openBack : s.mph = .openBack →
      ECB c s (.fopen 0 (c.n + 1)) { s with fence := updB s.fence (c.n + 1) true, mph := .wait2, mi := 1 }
  | closeBack : s.mph = .closeBack →
      ECB c s (.fclose 0 (c.n + 1))
        { s with fence := updB s.fence (c.n + 1) false, col := upd s.col 0 (s.col 0 + 1),
                 mph := if s.col 0 + 1 < c.nc then .openFront else .join }
  | join : s.mph = .join → c.allDone s = true → ECB c s .join { s with mph := .done }
  | wfront (t : Nat) : 1 ≤ t → t ≤ c.n → s.ph t = .front → s.fence 0 = true →
      ECB c s (.fwait t 0)
        { s with pos := upd s.pos t (c.cbeg (s.col t) t),
                 ph := updP s.ph t (c.afterElem s t (c.cbeg (s.col t) t)) }
  | wenter (t : Nat) : 1 ≤ t → t ≤ c.n → s.ph t = .idle →
      ECB c s (.enter t (c.cell (s.pos t))) { s with ph := updP s.ph t .insc }
  | wleave (t : Nat) : 1 ≤ t → t ≤ c.n → s.ph t = .insc →
      ECB c s (.leave t (c.cell (s.pos t)))
        { s with pos := upd s.pos t (s.pos t + 1), ph := updP s.ph t (c.afterElem s t (s.pos t + 1)) }
  | wopen (t : Nat) : 1 ≤ t → t ≤ c.n → s.ph t = .toOpen →
      ECB c s (.fopen t t) { s with fence := updB s.fence t true, ph := updP s.ph t .back }
  | wback (t : Nat) : 1 ≤ t → t ≤ c.n → s.ph t = .back → s.fence (c.n + 1) = true →
      ECB c s (.fwait t (c.n + 1)) { s with ph := updP s.ph t .toOpen2 }
  | wopen2 (t : Nat) : 1 ≤ t → t ≤ c.n → s.ph t = .toOpen2 →
      ECB c s (.fopen t t)
        { s with fence := updB s.fence t true, col := upd s.col t (s.col t + 1),
                 ph := updP s.ph t (if s.col t + 1 < c.nc then .front else if c.comb then .preComb else .done) }
  | wcenter (t : Nat) : 1 ≤ t → t ≤ c.n → s.ph t = .preComb → s.mutex = false →
      ECB c s (.center t) { s with ph := updP s.ph t .inComb, mutex := true }
  | wcleave (t : Nat) : 1 ≤ t → t ≤ c.n → s.ph t = .inComb →
      ECB c s (.cleave t) { s with ph := updP s.ph t .done, mutex := false }

theorem ECB.of_step {c : CCfg} {s s' : CSt} {e : Ev} (h : c.step s e = some s') : ECB c s e s' := by
  unfold CCfg.step at h
  split at h
  next hc =>
    obtain ⟨hnx, hen⟩ := hc
    simp only [Option.some.injEq] at h
    subst h
    generalize ht0 : e.thread = t at hnx
    unfold CCfg.next at hnx
    split at hnx
    next ht =>
      subst ht
      split at hnx <;> simp only [Option.some.injEq, reduceCtorEq] at hnx <;> subst hnx
      next hm => simp only [CCfg.apply, hm, if_true]; exact .openFront hm
      next hm =>
        simp only [CCfg.apply, CCfg.enabled, hm, if_true] at hen ⊢; exact .wait1 hm hen
      next hm =>
        simp only [CCfg.apply, CCfg.enabled, hm, if_true, reduceCtorEq, if_false] at hen ⊢
        exact .wait2 hm hen
      next hm =>
        simp only [CCfg.apply, hm]
        split
        next h1 => exact .close1a hm h1
        next h1 => exact .close1b hm h1
      next hm =>
        simp only [CCfg.apply, hm]
        split
        next h1 => exact .close2a hm h1
        next h1 => exact .close2b hm h1
      next hm => simp only [CCfg.apply, hm]; exact .closeFront hm
      next hm =>
        simp only [CCfg.apply, hm, if_true, reduceCtorEq, if_false]; exact .openBack hm
      next hm => simp only [CCfg.apply, hm]; exact .closeBack hm
      next hm => simp only [CCfg.apply, CCfg.enabled] at hen ⊢; exact .join hm hen
    next ht =>
      split at hnx
      next => simp at hnx
      next hle =>
        split at hnx <;> simp only [Option.some.injEq, reduceCtorEq] at hnx <;> subst hnx
        all_goals (have h1 : 1 ≤ t := Nat.pos_of_ne_zero ht)
        all_goals (have h2 : t ≤ c.n := Nat.le_of_not_lt hle)
        next hp =>
          simp only [CCfg.apply, CCfg.enabled, if_neg ht, if_true] at hen ⊢; exact .wfront t h1 h2 hp hen
        next hp => simp only [CCfg.apply]; exact .wenter t h1 h2 hp
        next hp => simp only [CCfg.apply]; exact .wleave t h1 h2 hp
        next hp => simp only [CCfg.apply, if_neg ht, hp, if_true]; exact .wopen t h1 h2 hp
        next hp =>
          simp only [CCfg.apply, CCfg.enabled, if_neg ht, Nat.add_one_ne_zero, if_false] at hen ⊢
          exact .wback t h1 h2 hp hen
        next hp =>
          simp only [CCfg.apply, if_neg ht, hp, reduceCtorEq, if_false]; exact .wopen2 t h1 h2 hp
        next hp =>
          simp only [CCfg.apply, CCfg.enabled, Bool.not_eq_true'] at hen ⊢; exact .wcenter t h1 h2 hp hen
        next hp => simp only [CCfg.apply]; exact .wcleave t h1 h2 hp
  next => simp at h

/-- all transitions of the extended coloured protocol in explicit form -/
inductive ECTr (c : CCfg) (s : CESt) : CESt → Prop
  | openFront : s.base.mph = .openFront →
      ECTr c s { s with base := { s.base with fence := updB s.base.fence 0 true, mph := .wait1, mi := 1 }, okay := updB s.okay 0 true, allOkay := true }
  | wait1 : s.base.mph = .wait1 → s.base.fence s.base.mi = true → s.okay s.base.mi = true →
      ECTr c s { s with base := { s.base with mph := .close1 } }
  | wait2 : s.base.mph = .wait2 → s.base.fence s.base.mi = true → s.okay s.base.mi = true →
      ECTr c s { s with base := { s.base with mph := .close2 } }
  | close1a : s.base.mph = .close1 → s.base.mi < c.n →
      ECTr c s { s with base := { s.base with fence := updB s.base.fence s.base.mi false, mph := .wait1, mi := s.base.mi + 1 } }
  | close1b : s.base.mph = .close1 → ¬ s.base.mi < c.n →
      ECTr c s { s with base := { s.base with fence := updB s.base.fence s.base.mi false, mph := .closeFront } }
  | close2a : s.base.mph = .close2 → s.base.mi < c.n →
      ECTr c s { s with base := { s.base with fence := updB s.base.fence s.base.mi false, mph := .wait2, mi := s.base.mi + 1 } }
  | close2b : s.base.mph = .close2 → ¬ s.base.mi < c.n →
      ECTr c s { s with base := { s.base with fence := updB s.base.fence s.base.mi false, mph := .closeBack } }
  | closeFront : s.base.mph = .closeFront →
      ECTr c s { s with base := { s.base with fence := updB s.base.fence 0 false, mph := .openBack } }
  | openBack : s.base.mph = .openBack → s.allOkay = true →
      ECTr c s { s with base := { s.base with fence := updB s.base.fence (c.n + 1) true, mph := .wait2, mi := 1 }, okay := updB s.okay (c.n + 1) true }
  | closeBack : s.base.mph = .closeBack →
      ECTr c s { s with base := { s.base with fence := updB s.base.fence (c.n + 1) false, col := upd s.base.col 0 (s.base.col 0 + 1), mph := if s.base.col 0 + 1 < c.nc then .openFront else .join } }
  | join : s.base.mph = .join → c.allDone s.base = true →
      ECTr c s { s with base := { s.base with mph := .done } }
  | wfront (t : Nat) : 1 ≤ t → t ≤ c.n → s.failing t = false → s.base.ph t = .front → s.base.fence 0 = true → s.okay 0 = true →
      ECTr c s { s with base := { s.base with pos := upd s.base.pos t (c.cbeg (s.base.col t) t), ph := updP s.base.ph t (c.afterElem s.base t (c.cbeg (s.base.col t) t)) } }
  | wenter (t : Nat) : 1 ≤ t → t ≤ c.n → s.failing t = false → s.base.ph t = .idle →
      ECTr c s { s with base := { s.base with ph := updP s.base.ph t .insc } }
  | wleave (t : Nat) : 1 ≤ t → t ≤ c.n → s.failing t = false → s.base.ph t = .insc →
      ECTr c s { s with base := { s.base with pos := upd s.base.pos t (s.base.pos t + 1), ph := updP s.base.ph t (c.afterElem s.base t (s.base.pos t + 1)) } }
  | wopen (t : Nat) : 1 ≤ t → t ≤ c.n → s.failing t = false → s.base.ph t = .toOpen →
      ECTr c s { s with base := { s.base with fence := updB s.base.fence t true, ph := updP s.base.ph t .back }, okay := updB s.okay t true }
  | wback (t : Nat) : 1 ≤ t → t ≤ c.n → s.failing t = false → s.base.ph t = .back → s.base.fence (c.n + 1) = true → s.okay (c.n + 1) = true →
      ECTr c s { s with base := { s.base with ph := updP s.base.ph t .toOpen2 } }
  | wopen2 (t : Nat) : 1 ≤ t → t ≤ c.n → s.failing t = false → s.base.ph t = .toOpen2 →
      ECTr c s { s with base := { s.base with fence := updB s.base.fence t true, col := upd s.base.col t (s.base.col t + 1), ph := updP s.base.ph t (if s.base.col t + 1 < c.nc then .front else if c.comb then .preComb else .done) }, okay := updB s.okay t true }
  | wcenter (t : Nat) : 1 ≤ t → t ≤ c.n → s.failing t = false → s.base.ph t = .preComb → s.base.mutex = false →
      ECTr c s { s with base := { s.base with ph := updP s.base.ph t .inComb, mutex := true } }
  | wcleave (t : Nat) : 1 ≤ t → t ≤ c.n → s.failing t = false → s.base.ph t = .inComb →
      ECTr c s { s with base := { s.base with ph := updP s.base.ph t .done, mutex := false } }
  | mwaitF1 : s.base.mph = .wait1 → s.base.fence s.base.mi = true → s.okay s.base.mi = false →
      ECTr c s { s with base := { s.base with mph := .close1 }, allOkay := false }
  | mwaitF2 : s.base.mph = .wait2 → s.base.fence s.base.mi = true → s.okay s.base.mi = false →
      ECTr c s { s with base := { s.base with mph := .close2 } }
  | wwaitFf (t : Nat) : 1 ≤ t → t ≤ c.n → s.failing t = false → s.base.ph t = .front → s.base.fence 0 = true → s.okay 0 = false →
      ECTr c s { s with failing := updB s.failing t true }
  | wwaitFb (t : Nat) : 1 ≤ t → t ≤ c.n → s.failing t = false → s.base.ph t = .back → s.base.fence (c.n + 1) = true → s.okay (c.n + 1) = false →
      ECTr c s { s with failing := updB s.failing t true }
  | wfail (t : Nat) : 1 ≤ t → t ≤ c.n → s.failing t = false → (s.base.ph t = .front ∧ s.base.col t = 0) ∨ s.base.ph t = .idle ∨ s.base.ph t = .insc ∨ s.base.ph t = .toOpen →
      ECTr c s { s with failing := updB s.failing t true }
  | wfailC (t : Nat) : 1 ≤ t → t ≤ c.n → s.failing t = false → s.base.ph t = .inComb →
      ECTr c s { s with failing := updB s.failing t true, base := { s.base with mutex := false } }
  | wfopenF (t : Nat) : 1 ≤ t → t ≤ c.n → s.failing t = true →
      ECTr c s { s with base := { s.base with fence := updB s.base.fence t true, ph := updP s.base.ph t .done }, okay := updB s.okay t false, failing := updB s.failing t false }
  | mfopenF : s.base.mph = .openBack → s.allOkay = false →
      ECTr c s { s with base := { s.base with fence := updB s.base.fence (c.n + 1) true, mph := .join }, okay := updB s.okay (c.n + 1) false }

theorem ECTr.to_estep {c : CCfg} {s s' : CESt} (tr : ECTr c s s') : ∃ e, c.estep s e = some s' := by
  cases tr
  case openFront g0 =>
    exact ⟨.ok (.fopen 0 0), by simp [CCfg.estep, CCfg.step, CCfg.next, CCfg.enabled, CCfg.apply, Ev.thread, *]⟩
  case wait1 g0 g1 g2 =>
    exact ⟨.ok (.fwait 0 s.base.mi), by simp [CCfg.estep, CCfg.step, CCfg.next, CCfg.enabled, CCfg.apply, Ev.thread, *]⟩
  case wait2 g0 g1 g2 =>
    exact ⟨.ok (.fwait 0 s.base.mi), by simp [CCfg.estep, CCfg.step, CCfg.next, CCfg.enabled, CCfg.apply, Ev.thread, *]⟩
  case close1a g0 g1 =>
    exact ⟨.ok (.fclose 0 s.base.mi), by simp [CCfg.estep, CCfg.step, CCfg.next, CCfg.enabled, CCfg.apply, Ev.thread, *]⟩
  case close1b g0 g1 =>
    exact ⟨.ok (.fclose 0 s.base.mi), by simp [CCfg.estep, CCfg.step, CCfg.next, CCfg.enabled, CCfg.apply, Ev.thread, *]⟩
  case close2a g0 g1 =>
    exact ⟨.ok (.fclose 0 s.base.mi), by simp [CCfg.estep, CCfg.step, CCfg.next, CCfg.enabled, CCfg.apply, Ev.thread, *]⟩
  case close2b g0 g1 =>
    exact ⟨.ok (.fclose 0 s.base.mi), by simp [CCfg.estep, CCfg.step, CCfg.next, CCfg.enabled, CCfg.apply, Ev.thread, *]⟩
  case closeFront g0 =>
    exact ⟨.ok (.fclose 0 0), by simp [CCfg.estep, CCfg.step, CCfg.next, CCfg.enabled, CCfg.apply, Ev.thread, *]⟩
  case openBack g0 g1 =>
    exact ⟨.ok (.fopen 0 (c.n + 1)), by simp [CCfg.estep, CCfg.step, CCfg.next, CCfg.enabled, CCfg.apply, Ev.thread, *]⟩
  case closeBack g0 =>
    exact ⟨.ok (.fclose 0 (c.n + 1)), by simp [CCfg.estep, CCfg.step, CCfg.next, CCfg.enabled, CCfg.apply, Ev.thread, *]⟩
  case join g0 g1 =>
    exact ⟨.ok .join, by simp [CCfg.estep, CCfg.step, CCfg.next, CCfg.enabled, CCfg.apply, Ev.thread, *]⟩
  case wfront t g0 g1 g2 g3 g4 g5 =>
    have ht : t ≠ 0 := by omega
    have ht' : ¬ c.n < t := by omega
    exact ⟨.ok (.fwait t 0), by simp [CCfg.estep, CCfg.step, CCfg.next, CCfg.enabled, CCfg.apply, Ev.thread, canFailC, *]⟩
  case wenter t g0 g1 g2 g3 =>
    have ht : t ≠ 0 := by omega
    have ht' : ¬ c.n < t := by omega
    exact ⟨.ok (.enter t (c.cell (s.base.pos t))), by simp [CCfg.estep, CCfg.step, CCfg.next, CCfg.enabled, CCfg.apply, Ev.thread, canFailC, *]⟩
  case wleave t g0 g1 g2 g3 =>
    have ht : t ≠ 0 := by omega
    have ht' : ¬ c.n < t := by omega
    exact ⟨.ok (.leave t (c.cell (s.base.pos t))), by simp [CCfg.estep, CCfg.step, CCfg.next, CCfg.enabled, CCfg.apply, Ev.thread, canFailC, *]⟩
  case wopen t g0 g1 g2 g3 =>
    have ht : t ≠ 0 := by omega
    have ht' : ¬ c.n < t := by omega
    exact ⟨.ok (.fopen t t), by simp [CCfg.estep, CCfg.step, CCfg.next, CCfg.enabled, CCfg.apply, Ev.thread, canFailC, *]⟩
  case wback t g0 g1 g2 g3 g4 g5 =>
    have ht : t ≠ 0 := by omega
    have ht' : ¬ c.n < t := by omega
    exact ⟨.ok (.fwait t (c.n + 1)), by simp [CCfg.estep, CCfg.step, CCfg.next, CCfg.enabled, CCfg.apply, Ev.thread, canFailC, *]⟩
  case wopen2 t g0 g1 g2 g3 =>
    have ht : t ≠ 0 := by omega
    have ht' : ¬ c.n < t := by omega
    exact ⟨.ok (.fopen t t), by simp [CCfg.estep, CCfg.step, CCfg.next, CCfg.enabled, CCfg.apply, Ev.thread, canFailC, *]⟩
  case wcenter t g0 g1 g2 g3 g4 =>
    have ht : t ≠ 0 := by omega
    have ht' : ¬ c.n < t := by omega
    exact ⟨.ok (.center t), by simp [CCfg.estep, CCfg.step, CCfg.next, CCfg.enabled, CCfg.apply, Ev.thread, canFailC, *]⟩
  case wcleave t g0 g1 g2 g3 =>
    have ht : t ≠ 0 := by omega
    have ht' : ¬ c.n < t := by omega
    exact ⟨.ok (.cleave t), by simp [CCfg.estep, CCfg.step, CCfg.next, CCfg.enabled, CCfg.apply, Ev.thread, canFailC, *]⟩
  case mwaitF1 g0 g1 g2 =>
    exact ⟨.fwaitF 0 s.base.mi, by simp [CCfg.estep, CCfg.step, CCfg.next, CCfg.enabled, CCfg.apply, Ev.thread, *]⟩
  case mwaitF2 g0 g1 g2 =>
    exact ⟨.fwaitF 0 s.base.mi, by simp [CCfg.estep, CCfg.step, CCfg.next, CCfg.enabled, CCfg.apply, Ev.thread, *]⟩
  case wwaitFf t g0 g1 g2 g3 g4 g5 =>
    have ht : t ≠ 0 := by omega
    have ht' : ¬ c.n < t := by omega
    exact ⟨.fwaitF t 0, by simp [CCfg.estep, CCfg.step, CCfg.next, CCfg.enabled, CCfg.apply, Ev.thread, canFailC, *]⟩
  case wwaitFb t g0 g1 g2 g3 g4 g5 =>
    have ht : t ≠ 0 := by omega
    have ht' : ¬ c.n < t := by omega
    exact ⟨.fwaitF t (c.n + 1), by simp [CCfg.estep, CCfg.step, CCfg.next, CCfg.enabled, CCfg.apply, Ev.thread, canFailC, *]⟩
  case wfail t g0 g1 g2 g3 =>
    have ht : t ≠ 0 := by omega
    have ht' : ¬ c.n < t := by omega
    refine ⟨.fail t, ?_⟩
    rcases g3 with ⟨g3, g4⟩ | g3 | g3 | g3 <;> simp [CCfg.estep, canFailC, *]
  case wfailC t g0 g1 g2 g3 =>
    have ht : t ≠ 0 := by omega
    have ht' : ¬ c.n < t := by omega
    exact ⟨.fail t, by simp [CCfg.estep, CCfg.step, CCfg.next, CCfg.enabled, CCfg.apply, Ev.thread, canFailC, *]⟩
  case wfopenF t g0 g1 g2 =>
    have ht : t ≠ 0 := by omega
    have ht' : ¬ c.n < t := by omega
    exact ⟨.fopenF t t, by simp [CCfg.estep, CCfg.step, CCfg.next, CCfg.enabled, CCfg.apply, Ev.thread, canFailC, *]⟩
  case mfopenF g0 g1 =>
    exact ⟨.fopenF 0 (c.n + 1), by simp [CCfg.estep, CCfg.step, CCfg.next, CCfg.enabled, CCfg.apply, Ev.thread, *]⟩

theorem ec_not_failing {s : CESt} {t : Nat} (ht : 1 ≤ t)
    (hg : ¬(t ≠ 0 ∧ s.failing t = true)) : s.failing t = false := by
  cases hq : s.failing t
  · rfl
  · exact absurd ⟨by omega, hq⟩ hg

theorem ECTr.of_estep {c : CCfg} {s s' : CESt} {e : EEv} (h : c.estep s e = some s') : ECTr c s s' := by
  cases e
  case ok e =>
    simp only [CCfg.estep] at h
    split at h
    next => simp at h
    next hg =>
      cases e
      case fwait t f =>
        simp only [Ev.thread] at hg h
        split at h
        next hok =>
          obtain ⟨b, hb, rfl⟩ := Option.map_eq_some_iff.mp h
          cases ECB.of_step hb
          case wait1 hm hf => exact .wait1 hm hf hok
          case wait2 hm hf => exact .wait2 hm hf hok
          case wfront => exact .wfront t (by assumption) (by assumption) (ec_not_failing (by assumption) hg) (by assumption) (by assumption) hok
          case wback => exact .wback t (by assumption) (by assumption) (ec_not_failing (by assumption) hg) (by assumption) (by assumption) hok
        next => simp at h
      case fopen t f =>
        simp only [Ev.thread] at hg h
        split at h
        next => simp at h
        next hg2 =>
          obtain ⟨b, hb, rfl⟩ := Option.map_eq_some_iff.mp h
          cases ECB.of_step hb
          case openFront hm => simp only [hm, and_self, if_true]; exact .openFront hm
          case openBack hm =>
            have ha : s.allOkay = true := by
              cases hq : s.allOkay
              · exact absurd ⟨rfl, hm, hq⟩ hg2
              · rfl
            simp only [hm, reduceCtorEq, and_false, if_false]; exact .openBack hm ha
          case wopen h1 h2 hp =>
            have ht : t ≠ 0 := by omega
            simp only [ht, false_and, if_false]; exact .wopen t h1 h2 (ec_not_failing h1 hg) hp
          case wopen2 h1 h2 hp =>
            have ht : t ≠ 0 := by omega
            simp only [ht, false_and, if_false]; exact .wopen2 t h1 h2 (ec_not_failing h1 hg) hp
      case fclose t f =>
        simp only [Ev.thread] at hg h
        obtain ⟨b, hb, rfl⟩ := Option.map_eq_some_iff.mp h
        cases ECB.of_step hb
        case close1a hm hk => exact .close1a hm hk
        case close1b hm hk => exact .close1b hm hk
        case close2a hm hk => exact .close2a hm hk
        case close2b hm hk => exact .close2b hm hk
        case closeFront hm => exact .closeFront hm
        case closeBack hm => exact .closeBack hm
      case enter t x =>
        simp only [Ev.thread] at hg h
        obtain ⟨b, hb, rfl⟩ := Option.map_eq_some_iff.mp h
        cases ECB.of_step hb
        case wenter h1 h2 hp => exact .wenter t h1 h2 (ec_not_failing h1 hg) hp
      case leave t x =>
        simp only [Ev.thread] at hg h
        obtain ⟨b, hb, rfl⟩ := Option.map_eq_some_iff.mp h
        cases ECB.of_step hb
        case wleave h1 h2 hp => exact .wleave t h1 h2 (ec_not_failing h1 hg) hp
      case center t =>
        simp only [Ev.thread] at hg h
        obtain ⟨b, hb, rfl⟩ := Option.map_eq_some_iff.mp h
        cases ECB.of_step hb
        case wcenter => exact .wcenter t (by assumption) (by assumption) (ec_not_failing (by assumption) hg) (by assumption) (by assumption)
      case cleave t =>
        simp only [Ev.thread] at hg h
        obtain ⟨b, hb, rfl⟩ := Option.map_eq_some_iff.mp h
        cases ECB.of_step hb
        case wcleave h1 h2 hp => exact .wcleave t h1 h2 (ec_not_failing h1 hg) hp
      case join =>
        simp only [] at h
        obtain ⟨b, hb, rfl⟩ := Option.map_eq_some_iff.mp h
        cases ECB.of_step hb
        case join hm hd => exact .join hm hd
  case fwaitF t f =>
    simp only [CCfg.estep] at h
    split at h
    next ht =>
      subst ht
      split at h
      next hok =>
        obtain ⟨b, hb, rfl⟩ := Option.map_eq_some_iff.mp h
        cases ECB.of_step hb
        case wait1 hm hf => simp only [hm, if_true]; exact .mwaitF1 hm hf hok
        case wait2 hm hf => simp only [hm, reduceCtorEq, if_false]; exact .mwaitF2 hm hf hok
        case wfront h1 h2 hp hf => omega
        case wback h1 h2 hp hf => omega
      next => simp at h
    next ht =>
      split at h
      next hc =>
        obtain ⟨hfl, hnx, hfe, hok⟩ := hc
        simp only [Option.some.injEq] at h
        subst h
        unfold CCfg.next at hnx
        rw [if_neg ht] at hnx
        split at hnx
        next => simp at hnx
        next hle =>
          have h1 : 1 ≤ t := Nat.pos_of_ne_zero ht
          have h2 : t ≤ c.n := Nat.le_of_not_lt hle
          split at hnx <;> simp only [Option.some.injEq, reduceCtorEq, Ev.fwait.injEq, true_and] at hnx
          next hp => subst hnx; exact .wwaitFf t h1 h2 hfl hp hfe hok
          next hp => subst hnx; exact .wwaitFb t h1 h2 hfl hp hfe hok
      next => simp at h
  case fail t =>
    simp only [CCfg.estep] at h
    split at h
    next hc =>
      obtain ⟨h1, h2, hfl, hcf⟩ := hc
      simp only [Option.some.injEq] at h
      subst h
      by_cases hp : s.base.ph t = .inComb
      · simp only [hp, if_true]; exact .wfailC t h1 h2 hfl hp
      · simp only [hp, if_false]
        refine .wfail t h1 h2 hfl ?_
        unfold canFailC at hcf
        split at hcf
        next hq => exact .inl ⟨hq, by simpa using hcf⟩
        next hq => exact .inr (.inl hq)
        next hq => exact .inr (.inr (.inl hq))
        next hq => exact absurd hq hp
        next hq => exact .inr (.inr (.inr hq))
        next => simp at hcf
    next => simp at h
  case fopenF t f =>
    simp only [CCfg.estep] at h
    split at h
    next ht =>
      subst ht
      split at h
      next hc =>
        obtain ⟨hm, ha, rfl⟩ := hc
        simp only [Option.some.injEq] at h
        subst h
        exact .mfopenF hm ha
      next => simp at h
    next ht =>
      split at h
      next hc =>
        obtain ⟨h2, hfl, rfl⟩ := hc
        simp only [Option.some.injEq] at h
        subst h
        exact .wfopenF f (Nat.pos_of_ne_zero ht) h2 hfl
      next => simp at h

/-! ## the mutex -/

structure ECMInv (c : CCfg) (s : CESt) : Prop where
  held : ∀ a, s.base.ph a = .inComb → s.failing a = false → s.base.mutex = true
  uniq : ∀ a b, s.base.ph a = .inComb → s.failing a = false → s.base.ph b = .inComb → s.failing b = false → a = b
  holder : s.base.mutex = true → ∃ a, 1 ≤ a ∧ a ≤ c.n ∧ s.base.ph a = .inComb ∧ s.failing a = false

theorem ECMInv.init (c : CCfg) : ECMInv c c.einit := by
  constructor <;> grind [CCfg.einit, CCfg.init]

theorem ECMInv.step {c : CCfg} {s s' : CESt} (h : ECMInv c s) (tr : ECTr c s s') : ECMInv c s' := by
  obtain ⟨h1, h2, h3⟩ := h
  refine ⟨?_, ?_, ?_⟩
  · cases tr <;> grind [updP, updB, CCfg.afterElem]
  · cases tr <;> grind [updP, updB, CCfg.afterElem]
  · cases tr
    case wcenter t ht1 ht2 hfl hp hm => exact fun _ => ⟨t, ht1, ht2, by simp [updP], hfl⟩
    case wcleave => simp
    case wfailC => simp
    all_goals
      intro hm
      obtain ⟨a, ha1, ha2, ha3, ha4⟩ := h3 hm
      exact ⟨a, ha1, ha2, by grind [updP, updB, CCfg.afterElem], by grind [updP, updB, CCfg.afterElem]⟩

/-! ## the barrier invariant of the extended machine -/

structure ECInv (c : CCfg) (s : CESt) : Prop where
  mi_rng : s.base.mph = .wait1 ∨ s.base.mph = .close1 ∨ s.base.mph = .wait2 ∨ s.base.mph = .close2 →
    1 ≤ s.base.mi ∧ s.base.mi ≤ c.n
  f0a : s.base.mph = .wait1 ∨ s.base.mph = .close1 ∨ s.base.mph = .closeFront →
    s.base.fence 0 = true ∧ s.okay 0 = true
  f0b : s.base.fence 0 = true → s.base.mph = .wait1 ∨ s.base.mph = .close1 ∨ s.base.mph = .closeFront
  fb1 : s.base.mph = .wait2 ∨ s.base.mph = .close2 ∨ s.base.mph = .closeBack →
    s.base.fence (c.n + 1) = true ∧ s.okay (c.n + 1) = true
  fb0 : s.base.mph = .openFront ∨ s.base.mph = .wait1 ∨ s.base.mph = .close1 ∨ s.base.mph = .closeFront ∨
    s.base.mph = .openBack → s.base.fence (c.n + 1) = false
  fk : s.base.mph = .close1 ∨ s.base.mph = .close2 → s.base.fence s.base.mi = true
  fk2 : s.base.mph = .close1 → s.base.ph s.base.mi = .done → s.allOkay = false
  w_of : ∀ w, 1 ≤ w → w ≤ c.n → s.base.mph = .openFront →
    s.base.col w = s.base.col 0 ∧
    ((s.base.ph w = .front ∧ s.base.fence w = false) ∨
     (s.base.ph w = .done ∧ s.failing w = false ∧ s.base.fence w = true ∧ s.okay w = false))
  w_1 : ∀ w, 1 ≤ w → w ≤ c.n → s.base.mph = .wait1 ∨ s.base.mph = .close1 →
    s.base.col w = s.base.col 0 ∧
    (((s.base.ph w = .front ∨ s.base.ph w = .idle ∨ s.base.ph w = .insc ∨ s.base.ph w = .toOpen) ∧
        s.base.fence w = false ∧ s.base.mi ≤ w) ∨
     (s.base.ph w = .back ∧ s.failing w = false ∧ (s.base.fence w = true ↔ s.base.mi ≤ w)) ∨
     (s.base.ph w = .done ∧ s.failing w = false ∧ (s.base.fence w = true ↔ s.base.mi ≤ w) ∧
        (s.base.fence w = true → s.okay w = false) ∧ (w < s.base.mi → s.allOkay = false)))
  w_cf : ∀ w, 1 ≤ w → w ≤ c.n → s.base.mph = .closeFront ∨ s.base.mph = .openBack →
    s.base.col w = s.base.col 0 ∧ s.failing w = false ∧ s.base.fence w = false ∧
    (s.base.ph w = .back ∨ (s.base.ph w = .done ∧ s.allOkay = false))
  w_2 : ∀ w, 1 ≤ w → w ≤ c.n → s.base.mph = .wait2 ∨ s.base.mph = .close2 →
    (s.base.col w = s.base.col 0 ∧ (s.base.ph w = .back ∨ s.base.ph w = .toOpen2) ∧ s.failing w = false ∧
        s.base.fence w = false ∧ s.base.mi ≤ w) ∨
    (s.base.col w = s.base.col 0 + 1 ∧ s.base.col 0 + 1 < c.nc ∧ s.base.ph w = .front ∧ s.failing w = false ∧
        (s.base.fence w = true ↔ s.base.mi ≤ w)) ∨
    (s.base.col w = s.base.col 0 + 1 ∧ ¬ s.base.col 0 + 1 < c.nc ∧
        (s.base.ph w = .preComb ∨ s.base.ph w = .inComb ∨ s.base.ph w = .done) ∧
        (s.failing w = true → s.base.ph w = .inComb) ∧ (s.base.mi ≤ w → s.base.fence w = true))
  w_cb : ∀ w, 1 ≤ w → w ≤ c.n → s.base.mph = .closeBack →
    s.base.col w = s.base.col 0 + 1 ∧
    ((s.base.col 0 + 1 < c.nc ∧ s.base.ph w = .front ∧ s.failing w = false ∧ s.base.fence w = false) ∨
     (¬ s.base.col 0 + 1 < c.nc ∧ (s.base.ph w = .preComb ∨ s.base.ph w = .inComb ∨ s.base.ph w = .done) ∧
        (s.failing w = true → s.base.ph w = .inComb)))
  w_j : ∀ w, 1 ≤ w → w ≤ c.n → s.base.mph = .join ∨ s.base.mph = .done →
    (s.base.ph w = .preComb ∨ s.base.ph w = .inComb ∨ s.base.ph w = .done ∨ s.base.ph w = .back) ∧
    (s.failing w = true → s.base.ph w = .inComb ∨ s.base.ph w = .back) ∧
    (s.base.ph w = .back → s.base.fence (c.n + 1) = true ∧ s.okay (c.n + 1) = false)

theorem ECInv.init (c : CCfg) : ECInv c c.einit := by
  constructor <;> grind [CCfg.einit, CCfg.init]

set_option hygiene false in
/-- instantiate the per-worker parts of the invariant at a given index -/
local macro "ec_inst" w:term : tactic => `(tactic| (
  have := h8 $w; have := h9 $w; have := h10 $w; have := h11 $w; have := h12 $w; have := h13 $w))

set_option hygiene false in
local macro "ec_glob" : tactic => `(tactic| (
  clear h8 h9 h10 h11 h12 h13; grind (splits := 40) [updB, updP, upd, CCfg.afterElem]))

set_option hygiene false in
local macro "ec_wrk" : tactic => `(tactic| (
  intro w hw1 hw2; ec_inst w; clear h8 h9 h10 h11 h12 h13; grind (splits := 40) [updB, updP, upd, CCfg.afterElem]))


theorem ECInv.step_openFront {c : CCfg} (hn : 1 ≤ c.n) {s : CESt} (h : ECInv c s) (g0 : s.base.mph = .openFront) :
    ECInv c { s with base := { s.base with fence := updB s.base.fence 0 true, mph := .wait1, mi := 1 }, okay := updB s.okay 0 true, allOkay := true } := by
  obtain ⟨h1, h2, h3, h4, h5, h6, h7, h8, h9, h10, h11, h12, h13⟩ := h
  ec_inst s.base.mi
  refine ⟨?_, ?_, ?_, ?_, ?_, ?_, ?_, ?_, ?_, ?_, ?_, ?_, ?_⟩
  · ec_glob
  · ec_glob
  · ec_glob
  · ec_glob
  · ec_glob
  · ec_glob
  · ec_glob
  · ec_wrk
  · ec_wrk
  · ec_wrk
  · ec_wrk
  · ec_wrk
  · ec_wrk

theorem ECInv.step_wait1 {c : CCfg} (hn : 1 ≤ c.n) {s : CESt} (h : ECInv c s) (g0 : s.base.mph = .wait1) (g1 : s.base.fence s.base.mi = true) (g2 : s.okay s.base.mi = true) :
    ECInv c { s with base := { s.base with mph := .close1 } } := by
  obtain ⟨h1, h2, h3, h4, h5, h6, h7, h8, h9, h10, h11, h12, h13⟩ := h
  ec_inst s.base.mi
  refine ⟨?_, ?_, ?_, ?_, ?_, ?_, ?_, ?_, ?_, ?_, ?_, ?_, ?_⟩
  · ec_glob
  · ec_glob
  · ec_glob
  · ec_glob
  · ec_glob
  · ec_glob
  · ec_glob
  · ec_wrk
  · ec_wrk
  · ec_wrk
  · ec_wrk
  · ec_wrk
  · ec_wrk

theorem ECInv.step_wait2 {c : CCfg} (hn : 1 ≤ c.n) {s : CESt} (h : ECInv c s) (g0 : s.base.mph = .wait2) (g1 : s.base.fence s.base.mi = true) (g2 : s.okay s.base.mi = true) :
    ECInv c { s with base := { s.base with mph := .close2 } } := by
  obtain ⟨h1, h2, h3, h4, h5, h6, h7, h8, h9, h10, h11, h12, h13⟩ := h
  ec_inst s.base.mi
  refine ⟨?_, ?_, ?_, ?_, ?_, ?_, ?_, ?_, ?_, ?_, ?_, ?_, ?_⟩
  · ec_glob
  · ec_glob
  · ec_glob
  · ec_glob
  · ec_glob
  · ec_glob
  · ec_glob
  · ec_wrk
  · ec_wrk
  · ec_wrk
  · ec_wrk
  · ec_wrk
  · ec_wrk

theorem ECInv.step_close1a {c : CCfg} (hn : 1 ≤ c.n) {s : CESt} (h : ECInv c s) (g0 : s.base.mph = .close1) (g1 : s.base.mi < c.n) :
    ECInv c { s with base := { s.base with fence := updB s.base.fence s.base.mi false, mph := .wait1, mi := s.base.mi + 1 } } := by
  obtain ⟨h1, h2, h3, h4, h5, h6, h7, h8, h9, h10, h11, h12, h13⟩ := h
  ec_inst s.base.mi
  refine ⟨?_, ?_, ?_, ?_, ?_, ?_, ?_, ?_, ?_, ?_, ?_, ?_, ?_⟩
  · ec_glob
  · ec_glob
  · ec_glob
  · ec_glob
  · ec_glob
  · ec_glob
  · ec_glob
  · ec_wrk
  · ec_wrk
  · ec_wrk
  · ec_wrk
  · ec_wrk
  · ec_wrk

theorem ECInv.step_close1b {c : CCfg} (hn : 1 ≤ c.n) {s : CESt} (h : ECInv c s) (g0 : s.base.mph = .close1) (g1 : ¬ s.base.mi < c.n) :
    ECInv c { s with base := { s.base with fence := updB s.base.fence s.base.mi false, mph := .closeFront } } := by
  obtain ⟨h1, h2, h3, h4, h5, h6, h7, h8, h9, h10, h11, h12, h13⟩ := h
  ec_inst s.base.mi
  refine ⟨?_, ?_, ?_, ?_, ?_, ?_, ?_, ?_, ?_, ?_, ?_, ?_, ?_⟩
  · ec_glob
  · ec_glob
  · ec_glob
  · ec_glob
  · ec_glob
  · ec_glob
  · ec_glob
  · ec_wrk
  · ec_wrk
  · ec_wrk
  · ec_wrk
  · ec_wrk
  · ec_wrk

theorem ECInv.step_close2a {c : CCfg} (hn : 1 ≤ c.n) {s : CESt} (h : ECInv c s) (g0 : s.base.mph = .close2) (g1 : s.base.mi < c.n) :
    ECInv c { s with base := { s.base with fence := updB s.base.fence s.base.mi false, mph := .wait2, mi := s.base.mi + 1 } } := by
  obtain ⟨h1, h2, h3, h4, h5, h6, h7, h8, h9, h10, h11, h12, h13⟩ := h
  ec_inst s.base.mi
  refine ⟨?_, ?_, ?_, ?_, ?_, ?_, ?_, ?_, ?_, ?_, ?_, ?_, ?_⟩
  · ec_glob
  · ec_glob
  · ec_glob
  · ec_glob
  · ec_glob
  · ec_glob
  · ec_glob
  · ec_wrk
  · ec_wrk
  · ec_wrk
  · ec_wrk
  · ec_wrk
  · ec_wrk

theorem ECInv.step_close2b {c : CCfg} (hn : 1 ≤ c.n) {s : CESt} (h : ECInv c s) (g0 : s.base.mph = .close2) (g1 : ¬ s.base.mi < c.n) :
    ECInv c { s with base := { s.base with fence := updB s.base.fence s.base.mi false, mph := .closeBack } } := by
  obtain ⟨h1, h2, h3, h4, h5, h6, h7, h8, h9, h10, h11, h12, h13⟩ := h
  ec_inst s.base.mi
  refine ⟨?_, ?_, ?_, ?_, ?_, ?_, ?_, ?_, ?_, ?_, ?_, ?_, ?_⟩
  · ec_glob
  · ec_glob
  · ec_glob
  · ec_glob
  · ec_glob
  · ec_glob
  · ec_glob
  · ec_wrk
  · ec_wrk
  · ec_wrk
  · ec_wrk
  · ec_wrk
  · ec_wrk

theorem ECInv.step_closeFront {c : CCfg} (hn : 1 ≤ c.n) {s : CESt} (h : ECInv c s) (g0 : s.base.mph = .closeFront) :
    ECInv c { s with base := { s.base with fence := updB s.base.fence 0 false, mph := .openBack } } := by
  obtain ⟨h1, h2, h3, h4, h5, h6, h7, h8, h9, h10, h11, h12, h13⟩ := h
  ec_inst s.base.mi
  refine ⟨?_, ?_, ?_, ?_, ?_, ?_, ?_, ?_, ?_, ?_, ?_, ?_, ?_⟩
  · ec_glob
  · ec_glob
  · ec_glob
  · ec_glob
  · ec_glob
  · ec_glob
  · ec_glob
  · ec_wrk
  · ec_wrk
  · ec_wrk
  · ec_wrk
  · ec_wrk
  · ec_wrk

theorem ECInv.step_openBack {c : CCfg} (hn : 1 ≤ c.n) {s : CESt} (h : ECInv c s) (g0 : s.base.mph = .openBack) (g1 : s.allOkay = true) :
    ECInv c { s with base := { s.base with fence := updB s.base.fence (c.n + 1) true, mph := .wait2, mi := 1 }, okay := updB s.okay (c.n + 1) true } := by
  obtain ⟨h1, h2, h3, h4, h5, h6, h7, h8, h9, h10, h11, h12, h13⟩ := h
  ec_inst s.base.mi
  refine ⟨?_, ?_, ?_, ?_, ?_, ?_, ?_, ?_, ?_, ?_, ?_, ?_, ?_⟩
  · ec_glob
  · ec_glob
  · ec_glob
  · ec_glob
  · ec_glob
  · ec_glob
  · ec_glob
  · ec_wrk
  · ec_wrk
  · ec_wrk
  · ec_wrk
  · ec_wrk
  · ec_wrk

theorem ECInv.step_closeBack {c : CCfg} (hn : 1 ≤ c.n) {s : CESt} (h : ECInv c s) (g0 : s.base.mph = .closeBack) :
    ECInv c { s with base := { s.base with fence := updB s.base.fence (c.n + 1) false, col := upd s.base.col 0 (s.base.col 0 + 1), mph := if s.base.col 0 + 1 < c.nc then .openFront else .join } } := by
  obtain ⟨h1, h2, h3, h4, h5, h6, h7, h8, h9, h10, h11, h12, h13⟩ := h
  ec_inst s.base.mi
  refine ⟨?_, ?_, ?_, ?_, ?_, ?_, ?_, ?_, ?_, ?_, ?_, ?_, ?_⟩
  · ec_glob
  · ec_glob
  · ec_glob
  · ec_glob
  · ec_glob
  · ec_glob
  · ec_glob
  · ec_wrk
  · ec_wrk
  · ec_wrk
  · ec_wrk
  · ec_wrk
  · ec_wrk

theorem ECInv.step_join {c : CCfg} (hn : 1 ≤ c.n) {s : CESt} (h : ECInv c s) (g0 : s.base.mph = .join) (g1 : c.allDone s.base = true) :
    ECInv c { s with base := { s.base with mph := .done } } := by
  obtain ⟨h1, h2, h3, h4, h5, h6, h7, h8, h9, h10, h11, h12, h13⟩ := h
  ec_inst s.base.mi
  refine ⟨?_, ?_, ?_, ?_, ?_, ?_, ?_, ?_, ?_, ?_, ?_, ?_, ?_⟩
  · ec_glob
  · ec_glob
  · ec_glob
  · ec_glob
  · ec_glob
  · ec_glob
  · ec_glob
  · ec_wrk
  · ec_wrk
  · ec_wrk
  · ec_wrk
  · ec_wrk
  · ec_wrk

theorem ECInv.step_wfront {c : CCfg} (hn : 1 ≤ c.n) {s : CESt} (h : ECInv c s) (t : Nat) (g0 : 1 ≤ t) (g1 : t ≤ c.n) (g2 : s.failing t = false) (g3 : s.base.ph t = .front) (g4 : s.base.fence 0 = true) (g5 : s.okay 0 = true) :
    ECInv c { s with base := { s.base with pos := upd s.base.pos t (c.cbeg (s.base.col t) t), ph := updP s.base.ph t (c.afterElem s.base t (c.cbeg (s.base.col t) t)) } } := by
  obtain ⟨h1, h2, h3, h4, h5, h6, h7, h8, h9, h10, h11, h12, h13⟩ := h
  ec_inst s.base.mi
  ec_inst t
  refine ⟨?_, ?_, ?_, ?_, ?_, ?_, ?_, ?_, ?_, ?_, ?_, ?_, ?_⟩
  · ec_glob
  · ec_glob
  · ec_glob
  · ec_glob
  · ec_glob
  · ec_glob
  · ec_glob
  · ec_wrk
  · ec_wrk
  · ec_wrk
  · ec_wrk
  · ec_wrk
  · ec_wrk

theorem ECInv.step_wenter {c : CCfg} (hn : 1 ≤ c.n) {s : CESt} (h : ECInv c s) (t : Nat) (g0 : 1 ≤ t) (g1 : t ≤ c.n) (g2 : s.failing t = false) (g3 : s.base.ph t = .idle) :
    ECInv c { s with base := { s.base with ph := updP s.base.ph t .insc } } := by
  obtain ⟨h1, h2, h3, h4, h5, h6, h7, h8, h9, h10, h11, h12, h13⟩ := h
  ec_inst s.base.mi
  ec_inst t
  refine ⟨?_, ?_, ?_, ?_, ?_, ?_, ?_, ?_, ?_, ?_, ?_, ?_, ?_⟩
  · ec_glob
  · ec_glob
  · ec_glob
  · ec_glob
  · ec_glob
  · ec_glob
  · ec_glob
  · ec_wrk
  · ec_wrk
  · ec_wrk
  · ec_wrk
  · ec_wrk
  · ec_wrk

theorem ECInv.step_wleave {c : CCfg} (hn : 1 ≤ c.n) {s : CESt} (h : ECInv c s) (t : Nat) (g0 : 1 ≤ t) (g1 : t ≤ c.n) (g2 : s.failing t = false) (g3 : s.base.ph t = .insc) :
    ECInv c { s with base := { s.base with pos := upd s.base.pos t (s.base.pos t + 1), ph := updP s.base.ph t (c.afterElem s.base t (s.base.pos t + 1)) } } := by
  obtain ⟨h1, h2, h3, h4, h5, h6, h7, h8, h9, h10, h11, h12, h13⟩ := h
  ec_inst s.base.mi
  ec_inst t
  refine ⟨?_, ?_, ?_, ?_, ?_, ?_, ?_, ?_, ?_, ?_, ?_, ?_, ?_⟩
  · ec_glob
  · ec_glob
  · ec_glob
  · ec_glob
  · ec_glob
  · ec_glob
  · ec_glob
  · ec_wrk
  · ec_wrk
  · ec_wrk
  · ec_wrk
  · ec_wrk
  · ec_wrk

theorem ECInv.step_wopen {c : CCfg} (hn : 1 ≤ c.n) {s : CESt} (h : ECInv c s) (t : Nat) (g0 : 1 ≤ t) (g1 : t ≤ c.n) (g2 : s.failing t = false) (g3 : s.base.ph t = .toOpen) :
    ECInv c { s with base := { s.base with fence := updB s.base.fence t true, ph := updP s.base.ph t .back }, okay := updB s.okay t true } := by
  obtain ⟨h1, h2, h3, h4, h5, h6, h7, h8, h9, h10, h11, h12, h13⟩ := h
  ec_inst s.base.mi
  ec_inst t
  refine ⟨?_, ?_, ?_, ?_, ?_, ?_, ?_, ?_, ?_, ?_, ?_, ?_, ?_⟩
  · ec_glob
  · ec_glob
  · ec_glob
  · ec_glob
  · ec_glob
  · ec_glob
  · ec_glob
  · ec_wrk
  · ec_wrk
  · ec_wrk
  · ec_wrk
  · ec_wrk
  · ec_wrk

theorem ECInv.step_wback {c : CCfg} (hn : 1 ≤ c.n) {s : CESt} (h : ECInv c s) (t : Nat) (g0 : 1 ≤ t) (g1 : t ≤ c.n) (g2 : s.failing t = false) (g3 : s.base.ph t = .back) (g4 : s.base.fence (c.n + 1) = true) (g5 : s.okay (c.n + 1) = true) :
    ECInv c { s with base := { s.base with ph := updP s.base.ph t .toOpen2 } } := by
  obtain ⟨h1, h2, h3, h4, h5, h6, h7, h8, h9, h10, h11, h12, h13⟩ := h
  ec_inst s.base.mi
  ec_inst t
  refine ⟨?_, ?_, ?_, ?_, ?_, ?_, ?_, ?_, ?_, ?_, ?_, ?_, ?_⟩
  · ec_glob
  · ec_glob
  · ec_glob
  · ec_glob
  · ec_glob
  · ec_glob
  · ec_glob
  · ec_wrk
  · ec_wrk
  · ec_wrk
  · ec_wrk
  · ec_wrk
  · ec_wrk

theorem ECInv.step_wopen2 {c : CCfg} (hn : 1 ≤ c.n) {s : CESt} (h : ECInv c s) (t : Nat) (g0 : 1 ≤ t) (g1 : t ≤ c.n) (g2 : s.failing t = false) (g3 : s.base.ph t = .toOpen2) :
    ECInv c { s with base := { s.base with fence := updB s.base.fence t true, col := upd s.base.col t (s.base.col t + 1), ph := updP s.base.ph t (if s.base.col t + 1 < c.nc then .front else if c.comb then .preComb else .done) }, okay := updB s.okay t true } := by
  obtain ⟨h1, h2, h3, h4, h5, h6, h7, h8, h9, h10, h11, h12, h13⟩ := h
  ec_inst s.base.mi
  ec_inst t
  refine ⟨?_, ?_, ?_, ?_, ?_, ?_, ?_, ?_, ?_, ?_, ?_, ?_, ?_⟩
  · ec_glob
  · ec_glob
  · ec_glob
  · ec_glob
  · ec_glob
  · ec_glob
  · ec_glob
  · ec_wrk
  · ec_wrk
  · ec_wrk
  · ec_wrk
  · ec_wrk
  · ec_wrk

theorem ECInv.step_wcenter {c : CCfg} (hn : 1 ≤ c.n) {s : CESt} (h : ECInv c s) (t : Nat) (g0 : 1 ≤ t) (g1 : t ≤ c.n) (g2 : s.failing t = false) (g3 : s.base.ph t = .preComb) (g4 : s.base.mutex = false) :
    ECInv c { s with base := { s.base with ph := updP s.base.ph t .inComb, mutex := true } } := by
  obtain ⟨h1, h2, h3, h4, h5, h6, h7, h8, h9, h10, h11, h12, h13⟩ := h
  ec_inst s.base.mi
  ec_inst t
  refine ⟨?_, ?_, ?_, ?_, ?_, ?_, ?_, ?_, ?_, ?_, ?_, ?_, ?_⟩
  · ec_glob
  · ec_glob
  · ec_glob
  · ec_glob
  · ec_glob
  · ec_glob
  · ec_glob
  · ec_wrk
  · ec_wrk
  · ec_wrk
  · ec_wrk
  · ec_wrk
  · ec_wrk

theorem ECInv.step_wcleave {c : CCfg} (hn : 1 ≤ c.n) {s : CESt} (h : ECInv c s) (t : Nat) (g0 : 1 ≤ t) (g1 : t ≤ c.n) (g2 : s.failing t = false) (g3 : s.base.ph t = .inComb) :
    ECInv c { s with base := { s.base with ph := updP s.base.ph t .done, mutex := false } } := by
  obtain ⟨h1, h2, h3, h4, h5, h6, h7, h8, h9, h10, h11, h12, h13⟩ := h
  ec_inst s.base.mi
  ec_inst t
  refine ⟨?_, ?_, ?_, ?_, ?_, ?_, ?_, ?_, ?_, ?_, ?_, ?_, ?_⟩
  · ec_glob
  · ec_glob
  · ec_glob
  · ec_glob
  · ec_glob
  · ec_glob
  · ec_glob
  · ec_wrk
  · ec_wrk
  · ec_wrk
  · ec_wrk
  · ec_wrk
  · ec_wrk

theorem ECInv.step_mwaitF1 {c : CCfg} (hn : 1 ≤ c.n) {s : CESt} (h : ECInv c s) (g0 : s.base.mph = .wait1) (g1 : s.base.fence s.base.mi = true) (g2 : s.okay s.base.mi = false) :
    ECInv c { s with base := { s.base with mph := .close1 }, allOkay := false } := by
  obtain ⟨h1, h2, h3, h4, h5, h6, h7, h8, h9, h10, h11, h12, h13⟩ := h
  ec_inst s.base.mi
  refine ⟨?_, ?_, ?_, ?_, ?_, ?_, ?_, ?_, ?_, ?_, ?_, ?_, ?_⟩
  · ec_glob
  · ec_glob
  · ec_glob
  · ec_glob
  · ec_glob
  · ec_glob
  · ec_glob
  · ec_wrk
  · ec_wrk
  · ec_wrk
  · ec_wrk
  · ec_wrk
  · ec_wrk

theorem ECInv.step_mwaitF2 {c : CCfg} (hn : 1 ≤ c.n) {s : CESt} (h : ECInv c s) (g0 : s.base.mph = .wait2) (g1 : s.base.fence s.base.mi = true) (g2 : s.okay s.base.mi = false) :
    ECInv c { s with base := { s.base with mph := .close2 } } := by
  obtain ⟨h1, h2, h3, h4, h5, h6, h7, h8, h9, h10, h11, h12, h13⟩ := h
  ec_inst s.base.mi
  refine ⟨?_, ?_, ?_, ?_, ?_, ?_, ?_, ?_, ?_, ?_, ?_, ?_, ?_⟩
  · ec_glob
  · ec_glob
  · ec_glob
  · ec_glob
  · ec_glob
  · ec_glob
  · ec_glob
  · ec_wrk
  · ec_wrk
  · ec_wrk
  · ec_wrk
  · ec_wrk
  · ec_wrk

theorem ECInv.step_wwaitFf {c : CCfg} (hn : 1 ≤ c.n) {s : CESt} (h : ECInv c s) (t : Nat) (g0 : 1 ≤ t) (g1 : t ≤ c.n) (g2 : s.failing t = false) (g3 : s.base.ph t = .front) (g4 : s.base.fence 0 = true) (g5 : s.okay 0 = false) :
    ECInv c { s with failing := updB s.failing t true } := by
  obtain ⟨h1, h2, h3, h4, h5, h6, h7, h8, h9, h10, h11, h12, h13⟩ := h
  ec_inst s.base.mi
  ec_inst t
  refine ⟨?_, ?_, ?_, ?_, ?_, ?_, ?_, ?_, ?_, ?_, ?_, ?_, ?_⟩
  · ec_glob
  · ec_glob
  · ec_glob
  · ec_glob
  · ec_glob
  · ec_glob
  · ec_glob
  · ec_wrk
  · ec_wrk
  · ec_wrk
  · ec_wrk
  · ec_wrk
  · ec_wrk

theorem ECInv.step_wwaitFb {c : CCfg} (hn : 1 ≤ c.n) {s : CESt} (h : ECInv c s) (t : Nat) (g0 : 1 ≤ t) (g1 : t ≤ c.n) (g2 : s.failing t = false) (g3 : s.base.ph t = .back) (g4 : s.base.fence (c.n + 1) = true) (g5 : s.okay (c.n + 1) = false) :
    ECInv c { s with failing := updB s.failing t true } := by
  obtain ⟨h1, h2, h3, h4, h5, h6, h7, h8, h9, h10, h11, h12, h13⟩ := h
  ec_inst s.base.mi
  ec_inst t
  refine ⟨?_, ?_, ?_, ?_, ?_, ?_, ?_, ?_, ?_, ?_, ?_, ?_, ?_⟩
  · ec_glob
  · ec_glob
  · ec_glob
  · ec_glob
  · ec_glob
  · ec_glob
  · ec_glob
  · ec_wrk
  · ec_wrk
  · ec_wrk
  · ec_wrk
  · ec_wrk
  · ec_wrk

theorem ECInv.step_wfail {c : CCfg} (hn : 1 ≤ c.n) {s : CESt} (h : ECInv c s) (t : Nat) (g0 : 1 ≤ t) (g1 : t ≤ c.n) (g2 : s.failing t = false) (g3 : (s.base.ph t = .front ∧ s.base.col t = 0) ∨ s.base.ph t = .idle ∨ s.base.ph t = .insc ∨ s.base.ph t = .toOpen) :
    ECInv c { s with failing := updB s.failing t true } := by
  obtain ⟨h1, h2, h3, h4, h5, h6, h7, h8, h9, h10, h11, h12, h13⟩ := h
  ec_inst s.base.mi
  ec_inst t
  refine ⟨?_, ?_, ?_, ?_, ?_, ?_, ?_, ?_, ?_, ?_, ?_, ?_, ?_⟩
  · ec_glob
  · ec_glob
  · ec_glob
  · ec_glob
  · ec_glob
  · ec_glob
  · ec_glob
  · ec_wrk
  · ec_wrk
  · ec_wrk
  · ec_wrk
  · ec_wrk
  · ec_wrk

theorem ECInv.step_wfailC {c : CCfg} (hn : 1 ≤ c.n) {s : CESt} (h : ECInv c s) (t : Nat) (g0 : 1 ≤ t) (g1 : t ≤ c.n) (g2 : s.failing t = false) (g3 : s.base.ph t = .inComb) :
    ECInv c { s with failing := updB s.failing t true, base := { s.base with mutex := false } } := by
  obtain ⟨h1, h2, h3, h4, h5, h6, h7, h8, h9, h10, h11, h12, h13⟩ := h
  ec_inst s.base.mi
  ec_inst t
  refine ⟨?_, ?_, ?_, ?_, ?_, ?_, ?_, ?_, ?_, ?_, ?_, ?_, ?_⟩
  · ec_glob
  · ec_glob
  · ec_glob
  · ec_glob
  · ec_glob
  · ec_glob
  · ec_glob
  · ec_wrk
  · ec_wrk
  · ec_wrk
  · ec_wrk
  · ec_wrk
  · ec_wrk

theorem ECInv.step_wfopenF {c : CCfg} (hn : 1 ≤ c.n) {s : CESt} (h : ECInv c s) (t : Nat) (g0 : 1 ≤ t) (g1 : t ≤ c.n) (g2 : s.failing t = true) :
    ECInv c { s with base := { s.base with fence := updB s.base.fence t true, ph := updP s.base.ph t .done }, okay := updB s.okay t false, failing := updB s.failing t false } := by
  obtain ⟨h1, h2, h3, h4, h5, h6, h7, h8, h9, h10, h11, h12, h13⟩ := h
  ec_inst s.base.mi
  ec_inst t
  refine ⟨?_, ?_, ?_, ?_, ?_, ?_, ?_, ?_, ?_, ?_, ?_, ?_, ?_⟩
  · ec_glob
  · ec_glob
  · ec_glob
  · ec_glob
  · ec_glob
  · ec_glob
  · ec_glob
  · ec_wrk
  · ec_wrk
  · ec_wrk
  · ec_wrk
  · ec_wrk
  · ec_wrk

theorem ECInv.step_mfopenF {c : CCfg} (hn : 1 ≤ c.n) {s : CESt} (h : ECInv c s) (g0 : s.base.mph = .openBack) (g1 : s.allOkay = false) :
    ECInv c { s with base := { s.base with fence := updB s.base.fence (c.n + 1) true, mph := .join }, okay := updB s.okay (c.n + 1) false } := by
  obtain ⟨h1, h2, h3, h4, h5, h6, h7, h8, h9, h10, h11, h12, h13⟩ := h
  ec_inst s.base.mi
  refine ⟨?_, ?_, ?_, ?_, ?_, ?_, ?_, ?_, ?_, ?_, ?_, ?_, ?_⟩
  · ec_glob
  · ec_glob
  · ec_glob
  · ec_glob
  · ec_glob
  · ec_glob
  · ec_glob
  · ec_wrk
  · ec_wrk
  · ec_wrk
  · ec_wrk
  · ec_wrk
  · ec_wrk

theorem ECInv.step {c : CCfg} (hn : 1 ≤ c.n) {s s' : CESt} (h : ECInv c s) (tr : ECTr c s s') : ECInv c s' := by
  cases tr
  case openFront g0 => exact h.step_openFront hn g0
  case wait1 g0 g1 g2 => exact h.step_wait1 hn g0 g1 g2
  case wait2 g0 g1 g2 => exact h.step_wait2 hn g0 g1 g2
  case close1a g0 g1 => exact h.step_close1a hn g0 g1
  case close1b g0 g1 => exact h.step_close1b hn g0 g1
  case close2a g0 g1 => exact h.step_close2a hn g0 g1
  case close2b g0 g1 => exact h.step_close2b hn g0 g1
  case closeFront g0 => exact h.step_closeFront hn g0
  case openBack g0 g1 => exact h.step_openBack hn g0 g1
  case closeBack g0 => exact h.step_closeBack hn g0
  case join g0 g1 => exact h.step_join hn g0 g1
  case wfront t g0 g1 g2 g3 g4 g5 => exact h.step_wfront hn t g0 g1 g2 g3 g4 g5
  case wenter t g0 g1 g2 g3 => exact h.step_wenter hn t g0 g1 g2 g3
  case wleave t g0 g1 g2 g3 => exact h.step_wleave hn t g0 g1 g2 g3
  case wopen t g0 g1 g2 g3 => exact h.step_wopen hn t g0 g1 g2 g3
  case wback t g0 g1 g2 g3 g4 g5 => exact h.step_wback hn t g0 g1 g2 g3 g4 g5
  case wopen2 t g0 g1 g2 g3 => exact h.step_wopen2 hn t g0 g1 g2 g3
  case wcenter t g0 g1 g2 g3 g4 => exact h.step_wcenter hn t g0 g1 g2 g3 g4
  case wcleave t g0 g1 g2 g3 => exact h.step_wcleave hn t g0 g1 g2 g3
  case mwaitF1 g0 g1 g2 => exact h.step_mwaitF1 hn g0 g1 g2
  case mwaitF2 g0 g1 g2 => exact h.step_mwaitF2 hn g0 g1 g2
  case wwaitFf t g0 g1 g2 g3 g4 g5 => exact h.step_wwaitFf hn t g0 g1 g2 g3 g4 g5
  case wwaitFb t g0 g1 g2 g3 g4 g5 => exact h.step_wwaitFb hn t g0 g1 g2 g3 g4 g5
  case wfail t g0 g1 g2 g3 => exact h.step_wfail hn t g0 g1 g2 g3
  case wfailC t g0 g1 g2 g3 => exact h.step_wfailC hn t g0 g1 g2 g3
  case wfopenF t g0 g1 g2 => exact h.step_wfopenF hn t g0 g1 g2
  case mfopenF g0 g1 => exact h.step_mfopenF hn g0 g1

theorem ec_reach_induct {c : CCfg} {P : CESt → Prop} (h0 : P c.einit)
    (hstep : ∀ s s', P s → ECTr c s s' → P s') {s : CESt} (hs : c.EReach s) : P s := by
  induction hs with
  | init => exact h0
  | step e _ h ih => exact hstep _ _ ih (ECTr.of_estep h)

theorem ECMInv.reach {c : CCfg} {s : CESt} (hs : c.EReach s) : ECMInv c s :=
  ec_reach_induct (ECMInv.init c) (fun _ _ h tr => h.step tr) hs

theorem ECInv.reach {c : CCfg} (hn : 1 ≤ c.n) {s : CESt} (hs : c.EReach s) : ECInv c s :=
  ec_reach_induct (ECInv.init c) (fun _ _ h tr => h.step hn tr) hs

/-! ## deadlock freedom -/

theorem ECInv.progress {c : CCfg} {s : CESt} (h : ECInv c s) (hx : ECMInv c s) (hf : s.base.mph ≠ .done) :
    ∃ s', ECTr c s s' := by
  obtain ⟨h1, h2, h3, h4, h5, h6, h7, h8, h9, h10, h11, h12, h13⟩ := h
  cases hm : s.base.mph
  case openFront => exact ⟨_, .openFront hm⟩
  case closeFront => exact ⟨_, .closeFront hm⟩
  case closeBack => exact ⟨_, .closeBack hm⟩
  case done => exact absurd hm hf
  case openBack =>
    cases ha : s.allOkay
    · exact ⟨_, .mfopenF hm ha⟩
    · exact ⟨_, .openBack hm ha⟩
  case close1 =>
    by_cases hk : s.base.mi < c.n
    · exact ⟨_, .close1a hm hk⟩
    · exact ⟨_, .close1b hm hk⟩
  case close2 =>
    by_cases hk : s.base.mi < c.n
    · exact ⟨_, .close2a hm hk⟩
    · exact ⟨_, .close2b hm hk⟩
  case wait1 =>
    by_cases hk : s.base.fence s.base.mi = true
    · cases ho : s.okay s.base.mi
      · exact ⟨_, .mwaitF1 hm hk ho⟩
      · exact ⟨_, .wait1 hm hk ho⟩
    · obtain ⟨k1, k2⟩ := h1 (by simp [hm])
      obtain ⟨f0, o0⟩ := h2 (by simp [hm])
      cases hfl : s.failing s.base.mi
      · rcases (h9 s.base.mi k1 k2 (by simp [hm])).2 with ⟨hp, -, -⟩ | ⟨-, -, hb⟩ | ⟨-, -, hb, -⟩
        · rcases hp with hp | hp | hp | hp
          · exact ⟨_, .wfront _ k1 k2 hfl hp f0 o0⟩
          · exact ⟨_, .wenter _ k1 k2 hfl hp⟩
          · exact ⟨_, .wleave _ k1 k2 hfl hp⟩
          · exact ⟨_, .wopen _ k1 k2 hfl hp⟩
        · exact absurd (hb.2 (Nat.le_refl _)) hk
        · exact absurd (hb.2 (Nat.le_refl _)) hk
      · exact ⟨_, .wfopenF _ k1 k2 hfl⟩
  case wait2 =>
    by_cases hk : s.base.fence s.base.mi = true
    · cases ho : s.okay s.base.mi
      · exact ⟨_, .mwaitF2 hm hk ho⟩
      · exact ⟨_, .wait2 hm hk ho⟩
    · obtain ⟨k1, k2⟩ := h1 (by simp [hm])
      obtain ⟨fb, ob⟩ := h4 (by simp [hm])
      rcases h11 s.base.mi k1 k2 (by simp [hm]) with ⟨-, hp | hp, hfl, -, -⟩ | ⟨-, -, -, -, hb⟩ | ⟨-, -, -, -, hb⟩
      · exact ⟨_, .wback _ k1 k2 hfl hp fb ob⟩
      · exact ⟨_, .wopen2 _ k1 k2 hfl hp⟩
      · exact absurd (hb.2 (Nat.le_refl _)) hk
      · exact absurd (hb (Nat.le_refl _)) hk
  case join =>
    by_cases hd : c.allDone s.base = true
    · exact ⟨_, .join hm hd⟩
    · obtain ⟨w, w1, w2, hw⟩ := CCfg.not_allDone hd
      cases hfl : s.failing w
      · obtain ⟨hp, -, hbk⟩ := h13 w w1 w2 (by simp [hm])
        rcases hp with hp | hp | hp | hp
        · by_cases hmu : s.base.mutex = true
          · obtain ⟨a, a1, a2, ha, hfa⟩ := hx.holder hmu
            exact ⟨_, .wcleave a a1 a2 hfa ha⟩
          · exact ⟨_, .wcenter w w1 w2 hfl hp (by simpa using hmu)⟩
        · exact ⟨_, .wcleave w w1 w2 hfl hp⟩
        · exact absurd hp hw
        · obtain ⟨fb, ob⟩ := hbk hp
          exact ⟨_, .wwaitFb w w1 w2 hfl hp fb ob⟩
      · exact ⟨_, .wfopenF w w1 w2 hfl⟩

/-- the error path cannot deadlock: every reachable non-final state has an enabled transition -/
theorem colored_err_no_deadlock (c : CCfg) (hn : 1 ≤ c.n) (s : CESt) (hs : c.EReach s)
    (hf : CCfg.efinal s = false) : ∃ e s', c.estep s e = some s' := by
  have hf' : s.base.mph ≠ .done := by simpa [CCfg.efinal, CCfg.final] using hf
  obtain ⟨s', tr⟩ := (ECInv.reach hn hs).progress (ECMInv.reach hs) hf'
  obtain ⟨e, he⟩ := tr.to_estep
  exact ⟨e, s', he⟩

/-- stretch: failures do not break safety -/
theorem colored_err_safe (c : CCfg) (hn : 1 ≤ c.n) (s : CESt) (hs : c.EReach s) (a b : Nat)
    (ha : 1 ≤ a ∧ a ≤ c.n) (hb : 1 ≤ b ∧ b ≤ c.n)
    (hA : s.base.ph a = .insc ∧ s.failing a = false) (hB : s.base.ph b = .insc ∧ s.failing b = false) :
    s.base.col a = s.base.col b := by
  obtain ⟨h1, h2, h3, h4, h5, h6, h7, h8, h9, h10, h11, h12, h13⟩ := ECInv.reach hn hs
  ec_inst a
  ec_inst b
  clear h8 h9 h10 h11 h12 h13
  cases hm : s.base.mph <;> simp_all <;> grind

/-! ## conservativity -/

theorem ec_sim_step {c : CCfg} {es : CESt} {e : Ev} {b : CSt} (h : c.step es.base e = some b)
    (hfl : ∀ t, es.failing t = false) (hall : es.allOkay = true)
    (hok : ∀ f, es.base.fence f = true → es.okay f = true) :
    ∃ es', c.estep es (.ok e) = some es' ∧ es'.base = b ∧ (∀ t, es'.failing t = false) ∧ es'.allOkay = true ∧
      (∀ f, es'.base.fence f = true → es'.okay f = true) := by
  have hb := ECB.of_step h
  cases hb
  case wait1 hm hf => have := hok _ hf; simp [CCfg.estep, h, hfl, hall, Ev.thread, this]; exact hok
  case wait2 hm hf => have := hok _ hf; simp [CCfg.estep, h, hfl, hall, Ev.thread, this]; exact hok
  case wfront t h1 h2 hp hf => have := hok _ hf; simp [CCfg.estep, h, hfl, hall, Ev.thread, this]; exact hok
  case wback t h1 h2 hp hf => have := hok _ hf; simp [CCfg.estep, h, hfl, hall, Ev.thread, this]; exact hok
  all_goals simp [CCfg.estep, h, hfl, hall, Ev.thread]
  all_goals (intro f; have := hok f; grind [updB])

theorem ec_sim {c : CCfg} {s : CSt} (hs : c.Reach s) :
    ∃ es : CESt, c.EReach es ∧ es.base = s ∧ (∀ t, es.failing t = false) ∧ es.allOkay = true ∧
      (∀ f, es.base.fence f = true → es.okay f = true) := by
  induction hs with
  | init => exact ⟨c.einit, .init, rfl, fun _ => rfl, rfl, by simp [CCfg.einit, CCfg.init]⟩
  | step e _ h ih =>
    obtain ⟨es, hr, rfl, hfl, hall, hok⟩ := ih
    obtain ⟨es', he, hb, hfl', hall', hok'⟩ := ec_sim_step h hfl hall hok
    exact ⟨es', .step (.ok e) hr he, hb, hfl', hall', hok'⟩

/-- without failures the extended machine is the old one -/
theorem colored_err_conservative (c : CCfg) (s : CSt) (hs : c.Reach s) :
    ∃ es : CESt, c.EReach es ∧ es.base = s ∧ (∀ t, es.failing t = false) ∧ es.allOkay = true := by
  obtain ⟨es, h1, h2, h3, h4, -⟩ := ec_sim hs
  exact ⟨es, h1, h2, h3, h4⟩

end FeatModel.DA
