import FeatModel.Model.FERT
import FeatModel.Model.FERTWitness
import FeatModel.Lemmas.C15Hess
/-! Rannacher–Turek: with the facet-weighted mean as node functional the coefficient-matrix construction of the evaluator
    is dual to the node functionals on every cell with an invertible nodal matrix; the plain reference-facet mean is not. -/
namespace FeatModel.FE

theorem getD_table' {α : Type} (n : Nat) (F : Nat → List α) (a : Nat) (ha : a < n) :
    ((List.range n).map F).getD a [] = F a := by
  simp [List.getD_eq_getElem?_getD, List.getElem?_map, List.getElem?_range ha]

theorem sumR_sum (l : List Rat) : sumR l = l.sum := by rw [sumR, foldl_add, zero_add]

theorem sum_swap_list (q : List (List Rat × Rat)) (n : Nat) (cf : Nat → Rat) (g : Nat → List Rat → Rat) :
    (q.map fun pw => pw.2 * ((List.range n).map fun k => cf k * g k pw.1).sum).sum
      = ((List.range n).map fun k => cf k * (q.map fun pw => pw.2 * g k pw.1).sum).sum := by
  induction q with
  | nil => simp
  | cons a q ih =>
    simp only [List.map_cons, List.sum_cons, ih]
    have : ∀ (l : List Nat) (u v : Nat → Rat), (l.map fun k => u k + v k).sum = (l.map u).sum + (l.map v).sum := by
      intro l u v
      induction l with
      | nil => simp
      | cons b l ihl => simp only [List.map_cons, List.sum_cons, ihl]; ring
    have hm : ∀ (l : List Nat) (t : Rat) (u : Nat → Rat), t * (l.map u).sum = (l.map fun k => t * u k).sum := by
      intro l t u
      induction l with
      | nil => simp
      | cons b l ihl => simp only [List.map_cons, List.sum_cons, ← ihl]; ring
    rw [hm, ← this]
    congr 1
    apply List.map_congr_left
    intro k _
    ring

/-- **duality from the construction**: let `q` be the quadrature (real points, weights) of a facet, `nodalCol k` the
    weighted mean of the `k`-th monomial over it (a column of the evaluator's nodal matrix) and `C` a matrix whose row `j`
    satisfies `Σ_k C[j][k] · nodalCol k = δ` (row `j` of `C · A = 1`).  Then the weighted-mean node functional of the
    facet applied to the basis function `φ_j = Σ_k C[j][k] m_k` is `δ` – for every cell geometry, every quadrature -/
theorem rt_dual_of_inverse (d : Nat) (Ai : List (List Rat)) (c : List Rat) (q : List (List Rat × Rat))
    (C : List (List Rat)) (j : Nat) (δ : Rat)
    (hrow : sumR ((List.range (rtN d)).map fun k => mat C j k * facetMean d Ai c q k) = δ) :
    sumR (q.map fun pw => pw.2 *
        sumR ((List.range (rtN d)).map fun k => mat C j k * (rtMonos d (rtLocal d Ai c pw.1)).getD k 0))
      / sumR (q.map (·.2)) = δ := by
  rw [← hrow]
  simp only [sumR_sum, facetMean]
  rw [sum_swap_list q (rtN d) (fun k => mat C j k) (fun k y => (rtMonos d (rtLocal d Ai c y)).getD k 0)]
  have hd : ∀ (l : List Nat) (u : Nat → Rat) (W : Rat), (l.map u).sum / W = (l.map fun k => u k / W).sum := by
    intro l u W
    induction l with
    | nil => simp
    | cons b l ihl => simp only [List.map_cons, List.sum_cons, ← ihl]; ring
  rw [hd]
  congr 1
  apply List.map_congr_left
  intro k _
  ring

/-- **`N_l(φ_j) = (C·A)[j][l]`** for the model of the evaluator (`rtPrepare`, `rtValue`: ops `ev`, `interp`) and the
    model of the node functional (`rtFunctional`: op `interp`) of the same facet, when both use the same square root and
    the same Gauss coordinate – on every cell (arbitrary vertex coordinates) -/
theorem rt_functional_is_product (sq : Rat → Rat) (g : Rat) (m : Mesh) (c : Nat) (rc : RTCell)
    (h : rtPrepare sq g m c = some rc) (j l : Nat) (hj : j < rtN m.dim) (hl : l < rtN m.dim)
    (hrow : (m.row m.dim (m.dim - 1) c).length = rtN m.dim) :
    rtFunctional sq g m ((m.row m.dim (m.dim - 1) c).getD l 0) (rtValue rc j)
      = mat (matMul (rtN m.dim) rc.coeff rc.nodal) j l := by
  simp only [rtPrepare, Option.map_eq_some_iff] at h
  obtain ⟨C, _, hrc⟩ := h
  subst hrc
  simp only [rtFunctional, rtValue]
  rw [matMul, mat_table (rtN m.dim) _ j l hj hl]
  apply rt_dual_of_inverse
  congr 1
  apply List.map_congr_left
  intro k hk
  have hk' := List.mem_range.mp hk
  congr 1
  -- the nodal matrix entry (k, l) is the weighted mean of monomial k over facet l
  simp only [mat]
  rw [getD_table' (rtN m.dim) _ k hk']
  have hl' : l < (m.row m.dim (m.dim - 1) c).length := by rw [hrow]; exact hl
  simp [List.getD_eq_getElem?_getD, List.getElem?_map, List.getElem?_eq_getElem hl']

/-- with an inverted nodal matrix the weighted facet means are dual to the basis -/
theorem rt_dual (sq : Rat → Rat) (g : Rat) (m : Mesh) (c : Nat) (rc : RTCell)
    (h : rtPrepare sq g m c = some rc) (hinv : matMul (rtN m.dim) rc.coeff rc.nodal = identity (rtN m.dim))
    (j l : Nat) (hj : j < rtN m.dim) (hl : l < rtN m.dim)
    (hrow : (m.row m.dim (m.dim - 1) c).length = rtN m.dim) :
    rtFunctional sq g m ((m.row m.dim (m.dim - 1) c).getD l 0) (rtValue rc j) = if j = l then 1 else 0 := by
  rw [rt_functional_is_product sq g m c rc h j l hj hl hrow, hinv, identity, mat_table _ _ j l hj hl]

set_option maxRecDepth 100000 in
/-- on the unit cube with vertex 7 moved the evaluator's coefficient matrix is the inverse of its nodal matrix … -/
theorem witness_inverse : rtInverseOk Proto.qsqrt gammaEv cubeMoved7 0 = true := by decide +kernel

set_option maxRecDepth 100000 in
/-- … and the plain reference-facet mean is **not** dual to the basis there -/
theorem witness_unweighted :
    (rtDualMatrix (rtFunctionalUnweighted Proto.qsqrt gammaEv) Proto.qsqrt gammaEv cubeMoved7 0
      != some (identity 6)) = true := by decide +kernel

end FeatModel.FE
