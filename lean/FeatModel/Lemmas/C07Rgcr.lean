import FeatModel.Model.Solver.RGCR
import FeatModel.Lemmas.C07Krylov
/-! Helper lemmas for C07: RGCR — as long as every stored pair satisfies `q_j = F A p_j` (the invariant a defective
    `done_symbolic` or a change of the matrix values breaks), the recursively updated defect is the true residual -/
namespace FeatModel.Solver
set_option linter.unusedSectionVars false

variable {V α : Type} [Mul α] [Div α] [Neg α] [Zero α] [One α] [LE α] [LT α] [DecidableEq α] [DecidableLE α]
  [DecidableLT α]

structure LawfulRgcr (S : Sys V α) : Prop where
  toLawful : Lawful S
  lin_axpy : ∀ x p a, S.Fd (S.A (S.ops.axpy x p a)) = S.ops.axpy (S.Fd (S.A x)) (S.Fd (S.A p)) a
  lin_scale : ∀ x a, S.Fd (S.A (S.ops.scale x a)) = S.ops.scale (S.Fd (S.A x)) a

/-- the invariant of the two parallel lists -/
def DirsOK (S : Sys V α) (dirs : List (V × V)) : Prop := ∀ e ∈ dirs, e.2 = S.Fd (S.A e.1)

theorem rgcrOrth_ok (S : Sys V α) (hl : LawfulRgcr S) :
    ∀ (l : List (V × V)) (ph qh : V), DirsOK S l → qh = S.Fd (S.A ph) →
      (rgcrOrth S l ph qh).2 = S.Fd (S.A (rgcrOrth S l ph qh).1) := by
  intro l
  induction l with
  | nil => intro ph qh _ h; exact h
  | cons e rest ih =>
    intro ph qh hok h
    obtain ⟨pj, qj⟩ := e
    simp only [rgcrOrth]
    apply ih _ _ (fun e he => hok e (List.mem_cons_of_mem _ he))
    rw [hl.lin_axpy, ← h, ← hok (pj, qj) (List.mem_cons_self ..)]

theorem rgcrExtend_ok (S : Sys V α) (hl : LawfulRgcr S) (dirs dirs' : List (V × V)) (k calls calls' : Nat) (r : V)
    (hok : DirsOK S dirs) (h : rgcrExtend S dirs k calls r = some (some (dirs', calls'))) : DirsOK S dirs' := by
  unfold rgcrExtend at h
  split at h
  · split at h
    · simp at h
    · rename_i ph0 _
      simp only at h
      split at h
      · simp at h
      · simp only [Option.some.injEq, Prod.mk.injEq] at h
        obtain ⟨rfl, _⟩ := h
        intro e he
        rcases List.mem_append.1 he with hin | hin
        · exact hok e hin
        · simp only [List.mem_singleton] at hin
          subst hin
          simp only
          rw [hl.lin_scale]
          congr 1
          exact rgcrOrth_ok S hl _ _ _ (fun e he => hok e (List.mem_of_mem_take he)) rfl
  · simp only [Option.some.injEq, Prod.mk.injEq] at h
    obtain ⟨rfl, _⟩ := h
    exact hok

theorem rgcrLoop_spec (S : Sys V α) (hl : LawfulRgcr S) (c : Config α) (b : V) :
    ∀ (fuel : Nat) (x r : V) (dirs : List (V × V)) (st : State α) (calls : Nat) (hist : List α)
      (rr : RgcrResult V α),
      DirsOK S dirs → r = resid S b x →
      st.numIter ≤ max c.minIter c.maxIter → max c.minIter c.maxIter + 1 ≤ fuel + st.numIter →
      rgcrLoop S c fuel x r dirs st calls hist = some rr →
      DirsOK S rr.dirs ∧ rr.res.st.defInit = st.defInit ∧ rr.res.status ≠ .undefined ∧ rr.res.status ≠ .progress ∧
        (rr.res.status ≠ .aborted → 0 < rr.res.st.numIter ∧ FinalStep S c b rr.res) := by
  intro fuel
  induction fuel with
  | zero => intro x r dirs st calls hist rr _ _ h1 h2; omega
  | succ fuel ih =>
    intro x r dirs st calls hist rr hok hr h1 h2 h
    simp only [rgcrLoop] at h
    split at h
    · exact absurd h (by simp)
    · simp only [Option.some.injEq] at h
      subst h
      exact ⟨hok, rfl, by simp, by simp, by simp⟩
    · rename_i dirs' calls' hext
      have hok' := rgcrExtend_ok S hl dirs dirs' _ calls calls' r hok hext
      split at h
      · exact absurd h (by simp)
      · rename_i p q hget
        have hq : q = S.Fd (S.A p) := hok' (p, q) (List.mem_of_getElem? hget)
        have hr' : S.ops.axpy r q (-(S.ops.dot r q)) = resid S b (S.ops.axpy x p (S.ops.dot r q)) := by
          rw [hl.toLawful.resid_step, hr, hq]
        generalize hx' : S.ops.axpy x p (S.ops.dot r q) = x' at h hr'
        generalize hr2 : S.ops.axpy r q (-(S.ops.dot r q)) = r' at h hr'
        generalize hsn : setNewDefect c st true (S.nrm r') = sn at h
        obtain ⟨status, st'⟩ := sn
        have hf := setNew_frame c st st' true _ _ hsn
        simp only at h
        split at h
        · rename_i hne
          simp only [Option.some.injEq] at h
          subst h
          refine ⟨hok', hf.2.1, setNew_ne_undefined c _ _ _ _ _ hsn, by simpa using hne, ?_⟩
          intro _
          exact ⟨by simp only; omega, st, by simp only; rw [← hr']; exact hsn⟩
        · rename_i hne
          have hp : status = .progress := by simpa using hne
          subst hp
          have hb := setNew_progress_bound c st st' true _ hsn
          have := ih x' r' dirs' st' _ _ rr hok' hr' (by omega) (by omega) h
          rw [hf.2.1] at this
          exact this

/-- one solve (`apply()` on a filtered right-hand side, or `correct()`) of an RGCR object whose recycled pairs satisfy
    the invariant: the pairs it leaves behind satisfy it again, and the returned status is judged from the true residual
    of the returned iterate (`SolveSound`) -/
theorem rgcrSolve_spec (S : Sys V α) (hl : LawfulRgcr S) (c : Config α) (prev : State α) (dirs dirs' : List (V × V))
    (isApply : Bool) (x0 b : V) (res : Result V α) (hok : DirsOK S dirs) (hb : isApply = true → S.Fd b = b)
    (h : rgcrSolve S c prev dirs isApply x0 b = some (res, dirs')) :
    DirsOK S dirs' ∧
      SolveSound c (if isApply then S.ops.zero else x0) (S.nrm (if isApply then b else resid S b x0))
        (S.nrm (resid S b res.x)) res := by
  -- both modes start `_apply_intern` from `(xs, r0)` with `r0 = resid b xs`
  have key : ∀ (xs r0 : V), r0 = resid S b xs → ∀ rr : RgcrResult V α, rgcrIntern S c prev dirs xs r0 = some rr →
      DirsOK S rr.dirs ∧ SolveSound c xs (S.nrm r0) (S.nrm (resid S b rr.res.x)) rr.res := by
    intro xs r0 hr0 rr hrr
    simp only [rgcrIntern] at hrr
    rcases hsi : setInitialDefect c prev true (S.nrm r0) with ⟨status, st⟩
    rw [hsi] at hrr
    obtain ⟨hst, _, hsu, hpr, hall⟩ := setInitial_spec c prev true _ _ _ hsi
    simp only at hrr
    split at hrr
    · rename_i hne
      simp only [Option.some.injEq] at hrr
      subst hrr
      subst hst
      have hne' : status ≠ .progress := by simpa using hne
      refine ⟨hok, ?_⟩
      refine solveSound_of S c b xs _ _ ⟨rfl, ?_, hne', Or.inl ⟨rfl, rfl, rfl, ?_⟩⟩
      · rcases hall with e | e | e <;> simp_all
      · rcases hall with e | e | e
        · exact Or.inl e
        · exact Or.inr ⟨e, (hsu.1 e).2⟩
        · exact absurd e hne'
    · have := rgcrLoop_spec S hl c b _ xs _ dirs st _ _ rr hok hr0 (by subst hst; simp)
        (by subst hst; simp [fuelOf]) hrr
      subst hst
      exact ⟨this.1, solveSound_of S c b xs _ _ ⟨this.2.1, this.2.2.1, this.2.2.2.1, Or.inr this.2.2.2.2⟩⟩
  simp only [rgcrSolve] at h
  cases isApply with
  | false =>
    simp only [Bool.false_eq_true, ↓reduceIte] at h ⊢
    split at h
    · exact absurd h (by simp)
    · rename_i rr hrr
      simp only [Option.some.injEq, Prod.mk.injEq] at h
      obtain ⟨rfl, rfl⟩ := h
      have := key x0 _ rfl rr hrr
      exact ⟨fun e he => this.1 e (List.mem_of_mem_take he), this.2⟩
  | true =>
    simp only [↓reduceIte] at h ⊢
    split at h
    · exact absurd h (by simp)
    · rename_i rr hrr
      simp only [Option.some.injEq, Prod.mk.injEq] at h
      obtain ⟨rfl, rfl⟩ := h
      have hr0 : b = resid S b S.ops.zero := by rw [hl.toLawful.resid_zero, hb rfl]
      have := key S.ops.zero b hr0 rr hrr
      exact ⟨fun e he => this.1 e (List.mem_of_mem_take he), this.2⟩

/-- the steps of a session are admissible: a step without re-initialisation keeps the system of the previous step (new
    matrix values can only enter through `done_numeric(); init_numeric()`), every system satisfies the laws, and
    `apply()` gets filtered right-hand sides -/
def StepsOK (prevS : Sys V α) : List (Sys V α × Nat × Bool × V × V) → Prop
  | [] => True
  | (S, re, isApply, _, b) :: rest =>
    (re = 0 → S = prevS) ∧ LawfulRgcr S ∧ (isApply = true → S.Fd b = b) ∧ StepsOK S rest

/-- every solve of the session is sound with respect to ITS OWN system -/
def SessionSound (c : Config α) : List (Sys V α × Nat × Bool × V × V) → List (Result V α) → Prop
  | [], [] => True
  | (S, _, isApply, x0, b) :: rest, r :: rs =>
    SolveSound c (if isApply then S.ops.zero else x0) (S.nrm (if isApply then b else resid S b x0))
      (S.nrm (resid S b r.x)) r ∧ SessionSound c rest rs
  | _, _ => False

theorem rgcrSessionSys_sound (c : Config α) :
    ∀ (steps : List (Sys V α × Nat × Bool × V × V)) (prevS : Sys V α) (prev : State α) (dirs : List (V × V))
      (rs : List (Result V α)),
      DirsOK prevS dirs → StepsOK prevS steps → rgcrSessionSys c prev dirs steps = some rs →
      SessionSound c steps rs := by
  intro steps
  induction steps with
  | nil =>
    intro prevS prev dirs rs _ _ h
    simp only [rgcrSessionSys, Option.some.injEq] at h
    subst h
    trivial
  | cons st rest ih =>
    intro prevS prev dirs rs hok hsteps h
    obtain ⟨S, re, isApply, x0, b⟩ := st
    obtain ⟨hsame, hl, hb, hrest⟩ := hsteps
    simp only [rgcrSessionSys] at h
    split at h
    · exact absurd h (by simp)
    · rename_i r dirs' hsolve
      split at h
      · exact absurd h (by simp)
      · rename_i rs' hrs
        simp only [Option.some.injEq] at h
        subst h
        -- the pairs handed to this solve satisfy the invariant of ITS system: unchanged system, or empty lists
        have hok0 : DirsOK S (if re = 0 then dirs else []) := by
          by_cases hre : re = 0
          · rw [if_pos hre, hsame hre]; exact hok
          · rw [if_neg hre]; intro e he; simp at he
        have := rgcrSolve_spec S hl c prev _ dirs' isApply x0 b r hok0 hb hsolve
        exact ⟨this.2, ih S r.st dirs' rs' this.1 hrest hrs⟩

end FeatModel.Solver
