/-
C13 extensions: `Global::Vector::max_abs_element` / `min_abs_element` / `max_element` / `min_element`
(local reduction, then `Gate::max` / `Gate::min`) over a linearly ordered field.
-/
import Mathlib.Algebra.Order.Field.Basic
import FeatModel.Lemmas.C13Sync
open FeatModel.Dist

set_option linter.unusedSectionVars false

namespace FeatModel.C13L

variable {α : Type} [Field α] [LinearOrder α] [IsStrictOrderedRing α]

theorem maxOf_eq_max (a b : α) : maxOf a b = max a b := by
  unfold maxOf
  split
  · rename_i h; exact (max_eq_right h.le).symm
  · rename_i h; exact (max_eq_left (not_lt.1 h)).symm

theorem minOf_eq_min (a b : α) : minOf a b = min a b := by
  unfold minOf
  split
  · rename_i h; exact (min_eq_right h.le).symm
  · rename_i h; exact (min_eq_left (not_lt.1 h)).symm

theorem absOf_nonneg (a : α) : 0 ≤ absOf a := by
  unfold absOf
  split
  · rename_i h; exact (neg_pos.2 h).le
  · rename_i h; exact not_lt.1 h

theorem absOf_eq_abs (a : α) : absOf a = |a| := by
  unfold absOf
  split
  · rename_i h; exact (abs_of_neg h).symm
  · rename_i h; exact (abs_of_nonneg (not_lt.1 h)).symm

/-! ### folds of `max` / `min` -/

theorem foldl_max_init_le {β : Type} (f : β → α) (l : List β) (m : α) :
    m ≤ l.foldl (fun m x => maxOf m (f x)) m := by
  induction l generalizing m with
  | nil => exact le_refl _
  | cons x l ih => rw [List.foldl_cons, maxOf_eq_max]; exact le_trans (le_max_left _ _) (ih _)

theorem foldl_max_ge {β : Type} (f : β → α) (l : List β) (m : α) (x : β) (hx : x ∈ l) :
    f x ≤ l.foldl (fun m x => maxOf m (f x)) m := by
  induction l generalizing m with
  | nil => simp at hx
  | cons y l ih =>
    rw [List.foldl_cons]
    rcases List.mem_cons.1 hx with rfl | h
    · rw [maxOf_eq_max]; exact le_trans (le_max_right _ _) (foldl_max_init_le f l _)
    · exact ih _ h

theorem foldl_max_attained {β : Type} (f : β → α) (l : List β) (m : α) :
    l.foldl (fun m x => maxOf m (f x)) m = m ∨ ∃ x ∈ l, l.foldl (fun m x => maxOf m (f x)) m = f x := by
  induction l generalizing m with
  | nil => exact Or.inl rfl
  | cons y l ih =>
    rw [List.foldl_cons]
    rcases ih (maxOf m (f y)) with h | ⟨x, hx, h⟩
    · rw [h, maxOf_eq_max]
      rcases max_choice m (f y) with h' | h'
      · exact Or.inl h'
      · exact Or.inr ⟨y, by simp, h'⟩
    · exact Or.inr ⟨x, by simp [hx], h⟩

theorem foldl_min_init_ge {β : Type} (f : β → α) (l : List β) (m : α) :
    l.foldl (fun m x => minOf m (f x)) m ≤ m := by
  induction l generalizing m with
  | nil => exact le_refl _
  | cons x l ih => rw [List.foldl_cons]; exact le_trans (ih _) (by rw [minOf_eq_min]; exact min_le_left _ _)

theorem foldl_min_le {β : Type} (f : β → α) (l : List β) (m : α) (x : β) (hx : x ∈ l) :
    l.foldl (fun m x => minOf m (f x)) m ≤ f x := by
  induction l generalizing m with
  | nil => simp at hx
  | cons y l ih =>
    rw [List.foldl_cons]
    rcases List.mem_cons.1 hx with rfl | h
    · exact le_trans (foldl_min_init_ge f l _) (by rw [minOf_eq_min]; exact min_le_right _ _)
    · exact ih _ h

theorem foldl_min_attained {β : Type} (f : β → α) (l : List β) (m : α) :
    l.foldl (fun m x => minOf m (f x)) m = m ∨ ∃ x ∈ l, l.foldl (fun m x => minOf m (f x)) m = f x := by
  induction l generalizing m with
  | nil => exact Or.inl rfl
  | cons y l ih =>
    rw [List.foldl_cons]
    rcases ih (minOf m (f y)) with h | ⟨x, hx, h⟩
    · rw [h, minOf_eq_min]
      rcases min_choice m (f y) with h' | h'
      · exact Or.inl h'
      · exact Or.inr ⟨y, by simp, h'⟩
    · exact Or.inr ⟨x, by simp [hx], h⟩

/-! ### `Gate::max` / `Gate::min` -/

theorem allMax_ge (l : List α) (x : α) (hx : x ∈ l) : x ≤ allMax l := by
  cases l with
  | nil => simp at hx
  | cons a t =>
    show x ≤ t.foldl (fun m y => maxOf m (id y)) a
    rcases List.mem_cons.1 hx with rfl | h
    · exact foldl_max_init_le id t _
    · exact foldl_max_ge id t a x h

theorem allMax_mem (l : List α) (hl : l ≠ []) : allMax l ∈ l := by
  cases l with
  | nil => exact (hl rfl).elim
  | cons a t =>
    show t.foldl (fun m y => maxOf m (id y)) a ∈ a :: t
    rcases foldl_max_attained id t a with h | ⟨x, hx, h⟩
    · rw [h]; simp
    · rw [h]; simp [hx]

theorem allMin_le (l : List α) (x : α) (hx : x ∈ l) : allMin l ≤ x := by
  cases l with
  | nil => simp at hx
  | cons a t =>
    show t.foldl (fun m y => minOf m (id y)) a ≤ x
    rcases List.mem_cons.1 hx with rfl | h
    · exact foldl_min_init_ge id t _
    · exact foldl_min_le id t a x h

theorem allMin_mem (l : List α) (hl : l ≠ []) : allMin l ∈ l := by
  cases l with
  | nil => exact (hl rfl).elim
  | cons a t =>
    show t.foldl (fun m y => minOf m (id y)) a ∈ a :: t
    rcases foldl_min_attained id t a with h | ⟨x, hx, h⟩
    · rw [h]; simp
    · rw [h]; simp [hx]

theorem allMax_nil : allMax ([] : List α) = 0 := rfl
theorem allMin_nil : allMin ([] : List α) = 0 := rfl

/-! ### local reductions -/

theorem localMaxAbs_nonneg (v : List α) : 0 ≤ localMaxAbs v := foldl_max_init_le absOf v 0

theorem localMaxAbs_ge (v : List α) (x : α) (hx : x ∈ v) : absOf x ≤ localMaxAbs v := foldl_max_ge absOf v 0 x hx

theorem localMaxAbs_attained (v : List α) : localMaxAbs v = 0 ∨ ∃ x ∈ v, localMaxAbs v = absOf x :=
  foldl_max_attained absOf v 0

/-! ### access -/

theorem getD_mem_of_lt (xs : List (List α)) (r i : Nat) (hi : i < (xs.getD r []).length) :
    xs.getD r [] ∈ xs ∧ val (xs.getD r []) i ∈ xs.getD r [] := by
  have hr : r < xs.length := by
    by_contra h
    rw [List.getD_eq_getElem?_getD, List.getElem?_eq_none (Nat.not_lt.1 h)] at hi
    simp at hi
  refine ⟨?_, ?_⟩
  · rw [List.getD_eq_getElem?_getD, List.getElem?_eq_getElem hr]; exact List.getElem_mem _
  · rw [val_eq_getElem _ _ hi]; exact List.getElem_mem _

theorem exists_index_of_mem (xs : List (List α)) (v : List α) (hv : v ∈ xs) (x : α) (hx : x ∈ v) :
    ∃ r i, r < xs.length ∧ i < (xs.getD r []).length ∧ xs.getD r [] = v ∧ val (xs.getD r []) i = x := by
  obtain ⟨r, hr, rfl⟩ := List.mem_iff_getElem.1 hv
  obtain ⟨i, hi, rfl⟩ := List.mem_iff_getElem.1 hx
  have e : xs.getD r [] = xs[r] := by rw [List.getD_eq_getElem?_getD, List.getElem?_eq_getElem hr]; rfl
  exact ⟨r, i, hr, by rw [e]; exact hi, e, by rw [e, val_eq_getElem _ _ hi]⟩

/-! ### the global reductions -/

theorem gMaxAbs_ge (xs : List (List α)) (r i : Nat) (hi : i < (xs.getD r []).length) :
    absOf (val (xs.getD r []) i) ≤ gMaxAbs xs := by
  obtain ⟨h1, h2⟩ := getD_mem_of_lt xs r i hi
  exact le_trans (localMaxAbs_ge _ _ h2) (allMax_ge _ _ (List.mem_map.2 ⟨_, h1, rfl⟩))

theorem gMaxAbs_nonneg (xs : List (List α)) : 0 ≤ gMaxAbs xs := by
  cases xs with
  | nil => exact le_refl _
  | cons v t => exact le_trans (localMaxAbs_nonneg v) (allMax_ge _ _ (by simp))

theorem gMaxAbs_attained (xs : List (List α)) (r0 : Nat) (h0 : 0 < (xs.getD r0 []).length) :
    ∃ r i, i < (xs.getD r []).length ∧ gMaxAbs xs = absOf (val (xs.getD r []) i) := by
  have hne : xs.map localMaxAbs ≠ [] := by
    intro h
    have : xs = [] := List.map_eq_nil_iff.1 h
    rw [this] at h0; simp at h0
  obtain ⟨v, hv, hm⟩ := List.mem_map.1 (allMax_mem _ hne)
  rcases localMaxAbs_attained v with hz | ⟨x, hx, hx'⟩
  · refine ⟨r0, 0, h0, ?_⟩
    have h1 := gMaxAbs_ge xs r0 0 h0
    have h2 : gMaxAbs xs = 0 := by unfold gMaxAbs; rw [← hm, hz]
    rw [h2] at h1 ⊢
    exact le_antisymm (absOf_nonneg _) h1
  · obtain ⟨r, i, _, hi, e, hxv⟩ := exists_index_of_mem xs v hv x hx
    exact ⟨r, i, hi, by unfold gMaxAbs; rw [← hm, hx', hxv]⟩

theorem gMax_ge (xs : List (List α)) (r i : Nat) (hi : i < (xs.getD r []).length) :
    val (xs.getD r []) i ≤ gMax xs := by
  obtain ⟨h1, h2⟩ := getD_mem_of_lt xs r i hi
  exact le_trans (allMax_ge _ _ h2) (allMax_ge _ _ (List.mem_map.2 ⟨_, h1, rfl⟩))

theorem gMax_attained (xs : List (List α)) (hne : xs ≠ []) (hall : ∀ v ∈ xs, v ≠ []) :
    ∃ r i, i < (xs.getD r []).length ∧ gMax xs = val (xs.getD r []) i := by
  obtain ⟨v, hv, hm⟩ := List.mem_map.1 (allMax_mem (xs.map localMax) (by simpa using hne))
  have hx : localMax v ∈ v := allMax_mem v (hall v hv)
  obtain ⟨r, i, _, hi, e, hxv⟩ := exists_index_of_mem xs v hv _ hx
  exact ⟨r, i, hi, by unfold gMax; rw [← hm, hxv]⟩

theorem gMin_le (xs : List (List α)) (r i : Nat) (hi : i < (xs.getD r []).length) :
    gMin xs ≤ val (xs.getD r []) i := by
  obtain ⟨h1, h2⟩ := getD_mem_of_lt xs r i hi
  exact le_trans (allMin_le _ _ (List.mem_map.2 ⟨_, h1, rfl⟩)) (allMin_le _ _ h2)

theorem gMin_attained (xs : List (List α)) (hne : xs ≠ []) (hall : ∀ v ∈ xs, v ≠ []) :
    ∃ r i, i < (xs.getD r []).length ∧ gMin xs = val (xs.getD r []) i := by
  obtain ⟨v, hv, hm⟩ := List.mem_map.1 (allMin_mem (xs.map localMin) (by simpa using hne))
  have hx : localMin v ∈ v := allMin_mem v (hall v hv)
  obtain ⟨r, i, _, hi, e, hxv⟩ := exists_index_of_mem xs v hv _ hx
  exact ⟨r, i, hi, by unfold gMin; rw [← hm, hxv]⟩

theorem gMinAbs_le (xs : List (List α)) (r i : Nat) (hi : i < (xs.getD r []).length) :
    gMinAbs xs ≤ absOf (val (xs.getD r []) i) := by
  obtain ⟨h1, h2⟩ := getD_mem_of_lt xs r i hi
  exact le_trans (allMin_le _ _ (List.mem_map.2 ⟨_, h1, rfl⟩)) (allMin_le _ _ (List.mem_map.2 ⟨_, h2, rfl⟩))

theorem gMinAbs_attained (xs : List (List α)) (hne : xs ≠ []) (hall : ∀ v ∈ xs, v ≠ []) :
    ∃ r i, i < (xs.getD r []).length ∧ gMinAbs xs = absOf (val (xs.getD r []) i) := by
  obtain ⟨v, hv, hm⟩ := List.mem_map.1 (allMin_mem (xs.map localMinAbs) (by simpa using hne))
  have hx : localMinAbs v ∈ v.map absOf := allMin_mem _ (by simpa using hall v hv)
  obtain ⟨x, hxv, hxe⟩ := List.mem_map.1 hx
  obtain ⟨r, i, _, hi, e, hxv'⟩ := exists_index_of_mem xs v hv x hxv
  exact ⟨r, i, hi, by unfold gMinAbs; rw [← hm, ← hxe, hxv']⟩

end FeatModel.C13L
