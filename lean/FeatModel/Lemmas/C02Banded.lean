import FeatModel.Lemmas.C01Banded
import FeatModel.Model.LA.Convert
/-!
C02: `SparseMatrixCSR::convert(const SparseMatrixBanded &)` (`Banded.toCsr`): the window double loop visits every row
once, in ascending order, and appends exactly the in-matrix band entries of the row in ascending band order.
-/
open FeatModel FeatModel.LA
namespace C02L
namespace BandedAux

section generic

/-- ascending loop with an invariant indexed by the loop counter -/
theorem range'_inv {σ : Type} (P : Nat → σ → Prop) (R : σ → Nat → σ) : ∀ (n a : Nat) (s : σ), P a s →
    (∀ l, a ≤ l → l < a + n → ∀ s, P l s → P (l + 1) (R s l)) → P (a + n) ((List.range' a n).foldl R s)
  | 0, a, s, hs, _ => by simpa using hs
  | n + 1, a, s, hs, step => by
    rw [List.range'_succ, List.foldl_cons]
    have := range'_inv P R n (a + 1) (R s a) (step a (Nat.le_refl _) (by omega) s hs)
      (fun l h1 h2 => step l (by omega) (by omega))
    have e : a + 1 + n = a + (n + 1) := by omega
    rw [← e]; exact this

/-- descending loop `for (j = n; j > 0;) { --j; … }` along a boundary sequence `e` -/
theorem desc_inv {σ : Type} (P : Nat → σ → Prop) (e : Nat → Nat) (H : σ → Nat → σ) : ∀ (n : Nat),
    (∀ j, j < n → ∀ s, P (e (j + 1)) s → P (e j) (H s j)) → ∀ s, P (e n) s →
      P (e 0) ((List.range n).reverse.foldl H s)
  | 0, _, s, hs => by simpa using hs
  | n + 1, step, s, hs => by
    have hrw : (List.range (n + 1)).reverse.foldl H s = (List.range n).reverse.foldl H (H s n) := by
      rw [List.range_succ, List.reverse_append]; rfl
    rw [hrw]
    exact desc_inv P e H n (fun j hj => step j (by omega)) _ (step n (by omega) s hs)

/-- a conditional left fold in which at most the index `a0` can match -/
theorem foldl_unique {α : Type} [Add α] (p : Nat → Prop) [DecidablePred p] (w : Nat → α) (a0 : Nat) :
    ∀ (n s : Nat) (z : α), (∀ a, s ≤ a → a < s + n → p a → a = a0) →
      (List.range' s n).foldl (fun s a => if p a then s + w a else s) z
        = if (s ≤ a0 ∧ a0 < s + n) ∧ p a0 then z + w a0 else z
  | 0, s, z, _ => by
    rw [if_neg (fun h => absurd h.1 (by omega))]; rfl
  | n + 1, s, z, h => by
    rw [List.range'_succ, List.foldl_cons]
    by_cases hp : p s
    · have hs := h s (Nat.le_refl _) (by omega) hp
      rw [if_pos hp, foldl_unique p w a0 n (s + 1) _ (fun a h1 h2 hpa => h a (by omega) (by omega) hpa)]
      rw [if_neg (fun h => absurd h.1 (by omega)), if_pos ⟨⟨by omega, by omega⟩, hs ▸ hp⟩, hs]
    · rw [if_neg hp, foldl_unique p w a0 n (s + 1) _ (fun a h1 h2 hpa => h a (by omega) (by omega) hpa)]
      by_cases hc : (s + 1 ≤ a0 ∧ a0 < s + 1 + n) ∧ p a0
      · rw [if_pos hc, if_pos ⟨⟨by omega, by omega⟩, hc.2⟩]
      · rw [if_neg hc, if_neg]
        rintro ⟨⟨h1, h2⟩, h3⟩
        by_cases hs : s = a0
        · exact hp (hs ▸ h3)
        · exact hc ⟨⟨by omega, by omega⟩, h3⟩

theorem getD_set (r : Array Nat) (m x t : Nat) :
    (r.setIfInBounds m x).getD t 0 = if m = t ∧ m < r.size then x else r.getD t 0 := by
  simp only [Array.getD_eq_getD_getElem?, Array.getElem?_setIfInBounds]
  by_cases h1 : m = t
  · subst h1
    by_cases h2 : m < r.size
    · simp [h2]
    · simp [h2]
  · simp [h1]

/-- facts about an array that is `ci` followed by `g i, …, g (i+n-1)` -/
theorem append_facts {β : Type} (res ci : Array β) (g : Nat → β) (i n : Nat)
    (h : res.toList = ci.toList ++ (List.range' i n).map g) :
    res.size = ci.size + n ∧ (∀ (k : Nat) x, ci[k]? = some x → res[k]? = some x) ∧
    (∀ a, i ≤ a → a < i + n → res[ci.size + (a - i)]? = some (g a)) ∧
    (∀ (k : Nat) c, res[k]? = some c → ci[k]? = some c ∨ ∃ a, i ≤ a ∧ a < i + n ∧ c = g a) := by
  have hsz : res.size = ci.size + n := by
    have := congrArg List.length h
    simpa using this
  refine ⟨hsz, ?_, ?_, ?_⟩
  · intro k x hk
    have hlt : k < ci.size := by
      rcases Nat.lt_or_ge k ci.size with h1 | h1
      · exact h1
      · rw [Array.getElem?_eq_none h1] at hk; cases hk
    rw [← Array.getElem?_toList, h, List.getElem?_append_left (by simpa using hlt), Array.getElem?_toList]
    exact hk
  · intro a h1 h2
    rw [← Array.getElem?_toList, h, List.getElem?_append_right (by simp)]
    simp only [Array.length_toList, Nat.add_sub_cancel_left, List.getElem?_map]
    rw [List.getElem?_range' (by omega)]
    have : i + (a - i) = a := by omega
    simp [this]
  · intro k c hk
    rw [← Array.getElem?_toList, h] at hk
    rcases Nat.lt_or_ge k ci.size with h1 | h1
    · left
      rw [List.getElem?_append_left (by simpa using h1), Array.getElem?_toList] at hk
      exact hk
    · right
      rw [List.getElem?_append_right (by simpa using h1)] at hk
      simp only [Array.length_toList, List.getElem?_map] at hk
      have hlt : k - ci.size < n := by
        rcases Nat.lt_or_ge (k - ci.size) n with h2 | h2
        · exact h2
        · rw [List.getElem?_eq_none (by simpa using h2)] at hk; cases hk
      rw [List.getElem?_range' hlt] at hk
      simp only [Option.map_some, Option.some.injEq] at hk
      exact ⟨i + 1 * (k - ci.size), by omega, by omega, hk.symm⟩

end generic

variable {α : Type}

abbrev St (α : Type) := Array Nat × Array Nat × Array α

def col (B : Banded α) (l a : Nat) : Nat := l + B.offsets.getD a 0 + 1 - B.rows
def vv [Zero α] (B : Banded α) (l a : Nat) : α := B.val.getD (a * B.rows + l) 0
/-- band `a` has an entry of row `l` inside the matrix -/
def inM (B : Banded α) (l a : Nat) : Prop :=
  B.rows ≤ l + B.offsets.getD a 0 + 1 ∧ l + B.offsets.getD a 0 + 1 - B.rows < B.cols

def rowStep [Zero α] (B : Banded α) (i j : Nat) (st : St α) (l : Nat) : St α :=
  let cv := foldRange i j (fun (cv : Array Nat × Array α) a => (cv.1.push (col B l a), cv.2.push (vv B l a)))
    (st.2.1, st.2.2)
  (st.1.setIfInBounds (l + 1) cv.1.size, cv.1, cv.2)

def cell [Zero α] (B : Banded α) (i j : Nat) (st : St α) : St α :=
  foldRange (max (B.startOff (some i)) (B.endOffP1 (some j)))
    (min (B.startOff (Banded.predIdx i)) (B.endOffP1 (Banded.predIdx j))) (rowStep B i j) st

def inner [Zero α] (B : Banded α) (st : St α) (i : Nat) : St α :=
  (List.range (B.noo + 1)).reverse.foldl (fun st j => cell B i j st) st

def loopSt [Zero α] (B : Banded α) : St α :=
  (List.range (B.firstUpper + 1)).reverse.foldl (inner B) (Array.replicate (B.rows + 1) 0, #[], #[])

theorem toCsr_eq [Zero α] (B : Banded α) :
    B.toCsr = if B.usedElements = 0 then Csr.entryFree B.rows B.cols
      else ⟨B.rows, B.cols, (loopSt B).1, (loopSt B).2.1, (loopSt B).2.2⟩ := rfl

theorem pushFold_toList [Zero α] (B : Banded α) (l : Nat) : ∀ (L : List Nat) (cv : Array Nat × Array α),
    (L.foldl (fun (cv : Array Nat × Array α) a => (cv.1.push (col B l a), cv.2.push (vv B l a))) cv).1.toList
      = cv.1.toList ++ L.map (col B l) ∧
    (L.foldl (fun (cv : Array Nat × Array α) a => (cv.1.push (col B l a), cv.2.push (vv B l a))) cv).2.toList
      = cv.2.toList ++ L.map (vv B l)
  | [], cv => by simp
  | a :: L, cv => by
    rw [List.foldl_cons]
    obtain ⟨h1, h2⟩ := pushFold_toList B l L (cv.1.push (col B l a), cv.2.push (vv B l a))
    rw [h1, h2]
    simp

/-- the state invariant "rows `0 … L-1` are done" -/
structure Inv [Zero α] (B : Banded α) (L : Nat) (s : St α) : Prop where
  rpSize : s.1.size = B.rows + 1
  vSize : s.2.2.size = s.2.1.size
  rp0 : s.1.getD 0 0 = 0
  rpL : s.1.getD L 0 = s.2.1.size
  colLt : ∀ (k : Nat) c, s.2.1[k]? = some c → c < B.cols
  row : ∀ t, t < L → ∃ lo hi, hi ≤ B.noo ∧ s.1.getD (t + 1) 0 = s.1.getD t 0 + (hi - lo) ∧
    s.1.getD (t + 1) 0 ≤ s.2.1.size ∧ (∀ a, a < B.noo → (inM B t a ↔ lo ≤ a ∧ a < hi)) ∧
    ∀ a, lo ≤ a → a < hi → s.2.1[s.1.getD t 0 + (a - lo)]? = some (col B t a) ∧
      s.2.2[s.1.getD t 0 + (a - lo)]? = some (vv B t a)

theorem inv_init [Zero α] (B : Banded α) : Inv B 0 ((Array.replicate (B.rows + 1) 0, #[], #[]) : St α) := by
  refine ⟨by simp, by simp, by simp [Array.getD], by simp [Array.getD], ?_, ?_⟩
  · intro k c hk; simp at hk
  · intro t ht; omega

theorem rowStep_inv [Zero α] {B : Banded α} {i j l : Nat} (hl : l < B.rows) (hj : j ≤ B.noo)
    (hchar : ∀ a, a < B.noo → (inM B l a ↔ i ≤ a ∧ a < j)) (s : St α) (hs : Inv B l s) :
    Inv B (l + 1) (rowStep B i j s l) := by
  obtain ⟨rp, ci, v⟩ := s
  obtain ⟨h1, h2⟩ := pushFold_toList B l (List.range' i (j - i)) (ci, v)
  obtain ⟨a1, a2, a3, a4⟩ := append_facts _ _ _ _ _ h1
  obtain ⟨b1, b2, b3, _⟩ := append_facts _ _ _ _ _ h2
  have hrp : rp.size = B.rows + 1 := hs.rpSize
  have hvs : v.size = ci.size := hs.vSize
  have hrpl : rp.getD l 0 = ci.size := hs.rpL
  have hrow := hs.row
  have hcol := hs.colLt
  have hrp0 : rp.getD 0 0 = 0 := hs.rp0
  clear hs h1 h2
  simp only [rowStep, foldRange]
  generalize List.foldl (fun (cv : Array Nat × Array α) a => (cv.1.push (col B l a), cv.2.push (vv B l a))) (ci, v)
    (List.range' i (j - i)) = res at *
  simp only at a1 a2 a3 a4 b1 b2 b3 hrow hcol
  have g0 : ∀ t, t ≠ l + 1 → (rp.setIfInBounds (l + 1) res.1.size).getD t 0 = rp.getD t 0 := by
    intro t ht
    rw [getD_set, if_neg (fun h => ht h.1.symm)]
  have g1 : (rp.setIfInBounds (l + 1) res.1.size).getD (l + 1) 0 = res.1.size := by
    rw [getD_set, if_pos ⟨rfl, by omega⟩]
  refine ⟨?_, ?_, ?_, ?_, ?_, ?_⟩
  · show (rp.setIfInBounds (l + 1) res.1.size).size = _
    rw [Array.size_setIfInBounds]; exact hrp
  · show res.2.size = res.1.size
    omega
  · show (rp.setIfInBounds (l + 1) res.1.size).getD 0 0 = 0
    rw [g0 0 (by omega)]; exact hrp0
  · exact g1
  · intro k c hk
    rcases a4 k c hk with h | ⟨a, ha1, ha2, rfl⟩
    · exact hcol k c h
    · exact ((hchar a (by omega)).mpr ⟨ha1, by omega⟩).2
  · intro t ht
    show ∃ lo hi, hi ≤ B.noo ∧ (rp.setIfInBounds (l + 1) res.1.size).getD (t + 1) 0
        = (rp.setIfInBounds (l + 1) res.1.size).getD t 0 + (hi - lo) ∧
      (rp.setIfInBounds (l + 1) res.1.size).getD (t + 1) 0 ≤ res.1.size ∧ (∀ a, a < B.noo → (inM B t a ↔ lo ≤ a ∧ a < hi)) ∧
      ∀ a, lo ≤ a → a < hi → res.1[(rp.setIfInBounds (l + 1) res.1.size).getD t 0 + (a - lo)]? = some (col B t a) ∧
        res.2[(rp.setIfInBounds (l + 1) res.1.size).getD t 0 + (a - lo)]? = some (vv B t a)
    rcases Nat.lt_or_ge t l with htl | htl
    · obtain ⟨lo, hi, e0, e1, e2, e3, e4⟩ := hrow t htl
      rw [g0 t (by omega), g0 (t + 1) (by omega)]
      refine ⟨lo, hi, e0, e1, by omega, e3, ?_⟩
      intro a ha1 ha2
      exact ⟨a2 _ _ (e4 a ha1 ha2).1, b2 _ _ (e4 a ha1 ha2).2⟩
    · have : t = l := by omega
      subst this
      rw [g0 t (by omega), g1, hrpl]
      refine ⟨i, j, hj, by omega, by omega, hchar, ?_⟩
      intro a ha1 ha2
      refine ⟨a3 a ha1 (by omega), ?_⟩
      rw [← hvs]
      exact b3 a ha1 (by omega)

/-- inside the (i, j) window exactly the bands `i ≤ a < j` have an in-matrix entry in row `l` -/
theorem cell_char {B : Banded α} (h : B.WF) {l i j : Nat} (hl : l < B.rows) (hi : i ≤ B.noo) (hj : j ≤ B.noo)
    (hI1 : B.startOff (some i) ≤ l) (hI2 : l < B.startOff (Banded.predIdx i))
    (hJ1 : B.endOffP1 (some j) ≤ l) (hJ2 : l < B.endOffP1 (Banded.predIdx j)) :
    ∀ k, k < B.noo → (inM B l k ↔ i ≤ k ∧ k < j) := by
  intro k hk
  unfold inM
  have hle := h.offLe k hk
  constructor
  · intro hv
    constructor
    · by_contra hc
      have hi0 : i ≠ 0 := by omega
      rw [Banded.predIdx_pos hi0, Banded.startOff_lt (by omega : i - 1 < B.noo)] at hI2
      have h1 := Banded.off_mono h (i - 1) k (by omega) (by omega)
      omega
    · by_contra hc
      have hj' : j < B.noo := by omega
      rw [Banded.endOffP1_lt hj'] at hJ1
      have h2 := Banded.off_mono h k j (by omega) hk
      omega
  · rintro ⟨hik, hkj⟩
    have hi' : i < B.noo := by omega
    have h1 := Banded.off_mono h k i hik hk
    rw [Banded.startOff_lt hi'] at hI1
    have hj0 : j ≠ 0 := by omega
    rw [Banded.predIdx_pos hj0, Banded.endOffP1_lt (by omega : j - 1 < B.noo)] at hJ2
    have h2 := Banded.off_mono h (j - 1) k (by omega) (by omega)
    omega

theorem cell_inv [Zero α] {B : Banded α} (h : B.WF) {i j : Nat} (hi : i ≤ B.noo) (hj : j ≤ B.noo)
    (hst : B.startOff (some i) ≤ B.startOff (Banded.predIdx i)) (htr : B.startOff (Banded.predIdx i) ≤ B.rows)
    (hf : B.endOffP1 (some j) ≤ B.endOffP1 (Banded.predIdx j)) (s : St α)
    (hs : Inv B (max (B.startOff (some i)) (min (B.startOff (Banded.predIdx i)) (B.endOffP1 (some j)))) s) :
    Inv B (max (B.startOff (some i)) (min (B.startOff (Banded.predIdx i)) (B.endOffP1 (Banded.predIdx j))))
      (cell B i j s) := by
  unfold cell foldRange
  have hc := fun l => cell_char h (l := l) (i := i) (j := j)
  generalize B.startOff (some i) = sI at *
  generalize B.startOff (Banded.predIdx i) = tI at *
  generalize B.endOffP1 (some j) = f1 at *
  generalize B.endOffP1 (Banded.predIdx j) = f0 at *
  by_cases hab : max sI f1 < min tI f0
  · have e1 : max sI (min tI f1) = max sI f1 := by omega
    rw [e1] at hs
    have := range'_inv (Inv B) (rowStep B i j) (min tI f0 - max sI f1) (max sI f1) s hs
      (fun l h1 h2 s hs => rowStep_inv (by omega) hj
        (hc l (by omega) hi hj (by omega) (by omega) (by omega) (by omega)) s hs)
    have e2 : max sI f1 + (min tI f0 - max sI f1) = max sI (min tI f0) := by omega
    rw [e2] at this
    exact this
  · have e0 : min tI f0 - max sI f1 = 0 := by omega
    rw [e0]
    simp only [List.range'_zero, List.foldl_nil]
    have e : max sI (min tI f0) = max sI (min tI f1) := by omega
    rw [e]; exact hs

theorem startOff_pred_le {B : Banded α} (h : B.WF) {i : Nat} (hi : i ≤ B.noo) :
    B.startOff (Banded.predIdx i) ≤ B.rows := by
  have := antitone_chain (fun t => B.startOff (Banded.predIdx t)) (B.noo + 1)
    (fun t ht => Banded.startOff_antitone h t ht) 0 i (Nat.zero_le _) (by omega)
  simpa [Banded.predIdx_zero, Banded.startOff] using this

theorem inner_inv [Zero α] {B : Banded α} (h : B.WF) {i : Nat} (hi : i ≤ B.noo) (s : St α)
    (hs : Inv B (B.startOff (some i)) s) : Inv B (B.startOff (Banded.predIdx i)) (inner B s i) := by
  have hst : B.startOff (some i) ≤ B.startOff (Banded.predIdx i) := by
    have := Banded.startOff_antitone h i (by omega)
    rwa [Banded.predIdx_succ] at this
  have htr := startOff_pred_le h hi
  have key := desc_inv
    (fun L s => Inv B (max (B.startOff (some i)) (min (B.startOff (Banded.predIdx i)) L)) s)
    (fun t => B.endOffP1 (Banded.predIdx t)) (fun st j => cell B i j st) (B.noo + 1)
    (fun j hj s hs => by
      simp only [Banded.predIdx_succ] at hs
      have hf := Banded.endOffP1_antitone h j hj
      rw [Banded.predIdx_succ] at hf
      exact cell_inv h hi (by omega) hst htr hf s hs)
    s (by
      simp only [Banded.predIdx_succ, Banded.endOffP1_noo]
      have e : max (B.startOff (some i)) (min (B.startOff (Banded.predIdx i)) 0) = B.startOff (some i) := by omega
      rw [e]; exact hs)
  simp only [Banded.predIdx_zero] at key
  have e : max (B.startOff (some i)) (min (B.startOff (Banded.predIdx i)) (B.endOffP1 none))
      = B.startOff (Banded.predIdx i) := by
    have : B.endOffP1 none = B.rows := rfl
    omega
  rw [e] at key
  exact key

/-- after the double loop all rows are done -/
theorem loopSt_inv [Zero α] {B : Banded α} (h : B.WF) : Inv B B.rows (loopSt B) := by
  obtain ⟨hk, hk0⟩ := Banded.startOff_firstUpper (A := B)
  have key := desc_inv (Inv B) (fun t => B.startOff (Banded.predIdx t)) (inner B) (B.firstUpper + 1)
    (fun i hi s hs => by
      simp only [Banded.predIdx_succ] at hs
      exact inner_inv h (by omega) s hs)
    (Array.replicate (B.rows + 1) 0, #[], #[]) (by
      simp only [Banded.predIdx_succ, hk0]
      exact inv_init B)
  simp only [Banded.predIdx_zero] at key
  exact key

theorem getD_of_getElem? {β : Type} (arr : Array β) (k : Nat) (x d : β) (h : arr[k]? = some x) :
    arr.getD k d = x := by
  simp [Array.getD_eq_getD_getElem?, h]

theorem off_strict {B : Banded α} (h : B.WF) {a b : Nat} (hab : a < b) (hb : b < B.noo) :
    B.offsets.getD a 0 < B.offsets.getD b 0 :=
  Nat.lt_of_lt_of_le (h.sorted a (by omega)) (Banded.off_mono h b (a + 1) (by omega) hb)

theorem off_inj {B : Banded α} (h : B.WF) {a b : Nat} (ha : a < B.noo) (hb : b < B.noo)
    (he : B.offsets.getD a 0 = B.offsets.getD b 0) : a = b := by
  rcases Nat.lt_trichotomy a b with h1 | h1 | h1
  · have := off_strict h h1 hb; omega
  · exact h1
  · have := off_strict h h1 ha; omega

/-- the entry equation from the invariant -/
theorem entry_of_inv [Zero α] [Add α] {B : Banded α} (h : B.WF) {s : St α} (hinv : Inv B B.rows s) {i j : Nat}
    (hi : i < B.rows) (hj : j < B.cols) :
    (⟨B.rows, B.cols, s.1, s.2.1, s.2.2⟩ : Csr α).entry i j = B.entry i j := by
  obtain ⟨rp, ci, v⟩ := s
  obtain ⟨lo, hi', e0, e1, e2, e3, e4⟩ := hinv.row i hi
  simp only at e1 e2 e4
  unfold Csr.entry Banded.entry Csr.rowBegin Csr.rowEnd foldRange
  simp only
  rw [e1, Nat.add_sub_cancel_left]
  have hcsr : ∀ k, rp.getD i 0 ≤ k → k < rp.getD i 0 + (hi' - lo) →
      ∃ a, a < B.noo ∧ lo ≤ a ∧ a < hi' ∧ k = rp.getD i 0 + (a - lo) ∧ ci.getD k B.cols = col B i a ∧
        v.getD k 0 = vv B i a ∧ B.rows ≤ i + B.offsets.getD a 0 + 1 := by
    intro k h1 h2
    have ha1 : lo ≤ lo + (k - rp.getD i 0) := by omega
    have ha2 : lo + (k - rp.getD i 0) < hi' := by omega
    have hk := e4 _ ha1 ha2
    have ek : rp.getD i 0 + (lo + (k - rp.getD i 0) - lo) = k := by omega
    rw [ek] at hk
    have hm := (e3 _ (by omega)).mpr ⟨ha1, ha2⟩
    exact ⟨lo + (k - rp.getD i 0), by omega, ha1, ha2, by omega, getD_of_getElem? _ _ _ _ hk.1,
      getD_of_getElem? _ _ _ _ hk.2, hm.1⟩
  by_cases hex : ∃ a, a < B.noo ∧ i + B.offsets.getD a 0 + 1 = j + B.rows
  · obtain ⟨a0, ha0, hm⟩ := hex
    have hin : inM B i a0 := ⟨by omega, by omega⟩
    obtain ⟨hl1, hl2⟩ := (e3 a0 ha0).mp hin
    rw [foldl_unique (fun a => i + B.offsets.getD a 0 + 1 = j + B.rows) (fun k => B.val.getD (k * B.rows + i) 0) a0
      (B.noo - 0) 0 0 (fun a _ h2 hp => off_inj h (by omega) ha0 (by omega)),
      if_pos ⟨⟨by omega, by omega⟩, hm⟩]
    obtain ⟨a, _, q1, q2, q3, q4, q5, _⟩ := hcsr (rp.getD i 0 + (a0 - lo)) (by omega) (by omega)
    have : a = a0 := by omega
    subst this
    rw [foldl_unique (fun k => ci.getD k B.cols = j) (fun k => v.getD k 0) (rp.getD i 0 + (a - lo))
      (hi' - lo) (rp.getD i 0) 0 (fun k h1 h2 hp => by
        obtain ⟨b, r0, r1, r2, r3, r4, _, r6⟩ := hcsr k h1 h2
        rw [r4] at hp
        unfold col at hp
        have : b = a := off_inj h r0 ha0 (by omega)
        rw [r3, this]),
      if_pos ⟨⟨by omega, by omega⟩, by rw [q4]; unfold col; omega⟩, q5]
    rfl
  · rw [foldl_unique (fun a => i + B.offsets.getD a 0 + 1 = j + B.rows) (fun k => B.val.getD (k * B.rows + i) 0) 0
      (B.noo - 0) 0 0 (fun a _ h2 hp => absurd ⟨a, by omega, hp⟩ hex),
      if_neg (fun hc => hex ⟨0, by omega, hc.2⟩)]
    have hno : ∀ k, rp.getD i 0 ≤ k → k < rp.getD i 0 + (hi' - lo) → ¬ ci.getD k B.cols = j := by
      intro k h1 h2 hp
      obtain ⟨b, r0, r1, r2, r3, r4, _, r6⟩ := hcsr k h1 h2
      rw [r4] at hp
      unfold col at hp
      exact hex ⟨b, r0, by omega⟩
    rw [foldl_unique (fun k => ci.getD k B.cols = j) (fun k => v.getD k 0) (rp.getD i 0)
      (hi' - lo) (rp.getD i 0) 0 (fun k h1 h2 hp => absurd hp (hno k h1 h2)),
      if_neg (fun hc => hno _ hc.1.1 hc.1.2 hc.2)]

theorem wf_of_inv [Zero α] {B : Banded α} {s : St α} (hinv : Inv B B.rows s) :
    (⟨B.rows, B.cols, s.1, s.2.1, s.2.2⟩ : Csr α).wf = true := by
  obtain ⟨rp, ci, v⟩ := s
  unfold Csr.wf
  simp only [Bool.and_eq_true, beq_iff_eq, List.all_eq_true, List.mem_range, decide_eq_true_eq, Array.all_eq_true]
  have h1 := hinv.rpSize
  have h2 := hinv.vSize
  have h3 := hinv.rp0
  have h4 := hinv.rpL
  simp only at h1 h2 h3 h4
  refine ⟨⟨⟨⟨⟨h1, h3⟩, by omega⟩, by omega⟩, ?_⟩, ?_⟩
  · intro t ht
    obtain ⟨lo, hi', _, e1, _⟩ := hinv.row t ht
    simp only at e1
    omega
  · intro k hk
    exact hinv.colLt k _ (Array.getElem?_eq_getElem hk)

theorem sorted_of_inv [Zero α] {B : Banded α} (h : B.WF) {s : St α} (hinv : Inv B B.rows s) :
    (⟨B.rows, B.cols, s.1, s.2.1, s.2.2⟩ : Csr α).sortedRows = true := by
  obtain ⟨rp, ci, v⟩ := s
  unfold Csr.sortedRows Csr.rowBegin Csr.rowEnd
  simp only [List.all_eq_true, List.mem_range, decide_eq_true_eq, List.mem_range'_1]
  intro t ht k hk
  obtain ⟨lo, hi', e0, e1, e2, e3, e4⟩ := hinv.row t ht
  simp only at e1 e2 e4
  have ha1 : lo ≤ lo + (k - rp.getD t 0) := by omega
  have ha2 : lo + (k - rp.getD t 0) + 1 < hi' := by omega
  have hk1 := (e4 _ ha1 (by omega)).1
  have hk2 := (e4 (lo + (k - rp.getD t 0) + 1) (by omega) ha2).1
  have ek1 : rp.getD t 0 + (lo + (k - rp.getD t 0) - lo) = k := by omega
  have ek2 : rp.getD t 0 + (lo + (k - rp.getD t 0) + 1 - lo) = k + 1 := by omega
  rw [ek1] at hk1
  rw [ek2] at hk2
  rw [getD_of_getElem? _ _ _ _ hk1, getD_of_getElem? _ _ _ _ hk2]
  have hm := (e3 (lo + (k - rp.getD t 0)) (by omega)).mpr ⟨ha1, by omega⟩
  have hs := off_strict h (by omega : lo + (k - rp.getD t 0) < lo + (k - rp.getD t 0) + 1) (by omega)
  unfold inM at hm
  unfold col
  omega

theorem entry_zero [Zero α] [Add α] {B : Banded α} (h : B.WF) (h0 : B.usedElements = 0) {i j : Nat}
    (hi : i < B.rows) (hj : j < B.cols) : B.entry i j = 0 := by
  unfold Banded.entry foldRange
  have hno : ∀ a, a < B.noo → ¬ (i + B.offsets.getD a 0 + 1 = j + B.rows) := by
    intro a ha hp
    have h1 := Banded.band_empty_of_usedElements_zero h0 ha
    have h2 := h.offLe a ha
    omega
  rw [foldl_unique (fun a => i + B.offsets.getD a 0 + 1 = j + B.rows) (fun k => B.val.getD (k * B.rows + i) 0) 0
    (B.noo - 0) 0 0 (fun a _ h2 hp => absurd hp (hno a (by omega))),
    if_neg (fun hc => hno 0 (by omega) hc.2)]

end BandedAux

open BandedAux in
theorem banded_toCsr_spec {α : Type} [Zero α] [Add α] (B : Banded α) (h : B.wf = true) :
    B.toCsr.rows = B.rows ∧ B.toCsr.cols = B.cols ∧ B.toCsr.valid = true ∧
    ∀ i j, i < B.rows → j < B.cols → B.toCsr.entry i j = B.entry i j := by
  have hw := (Banded.wf_iff B).mp h
  rw [toCsr_eq]
  by_cases h0 : B.usedElements = 0
  · rw [if_pos h0]
    refine ⟨rfl, rfl, rfl, ?_⟩
    intro i j hi hj
    rw [entry_zero hw h0 hi hj]
    simp [Csr.entry, Csr.entryFree, Csr.rowBegin, Csr.rowEnd, foldRange]
  · rw [if_neg h0]
    have hinv := loopSt_inv hw
    refine ⟨rfl, rfl, ?_, fun i j hi hj => entry_of_inv hw hinv hi hj⟩
    unfold Csr.valid
    rw [wf_of_inv hinv, sorted_of_inv hw hinv]
    simp

end C02L
