import FeatModel.Lemmas.C03Ops
import FeatModel.Lemmas.C04
/-! BCSR members and the matrix-level vector kernels (axpy, scale, norms, extreme elements) of property C03. -/
set_option linter.unusedSectionVars false
namespace FeatModel.LA.MatAlg
open FeatModel.LA FeatModel.Vec

/-- `allow_incomplete = false` and a normal return: every column of every merged row exists in the row of X
    (nothing was dropped) -/
theorem products_strict_subset {β γ : Type} (n : Nat) (xrow : Nat → Row β) (ts : Nat → List ((β → γ → β) × Row γ))
    (R : List (Row β)) (h : forRows (fun i => mergeMany false (xrow i) (ts i)) (List.range n) = .ok R) :
    ∀ i, i < n → ∀ t ∈ ts i, ∀ c ∈ rowCols t.2, c ∈ rowCols (xrow i) := by
  intro i hi t ht c hc
  obtain ⟨_, hk⟩ := forRows_ok _ _ R h
  obtain ⟨r, _, hf⟩ := hk i (by simpa using hi)
  simp only [List.getElem_range] at hf
  exact mergeMany_strict_ok_subset (ts i) (xrow i) r hf t ht c hc

section BcsrProducts
variable {α : Type} [Zero α] [Add α] [Mul α]

/-- the sequence of updates row `i` of X receives in `add_double_mat_product(BCSR, BCSR, BCSR)`:
    for every stored `D_ik`, every stored `A_kl`: `X_ij += ((D_ik · A_kl) · alpha) · B_lj` (block products in this order) -/
def tDMMb (alpha : α) (n : Nat) (D A B : Bcsr α) (i : Nat) : List ((List α → List α → List α) × Row (List α)) :=
  (bcsrRow D i).flatMap fun kd => (bcsrRow A kd.1).map fun la =>
    ((fun vx vb => blockAdd vx (blockMul n ((blockMul n kd.2 la.2).map (· * alpha)) vb)), bcsrRow B la.1)

/-- `add_double_mat_product(CSR, BCSR, CSR)`: `X_ij += (((alpha · d_ik) · A_kl) · b_lj)` with scalar `d`, `b` -/
def tDMMc (alpha : α) (D : Csr α) (A : Bcsr α) (B : Csr α) (i : Nat) : List ((List α → α → List α) × Row α) :=
  (csrRow D i).flatMap fun kd => (bcsrRow A kd.1).map fun la =>
    ((fun vx vb => blockAdd vx ((la.2.map ((alpha * kd.2) * ·)).map (· * vb))), csrRow B la.1)

theorem bcsrAddDoubleMatMat_eq (allow : Bool) (alpha : α) (X D A B : Bcsr α) :
    bcsrAddDoubleMatMat allow alpha X D A B =
      if X.bh != X.bw then .error .dims
      else if X.rows != D.rows || D.cols != A.rows || A.cols != B.rows || B.cols != X.cols then .error .dims
      else forRows (fun i => mergeMany allow (bcsrRow X i) (tDMMb alpha X.bh D A B i)) (List.range X.rows) := rfl

theorem bcsrAddDoubleCsrBcsrCsr_eq (allow : Bool) (alpha : α) (X : Bcsr α) (D : Csr α) (A : Bcsr α) (B : Csr α) :
    bcsrAddDoubleCsrBcsrCsr allow alpha X D A B =
      if X.bh != X.bw then .error .dims
      else if X.rows != D.rows || D.cols != A.rows || A.cols != B.rows || B.cols != X.cols then .error .dims
      else forRows (fun i => mergeMany allow (bcsrRow X i) (tDMMc alpha D A B i)) (List.range X.rows) := rfl

theorem tDMMb_sorted (alpha : α) (n : Nat) (D A B : Bcsr α) (hB : ∀ k, SortedCols (bcsrRow B k)) (i : Nat) :
    ∀ t ∈ tDMMb alpha n D A B i, SortedCols t.2 := by
  intro t ht
  simp only [tDMMb, List.mem_flatMap, List.mem_map] at ht
  obtain ⟨kd, _, la, _, rfl⟩ := ht
  exact hB _

theorem tDMMc_sorted (alpha : α) (D : Csr α) (A : Bcsr α) (B : Csr α) (hB : ∀ k, SortedCols (csrRow B k)) (i : Nat) :
    ∀ t ∈ tDMMc alpha D A B i, SortedCols t.2 := by
  intro t ht
  simp only [tDMMc, List.mem_flatMap, List.mem_map] at ht
  obtain ⟨kd, _, la, _, rfl⟩ := ht
  exact hB _

/-- the value of one block of X after the BCSR·BCSR·BCSR product, as the two nested loops over `D_i` and `A_k` -/
theorem applyMany_tDMMb (alpha : α) (n : Nat) (D A B : Bcsr α) (i : Nat) (p : Nat × List α) :
    applyMany (tDMMb alpha n D A B i) p = (p.1,
      (bcsrRow D i).foldl (fun acc kd => (bcsrRow A kd.1).foldl (fun acc la =>
        (rowGet (bcsrRow B la.1) p.1).elim acc
          (fun vb => blockAdd acc (blockMul n ((blockMul n kd.2 la.2).map (· * alpha)) vb))) acc) p.2) := by
  apply Prod.ext
  · exact applyMany_fst _ p
  · rw [applyMany_snd]
    simp only [tDMMb, List.foldl_flatMap, List.foldl_map]

theorem applyMany_tDMMc (alpha : α) (D : Csr α) (A : Bcsr α) (B : Csr α) (i : Nat) (p : Nat × List α) :
    applyMany (tDMMc alpha D A B i) p = (p.1,
      (csrRow D i).foldl (fun acc kd => (bcsrRow A kd.1).foldl (fun acc la =>
        (rowGet (csrRow B la.1) p.1).elim acc
          (fun vb => blockAdd acc ((la.2.map ((alpha * kd.2) * ·)).map (· * vb)))) acc) p.2) := by
  apply Prod.ext
  · exact applyMany_fst _ p
  · rw [applyMany_snd]
    simp only [tDMMc, List.foldl_flatMap, List.foldl_map]

end BcsrProducts

section BcsrRowOps
variable {α : Type} [CommRing α]

theorem getD_map_range (n : Nat) (f : Nat → α) (t : Nat) (ht : t < n) : ((List.range n).map f).getD t 0 = f t := by
  simp [List.getD, ht]

theorem blockAt_getD (A : Bcsr α) (k t : Nat) (ht : t < A.bh * A.bw) :
    (blockAt A k).getD t 0 = A.val.getD (k * A.bh * A.bw + t) 0 := by
  unfold blockAt
  exact getD_map_range _ _ t ht

/-- `scale_rows` / `scale_cols` (BCSR) when `x` has the layout and block shape of `this`: element `(irow, icol)` of
    every block is multiplied by `s[row·bh + irow]` resp. `s[col·bw + icol]` -/
theorem bcsrScaleRC_eq (byCols : Bool) (T X : Bcsr α) (s : Array α) (hp : X.rowPtr = T.rowPtr) (hc : X.colInd = T.colInd)
    (hh : X.bh = T.bh) (hw : X.bw = T.bw) :
    bcsrScaleRC byCols T X.val s = (List.range T.rows).map fun row => (bcsrRow X row).map fun p =>
      (p.1, (List.range (T.bh * T.bw)).map fun t => p.2.getD t 0 *
        (if byCols then s.getD (p.1 * T.bw + t % T.bw) 0 else s.getD (row * T.bh + t / T.bw) 0)) := by
  unfold bcsrScaleRC bcsrRow
  simp only [hp, hc, List.map_map]
  apply List.map_congr_left
  intro row _
  apply List.map_congr_left
  intro p _
  simp only [Function.comp]
  congr 1
  apply List.map_congr_left
  intro t ht
  rw [blockAt_getD X p t (by rw [hh, hw]; exact List.mem_range.mp ht), hh, hw]

/-- `lump_rows` (BCSR, any block shape): scalar row `i` of block row `row` = the sum of row `i` of every stored block -/
theorem bcsrLump_eq (A : Bcsr α) :
    bcsrLump A = (List.range A.rows).flatMap fun row => (List.range A.bh).map fun i =>
      ((bcsrRow A row).map fun p => ((List.range A.bw).map fun j => p.2.getD (i * A.bw + j) 0).sum).sum := by
  unfold bcsrLump
  simp only [foldl_add_eq_sum, zero_add]

/-- scaled `row_norm2sqr` (BCSR): `Σ_blocks Σ_j scal[bw·col + j] · v²` -/
theorem bcsrRowNorm2SqrScaled_eq (A : Bcsr α) (sc : Array α) :
    bcsrRowNorm2Sqr A (some sc) = (List.range A.rows).flatMap fun row => (List.range A.bh).map fun i =>
      ((bcsrRow A row).map fun p => ((List.range A.bw).map fun j =>
        sc.getD (A.bw * p.1 + j) 0 * (p.2.getD (i * A.bw + j) 0 * p.2.getD (i * A.bw + j) 0)).sum).sum := by
  unfold bcsrRowNorm2Sqr
  simp only [foldl_add_eq_sum, zero_add]

end BcsrRowOps

/-! ### the vector kernels on the value array: axpy, scale, Frobenius norm, extreme elements -/
section ValueArray
variable {α : Type} [CommRing α]

theorem axpyK_getD (ali : Bool) (a : α) (r x : List α) (hal : ali = true → x = r) (hl : r.length = x.length)
    (p : Nat) (hp : p < r.length) : (axpyK ali a r x).getD p 0 = r.getD p 0 + a * x.getD p 0 := by
  cases ali with
  | true =>
    have := hal rfl; subst this
    simp [axpyK, List.getD, hp]; ring
  | false =>
    simp [axpyK, List.getD, hp, hl ▸ hp]

theorem scaleK_getD (ali : Bool) (a : α) (r x : List α) (hal : ali = true → x = r) (hl : r.length = x.length)
    (p : Nat) (hp : p < r.length) : (scaleK ali a r x).getD p 0 = x.getD p 0 * a := by
  cases ali with
  | true =>
    have := hal rfl; subst this
    simp [scaleK, List.getD, hp]
  | false =>
    simp [scaleK, List.getD, hp, hl ▸ hp]

end ValueArray

end FeatModel.LA.MatAlg
