import FeatModel.Model.Poly
import Mathlib.Tactic.Ring
import Mathlib.Algebra.Ring.Rat
/-! Soundness of the polynomial normal form: equal normal forms ⇒ equal values at every point; linearity of `eval`. -/
namespace FeatModel.Poly

theorem eval_nil (x : Nat → Rat) : eval x [] = 0 := rfl

theorem eval_cons (x : Nat → Rat) (t : Rat × Mono) (p : Poly) :
    eval x (t :: p) = t.1 * monoEval x 0 t.2 + eval x p := rfl

theorem eval_insertTerm (x : Nat → Rat) (c : Rat) (m : Mono) (p : Poly) :
    eval x (insertTerm c m p) = c * monoEval x 0 m + eval x p := by
  induction p with
  | nil => simp [insertTerm, eval]
  | cons t p ih =>
    unfold insertTerm
    by_cases h : m = t.2
    · simp only [h, if_true]
      by_cases h0 : c + t.1 = 0
      · simp only [h0, if_true, eval_cons]
        have : c * monoEval x 0 t.2 + t.1 * monoEval x 0 t.2 = (c + t.1) * monoEval x 0 t.2 := by ring
        rw [← add_assoc, this, h0]; ring
      · simp only [h0, if_false, eval_cons]; ring
    · simp only [h, if_false]
      by_cases hl : monoLt m t.2 = true
      · simp only [hl, if_true, eval_cons]
      · have hl' : monoLt m t.2 = false := by simpa using hl
        simp only [hl', Bool.false_eq_true, if_false, eval_cons, ih]; ring

theorem eval_normalize (x : Nat → Rat) (p : Poly) : eval x (normalize p) = eval x p := by
  induction p with
  | nil => rfl
  | cons t p ih =>
    unfold normalize
    by_cases h : t.1 = 0
    · simp only [h, if_true, eval_cons, ih]; ring
    · simp only [h, if_false, eval_insertTerm, eval_cons, ih]

theorem equiv_sound {p q : Poly} (h : equiv p q = true) (x : Nat → Rat) : eval x p = eval x q := by
  have : normalize p = normalize q := by simpa [equiv] using h
  rw [← eval_normalize x p, ← eval_normalize x q, this]

theorem eval_append (x : Nat → Rat) (p q : Poly) : eval x (p ++ q) = eval x p + eval x q := by
  induction p with
  | nil => simp [eval]
  | cons t p ih => simp only [List.cons_append, eval_cons, ih]; ring

theorem eval_add (x : Nat → Rat) (p q : Poly) : eval x (add p q) = eval x p + eval x q := eval_append x p q

theorem eval_smul (x : Nat → Rat) (c : Rat) (p : Poly) : eval x (smul c p) = c * eval x p := by
  induction p with
  | nil => simp [smul, eval]
  | cons t p ih =>
    have : smul c (t :: p) = (c * t.1, t.2) :: smul c p := rfl
    rw [this, eval_cons, eval_cons, ih]; ring

theorem monoEval_replicate_zero (x : Nat → Rat) (k n : Nat) : monoEval x k (List.replicate n 0) = 1 := by
  induction n generalizing k with
  | zero => rfl
  | succ n ih => simp [List.replicate_succ, monoEval, rpow, ih]

theorem eval_one (x : Nat → Rat) (n : Nat) : eval x [(1, List.replicate n 0)] = 1 := by
  simp [eval, monoEval_replicate_zero]

end FeatModel.Poly
