import FeatModel.Model.Solver.Precond
import FeatModel.Model.Solver.Ilu
import FeatModel.Model.Solver.Blocked
import FeatModel.Model.Solver.History
import FeatModel.Lemmas.C08Sweeps
import FeatModel.Lemmas.C08Ilu
import FeatModel.Lemmas.C08IluApply
import FeatModel.Lemmas.C08Linear2
/-!
C08: the in-place calls `apply(v, v)` of the sweeping preconditioners (SOR, SSOR forward insertion, their blocked
versions, `solve_il` of ILU) compute exactly what the out-of-place calls compute: row `i` writes only component `i`
and reads its right-hand side only at component `i`, which no earlier row has touched.
-/
namespace FeatModel.Solver
open FeatModel.LA

namespace Alias

variable {γ : Type}

/-- reading with a default after a write at another index -/
theorem getD_setIfInBounds_ne' (d : γ) (x : Array γ) (i k : Nat) (v : γ) (h : k ≠ i) :
    (x.setIfInBounds i v).getD k d = x.getD k d := by
  rw [Array.getD_eq_getD_getElem?, Array.getD_eq_getD_getElem?, Array.getElem?_setIfInBounds_ne (Ne.symm h)]

/-- rows `0..m-1` of an out-of-place sweep leave the components `≥ m` untouched -/
theorem foldOut_untouched (d : γ) (f : Array γ → Array γ → Nat → Array γ)
    (hwrite : ∀ pin out i k, k ≠ i → (f pin out i).getD k d = out.getD k d) (x : Array γ) (m : Nat) :
    ∀ k, m ≤ k → ((List.range m).foldl (f x) x).getD k d = x.getD k d := by
  induction m with
  | zero => intro k _; rfl
  | succ m ih =>
    intro k hk
    rw [List.range_succ, List.foldl_append]
    simp only [List.foldl_cons, List.foldl_nil]
    rw [hwrite _ _ _ _ (by omega)]
    exact ih k (by omega)

/-- the generic aliasing argument: a row step that depends on its right-hand side `pin` only through `pin[i]` and
    writes only component `i` gives the same ascending sweep whether `pin` is a separate copy or the output itself -/
theorem foldIn_eq (d : γ) (f : Array γ → Array γ → Nat → Array γ)
    (hdep : ∀ pin pin' out i, pin.getD i d = pin'.getD i d → f pin out i = f pin' out i)
    (hwrite : ∀ pin out i k, k ≠ i → (f pin out i).getD k d = out.getD k d) (x : Array γ) (m : Nat) :
    (List.range m).foldl (fun out i => f out out i) x = (List.range m).foldl (f x) x := by
  induction m with
  | zero => rfl
  | succ m ih =>
    rw [List.range_succ, List.foldl_append, List.foldl_append, ih]
    simp only [List.foldl_cons, List.foldl_nil]
    exact hdep _ _ _ _ (foldOut_untouched d f hwrite x m m (Nat.le_refl m))

end Alias

/-! ### scalar SOR / SSOR / `solve_il` -/

section scalar
variable {α : Type}

/-- 1. in-place SOR sweep = out-of-place SOR sweep (no hypotheses) -/
theorem sorSweepIn_eq [Add α] [Sub α] [Mul α] [Div α] [Zero α] (ω : α) (A : Csr α) (x : Array α) :
    sorSweepIn ω A x = sorSweep ω A x := by
  unfold sorSweepIn sorSweep
  refine Alias.foldIn_eq (0 : α) (sorStep ω A) ?_ ?_ x A.rows
  · intro pin pin' out i h
    simp only [sorStep, h]
  · intro pin out i k h
    simp only [sorStep]
    exact Alias.getD_setIfInBounds_ne' _ _ _ _ _ h

/-- 2. in-place SSOR forward insertion = out-of-place one (no hypotheses) -/
theorem ssorFwdIn_eq [Add α] [Sub α] [Mul α] [Div α] [Zero α] (ω : α) (A : Csr α) (x : Array α) :
    ssorFwdIn ω A x = ssorFwd ω A x := by
  unfold ssorFwdIn ssorFwd
  refine Alias.foldIn_eq (0 : α) (ssorFwdStep ω A) ?_ ?_ x A.rows
  · intro pin pin' out i h
    simp only [ssorFwdStep, h]
  · intro pin out i k h
    simp only [ssorFwdStep]
    exact Alias.getD_setIfInBounds_ne' _ _ _ _ _ h

/-- 4. `solve_il(x, x)` = `solve_il(x, b)` with `b` a copy of `x` (no hypotheses) -/
theorem solveIlIn_eq [Zero α] [Sub α] [Mul α] (L : Csr α) (x : Array α) : solveIlIn L x = solveIl L x x := by
  unfold solveIlIn solveIl
  refine Alias.foldIn_eq (0 : α) (solveIlStep L) ?_ ?_ x L.rows
  · intro pin pin' out i h
    simp only [solveIlStep, h]
  · intro pin out i k h
    simp only [solveIlStep]
    exact Alias.getD_setIfInBounds_ne' _ _ _ _ _ h

end scalar

/-! ### blocked SOR / SSOR -/

namespace Blk
variable {α β γ : Type}

/-- 3a. blocked in-place SOR sweep = out-of-place one (generic block operations, no algebra) -/
theorem sorSweepIn_eq (o : Ops α β γ) (ω : α) (A : Csr β) (x : Array γ) :
    sorSweepIn o ω A x = sorSweep o ω A x := by
  unfold sorSweepIn sorSweep
  refine Alias.foldIn_eq o.zero (sorStep o ω A) ?_ ?_ x A.rows
  · intro pin pin' out i h
    simp only [sorStep, h]
  · intro pin out i k h
    simp only [sorStep]
    exact Alias.getD_setIfInBounds_ne' _ _ _ _ _ h

/-- 3b. blocked in-place SSOR forward insertion = out-of-place one -/
theorem ssorFwdIn_eq (o : Ops α β γ) (ω : α) (A : Csr β) (x : Array γ) :
    ssorFwdIn o ω A x = ssorFwd o ω A x := by
  unfold ssorFwdIn ssorFwd
  refine Alias.foldIn_eq o.zero (ssorFwdStep o ω A) ?_ ?_ x A.rows
  · intro pin pin' out i h
    simp only [ssorFwdStep, h]
  · intro pin out i k h
    simp only [ssorFwdStep]
    exact Alias.getD_setIfInBounds_ne' _ _ _ _ _ h

end Blk

/-! ### the solver object: `apply(v, v)` against `apply(w, v)` -/

section object
variable {α : Type}

/-- 5a. for every kind except the matrix preconditioner (whose `apply` refuses aliased vectors) and ILU (whose
    out-of-place result is only determined under the well-formedness hypotheses, see `applyInCore_ilu`) the in-place
    call gives the same result (same abort behaviour, same vector) as the out-of-place call -/
theorem applyInCore_eq [Zero α] [One α] [Add α] [Sub α] [Mul α] [Div α] [Neg α] [OfNat α 777] (tiny : α → Bool)
    (c : Cfg α) (A : Csr α) (st : PState α) (x : Array α) (hm : c.kind ≠ .matrix) (hilu : ∀ p, c.kind ≠ .ilu p) :
    applyInCore tiny c A st x = applyCore tiny c A st x := by
  cases hk : c.kind with
  | jacobi => simp only [applyInCore, hk]
  | sor => simp only [applyInCore, applyCore, hk, sorApply, sorSweepIn_eq]
  | ssor => simp only [applyInCore, applyCore, hk, ssorApply, ssorSweep, ssorFwdIn_eq]
  | poly m => simp only [applyInCore, hk]
  | ilu p => exact absurd hk (hilu p)
  | matrix => exact absurd hk hm
  | scale => simp only [applyInCore, hk]
  | diagonal => simp only [applyInCore, hk]

/-- 5c. the same with the correction filter of a non-unit filter type on top -/
theorem applyInStep_eq [Zero α] [One α] [Add α] [Sub α] [Mul α] [Div α] [Neg α] [OfNat α 777] (tiny : α → Bool)
    (c : Cfg α) (A : Csr α) (st : PState α) (x : Array α) (hm : c.kind ≠ .matrix) (hilu : ∀ p, c.kind ≠ .ilu p) :
    applyInStep tiny c A st x = applyStep tiny c A st x := by
  unfold applyInStep applyStep
  rw [applyInCore_eq tiny c A st x hm hilu]

/-- 5b. ILU(p): with a well-formed structure, matching data sizes, non-zero stored inverse pivots and a vector of
    the right size, the in-place call and the out-of-place call (into a fresh vector holding the sentinel) both
    succeed with vectors of size `n` that agree in every component -/
theorem applyInCore_ilu [Field α] (tiny : α → Bool) (c : Cfg α) (A : Csr α) (st : PState α) (x : Array α) (p : Int)
    (hk : c.kind = .ilu p) (s : IluSym) (hS : st.iluS = some s) (hs : s.wf = true)
    (hl : st.iluN.dataL.size = s.ciL.size) (hu : st.iluN.dataU.size = s.ciU.size)
    (hd : ∀ i, i < s.n → st.iluN.dataD.getD i 0 ≠ 0) (hx : x.size = s.n) :
    ∃ yIn yOut : Array α, applyInCore tiny c A st x = .ok yIn ∧ applyCore tiny c A st x = .ok yOut ∧
      yIn.size = s.n ∧ yOut.size = s.n ∧ ∀ i, i < s.n → yIn.getD i 0 = yOut.getD i 0 := by
  have hsent : (sentinel x.size : Array α).size = s.n := by simp [sentinel, hx]
  refine ⟨filterCor c.fidx (iluSolve s st.iluN x x), filterCor c.fidx (iluSolve s st.iluN x (sentinel x.size)),
    ?_, ?_, ?_, ?_, ?_⟩
  · simp only [applyInCore, hk, hS, solveIlIn_eq, iluSolve]
  · simp only [applyCore, hk, hS]
  · rw [filterCor_size]; exact (iluSolve_spec s hs st.iluN hl hu hd x x hx hx).1
  · rw [filterCor_size]; exact (iluSolve_spec s hs st.iluN hl hu hd x _ hx hsent).1
  · intro i hi
    rw [filterCor_getD, filterCor_getD, iluSolve_indep_x0 s hs st.iluN hl hu hd x x (sentinel x.size) hx hx hsent i hi]

end object

end FeatModel.Solver
