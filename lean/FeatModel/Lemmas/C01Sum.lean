import Mathlib.Algebra.BigOperators.Intervals
import Mathlib.Algebra.BigOperators.Ring.Finset
import Mathlib.Tactic.Ring
import FeatModel.Model.LA.Vec
/-! Sum lemmas for the `foldRange` loops of the C01 kernels. -/
open Finset
namespace FeatModel.LA

variable {α : Type} [CommSemiring α]

theorem foldl_range'_add (f : Nat → α) : ∀ (n s : Nat) (init : α),
    (List.range' s n).foldl (fun acc k => acc + f k) init = init + ∑ k ∈ range n, f (s + k)
  | 0, s, init => by simp
  | n + 1, s, init => by
    rw [List.range'_succ, List.foldl_cons, foldl_range'_add f n (s + 1) (init + f s), Finset.sum_range_succ']
    have : ∀ k, f (s + 1 + k) = f (s + (k + 1)) := fun k => by congr 1; omega
    simp only [this, Nat.add_zero]
    ring

/-- `for (k = s; k < e; ++k) acc += f k` -/
theorem foldRange_add (f : Nat → α) (s e : Nat) (init : α) :
    foldRange s e (fun acc k => acc + f k) init = init + ∑ k ∈ Ico s e, f k := by
  unfold foldRange
  rw [foldl_range'_add, Finset.sum_Ico_eq_sum_range]

/-- `for (k = s; k < e; ++k) if (p k) acc += f k` -/
theorem foldRange_add_if (p : Nat → Prop) [DecidablePred p] (f : Nat → α) (s e : Nat) (init : α) :
    foldRange s e (fun acc k => if p k then acc + f k else acc) init
      = init + ∑ k ∈ Ico s e, (if p k then f k else 0) := by
  rw [← foldRange_add]
  congr 1
  funext acc k
  split <;> simp

/-- a loop whose every step adds `d k` to component `j` (and keeps the size) adds `∑ d k` in total -/
theorem foldl_range'_acc (g : Array α → Nat → Array α) (d : Nat → α) (j : Nat)
    (hsz : ∀ r i, (g r i).size = r.size)
    (hstep : ∀ r i, j < r.size → (g r i).getD j 0 = r.getD j 0 + d i) :
    ∀ (n s : Nat) (r : Array α), j < r.size →
      ((List.range' s n).foldl g r).getD j 0 = r.getD j 0 + ∑ k ∈ range n, d (s + k)
  | 0, s, r, _ => by simp
  | n + 1, s, r, hj => by
    rw [List.range'_succ, List.foldl_cons,
      foldl_range'_acc g d j hsz hstep n (s + 1) (g r s) (by rw [hsz]; exact hj), hstep r s hj,
      Finset.sum_range_succ']
    have : ∀ k, d (s + 1 + k) = d (s + (k + 1)) := fun k => by congr 1; omega
    simp only [this, Nat.add_zero]
    ring

omit [CommSemiring α] in
theorem foldl_range'_size (g : Array α → Nat → Array α) (hsz : ∀ r i, (g r i).size = r.size) :
    ∀ (n s : Nat) (r : Array α), ((List.range' s n).foldl g r).size = r.size
  | 0, s, r => by simp
  | n + 1, s, r => by
    rw [List.range'_succ, List.foldl_cons, foldl_range'_size g hsz n (s + 1) (g r s), hsz]

theorem foldRange_acc (g : Array α → Nat → Array α) (d : Nat → α) (j : Nat)
    (hsz : ∀ r i, (g r i).size = r.size)
    (hstep : ∀ r i, j < r.size → (g r i).getD j 0 = r.getD j 0 + d i)
    (s e : Nat) (r : Array α) (hj : j < r.size) :
    (foldRange s e g r).getD j 0 = r.getD j 0 + ∑ k ∈ Ico s e, d k := by
  unfold foldRange
  rw [foldl_range'_acc g d j hsz hstep _ _ r hj, Finset.sum_Ico_eq_sum_range]

omit [CommSemiring α] in
theorem foldRange_size (g : Array α → Nat → Array α) (hsz : ∀ r i, (g r i).size = r.size) (s e : Nat)
    (r : Array α) : (foldRange s e g r).size = r.size := by
  unfold foldRange
  exact foldl_range'_size g hsz _ _ r

/-- `r[c] += v` seen from component `j` -/
theorem getD_modify_add (r : Array α) (c j : Nat) (v : α) (hj : j < r.size) :
    (r.modify c (· + v)).getD j 0 = r.getD j 0 + (if c = j then v else 0) := by
  have hj' : j < (r.modify c (· + v)).size := by rw [Array.size_modify]; exact hj
  rw [Array.getD_eq_getD_getElem?, Array.getD_eq_getD_getElem?, Array.getElem?_eq_getElem hj',
    Array.getElem?_eq_getElem hj, Array.getElem_modify]
  split <;> simp

theorem getD_map (r : Array α) (f : α → α) (j : Nat) (hj : j < r.size) : (r.map f).getD j 0 = f (r.getD j 0) := by
  simp [Array.getD, hj]

theorem getD_replicate (n j : Nat) (hj : j < n) : (Array.replicate n (0 : α)).getD j 0 = 0 := by
  simp [Array.getD, hj]

theorem getD_ofFn {n : Nat} (f : Fin n → α) (j : Nat) (hj : j < n) : (Array.ofFn f).getD j 0 = f ⟨j, hj⟩ := by
  simp [Array.getD, hj]

omit [CommSemiring α] in
theorem initR_size [Zero α] (tiny : α → Bool) (n : Nat) (b : α) (r y : Array α) (ali : Bool)
    (hr : r.size = n) (hy : y.size = n) : (initR tiny n b r y ali).size = n := by
  unfold initR
  split
  · simp
  · split <;> assumption

theorem initR_getD (tiny : α → Bool) (n : Nat) (b : α) (r y : Array α) (ali : Bool) (i : Nat) (hi : i < n) :
    (initR tiny n b r y ali).getD i 0 = if tiny b then 0 else (if ali then r else y).getD i 0 := by
  unfold initR
  split
  · exact getD_replicate n i hi
  · split <;> rfl

end FeatModel.LA
