import FeatModel.Lemmas.C01Csr
import FeatModel.Lemmas.C01Banded
import FeatModel.Lemmas.C01Cscr
import FeatModel.Lemmas.C01Bcsr
import FeatModel.Model.LA.Index32
/-! the unbounded-`Nat` index model is faithful for 32-bit indices under explicit size hypotheses -/
namespace FeatModel.LA

theorem trunc32_of_lt {n : Nat} (h : n < 2 ^ 32) : trunc32 n = n := Nat.mod_eq_of_lt h

theorem map_trunc32_eq (a : Array Nat) (h : ∀ i, (hi : i < a.size) → a[i] < 2 ^ 32) : a.map trunc32 = a := by
  apply Array.ext
  · simp
  · intro i h1 h2
    simp only [Array.getElem_map]
    exact trunc32_of_lt (h i h2)

namespace Csr
variable {α : Type}

theorem store32_eq {A : Csr α} (h : A.WF) (hnnz : A.val.size < 2 ^ 32) (hcols : A.cols ≤ 2 ^ 32) : A.store32 = A := by
  have h1 : A.rowPtr.map trunc32 = A.rowPtr := by
    apply map_trunc32_eq
    intro i hi
    have hle : i ≤ A.rows := by rw [h.size] at hi; omega
    have := rowPtr_mono h A.rows i hle (Nat.le_refl _)
    rw [h.last] at this
    have e : A.rowPtr.getD i 0 = A.rowPtr[i] := by simp [Array.getD, hi]
    omega
  have h2 : A.colInd.map trunc32 = A.colInd := by
    apply map_trunc32_eq
    intro k hk
    have := h.colLt k hk
    have e : A.colInd.getD k 0 = A.colInd[k] := by simp [Array.getD, hk]
    omega
  simp [store32, h1, h2]

end Csr

namespace Banded
variable {α : Type}

theorem store32_eq {A : Banded α} (h : A.WF) (hdim : A.rows + A.cols ≤ 2 ^ 32) :
    A.store32 = A ∧ A.firstUpper32 = A.firstUpper := by
  have hoff : ∀ k, k < A.noo → A.offsets.getD k 0 + 1 < 2 ^ 32 := by
    intro k hk
    have := h.offLe k hk
    omega
  constructor
  · have h1 : A.offsets.map trunc32 = A.offsets := by
      apply map_trunc32_eq
      intro k hk
      have := hoff k hk
      have e : A.offsets.getD k 0 = A.offsets[k] := by simp [Array.getD, hk]
      omega
    simp [store32, h1]
  · unfold firstUpper32 firstUpper
    apply List.foldl_ext
    intro k c hc
    rw [List.mem_range] at hc
    rw [trunc32_of_lt (hoff c hc)]

end Banded
namespace Cscr
variable {α : Type}

theorem store32_eq {A : Cscr α} (h : A.WF) (hnnz : A.val.size < 2 ^ 32) (hcols : A.cols ≤ 2 ^ 32)
    (hrows : A.rows ≤ 2 ^ 32) : A.store32 = A := by
  have hc := Csr.store32_eq h.csr hnnz hcols
  have h1 : A.rowPtr.map trunc32 = A.rowPtr := by
    have := congrArg Csr.rowPtr hc
    simpa [Csr.store32, Cscr.compressedCsr] using this
  have h2 : A.colInd.map trunc32 = A.colInd := by
    have := congrArg Csr.colInd hc
    simpa [Csr.store32, Cscr.compressedCsr] using this
  have h3 : A.rowNumbers.map trunc32 = A.rowNumbers := by
    apply map_trunc32_eq
    intro k hk
    have := h.rnLt k hk
    have e : A.rowNumbers.getD k 0 = A.rowNumbers[k] := by simp [Array.getD, hk]
    omega
  simp [store32, h1, h2, h3]

end Cscr

namespace Bcsr
variable {α : Type}

theorem store32_eq {A : Bcsr α} (h : A.WF) (hnnz : A.colInd.size < 2 ^ 32) (hcols : A.cols ≤ 2 ^ 32) :
    A.store32 = A := by
  have h1 : A.rowPtr.map trunc32 = A.rowPtr := by
    apply map_trunc32_eq
    intro i hi
    have hle : i ≤ A.rows := by rw [h.size] at hi; omega
    have := rowPtr_mono h A.rows i hle (Nat.le_refl _)
    rw [h.last] at this
    have e : A.rowPtr.getD i 0 = A.rowPtr[i] := by simp [Array.getD, hi]
    omega
  have h2 : A.colInd.map trunc32 = A.colInd := by
    apply map_trunc32_eq
    intro k hk
    have := h.colLt k hk
    have e : A.colInd.getD k 0 = A.colInd[k] := by simp [Array.getD, hk]
    omega
  simp [store32, h1, h2]

end Bcsr
end FeatModel.LA
