/-
C18 helper lemmas, part 5: the matrix-free `prolongate_vector(_direct)` agrees with the assembled matrix.
-/
import FeatModel.Lemmas.C18_prol
open FeatModel.GT Finset

namespace C18L

def rowDot (nc : Nat) (xc : List Rat) (row : List Rat) : Rat := ∑ s ∈ range nc, row.getD s 0 * xc.getD s 0

theorem getD_gather (cmap : List Nat) (xc : List Rat) {j : Nat} (hj : j < cmap.length) :
    (gather cmap xc).getD j 0 = xc.getD (cmap.getD j 0) 0 := by
  unfold gather
  simp [List.getD_eq_getElem?_getD, List.getElem?_map, hj]

/-- `(P xc)_r` is the weight-normalised sum of the scattered local rows applied to `xc` -/
theorem matVec_prolDirect (d : Dump) (locs : List (List Nat × List Nat × Mat)) (pd : Mat) (xc : List Rat)
    (h : prolDirect d locs = some pd) : ∀ r, r < d.nf →
      ((contribRows d.nc locs r).length : Rat) ≠ 0 ∧
      (matVec d.nf d.nc pd xc).getD r 0
        = (1 / ((contribRows d.nc locs r).length : Rat)) * ((contribRows d.nc locs r).map (rowDot d.nc xc)).sum := by
  intro r hr
  unfold prolDirect scaleRows at h
  split at h
  · simp at h
  · rename_i hw
    simp only [Option.some.injEq] at h
    subst h
    have hlen : (prolRaw d locs).length = d.nf := by simp [prolRaw]
    have hwr : ((contribRows d.nc locs r).length : Rat) ≠ 0 := by
      intro h0
      apply hw
      rw [List.any_eq_true]
      refine ⟨(prolWeights d locs).getD r 0, ?_, ?_⟩
      · unfold prolWeights vtab
        rw [List.getD_eq_getElem?_getD]
        simp [hr]
        exact ⟨r, hr, rfl⟩
      · unfold prolWeights
        rw [getD_vtab _ hr]
        simp [h0]
    refine ⟨hwr, ?_⟩
    unfold matVec
    rw [getD_vtab _ hr, sumTo_eq]
    have e1 : ∀ k ∈ range d.nc,
        FeatModel.GT.get ((List.range (prolRaw d locs).length).map fun r =>
          vtab d.nc fun s => FeatModel.GT.get (prolRaw d locs) r s * (1 / (prolWeights d locs).getD r 0)) r k
          * xc.getD k 0
        = (1 / ((contribRows d.nc locs r).length : Rat)) *
            ((sumRows d.nc (contribRows d.nc locs r)).getD k 0 * xc.getD k 0) := by
      intro k hk
      have hk' := Finset.mem_range.1 hk
      have g1 : FeatModel.GT.get ((List.range (prolRaw d locs).length).map fun r =>
          vtab d.nc fun s => FeatModel.GT.get (prolRaw d locs) r s * (1 / (prolWeights d locs).getD r 0)) r k
          = FeatModel.GT.get (prolRaw d locs) r k * (1 / (prolWeights d locs).getD r 0) := by
        unfold FeatModel.GT.get
        simp only [List.getD_eq_getElem?_getD, List.getElem?_map, List.getElem?_range, hlen, hr]
        simp [vtab, hk']
      have g2 : FeatModel.GT.get (prolRaw d locs) r k = (sumRows d.nc (contribRows d.nc locs r)).getD k 0 := by
        unfold FeatModel.GT.get prolRaw
        simp [List.getD_eq_getElem?_getD, hr]
      have g3 : (prolWeights d locs).getD r 0 = ((contribRows d.nc locs r).length : Rat) := by
        unfold prolWeights; rw [getD_vtab _ hr]
      rw [g1, g2, g3]; ring
    rw [Finset.sum_congr rfl e1, ← Finset.mul_sum, dot_sumRows d.nc _ (fun k => xc.getD k 0)]
    rfl

/-- the list of local results `X · xc|cmap` that `prolongate_vector` adds to entry `r` is the list of scattered rows
applied to `xc` -/
theorem pvec_list (nc : Nat) (locs : List (List Nat × List Nat × Mat)) (xc : List Rat) (r : Nat)
    (hmap : ∀ loc ∈ locs, ∀ j, j < loc.1.length → loc.1.getD j 0 < nc) :
    (locs.flatMap fun (loc : List Nat × List Nat × Mat) =>
      (List.range loc.2.1.length).filterMap fun i =>
        if loc.2.1.getD i 0 = r then
          some (sumTo loc.1.length fun j => FeatModel.GT.get loc.2.2 i j * (gather loc.1 xc).getD j 0)
        else none)
      = (contribRows nc locs r).map (rowDot nc xc) := by
  induction locs with
  | nil => simp [contribRows]
  | cons loc locs ih =>
    have ih' := ih (fun l hl => hmap l (by simp [hl]))
    unfold contribRows at ih' ⊢
    rw [List.flatMap_cons, List.flatMap_cons, List.map_append, ih']
    congr 1
    obtain ⟨cmap, fmap, x⟩ := loc
    unfold childContrib
    rw [List.map_filterMap]
    apply List.filterMap_congr
    intro i _
    simp only
    split
    · simp only [Option.map_some, Option.some.injEq]
      unfold rowDot
      rw [dot_denseRow nc cmap _ (fun k => xc.getD k 0) (hmap (cmap, fmap, x) (by simp)), sumTo_eq]
      apply Finset.sum_congr rfl
      intro j hj
      rw [getD_gather cmap xc (Finset.mem_range.1 hj)]
      rfl
    · simp

/-- **matrix-free = matrix**: `prolongate_vector_direct` returns `P · xc` for the matrix `P` of
`assemble_prolongation_direct` -/
theorem matrix_free_agrees (d : Dump) (locs : List (List Nat × List Nat × Mat)) (pd : Mat) (xc vd : List Rat)
    (hpd : prolDirect d locs = some pd)
    (hvd : scaleVec (pvecRaw d locs xc) (prolWeights d locs) = some vd)
    (hmap : ∀ loc ∈ locs, ∀ j, j < loc.1.length → loc.1.getD j 0 < d.nc) :
    ∀ r, r < d.nf → vd.getD r 0 = (matVec d.nf d.nc pd xc).getD r 0 := by
  intro r hr
  obtain ⟨_, hmv⟩ := matVec_prolDirect d locs pd xc hpd r hr
  rw [hmv]
  unfold scaleVec at hvd
  split at hvd
  · simp at hvd
  · simp only [Option.some.injEq] at hvd
    subst hvd
    have hl : (pvecRaw d locs xc).length = d.nf := by unfold pvecRaw; rw [vtab_length]
    rw [hl, getD_vtab _ hr]
    have g3 : (prolWeights d locs).getD r 0 = ((contribRows d.nc locs r).length : Rat) := by
      unfold prolWeights; rw [getD_vtab _ hr]
    rw [g3]
    unfold pvecRaw
    rw [getD_vtab _ hr, lsum_eq]
    have := pvec_list d.nc locs xc r hmap
    rw [show (locs.flatMap fun (x : List Nat × List Nat × Mat) =>
        match x with
        | (cmap, fmap, x) =>
          (List.range fmap.length).filterMap fun i =>
            if fmap.getD i 0 = r then
              some (sumTo cmap.length fun j => FeatModel.GT.get x i j * (gather cmap xc).getD j 0)
            else none) = _ from this]
    ring

end C18L
