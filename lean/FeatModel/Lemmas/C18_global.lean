/-
C18 helper lemmas, part 12: `Global::Transfer` = the local `LAFEM::Transfer` members composed with the muxer's
join/split and the gate synchronisation; which stored matrix each member uses.
-/
import FeatModel.Model.GlobalTransfer
import FeatModel.Lemmas.C18_csr
open FeatModel.GT FeatModel.LA FeatModel.Dist Finset

namespace C18L

theorem syncTrivial_eq (v : Array Rat) : syncTrivial v = v := by
  simp [syncTrivial, sync0Patch]

/-- the un-muxed branch (`_coarse_muxer == nullptr` or `!is_child()`): the local members, `rest` with the stored
restriction matrix, `trunc` with the stored truncation matrix, `prol` with the stored prolongation matrix -/
theorem global_unmuxed (g : GTransfer) (h : g.muxed = false) (fines tmps fines0 : List (Array Rat))
    (coarse0 coarse : Array Rat) :
    g.rest fines tmps coarse0 = (g.locals.getD 0 default).applyRest (fines.getD 0 #[]) coarse0 ∧
    g.trunc fines tmps coarse0 = (g.locals.getD 0 default).applyTrunc (fines.getD 0 #[]) coarse0 ∧
    g.prol fines0 tmps coarse = ((g.locals.getD 0 default).applyProl (fines0.getD 0 #[]) coarse).map fun v => [v] := by
  refine ⟨?_, ?_, ?_⟩
  · unfold GTransfer.rest GTransfer.down
    simp only [h, Bool.not_false, if_true, applyWhich]
    cases (g.locals.getD 0 default).applyRest (fines.getD 0 #[]) coarse0 <;> simp [syncTrivial_eq]
  · unfold GTransfer.trunc GTransfer.down
    simp only [h, Bool.not_false, if_true, applyWhich]
    cases (g.locals.getD 0 default).applyTrunc (fines.getD 0 #[]) coarse0 <;> simp [syncTrivial_eq]
  · unfold GTransfer.prol
    simp only [h, Bool.not_false, if_true]
    cases (g.locals.getD 0 default).applyProl (fines0.getD 0 #[]) coarse <;> simp [syncTrivial_eq]

/-- the muxed branch for a parent group of `k` processes: `rest`/`trunc` = `join ∘ (local rest/trunc into _vec_tmp)`,
`prol` = `(local prol from _vec_tmp) ∘ split`; for more than one process `join`/`split` are C13's `muxJoin`/`muxSplit` -/
theorem global_muxed_group (g : GTransfer) (m : MuxerM) (hm : g.muxer = some m) (hc : m.isChild = true)
    (hp : m.isParent = true) (w : Which) (fines tmps fines0 : List (Array Rat)) (coarse0 coarse : Array Rat) :
    g.down w fines tmps coarse0
      = ((List.range g.locals.length).mapM fun c =>
          applyWhich w (g.locals.getD c default) (fines.getD c #[]) (tmps.getD c #[])).map
          (fun parts => m.join parts coarse0) ∧
    g.prol fines0 tmps coarse
      = ((List.range g.locals.length).mapM fun c =>
          (g.locals.getD c default).applyProl (fines0.getD c #[]) ((m.split coarse tmps).getD c #[])) ∧
    (1 < m.commSize → ∀ parts, m.join parts coarse0
      = (muxJoin m.B m.pm m.cm (parts.map fun s => CVec.leaf 1 s.toList) (CVec.leaf 1 coarse0.toList)).flat.toArray) ∧
    (1 < m.commSize → m.split coarse tmps
      = (muxSplit m.B m.pm m.cm (CVec.leaf 1 coarse.toList) (tmps.map fun s => CVec.leaf 1 s.toList)).map
          fun v => v.flat.toArray) := by
  have hmux : g.muxed = true := by simp [GTransfer.muxed, hm, hc]
  have hpar : g.parentOk = true := by simp [GTransfer.parentOk, hm, hp]
  refine ⟨?_, ?_, ?_, ?_⟩
  · unfold GTransfer.down
    simp only [hmux, hpar, Bool.not_true, Bool.false_eq_true, if_false, hm, Option.getD_some]
    cases (List.range g.locals.length).mapM fun c =>
      applyWhich w (g.locals.getD c default) (fines.getD c #[]) (tmps.getD c #[]) <;> simp [syncTrivial_eq]
  · unfold GTransfer.prol
    simp only [hmux, hpar, Bool.not_true, Bool.false_eq_true, if_false, hm, Option.getD_some]
    congr 1
    funext c
    cases (g.locals.getD c default).applyProl (fines0.getD c #[]) ((m.split coarse tmps).getD c #[]) <;>
      simp [syncTrivial_eq]
  · intro h parts
    unfold MuxerM.join
    rw [if_neg (by omega)]
  · intro h
    unfold MuxerM.split
    rw [if_neg (by omega)]

/-- single process that is child and parent at once (`set_parent(&comm, 0, mirror)` on a one-process communicator):
the muxed branch computes the local members into / from `_vec_tmp` -/
theorem global_muxed_single (t : Transfer) (m : MuxerM) (h1 : m.commSize = 1) (hp : m.isParent = true)
    (yf tmp coarse0 fine0 xc : Array Rat) :
    (GTransfer.mk (some m) [t]).rest [yf] [tmp] coarse0 = t.applyRest yf tmp ∧
    (GTransfer.mk (some m) [t]).trunc [yf] [tmp] coarse0 = t.applyTrunc yf tmp ∧
    (GTransfer.mk (some m) [t]).prol [fine0] [tmp] xc = (t.applyProl fine0 xc).map fun v => [v] := by
  have hc : m.isChild = true := by simp [MuxerM.isChild, h1]
  have hj : ∀ parts : List (Array Rat), m.join parts coarse0 = parts.getD 0 #[] := by
    intro parts; unfold MuxerM.join; rw [if_pos (by omega)]
  have hs : m.split xc [tmp] = [xc] := by unfold MuxerM.split; rw [if_pos (by omega)]
  refine ⟨?_, ?_, ?_⟩
  · have := (global_muxed_group (GTransfer.mk (some m) [t]) m rfl hc hp .rest [yf] [tmp] [fine0] coarse0 xc).1
    unfold GTransfer.rest
    rw [this]
    simp only [List.length_cons, List.length_nil, Nat.zero_add, List.range_one, List.mapM_cons, List.mapM_nil,
      applyWhich, List.getD_cons_zero]
    cases h : t.applyRest yf tmp <;> simp [h, hj]
  · have := (global_muxed_group (GTransfer.mk (some m) [t]) m rfl hc hp .trunc [yf] [tmp] [fine0] coarse0 xc).1
    unfold GTransfer.trunc
    rw [this]
    simp only [List.length_cons, List.length_nil, Nat.zero_add, List.range_one, List.mapM_cons, List.mapM_nil,
      applyWhich, List.getD_cons_zero]
    cases h : t.applyTrunc yf tmp <;> simp [h, hj]
  · have := (global_muxed_group (GTransfer.mk (some m) [t]) m rfl hc hp .rest [yf] [tmp] [fine0] coarse0 xc).2.1
    rw [this, hs]
    simp only [List.length_cons, List.length_nil, Nat.zero_add, List.range_one, List.mapM_cons, List.mapM_nil,
      List.getD_cons_zero]
    cases h : t.applyProl fine0 xc <;> simp [h]

/-- **global_transfer_eq_local** in terms of the matrices: for the un-muxed object and for the single-process muxed
object, `prol`, `rest`, `trunc` are the products with `P`, `Pᵀ`, `T` -/
theorem global_transfer_products (P T : Csr Rat) (hP : P.valid = true) (hT : T.valid = true)
    (hTr : T.rows = P.cols) (hTc : T.cols = P.rows) (mux : Option MuxerM)
    (hmux : mux = none ∨ ∃ m, mux = some m ∧ (m.isChild = false ∨ (m.commSize = 1 ∧ m.isParent = true)))
    (xc fine0 yf coarse0 tmp : Array Rat) (hxc : xc.size = P.cols) (hf0 : fine0.size = P.rows)
    (hyf : yf.size = P.rows) (hc0 : coarse0.size = P.cols) (htmp : tmp.size = P.cols) :
    (∃ xp, (GTransfer.mk mux [Transfer.ofProl P T]).prol [fine0] [tmp] xc = some [xp] ∧
        ∀ i, i < P.rows → xp.getD i 0 = ∑ j ∈ range P.cols, P.entry i j * xc.getD j 0) ∧
    (∃ xr, (GTransfer.mk mux [Transfer.ofProl P T]).rest [yf] [tmp] coarse0 = some xr ∧
        ∀ j, j < P.cols → xr.getD j 0 = ∑ i ∈ range P.rows, P.entry i j * yf.getD i 0) ∧
    (∃ xt, (GTransfer.mk mux [Transfer.ofProl P T]).trunc [yf] [tmp] coarse0 = some xt ∧
        ∀ j, j < P.cols → xt.getD j 0 = ∑ i ∈ range P.rows, T.entry j i * yf.getD i 0) := by
  have unm : (∃ m, mux = some m ∧ m.commSize = 1 ∧ m.isParent = true) ∨
      (GTransfer.mk mux [Transfer.ofProl P T]).muxed = false := by
    rcases hmux with h | ⟨m, h, h2 | h2⟩
    · right; simp [GTransfer.muxed, h]
    · right; simp [GTransfer.muxed, h, h2]
    · left; exact ⟨m, h, h2⟩
  rcases unm with ⟨m, hm, h1, hp⟩ | hun
  · subst hm
    obtain ⟨e1, e2, e3⟩ := global_muxed_single (Transfer.ofProl P T) m h1 hp yf tmp coarse0 fine0 xc
    obtain ⟨⟨xp, a1, a2⟩, ⟨xr, b1, b2⟩, ⟨xt, c1, c2⟩⟩ :=
      transfer_products P T hP hT hTr hTc xc fine0 yf tmp hxc hf0 hyf htmp
    exact ⟨⟨xp, by rw [e3, a1]; rfl, a2⟩, ⟨xr, by rw [e1, b1], b2⟩, ⟨xt, by rw [e2, c1], c2⟩⟩
  · obtain ⟨e1, e2, e3⟩ := global_unmuxed _ hun [yf] [tmp] [fine0] coarse0 xc
    obtain ⟨⟨xp, a1, a2⟩, ⟨xr, b1, b2⟩, ⟨xt, c1, c2⟩⟩ :=
      transfer_products P T hP hT hTr hTc xc fine0 yf coarse0 hxc hf0 hyf hc0
    refine ⟨⟨xp, ?_, a2⟩, ⟨xr, ?_, b2⟩, ⟨xt, ?_, c2⟩⟩
    · rw [e3]; simp only [List.getD_cons_zero]; rw [a1]; rfl
    · rw [e1]; simp only [List.getD_cons_zero]; exact b1
    · rw [e2]; simp only [List.getD_cons_zero]; exact c1

end C18L
