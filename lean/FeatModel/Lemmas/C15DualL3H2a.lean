import FeatModel.Model.FEDual
/-! kernel-checked duality for Lagrange-3 on the quadrilateral, the 8 edge orientations starting with 0 -/
namespace FeatModel.FE
set_option maxRecDepth 100000 in
theorem dualL3H2_0 : ((allOrients 3).all fun l => dualOk .L3 .H 2 (0 :: l)) = true := by decide +kernel
end FeatModel.FE
