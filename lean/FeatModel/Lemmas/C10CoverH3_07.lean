import FeatModel.Model.RefineCover
/-! C10 local refinement lemma, hexahedron, pairwise covering family, configurations 28..31 (kernel evaluation). -/
namespace FeatModel.Refine
set_option maxRecDepth 100000

theorem cover_hexa_07 : ∀ j < 4, (refine (cell3c .hypercube (j + 28))).consistent = true := by decide +kernel

end FeatModel.Refine
