/-
C18 helper lemmas, part 2: `Math::invert_matrix` (in-situ Gauss–Jordan with diagonal pivoting).

Idea: the tableau `T` after pivoting on a set `S` of indices satisfies, for every `x` and `y = A x`,
`T w = z` with `w = (y on S, -x elsewhere)` and `z = (x on S, -y elsewhere)` (exchange form of `[A | I] → [I | A⁻¹]`).
One sweep on a pivot `q ∉ S` exchanges the roles at `q` (`sweep_exchange`); the pivot array stays injective, so after
`n` sweeps every index has been exchanged exactly once and `T y = x`, i.e. `T A = 1`.
-/
import FeatModel.Lemmas.C18_basic
import Mathlib.Data.Fintype.Card
import Mathlib.Data.Fintype.EquivFin
open FeatModel.GT Finset

namespace C18L

/-- entry function of `sweep` -/
abbrev sweepFn := sweepEntry

theorem get_sweep {n q : Nat} (a : Mat) {i j : Nat} (hi : i < n) (hj : j < n) :
    FeatModel.GT.get (sweep n q a) i j = sweepFn q (FeatModel.GT.get a) i j := by
  unfold sweep
  rw [get_tab _ hi hj]

theorem sweep_exchange {n q : Nat} (T : Nat → Nat → Rat) (w z : Nat → Rat) (hq : q < n) (hd : T q q ≠ 0)
    (h : ∀ i, i < n → ∑ j ∈ range n, T i j * w j = z i) :
    ∀ i, i < n → ∑ j ∈ range n, sweepFn q T i j * (Function.update w q (-(z q))) j
      = (Function.update z q (-(w q))) i := by
  have key : ∀ g : ℕ → ℚ, ∑ j ∈ range n, g j = g q + ∑ j ∈ (range n).erase q, g j :=
    fun g => (Finset.add_sum_erase _ g (mem_range.2 hq)).symm
  set S : ℕ → ℚ := fun i => ∑ j ∈ (range n).erase q, T i j * w j with hSdef
  have hS : ∀ i, i < n → z i = T i q * w q + S i := by
    intro i hi
    rw [← h i hi, key]
  intro i hi
  rw [key]
  by_cases hiq : i = q
  · subst hiq
    have e1 : ∑ j ∈ (range n).erase i, sweepFn i T i j * (Function.update w i (-(z i))) j
        = (1 / T i i) * S i := by
      rw [hSdef, Finset.mul_sum]
      apply Finset.sum_congr rfl
      intro j hj
      have hji : j ≠ i := (Finset.mem_erase.1 hj).1
      simp [sweepFn, sweepEntry, hji, Function.update_of_ne hji]
      ring
    rw [e1]
    simp only [sweepFn, sweepEntry, if_true, Function.update_self]
    have := hS i hi
    rw [this]
    field_simp
    ring
  · have e1 : ∑ j ∈ (range n).erase q, sweepFn q T i j * (Function.update w q (-(z q))) j
        = S i - (T i q * (1 / T q q)) * S q := by
      rw [hSdef, Finset.mul_sum, ← Finset.sum_sub_distrib]
      apply Finset.sum_congr rfl
      intro j hj
      have hjq : j ≠ q := (Finset.mem_erase.1 hj).1
      simp [sweepFn, sweepEntry, hiq, hjq, Function.update_of_ne hjq]
      ring
    rw [e1]
    simp only [sweepFn, sweepEntry, hiq, if_false, if_true, Function.update_self, Function.update_of_ne hiq]
    have h1 := hS i hi
    have h2 := hS q hq
    rw [h1, h2]
    field_simp
    ring

/-! ### the pivot array -/

/-- the pivot array is an injective map `[0,n) → [0,n)` -/
def PInv (n : Nat) (p : List Nat) : Prop :=
  p.length = n ∧ (∀ j, j < n → p.getD j 0 < n) ∧
    (∀ i j, i < n → j < n → p.getD i 0 = p.getD j 0 → i = j)

theorem pivotLoop_mem (d : Nat → Rat) (js : List Nat) (pv : Rat) (i : Nat) :
    pivotLoop d js pv i ∈ i :: js := by
  induction js generalizing pv i with
  | nil => simp [pivotLoop]
  | cons j js ih =>
    unfold pivotLoop
    split
    · have := ih (d j) j
      simp only [List.mem_cons] at this ⊢
      tauto
    · have := ih pv i
      simp only [List.mem_cons] at this ⊢
      tauto

theorem pivotSearch_range (a : Mat) (p : List Nat) {k n : Nat} (hk : k < n) :
    k ≤ pivotSearch a p k n ∧ pivotSearch a p k n < n := by
  have h := pivotLoop_mem (fun j => qabs (FeatModel.GT.get a (p.getD j 0) (p.getD j 0)))
    (List.range' (k + 1) (n - (k + 1))) (qabs (FeatModel.GT.get a (p.getD k 0) (p.getD k 0))) k
  simp only [pivotSearch]
  simp only [List.mem_cons, List.mem_range'_1] at h
  rcases h with h | h
  · rw [h]; omega
  · omega

def sigma (k i j : Nat) : Nat := if j = k then i else if j = i then k else j

theorem getD_swapPiv (p : List Nat) {k i : Nat} (j : Nat) (hk : k < p.length) (hi : i < p.length) (hki : k ≤ i) :
    (swapPiv p k i).getD j 0 = p.getD (sigma k i j) 0 := by
  unfold swapPiv sigma
  by_cases h : i > k
  · simp only [h, if_true, List.getD_eq_getElem?_getD, List.getElem?_set, List.length_set]
    by_cases hji : j = i
    · subst hji
      have : j ≠ k := by omega
      simp [this, hi, hk]
    · by_cases hjk : j = k
      · subst hjk
        have : ¬ (i = j) := by omega
        simp [this, hk, hi]
      · have h1 : ¬ (i = j) := fun e => hji e.symm
        have h2 : ¬ (k = j) := fun e => hjk e.symm
        simp [h1, h2, hji, hjk]
  · have : i = k := by omega
    subst this
    simp [h]
    split <;> simp_all

theorem sigma_lt {n k i j : Nat} (hk : k < n) (hi : i < n) (hj : j < n) : sigma k i j < n := by
  unfold sigma; split <;> [assumption; (split <;> assumption)]

theorem sigma_inj {k i a b : Nat} (h : sigma k i a = sigma k i b) : a = b := by
  unfold sigma at h
  split at h <;> split at h <;> (try split at h) <;> (try split at h) <;> omega

theorem PInv_swapPiv {n : Nat} {p : List Nat} (hp : PInv n p) {k i : Nat} (hk : k < n) (hki : k ≤ i) (hi : i < n) :
    PInv n (swapPiv p k i) := by
  obtain ⟨hl, hr, hinj⟩ := hp
  have hk' : k < p.length := by omega
  have hi' : i < p.length := by omega
  refine ⟨?_, ?_, ?_⟩
  · unfold swapPiv; split <;> simp [hl]
  · intro j hj
    rw [getD_swapPiv p j hk' hi' hki]
    exact hr _ (sigma_lt hk hi hj)
  · intro a b ha hb hab
    rw [getD_swapPiv p a hk' hi' hki, getD_swapPiv p b hk' hi' hki] at hab
    exact sigma_inj (hinj _ _ (sigma_lt hk hi ha) (sigma_lt hk hi hb) hab)

theorem swapPiv_below (p : List Nat) {k i m : Nat} (hk : k < p.length) (hi : i < p.length) (hki : k ≤ i) (hm : m < k) :
    (swapPiv p k i).getD m 0 = p.getD m 0 := by
  rw [getD_swapPiv p m hk hi hki]
  unfold sigma
  have h1 : m ≠ k := by omega
  have h2 : m ≠ i := by omega
  simp [h1, h2]

theorem PInv_range (n : Nat) : PInv n (List.range n) := by
  refine ⟨by simp, ?_, ?_⟩
  · intro j hj; simp [List.getD_eq_getElem?_getD, hj]
  · intro i j hi hj; simp [List.getD_eq_getElem?_getD, hi, hj]

theorem PInv_surj {n : Nat} {p : List Nat} (hp : PInv n p) : ∀ i, i < n → ∃ m, m < n ∧ p.getD m 0 = i := by
  obtain ⟨_, hr, hinj⟩ := hp
  let f : Fin n → Fin n := fun m => ⟨p.getD m.1 0, hr m.1 m.2⟩
  have finj : Function.Injective f := by
    intro a b hab
    have : p.getD a.1 0 = p.getD b.1 0 := congrArg Fin.val hab
    exact Fin.ext (hinj _ _ a.2 b.2 this)
  have fsurj : Function.Surjective f := Finite.injective_iff_surjective.1 finj
  intro i hi
  obtain ⟨m, hm⟩ := fsurj ⟨i, hi⟩
  exact ⟨m.1, m.2, congrArg Fin.val hm⟩

/-! ### the elimination loop -/

/-- `j` has been used as a pivot in the iterations `< k` -/
def Pivoted (p : List Nat) (k j : Nat) : Prop := ∃ m, m < k ∧ p.getD m 0 = j

open Classical in
/-- exchange form of the tableau after the iterations `< k` -/
def Inv (n : Nat) (A : Nat → Nat → Rat) (k : Nat) (st : InvState) : Prop :=
  PInv n st.p ∧ ∀ x : Nat → Rat, ∀ i, i < n →
    ∑ j ∈ range n, FeatModel.GT.get st.a i j *
        (if Pivoted st.p k j then (∑ l ∈ range n, A j l * x l) else -(x j))
      = (if Pivoted st.p k i then x i else -(∑ l ∈ range n, A i l * x l))

theorem Inv_step {n : Nat} {A : Nat → Nat → Rat} {k : Nat} {st st' : InvState} (hk : k < n)
    (hinv : Inv n A k st) (h : invStep n st k = some st') : Inv n A (k + 1) st' := by
  classical
  obtain ⟨hp, hx⟩ := hinv
  have hrange := pivotSearch_range st.a st.p hk
  set i0 := pivotSearch st.a st.p k n with hi0
  have hp' : PInv n (swapPiv st.p k i0) := PInv_swapPiv hp hk hrange.1 hrange.2
  set p' := swapPiv st.p k i0 with hp'def
  set q := p'.getD k 0 with hqdef
  have hq : q < n := hp'.2.1 k hk
  unfold invStep at h
  simp only [← hi0, ← hp'def, ← hqdef] at h
  by_cases hd : FeatModel.GT.get st.a q q = 0
  · simp [hd] at h
  · simp only [hd, if_false, Option.some.injEq] at h
    subst h
    refine ⟨hp', ?_⟩
    have hlen : st.p.length = n := hp.1
    have hbelow : ∀ m, m < k → p'.getD m 0 = st.p.getD m 0 := fun m hm =>
      swapPiv_below st.p (by omega) (by omega) hrange.1 hm
    have hnotq : ¬ Pivoted st.p k q := by
      rintro ⟨m, hm, hmq⟩
      have : p'.getD m 0 = p'.getD k 0 := by rw [hbelow m hm, hmq]
      have := hp'.2.2 m k (by omega) hk this
      omega
    have hpiv : ∀ j, Pivoted p' (k + 1) j ↔ (Pivoted st.p k j ∨ j = q) := by
      intro j
      constructor
      · rintro ⟨m, hm, hmj⟩
        by_cases hmk : m = k
        · right; rw [← hmj, hmk]
        · left; exact ⟨m, by omega, by rw [← hbelow m (by omega)]; exact hmj⟩
      · rintro (⟨m, hm, hmj⟩ | hj)
        · exact ⟨m, by omega, by rw [hbelow m hm]; exact hmj⟩
        · exact ⟨k, by omega, by rw [hj]⟩
    have hq1 : Pivoted p' (k + 1) q := (hpiv q).2 (Or.inr rfl)
    intro x i hi
    have H := sweep_exchange (FeatModel.GT.get st.a)
      (fun j => if Pivoted st.p k j then (∑ l ∈ range n, A j l * x l) else -(x j))
      (fun i => if Pivoted st.p k i then x i else -(∑ l ∈ range n, A i l * x l)) hq hd (hx x) i hi
    have hw : ∀ j, (if Pivoted p' (k + 1) j then (∑ l ∈ range n, A j l * x l) else -(x j))
        = Function.update (fun j => if Pivoted st.p k j then (∑ l ∈ range n, A j l * x l) else -(x j)) q
            (-((fun i => if Pivoted st.p k i then x i else -(∑ l ∈ range n, A i l * x l)) q)) j := by
      intro j
      by_cases hjq : j = q
      · rw [hjq, Function.update_self, if_pos hq1]
        simp only []
        rw [if_neg hnotq]
        ring
      · rw [Function.update_of_ne hjq]
        have : Pivoted p' (k + 1) j ↔ Pivoted st.p k j := by rw [hpiv j]; simp [hjq]
        simp [this]
    have hz : (if Pivoted p' (k + 1) i then x i else -(∑ l ∈ range n, A i l * x l))
        = Function.update (fun i => if Pivoted st.p k i then x i else -(∑ l ∈ range n, A i l * x l)) q
            (-((fun j => if Pivoted st.p k j then (∑ l ∈ range n, A j l * x l) else -(x j)) q)) i := by
      by_cases hiq : i = q
      · rw [hiq, Function.update_self, if_pos hq1]
        simp only []
        rw [if_neg hnotq]
        ring
      · rw [Function.update_of_ne hiq]
        have : Pivoted p' (k + 1) i ↔ Pivoted st.p k i := by rw [hpiv i]; simp [hiq]
        simp [this]
    rw [hz, ← H]
    apply Finset.sum_congr rfl
    intro j hj
    rw [get_sweep st.a hi (Finset.mem_range.1 hj), hw j]

theorem Inv_loop {n : Nat} {A : Nat → Nat → Rat} (m : Nat) : ∀ (k : Nat) (st st' : InvState), k + m = n →
    Inv n A k st → invLoop n (List.range' k m) st = some st' → Inv n A n st' := by
  induction m with
  | zero =>
    intro k st st' hkm hinv h
    simp [invLoop] at h
    subst h
    have : k = n := by omega
    subst this
    exact hinv
  | succ m ih =>
    intro k st st' hkm hinv h
    rw [List.range'_succ] at h
    unfold invLoop at h
    split at h
    · simp at h
    · rename_i st1 hst1
      exact ih (k + 1) st1 st' (by omega) (Inv_step (by omega) hinv hst1) h

theorem Inv_init (n : Nat) (a : Mat) :
    Inv n (FeatModel.GT.get a) 0 { a := tab n n (FeatModel.GT.get a), p := List.range n, det := 1 } := by
  classical
  refine ⟨PInv_range n, ?_⟩
  intro x i hi
  have hno : ∀ j, ¬ Pivoted (List.range n) 0 j := by rintro j ⟨m, hm, _⟩; omega
  simp only [hno, if_false]
  rw [← Finset.sum_neg_distrib]
  apply Finset.sum_congr rfl
  intro j hj
  rw [get_tab _ hi (Finset.mem_range.1 hj)]
  ring

/-- the result of a successful `invert_matrix` is a left inverse -/
theorem invert_left_inverse {n stride : Nat} {a : Mat} {det : Rat} {b : Mat} {p : List Nat}
    (h : invertMatrix n stride a = some (det, b, p)) (hn : 0 < n) (hs : n ≤ stride) :
    ∀ i c, i < n → c < n →
      sumTo n (fun j => FeatModel.GT.get b i j * FeatModel.GT.get a j c) = if i = c then 1 else 0 := by
  classical
  intro i c hi hc
  rw [sumTo_eq]
  unfold invertMatrix at h
  have h0 : ¬ (n = 0 ∨ stride < n) := by omega
  simp only [h0, if_false] at h
  by_cases h1 : n = 1
  · subst h1
    simp only [if_true] at h
    by_cases hd : FeatModel.GT.get a 0 0 = 0
    · simp [hd] at h
    · simp only [hd, if_false, Option.some.injEq, Prod.mk.injEq] at h
      obtain ⟨_, hb, _⟩ := h
      subst hb
      have hi0 : i = 0 := by omega
      have hc0 : c = 0 := by omega
      subst hi0; subst hc0
      simp only [Finset.sum_range_one, if_true]
      have e : FeatModel.GT.get [[1 / FeatModel.GT.get a 0 0]] 0 0 = 1 / FeatModel.GT.get a 0 0 := rfl
      rw [e]
      field_simp
  · simp only [h1, if_false] at h
    split at h
    · simp at h
    · rename_i st hst
      simp only [Option.some.injEq, Prod.mk.injEq] at h
      obtain ⟨_, hb, _⟩ := h
      subst hb
      have hfin : Inv n (FeatModel.GT.get a) n st := by
        have := Inv_loop (A := FeatModel.GT.get a) n 0 _ st (by omega) (Inv_init n a)
          (by rw [← List.range_eq_range']; exact hst)
        exact this
      obtain ⟨hp, hx⟩ := hfin
      have hall : ∀ j, j < n → Pivoted st.p n j := fun j hj => by
        obtain ⟨m, hm, hmj⟩ := PInv_surj hp j hj
        exact ⟨m, hm, hmj⟩
      have := hx (fun l => if l = c then 1 else 0) i hi
      rw [if_pos (hall i hi)] at this
      rw [← this]
      apply Finset.sum_congr rfl
      intro j hj
      rw [if_pos (hall j (Finset.mem_range.1 hj))]
      congr 1
      rw [Finset.sum_eq_single c]
      · simp
      · intro l _ hl; simp [hl]
      · intro hcn; exact absurd (Finset.mem_range.2 hc) hcn

end C18L
