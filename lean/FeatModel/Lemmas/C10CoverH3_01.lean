import FeatModel.Model.RefineCover
/-! C10 local refinement lemma, hexahedron, pairwise covering family, configurations 4..7 (kernel evaluation). -/
namespace FeatModel.Refine
set_option maxRecDepth 100000

theorem cover_hexa_01 : ∀ j < 4, (refine (cell3c .hypercube (j + 4))).consistent = true := by decide +kernel

end FeatModel.Refine
