import FeatModel.Model.FERT
import FeatModel.Lemmas.C15Volume
import FeatModel.Lemmas.C15Hess
/-! Discontinuous P1 on quadrilaterals / hexahedra: the node functionals (centre value, half differences along the
    reference axes) are dual to the basis `1, pt_1, …, pt_d` on every cell with `det J(0) ≠ 0`. -/
namespace FeatModel.FE
open FeatModel.Poly Finset

/-- closed facts about the multilinear vertex functions: `N_v(e_i) - N_v(-e_i) = 2 ∂_i N_v(0)` -/
def axisOk (d : Nat) : Bool :=
  (List.range (numVerts Kind.H d)).all fun v => (List.range d).all fun i =>
    let z := List.replicate d (0 : Rat)
    evalAt (z.set i 1) (shapeFn Kind.H d v) - evalAt (z.set i (-1)) (shapeFn Kind.H d v)
      == 2 * evalAt z (dShape Kind.H d v i)

theorem axisOk2 : axisOk 2 = true := by decide +kernel
theorem axisOk3 : axisOk 3 = true := by decide +kernel

theorem mapPoint_comp (k : Kind) (d : Nat) (V : List (List Rat)) (x : List Rat) (a : Nat) (ha : a < worldDim V) :
    (mapPoint k d V x).getD a 0
      = ((List.range (numVerts k d)).map fun i => (V.getD i []).getD a 0 * evalAt x (shapeFn k d i)).sum := by
  rw [mapPoint, getD_table _ _ a ha]
  simp only [evalAt, mapPoly, eval_sum, List.map_map]
  congr 1
  apply List.map_congr_left
  intro i _
  simp only [Function.comp, eval_smul]

theorem jacMat_comp (k : Kind) (d : Nat) (V : List (List Rat)) (x : List Rat) (a j : Nat) (ha : a < worldDim V)
    (hj : j < d) :
    mat (jacMat k d V x) a j
      = ((List.range (numVerts k d)).map fun i => (V.getD i []).getD a 0 * evalAt x (dShape k d i j)).sum := by
  rw [jacMat_entry k d V x a j ha hj]
  simp only [evalAt, jacPoly, eval_sum, List.map_map]
  congr 1
  apply List.map_congr_left
  intro i _
  simp only [Function.comp, eval_smul]

theorem list_sum_sub (l : List Nat) (u v : Nat → Rat) : (l.map u).sum - (l.map v).sum = (l.map fun i => u i - v i).sum := by
  induction l with
  | nil => simp
  | cons b l ih => simp only [List.map_cons, List.sum_cons, ← ih]; ring

theorem list_sum_mul (l : List Nat) (t : Rat) (u : Nat → Rat) : t * (l.map u).sum = (l.map fun i => t * u i).sum := by
  induction l with
  | nil => simp
  | cons b l ih => simp only [List.map_cons, List.sum_cons, ← ih]; ring

/-- along a reference axis through the centre the multilinear map is affine: `T(e_i) - T(-e_i) = 2 J(0) e_i` -/
theorem axis_diff (d : Nat) (hok : axisOk d = true) (V : List (List Rat)) (a i : Nat) (ha : a < worldDim V) (hi : i < d) :
    (mapPoint Kind.H d V ((List.replicate d (0 : Rat)).set i 1)).getD a 0
      - (mapPoint Kind.H d V ((List.replicate d (0 : Rat)).set i (-1))).getD a 0
      = 2 * mat (jacMat Kind.H d V (List.replicate d 0)) a i := by
  rw [mapPoint_comp _ _ _ _ a ha, mapPoint_comp _ _ _ _ a ha, jacMat_comp _ _ _ _ a i ha hi, list_sum_sub, list_sum_mul]
  congr 1
  apply List.map_congr_left
  intro v hv
  simp only [axisOk, List.all_eq_true, List.mem_range, beq_iff_eq] at hok
  have := hok v (List.mem_range.mp hv) i hi
  linear_combination ((V.getD v []).getD a 0) * this


theorem rtLocal_comp (d : Nat) (Ai : List (List Rat)) (c x : List Rat) (a : Nat) (ha : a < d) :
    (rtLocal d Ai c x).getD a 0 = ∑ b ∈ range d, mat Ai a b * (x.getD b 0 - c.getD b 0) := by
  rw [rtLocal, getD_table d _ a ha, sumR_range]

/-- **duality of discontinuous P1 on every quadrilateral / hexahedron** with a regular Jacobian at the centre -/
theorem d1_dual (d : Nat) (hd : d = 2 ∨ d = 3) (V : List (List Rat)) (hV : worldDim V = d)
    (hdet : det d (jacMat Kind.H d V (List.replicate d 0)) ≠ 0) (j l : Nat) (hj : j < d + 1) (hl : l < d + 1) :
    d1Functional d V l (d1Value d V j) = if j = l then 1 else 0 := by
  have hok : axisOk d = true := by rcases hd with rfl | rfl; exact axisOk2; exact axisOk3
  have hd' : d = 1 ∨ d = 2 ∨ d = 3 := Or.inr hd
  unfold d1Functional d1Value
  by_cases hl0 : l = 0
  · by_cases hj0 : j = 0
    · simp [hl0, hj0]
    · subst hl0
      simp only [hj0, if_true, if_false]
      rw [rtLocal_comp d _ _ _ (j - 1) (by omega)]
      simp
  · by_cases hj0 : j = 0
    · subst hj0
      have hjl : ¬ 0 = l := by omega
      simp [hl0, hjl]
    · simp only [hl0, hj0, if_false]
      rw [rtLocal_comp d _ _ _ (j - 1) (by omega), rtLocal_comp d _ _ _ (j - 1) (by omega), ← Finset.sum_sub_distrib]
      have hterm : ∀ b ∈ range d,
          mat (inv d (jacMat Kind.H d V (List.replicate d 0))) (j - 1) b *
              ((mapPoint Kind.H d V ((List.replicate d (0 : Rat)).set (l - 1) 1)).getD b 0
                - (mapPoint Kind.H d V (List.replicate d 0)).getD b 0)
            - mat (inv d (jacMat Kind.H d V (List.replicate d 0))) (j - 1) b *
              ((mapPoint Kind.H d V ((List.replicate d (0 : Rat)).set (l - 1) (-1))).getD b 0
                - (mapPoint Kind.H d V (List.replicate d 0)).getD b 0)
          = 2 * (mat (inv d (jacMat Kind.H d V (List.replicate d 0))) (j - 1) b
              * mat (jacMat Kind.H d V (List.replicate d 0)) b (l - 1)) := by
        intro b hb
        have := axis_diff d hok V b (l - 1) (by rw [hV]; exact mem_range.mp hb) (by omega)
        linear_combination (mat (inv d (jacMat Kind.H d V (List.replicate d 0))) (j - 1) b) * this
      rw [Finset.sum_congr rfl hterm, ← Finset.mul_sum, inv_mul_entry d hd' _ hdet (j - 1) (l - 1) (by omega) (by omega)]
      by_cases hjl : j = l
      · have : j - 1 = l - 1 := by omega
        simp [hjl]
      · have : ¬ j - 1 = l - 1 := by omega
        simp [hjl, this]

end FeatModel.FE
