import FeatModel.Lemmas.C16_assembly
/-!
Helper lemmas for C16, part 3: assembly on the symbolic pattern, order independence, and the algebraic identities
(kernel, total sum, symmetry) that follow for *any* local matrices with the corresponding local property.
-/
namespace C16L
open FeatModel.Asm FeatModel.Adj

variable {α : Type} [CommRing α]

/-! ### list sums -/

theorem sum_mul_left {β : Type} (l : List β) (a : α) (f : β → α) :
    (l.map fun b => a * f b).sum = a * (l.map f).sum := by
  induction l with
  | nil => simp
  | cons x t ih => simp only [List.map_cons, List.sum_cons, ih]; ring

theorem sum_comm_list {β γ : Type} (l1 : List β) (l2 : List γ) (F : β → γ → α) :
    (l1.map fun a => (l2.map fun b => F a b).sum).sum = (l2.map fun b => (l1.map fun a => F a b).sum).sum := by
  induction l1 with
  | nil => simp
  | cons a t ih =>
    simp only [List.map_cons, List.sum_cons, ih]
    rw [← List.sum_map_add]

theorem sum_ite_mem (l : List Nat) (hl : l.Nodup) (ix : Nat) (v : α) :
    (l.map fun r => if ix = r then v else 0).sum = if ix ∈ l then v else 0 := by
  induction l with
  | nil => simp
  | cons a t ih =>
    have hnd := List.nodup_cons.mp hl
    simp only [List.map_cons, List.sum_cons, ih hnd.2, List.mem_cons]
    by_cases h : ix = a
    · subst h; simp [hnd.1]
    · simp [h]

theorem sum_range_ite (n ix : Nat) (v : α) (h : ix < n) :
    ((List.range n).map fun r => if ix = r then v else 0).sum = v := by
  rw [sum_ite_mem _ List.nodup_range]; simp [h]

theorem ite_sum {β : Type} (c : Prop) [Decidable c] (l : List β) (f : β → α) :
    (if c then (l.map f).sum else 0) = (l.map fun b => if c then f b else 0).sum := by
  by_cases h : c <;> simp [h]

/-! ### assembly on the symbolic pattern -/

theorem getD_mem_or_nil {β : Type} (l : List (List β)) (k : Nat) : l.getD k [] ∈ l ∨ l.getD k [] = [] := by
  by_cases h : k < l.length
  · left; rw [List.getD_eq_getElem?_getD, List.getElem?_eq_getElem h]; exact List.getElem_mem _
  · right; rw [List.getD_eq_getElem?_getD, List.getElem?_eq_none (by omega)]; rfl

theorem symbolic2_unfold (nT nS : Nat) (tm sm : List (List Nat)) (g : Graph)
    (hg : symbolicGraph2 nT nS tm sm = some g) :
    Graph.renderComposite 3 (Graph.transpose ⟨nT, tm⟩) ⟨nS, sm⟩ = some g := by
  unfold symbolicGraph2 at hg
  simp only at hg
  split at hg
  · cases hg
  · exact hg

theorem symbolic_complete (nT nS : Nat) (tm sm : List (List Nat)) (g : Graph)
    (hg : symbolicGraph2 nT nS tm sm = some g) (k r s : Nat)
    (hr : r ∈ tm.getD k []) (hs : s ∈ sm.getD k []) (hrT : r < nT) :
    (Pattern.ofGraph g).hasCol r s = true := by
  have hg' := symbolic2_unfold nT nS tm sm g hg
  have hd := symbolic_dims ⟨nT, tm⟩ ⟨nS, sm⟩ g hg'
  rw [hasCol_iff]
  apply ofGraph_hasCol g r s (by rw [hd.1]; exact hrT)
  rw [mem_symbolic_row ⟨nT, tm⟩ ⟨nS, sm⟩ g hg' r s hrT]
  exact ⟨k, hr, hs⟩

omit [CommRing α] in
theorem symbolic_covered (nT nS : Nat) (tm sm : List (List Nat)) (g : Graph)
    (hg : symbolicGraph2 nT nS tm sm = some g)
    (hT : ∀ l ∈ tm, ∀ r ∈ l, r < nT) (hS : ∀ l ∈ sm, ∀ s ∈ l, s < nS)
    (c : CellCall α) (hc : ∃ k, c.rowMap = tm.getD k [] ∧ c.colMap = sm.getD k []) :
    c.covered (Pattern.ofGraph g) = true := by
  obtain ⟨k, h1, h2⟩ := hc
  have hd := symbolic_dims ⟨nT, tm⟩ ⟨nS, sm⟩ g (symbolic2_unfold nT nS tm sm g hg)
  rw [covered_iff]
  refine ⟨fun ix hix jx hjx => ?_, fun jx hjx => ?_⟩
  · rw [h1] at hix; rw [h2] at hjx
    have hixT : ix < nT := by
      rcases getD_mem_or_nil tm k with h | h
      · exact hT _ h ix hix
      · rw [h] at hix; cases hix
    exact (hasCol_iff _ _ _).mp (symbolic_complete nT nS tm sm g hg k ix jx hix hjx hixT)
  · rw [h2] at hjx
    show jx < g.nImg
    rw [hd.2]
    rcases getD_mem_or_nil sm k with h | h
    · exact hS _ h jx hjx
    · rw [h] at hjx; cases hjx

theorem assembled_eq_sum (nT nS : Nat) (tm sm : List (List Nat)) (g : Graph)
    (hg : symbolicGraph2 nT nS tm sm = some g)
    (hT : ∀ l ∈ tm, ∀ r ∈ l, r < nT) (hS : ∀ l ∈ sm, ∀ s ∈ l, s < nS)
    (calls : List (CellCall α))
    (hcalls : ∀ c ∈ calls, ∃ k, c.rowMap = tm.getD k [] ∧ c.colMap = sm.getD k []) :
    ∃ st, assemble (Pattern.ofGraph g) calls = some st ∧ st.data.size = g.imageIdx.length ∧
      ∀ (x : Nat → α) (r : Nat),
        (Pattern.ofGraph g).apply st.data x r = (calls.map fun c => c.alpha * c.contrib x r).sum :=
  assemble_spec (Pattern.ofGraph g) calls (ofGraph_mono g)
    (fun c hc => symbolic_covered nT nS tm sm g hg hT hS c (hcalls c hc))

theorem sum_perm (calls1 calls2 : List (CellCall α)) (h : calls1.Perm calls2) (x : Nat → α) (r : Nat) :
    (calls1.map fun c => c.alpha * c.contrib x r).sum = (calls2.map fun c => c.alpha * c.contrib x r).sum :=
  (h.map _).sum_eq

/-! ### identities -/

/-- local row sums zero => the contribution annihilates the constant vector -/
theorem contrib_const_zero (c : CellCall α)
    (h : ∀ i, (c.colMap.zipIdx.map fun (q : Nat × Nat) => c.loc i q.2).sum = 0) (r : Nat) :
    c.contrib (fun _ => 1) r = 0 := by
  unfold CellCall.contrib
  apply List.sum_eq_zero
  intro y hy
  obtain ⟨⟨ix, i⟩, _, rfl⟩ := List.mem_map.mp hy
  have : (c.colMap.zipIdx.map fun (q : Nat × Nat) => c.loc i q.2 * (1 : α)).sum = 0 := by
    simpa [mul_one] using h i
  simp_all

/-- `Σ_{r < n} contrib 1 r = Σ_i Σ_j loc i j` when all row indices are below `n` -/
theorem contrib_total (c : CellCall α) (n : Nat) (h : ∀ ix ∈ c.rowMap, ix < n) :
    ((List.range n).map fun r => c.contrib (fun _ => 1) r).sum =
      (c.rowMap.zipIdx.map fun (p : Nat × Nat) => (c.colMap.zipIdx.map fun (q : Nat × Nat) => c.loc p.2 q.2).sum).sum := by
  unfold CellCall.contrib
  rw [sum_comm_list]
  apply congrArg
  apply List.map_congr_left
  intro ⟨ix, i⟩ hp
  have hix : ix < n := h ix (fst_mem_of_mem_zipIdx _ _ _ _ hp)
  simp only [mul_one]
  exact sum_range_ite n ix _ hix

/-- the `(r,s)` entry of a contribution: apply to the `s`-th unit vector -/
def unit (s : Nat) : Nat → α := fun j => if j = s then 1 else 0

theorem contrib_symm (c : CellCall α) (hmap : c.rowMap = c.colMap) (hloc : ∀ i j, c.loc i j = c.loc j i) (r s : Nat) :
    c.contrib (unit s) r = c.contrib (unit r) s := by
  unfold CellCall.contrib
  rw [hmap]
  have e1 : ∀ (t : Nat) (u : Nat) (p : Nat × Nat),
      (if p.1 = t then (c.colMap.zipIdx.map fun (q : Nat × Nat) => c.loc p.2 q.2 * unit (α := α) u q.1).sum else 0) =
      (c.colMap.zipIdx.map fun (q : Nat × Nat) => if p.1 = t then c.loc p.2 q.2 * unit (α := α) u q.1 else 0).sum :=
    fun t u p => ite_sum _ _ _
  simp only [e1]
  rw [sum_comm_list]
  apply congrArg
  apply List.map_congr_left
  intro q _
  apply congrArg
  apply List.map_congr_left
  intro p _
  simp only [unit]
  rw [hloc p.2 q.2]
  by_cases h1 : p.1 = r <;> by_cases h2 : q.1 = s <;> simp [h1, h2]

/-! ### dense vectors -/

theorem vecScatter_spec (d : Array α) (loc : Nat → α) (alpha : α) (l : List (Nat × Nat)) (n : Nat)
    (hl : ∀ ix i, (ix, i) ∈ l → ix < d.size) :
    (l.foldl (fun d (p : Nat × Nat) => d.modify p.1 (· + alpha * loc p.2)) d).getD n 0 =
      d.getD n 0 + alpha * (l.map fun (p : Nat × Nat) => if p.1 = n then loc p.2 else 0).sum := by
  induction l generalizing d with
  | nil => simp
  | cons p t ih =>
    obtain ⟨ix, i⟩ := p
    have hsz : (d.modify ix (· + alpha * loc i)).size = d.size := Array.size_modify
    simp only [List.foldl_cons, List.map_cons, List.sum_cons]
    rw [ih _ (fun ix' i' h => by rw [hsz]; exact hl ix' i' (List.mem_cons_of_mem _ h))]
    by_cases h : ix = n
    · subst h
      rw [getD_modify_self d ix _ (hl ix i (List.mem_cons_self ..))]
      simp only [if_true]; ring
    · rw [getD_modify_ne d ix n _ h]
      simp only [if_neg h]; ring

end C16L
