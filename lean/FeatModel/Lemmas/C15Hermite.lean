import FeatModel.Model.FEHermitePhys
import FeatModel.Lemmas.C15Subst
import Mathlib.Tactic.FieldSimp
import Mathlib.Tactic.Ring
import Mathlib.Algebra.Order.Field.Rat
/-! Hermite-3 on an arbitrarily oriented interval: duality, reproduction of cubics, C¹-continuity across a vertex —
    for all `a ≠ b` (both orientations) — and the link to the evaluator model. -/
namespace FeatModel.FE
open FeatModel.Poly FeatModel.Gen

theorem he_table_closed_form : BasisH1.he.vals = hermRefVals ∧ BasisH1.bf.vals = hermRefVals := by
  decide +kernel

theorem interpolate_interval (a b : Rat) (p : Poly) :
    interpolateAny Fam.HE (intervalMesh a b) p
      = [evalAt [a] p, evalAt [a] (FeatModel.Poly.pderiv 0 p), evalAt [b] p, evalAt [b] (FeatModel.Poly.pderiv 0 p)] := by
  simp [interpolateAny, intervalMesh, Mesh.n, Mesh.vertex, List.range_succ]

/-- evaluation of the four basis polynomials and their derivatives in closed form -/
theorem hermitePhys_eval (a b x : Rat) :
    (hermitePhys a b).map (evalAt [x]) =
      (let s := (x - a) / (b - a)
       [1 - 3 * s ^ 2 + 2 * s ^ 3, (b - a) * (s - 2 * s ^ 2 + s ^ 3), 3 * s ^ 2 - 2 * s ^ 3, (b - a) * (s ^ 3 - s ^ 2)]) := by
  simp only [hermitePhys, sPoly, List.map_cons, List.map_nil, evalAt, eval_add, eval_smul, eval_mul, eval_const]
  simp only [eval, monoEval, rpow, pt, List.getD_cons_zero]
  simp only [List.cons.injEq, and_true]
  refine ⟨?_, ?_, ?_, ?_⟩ <;> ring

theorem hermitePhys_deriv (a b x : Rat) (hne : a ≠ b) :
    (hermitePhys a b).map (fun p => evalAt [x] (FeatModel.Poly.pderiv 0 p)) =
      (let s := (x - a) / (b - a)
       [(-6 * s + 6 * s ^ 2) / (b - a), 1 - 4 * s + 3 * s ^ 2, (6 * s - 6 * s ^ 2) / (b - a), 3 * s ^ 2 - 2 * s]) := by
  have hd : b - a ≠ 0 := sub_ne_zero.mpr (Ne.symm hne)
  simp only [hermitePhys, sPoly, mul, add, smul, const, FeatModel.Poly.pderiv, monoDeriv, monoMul,
    List.flatMap_cons, List.flatMap_nil, List.map_cons, List.map_nil, List.cons_append, List.nil_append,
    List.append_nil, evalAt, eval, monoEval, Nat.reduceSub, Nat.reduceAdd, rpow, pt, List.getD_cons_zero]
  simp only [List.cons.injEq, and_true]
  refine ⟨?_, ?_, ?_, ?_⟩ <;> (field_simp; ring)

theorem eval_pderiv_add (x : Nat → Rat) (j : Nat) (p q : Poly) :
    eval x (FeatModel.Poly.pderiv j (add p q)) = eval x (FeatModel.Poly.pderiv j p) + eval x (FeatModel.Poly.pderiv j q) := by
  have : FeatModel.Poly.pderiv j (add p q) = add (FeatModel.Poly.pderiv j p) (FeatModel.Poly.pderiv j q) := by
    simp [FeatModel.Poly.pderiv, add]
  rw [this, eval_add]

theorem eval_pderiv_smul (x : Nat → Rat) (j : Nat) (c : Rat) (p : Poly) :
    eval x (FeatModel.Poly.pderiv j (smul c p)) = c * eval x (FeatModel.Poly.pderiv j p) := by
  induction p with
  | nil => simp [smul, FeatModel.Poly.pderiv, eval]
  | cons t p ih =>
    have h1 : FeatModel.Poly.pderiv j (smul c (t :: p))
        = (c * t.1 * ((monoDeriv j t.2).1 : Rat), (monoDeriv j t.2).2) :: FeatModel.Poly.pderiv j (smul c p) := rfl
    have h2 : FeatModel.Poly.pderiv j (t :: p)
        = (t.1 * ((monoDeriv j t.2).1 : Rat), (monoDeriv j t.2).2) :: FeatModel.Poly.pderiv j p := rfl
    rw [h1, h2, eval_cons, eval_cons, ih]; ring

theorem evalAt_getD (l : List Poly) (j : Nat) (x : List Rat) :
    evalAt x (l.getD j []) = (l.map (evalAt x)).getD j 0 := by
  simp only [List.getD_eq_getElem?_getD, List.getElem?_map]
  cases l[j]? <;> simp [evalAt, eval]

theorem evalAt_pderiv_getD (l : List Poly) (j : Nat) (x : List Rat) :
    evalAt x (FeatModel.Poly.pderiv 0 (l.getD j [])) = (l.map fun p => evalAt x (FeatModel.Poly.pderiv 0 p)).getD j 0 := by
  simp only [List.getD_eq_getElem?_getD, List.getElem?_map]
  cases l[j]? <;> simp [evalAt, eval, FeatModel.Poly.pderiv]

/-- value of the finite element function on `(a, b)` with local coefficients `u`, in closed form -/
theorem hermiteFn_eval (a b x : Rat) (u : List Rat) :
    evalAt [x] (hermiteFn a b u) =
      (let s := (x - a) / (b - a)
       u.getD 0 0 * (1 - 3 * s ^ 2 + 2 * s ^ 3) + u.getD 1 0 * ((b - a) * (s - 2 * s ^ 2 + s ^ 3))
         + u.getD 2 0 * (3 * s ^ 2 - 2 * s ^ 3) + u.getD 3 0 * ((b - a) * (s ^ 3 - s ^ 2))) := by
  unfold hermiteFn
  simp only [evalAt, eval_add, eval_smul]
  have h := fun j => evalAt_getD (hermitePhys a b) j [x]
  simp only [evalAt] at h
  simp only [h]
  have he := hermitePhys_eval a b x
  simp only [evalAt] at he
  rw [he]
  simp only [List.getD_cons_zero, List.getD_cons_succ]
  ring

/-- its derivative in closed form -/
theorem hermiteFn_deriv (a b x : Rat) (hne : a ≠ b) (u : List Rat) :
    evalAt [x] (FeatModel.Poly.pderiv 0 (hermiteFn a b u)) =
      (let s := (x - a) / (b - a)
       u.getD 0 0 * ((-6 * s + 6 * s ^ 2) / (b - a)) + u.getD 1 0 * (1 - 4 * s + 3 * s ^ 2)
         + u.getD 2 0 * ((6 * s - 6 * s ^ 2) / (b - a)) + u.getD 3 0 * (3 * s ^ 2 - 2 * s)) := by
  unfold hermiteFn
  simp only [evalAt, eval_pderiv_add, eval_pderiv_smul]
  have h := fun j => evalAt_pderiv_getD (hermitePhys a b) j [x]
  simp only [evalAt] at h
  simp only [h]
  have he := hermitePhys_deriv a b x hne
  simp only [evalAt] at he
  rw [he]
  simp only [List.getD_cons_zero, List.getD_cons_succ]
  ring

/-- at local vertex `l` of the interval (either orientation) the finite element function takes the value `u[2l]` and
    the derivative `u[2l+1]` -/
theorem hermite_trace (a b : Rat) (hne : a ≠ b) (u : List Rat) (l : Nat) (hl : l < 2) :
    evalAt [intervalVertex a b l] (hermiteFn a b u) = u.getD (2 * l) 0 ∧
    evalAt [intervalVertex a b l] (FeatModel.Poly.pderiv 0 (hermiteFn a b u)) = u.getD (2 * l + 1) 0 := by
  have hd : b - a ≠ 0 := sub_ne_zero.mpr (Ne.symm hne)
  have hl2 : l = 0 ∨ l = 1 := by omega
  rcases hl2 with rfl | rfl
  · simp only [intervalVertex, if_true, hermiteFn_eval, hermiteFn_deriv a b a hne]
    constructor <;> (field_simp; ring)
  · simp only [intervalVertex, if_false, Nat.one_ne_zero, hermiteFn_eval, hermiteFn_deriv a b b hne]
    constructor <;> (field_simp; ring)

/-- **duality**, both orientations: the node functionals (value and derivative at the two vertices) applied to
    `Σ u_j Φ_j` return `u` -/
theorem hermite_dual (a b : Rat) (hne : a ≠ b) (u : List Rat) :
    interpolateAny Fam.HE (intervalMesh a b) (hermiteFn a b u)
      = [u.getD 0 0, u.getD 1 0, u.getD 2 0, u.getD 3 0] := by
  rw [interpolate_interval]
  have h0 := hermite_trace a b hne u 0 (by omega)
  have h1 := hermite_trace a b hne u 1 (by omega)
  simp only [intervalVertex, if_true, if_false, Nat.one_ne_zero] at h0 h1
  rw [h0.1, h0.2, h1.1, h1.2]

/-- **cubics are reproduced**, value and derivative, on every interval of either orientation -/
theorem hermite_reproduces (a b : Rat) (hne : a ≠ b) (c0 c1 c2 c3 x : Rat) :
    evalAt [x] (hermiteFn a b (interpolateAny Fam.HE (intervalMesh a b) (cubic c0 c1 c2 c3)))
      = evalAt [x] (cubic c0 c1 c2 c3) ∧
    evalAt [x] (FeatModel.Poly.pderiv 0 (hermiteFn a b (interpolateAny Fam.HE (intervalMesh a b) (cubic c0 c1 c2 c3))))
      = evalAt [x] (FeatModel.Poly.pderiv 0 (cubic c0 c1 c2 c3)) := by
  have hd : b - a ≠ 0 := sub_ne_zero.mpr (Ne.symm hne)
  rw [interpolate_interval, hermiteFn_eval, hermiteFn_deriv a b x hne]
  simp only [List.getD_cons_zero, List.getD_cons_succ, cubic, FeatModel.Poly.pderiv, monoDeriv, List.map_cons,
    List.map_nil, evalAt, eval, monoEval, Nat.reduceSub, rpow, pt]
  constructor <;> (field_simp; ring)

/-- **C¹-continuity across a shared vertex**: two intervals `(a₁, b₁)`, `(a₂, b₂)` of arbitrary orientations whose local
    vertices `l₁`, `l₂` are the same point, with local coefficient vectors that carry the same two global DOFs (value,
    derivative) for that vertex: the two finite element functions and their derivatives coincide there -/
theorem hermite_C1 (a1 b1 a2 b2 : Rat) (h1 : a1 ≠ b1) (h2 : a2 ≠ b2) (u w : List Rat) (l1 l2 : Nat)
    (hl1 : l1 < 2) (hl2 : l2 < 2) (hX : intervalVertex a1 b1 l1 = intervalVertex a2 b2 l2)
    (hv : u.getD (2 * l1) 0 = w.getD (2 * l2) 0) (hdv : u.getD (2 * l1 + 1) 0 = w.getD (2 * l2 + 1) 0) :
    evalAt [intervalVertex a1 b1 l1] (hermiteFn a1 b1 u) = evalAt [intervalVertex a1 b1 l1] (hermiteFn a2 b2 w) ∧
    evalAt [intervalVertex a1 b1 l1] (FeatModel.Poly.pderiv 0 (hermiteFn a1 b1 u))
      = evalAt [intervalVertex a1 b1 l1] (FeatModel.Poly.pderiv 0 (hermiteFn a2 b2 w)) := by
  have t1 := hermite_trace a1 b1 h1 u l1 hl1
  have t2 := hermite_trace a2 b2 h2 w l2 hl2
  rw [← hX] at t2
  rw [t1.1, t1.2, t2.1, t2.2]
  exact ⟨hv, hdv⟩

/-! ### link to the evaluator model (`evalCellAny`: generated table × `slotScale`, reference coordinates) -/

theorem shapeFn_H1 : shapeFn Kind.H 1 0 = [((1 : Rat) / 2, [0]), (-(1 : Rat) / 2, [1])] ∧
    shapeFn Kind.H 1 1 = [((1 : Rat) / 2, [0]), ((1 : Rat) / 2, [1])] := by decide +kernel

/-- the transformation of the interval: `T(t) = (a + b)/2 + (b - a)/2 · t` -/
theorem mapPoint_interval (a b t : Rat) :
    mapPoint Kind.H 1 ((intervalMesh a b).entVerts 1 0) [t] = [(a + b) / 2 + (b - a) / 2 * t] := by
  have hv : (intervalMesh a b).entVerts 1 0 = [[a], [b]] := by
    simp [Mesh.entVerts, intervalMesh, Mesh.row, Mesh.vertex]
  rw [hv]
  simp only [mapPoint, worldDim, List.headD_cons, List.length_cons, List.length_nil, List.range_succ, List.range_zero,
    List.nil_append, List.map_cons, List.map_nil, mapPoly, numVerts, Nat.pow_one, List.cons_append, shapeFn_H1.1,
    shapeFn_H1.2, Poly.sum, List.foldr_cons, List.foldr_nil, evalAt, eval_add, eval_smul, List.getD_cons_zero,
    List.getD_cons_succ, Nat.zero_add]
  simp only [eval, monoEval, rpow, pt, List.getD_cons_zero, List.cons.injEq, and_true]
  ring

/-- the scaling coefficient of the evaluator is the **signed** half length -/
theorem hermCoeff_interval (a b : Rat) : hermCoeff (intervalMesh a b) 0 = (b - a) / 2 := by
  have hv : (intervalMesh a b).entVerts 1 0 = [[a], [b]] := by
    simp [Mesh.entVerts, intervalMesh, Mesh.row, Mesh.vertex]
  have hk : (intervalMesh a b).kind = Kind.H := rfl
  simp only [hermCoeff, hk, hv, jacMat, worldDim, List.headD_cons, List.length_cons, List.length_nil, List.range_succ,
    List.range_zero, List.nil_append, List.map_cons, List.map_nil, mapPoly, numVerts, Nat.pow_one, List.cons_append,
    shapeFn_H1.1, shapeFn_H1.2, Poly.sum, List.foldr_cons, List.foldr_nil, mat, List.getD_cons_zero,
    List.getD_cons_succ, Nat.zero_add]
  simp only [FeatModel.Poly.pderiv, add, smul, monoDeriv, List.map_cons, List.map_nil, List.cons_append,
    List.nil_append, List.append_nil, evalAt, eval, monoEval, Nat.reduceSub, rpow, pt, List.getD_cons_zero]
  push_cast
  ring

/-- the real basis functions are the reference basis functions of the generated table (`hermRefVals` = `BasisH1.he.vals`
    by `he_table_closed_form`) composed with `T⁻¹`, the derivative ones scaled by the signed coefficient `(b - a)/2` -/
theorem hermite_pullback (a b t : Rat) (hne : a ≠ b) :
    (hermitePhys a b).map (evalAt [(a + b) / 2 + (b - a) / 2 * t])
      = List.zipWith (· * ·) [1, (b - a) / 2, 1, (b - a) / 2] (hermRefVals.map (evalAt [t])) := by
  have hd : b - a ≠ 0 := sub_ne_zero.mpr (Ne.symm hne)
  rw [hermitePhys_eval]
  simp only [hermRefVals, List.map_cons, List.map_nil, List.zipWith_cons_cons, List.zipWith_nil_right, evalAt, eval,
    monoEval, rpow, pt, List.getD_cons_zero, List.cons.injEq, and_true]
  refine ⟨?_, ?_, ?_, ?_⟩ <;> (field_simp; ring)

/-- the values the evaluator model (`ev` / `interp` ops) returns for Hermite-3 on the interval `(a, b)` at the reference
    point `t`: generated table × `slotScale` -/
theorem evalCellAny_HE_values (a b t : Rat) :
    (evalCellAny Fam.HE (intervalMesh a b) 0 [t]).map (fun ce => ce.phi.map (·.value))
      = some (List.zipWith (· * ·) [1, hermCoeff (intervalMesh a b) 0, 1, hermCoeff (intervalMesh a b) 0]
          (BasisH1.he.vals.map (evalAt [t]))) := by
  have hd : derivFam Fam.HE = true := by decide
  have ht : tabOf Fam.HE (intervalMesh a b).kind (intervalMesh a b).dim = some BasisH1.he := rfl
  have hp : slotPerm Fam.HE (intervalMesh a b) 0 = [0, 1, 2, 3] := by
    simp [slotPerm, slotPermOf, intervalMesh, numLocal, dofsPerDim, numFaces, numVerts, List.range_succ]
  have hs : slotScale Fam.HE (intervalMesh a b) 0
      = [1, hermCoeff (intervalMesh a b) 0, 1, hermCoeff (intervalMesh a b) 0] := by
    simp [slotScale, hd, intervalMesh]
  have hn : BasisH1.he.nloc = 4 := rfl
  simp only [evalCellAny, hd, if_true, evalCell, ht, Option.map_some, hs, hp, hn]
  simp [List.range_succ, List.zipIdx, scaleBE, BasisTab.val, BasisH1.he]


end FeatModel.FE
