/-
C13 extensions: unit filters (`UnitFilter::filter_*`) and `Global::Filter` on consistent vectors.
-/
import FeatModel.Lemmas.C13Sum
open FeatModel.Dist

set_option linter.unusedSectionVars false

namespace FeatModel.C13L

variable {α : Type} [Field α]

theorem val_set (v : List α) (k : Nat) (a : α) (i : Nat) (hi : i < v.length) :
    val (v.set k a) i = if k = i then a else val v i := by
  rw [val_eq_getElem _ _ (by simpa using hi), val_eq_getElem _ _ hi, List.getElem_set]

theorem val_set_ne (v : List α) (k : Nat) (a : α) (i : Nat) (hne : k ≠ i) : val (v.set k a) i = val v i := by
  simp [val, List.getD_eq_getElem?_getD, List.getElem?_set_ne hne]

theorem unitFilterSet_length (f : List (Nat × α)) (v : List α) : (unitFilterSet f v).length = v.length := by
  unfold unitFilterSet
  induction f generalizing v with
  | nil => rfl
  | cons e f ih => rw [List.foldl_cons, ih, List.length_set]

theorem unitFilterSet_cons (e : Nat × α) (f : List (Nat × α)) (v : List α) :
    unitFilterSet (e :: f) v = unitFilterSet f (v.set e.1 e.2) := rfl

/-- entries that are not filter indices are unchanged -/
theorem unitFilterSet_val_not_mem (f : List (Nat × α)) (v : List α) (i : Nat) (hi : i ∉ f.map (·.1)) :
    val (unitFilterSet f v) i = val v i := by
  induction f generalizing v with
  | nil => rfl
  | cons e f ih =>
    rw [List.map_cons, List.mem_cons, not_or] at hi
    rw [unitFilterSet_cons, ih _ hi.2, val_set_ne _ _ _ _ (fun h => hi.1 h.symm)]

/-- a filter index receives its value (duplicate-free index set) -/
theorem unitFilterSet_val_mem (f : List (Nat × α)) (hn : (f.map (·.1)).Nodup) (v : List α) (e : Nat × α)
    (he : e ∈ f) (hlt : e.1 < v.length) : val (unitFilterSet f v) e.1 = e.2 := by
  induction f generalizing v with
  | nil => simp at he
  | cons e0 f ih =>
    rw [List.map_cons, List.nodup_cons] at hn
    rw [unitFilterSet_cons]
    rcases List.mem_cons.1 he with rfl | h
    · rw [unitFilterSet_val_not_mem _ _ _ hn.1, val_set _ _ _ _ hlt, if_pos rfl]
    · exact ih hn.2 _ h (by simpa using hlt)

theorem find?_fst_eq_none_iff (f : List (Nat × α)) (i : Nat) :
    f.find? (fun e => e.1 == i) = none ↔ i ∉ f.map (·.1) := by
  rw [List.find?_eq_none]
  simp only [List.mem_map, not_exists, not_and, beq_iff_eq]

/-- both cases in one formula: what the filter prescribes for `i`, else the old value -/
theorem unitFilterSet_val (f : List (Nat × α)) (hn : (f.map (·.1)).Nodup) (v : List α) (i : Nat)
    (hi : i < v.length) :
    val (unitFilterSet f v) i = ((f.find? fun e => e.1 == i).map (·.2)).getD (val v i) := by
  cases hf : f.find? (fun e => e.1 == i) with
  | none => rw [unitFilterSet_val_not_mem _ _ _ ((find?_fst_eq_none_iff f i).1 hf)]; rfl
  | some e =>
    have h1 : e.1 = i := by simpa using List.find?_some hf
    have h2 := List.mem_of_find?_eq_some hf
    rw [← h1, unitFilterSet_val_mem f hn v e h2 (by rw [h1]; exact hi)]; rfl

theorem unitFilterZero_eq (f : List (Nat × α)) (v : List α) :
    unitFilterZero f v = unitFilterSet (f.map fun e => (e.1, 0)) v := by
  unfold unitFilterZero unitFilterSet
  rw [List.foldl_map]

theorem unitFilterZero_length (f : List (Nat × α)) (v : List α) : (unitFilterZero f v).length = v.length := by
  rw [unitFilterZero_eq, unitFilterSet_length]

theorem unitFilterZero_val_not_mem (f : List (Nat × α)) (v : List α) (i : Nat) (hi : i ∉ f.map (·.1)) :
    val (unitFilterZero f v) i = val v i := by
  rw [unitFilterZero_eq, unitFilterSet_val_not_mem]
  rw [List.map_map]; exact hi

theorem unitFilterZero_val_mem (f : List (Nat × α)) (v : List α) (i : Nat) (hi : i ∈ f.map (·.1))
    (hlt : i < v.length) : val (unitFilterZero f v) i = 0 := by
  unfold unitFilterZero
  induction f generalizing v with
  | nil => simp at hi
  | cons e f ih =>
    rw [List.foldl_cons]
    by_cases hm : i ∈ f.map (·.1)
    · exact ih _ hm (by simpa using hlt)
    · have he : e.1 = i := by
        rcases List.mem_cons.1 hi with h | h
        · exact h.symm
        · exact (hm h).elim
      have := unitFilterZero_val_not_mem f (v.set e.1 0) i hm
      unfold unitFilterZero at this
      rw [this, val_set _ _ _ _ hlt, if_pos he]

theorem unitFilterZero_val (f : List (Nat × α)) (v : List α) (i : Nat) (hi : i < v.length) :
    val (unitFilterZero f v) i = if (f.find? fun e => e.1 == i).isSome then 0 else val v i := by
  cases hf : f.find? (fun e => e.1 == i) with
  | none => rw [unitFilterZero_val_not_mem _ _ _ ((find?_fst_eq_none_iff f i).1 hf)]; rfl
  | some e =>
    have h1 : e.1 = i := by simpa using List.find?_some hf
    have h2 := List.mem_of_find?_eq_some hf
    rw [unitFilterZero_val_mem f v i (List.mem_map.2 ⟨e, h2, h1⟩) hi]; rfl

theorem gfilter_getD (zero : Bool) (fs : List (List (Nat × α))) (vs : List (List α)) (r : Nat)
    (hf : r < fs.length) (hv : r < vs.length) :
    (gfilter zero fs vs).getD r []
      = if zero then unitFilterZero (fs.getD r []) (vs.getD r []) else unitFilterSet (fs.getD r []) (vs.getD r []) := by
  unfold gfilter
  simp [List.getD_eq_getElem?_getD, hf, hv]

theorem gfilter_getD_length (zero : Bool) (fs : List (List (Nat × α))) (vs : List (List α)) (r : Nat)
    (hf : r < fs.length) (hv : r < vs.length) :
    ((gfilter zero fs vs).getD r []).length = (vs.getD r []).length := by
  rw [gfilter_getD zero fs vs r hf hv]
  cases zero
  · exact unitFilterSet_length _ _
  · exact unitFilterZero_length _ _

/-- a filter that prescribes the same for all copies of a shared DOF maps consistent vectors to consistent vectors -/
theorem gfilter_type1 (zero : Bool) (d : Decomp) (fs : List (List (Nat × α))) (vs : List (List α))
    (hfn : fs.length = d.np) (hvn : vs.length = d.np)
    (hv : ∀ r, r < d.np → (vs.getD r []).length = (d.patch r).n)
    (hnd : ∀ r, r < d.np → ((fs.getD r []).map (·.1)).Nodup)
    (hc : ∀ r s i j, r < d.np → s < d.np → i < (d.patch r).n → j < (d.patch s).n → d.gdof r i = d.gdof s j →
      ((fs.getD r []).find? fun e => e.1 == i).map (·.2) = ((fs.getD s []).find? fun e => e.1 == j).map (·.2))
    (h1 : ∀ r s i j, r < d.np → s < d.np → i < (d.patch r).n → j < (d.patch s).n →
      d.gdof r i = d.gdof s j → val (vs.getD r []) i = val (vs.getD s []) j)
    (r s i j : Nat) (hr : r < d.np) (hs : s < d.np) (hi : i < (d.patch r).n) (hj : j < (d.patch s).n)
    (hg : d.gdof r i = d.gdof s j) :
    val ((gfilter zero fs vs).getD r []) i = val ((gfilter zero fs vs).getD s []) j := by
  rw [gfilter_getD zero fs vs r (by omega) (by omega), gfilter_getD zero fs vs s (by omega) (by omega)]
  have hc' := hc r s i j hr hs hi hj hg
  have h1' := h1 r s i j hr hs hi hj hg
  cases zero
  · simp only [Bool.false_eq_true, if_false]
    rw [unitFilterSet_val _ (hnd r hr) _ i (by rw [hv r hr]; exact hi),
      unitFilterSet_val _ (hnd s hs) _ j (by rw [hv s hs]; exact hj), hc', h1']
  · simp only [if_true]
    rw [unitFilterZero_val _ _ i (by rw [hv r hr]; exact hi), unitFilterZero_val _ _ j (by rw [hv s hs]; exact hj),
      h1']
    have : ((fs.getD r []).find? fun e => e.1 == i).isSome = ((fs.getD s []).find? fun e => e.1 == j).isSome := by
      have := congrArg Option.isSome hc'
      simpa using this
    rw [this]

end FeatModel.C13L
