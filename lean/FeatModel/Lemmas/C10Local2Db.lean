import FeatModel.Model.RefineSpec
/-! C10 local refinement lemma, 2-D, two refinement steps (histories): kernel evaluation of the generated tables. -/
namespace FeatModel.Refine
set_option maxRecDepth 100000

/-- two refinement steps of the quadrilateral / triangle with all edges flipped alternately -/
theorem local_quad_twice : ∀ o < 16, (refine (refine (cell2 .hypercube o 1))).consistent = true := by decide +kernel

end FeatModel.Refine
