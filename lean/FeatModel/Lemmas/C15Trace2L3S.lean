import FeatModel.Model.FETrace
/-! kernel-checked trace conformity of Lagrange-3 on the triangle, all 8 edge orientations -/
namespace FeatModel.FE
set_option maxRecDepth 100000 in
theorem trace2L3S : traceAll2 .L3 .S = true := by decide +kernel
end FeatModel.FE
