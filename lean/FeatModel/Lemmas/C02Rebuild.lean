import FeatModel.Model.LA.Rebuild
import FeatModel.Lemmas.C02Alias
import FeatModel.Lemmas.C02Transpose
/-!
C02 (extension): `DenseMatrix::transpose_inplace`, rebuilding from the layout object / the adjacency graph,
the index-type round trip through 32 bits, `DenseVector::permute`.  Core Lean only.
-/
namespace C02L
open FeatModel FeatModel.LA

namespace RebuildAux
variable {α : Type}

/-- a guarded accumulation of zeros from `s` stays `s` (only `0 + 0 = 0`-free form: from any `s` with `s + 0 = s`
    is not available, so the statement is for the start value `0`) -/
theorem foldl_zero [Zero α] [Add α] (h0 : (0 : α) + 0 = 0) (c : Nat → Prop) [DecidablePred c] (v : Nat → α)
    (hv : ∀ k, v k = 0) : ∀ (l : List Nat), l.foldl (fun s k => if c k then s + v k else s) (0 : α) = 0
  | [] => rfl
  | k :: l => by
    rw [List.foldl_cons]
    by_cases h : c k
    · rw [if_pos h, hv k, h0]; exact foldl_zero h0 c v hv l
    · rw [if_neg h]; exact foldl_zero h0 c v hv l

theorem foldRange_zero [Zero α] [Add α] (h0 : (0 : α) + 0 = 0) (c : Nat → Prop) [DecidablePred c] (v : Nat → α)
    (hv : ∀ k, v k = 0) (s e : Nat) : foldRange s e (fun s k => if c k then s + v k else s) (0 : α) = 0 := by
  unfold foldRange
  exact foldl_zero h0 c v hv _

theorem csr_entry_zero [Zero α] [Add α] (h0 : (0 : α) + 0 = 0) (A : Csr α) (hz : ∀ k, A.val.getD k 0 = 0) (i j : Nat) :
    A.entry i j = 0 := by
  unfold Csr.entry
  exact foldRange_zero h0 (fun k => A.colInd.getD k A.cols = j) (fun k => A.val.getD k 0) hz _ _

theorem banded_entry_zero [Zero α] [Add α] (h0 : (0 : α) + 0 = 0) (A : Banded α) (hz : ∀ k, A.val.getD k 0 = 0)
    (i j : Nat) : A.entry i j = 0 := by
  unfold Banded.entry
  exact foldRange_zero h0 (fun k => i + A.offsets.getD k 0 + 1 = j + A.rows) (fun k => A.val.getD (k * A.rows + i) 0)
    (fun k => hz _) _ _

theorem bcsr_entry_zero [Zero α] [Add α] (h0 : (0 : α) + 0 = 0) (A : Bcsr α) (hz : ∀ k, A.val.getD k 0 = 0)
    (i j : Nat) : A.entry i j = 0 := by
  unfold Bcsr.entry
  split
  · rfl
  · exact foldRange_zero h0 (fun k => A.colInd.getD k A.cols = j / A.bw)
      (fun k => A.val.getD (k * A.bh * A.bw + i % A.bh * A.bw + j % A.bw) 0) (fun k => hz _) _ _

theorem cscr_entry_zero [Zero α] [Add α] (h0 : (0 : α) + 0 = 0) (A : Cscr α) (hz : ∀ k, A.val.getD k 0 = 0)
    (i j : Nat) : A.entry i j = 0 := by
  unfold Cscr.entry
  generalize List.range A.usedRows = l
  induction l with
  | nil => rfl
  | cons nz l ih =>
    rw [List.foldl_cons]
    split
    · rw [foldRange_zero h0 (fun k => A.colInd.getD k A.cols = j) (fun k => A.val.getD k 0) hz]; exact ih
    · exact ih

theorem replicate_getD_zero [Zero α] (n k : Nat) : (Array.replicate n (0 : α)).getD k 0 = 0 := getD_replicate n k 0

theorem map_const0 (a : Array α) (v : α) : a.map (fun _ => v) = Array.replicate a.size v := by
  apply Array.ext
  · simp
  · intro i h1 h2; simp

theorem map_const_replicate (n : Nat) (v : α) : (Array.replicate n v).map (fun _ => v) = Array.replicate n v := by
  rw [map_const0, Array.size_replicate]

theorem csr_valid_congr (A : Csr α) (v : Array α) (h : v.size = A.val.size) :
    ({ A with val := v } : Csr α).valid = A.valid := by
  simp only [Csr.valid, Csr.isArrayless, Csr.wf, Csr.sortedRows, Csr.rowBegin, Csr.rowEnd, Array.isEmpty, h]

theorem cscr_valid_congr (A : Cscr α) (v : Array α) (h : v.size = A.val.size) :
    ({ A with val := v } : Cscr α).valid = A.valid := by
  simp only [Cscr.valid, Cscr.isArrayless, Cscr.wf, Cscr.sortedRows, Cscr.usedRows, Array.isEmpty, h]

theorem bcsr_valid_congr (A : Bcsr α) (v : Array α) (h : v.size = A.val.size) :
    ({ A with val := v } : Bcsr α).valid = A.valid := by
  simp only [Bcsr.valid, Bcsr.isArrayless, Bcsr.wf, Bcsr.sortedRows, Array.isEmpty, h]

theorem banded_wf_congr (A : Banded α) (v : Array α) (h : v.size = A.val.size) :
    ({ A with val := v } : Banded α).wf = A.wf := by
  simp only [Banded.wf, Banded.noo, h]

/-- the value count a valid BCSR layout announces is the length of its value array (also when arrayless) -/
theorem bcsr_valid_size {A : Bcsr α} (h : A.valid = true) : A.usedElements * A.bh * A.bw = A.val.size := by
  simp only [Bcsr.valid, Bcsr.isArrayless, Bcsr.wf, Array.isEmpty, Bool.or_eq_true, Bool.and_eq_true, beq_iff_eq,
    decide_eq_true_eq] at h
  unfold Bcsr.usedElements
  rcases h with ⟨⟨_, h2⟩, h3⟩ | ⟨⟨⟨⟨⟨⟨_, _⟩, _⟩, h4⟩, _⟩, _⟩, _⟩
  · rw [h2, h3]; simp
  · exact h4.symm

theorem banded_wf_size {A : Banded α} (h : A.wf = true) : A.rows * A.noo = A.val.size := by
  simp only [Banded.wf, Bool.and_eq_true, beq_iff_eq] at h
  exact h.1.1.symm

end RebuildAux
open RebuildAux

/-! ### 1. `transpose_inplace` -/

theorem dense_transposeInplace_eq {α} [Zero α] (A : Dense α) (h : A.wf = true) : A.transposeInplace = A.transpose := by
  have hs : A.val.size = A.cols * A.rows := by
    simp only [Dense.wf, beq_iff_eq] at h
    rw [h, Nat.mul_comm]
  unfold Dense.transposeInplace Dense.transpose
  rw [transposeKernel_eq A.val A.val A.rows A.cols hs]

theorem stepX_triDense_eq {α} [Zero α] (round : α → α) (m : Mat α) (hv : m.valid = true) (t : Mat α)
    (s : Option (Mat α)) (h : m.stepX round .triDense = .ok t s) : m.step .tri = .ok t ∧ s = none := by
  cases m with
  | dense A =>
    simp only [Mat.stepX, ResX.ok.injEq] at h
    obtain ⟨h1, h2⟩ := h
    refine ⟨?_, h2.symm⟩
    simp only [Mat.step]
    rw [← h1, dense_transposeInplace_eq A hv]
  | csr A => simp [Mat.stepX] at h
  | banded A => simp [Mat.stepX] at h
  | cscr A => simp [Mat.stepX] at h
  | bcsr A => simp [Mat.stepX] at h

/-! ### 2. rebuild from the layout object -/

/-- pattern part (no law on the scalars): valid layout, same dimensions, same format / index arrays / value count -/
theorem layout_rebuild_pattern {α} [Zero α] (m t : Mat α) (hv : m.valid = true) (h : m.layoutRebuild = some t) :
    t.valid = true ∧ t.rows = m.rows ∧ t.cols = m.cols ∧
    t.mapVal (fun _ => (0 : α)) = m.mapVal (fun _ => (0 : α)) := by
  cases m with
  | csr A =>
    simp only [Mat.layoutRebuild, Option.some.injEq] at h
    subst h
    refine ⟨?_, rfl, rfl, ?_⟩
    · simp only [Mat.valid] at hv ⊢
      rw [csr_valid_congr A _ (by simp [Csr.usedElements])]; exact hv
    · simp only [Mat.mapVal, Csr.usedElements, map_const0, Array.size_replicate]
  | banded A =>
    simp only [Mat.layoutRebuild, Option.some.injEq] at h
    subst h
    simp only [Mat.valid] at hv
    have hs := banded_wf_size hv
    refine ⟨?_, rfl, rfl, ?_⟩
    · simp only [Mat.valid]
      rw [banded_wf_congr A _ (by simp [hs])]; exact hv
    · simp only [Mat.mapVal, map_const0, Array.size_replicate, hs]
  | cscr A =>
    simp only [Mat.layoutRebuild, Option.some.injEq] at h
    subst h
    refine ⟨?_, rfl, rfl, ?_⟩
    · simp only [Mat.valid] at hv ⊢
      rw [cscr_valid_congr A _ (by simp [Cscr.usedElements])]; exact hv
    · simp only [Mat.mapVal, Cscr.usedElements, map_const0, Array.size_replicate]
  | dense A => simp [Mat.layoutRebuild] at h
  | bcsr A =>
    simp only [Mat.layoutRebuild, Option.some.injEq] at h
    subst h
    simp only [Mat.valid, Bool.and_eq_true] at hv
    have hs := bcsr_valid_size hv.1.1
    refine ⟨?_, rfl, rfl, ?_⟩
    · simp only [Mat.valid, Bool.and_eq_true]
      rw [bcsr_valid_congr A _ (by simp [hs])]; exact hv
    · simp only [Mat.mapVal, map_const0, Array.size_replicate, hs]

/-- the rebuilt container represents the zero matrix (only `0 + 0 = 0` is used; all `i`, `j`) -/
theorem layout_rebuild_entry {α} [Zero α] [Add α] (h0 : (0 : α) + 0 = 0) (m t : Mat α)
    (h : m.layoutRebuild = some t) (i j : Nat) : t.entry i j = 0 := by
  cases m with
  | csr A =>
    simp only [Mat.layoutRebuild, Option.some.injEq] at h
    subst h
    exact csr_entry_zero h0 _ (fun k => replicate_getD_zero _ k) i j
  | banded A =>
    simp only [Mat.layoutRebuild, Option.some.injEq] at h
    subst h
    exact banded_entry_zero h0 _ (fun k => replicate_getD_zero _ k) i j
  | cscr A =>
    simp only [Mat.layoutRebuild, Option.some.injEq] at h
    subst h
    exact cscr_entry_zero h0 _ (fun k => replicate_getD_zero _ k) i j
  | dense A => simp [Mat.layoutRebuild] at h
  | bcsr A =>
    simp only [Mat.layoutRebuild, Option.some.injEq] at h
    subst h
    exact bcsr_entry_zero h0 _ (fun k => replicate_getD_zero _ k) i j

theorem layout_rebuild_spec {α} [Zero α] [Add α] (h0 : (0 : α) + 0 = 0) (m t : Mat α) (hv : m.valid = true)
    (h : m.layoutRebuild = some t) :
    t.valid = true ∧ t.rows = m.rows ∧ t.cols = m.cols ∧
    t.mapVal (fun _ => (0 : α)) = m.mapVal (fun _ => (0 : α)) ∧
    (∀ i j, t.entry i j = 0) := by
  obtain ⟨a, b, c, d⟩ := layout_rebuild_pattern m t hv h
  exact ⟨a, b, c, d, layout_rebuild_entry h0 m t h⟩

/-- the fresh value array has exactly the length of the old one -/
theorem layout_rebuild_val_size {α} [Zero α] (m t : Mat α) (hv : m.valid = true) (h : m.layoutRebuild = some t) :
    (match t, m with
      | .csr B, .csr A => B.val = Array.replicate A.val.size 0
      | .banded B, .banded A => B.val = Array.replicate A.val.size 0
      | .cscr B, .cscr A => B.val = Array.replicate A.val.size 0
      | .bcsr B, .bcsr A => B.val = Array.replicate A.val.size 0
      | _, _ => False) := by
  cases m with
  | csr A => simp only [Mat.layoutRebuild, Option.some.injEq] at h; subst h; rfl
  | banded A =>
    simp only [Mat.layoutRebuild, Option.some.injEq] at h; subst h
    simp only [Mat.valid] at hv
    simp only [banded_wf_size hv]
  | cscr A => simp only [Mat.layoutRebuild, Option.some.injEq] at h; subst h; rfl
  | dense A => simp [Mat.layoutRebuild] at h
  | bcsr A =>
    simp only [Mat.layoutRebuild, Option.some.injEq] at h; subst h
    simp only [Mat.valid, Bool.and_eq_true] at hv
    simp only [bcsr_valid_size hv.1.1]

/-- `stepX .layoutz` / `.layouta k`: the target is the rebuilt container, the source (kept for `layouta`) is untouched -/
theorem stepX_layout_spec {α} [Zero α] [Add α] (h0 : (0 : α) + 0 = 0) (round : α → α) (m : Mat α) (hv : m.valid = true)
    (o : XOp) (ho : o = .layoutz ∨ ∃ k, o = .layouta k) (t : Mat α) (s : Option (Mat α))
    (h : m.stepX round o = .ok t s) :
    (s = none ∨ s = some m) ∧ t.valid = true ∧ t.rows = m.rows ∧ t.cols = m.cols ∧
    t.mapVal (fun _ => (0 : α)) = m.mapVal (fun _ => (0 : α)) ∧ (∀ i j, t.entry i j = 0) := by
  rcases ho with rfl | ⟨k, rfl⟩
  · simp only [Mat.stepX] at h
    split at h
    · next t' ht =>
      simp only [ResX.ok.injEq] at h
      obtain ⟨rfl, rfl⟩ := h
      exact ⟨Or.inl rfl, layout_rebuild_spec h0 m _ hv ht⟩
    · cases h
  · simp only [Mat.stepX] at h
    split at h
    · next t' ht =>
      split at h
      · simp only [ResX.ok.injEq] at h
        obtain ⟨rfl, rfl⟩ := h
        exact ⟨Or.inr rfl, layout_rebuild_spec h0 m _ hv ht⟩
      · cases h
    · cases h

/-! ### 3. rebuild from the adjacency graph (CSR) -/

theorem graph_rebuild_spec {α} [Zero α] [Add α] (h0 : (0 : α) + 0 = 0) (round : α → α) (A : Csr α)
    (hv : A.valid = true) (t : Mat α) (s : Option (Mat α)) (h : (Mat.csr A).stepX round .graphz = .ok t s) :
    ∃ B, t = .csr B ∧ B.valid = true ∧ B.rows = A.rows ∧ B.cols = A.cols ∧ B.rowPtr = A.rowPtr ∧
      B.colInd = A.colInd ∧ B.val.size = A.val.size ∧ ∀ i j, B.entry i j = 0 := by
  simp only [Mat.stepX, ResX.ok.injEq] at h
  obtain ⟨rfl, rfl⟩ := h
  refine ⟨_, rfl, ?_⟩
  by_cases hu : A.usedElements = 0
  · rw [if_pos hu]
    refine ⟨hv, rfl, rfl, rfl, rfl, rfl, ?_⟩
    have hz : ∀ k, A.val.getD k 0 = 0 := by
      intro k
      unfold Csr.usedElements at hu
      simp [Array.getD, hu]
    exact csr_entry_zero h0 A hz
  · rw [if_neg hu]
    refine ⟨?_, rfl, rfl, rfl, rfl, ?_, ?_⟩
    · rw [csr_valid_congr A _ (by simp [Csr.usedElements])]; exact hv
    · simp [Csr.usedElements]
    · exact csr_entry_zero h0 _ (fun k => replicate_getD_zero _ k)

/-- no source is kept by the graph rebuild; it exists exactly for CSR -/
theorem graph_rebuild_src {α} [Zero α] (round : α → α) (m : Mat α) (t : Mat α) (s : Option (Mat α))
    (h : m.stepX round .graphz = .ok t s) : s = none ∧ ∃ A, m = .csr A := by
  cases m with
  | csr A =>
    simp only [Mat.stepX, ResX.ok.injEq] at h
    exact ⟨h.2.symm, A, rfl⟩
  | banded A => simp [Mat.stepX] at h
  | cscr A => simp [Mat.stepX] at h
  | dense A => simp [Mat.stepX] at h
  | bcsr A => simp [Mat.stepX] at h

/-- the layout rebuild exists for every format but dense -/
theorem layout_rebuild_none {α} [Zero α] (m : Mat α) : m.layoutRebuild = none ↔ ∃ A, m = .dense A := by
  cases m <;> simp [Mat.layoutRebuild]

/-! ### 5. vector permutation -/

theorem vecPermute_spec {α} [Zero α] (x : Array α) (p : Array Nat) (hp : p.size = x.size) (hpos : 0 < p.size) :
    ∃ y, vecPermute x p = some y ∧ y.size = x.size ∧ ∀ i, i < x.size → y.getD i 0 = x.getD (p.getD i 0) 0 := by
  refine ⟨Array.ofFn (n := x.size) fun i => x.getD (p.getD i.val 0) 0, ?_, ?_, ?_⟩
  · unfold vecPermute
    rw [if_neg (by omega), if_neg (by omega)]
  · simp
  · intro i hi
    simp [Array.getD, hi]

/-! ### 4. index type round trip -/

theorem narrow32_id (a : Array Nat) (h : ∀ i, i < a.size → a.getD i 0 < 2 ^ 32) : narrow32 a = a := by
  unfold narrow32
  apply Array.ext
  · simp
  · intro i h1 h2
    have := h i h2
    simp only [Array.getD, h2, dite_true] at this
    simp only [Array.getElem_map]
    exact Nat.mod_eq_of_lt this

/-- every element of the array fits into 32 bits -/
def arrFit (a : Array Nat) : Prop := ∀ i, i < a.size → a.getD i 0 < 2 ^ 32

/-- every element of every index array fits into 32 bits -/
def idxFit {α : Type} : Mat α → Prop
  | .csr A => arrFit A.rowPtr ∧ arrFit A.colInd
  | .banded A => arrFit A.offsets
  | .cscr A => arrFit A.rowPtr ∧ arrFit A.colInd ∧ arrFit A.rowNumbers
  | .dense _ => True
  | .bcsr A => arrFit A.rowPtr ∧ arrFit A.colInd

theorem narrow32_twice (a : Array Nat) (h : arrFit a) : narrow32 (narrow32 a) = a := by
  rw [narrow32_id a h, narrow32_id a h]

theorem stepX_itx_eq {α} [Zero α] (round : α → α) (m : Mat α) (hn : idxFit m) : m.stepX round .itx = .ok m none := by
  cases m with
  | csr A => obtain ⟨h1, h2⟩ := hn; simp only [Mat.stepX, Mat.mapIdx, narrow32_twice _ h1, narrow32_twice _ h2]
  | banded A => simp only [Mat.stepX, Mat.mapIdx, narrow32_twice _ hn]
  | cscr A =>
    obtain ⟨h1, h2, h3⟩ := hn
    simp only [Mat.stepX, Mat.mapIdx, narrow32_twice _ h1, narrow32_twice _ h2, narrow32_twice _ h3]
  | dense A => simp only [Mat.stepX, Mat.mapIdx]
  | bcsr A => obtain ⟨h1, h2⟩ := hn; simp only [Mat.stepX, Mat.mapIdx, narrow32_twice _ h1, narrow32_twice _ h2]

/-! ### `idxFit` from validity and 32-bit dimensions -/

namespace RebuildAux

theorem mono_le_last (f : Nat → Nat) (n : Nat) (h : ∀ i, i < n → f i ≤ f (i + 1)) : ∀ d i, i + d = n → f i ≤ f n
  | 0, i, e => by rw [show i = n by omega]; exact Nat.le_refl _
  | d + 1, i, e => Nat.le_trans (h i (by omega)) (mono_le_last f n h d (i + 1) (by omega))

theorem getD_of_lt (a : Array Nat) {i : Nat} (hi : i < a.size) : a.getD i 0 = a[i] := by
  simp [Array.getD_eq_getD_getElem?, hi]

theorem arrFit_empty (a : Array Nat) (h : a.isEmpty = true) : arrFit a := by
  intro i hi
  simp only [Array.isEmpty, decide_eq_true_eq] at h
  omega

/-- a monotone offset array of length `n + 1` ending at `e < 2^32` -/
theorem arrFit_ptr (a : Array Nat) (n e : Nat) (hs : a.size = n + 1) (hl : a.getD n 0 = e)
    (hm : ∀ i, i < n → a.getD i 0 ≤ a.getD (i + 1) 0) (he : e < 2 ^ 32) : arrFit a := by
  intro i hi
  have := mono_le_last (fun i => a.getD i 0) n hm (n - i) i (by omega)
  simp only [hl] at this
  omega

theorem arrFit_all (a : Array Nat) (c : Nat) (h : a.all (· < c) = true) (hc : c ≤ 2 ^ 32) : arrFit a := by
  intro i hi
  simp only [Array.all_eq_true, decide_eq_true_eq] at h
  have := h i hi
  rw [getD_of_lt a hi]
  omega

end RebuildAux

/-- what the dimensions have to satisfy for every index to fit into 32 bits -/
def sizeFit {α : Type} : Mat α → Prop
  | .csr A => A.cols ≤ 2 ^ 32 ∧ A.val.size < 2 ^ 32
  | .banded A => A.rows + A.cols ≤ 2 ^ 32 + 1
  | .cscr A => A.rows ≤ 2 ^ 32 ∧ A.cols ≤ 2 ^ 32 ∧ A.val.size < 2 ^ 32
  | .dense _ => True
  | .bcsr A => A.cols ≤ 2 ^ 32 ∧ A.colInd.size < 2 ^ 32

theorem idxFit_of_valid_all {α : Type} (m : Mat α) (hv : m.valid = true) (hf : sizeFit m) : idxFit m := by
  cases m with
  | csr A =>
    obtain ⟨hc, hn⟩ := hf
    simp only [Mat.valid, Csr.valid, Csr.isArrayless, Csr.wf, Bool.or_eq_true, Bool.and_eq_true, beq_iff_eq,
      List.all_eq_true, List.mem_range, decide_eq_true_eq] at hv
    rcases hv with ⟨⟨h1, h2⟩, _⟩ | ⟨⟨⟨⟨⟨⟨a, _⟩, c⟩, _⟩, e⟩, f⟩, _⟩
    · exact ⟨arrFit_empty _ h1, arrFit_empty _ h2⟩
    · exact ⟨arrFit_ptr _ _ _ a c e hn, arrFit_all _ _ f hc⟩
  | banded A =>
    simp only [Mat.valid, Banded.wf, Bool.and_eq_true, Array.all_eq_true, decide_eq_true_eq] at hv
    obtain ⟨⟨_, h2⟩, _⟩ := hv
    intro i hi
    have := h2 i hi
    simp only [sizeFit] at hf
    rw [getD_of_lt _ hi]
    omega
  | cscr A =>
    obtain ⟨hr, hc, hn⟩ := hf
    simp only [Mat.valid, Cscr.valid, Cscr.isArrayless, Cscr.wf, Bool.or_eq_true, Bool.and_eq_true, beq_iff_eq,
      List.all_eq_true, List.mem_range, decide_eq_true_eq] at hv
    rcases hv with ⟨⟨⟨h1, h2⟩, _⟩, h4⟩ | ⟨⟨⟨⟨⟨⟨⟨⟨a, _⟩, c⟩, _⟩, e⟩, f⟩, g⟩, _⟩, _⟩
    · exact ⟨arrFit_empty _ h1, arrFit_empty _ h2, arrFit_empty _ h4⟩
    · exact ⟨arrFit_ptr _ _ _ a c e hn, arrFit_all _ _ f hc, arrFit_all _ _ g hr⟩
  | dense A => trivial
  | bcsr A =>
    obtain ⟨hc, hn⟩ := hf
    simp only [Mat.valid, Bcsr.valid, Bcsr.isArrayless, Bcsr.wf, Bool.or_eq_true, Bool.and_eq_true, beq_iff_eq,
      List.all_eq_true, List.mem_range, decide_eq_true_eq] at hv
    rcases hv.1.1 with ⟨⟨h1, h2⟩, _⟩ | ⟨⟨⟨⟨⟨⟨a, _⟩, c⟩, _⟩, e⟩, f⟩, _⟩
    · exact ⟨arrFit_empty _ h1, arrFit_empty _ h2⟩
    · exact ⟨arrFit_ptr _ _ _ a c e hn, arrFit_all _ _ f hc⟩

theorem idxFit_of_valid {α : Type} (A : Csr α) (hv : A.valid = true) (_hr : A.rows < 2 ^ 32) (hc : A.cols < 2 ^ 32)
    (hn : A.val.size < 2 ^ 32) : idxFit (.csr A) :=
  idxFit_of_valid_all (.csr A) hv ⟨Nat.le_of_lt hc, hn⟩

/-- the index-type round trip is the identity on every valid container whose dimensions fit -/
theorem stepX_itx_valid {α} [Zero α] (round : α → α) (m : Mat α) (hv : m.valid = true) (hf : sizeFit m) :
    m.stepX round .itx = .ok m none ∧ m.step .it = .ok m :=
  ⟨stepX_itx_eq round m (idxFit_of_valid_all m hv hf), rfl⟩

/-! ### clause 5 without any law on the scalars: at most one stored position per `(i, j)`, so `0` or `0 + 0` -/

namespace RebuildAux
variable {α : Type}

theorem foldl_nohit' [Add α] (c : Nat → Prop) [DecidablePred c] (v : Nat → α) :
    ∀ (l : List Nat) (init : α), (∀ k, k ∈ l → ¬ c k) → l.foldl (fun s k => if c k then s + v k else s) init = init
  | [], _, _ => rfl
  | k :: l, init, h => by
    rw [List.foldl_cons, if_neg (h k (List.mem_cons_self ..))]
    exact foldl_nohit' c v l init (fun k' hk' => h k' (List.mem_cons_of_mem _ hk'))

theorem foldl_zero_or [Zero α] [Add α] (c : Nat → Prop) [DecidablePred c] (v : Nat → α) (hv : ∀ k, v k = 0) :
    ∀ (l : List Nat), l.Nodup → (∀ a b, a ∈ l → b ∈ l → c a → c b → a = b) →
      l.foldl (fun s k => if c k then s + v k else s) (0 : α) = 0 ∨
      l.foldl (fun s k => if c k then s + v k else s) (0 : α) = 0 + 0
  | [], _, _ => Or.inl rfl
  | k :: l, hn, hu => by
    rw [List.foldl_cons]
    have hn' := List.nodup_cons.mp hn
    by_cases h : c k
    · rw [if_pos h, hv k]
      right
      apply foldl_nohit'
      intro k' hk' hc'
      have := hu k k' (List.mem_cons_self ..) (List.mem_cons_of_mem _ hk') h hc'
      subst this
      exact hn'.1 hk'
    · rw [if_neg h]
      exact foldl_zero_or c v hv l hn'.2
        (fun a b ha hb => hu a b (List.mem_cons_of_mem _ ha) (List.mem_cons_of_mem _ hb))

theorem strict_interval (f : Nat → Nat) (b e : Nat) (h : ∀ k, b ≤ k → k + 1 < e → f k < f (k + 1)) :
    ∀ d k, b ≤ k → k + d + 1 < e → f k < f (k + d + 1)
  | 0, k, h1, h2 => h k h1 h2
  | d + 1, k, h1, h2 =>
    Nat.lt_trans (strict_interval f b e h d k h1 (by omega)) (h (k + d + 1) (by omega) (by omega))

theorem interval_inj (f : Nat → Nat) (b e : Nat) (h : ∀ k, b ≤ k → k + 1 < e → f k < f (k + 1))
    {k1 k2 : Nat} (h1 : b ≤ k1) (h1' : k1 < e) (h2 : b ≤ k2) (h2' : k2 < e) (hf : f k1 = f k2) : k1 = k2 := by
  rcases Nat.lt_trichotomy k1 k2 with h3 | h3 | h3
  · have := strict_interval f b e h (k2 - k1 - 1) k1 h1 (by omega)
    rw [show k1 + (k2 - k1 - 1) + 1 = k2 by omega] at this
    omega
  · exact h3
  · have := strict_interval f b e h (k1 - k2 - 1) k2 h2 (by omega)
    rw [show k2 + (k1 - k2 - 1) + 1 = k1 by omega] at this
    omega

/-- one row `[b, e)` of a CSR-like pattern with strictly increasing columns, all values zero -/
theorem row_zero_or [Zero α] [Add α] (colInd : Array Nat) (dflt jj b e : Nat) (v : Nat → α) (hv : ∀ k, v k = 0)
    (he : e ≤ colInd.size) (hs : ∀ k, b ≤ k → k + 1 < e → colInd.getD k 0 < colInd.getD (k + 1) 0) :
    foldRange b e (fun s k => if colInd.getD k dflt = jj then s + v k else s) (0 : α) = 0 ∨
    foldRange b e (fun s k => if colInd.getD k dflt = jj then s + v k else s) (0 : α) = 0 + 0 := by
  unfold foldRange
  apply foldl_zero_or (fun k => colInd.getD k dflt = jj) v hv _ (List.nodup_range' ..)
  intro k1 k2 m1 m2 c1 c2
  simp only [List.mem_range'_1] at m1 m2
  have e1 := getD_default colInd (show k1 < colInd.size by omega) dflt 0
  have e2 := getD_default colInd (show k2 < colInd.size by omega) dflt 0
  exact interval_inj (fun k => colInd.getD k 0) b e hs m1.1 (by omega) m2.1 (by omega)
    (by show colInd.getD k1 0 = colInd.getD k2 0; rw [← e1, ← e2, c1, c2])

end RebuildAux

namespace RebuildAux
variable {α : Type}

theorem csr_zero_or [Zero α] [Add α] (A : Csr α) (hv : A.valid = true) (hz : ∀ k, A.val.getD k 0 = 0) (i j : Nat)
    (hi : i < A.rows) : A.entry i j = 0 ∨ A.entry i j = 0 + 0 := by
  rcases valid_cases hv with h | h
  · exact Or.inl (arrayless_entry h i j)
  · unfold Csr.entry Csr.rowBegin Csr.rowEnd
    apply row_zero_or A.colInd A.cols j _ _ (fun k => A.val.getD k 0) hz
    · rw [h.colSize]; exact rowPtr_le h (by omega)
    · exact h.sorted i hi

theorem banded_zero_or [Zero α] [Add α] (A : Banded α) (hv : A.wf = true) (hz : ∀ k, A.val.getD k 0 = 0) (i j : Nat) :
    A.entry i j = 0 ∨ A.entry i j = 0 + 0 := by
  simp only [Banded.wf, Bool.and_eq_true, List.all_eq_true, List.mem_range, decide_eq_true_eq] at hv
  obtain ⟨_, h3⟩ := hv
  unfold Banded.entry foldRange
  apply foldl_zero_or (fun k => i + A.offsets.getD k 0 + 1 = j + A.rows) (fun k => A.val.getD (k * A.rows + i) 0)
    (fun k => hz _) _ (List.nodup_range' ..)
  intro k1 k2 m1 m2 c1 c2
  simp only [List.mem_range'_1] at m1 m2
  exact interval_inj (fun k => A.offsets.getD k 0) 0 A.noo (fun k _ hk => h3 k (by omega)) (Nat.zero_le _) (by omega)
    (Nat.zero_le _) (by omega) (by show A.offsets.getD k1 0 = A.offsets.getD k2 0; omega)

theorem bcsr_zero_or [Zero α] [Add α] (A : Bcsr α) (hv : A.valid = true) (hz : ∀ k, A.val.getD k 0 = 0) (i j : Nat)
    (hi : i < A.rows * A.bh) : A.entry i j = 0 ∨ A.entry i j = 0 + 0 := by
  unfold Bcsr.entry
  split
  · exact Or.inl rfl
  · dsimp only
    simp only [Bcsr.valid, Bcsr.isArrayless, Bcsr.wf, Bcsr.sortedRows, Array.isEmpty, Bool.or_eq_true,
      Bool.and_eq_true, beq_iff_eq, List.all_eq_true, List.mem_range, List.mem_range'_1, decide_eq_true_eq] at hv
    have hrow : i / A.bh < A.rows := Nat.div_lt_of_lt_mul (by rw [Nat.mul_comm]; exact hi)
    rcases hv with ⟨⟨h1, _⟩, _⟩ | ⟨⟨⟨⟨⟨⟨a, _⟩, c⟩, _⟩, e⟩, _⟩, g⟩
    · left
      have e1 : ∀ q, A.rowPtr.getD q 0 = 0 := by intro q; simp [Array.getD, h1]
      rw [e1, e1]; rfl
    · apply row_zero_or A.colInd A.cols (j / A.bw) _ _
        (fun k => A.val.getD (k * A.bh * A.bw + i % A.bh * A.bw + j % A.bw) 0) (fun k => hz _)
      · have := mono_le_last (fun q => A.rowPtr.getD q 0) A.rows e (A.rows - (i / A.bh + 1)) (i / A.bh + 1) (by omega)
        simp only [c] at this
        exact this
      · intro k h1 h2
        exact g (i / A.bh) hrow k ⟨h1, by omega⟩

theorem foldl_outer_nohit {β : Type} (d : Nat → Prop) [DecidablePred d] (G : Nat → β → β) :
    ∀ (l : List Nat) (init : β), (∀ k, k ∈ l → ¬ d k) → l.foldl (fun s k => if d k then G k s else s) init = init
  | [], _, _ => rfl
  | k :: l, init, h => by
    rw [List.foldl_cons, if_neg (h k (List.mem_cons_self ..))]
    exact foldl_outer_nohit d G l init (fun k' hk' => h k' (List.mem_cons_of_mem _ hk'))

theorem foldl_outer_or {β : Type} (P : β → Prop) (z : β) (hz : P z) (d : Nat → Prop) [DecidablePred d]
    (G : Nat → β → β) :
    ∀ (l : List Nat), l.Nodup → (∀ a b, a ∈ l → b ∈ l → d a → d b → a = b) → (∀ k, k ∈ l → d k → P (G k z)) →
      P (l.foldl (fun s k => if d k then G k s else s) z)
  | [], _, _, _ => hz
  | k :: l, hn, hu, hg => by
    rw [List.foldl_cons]
    have hn' := List.nodup_cons.mp hn
    by_cases h : d k
    · rw [if_pos h, foldl_outer_nohit]
      · exact hg k (List.mem_cons_self ..) h
      · intro k' hk' hc'
        have := hu k k' (List.mem_cons_self ..) (List.mem_cons_of_mem _ hk') h hc'
        subst this
        exact hn'.1 hk'
    · rw [if_neg h]
      exact foldl_outer_or P z hz d G l hn'.2
        (fun a b ha hb => hu a b (List.mem_cons_of_mem _ ha) (List.mem_cons_of_mem _ hb))
        (fun k' hk' => hg k' (List.mem_cons_of_mem _ hk'))

theorem cscr_zero_or [Zero α] [Add α] (A : Cscr α) (hv : A.valid = true) (hz : ∀ k, A.val.getD k 0 = 0) (i j : Nat) :
    A.entry i j = 0 ∨ A.entry i j = 0 + 0 := by
  unfold Cscr.entry
  simp only [Cscr.valid, Cscr.isArrayless, Cscr.wf, Cscr.sortedRows, Array.isEmpty, Bool.or_eq_true,
    Bool.and_eq_true, beq_iff_eq, List.all_eq_true, List.mem_range, List.mem_range'_1, decide_eq_true_eq] at hv
  rcases hv with ⟨_, h4⟩ | ⟨⟨⟨⟨⟨⟨⟨⟨a, _⟩, c⟩, dd⟩, e⟩, _⟩, _⟩, h⟩, g⟩
  · left
    unfold Cscr.usedRows
    rw [h4]; rfl
  · apply foldl_outer_or (fun s : α => s = 0 ∨ s = 0 + 0) 0 (Or.inl rfl) (fun nz => A.rowNumbers.getD nz A.rows = i)
      (fun nz s => foldRange (A.rowPtr.getD nz 0) (A.rowPtr.getD (nz + 1) 0)
        (fun s k => if A.colInd.getD k A.cols = j then s + A.val.getD k 0 else s) s) _ List.nodup_range
    · intro k1 k2 m1 m2 c1 c2
      simp only [List.mem_range] at m1 m2
      unfold Cscr.usedRows at m1 m2 h
      have e1 := getD_default A.rowNumbers m1 A.rows 0
      have e2 := getD_default A.rowNumbers m2 A.rows 0
      exact interval_inj (fun k => A.rowNumbers.getD k 0) 0 A.rowNumbers.size (fun k _ hk => h k (by omega))
        (Nat.zero_le _) m1 (Nat.zero_le _) m2 (by show A.rowNumbers.getD k1 0 = A.rowNumbers.getD k2 0; omega)
    · intro nz hnz _
      simp only [List.mem_range] at hnz
      apply row_zero_or A.colInd A.cols j _ _ (fun k => A.val.getD k 0) hz
      · have := mono_le_last (fun q => A.rowPtr.getD q 0) A.usedRows e (A.usedRows - (nz + 1)) (nz + 1) (by omega)
        simp only [c] at this
        omega
      · intro k h1 h2
        exact g nz hnz k ⟨h1, by omega⟩

end RebuildAux

/-- a valid container all of whose stored values are `0` has only the entries `0` and `0 + 0`
    (no law on the scalars: every `(i, j)` has at most one stored position) -/
theorem entry_zero_or {α} [Zero α] [Add α] (m : Mat α) (hv : m.valid = true)
    (hz : match m with
      | .csr A => ∀ k, A.val.getD k 0 = 0 | .banded A => ∀ k, A.val.getD k 0 = 0 | .cscr A => ∀ k, A.val.getD k 0 = 0
      | .dense A => ∀ k, A.val.getD k 0 = 0 | .bcsr A => ∀ k, A.val.getD k 0 = 0)
    (i j : Nat) (hi : i < m.rows) : m.entry i j = 0 ∨ m.entry i j = 0 + 0 := by
  cases m with
  | csr A => exact csr_zero_or A hv hz i j hi
  | banded A => exact banded_zero_or A hv hz i j
  | cscr A => exact cscr_zero_or A hv hz i j
  | dense A =>
    left
    simp only [Mat.entry, Dense.entry]
    split
    · exact hz _
    · rfl
  | bcsr A =>
    simp only [Mat.valid, Bool.and_eq_true] at hv
    exact bcsr_zero_or A hv.1.1 hz i j hi

/-- clause 5 of the layout rebuild as originally stated (no hypothesis on `+`) -/
theorem layout_rebuild_entry_or {α} [Zero α] [Add α] (m t : Mat α) (hv : m.valid = true)
    (h : m.layoutRebuild = some t) (i j : Nat) (hi : i < m.rows) : t.entry i j = 0 ∨ t.entry i j = 0 + 0 := by
  obtain ⟨tv, tr, _, _⟩ := layout_rebuild_pattern m t hv h
  apply entry_zero_or t tv _ i j (by rw [tr]; exact hi)
  cases m with
  | csr A => simp only [Mat.layoutRebuild, Option.some.injEq] at h; subst h; exact fun k => replicate_getD_zero _ k
  | banded A => simp only [Mat.layoutRebuild, Option.some.injEq] at h; subst h; exact fun k => replicate_getD_zero _ k
  | cscr A => simp only [Mat.layoutRebuild, Option.some.injEq] at h; subst h; exact fun k => replicate_getD_zero _ k
  | dense A => simp [Mat.layoutRebuild] at h
  | bcsr A => simp only [Mat.layoutRebuild, Option.some.injEq] at h; subst h; exact fun k => replicate_getD_zero _ k

end C02L
