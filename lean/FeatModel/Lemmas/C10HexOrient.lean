import FeatModel.Lemmas.C10HexOrient0
import FeatModel.Lemmas.C10HexOrient1
import FeatModel.Lemmas.C10HexOrient2
import FeatModel.Lemmas.C10HexOrient3
import FeatModel.Lemmas.C10HexOrient4
import FeatModel.Lemmas.C10HexOrient5
import FeatModel.Lemmas.C10HexOrient6
import FeatModel.Lemmas.C10HexOrient7
/-! C10 — hexahedron child orientation: positivity of the Jacobian determinant at the corners of all children from
positivity on the parent's 3x3x3 grid. -/
namespace FeatModel.Refine
open FeatModel.Gen.Refine

theorem grid_mem (r k i : Nat) : (bitR r i + bitR k i) / 2 ∈ [(0 : Rat), 1/2, 1] := by
  unfold bitR
  split <;> split <;> norm_num

theorem hex_children_orientation
    (a0 a1 a2 b0 b1 b2 c0 c1 c2 d0 d1 d2 e0 e1 e2 f0 f1 f2 g0 g1 g2 h0 h1 h2 : Rat)
    (hpos : ∀ x ∈ [(0 : Rat), 1/2, 1], ∀ y ∈ [(0 : Rat), 1/2, 1], ∀ z ∈ [(0 : Rat), 1/2, 1],
      0 < hexJacAt (hexMesh [[a0, a1, a2], [b0, b1, b2], [c0, c1, c2], [d0, d1, d2], [e0, e1, e2], [f0, f1, f2],
        [g0, g1, g2], [h0, h1, h2]]) [0, 1, 2, 3, 4, 5, 6, 7] x y z) :
    ∀ r < 8, ∀ k < 8,
      0 < hexJacAt (refine (hexMesh [[a0, a1, a2], [b0, b1, b2], [c0, c1, c2], [d0, d1, d2], [e0, e1, e2],
          [f0, f1, f2], [g0, g1, g2], [h0, h1, h2]]))
        (((refine (hexMesh [[a0, a1, a2], [b0, b1, b2], [c0, c1, c2], [d0, d1, d2], [e0, e1, e2], [f0, f1, f2],
          [g0, g1, g2], [h0, h1, h2]])).idx 3 0).getD r []) (bitR k 0) (bitR k 1) (bitR k 2) := by
  intro r hr k hk
  have key : ∀ v : Rat, 0 < v → 0 < 1 / 8 * v := fun v hv => by positivity
  have hr' : r = 0 ∨ r = 1 ∨ r = 2 ∨ r = 3 ∨ r = 4 ∨ r = 5 ∨ r = 6 ∨ r = 7 := by omega
  rcases hr' with rfl | rfl | rfl | rfl | rfl | rfl | rfl | rfl
  · rw [hex_child_jacobian_0 _ _ _ _ _ _ _ _ _ _ _ _ _ _ _ _ _ _ _ _ _ _ _ _ k hk]
    exact key _ (hpos _ (grid_mem 0 k 0) _ (grid_mem 0 k 1) _ (grid_mem 0 k 2))
  · rw [hex_child_jacobian_1 _ _ _ _ _ _ _ _ _ _ _ _ _ _ _ _ _ _ _ _ _ _ _ _ k hk]
    exact key _ (hpos _ (grid_mem 1 k 0) _ (grid_mem 1 k 1) _ (grid_mem 1 k 2))
  · rw [hex_child_jacobian_2 _ _ _ _ _ _ _ _ _ _ _ _ _ _ _ _ _ _ _ _ _ _ _ _ k hk]
    exact key _ (hpos _ (grid_mem 2 k 0) _ (grid_mem 2 k 1) _ (grid_mem 2 k 2))
  · rw [hex_child_jacobian_3 _ _ _ _ _ _ _ _ _ _ _ _ _ _ _ _ _ _ _ _ _ _ _ _ k hk]
    exact key _ (hpos _ (grid_mem 3 k 0) _ (grid_mem 3 k 1) _ (grid_mem 3 k 2))
  · rw [hex_child_jacobian_4 _ _ _ _ _ _ _ _ _ _ _ _ _ _ _ _ _ _ _ _ _ _ _ _ k hk]
    exact key _ (hpos _ (grid_mem 4 k 0) _ (grid_mem 4 k 1) _ (grid_mem 4 k 2))
  · rw [hex_child_jacobian_5 _ _ _ _ _ _ _ _ _ _ _ _ _ _ _ _ _ _ _ _ _ _ _ _ k hk]
    exact key _ (hpos _ (grid_mem 5 k 0) _ (grid_mem 5 k 1) _ (grid_mem 5 k 2))
  · rw [hex_child_jacobian_6 _ _ _ _ _ _ _ _ _ _ _ _ _ _ _ _ _ _ _ _ _ _ _ _ k hk]
    exact key _ (hpos _ (grid_mem 6 k 0) _ (grid_mem 6 k 1) _ (grid_mem 6 k 2))
  · rw [hex_child_jacobian_7 _ _ _ _ _ _ _ _ _ _ _ _ _ _ _ _ _ _ _ _ _ _ _ _ k hk]
    exact key _ (hpos _ (grid_mem 7 k 0) _ (grid_mem 7 k 1) _ (grid_mem 7 k 2))

end FeatModel.Refine
