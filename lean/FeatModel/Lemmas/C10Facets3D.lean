import FeatModel.Lemmas.C10Boundary
/-! C10 — 3-D, every mesh size: adjacency counts of the fine facets (`facetsOk` lift and boundary preservation for
hexahedral and tetrahedral meshes).  Counting over the generated table `(3,3,2)` (a permutation of "every child of every
face once, every inner face twice"); the four children of a face get four different numbers for every orientation code
the sampler can return. -/
namespace FeatModel.Refine
open FeatModel.Gen.Refine

structure Ok3 (M : Mesh) : Prop where
  dim : M.dim = 3
  shape : M.shapeOk = true

def own3 (kind : Kind) (a : Nat) : Term := ⟨3, refCount kind 3 2, none, .const a⟩

/-- the terms of table `(3,3,2)` that address the four children of the cell's `k`-th face -/
def faceChildTerms : Kind → Nat → List Term
  | .hypercube, k => (List.range 4).map fun j => ⟨2, 4, some (3, 2, k), .sim 2 0 k j⟩
  | .simplex, k => ((List.range 3).map fun j => ⟨2, 4, some (3, 2, k), .sim 2 0 k j⟩) ++ [⟨2, 4, some (3, 2, k), .const 3⟩]

def canon3 (kind : Kind) : List Term :=
  ((List.range (faceCount kind 3 2)).flatMap (faceChildTerms kind)) ++
  ((List.range (refCount kind 3 2)).flatMap fun a => [own3 kind a, own3 kind a])

/-- table `(3,3,2)` lists every child of every face of the cell once and every inner face twice -/
theorem table_perm3 (kind : Kind) : (indexTable kind 3 3 2).flatten.Perm (canon3 kind) := by
  cases kind <;> decide

/-- child numbers addressed through orientation code `o` -/
def childVals : Kind → Int → List Nat
  | .hypercube, o => (List.range 4).map (congLookup .hypercube 2 0 o)
  | .simplex, o => (List.range 3).map (congLookup .simplex 2 0 o) ++ [3]

def faceCodes : Kind → List Int
  | .hypercube => [-1, 0, 1, 2, 3, 4, 5, 6, 7]
  | .simplex => [-1, 0, 1, 2, 4, 5, 6]

theorem childVals_perm (kind : Kind) : ∀ o ∈ faceCodes kind, (childVals kind o).Perm [0, 1, 2, 3] := by
  cases kind <;> decide

theorem compare_face_range (kind : Kind) (s0 s1 : Nat) (trg : List Nat) :
    FeatModel.Refine.compare kind 2 s0 s1 trg ∈ faceCodes kind := by
  cases kind <;> unfold FeatModel.Refine.compare <;> simp only [faceCodes] <;> (repeat' split) <;> simp

theorem off3 (kind : Kind) (nums : List Nat) :
    offset kind nums 2 2 = 0 ∧ offset kind nums 2 3 = 4 * nums.getD 2 0 ∧ offset kind nums 3 3 = 0 ∧
    refCount kind 2 2 = 4 ∧ 0 < refCount kind 3 2 ∧ 0 < refCount kind 3 3 := by
  cases kind <;> simp [offset, refCount, List.range'_succ]


/-- occurrences of fine face `x` among the children of coarse cell `i` -/
def occ3 (M : Mesh) (i x : Nat) : Nat := (canon3 M.kind).countP fun t => evalTerm M 3 2 i t == x

theorem facetCount_refine3 (M : Mesh) (h : Ok3 M) (x : Nat) :
    (refine M).facetCount x = ((List.range (M.num 3)).map fun i => occ3 M i x).sum := by
  unfold Mesh.facetCount
  rw [refine_dim, h.dim, refine_idx M 3 2 (by rw [h.dim]; omega) (by omega)]
  unfold fineIdx
  rw [h.dim]
  simp only [show 3 + 1 - 3 = 1 from rfl, List.range'_one, List.flatMap_cons, List.flatMap_nil, List.append_nil]
  rw [sum_flatMap_count]
  congr 1
  apply List.map_congr_left
  intro i _
  unfold childRows occ3
  rw [← List.map_flatten, List.count_eq_countP, List.countP_map]
  exact (table_perm3 M.kind).countP_eq _

theorem face_child_vals (M : Mesh) (i k : Nat) :
    (faceChildTerms M.kind k).map (evalTerm M 3 2 i)
      = (childVals M.kind (faceCode M i k)).map fun v => 4 * M.entry 3 2 i k + v := by
  obtain ⟨o22, o23, o33, r22, r32, r33⟩ := off3 M.kind M.nums
  cases hk : M.kind with
  | hypercube =>
    simp only [faceChildTerms, childVals, List.map_map]
    apply List.map_congr_left
    intro j _
    simp [evalTerm, evalSrc, evalAdd, simMap, faceCode, offset_self, hk]
  | simplex =>
    simp only [faceChildTerms, childVals, List.map_append, List.map_map, List.map_cons, List.map_nil]
    congr 1
    · apply List.map_congr_left
      intro j _
      simp [evalTerm, evalSrc, evalAdd, simMap, faceCode, offset_self, hk]
    · simp [evalTerm, evalSrc, evalAdd, offset_self]

theorem count_shift (vals : List Nat) (hp : vals.Perm [0, 1, 2, 3]) (Q Q' m : Nat) (hm : m < 4) :
    (vals.map fun v => 4 * Q + v).count (4 * Q' + m) = if Q = Q' then 1 else 0 := by
  rw [(hp.map _).count_eq]
  by_cases hq : Q = Q'
  · subst hq
    have hm' : m = 0 ∨ m = 1 ∨ m = 2 ∨ m = 3 := by omega
    rcases hm' with rfl | rfl | rfl | rfl <;> simp [List.count_cons]
  · simp only [List.map_cons, List.map_nil, List.count_cons, List.count_nil, if_neg hq]
    have e0 : (4 * Q == 4 * Q' + m) = false := by simp; omega
    have e1 : (4 * Q + 1 == 4 * Q' + m) = false := by simp; omega
    have e2 : (4 * Q + 2 == 4 * Q' + m) = false := by simp; omega
    have e3 : (4 * Q + 3 == 4 * Q' + m) = false := by simp; omega
    simp [e0, e1, e2, e3]

theorem face_terms_count (M : Mesh) (i k Q' m : Nat) (hm : m < 4) :
    (faceChildTerms M.kind k).countP (fun t => evalTerm M 3 2 i t == 4 * Q' + m)
      = if M.entry 3 2 i k = Q' then 1 else 0 := by
  have h1 : (faceChildTerms M.kind k).countP (fun t => evalTerm M 3 2 i t == 4 * Q' + m)
      = ((faceChildTerms M.kind k).map (evalTerm M 3 2 i)).count (4 * Q' + m) := by
    rw [List.count_eq_countP, List.countP_map]; rfl
  rw [h1, face_child_vals]
  have hp : (childVals M.kind (faceCode M i k)).Perm [0, 1, 2, 3] :=
    childVals_perm M.kind _ (compare_face_range M.kind _ _ _)
  exact count_shift _ hp _ _ _ hm

theorem face_terms_lt (M : Mesh) (i k : Nat) : ∀ v ∈ (faceChildTerms M.kind k).map (evalTerm M 3 2 i),
    v < 4 * M.entry 3 2 i k + 4 := by
  rw [face_child_vals]
  intro v hv
  obtain ⟨w, hw, rfl⟩ := List.mem_map.1 hv
  have hp : (childVals M.kind (faceCode M i k)).Perm [0, 1, 2, 3] :=
    childVals_perm M.kind _ (compare_face_range M.kind _ _ _)
  have := (hp.mem_iff).1 hw
  simp only [List.mem_cons, List.not_mem_nil, or_false] at this
  omega

theorem occ3_formula (M : Mesh) (i x : Nat) :
    occ3 M i x =
      ((List.range (faceCount M.kind 3 2)).map fun k =>
        (faceChildTerms M.kind k).countP fun t => evalTerm M 3 2 i t == x).sum +
      ((List.range (refCount M.kind 3 2)).map fun a =>
        2 * (if 4 * M.nums.getD 2 0 + refCount M.kind 3 2 * i + a = x then 1 else 0)).sum := by
  obtain ⟨o22, o23, o33, r22, r32, r33⟩ := off3 M.kind M.nums
  unfold occ3 canon3
  rw [List.countP_append, List.countP_flatMap, List.countP_flatMap]
  congr 1
  apply congrArg
  apply List.map_congr_left
  intro a _
  simp [own3, evalTerm, evalSrc, evalAdd, o23, List.countP_cons]
  split <;> simp

theorem shape_facts3 (M : Mesh) (h : Ok3 M) (i : Nat) (hi : i < M.num 3) :
    (M.tuple 3 2 i).length = faceCount M.kind 3 2 ∧ ∀ k < faceCount M.kind 3 2, M.entry 3 2 i k < M.num 2 := by
  obtain ⟨hlen, hrows⟩ := (shapeOk_iff M).1 h.shape 3 (by omega) (by rw [h.dim]; omega) 2 (by omega)
  have hi' : i < (M.idx 3 2).length := by omega
  refine ⟨(hrows _ (tuple_mem_idx M 3 2 i hi')).1, fun k hk => ?_⟩
  exact entry_lt M h.shape 3 2 i k (by omega) (by rw [h.dim]; omega) (by omega) hi hk

theorem occ3_face_child (M : Mesh) (h : Ok3 M) (i Q m : Nat) (hi : i < M.num 3) (hQ : Q < M.num 2) (hm : m < 4) :
    occ3 M i (4 * Q + m) = (M.tuple 3 2 i).count Q := by
  rw [occ3_formula]
  have hn : M.num 2 = M.nums.getD 2 0 := rfl
  have z : ((List.range (refCount M.kind 3 2)).map fun a =>
      2 * (if 4 * M.nums.getD 2 0 + refCount M.kind 3 2 * i + a = 4 * Q + m then 1 else 0)).sum = 0 := by
    apply sum_zero_of_forall
    intro a _
    rw [if_neg (by omega)]
  rw [z, Nat.add_zero]
  obtain ⟨hlen, _⟩ := shape_facts3 M h i hi
  have ht := list_eq_map_getD (M.tuple 3 2 i)
  rw [hlen] at ht
  rw [ht, count_map_sum]
  congr 1
  apply List.map_congr_left
  intro k _
  rw [face_terms_count M i k Q m hm]
  rfl

theorem occ3_inner (M : Mesh) (h : Ok3 M) (i i0 a0 : Nat) (hi : i < M.num 3) (ha0 : a0 < refCount M.kind 3 2) :
    occ3 M i (4 * M.num 2 + refCount M.kind 3 2 * i0 + a0) = if i = i0 then 2 else 0 := by
  rw [occ3_formula]
  have hn : M.num 2 = M.nums.getD 2 0 := rfl
  have z : ((List.range (faceCount M.kind 3 2)).map fun k =>
      (faceChildTerms M.kind k).countP fun t =>
        evalTerm M 3 2 i t == 4 * M.num 2 + refCount M.kind 3 2 * i0 + a0).sum = 0 := by
    apply sum_zero_of_forall
    intro k hk
    rw [List.mem_range] at hk
    have hQ := (shape_facts3 M h i hi).2 k hk
    rw [List.countP_eq_zero]
    intro t ht
    have := face_terms_lt M i k _ (List.mem_map.2 ⟨t, ht, rfl⟩)
    simp only [beq_iff_eq]
    omega
  rw [z, Nat.zero_add, ← hn]
  by_cases hii : i = i0
  · subst hii
    rw [if_pos rfl]
    have : ((List.range (refCount M.kind 3 2)).map fun a =>
        2 * (if 4 * M.num 2 + refCount M.kind 3 2 * i + a = 4 * M.num 2 + refCount M.kind 3 2 * i + a0 then 1 else 0))
        = (List.range (refCount M.kind 3 2)).map fun a => if a = a0 then 2 else 0 := by
      apply List.map_congr_left
      intro a _
      by_cases haa : a = a0
      · simp [haa]
      · rw [if_neg (by omega), if_neg haa]
    rw [this]
    exact sum_indicator_range _ a0 2 ha0
  · rw [if_neg hii]
    apply sum_zero_of_forall
    intro a ha
    rw [List.mem_range] at ha
    have : ¬ (4 * M.num 2 + refCount M.kind 3 2 * i + a = 4 * M.num 2 + refCount M.kind 3 2 * i0 + a0) := by
      intro heq
      exact hii (mul_add_inj (refCount M.kind 3 2) i a i0 a0 ha ha0 (by omega)).1
    rw [if_neg this]

theorem fine_sizes3 (M : Mesh) (h : Ok3 M) :
    (refine M).num 2 = 4 * M.num 2 + refCount M.kind 3 2 * M.num 3 := by
  obtain ⟨o22, o23, o33, r22, r32, r33⟩ := off3 M.kind M.nums
  rw [refine_num M 2 (by rw [h.dim]; omega)]; unfold fineCount
  rw [h.dim, offset_succ _ _ 2 3 (by omega), o23]; simp [Mesh.num]

theorem facetCount_coarse3 (M : Mesh) (h : Ok3 M) (Q : Nat) :
    M.facetCount Q = ((List.range (M.num 3)).map fun i => (M.tuple 3 2 i).count Q).sum := by
  unfold Mesh.facetCount
  rw [h.dim]
  have hlen := ((shapeOk_iff M).1 h.shape 3 (by omega) (by rw [h.dim]; omega) 2 (by omega)).1
  have := idx_eq_map_tuple M 3 2
  rw [hlen] at this
  rw [show (3 : Nat) - 1 = 2 from rfl, this, List.map_map]
  rfl

/-- adjacency counts of the fine faces of a refined 3-D mesh (any size, hexahedra and tetrahedra) -/
theorem facetCount_refine3_cases (M : Mesh) (h : Ok3 M) (x : Nat) (hx : x < (refine M).num 2) :
    (x < 4 * M.num 2 → (refine M).facetCount x = M.facetCount (x / 4)) ∧
    (4 * M.num 2 ≤ x → (refine M).facetCount x = 2) := by
  obtain ⟨o22, o23, o33, r22, r32, r33⟩ := off3 M.kind M.nums
  rw [fine_sizes3 M h] at hx
  rw [facetCount_refine3 M h x]
  constructor
  · intro hlo
    have hx4 : x = 4 * (x / 4) + x % 4 := by omega
    have hQ : x / 4 < M.num 2 := by omega
    have : ((List.range (M.num 3)).map fun i => occ3 M i x)
        = (List.range (M.num 3)).map fun i => (M.tuple 3 2 i).count (x / 4) := by
      apply List.map_congr_left
      intro i hi
      rw [List.mem_range] at hi
      have := occ3_face_child M h i (x / 4) (x % 4) hi hQ (by omega)
      rw [← hx4] at this
      exact this
    rw [this, ← facetCount_coarse3 M h]
  · intro hhi
    obtain ⟨y, hxy⟩ : ∃ y, x = 4 * M.num 2 + y := ⟨x - 4 * M.num 2, by omega⟩
    have hy : y < refCount M.kind 3 2 * M.num 3 := by omega
    have hi0 : y / refCount M.kind 3 2 < M.num 3 := Nat.div_lt_of_lt_mul hy
    have ha0 : y % refCount M.kind 3 2 < refCount M.kind 3 2 := Nat.mod_lt _ r32
    have hxx : x = 4 * M.num 2 + refCount M.kind 3 2 * (y / refCount M.kind 3 2) + y % refCount M.kind 3 2 := by
      have := Nat.div_add_mod y (refCount M.kind 3 2)
      omega
    have : ((List.range (M.num 3)).map fun i => occ3 M i x)
        = (List.range (M.num 3)).map fun i => if i = y / refCount M.kind 3 2 then 2 else 0 := by
      apply List.map_congr_left
      intro i hi
      rw [List.mem_range] at hi
      rw [hxx]
      exact occ3_inner M h i _ _ hi ha0
    rw [this, sum_indicator_range _ _ 2 hi0]

/-- **3-D, every mesh size: `facetsOk` is preserved by refinement** -/
theorem facetsOk_refine3 (M : Mesh) (h : Ok3 M) (hf : M.facetsOk = true) : (refine M).facetsOk = true := by
  rw [facetsOk_iff] at hf ⊢
  rw [refine_dim, h.dim, show (3 : Nat) - 1 = 2 from rfl] at *
  intro x hx
  obtain ⟨c1, c2⟩ := facetCount_refine3_cases M h x hx
  rw [fine_sizes3 M h] at hx
  by_cases hlo : x < 4 * M.num 2
  · rw [c1 hlo]; exact hf _ (by omega)
  · rw [c2 (by omega)]; right; rfl

/-- **3-D: the boundary facets of the refined mesh are exactly the four children of every coarse boundary facet** -/
theorem boundary_refine3 (M : Mesh) (h : Ok3 M) (x : Nat) :
    x ∈ (boundary (refine M)).getD 2 [] ↔ x < 4 * M.num 2 ∧ x / 4 ∈ (boundary M).getD 2 [] := by
  have b1 := boundary_facets M (by rw [h.dim]; omega)
  have b2 := boundary_facets (refine M) (by rw [refine_dim, h.dim]; omega)
  rw [refine_dim] at b2
  rw [h.dim, show (3 : Nat) - 1 = 2 from rfl] at b1 b2
  rw [b1, b2]
  simp only [List.mem_filter, List.mem_range, beq_iff_eq]
  have h1 := fine_sizes3 M h
  obtain ⟨o22, o23, o33, r22, r32, r33⟩ := off3 M.kind M.nums
  constructor
  · rintro ⟨hx, hc⟩
    obtain ⟨c1, c2⟩ := facetCount_refine3_cases M h x hx
    by_cases hlo : x < 4 * M.num 2
    · exact ⟨hlo, by omega, by rw [← c1 hlo]; exact hc⟩
    · rw [c2 (by omega)] at hc; omega
  · rintro ⟨hlo, hE, hc⟩
    have hx : x < (refine M).num 2 := by rw [h1]; omega
    obtain ⟨c1, _⟩ := facetCount_refine3_cases M h x hx
    exact ⟨hx, by rw [c1 hlo]; exact hc⟩


end FeatModel.Refine
