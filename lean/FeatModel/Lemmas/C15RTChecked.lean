import FeatModel.Lemmas.C15RT
namespace FeatModel.FE

/-- the hypotheses of `rt_dual` are exactly what `rtPrepareChecked` (executed by the driver for every Rannacher–Turek
    case) tests: whenever the driver produces an evaluation for a cell, the weighted facet means are dual there -/
theorem rt_dual_checked (sq : Rat → Rat) (g : Rat) (m : Mesh) (c : Nat) (rc : RTCell)
    (h : rtPrepareChecked sq g m c = some rc) (j l : Nat) (hj : j < rtN m.dim) (hl : l < rtN m.dim) :
    rtFunctional sq g m ((m.row m.dim (m.dim - 1) c).getD l 0) (rtValue rc j) = if j = l then 1 else 0 := by
  unfold rtPrepareChecked at h
  cases hp : rtPrepare sq g m c with
  | none => simp [hp] at h
  | some rc' =>
    simp only [hp, Option.bind_some] at h
    split at h
    · rename_i hc
      simp only [Bool.and_eq_true, beq_iff_eq] at hc
      cases h
      exact rt_dual sq g m c _ hp hc.2 j l hj hl hc.1
    · cases h

end FeatModel.FE
