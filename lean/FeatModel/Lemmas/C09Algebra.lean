import FeatModel.Model.MG
import Mathlib.Tactic.Ring
import Mathlib.Tactic.Linarith
import Mathlib.Tactic.FieldSimp
import Mathlib.Tactic.Positivity
/-!
# C09 helper lemmas, data layer: bilinearity of the model's `dot`, linearity of `mulVec`, `filt`, and the scalar
quadratic behind the adaptive coarse grid correction.
-/
namespace FeatModel.MG

theorem foldl_add (l : List Rat) (a : Rat) : l.foldl (· + ·) a = a + l.foldl (· + ·) 0 := by
  induction l generalizing a with
  | nil => simp
  | cons x t ih =>
    simp only [List.foldl_cons]
    rw [ih (a + x), ih (0 + x)]
    ring

theorem dot_nil_left (y : Vec) : dot [] y = 0 := by simp [dot]
theorem dot_nil_right (x : Vec) : dot x [] = 0 := by simp [dot]

theorem dot_cons (a b : Rat) (x y : Vec) : dot (a :: x) (b :: y) = a * b + dot x y := by
  unfold dot
  simp only [List.zipWith_cons_cons, List.foldl_cons]
  rw [foldl_add]
  ring

theorem dot_comm (x y : Vec) : dot x y = dot y x := by
  induction x generalizing y with
  | nil => simp [dot_nil_left, dot_nil_right]
  | cons a x ih =>
    cases y with
    | nil => simp [dot_nil_left, dot_nil_right]
    | cons b y => rw [dot_cons, dot_cons, ih y]; ring

theorem dot_self_nonneg (x : Vec) : 0 ≤ dot x x := by
  induction x with
  | nil => simp [dot_nil_left]
  | cons a x ih => rw [dot_cons]; nlinarith [mul_self_nonneg a]

theorem axpy_nil (a : Rat) : axpy a [] [] = [] := rfl

theorem axpy_cons (a p b : Rat) (x y : Vec) : axpy a (p :: x) (b :: y) = (b + a * p) :: axpy a x y := rfl

theorem axpy_length (a : Rat) (x y : Vec) (h : x.length = y.length) : (axpy a x y).length = y.length := by
  simp [axpy, h]

/-- `⟨y + a x, z⟩ = ⟨y, z⟩ + a ⟨x, z⟩` -/
theorem dot_axpy_left (a : Rat) (x y z : Vec) (h : x.length = y.length) :
    dot (axpy a x y) z = dot y z + a * dot x z := by
  induction y generalizing x z with
  | nil =>
    cases x with
    | nil => simp [axpy_nil, dot_nil_left]
    | cons p x => simp at h
  | cons b y ih =>
    cases x with
    | nil => simp at h
    | cons p x =>
      cases z with
      | nil => simp [dot_nil_right]
      | cons c z =>
        rw [axpy_cons, dot_cons, dot_cons, dot_cons, ih x z (by simpa using h)]
        ring

theorem dot_axpy_right (a : Rat) (x y z : Vec) (h : x.length = y.length) :
    dot z (axpy a x y) = dot z y + a * dot z x := by
  rw [dot_comm, dot_axpy_left a x y z h, dot_comm y z, dot_comm x z]

/-- `‖d − w t‖² = ‖d‖² − 2 w ⟨d,t⟩ + w² ‖t‖²` -/
theorem dot_residual_sq (w : Rat) (t d : Vec) (h : t.length = d.length) :
    dot (axpy (-w) t d) (axpy (-w) t d) = dot d d - 2 * w * dot d t + w ^ 2 * dot t t := by
  rw [dot_axpy_left _ _ _ _ h, dot_axpy_right _ _ _ _ h, dot_axpy_right _ _ _ _ h, dot_comm t d]
  ring

/-- the scalar fact behind both adaptive step lengths: `a w² − 2 b w` is minimal at `w = b / a` when `a > 0` -/
theorem quad_min (a b w : Rat) (ha : 0 < a) :
    (b / a) ^ 2 * a - 2 * (b / a) * b ≤ w ^ 2 * a - 2 * w * b := by
  have h : w ^ 2 * a - 2 * w * b - ((b / a) ^ 2 * a - 2 * (b / a) * b) = a * (w - b / a) ^ 2 := by
    field_simp
    ring
  have : 0 ≤ a * (w - b / a) ^ 2 := by positivity
  linarith

/-! ### linearity of the level operators -/

theorem mulVec_axpy (m : Mat) (a : Rat) (c x : Vec) (h : c.length = x.length) :
    mulVec m (axpy a c x) = axpy a (mulVec m c) (mulVec m x) := by
  induction m with
  | nil => rfl
  | cons r m ih =>
    simp only [mulVec, List.map_cons] at ih ⊢
    rw [ih, dot_axpy_right a c x r h]
    rfl

theorem mulVec_length (m : Mat) (x : Vec) : (mulVec m x).length = m.length := by simp [mulVec]

theorem vsub_axpy (a : Rat) (r u v : Vec) (h : u.length = v.length) :
    vsub r (axpy a u v) = axpy (-a) u (vsub r v) := by
  induction r generalizing u v with
  | nil => simp [vsub, axpy]
  | cons r0 r ih =>
    cases v with
    | nil =>
      cases u with
      | nil => simp [vsub, axpy]
      | cons p u => simp at h
    | cons b v =>
      cases u with
      | nil => simp at h
      | cons p u =>
        have := ih u v (by simpa using h)
        simp only [vsub, axpy, List.zipWith_cons_cons] at this ⊢
        rw [this]
        congr 1
        ring

theorem vsub_length (r v : Vec) : (vsub r v).length = min r.length v.length := by simp [vsub]

theorem filt_aux_axpy (idx : List Nat) (a : Rat) (u v : Vec) (k : Nat) (h : u.length = v.length) :
    List.zipWith (fun i x => if idx.contains i then (0 : Rat) else x) (List.range' k (axpy a u v).length) (axpy a u v)
    = axpy a (List.zipWith (fun i x => if idx.contains i then (0 : Rat) else x) (List.range' k u.length) u)
        (List.zipWith (fun i x => if idx.contains i then (0 : Rat) else x) (List.range' k v.length) v) := by
  induction v generalizing u k with
  | nil =>
    cases u with
    | nil => simp [axpy]
    | cons p u => simp at h
  | cons b v ih =>
    cases u with
    | nil => simp at h
    | cons p u =>
      have := ih u (k + 1) (by simpa using h)
      simp only [axpy_cons, List.length_cons, List.range'_succ, List.zipWith_cons_cons]
      rw [this]
      congr 1
      split <;> ring

theorem filt_axpy (idx : List Nat) (a : Rat) (u v : Vec) (h : u.length = v.length) :
    filt idx (axpy a u v) = axpy a (filt idx u) (filt idx v) := by
  unfold filt
  simp only [List.range_eq_range']
  exact filt_aux_axpy idx a u v 0 h

/-! ### vanishing corrections (the guarded step length of `cgcOmega`) -/

theorem cgcOmega_zero (num : Rat) : cgcOmega num 0 = 1 := by simp [cgcOmega]

theorem cgcOmega_of_ne (num den : Rat) (h : den ≠ 0) : cgcOmega num den = num / den := by
  simp [cgcOmega, h]

theorem dot_zero_right (x : Vec) (n : Nat) : dot x (List.replicate n 0) = 0 := by
  induction x generalizing n with
  | nil => exact dot_nil_left _
  | cons a x ih =>
    cases n with
    | zero => exact dot_nil_right _
    | succ n => rw [List.replicate_succ, dot_cons, ih n]; ring

theorem dot_zero_left (x : Vec) (n : Nat) : dot (List.replicate n 0) x = 0 := by
  rw [dot_comm, dot_zero_right]

theorem mulVec_zero (m : Mat) (n : Nat) : mulVec m (List.replicate n 0) = List.replicate m.length 0 := by
  induction m with
  | nil => rfl
  | cons r m ih =>
    simp only [mulVec, List.map_cons, List.length_cons, List.replicate_succ] at ih ⊢
    rw [ih, dot_zero_right]

theorem filt_aux_zero (idx : List Nat) (k n : Nat) :
    List.zipWith (fun i x => if idx.contains i then (0 : Rat) else x) (List.range' k n) (List.replicate n 0)
      = List.replicate n 0 := by
  induction n generalizing k with
  | zero => rfl
  | succ n ih =>
    simp only [List.range'_succ, List.replicate_succ, List.zipWith_cons_cons, ih (k + 1)]
    congr 1
    split <;> rfl

theorem filt_zero (idx : List Nat) (n : Nat) : filt idx (List.replicate n 0) = List.replicate n 0 := by
  unfold filt
  simp only [List.range_eq_range', List.length_replicate]
  exact filt_aux_zero idx 0 n

theorem axpy_zero (w : Rat) (sol : Vec) : axpy w (List.replicate sol.length 0) sol = sol := by
  induction sol with
  | nil => rfl
  | cons b sol ih =>
    simp only [List.length_cons, List.replicate_succ, axpy_cons, ih]
    congr 1
    ring

end FeatModel.MG
