import FeatModel.Lemmas.C17Colored
/-
C17 (extension): termination of the coloured barrier protocol by a variant function.
Every step of the protocol strictly decreases `CCfg.measure`; with `colored_no_deadlock` every maximal run
ends in a final state and no run from `s` is longer than `c.measure s`.
-/
set_option linter.unusedVariables false

namespace FeatModel.DA

/-- run a list of events -/
def CCfg.run (c : CCfg) : CSt → List Ev → Option CSt
  | s, [] => some s
  | s, e :: es => match c.step s e with | some s' => CCfg.run c s' es | none => none

/-! ## the measure -/

/-- `f i + f (i+1) + … + f (nc-1)` -/
def ct_sumFrom (f : Nat → Nat) (nc i : Nat) : Nat :=
  if i < nc then f i + ct_sumFrom f nc (i + 1) else 0
termination_by nc - i

theorem ct_sumFrom_lt {f : Nat → Nat} {nc i : Nat} (h : i < nc) :
    ct_sumFrom f nc i = f i + ct_sumFrom f nc (i + 1) := by
  rw [ct_sumFrom, if_pos h]

/-- `f 1 + … + f n` -/
def ct_sumW (f : Nat → Nat) : Nat → Nat
  | 0 => 0
  | n + 1 => ct_sumW f n + f (n + 1)

theorem ct_sumW_congr {f g : Nat → Nat} {n : Nat} (h : ∀ w, 1 ≤ w → w ≤ n → f w = g w) :
    ct_sumW f n = ct_sumW g n := by
  induction n with
  | zero => rfl
  | succ n ih =>
    simp only [ct_sumW]
    rw [ih (fun w h1 h2 => h w h1 (by omega)), h (n + 1) (by omega) (by omega)]

theorem ct_sumW_lt {f g : Nat → Nat} {n t : Nat} (h1 : 1 ≤ t) (h2 : t ≤ n)
    (h : ∀ w, 1 ≤ w → w ≤ n → w ≠ t → f w = g w) (ht : f t < g t) :
    ct_sumW f n < ct_sumW g n := by
  induction n with
  | zero => omega
  | succ n ih =>
    simp only [ct_sumW]
    by_cases htn : t = n + 1
    · subst htn
      have := ct_sumW_congr (f := f) (g := g) (n := n) (fun w a b => h w a (by omega) (by omega))
      omega
    · have := ih (by omega) (fun w a b => h w a (by omega))
      have := h (n + 1) (by omega) (by omega) (by omega)
      omega

/-- number of steps of worker `w` for colour `ic`: front wait, enter/leave per element, open, back wait, open -/
def ct_cost (c : CCfg) (ic w : Nat) : Nat := 2 * (c.cend ic w - c.cbeg ic w) + 4

/-- remaining steps of worker `w` -/
def ct_wm (c : CCfg) (s : CSt) (w : Nat) : Nat :=
  match s.ph w with
  | .front => 2 + ct_cost c (s.col w) w + ct_sumFrom (fun ic => ct_cost c ic w) c.nc (s.col w + 1)
  | .idle => 2 + (2 * (c.cend (s.col w) w - (s.pos w + 1)) + 5) + ct_sumFrom (fun ic => ct_cost c ic w) c.nc (s.col w + 1)
  | .insc => 2 + (2 * (c.cend (s.col w) w - (s.pos w + 1)) + 4) + ct_sumFrom (fun ic => ct_cost c ic w) c.nc (s.col w + 1)
  | .toOpen => 2 + 3 + ct_sumFrom (fun ic => ct_cost c ic w) c.nc (s.col w + 1)
  | .back => 2 + 2 + ct_sumFrom (fun ic => ct_cost c ic w) c.nc (s.col w + 1)
  | .toOpen2 => 2 + 1 + ct_sumFrom (fun ic => ct_cost c ic w) c.nc (s.col w + 1)
  | .preComb => 2
  | .inComb => 1
  | .done => 0
  | .ready => 0

/-- remaining steps of the master: `4 n + 4` per colour round, plus the join -/
def ct_mm (c : CCfg) (s : CSt) : Nat :=
  match s.mph with
  | .openFront => (c.nc - s.col 0 - 1) * (4 * c.n + 4) + (4 * c.n + 4) + 1
  | .wait1 => (c.nc - s.col 0 - 1) * (4 * c.n + 4) + (2 * (c.n - s.mi) + 2 + (2 * c.n + 3)) + 1
  | .close1 => (c.nc - s.col 0 - 1) * (4 * c.n + 4) + (2 * (c.n - s.mi) + 1 + (2 * c.n + 3)) + 1
  | .closeFront => (c.nc - s.col 0 - 1) * (4 * c.n + 4) + (2 * c.n + 3) + 1
  | .openBack => (c.nc - s.col 0 - 1) * (4 * c.n + 4) + (2 * c.n + 2) + 1
  | .wait2 => (c.nc - s.col 0 - 1) * (4 * c.n + 4) + (2 * (c.n - s.mi) + 2 + 1) + 1
  | .close2 => (c.nc - s.col 0 - 1) * (4 * c.n + 4) + (2 * (c.n - s.mi) + 1 + 1) + 1
  | .closeBack => (c.nc - s.col 0 - 1) * (4 * c.n + 4) + 1 + 1
  | .join => 1
  | .done => 0

/-- the variant: remaining steps of the master plus remaining steps of all workers -/
def CCfg.measure (c : CCfg) (s : CSt) : Nat := ct_mm c s + ct_sumW (ct_wm c s) c.n

theorem ct_master_step {c : CCfg} {s s' : CSt} (hw : ∀ w, 1 ≤ w → ct_wm c s' w = ct_wm c s w)
    (hm : ct_mm c s' < ct_mm c s) : c.measure s' < c.measure s := by
  unfold CCfg.measure
  rw [ct_sumW_congr (f := ct_wm c s') (g := ct_wm c s) (fun w h1 _ => hw w h1)]
  omega

theorem ct_worker_step {c : CCfg} {s s' : CSt} (t : Nat) (h1 : 1 ≤ t) (h2 : t ≤ c.n)
    (hm : ct_mm c s' = ct_mm c s) (hw : ∀ w, w ≠ t → ct_wm c s' w = ct_wm c s w)
    (ht : ct_wm c s' t < ct_wm c s t) : c.measure s' < c.measure s := by
  unfold CCfg.measure
  have := ct_sumW_lt (f := ct_wm c s') (g := ct_wm c s) h1 h2 (fun w _ _ hne => hw w hne) ht
  omega

theorem ct_tr_decreases {c : CCfg} (hn : 1 ≤ c.n) {s s' : CSt} (tr : CTr c s s') : c.measure s' < c.measure s := by
  cases tr
  case openFront hm => exact ct_master_step (fun _ _ => rfl) (by simp only [ct_mm, hm]; omega)
  case wait1 hm hf => exact ct_master_step (fun _ _ => rfl) (by simp only [ct_mm, hm]; omega)
  case wait2 hm hf => exact ct_master_step (fun _ _ => rfl) (by simp only [ct_mm, hm]; omega)
  case close1a hm hk => exact ct_master_step (fun _ _ => rfl) (by simp only [ct_mm, hm]; omega)
  case close1b hm hk => exact ct_master_step (fun _ _ => rfl) (by simp only [ct_mm, hm]; omega)
  case close2a hm hk => exact ct_master_step (fun _ _ => rfl) (by simp only [ct_mm, hm]; omega)
  case close2b hm hk => exact ct_master_step (fun _ _ => rfl) (by simp only [ct_mm, hm]; omega)
  case closeFront hm => exact ct_master_step (fun _ _ => rfl) (by simp only [ct_mm, hm]; omega)
  case openBack hm => exact ct_master_step (fun _ _ => rfl) (by simp only [ct_mm, hm]; omega)
  case join hm hd => exact ct_master_step (fun _ _ => rfl) (by simp only [ct_mm, hm]; omega)
  case closeBack hm =>
    refine ct_master_step (fun w hw => ?_) ?_
    · have : w ≠ 0 := by omega
      simp [ct_wm, upd, this]
    · by_cases hc : s.col 0 + 1 < c.nc
      · have e : c.nc - s.col 0 - 1 = (c.nc - (s.col 0 + 1) - 1) + 1 := by omega
        simp only [ct_mm, hm, hc, if_true, upd]
        rw [e, Nat.add_mul, Nat.one_mul]
        omega
      · simp [ct_mm, hm, hc]
  case wfront t h1 h2 hp hf =>
    refine ct_worker_step t h1 h2 rfl (fun w hne => ?_) ?_
    · simp [ct_wm, updP, upd, hne]
    · by_cases hlt : c.cbeg (s.col t) t < c.cend (s.col t) t
      · simp only [ct_wm, updP, upd, hp, CCfg.afterElem, if_true, ct_cost, hlt]; omega
      · simp only [ct_wm, updP, hp, CCfg.afterElem, if_true, ct_cost, hlt, if_false]; omega
  case wenter t h1 h2 hp =>
    refine ct_worker_step t h1 h2 rfl (fun w hne => ?_) ?_
    · simp [ct_wm, updP, hne]
    · simp only [ct_wm, updP, hp, if_true]; omega
  case wleave t h1 h2 hp =>
    refine ct_worker_step t h1 h2 rfl (fun w hne => ?_) ?_
    · simp [ct_wm, updP, upd, hne]
    · by_cases hlt : s.pos t + 1 < c.cend (s.col t) t
      · simp only [ct_wm, updP, upd, hp, CCfg.afterElem, if_true, hlt]; omega
      · simp only [ct_wm, updP, hp, CCfg.afterElem, if_true, hlt, if_false]; omega
  case wopen t h1 h2 hp =>
    refine ct_worker_step t h1 h2 rfl (fun w hne => ?_) ?_
    · simp [ct_wm, updP, hne]
    · simp only [ct_wm, updP, hp, if_true]; omega
  case wback t h1 h2 hp hf =>
    refine ct_worker_step t h1 h2 rfl (fun w hne => ?_) ?_
    · simp [ct_wm, updP, hne]
    · simp only [ct_wm, updP, hp, if_true]; omega
  case wcenter t h1 h2 hp hf =>
    refine ct_worker_step t h1 h2 rfl (fun w hne => ?_) ?_
    · simp [ct_wm, updP, hne]
    · simp only [ct_wm, updP, hp, if_true]; omega
  case wcleave t h1 h2 hp =>
    refine ct_worker_step t h1 h2 rfl (fun w hne => ?_) ?_
    · simp [ct_wm, updP, hne]
    · simp only [ct_wm, updP, hp, if_true]; omega
  case wopen2 t h1 h2 hp =>
    have ht0 : (0 : Nat) ≠ t := by omega
    refine ct_worker_step t h1 h2 ?_ (fun w hne => ?_) ?_
    · simp [ct_mm, upd, ht0]
    · simp [ct_wm, updP, upd, hne]
    · by_cases hlt : s.col t + 1 < c.nc
      · simp only [ct_wm, updP, upd, hp, if_true, hlt]
        rw [ct_sumFrom_lt hlt]
        omega
      · cases hcb : c.comb <;> simp only [ct_wm, updP, hp, if_true, hlt, if_false, Bool.false_eq_true] <;> omega

/-! ## termination -/

/-- every step strictly decreases the variant -/
theorem colored_variant_decreases (c : CCfg) (hn : 1 ≤ c.n) (s : CSt) (hs : c.Reach s) (e : Ev) (s' : CSt)
    (h : c.step s e = some s') : c.measure s' < c.measure s :=
  ct_tr_decreases hn (CTr.of_step h)

/-- no run from `s` is longer than the measure of `s` -/
theorem colored_runs_bounded (c : CCfg) (hn : 1 ≤ c.n) (s : CSt) (hs : c.Reach s) (es : List Ev) (s' : CSt)
    (h : c.run s es = some s') : es.length + c.measure s' ≤ c.measure s := by
  induction es generalizing s with
  | nil =>
    simp only [CCfg.run, Option.some.injEq] at h
    subst h
    simp
  | cons e es ih =>
    simp only [CCfg.run] at h
    split at h
    next s1 h1 =>
      have := ih s1 (.step e hs h1) h
      have := colored_variant_decreases c hn s hs e s1 h1
      simp only [List.length_cons]
      omega
    next => simp at h

/-- a state without enabled transition is final -/
theorem colored_maximal_run_final (c : CCfg) (hn : 1 ≤ c.n) (s : CSt) (hs : c.Reach s)
    (hmax : ∀ e, c.step s e = none) : CCfg.final s = true := by
  cases hf : CCfg.final s
  · obtain ⟨e, s', h⟩ := colored_no_deadlock c hn s hs hf
    rw [hmax e] at h
    simp at h
  · rfl

theorem ct_terminates_aux (c : CCfg) (hn : 1 ≤ c.n) (m : Nat) :
    ∀ s, c.Reach s → c.measure s ≤ m → ∃ es s', c.run s es = some s' ∧ CCfg.final s' = true := by
  induction m with
  | zero =>
    intro s hs hm
    cases hf : CCfg.final s
    · obtain ⟨e, s', h⟩ := colored_no_deadlock c hn s hs hf
      have := colored_variant_decreases c hn s hs e s' h
      omega
    · exact ⟨[], s, rfl, hf⟩
  | succ m ih =>
    intro s hs hm
    cases hf : CCfg.final s
    · obtain ⟨e, s1, h⟩ := colored_no_deadlock c hn s hs hf
      have := colored_variant_decreases c hn s hs e s1 h
      obtain ⟨es, s', hr, hfin⟩ := ih s1 (.step e hs h) (by omega)
      exact ⟨e :: es, s', by simp only [CCfg.run, h]; exact hr, hfin⟩
    · exact ⟨[], s, rfl, hf⟩

/-- from every reachable state some run reaches a final state -/
theorem colored_terminates (c : CCfg) (hn : 1 ≤ c.n) (s : CSt) (hs : c.Reach s) :
    ∃ es s', c.run s es = some s' ∧ CCfg.final s' = true :=
  ct_terminates_aux c hn (c.measure s) s hs (Nat.le_refl _)

end FeatModel.DA
